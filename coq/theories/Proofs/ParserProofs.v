(** Fuel sufficiency of the parser model (Model/Parser.v): with fuel [parse_fuel (length ts)] =
    2*|ts|+4 (and the same per included file) [parse_program] never returns [PFuel].

    Method.  [okr b lo r] (b: see [good]): the result [r] is not [PFuel] and, when it is a success, its new position
    is at least [lo].  Every state function started at [pos] with enough fuel satisfies
    [okr b pos] or [okr b (S pos)] (it consumed a token).  Fuel is depth-like (a callee gets the
    caller's fuel minus one), so the bound is linear: a function started at [pos] needs
    [2*(|ts|-pos) + c] where [c] is 1 for parse_decl and 2 for the loops; the expression and
    attribute loops need [|ts|-pos+1].  A real (non-EOF) token seen at [pos] gives [pos < |ts|]
    ([cur_real]); beyond the end every function fails at once on the synthetic EOF. *)
From Coq Require Import Arith Lia List Bool.
From A816 Require Import Model.Parser.
Open Scope nat_scope.

(** [good b r]: [r] is not fuel exhaustion and, when [b] is set, not one of the model's two
    "cannot happen" results either ([PErr EIndex]: [p.backup()] at position 0, and
    [ExpressionAstNode([])]). *)
Definition good (b : bool) {A} (r : pres A) : Prop :=
  r <> PFuel /\ (b = true -> forall t, r <> PErr EIndex t).

Definition okr (b : bool) {A} (lo : nat) (r : R A) : Prop :=
  good b r /\ forall a p, r = POk (a, p) -> lo <= p.

Section Base.
  Variable b : bool.

Lemma good_POk {A} (a : A) : good b (POk a).
Proof. split; [discriminate | intros _ t; discriminate]. Qed.
Lemma good_PErr {A} k t : (b = true -> k <> EIndex) -> @good b A (PErr k t).
Proof. intro H. split; [discriminate | intros Hb t' E; injection E; intros; apply (H Hb); assumption]. Qed.
Lemma good_PUnrep {A} t : @good b A (PUnrep t).
Proof. split; [discriminate | intros _ t'; discriminate]. Qed.
Lemma good_PErr_inv {A} k t : @good b A (PErr k t) -> b = true -> k <> EIndex.
Proof. intros [_ H] Hb E. rewrite E in H. apply (H Hb t). reflexivity. Qed.

Lemma okr_POk {A} lo (a : A) p : lo <= p -> okr b lo (POk (a, p)).
Proof. intro H; split; [apply good_POk|]. intros a' p' E; injection E; intros; subst; exact H. Qed.
Lemma okr_PErr {A} lo k t : (b = true -> k <> EIndex) -> @okr b A lo (PErr k t).
Proof. intro H. split; [apply good_PErr; exact H|]. intros a p E; discriminate E. Qed.
Lemma okr_PUnrep {A} lo t : @okr b A lo (PUnrep t).
Proof. split; [apply good_PUnrep|]. intros a p E; discriminate E. Qed.
Lemma okr_weaken {A} lo lo' (r : R A) : okr b lo r -> lo' <= lo -> okr b lo' r.
Proof. intros [H1 H2] Hle; split; [exact H1|]. intros a p E. specialize (H2 a p E). lia. Qed.

Lemma okr_bind {A B} lo1 lo (r : R A) (k : A * nat -> R B) :
  okr b lo1 r ->
  (forall a p, lo1 <= p -> okr b lo (k (a, p))) ->
  okr b lo (pbind r k).
Proof.
  intros [Hg H2] Hk. destruct r as [[a p]|k0 t0| |]; cbn [pbind].
  - apply Hk. apply (H2 a p eq_refl).
  - apply okr_PErr. apply (good_PErr_inv _ _ Hg).
  - apply okr_PUnrep.
  - destruct Hg; congruence.
Qed.

(** the [.include] bind: the callee is a whole nested parse *)
Lemma okr_bind_sub {A B} lo (r : pres A) (k : A -> R B) :
  good b r -> (forall a, okr b lo (k a)) -> okr b lo (pbind r k).
Proof.
  intros Hg Hk. destruct r as [a|k0 t0| |]; cbn [pbind].
  - apply Hk.
  - apply okr_PErr. apply (good_PErr_inv _ _ Hg).
  - apply okr_PUnrep.
  - destruct Hg; congruence.
Qed.

Lemma okr_expect {A} lo t ty (k : R A) :
  (is_ty t ty = true -> okr b lo k) -> okr b lo (expect t ty k).
Proof. intro H. unfold expect. destruct (is_ty t ty); [auto | apply okr_PErr; intros _; discriminate]. Qed.

End Base.

Lemma is_ty_eof ty : is_ty eof_token ty = true -> ty = T_EOF.
Proof. destruct ty; cbv; congruence. Qed.

Section Tokens.
  Variable b : bool.
  Variable ts : list token.
  Local Notation L := (length ts).

  Lemma cur_eof pos : L <= pos -> cur ts pos = eof_token.
  Proof. intro H. unfold cur. apply nth_overflow. exact H. Qed.

  Lemma cur_real pos ty : is_ty (cur ts pos) ty = true -> ty <> T_EOF -> pos < L.
  Proof.
    intros H Hne. destruct (lt_dec pos L) as [Hlt|Hge]; [exact Hlt|].
    rewrite cur_eof in H by lia. apply is_ty_eof in H. contradiction.
  Qed.

  Lemma cur_not_eof pos : is_ty (cur ts pos) T_EOF = false -> pos < L.
  Proof.
    intro H. destruct (lt_dec pos L) as [Hlt|Hge]; [exact Hlt|].
    rewrite cur_eof in H by lia. cbv in H. discriminate.
  Qed.

  Lemma cur_type_real pos : t_type (cur ts pos) <> T_EOF -> pos < L.
  Proof.
    intro H. destruct (lt_dec pos L) as [Hlt|Hge]; [exact Hlt|].
    rewrite cur_eof in H by lia. cbn in H. congruence.
  Qed.

  (** [real H]: [H] is a true boolean test on [cur ts q] that is false on the synthetic EOF
      token; add [q < L]. *)
  Ltac real H :=
    match type of H with
    | context [cur ts ?q] =>
        lazymatch goal with
        | _ : q < L |- _ => idtac
        | _ =>
          let Hq := fresh "Hreal" in
          assert (Hq : q < L)
            by (let Hge := fresh in
                destruct (lt_dec q L) as [?|Hge]; [assumption|];
                exfalso; rewrite (cur_eof q) in H by lia; cbn in H; discriminate H)
        end
    end.

  (** one mechanical step on an [okr] goal *)
  Ltac step :=
    match goal with
    | |- okr b _ (POk _) => apply okr_POk; cbn [fst snd]; try lia
    | |- okr b _ (PErr _ _) => apply okr_PErr; intros _; discriminate
    | |- okr b _ (PUnrep _) => apply okr_PUnrep
    | |- okr b _ (expect _ _ _) => apply okr_expect; let H := fresh "Hty" in intro H; try real H
    | |- okr b _ (backup (S _) _) => cbn [backup]
    | |- okr b _ (let '(_, _) := (if ?c then _ else _) in _) =>
        let H := fresh "Hb" in destruct c eqn:H; try real H
    | |- okr b _ (let '(_, _) := ?r in _) => destruct r
    | |- okr b _ (if ?c then _ else _) => let H := fresh "Hb" in destruct c eqn:H; try real H
    end.

  (** ------------------------------------------------------------ _parse_expression *)
  Lemma pexpr_S f pos :
    pexpr ts (S f) pos =
    (let t := cur ts pos in
     let p1 := S pos in
     dop hd <- (if is_ty t T_LPAREN then
                  dop r <- pexpr ts f p1;
                  let '(e, p2) := r in
                  expect (cur ts p2) T_RPAREN (POk ((en EK_par t :: e) ++ [en EK_par (cur ts p2)], S p2))
                else if is_ty t T_NUMBER || is_ty t T_BOOLEAN || is_ty t T_IDENTIFIER then
                  POk ([en EK_term t], p1)
                else if is_ty t T_OPERATOR
                        && (str_eqb (t_value t) k_minus || str_eqb (t_value t) k_tilde) then
                  dop r <- pexpr ts f p1;
                  let '(e, p2) := r in POk (en EK_un t :: e, p2)
                else PErr EParse (Some t));
     let '(toks, p3) := hd in
     match toks with
     | [] => POk (toks, p3)
     | _ =>
         let op := cur ts p3 in
         if is_ty op T_OPERATOR then
           dop r <- pexpr ts f (S p3);
           let '(e, p4) := r in POk ((toks ++ [en EK_bin op]) ++ e, p4)
         else POk (toks, p3)
     end).
  Proof. reflexivity. Qed.

  Lemma pexpr_ok f : forall pos, L - pos + 1 <= f -> okr b (S pos) (pexpr ts f pos).
  Proof.
    induction f as [|f IH]; intros pos Hf; [lia|].
    rewrite pexpr_S. cbv zeta.
    eapply okr_bind with (lo1 := S pos).
    - step.
      + eapply okr_bind; [apply IH; lia|]. intros e p2 Hp2. step. step.
      + step.
        * step.
        * step.
          -- eapply okr_bind; [apply IH; lia|]. intros e p2 Hp2. step.
          -- step.
    - intros toks p3 Hp3. destruct toks as [|x toks']; [step|].
      step.
      + eapply okr_bind; [apply IH; lia|]. intros e p4 Hp4. step.
      + step.
  Qed.


  #[local] Hint Extern 1 (_ <= _) => lia : pok.
  #[local] Hint Extern 1 (_ < _) => lia : pok.
  #[local] Hint Resolve pexpr_ok : pok.

  Ltac callee := solve [eauto 3 with pok].
  Ltac go :=
    repeat first
      [ step
      | eapply okr_bind; [callee | let a := fresh "a" in let p := fresh "p" in
                                   let Hp := fresh "Hp" in intros a p Hp; cbn [fst snd]]
      | eapply okr_weaken; [callee | lia]
      | match goal with
        | |- okr b _ (match ?x with _ => _ end) => destruct x eqn:?
        end ].

  (** _parse_expression never returns an empty list: [ExpressionAstNode([])] cannot happen *)
  Lemma pexpr_nonempty f pos e p : pexpr ts f pos = POk (e, p) -> e <> [].
  Proof.
    destruct f; [discriminate|]. rewrite pexpr_S. cbv zeta.
    repeat match goal with
      | |- context [if ?b then _ else _] => destruct b
      | |- context [pbind (pexpr ts f ?q) _] => destruct (pexpr ts f q) as [[? ?]| | |]; cbn [pbind]
      | |- context [expect ?t ?ty _] => unfold expect
      end;
      cbn [pbind app]; try discriminate;
      repeat match goal with
      | |- context [if ?b then _ else _] => destruct b
      | |- context [pbind (pexpr ts f ?q) _] => destruct (pexpr ts f q) as [[? ?]| | |]; cbn [pbind]
      end; cbn [pbind app]; try discriminate;
      intro H; injection H; intros; subst; discriminate.
  Qed.

  Lemma pexpression_ok f pos : L - pos + 1 <= f -> okr b (S pos) (pexpression ts f pos).
  Proof.
    intro Hf. unfold pexpression.
    destruct (pexpr_ok f pos Hf) as [Hg Hadv].
    destruct (pexpr ts f pos) as [[e p]|k0 t0| |] eqn:E; cbn [pbind fst].
    - pose proof (pexpr_nonempty f pos e p E) as Hne.
      destruct e; [contradiction|]. apply okr_POk. apply (Hadv _ _ eq_refl).
    - apply okr_PErr. eapply good_PErr_inv; exact Hg.
    - apply okr_PUnrep.
    - destruct Hg as [Hg _]. congruence.
  Qed.
  #[local] Hint Resolve pexpression_ok : pok.

  Lemma pexpr_real f pos r : pexpr ts f pos = POk r -> pos < L.
  Proof.
    intro H. destruct (lt_dec pos L) as [Hlt|Hge]; [exact Hlt|]. exfalso.
    destruct f; [discriminate H|]. rewrite pexpr_S in H. cbv zeta in H.
    rewrite cur_eof in H by lia. cbn in H. discriminate H.
  Qed.
  Lemma pexpression_real f pos r : pexpression ts f pos = POk r -> pos < L.
  Proof.
    unfold pexpression. destruct (pexpr ts f pos) as [x| | |] eqn:E; cbn [pbind]; try discriminate.
    intros _. eapply pexpr_real; eassumption.
  Qed.

  (** ------------------------------------------------------------ opcode statements *)
  Lemma poperand_ok f mode0 opc pos :
    L - pos + 1 <= f -> okr b pos (poperand ts f mode0 opc pos).
  Proof. intro Hf. unfold poperand. cbv zeta. go. Qed.
  #[local] Hint Resolve poperand_ok : pok.

  Lemma popcode_ok f pos : pos < L -> L - pos <= f -> okr b (S pos) (popcode ts f pos).
  Proof. intros Hpos Hf. unfold popcode. cbv zeta. go. Qed.
  #[local] Hint Resolve popcode_ok : pok.

  (** ------------------------------------------------------------ attribute loops *)
  Lemma pmacro_args_loop_ok f : forall pos acc,
    L - pos + 1 <= f -> okr b pos (pmacro_args_loop ts f pos acc).
  Proof.
    induction f as [|f IH]; intros pos acc Hf; [lia|].
    cbn [pmacro_args_loop]. cbv zeta. go.
  Qed.
  #[local] Hint Resolve pmacro_args_loop_ok : pok.

  Lemma pmacro_args_ok f pos : L - pos + 1 <= f -> okr b pos (pmacro_args ts f pos).
  Proof. intro Hf. unfold pmacro_args. cbv zeta. go. Qed.
  #[local] Hint Resolve pmacro_args_ok : pok.

  Lemma okr_lit_eval {A} lo t (k : Z -> R A) : (forall v, okr b lo (k v)) -> okr b lo (lit_eval t k).
  Proof. intro H. unfold lit_eval. destruct (py_int_literal (t_value t)); [apply H | apply okr_PErr; intros _; discriminate]. Qed.

  Lemma pmap_loop_ok f : forall pos args ps,
    L - pos + 1 <= f -> okr b pos (pmap_loop ts f pos args ps).
  Proof.
    induction f as [|f IH]; intros pos args ps Hf; [lia|].
    cbn [pmap_loop]. cbv zeta.
    repeat first [ progress go | apply okr_lit_eval; intro ].
  Qed.
  #[local] Hint Resolve pmap_loop_ok : pok.

  Lemma pmap_ok f pos : L - pos + 1 <= f -> okr b pos (pmap ts f pos).
  Proof. intro Hf. unfold pmap. cbv zeta. go. Qed.
  #[local] Hint Resolve pmap_ok : pok.

  Lemma pstruct_loop_ok f : forall pos fields,
    L - pos + 1 <= f -> okr b pos (pstruct_loop ts f pos fields).
  Proof.
    induction f as [|f IH]; intros pos fields Hf; [lia|].
    cbn [pstruct_loop]. cbv zeta. go.
  Qed.
  #[local] Hint Resolve pstruct_loop_ok : pok.

  Lemma pstruct_ok f pos : L - pos + 1 <= f -> okr b pos (pstruct ts f pos).
  Proof. intro Hf. unfold pstruct. cbv zeta. go. Qed.
  #[local] Hint Resolve pstruct_ok : pok.

  (** ------------------------------------------------------------ simple statements *)
  Lemma pquoted_ok pos : okr b (S pos) (pquoted ts pos).
  Proof. unfold pquoted. cbv zeta. go. Qed.
  #[local] Hint Resolve pquoted_ok : pok.

  Lemma pinclude_ips_ok f pos : L - pos + 1 <= f -> okr b pos (pinclude_ips ts f pos).
  Proof. intro Hf. unfold pinclude_ips. cbv zeta. go. Qed.
  #[local] Hint Resolve pinclude_ips_ok : pok.

  Lemma pcode_lookup_ok pos : okr b pos (pcode_lookup ts pos).
  Proof. unfold pcode_lookup. cbv zeta. go. Qed.
  #[local] Hint Resolve pcode_lookup_ok : pok.

  Lemma plabel_ok pos : okr b (S pos) (plabel ts (S pos)).
  Proof. unfold plabel. cbv zeta. go. Qed.
  #[local] Hint Resolve plabel_ok : pok.

  Lemma psymbol_ok f pos : pos < L -> L - pos <= f -> okr b (S pos) (psymbol ts f pos).
  Proof. intros Hpos Hf. unfold psymbol. cbv zeta. go. Qed.
  #[local] Hint Resolve psymbol_ok : pok.

  Lemma pstar_eq_ok f pos : L - pos + 1 <= f -> okr b pos (pstar_eq ts f pos).
  Proof. intro Hf. unfold pstar_eq. cbv zeta. go. Qed.
  Lemma pat_eq_ok f pos : L - pos + 1 <= f -> okr b pos (pat_eq ts f pos).
  Proof. intro Hf. unfold pat_eq. cbv zeta. go. Qed.
  #[local] Hint Resolve pstar_eq_ok pat_eq_ok : pok.

  (** ------------------------------------------------------------ statements containing blocks *)
  Variable sub : str -> pres (list ast).
  Hypothesis Hsub : forall name, good b (sub name).

  Section OpenRec.
    Variable PB : nat -> R (list ast).
    Variable PEL : nat -> R margs.
    Variable f pos0 : nat.
    Hypothesis Hpos0 : pos0 < L.
    Hypothesis Hf : L - pos0 <= f.
    Hypothesis HPB : forall q, pos0 < q -> okr b (S q) (PB q).
    Hypothesis HPEL : forall q, pos0 < q -> okr b q (PEL q).
    #[local] Hint Resolve HPB HPEL : pok.

    Lemma pscope_ok q : pos0 < q -> okr b q (pscope ts PB q).
    Proof. intro Hq. unfold pscope. cbv zeta. go. Qed.
    Lemma pelist_ok q : pos0 < q -> okr b q (pelist ts PEL q).
    Proof. intro Hq. unfold pelist. go. Qed.
    #[local] Hint Resolve pscope_ok pelist_ok : pok.
    Lemma pmacro_apply_ok q : pos0 <= q -> okr b (S q) (pmacro_apply ts PEL q).
    Proof. intro Hq. unfold pmacro_apply. cbv zeta. go. Qed.
    Lemma pmacro_ok q : pos0 < q -> okr b q (pmacro ts PB f q).
    Proof. intro Hq. unfold pmacro. cbv zeta. go. Qed.
    Lemma pif_ok q : pos0 < q -> okr b q (pif ts PB f q).
    Proof. intro Hq. unfold pif. cbv zeta. go. Qed.
    Lemma pfor_ok q : pos0 < q -> okr b q (pfor ts PB f q).
    Proof. intro Hq. unfold pfor. cbv zeta. go. Qed.
    #[local] Hint Resolve pmacro_apply_ok pmacro_ok pif_ok pfor_ok : pok.

    Lemma pkeyword_ok : okr b (S pos0) (pkeyword ts sub PB PEL f pos0).
    Proof.
      unfold pkeyword. cbv zeta.
      repeat first [ progress go | apply okr_bind_sub; [apply Hsub | intro] ].
    Qed.
    #[local] Hint Resolve pkeyword_ok : pok.

    Lemma pdecl_body_ok : okr b (S pos0) (pdecl_body ts sub PB PEL f pos0).
    Proof.
      unfold pdecl_body. cbv zeta.
      destruct (t_type (cur ts pos0)); go.
    Qed.
  End OpenRec.

  Lemma pdecl_body_eof PB PEL f pos : L <= pos ->
    pdecl_body ts sub PB PEL f pos = PErr EParse (Some eof_token).
  Proof. intro H. unfold pdecl_body. rewrite cur_eof by lia. reflexivity. Qed.

  (** ------------------------------------------------------------ the recursive knot *)
  Lemma pdecl_S f pos :
    pdecl ts sub (S f) pos =
    pdecl_body ts sub (fun p => pblock ts sub f p []) (fun p => pel ts sub f p []) f pos.
  Proof. reflexivity. Qed.

  Lemma pblock_S f pos acc :
    pblock ts sub (S f) pos acc =
    (let c := cur ts pos in
     if is_ty c T_EOF || is_ty c T_RBRACE then expect c T_RBRACE (POk (acc, S pos))
     else dop r <- pdecl ts sub f pos; pblock ts sub f (snd r) (opt_app acc (fst r))).
  Proof. reflexivity. Qed.

  Lemma pel_S f pos acc :
    pel ts sub (S f) pos acc =
    (let c := cur ts pos in
     if is_ty c T_RPAREN then POk (acc, pos)
     else
       dop r <- (if is_ty c T_LBRACE then
                   dop rb <- pblock ts sub f (S pos) [];
                   POk (inr (fst rb, c), snd rb)
                 else
                   dop re <- pexpression ts f pos;
                   POk (inl (fst re), snd re));
       let '(item, p2) := r in
       if is_ty (cur ts p2) T_COMMA then pel ts sub f (S p2) (acc ++ [item])
       else POk (acc ++ [item], p2)).
  Proof. reflexivity. Qed.

  Lemma knot fuel :
    (forall pos, 2 * (L - pos) + 1 <= fuel -> okr b (S pos) (pdecl ts sub fuel pos)) /\
    (forall pos acc, 2 * (L - pos) + 2 <= fuel -> okr b (S pos) (pblock ts sub fuel pos acc)) /\
    (forall pos acc, 2 * (L - pos) + 2 <= fuel -> okr b pos (pel ts sub fuel pos acc)).
  Proof.
    induction fuel as [|f (IHd & IHb & IHe)].
    - repeat split; intros; lia.
    - repeat apply conj.
      + intros pos Hf. rewrite pdecl_S.
        destruct (lt_dec pos L) as [Hlt|Hge].
        * apply pdecl_body_ok; try lia.
          -- intros q Hq. apply IHb. lia.
          -- intros q Hq. apply IHe. lia.
        * rewrite pdecl_body_eof by lia. apply okr_PErr. intros _; discriminate.
      + intros pos acc Hf. rewrite pblock_S. cbv zeta.
        destruct (is_ty (cur ts pos) T_EOF || is_ty (cur ts pos) T_RBRACE) eqn:Hb.
        * go.
        * apply orb_false_elim in Hb. destruct Hb as [Hb _]. apply cur_not_eof in Hb.
          eapply okr_bind; [apply IHd; lia|]. intros a p Hp. cbn [fst snd].
          eapply okr_weaken; [apply IHb; lia | lia].
      + intros pos acc Hf. rewrite pel_S. cbv zeta.
        destruct (is_ty (cur ts pos) T_RPAREN) eqn:Hr; [go|].
        eapply okr_bind with (lo1 := S pos).
        * destruct (is_ty (cur ts pos) T_LBRACE) eqn:Hl.
          -- real Hl. eapply okr_bind; [apply IHb; lia|]. intros a p Hp. go.
          -- destruct (lt_dec pos L) as [Hlt|Hge].
             ++ eapply okr_bind; [apply pexpression_ok; lia|]. intros a p Hp. go.
             ++ assert (H : okr b (S pos) (pexpression ts f pos)) by (apply pexpression_ok; lia).
                destruct H as [Hg _].
                destruct (pexpression ts f pos) as [x|k0 t0| |] eqn:E; cbn [pbind].
                ** apply pexpression_real in E. lia.
                ** apply okr_PErr. eapply good_PErr_inv; exact Hg.
                ** apply okr_PUnrep.
                ** destruct Hg; congruence.
        * intros item p2 Hp2.
          destruct (is_ty (cur ts p2) T_COMMA) eqn:Hc; [|go].
          real Hc. eapply okr_weaken; [apply IHe; lia | lia].
  Qed.

  Lemma pinitial_ok f : forall pos acc,
    2 * (L - pos) + 2 <= f -> good b (pinitial ts sub f pos acc).
  Proof.
    induction f as [|f IH]; intros pos acc Hf; [lia|].
    cbn [pinitial].
    destruct (is_ty (cur ts pos) T_EOF) eqn:He; [apply good_POk|].
    apply cur_not_eof in He.
    destruct (knot f) as (Hd & _ & _).
    specialize (Hd pos ltac:(lia)). destruct Hd as [Hg Hadv].
    destruct (pdecl ts sub f pos) as [[a p]|k0 t0| |]; cbn [pbind fst snd].
    - specialize (Hadv a p eq_refl). apply IH. lia.
    - apply good_PErr. eapply good_PErr_inv; exact Hg.
    - apply good_PUnrep.
    - destruct Hg; congruence.
  Qed.

  (** ------------------------------------------------------------ comments at statement boundaries
      (C16: [parse_decl] returns None for a COMMENT token and both statement loops go on with
      the next token and the same accumulated nodes) *)
  Lemma parse_decl_comment_skip f pos :
    t_type (cur ts pos) = T_COMMENT -> pdecl ts sub (S f) pos = POk (None, S pos).
  Proof. intro H. rewrite pdecl_S. unfold pdecl_body. rewrite H. reflexivity. Qed.

  Lemma parse_initial_comment_skip f pos acc :
    t_type (cur ts pos) = T_COMMENT ->
    pinitial ts sub (S (S f)) pos acc = pinitial ts sub (S f) (S pos) acc.
  Proof.
    intro H. change (pinitial ts sub (S (S f)) pos acc) with
      (if is_ty (cur ts pos) T_EOF then POk acc
       else dop r <- pdecl ts sub (S f) pos; pinitial ts sub (S f) (snd r) (opt_app acc (fst r))).
    rewrite parse_decl_comment_skip by exact H.
    unfold is_ty. rewrite H. reflexivity.
  Qed.

  Lemma parse_block_comment_skip f pos acc :
    t_type (cur ts pos) = T_COMMENT ->
    pblock ts sub (S (S f)) pos acc = pblock ts sub (S f) (S pos) acc.
  Proof.
    intro H. rewrite pblock_S. cbv zeta.
    rewrite parse_decl_comment_skip by exact H.
    unfold is_ty. rewrite H. reflexivity.
  Qed.

End Tokens.

(** ------------------------------------------------------------ entry points *)
Lemma parse_file_unfold incfuel inc fuel ts :
  parse_file incfuel inc fuel ts =
  pinitial ts
    (fun name =>
       match incfuel with
       | O => PErr ERecursion None
       | S i =>
           match inc name with
           | Ok toks => parse_file i inc (parse_fuel (length toks)) toks
           | Err k => PErr k None
           | OutOfFuel => PFuel
           end
       end)
    fuel O [].
Proof. destruct incfuel; reflexivity. Qed.

(** Hypotheses on [inc] (reading + scanning an included file): it never ends in [OutOfFuel] (the
    scanner's own fuel sufficiency, C15_scan); for the second theorem also never in the error kind
    the parser model reserves for its "cannot happen" cases. *)
Definition inc_ok (b : bool) (inc : str -> res (list token)) : Prop :=
  forall name, inc name <> OutOfFuel /\ (b = true -> inc name <> Err EIndex).

Lemma parse_file_good b inc :
  inc_ok b inc ->
  forall incfuel ts, good b (parse_file incfuel inc (parse_fuel (length ts)) ts).
Proof.
  intros Hinc. induction incfuel as [|i IH]; intro ts; rewrite parse_file_unfold.
  - apply pinitial_ok; [intro; apply good_PErr; intros _; discriminate | unfold parse_fuel; lia].
  - apply pinitial_ok; [| unfold parse_fuel; lia].
    intro name. destruct (Hinc name) as [H1 H2].
    destruct (inc name) as [toks|k|]; [apply IH | apply good_PErr; intros Hb E; apply (H2 Hb); congruence | congruence].
Qed.

Lemma parse_program_good b inc ts incfuel fuel :
  inc_ok b inc -> parse_fuel (length ts) <= fuel -> good b (parse_program fuel incfuel inc ts).
Proof.
  intros Hinc Hge. unfold parse_program. rewrite parse_file_unfold.
  apply pinitial_ok; [| unfold parse_fuel in Hge; lia].
  destruct incfuel; [intro; apply good_PErr; intros _; discriminate|].
  intro name. destruct (Hinc name) as [H1 H2].
  destruct (inc name) as [toks|k|];
    [apply parse_file_good; exact Hinc | apply good_PErr; intros Hb E; apply (H2 Hb); congruence | congruence].
Qed.

(** C15 (parser): fuel [2*|ts|+4] suffices -- and so does any larger fuel -- whatever the include
    map and include depth, as long as scanning the included files does not itself run out of fuel. *)
Theorem parse_fuel_sufficient_ge :
  forall (inc : str -> res (list token)) (ts : list token) (incfuel fuel : nat),
    (forall name, inc name <> OutOfFuel) ->
    parse_fuel (length ts) <= fuel ->
    parse_program fuel incfuel inc ts <> PFuel.
Proof.
  intros inc ts incfuel fuel Hinc Hge.
  apply (parse_program_good false inc ts incfuel fuel); [|exact Hge].
  intro name. split; [apply Hinc | discriminate].
Qed.

Theorem parse_fuel_sufficient :
  forall (inc : str -> res (list token)) (ts : list token) (incfuel : nat),
    (forall name, inc name <> OutOfFuel) ->
    parse_program (parse_fuel (length ts)) incfuel inc ts <> PFuel.
Proof. intros inc ts incfuel Hinc. apply parse_fuel_sufficient_ge; [exact Hinc | apply le_n]. Qed.

(** The model's "cannot happen" results are unreachable: [p.backup()] is never executed at
    position 0 (so Python's negative indexing is never reached) and [ExpressionAstNode([])] is
    never constructed. *)
Theorem parse_no_internal_error :
  forall (inc : str -> res (list token)) (ts : list token) (incfuel fuel : nat) (t : option token),
    (forall name, inc name <> OutOfFuel /\ inc name <> Err EIndex) ->
    parse_fuel (length ts) <= fuel ->
    parse_program fuel incfuel inc ts <> PErr EIndex t.
Proof.
  intros inc ts incfuel fuel t Hinc Hge.
  assert (Hok : inc_ok true inc) by (intro name; destruct (Hinc name); split; auto).
  destruct (parse_program_good true inc ts incfuel fuel Hok Hge) as [_ H]. apply H. reflexivity.
Qed.

Theorem parse_expression_ep_fuel_sufficient :
  forall ts : list token, parse_expression_ep (parse_fuel (length ts)) ts <> PFuel.
Proof.
  intro ts. unfold parse_expression_ep.
  assert (H : okr false 1 (pexpression ts (parse_fuel (length ts)) 0))
    by (apply pexpression_ok; unfold parse_fuel; lia).
  destruct H as [[H _] _].
  destruct (pexpression ts (parse_fuel (length ts)) 0); cbn [pbind]; congruence.
Qed.

Print Assumptions parse_fuel_sufficient.
Print Assumptions parse_fuel_sufficient_ge.
Print Assumptions parse_no_internal_error.
Print Assumptions parse_expression_ep_fuel_sufficient.

(** non-vacuity: the model parses (and rejects) something *)
Example parse_nop :
  let nop := {| t_type := T_OPCODE_NAKED; t_value := [110;111;112]%Z; t_pos := None |} in
  parse_program (parse_fuel 2) 0 (fun _ => Err EFile) [nop; eof_token]
  = POk [AOpcode M_none [110;111;112]%Z None None None nop].
Proof. reflexivity. Qed.
Example parse_reject :
  let rb := {| t_type := T_RBRACE; t_value := [125]%Z; t_pos := None |} in
  parse_program (parse_fuel 2) 0 (fun _ => Err EFile) [rb; eof_token] = PErr EParse (Some rb).
Proof. reflexivity. Qed.
