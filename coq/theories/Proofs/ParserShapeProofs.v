(** C01_shape — operand syntax -> addressing mode, proved on the parser model (Model/Parser.v).

    An instruction statement starts at [pos] with an OPCODE (or OPCODE_NAKED) token [opc], an
    optional OPCODE_SIZE token, and its operand starts at [operand_start ts pos].  The expression
    part of the operand is described by what [pexpression] does on it:
    [pexpression ts f q = POk (e, q')] says "the expression tokens at [q .. q'-1] form the flat
    expression [e]" (in particular the token at [q'] is not an OPERATOR).  Every theorem states the
    exact result of [pdecl] (= parse_decl, which dispatches to parse_opcode) : the complete
    [AOpcode mode mnemonic size operand index file_info] and the position after the statement,
    or the exact error.

    Side conditions that end the statement are explicit: "the token after the operand is not an
    ADDRESSING_MODE_INDEX" for the unindexed shapes, and for the parenthesised shapes "the token
    after the closing parenthesis is not an OPERATOR" (otherwise parse_operand_and_addressing
    backtracks and re-reads the operand as a direct expression, e.g. [lda (1)+2]).  For the direct
    shape the expression must not start with LPAREN (that is the parenthesised shape).

    Index values are lower-cased; the stored index of an indexed shape is
    [Some (lower v)] for a non-empty index token value [v]. *)
From Coq Require Import Arith Lia List Bool.
From A816 Require Import Model.Parser Proofs.ParserProofs Proofs.ParserCaseProofs.
Open Scope nat_scope.

Lemma is_ty_eq t ty : t_type t = ty -> is_ty t ty = true.
Proof. intro H. unfold is_ty. rewrite H. destruct ty; reflexivity. Qed.
Lemma is_ty_neq t ty : t_type t <> ty -> is_ty t ty = false.
Proof.
  intro H. unfold is_ty. destruct (t_type t), ty; try reflexivity; exfalso; apply H; reflexivity.
Qed.

Definition k_x : str := [120%Z].

Section Shape.
  Variable ts : list token.
  Variable sub : str -> pres (list ast).
  Variable f : nat.        (* fuel of parse_opcode; [pdecl] gets [S f] *)
  Variable pos : nat.      (* position of the OPCODE / OPCODE_NAKED token *)

  Definition opc : token := cur ts pos.
  Definition has_size : bool := is_ty (cur ts (S pos)) T_OPCODE_SIZE.
  (** first token of the operand *)
  Definition operand_start : nat := if has_size then S (S pos) else S pos.
  (** the size suffix, lower-cased, when it is one of b / w / l *)
  Definition size_of : option vsize :=
    if has_size then to_vsize (lower (t_value (cur ts (S pos)))) else None.
  Definition is_opcode_token : Prop := t_type opc = T_OPCODE \/ t_type opc = T_OPCODE_NAKED.
  Definition mode0 : amode := if is_ty opc T_OPCODE_NAKED then M_none else M_direct.

  (** what parse_opcode does after parse_operand_and_addressing returned (mode, inner, operand)
      at position [p3] *)
  Definition finish (mode : amode) (inner : option str) (operand : option expr) (p3 : nat) : R ast :=
    if is_ty (cur ts p3) T_ADDRESSING_MODE_INDEX then
      let it := cur ts p3 in
      let idx := lower (t_value it) in
      if match inner with
         | Some i => negb (str_eqb i k_s && str_eqb idx k_y)
         | None => false
         end
      then PErr EParse (Some it)
      else match index_map mode with
           | None => PErr EKey None
           | Some m' =>
               POk (AOpcode m' (t_value opc) size_of operand
                      (match idx with [] => inner | _ => Some idx end) opc, S p3)
           end
    else POk (AOpcode mode (t_value opc) size_of operand inner opc, p3).

  Lemma popcode_of_operand mode inner operand p3 :
    poperand ts f mode0 opc operand_start = POk ((mode, inner, operand), p3) ->
    popcode ts f pos = finish mode inner operand p3.
  Proof.
    unfold popcode, finish, operand_start, size_of, has_size, mode0, opc. cbv zeta.
    destruct (is_ty (cur ts (S pos)) T_OPCODE_SIZE); intro H; rewrite H; reflexivity.
  Qed.

  Lemma pdecl_opcode : is_opcode_token ->
    pdecl ts sub (S f) pos = dop x <- popcode ts f pos; POk (Some (fst x), snd x).
  Proof.
    intro H. rewrite pdecl_S. unfold pdecl_body. fold opc. destruct H as [H|H]; rewrite H; reflexivity.
  Qed.

  Lemma pdecl_of_operand mode inner operand p3 :
    is_opcode_token ->
    poperand ts f mode0 opc operand_start = POk ((mode, inner, operand), p3) ->
    pdecl ts sub (S f) pos = dop x <- finish mode inner operand p3; POk (Some (fst x), snd x).
  Proof. intros Ho H. rewrite (pdecl_opcode Ho), (popcode_of_operand _ _ _ _ H). reflexivity. Qed.

  (** ---- finish *)
  Lemma finish_plain mode inner operand p3 :
    t_type (cur ts p3) <> T_ADDRESSING_MODE_INDEX ->
    finish mode inner operand p3 = POk (AOpcode mode (t_value opc) size_of operand inner opc, p3).
  Proof. intro H. unfold finish. rewrite (is_ty_neq _ _ H). reflexivity. Qed.

  Lemma lower_nonempty v : v <> [] -> lower v <> [].
  Proof. destruct v; [congruence | discriminate]. Qed.

  Lemma finish_indexed mode m' operand p3 :
    t_type (cur ts p3) = T_ADDRESSING_MODE_INDEX ->
    t_value (cur ts p3) <> [] ->
    index_map mode = Some m' ->
    finish mode None operand p3 =
    POk (AOpcode m' (t_value opc) size_of operand (Some (lower (t_value (cur ts p3)))) opc, S p3).
  Proof.
    intros H Hv Hm. unfold finish. rewrite (is_ty_eq _ _ H). cbv zeta. rewrite Hm.
    pose proof (lower_nonempty _ Hv) as Hl. destruct (lower (t_value (cur ts p3))); [contradiction|reflexivity].
  Qed.

  (** ---- first token of an expression *)
  Lemma pexpr_first q r :
    pexpr ts f q = POk r ->
    let ty := t_type (cur ts q) in
    ty = T_LPAREN \/ ty = T_NUMBER \/ ty = T_BOOLEAN \/ ty = T_IDENTIFIER \/ ty = T_OPERATOR.
  Proof.
    destruct f as [|f']; [discriminate|]. rewrite pexpr_S. cbv zeta.
    destruct (is_ty (cur ts q) T_LPAREN) eqn:H1; [intros _; left; apply is_ty_true; exact H1|].
    destruct (is_ty (cur ts q) T_NUMBER) eqn:H2; [intros _; right; left; apply is_ty_true; exact H2|].
    destruct (is_ty (cur ts q) T_BOOLEAN) eqn:H3; [intros _; right; right; left; apply is_ty_true; exact H3|].
    destruct (is_ty (cur ts q) T_IDENTIFIER) eqn:H4;
      [intros _; right; right; right; left; apply is_ty_true; exact H4|].
    cbn [orb].
    destruct (is_ty (cur ts q) T_OPERATOR) eqn:H5;
      [intros _; right; right; right; right; apply is_ty_true; exact H5|].
    cbn [andb pbind]. discriminate.
  Qed.

  Lemma pexpression_first q r :
    pexpression ts f q = POk r ->
    let ty := t_type (cur ts q) in
    ty = T_LPAREN \/ ty = T_NUMBER \/ ty = T_BOOLEAN \/ ty = T_IDENTIFIER \/ ty = T_OPERATOR.
  Proof.
    unfold pexpression. destruct (pexpr ts f q) as [x| | |] eqn:E; cbn [pbind]; try discriminate.
    intros _. exact (pexpr_first q x E).
  Qed.

  (** an expression never starts with one of these *)
  Lemma pexpression_first_not q r ty :
    pexpression ts f q = POk r ->
    ty <> T_LPAREN -> ty <> T_NUMBER -> ty <> T_BOOLEAN -> ty <> T_IDENTIFIER -> ty <> T_OPERATOR ->
    is_ty (cur ts q) ty = false.
  Proof.
    intros H n1 n2 n3 n4 n5. apply is_ty_neq. intro E.
    destruct (pexpression_first q r H) as [X|[X|[X|[X|X]]]]; rewrite X in E; congruence.
  Qed.

  (** ---- parse_operand_and_addressing, shape by shape *)
  Notation q := operand_start.

  Lemma poperand_immediate e p3 :
    t_type (cur ts q) = T_SHARP ->
    pexpression ts f (S q) = POk (e, p3) ->
    poperand ts f mode0 opc q = POk ((M_immediate, None, Some e), p3).
  Proof.
    intros Hs He. unfold poperand. cbv zeta. rewrite (is_ty_eq _ _ Hs).
    rewrite (pexpression_first_not _ _ T_EOF He) by discriminate.
    rewrite He. reflexivity.
  Qed.

  Lemma poperand_direct e p3 :
    t_type opc = T_OPCODE ->
    t_type (cur ts q) <> T_LPAREN ->
    pexpression ts f q = POk (e, p3) ->
    poperand ts f mode0 opc q = POk ((M_direct, None, Some e), p3).
  Proof.
    intros Ho Hl He. unfold poperand. cbv zeta.
    rewrite (pexpression_first_not _ _ T_SHARP He) by discriminate.
    rewrite (is_ty_neq _ _ Hl).
    rewrite (pexpression_first_not _ _ T_LBRAKET He) by discriminate.
    rewrite (is_ty_eq _ _ Ho). rewrite He. cbn [pbind fst snd].
    unfold mode0. rewrite is_ty_neq by (rewrite Ho; discriminate). reflexivity.
  Qed.

  Lemma poperand_none :
    t_type opc = T_OPCODE_NAKED ->
    t_type (cur ts q) <> T_SHARP -> t_type (cur ts q) <> T_LPAREN -> t_type (cur ts q) <> T_LBRAKET ->
    poperand ts f mode0 opc q = POk ((M_none, None, None), q).
  Proof.
    intros Ho H1 H2 H3. unfold poperand. cbv zeta.
    rewrite (is_ty_neq _ _ H1), (is_ty_neq _ _ H2), (is_ty_neq _ _ H3).
    rewrite (is_ty_neq opc T_OPCODE) by (rewrite Ho; discriminate).
    unfold mode0. rewrite (is_ty_eq _ _ Ho). reflexivity.
  Qed.

  (** ( E ) *)
  Lemma poperand_paren e p2 :
    t_type (cur ts q) = T_LPAREN ->
    pexpression ts f (S q) = POk (e, p2) ->
    t_type (cur ts p2) = T_RPAREN ->
    t_type (cur ts (S p2)) <> T_OPERATOR ->
    poperand ts f mode0 opc q = POk ((M_indirect, None, Some e), S p2).
  Proof.
    intros Hl He Hr Hop. unfold poperand. cbv zeta.
    rewrite (is_ty_neq _ T_SHARP) by (rewrite Hl; discriminate).
    rewrite (is_ty_eq _ _ Hl). rewrite He. cbn [pbind].
    rewrite (is_ty_neq _ T_ADDRESSING_MODE_INDEX) by (rewrite Hr; discriminate).
    unfold expect. rewrite (is_ty_eq _ _ Hr). unfold peek. fold (cur ts (S p2)).
    rewrite (is_ty_neq _ _ Hop). reflexivity.
  Qed.

  (** ( E , i ) *)
  Lemma poperand_paren_inner e p2 :
    t_type (cur ts q) = T_LPAREN ->
    pexpression ts f (S q) = POk (e, p2) ->
    t_type (cur ts p2) = T_ADDRESSING_MODE_INDEX ->
    t_type (cur ts (S p2)) = T_RPAREN ->
    t_type (cur ts (S (S p2))) <> T_OPERATOR ->
    poperand ts f mode0 opc q =
    POk ((M_dp_or_sr_indirect_indexed, Some (lower (t_value (cur ts p2))), Some e), S (S p2)).
  Proof.
    intros Hl He Hi Hr Hop. unfold poperand. cbv zeta.
    rewrite (is_ty_neq _ T_SHARP) by (rewrite Hl; discriminate).
    rewrite (is_ty_eq _ _ Hl). rewrite He. cbn [pbind].
    rewrite (is_ty_eq _ _ Hi).
    unfold expect. rewrite (is_ty_eq _ _ Hr). unfold peek. fold (cur ts (S (S p2))).
    rewrite (is_ty_neq _ _ Hop). reflexivity.
  Qed.

  (** [ E ] *)
  Lemma poperand_bracket e p2 :
    t_type (cur ts q) = T_LBRAKET ->
    pexpression ts f (S q) = POk (e, p2) ->
    t_type (cur ts p2) = T_RBRAKET ->
    poperand ts f mode0 opc q = POk ((M_indirect_long, None, Some e), S p2).
  Proof.
    intros Hl He Hr. unfold poperand. cbv zeta.
    rewrite (is_ty_neq _ T_SHARP) by (rewrite Hl; discriminate).
    rewrite (is_ty_neq _ T_LPAREN) by (rewrite Hl; discriminate).
    rewrite (is_ty_eq _ _ Hl). rewrite He. cbn [pbind].
    unfold expect. rewrite (is_ty_eq _ _ Hr). reflexivity.
  Qed.

  (** ================================================================ the shape theorems.
      [mn] = [t_value opc], [size_of] = the suffix; every result carries [opc] as file_info. *)
  Local Notation mn := (t_value opc).
  Local Notation idx p := (Some (lower (t_value (cur ts p)))).
  Local Notation not_index p := (t_type (cur ts p) <> T_ADDRESSING_MODE_INDEX).
  Local Notation is_index p := (t_type (cur ts p) = T_ADDRESSING_MODE_INDEX /\ t_value (cur ts p) <> []).

  Ltac finish_with Hop Ho :=
    rewrite (pdecl_of_operand _ _ _ _ Ho Hop).

  (** OPCODE_NAKED alone (the next token starts no operand and is no index) -> M_none *)
  Theorem shape_implied :
    t_type opc = T_OPCODE_NAKED ->
    t_type (cur ts q) <> T_SHARP -> t_type (cur ts q) <> T_LPAREN -> t_type (cur ts q) <> T_LBRAKET ->
    not_index q ->
    pdecl ts sub (S f) pos = POk (Some (AOpcode M_none mn size_of None None opc), q).
  Proof.
    intros Ho H1 H2 H3 Hn.
    rewrite (pdecl_of_operand _ _ _ _ (or_intror Ho) (poperand_none Ho H1 H2 H3)).
    rewrite (finish_plain _ _ _ _ Hn). reflexivity.
  Qed.

  (** # E -> M_immediate *)
  Theorem shape_immediate e p3 :
    is_opcode_token ->
    t_type (cur ts q) = T_SHARP ->
    pexpression ts f (S q) = POk (e, p3) ->
    not_index p3 ->
    pdecl ts sub (S f) pos = POk (Some (AOpcode M_immediate mn size_of (Some e) None opc), p3).
  Proof.
    intros Ho Hs He Hn.
    rewrite (pdecl_of_operand _ _ _ _ Ho (poperand_immediate _ _ Hs He)).
    rewrite (finish_plain _ _ _ _ Hn). reflexivity.
  Qed.

  (** # E , i  is rejected: KeyError from index_map (not a ParserSyntaxError) *)
  Theorem shape_immediate_indexed_rejected e p3 :
    is_opcode_token ->
    t_type (cur ts q) = T_SHARP ->
    pexpression ts f (S q) = POk (e, p3) ->
    t_type (cur ts p3) = T_ADDRESSING_MODE_INDEX ->
    pdecl ts sub (S f) pos = PErr EKey None.
  Proof.
    intros Ho Hs He Hi.
    rewrite (pdecl_of_operand _ _ _ _ Ho (poperand_immediate _ _ Hs He)).
    unfold finish. rewrite (is_ty_eq _ _ Hi). reflexivity.
  Qed.

  (** E -> M_direct *)
  Theorem shape_direct e p3 :
    t_type opc = T_OPCODE ->
    t_type (cur ts q) <> T_LPAREN ->
    pexpression ts f q = POk (e, p3) ->
    not_index p3 ->
    pdecl ts sub (S f) pos = POk (Some (AOpcode M_direct mn size_of (Some e) None opc), p3).
  Proof.
    intros Ho Hl He Hn.
    rewrite (pdecl_of_operand _ _ _ _ (or_introl Ho) (poperand_direct _ _ Ho Hl He)).
    rewrite (finish_plain _ _ _ _ Hn). reflexivity.
  Qed.

  (** E , x|y|s -> M_direct_indexed with that index, lower-cased *)
  Theorem shape_direct_indexed e p3 :
    t_type opc = T_OPCODE ->
    t_type (cur ts q) <> T_LPAREN ->
    pexpression ts f q = POk (e, p3) ->
    is_index p3 ->
    pdecl ts sub (S f) pos = POk (Some (AOpcode M_direct_indexed mn size_of (Some e) (idx p3) opc), S p3).
  Proof.
    intros Ho Hl He [Hi Hv].
    rewrite (pdecl_of_operand _ _ _ _ (or_introl Ho) (poperand_direct _ _ Ho Hl He)).
    rewrite (finish_indexed M_direct _ _ _ Hi Hv eq_refl). reflexivity.
  Qed.

  (** ( E ) -> M_indirect *)
  Theorem shape_indirect e p2 :
    is_opcode_token ->
    t_type (cur ts q) = T_LPAREN ->
    pexpression ts f (S q) = POk (e, p2) ->
    t_type (cur ts p2) = T_RPAREN ->
    t_type (cur ts (S p2)) <> T_OPERATOR ->
    not_index (S p2) ->
    pdecl ts sub (S f) pos = POk (Some (AOpcode M_indirect mn size_of (Some e) None opc), S p2).
  Proof.
    intros Ho Hl He Hr Hop Hn.
    rewrite (pdecl_of_operand _ _ _ _ Ho (poperand_paren _ _ Hl He Hr Hop)).
    rewrite (finish_plain _ _ _ _ Hn). reflexivity.
  Qed.

  (** ( E ) , i -> M_indirect_indexed with index i lower-cased: "y" for the ISA's (dp),y;
      [( E ) , x] parses to the same node with index "x" (its rejection is the opcode table's) *)
  Theorem shape_indirect_indexed e p2 :
    is_opcode_token ->
    t_type (cur ts q) = T_LPAREN ->
    pexpression ts f (S q) = POk (e, p2) ->
    t_type (cur ts p2) = T_RPAREN ->
    is_index (S p2) ->
    pdecl ts sub (S f) pos =
    POk (Some (AOpcode M_indirect_indexed mn size_of (Some e) (idx (S p2)) opc), S (S p2)).
  Proof.
    intros Ho Hl He Hr [Hi Hv].
    assert (Hop : t_type (cur ts (S p2)) <> T_OPERATOR) by (rewrite Hi; discriminate).
    rewrite (pdecl_of_operand _ _ _ _ Ho (poperand_paren _ _ Hl He Hr Hop)).
    rewrite (finish_indexed M_indirect _ _ _ Hi Hv eq_refl). reflexivity.
  Qed.

  (** [ E ] -> M_indirect_long *)
  Theorem shape_indirect_long e p2 :
    is_opcode_token ->
    t_type (cur ts q) = T_LBRAKET ->
    pexpression ts f (S q) = POk (e, p2) ->
    t_type (cur ts p2) = T_RBRAKET ->
    not_index (S p2) ->
    pdecl ts sub (S f) pos = POk (Some (AOpcode M_indirect_long mn size_of (Some e) None opc), S p2).
  Proof.
    intros Ho Hl He Hr Hn.
    rewrite (pdecl_of_operand _ _ _ _ Ho (poperand_bracket _ _ Hl He Hr)).
    rewrite (finish_plain _ _ _ _ Hn). reflexivity.
  Qed.

  (** [ E ] , i -> M_indirect_indexed_long with index i lower-cased ("y" for the ISA's [dp],y;
      [[ E ] , x] parses to the same node with index "x") *)
  Theorem shape_indirect_long_indexed e p2 :
    is_opcode_token ->
    t_type (cur ts q) = T_LBRAKET ->
    pexpression ts f (S q) = POk (e, p2) ->
    t_type (cur ts p2) = T_RBRAKET ->
    is_index (S p2) ->
    pdecl ts sub (S f) pos =
    POk (Some (AOpcode M_indirect_indexed_long mn size_of (Some e) (idx (S p2)) opc), S (S p2)).
  Proof.
    intros Ho Hl He Hr [Hi Hv].
    rewrite (pdecl_of_operand _ _ _ _ Ho (poperand_bracket _ _ Hl He Hr)).
    rewrite (finish_indexed M_indirect_long _ _ _ Hi Hv eq_refl). reflexivity.
  Qed.

  (** ( E , i ) -> M_dp_or_sr_indirect_indexed with the INNER index lower-cased, whatever letter it
      is: "x" for the ISA's (dp,x); [( E , y )] and [( E , s )] parse to the same node with index
      "y" / "s" (their rejection is the opcode table's) *)
  Theorem shape_inner_indexed e p2 :
    is_opcode_token ->
    t_type (cur ts q) = T_LPAREN ->
    pexpression ts f (S q) = POk (e, p2) ->
    t_type (cur ts p2) = T_ADDRESSING_MODE_INDEX ->
    t_type (cur ts (S p2)) = T_RPAREN ->
    t_type (cur ts (S (S p2))) <> T_OPERATOR ->
    not_index (S (S p2)) ->
    pdecl ts sub (S f) pos =
    POk (Some (AOpcode M_dp_or_sr_indirect_indexed mn size_of (Some e) (idx p2) opc), S (S p2)).
  Proof.
    intros Ho Hl He Hi Hr Hop Hn.
    rewrite (pdecl_of_operand _ _ _ _ Ho (poperand_paren_inner _ _ Hl He Hi Hr Hop)).
    rewrite (finish_plain _ _ _ _ Hn). reflexivity.
  Qed.

  (** ( E , s ) , y -> M_stack_indexed_indirect_indexed "y" *)
  Theorem shape_stack_indexed e p2 :
    is_opcode_token ->
    t_type (cur ts q) = T_LPAREN ->
    pexpression ts f (S q) = POk (e, p2) ->
    t_type (cur ts p2) = T_ADDRESSING_MODE_INDEX -> lower (t_value (cur ts p2)) = k_s ->
    t_type (cur ts (S p2)) = T_RPAREN ->
    t_type (cur ts (S (S p2))) = T_ADDRESSING_MODE_INDEX -> lower (t_value (cur ts (S (S p2)))) = k_y ->
    pdecl ts sub (S f) pos =
    POk (Some (AOpcode M_stack_indexed_indirect_indexed mn size_of (Some e) (Some k_y) opc), S (S (S p2))).
  Proof.
    intros Ho Hl He Hi Hs Hr Hi2 Hy.
    assert (Hop : t_type (cur ts (S (S p2))) <> T_OPERATOR) by (rewrite Hi2; discriminate).
    rewrite (pdecl_of_operand _ _ _ _ Ho (poperand_paren_inner _ _ Hl He Hi Hr Hop)).
    unfold finish. rewrite (is_ty_eq _ _ Hi2). cbv zeta. rewrite Hs, Hy. reflexivity.
  Qed.

  (** ( E , i ) , o with (i, o) other than ("s", "y") is a ParserSyntaxError at the outer index
      token: in particular ( E , x ) , y and ( E , y ) , y *)
  Theorem shape_inner_outer_rejected e p2 :
    is_opcode_token ->
    t_type (cur ts q) = T_LPAREN ->
    pexpression ts f (S q) = POk (e, p2) ->
    t_type (cur ts p2) = T_ADDRESSING_MODE_INDEX ->
    t_type (cur ts (S p2)) = T_RPAREN ->
    t_type (cur ts (S (S p2))) = T_ADDRESSING_MODE_INDEX ->
    str_eqb (lower (t_value (cur ts p2))) k_s && str_eqb (lower (t_value (cur ts (S (S p2))))) k_y = false ->
    pdecl ts sub (S f) pos = PErr EParse (Some (cur ts (S (S p2)))).
  Proof.
    intros Ho Hl He Hi Hr Hi2 Hne.
    assert (Hop : t_type (cur ts (S (S p2))) <> T_OPERATOR) by (rewrite Hi2; discriminate).
    rewrite (pdecl_of_operand _ _ _ _ Ho (poperand_paren_inner _ _ Hl He Hi Hr Hop)).
    unfold finish. rewrite (is_ty_eq _ _ Hi2). cbv zeta. rewrite Hne. reflexivity.
  Qed.

  Corollary shape_x_y_rejected e p2 :
    is_opcode_token ->
    t_type (cur ts q) = T_LPAREN ->
    pexpression ts f (S q) = POk (e, p2) ->
    t_type (cur ts p2) = T_ADDRESSING_MODE_INDEX -> lower (t_value (cur ts p2)) = k_x ->
    t_type (cur ts (S p2)) = T_RPAREN ->
    t_type (cur ts (S (S p2))) = T_ADDRESSING_MODE_INDEX ->
    pdecl ts sub (S f) pos = PErr EParse (Some (cur ts (S (S p2)))).
  Proof.
    intros Ho Hl He Hi Hx Hr Hi2. apply (shape_inner_outer_rejected e p2 Ho Hl He Hi Hr Hi2).
    rewrite Hx. reflexivity.
  Qed.

  Corollary shape_y_y_rejected e p2 :
    is_opcode_token ->
    t_type (cur ts q) = T_LPAREN ->
    pexpression ts f (S q) = POk (e, p2) ->
    t_type (cur ts p2) = T_ADDRESSING_MODE_INDEX -> lower (t_value (cur ts p2)) = k_y ->
    t_type (cur ts (S p2)) = T_RPAREN ->
    t_type (cur ts (S (S p2))) = T_ADDRESSING_MODE_INDEX ->
    pdecl ts sub (S f) pos = PErr EParse (Some (cur ts (S (S p2)))).
  Proof.
    intros Ho Hl He Hi Hx Hr Hi2. apply (shape_inner_outer_rejected e p2 Ho Hl He Hi Hr Hi2).
    rewrite Hx. reflexivity.
  Qed.

  (** the one-shot backtrack: ( E ) followed by an OPERATOR is re-read from the opening
      parenthesis as a direct expression [E'] (e.g. [lda (1)+2], [lda (1+2)*3]) *)
  Lemma poperand_backtrack e p2 e' p3 :
    t_type (cur ts q) = T_LPAREN ->
    pexpression ts f (S q) = POk (e, p2) ->
    t_type (cur ts p2) = T_RPAREN ->
    t_type (cur ts (S p2)) = T_OPERATOR ->
    pexpression ts f q = POk (e', p3) ->
    poperand ts f mode0 opc q = POk ((M_direct, None, Some e'), p3).
  Proof.
    intros Hl He Hr Hop He'. unfold poperand. cbv zeta.
    rewrite (is_ty_neq _ T_SHARP) by (rewrite Hl; discriminate).
    rewrite (is_ty_eq _ _ Hl). rewrite He. cbn [pbind].
    rewrite (is_ty_neq _ T_ADDRESSING_MODE_INDEX) by (rewrite Hr; discriminate).
    unfold expect. rewrite (is_ty_eq _ _ Hr). unfold peek. fold (cur ts (S p2)).
    rewrite (is_ty_eq _ _ Hop). rewrite He'. reflexivity.
  Qed.

  Theorem shape_backtrack_direct e p2 e' p3 :
    is_opcode_token ->
    t_type (cur ts q) = T_LPAREN ->
    pexpression ts f (S q) = POk (e, p2) ->
    t_type (cur ts p2) = T_RPAREN ->
    t_type (cur ts (S p2)) = T_OPERATOR ->
    pexpression ts f q = POk (e', p3) ->
    not_index p3 ->
    pdecl ts sub (S f) pos = POk (Some (AOpcode M_direct mn size_of (Some e') None opc), p3).
  Proof.
    intros Ho Hl He Hr Hop He' Hn.
    rewrite (pdecl_of_operand _ _ _ _ Ho (poperand_backtrack _ _ _ _ Hl He Hr Hop He')).
    rewrite (finish_plain _ _ _ _ Hn). reflexivity.
  Qed.

  Theorem shape_backtrack_direct_indexed e p2 e' p3 :
    is_opcode_token ->
    t_type (cur ts q) = T_LPAREN ->
    pexpression ts f (S q) = POk (e, p2) ->
    t_type (cur ts p2) = T_RPAREN ->
    t_type (cur ts (S p2)) = T_OPERATOR ->
    pexpression ts f q = POk (e', p3) ->
    is_index p3 ->
    pdecl ts sub (S f) pos = POk (Some (AOpcode M_direct_indexed mn size_of (Some e') (idx p3) opc), S p3).
  Proof.
    intros Ho Hl He Hr Hop He' [Hi Hv].
    rewrite (pdecl_of_operand _ _ _ _ Ho (poperand_backtrack _ _ _ _ Hl He Hr Hop He')).
    rewrite (finish_indexed M_direct _ _ _ Hi Hv eq_refl). reflexivity.
  Qed.
End Shape.

Print Assumptions shape_implied.
Print Assumptions shape_immediate.
Print Assumptions shape_immediate_indexed_rejected.
Print Assumptions shape_direct.
Print Assumptions shape_direct_indexed.
Print Assumptions shape_indirect.
Print Assumptions shape_indirect_indexed.
Print Assumptions shape_indirect_long.
Print Assumptions shape_indirect_long_indexed.
Print Assumptions shape_inner_indexed.
Print Assumptions shape_stack_indexed.
Print Assumptions shape_inner_outer_rejected.
Print Assumptions shape_x_y_rejected.
Print Assumptions shape_y_y_rejected.
Print Assumptions shape_backtrack_direct.
Print Assumptions shape_backtrack_direct_indexed.

(** ---------------------------------------------------------------- non-vacuity: the theorems applied
    to the token lists the real scanner produces for [LDA.W (0x10,X)], [lda (1,s),y],
    [lda #1,x] and [lda (1)+2,y] (positions as scanned). *)
Module Examples.
  Open Scope Z_scope.
  Definition F : str := [109;97;105;110;46;115].
  Definition tk (ty : ttype) (v : str) (l c : Z) : token :=
    {| t_type := ty; t_value := v; t_pos := Some {| tp_line := l; tp_col := c; tp_file := F |} |}.
  Definition nosub : str -> pres (list ast) := fun _ => PErr EFile None.
  Definition en' k t := {| en_kind := k; en_tok := t |}.

  (* LDA.W (0x10,X) *)
  Definition ts1 : list token :=
    [tk T_OPCODE [76;68;65] 0 0; tk T_OPCODE_SIZE [87] 0 4; tk T_LPAREN [40] 0 6; tk T_NUMBER [48;120;49;48] 0 7;
     tk T_ADDRESSING_MODE_INDEX [88] 0 12; tk T_RPAREN [41] 0 13; tk T_EOF [] 0 14].
  Example ex_inner_x :
    pdecl ts1 nosub 9 0 =
    POk (Some (AOpcode M_dp_or_sr_indirect_indexed [76;68;65] (Some SzW)
                 (Some [en' EK_term (tk T_NUMBER [48;120;49;48] 0 7)]) (Some [120]) (tk T_OPCODE [76;68;65] 0 0)), 6%nat).
  Proof.
    apply (shape_inner_indexed ts1 nosub 8 0 [en' EK_term (tk T_NUMBER [48;120;49;48] 0 7)] 4);
      first [reflexivity | discriminate | (left; reflexivity)].
  Qed.

  (* lda (1,s),y *)
  Definition ts2 : list token :=
    [tk T_OPCODE [108;100;97] 0 0; tk T_LPAREN [40] 0 4; tk T_NUMBER [49] 0 5; tk T_ADDRESSING_MODE_INDEX [115] 0 7;
     tk T_RPAREN [41] 0 8; tk T_ADDRESSING_MODE_INDEX [121] 0 10; tk T_EOF [] 0 11].
  Example ex_stack :
    pdecl ts2 nosub 9 0 =
    POk (Some (AOpcode M_stack_indexed_indirect_indexed [108;100;97] None
                 (Some [en' EK_term (tk T_NUMBER [49] 0 5)]) (Some [121]) (tk T_OPCODE [108;100;97] 0 0)), 6%nat).
  Proof.
    apply (shape_stack_indexed ts2 nosub 8 0 [en' EK_term (tk T_NUMBER [49] 0 5)] 3);
      first [reflexivity | (left; reflexivity)].
  Qed.

  (* lda #1,x *)
  Definition ts3 : list token :=
    [tk T_OPCODE [108;100;97] 0 0; tk T_SHARP [35] 0 4; tk T_NUMBER [49] 0 5; tk T_ADDRESSING_MODE_INDEX [120] 0 7;
     tk T_EOF [] 0 8].
  Example ex_imm_x : pdecl ts3 nosub 9 0 = PErr EKey None.
  Proof.
    apply (shape_immediate_indexed_rejected ts3 nosub 8 0 [en' EK_term (tk T_NUMBER [49] 0 5)] 3);
      first [reflexivity | (left; reflexivity)].
  Qed.

  (* lda (1)+2,y : the backtrack *)
  Definition ts4 : list token :=
    [tk T_OPCODE [108;100;97] 0 0; tk T_LPAREN [40] 0 4; tk T_NUMBER [49] 0 5; tk T_RPAREN [41] 0 6;
     tk T_OPERATOR [43] 0 7; tk T_NUMBER [50] 0 8; tk T_ADDRESSING_MODE_INDEX [121] 0 10; tk T_EOF [] 0 11].
  Example ex_backtrack :
    pdecl ts4 nosub 9 0 =
    POk (Some (AOpcode M_direct_indexed [108;100;97] None
                 (Some [en' EK_par (tk T_LPAREN [40] 0 4); en' EK_term (tk T_NUMBER [49] 0 5);
                        en' EK_par (tk T_RPAREN [41] 0 6); en' EK_bin (tk T_OPERATOR [43] 0 7);
                        en' EK_term (tk T_NUMBER [50] 0 8)])
                 (Some [121]) (tk T_OPCODE [108;100;97] 0 0)), 7%nat).
  Proof.
    apply (shape_backtrack_direct_indexed ts4 nosub 8 0 [en' EK_term (tk T_NUMBER [49] 0 5)] 3
             [en' EK_par (tk T_LPAREN [40] 0 4); en' EK_term (tk T_NUMBER [49] 0 5);
              en' EK_par (tk T_RPAREN [41] 0 6); en' EK_bin (tk T_OPERATOR [43] 0 7);
              en' EK_term (tk T_NUMBER [50] 0 8)] 6);
      first [reflexivity | (left; reflexivity) | (split; [reflexivity | discriminate])].
  Qed.
End Examples.
