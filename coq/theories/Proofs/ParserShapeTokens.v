(** C01_shape, token-list formulation: the statement is BUILT by [stmt_tokens] from an opcode token,
    an optional size token, punctuation / index tokens and an expression-token list [E], placed
    anywhere in a token list ([ts = pre ++ stmt ++ rest]); [parse_decl] at [length pre] returns
    exactly the [AOpcode] of the shape and stops right after the statement.

    [E] is described by what [pexpression] does on it inside [ts]:
    [pexpression ts f qE = POk (e, qE + length E)] with [qE] the position of its first token.
    Everything else is a hypothesis on token TYPES (positions and values of the punctuation are
    arbitrary, index values non-empty).  This file only repackages Proofs/ParserShapeProofs.v. *)
From Coq Require Import Arith Lia List Bool.
From A816 Require Import Model.Parser Proofs.ParserProofs Proofs.ParserCaseProofs Proofs.ParserShapeProofs
  Proofs.ParserFileInfo.
Open Scope nat_scope.

Inductive shape :=
| ShImplied        (* nop                 *)
| ShImm            (* # E                 *)
| ShDirect         (* E                   *)
| ShDirectIdx      (* E , i1              *)
| ShInd            (* ( E )               *)
| ShIndIdx         (* ( E ) , i1          *)
| ShLong           (* [ E ]               *)
| ShLongIdx        (* [ E ] , i1          *)
| ShInner          (* ( E , i1 )          *)
| ShInnerOuter.    (* ( E , i1 ) , i2   with i1 = s, i2 = y *)

Record punct := { pu_sharp : token; pu_lp : token; pu_rp : token; pu_lb : token; pu_rb : token;
                  pu_i1 : token; pu_i2 : token }.
Definition punct_ok (pu : punct) : Prop :=
  t_type (pu_sharp pu) = T_SHARP /\ t_type (pu_lp pu) = T_LPAREN /\ t_type (pu_rp pu) = T_RPAREN /\
  t_type (pu_lb pu) = T_LBRAKET /\ t_type (pu_rb pu) = T_RBRAKET /\
  t_type (pu_i1 pu) = T_ADDRESSING_MODE_INDEX /\ t_value (pu_i1 pu) <> [] /\
  t_type (pu_i2 pu) = T_ADDRESSING_MODE_INDEX /\ t_value (pu_i2 pu) <> [].

Definition opening (pu : punct) (sh : shape) : list token :=
  match sh with
  | ShImm => [pu_sharp pu]
  | ShInd | ShIndIdx | ShInner | ShInnerOuter => [pu_lp pu]
  | ShLong | ShLongIdx => [pu_lb pu]
  | _ => []
  end.
Definition closing (pu : punct) (sh : shape) : list token :=
  match sh with
  | ShDirectIdx => [pu_i1 pu]
  | ShInd => [pu_rp pu]
  | ShIndIdx => [pu_rp pu; pu_i1 pu]
  | ShLong => [pu_rb pu]
  | ShLongIdx => [pu_rb pu; pu_i1 pu]
  | ShInner => [pu_i1 pu; pu_rp pu]
  | ShInnerOuter => [pu_i1 pu; pu_rp pu; pu_i2 pu]
  | _ => []
  end.
(** the operand tokens of a shape *)
Definition shape_tokens (pu : punct) (sh : shape) (E : list token) : list token :=
  match sh with
  | ShImplied => []
  | _ => opening pu sh ++ E ++ closing pu sh
  end.
Definition size_tokens (sz : option token) : list token := match sz with Some s => [s] | None => [] end.
Definition stmt_tokens (o : token) (sz : option token) (pu : punct) (sh : shape) (E : list token) : list token :=
  o :: size_tokens sz ++ shape_tokens pu sh E.

Definition mode_of (sh : shape) : amode :=
  match sh with
  | ShImplied => M_none | ShImm => M_immediate | ShDirect => M_direct | ShDirectIdx => M_direct_indexed
  | ShInd => M_indirect | ShIndIdx => M_indirect_indexed | ShLong => M_indirect_long
  | ShLongIdx => M_indirect_indexed_long | ShInner => M_dp_or_sr_indirect_indexed
  | ShInnerOuter => M_stack_indexed_indirect_indexed
  end.
Definition index_of (pu : punct) (sh : shape) : option str :=
  match sh with
  | ShDirectIdx | ShIndIdx | ShLongIdx | ShInner => Some (lower (t_value (pu_i1 pu)))
  | ShInnerOuter => Some k_y
  | _ => None
  end.
Definition vsize_of (sz : option token) : option vsize :=
  match sz with Some s => to_vsize (lower (t_value s)) | None => None end.

(** what must hold of the token [t] that follows the statement *)
Definition terminator_ok (sh : shape) (sz : option token) (t : token) : Prop :=
  match sh with
  | ShImplied =>
      t_type t <> T_SHARP /\ t_type t <> T_LPAREN /\ t_type t <> T_LBRAKET /\
      t_type t <> T_ADDRESSING_MODE_INDEX /\ (sz = None -> t_type t <> T_OPCODE_SIZE)
  | ShImm | ShDirect | ShLong => t_type t <> T_ADDRESSING_MODE_INDEX
  | ShInd | ShInner => t_type t <> T_ADDRESSING_MODE_INDEX /\ t_type t <> T_OPERATOR
  | _ => True
  end.

Definition ts_of (pre rest E : list token) (o : token) (sz : option token) (pu : punct) (sh : shape) : list token :=
  pre ++ stmt_tokens o sz pu sh E ++ rest.
(** position of the first token of [E] *)
Definition qE_of (pre : list token) (sz : option token) (pu : punct) (sh : shape) : nat :=
  length pre + 1 + length (size_tokens sz) + length (opening pu sh).

(** all side conditions of the theorem *)
Definition shape_hyps (pre rest E : list token) (o : token) (sz : option token) (pu : punct) (sh : shape)
           (f : nat) : Prop :=
  let ts := ts_of pre rest E o sz pu sh in
  let qE := qE_of pre sz pu sh in
  punct_ok pu /\
  match sz with Some s => t_type s = T_OPCODE_SIZE | None => True end /\
  t_type o = match sh with ShImplied => T_OPCODE_NAKED | _ => T_OPCODE end /\
  terminator_ok sh sz (nth 0 rest eof_token) /\
  match sh with
  | ShImplied => True
  | _ => exists e, pexpression ts f qE = POk (e, qE + length E)
  end /\
  match sh with ShDirect | ShDirectIdx => t_type (nth 0 E eof_token) <> T_LPAREN | _ => True end /\
  match sh with
  | ShInnerOuter => lower (t_value (pu_i1 pu)) = k_s /\ lower (t_value (pu_i2 pu)) = k_y
  | _ => True
  end.

Lemma nth_skip {A} (l tl : list A) d P J : P = length l + J -> nth P (l ++ tl) d = nth J tl d.
Proof. intros ->. apply app_nth2_plus. Qed.

Section Tokens.
  Variable sub : str -> pres (list ast).
  Variable f : nat.

  Lemma cur_ts pre rest E o sz pu sh P J :
    P = length pre + J ->
    cur (ts_of pre rest E o sz pu sh) P = nth J (stmt_tokens o sz pu sh E ++ rest) eof_token.
  Proof. intros ->. unfold cur, ts_of. apply app_nth2_plus. Qed.

  Lemma opc_eq pre rest E o sz pu sh : opc (ts_of pre rest E o sz pu sh) (length pre) = o.
  Proof. unfold opc. rewrite (cur_ts pre rest E o sz pu sh _ 0) by lia. reflexivity. Qed.

  (** without a size suffix, the token after the opcode is never a size token *)
  Lemma after_opcode_not_size pre rest E o pu sh :
    shape_hyps pre rest E o None pu sh f ->
    is_ty (cur (ts_of pre rest E o None pu sh) (S (length pre))) T_OPCODE_SIZE = false.
  Proof.
    unfold shape_hyps. cbv zeta. intros (Hpu & Hsz & Ho & Hterm & HE & Hdir & Hsy).
    apply is_ty_neq.
    destruct Hpu as (P1 & P2 & P3 & P4 & P5 & P6 & _).
    rewrite (cur_ts pre rest E o None pu sh _ 1) by lia.
    destruct sh; unfold stmt_tokens, shape_tokens, opening, closing; unfold size_tokens; cbn [app nth];
      try (rewrite P1; discriminate); try (rewrite P2; discriminate); try (rewrite P4; discriminate).
    - (* implied *) destruct Hterm as (_ & _ & _ & _ & H). apply H. reflexivity.
    - (* direct *)
      destruct HE as [e He]. unfold qE_of in He. cbn [size_tokens opening length Nat.add] in He.
      pose proof (pexpression_first _ f _ _ He) as Hf. cbv zeta in Hf.
      rewrite (cur_ts pre rest E o None pu ShDirect _ 1) in Hf by lia.
      unfold stmt_tokens, shape_tokens, opening, closing in Hf. unfold size_tokens in Hf. cbn [app nth] in Hf.
      intro X. rewrite X in Hf. destruct Hf as [Y|[Y|[Y|[Y|Y]]]]; discriminate Y.
    - (* direct indexed *)
      destruct HE as [e He]. unfold qE_of in He. cbn [size_tokens opening length Nat.add] in He.
      pose proof (pexpression_first _ f _ _ He) as Hf. cbv zeta in Hf.
      rewrite (cur_ts pre rest E o None pu ShDirectIdx _ 1) in Hf by lia.
      unfold stmt_tokens, shape_tokens, opening, closing in Hf. unfold size_tokens in Hf. cbn [app nth] in Hf.
      intro X. rewrite X in Hf. destruct Hf as [Y|[Y|[Y|[Y|Y]]]]; discriminate Y.
  Qed.

  Lemma size_facts pre rest E o sz pu sh :
    shape_hyps pre rest E o sz pu sh f ->
    operand_start (ts_of pre rest E o sz pu sh) (length pre) = (length pre + 1 + length (size_tokens sz)) /\ size_of (ts_of pre rest E o sz pu sh) (length pre) = vsize_of sz.
  Proof.
    intro H. unfold operand_start, size_of, has_size, vsize_of. destruct sz as [s|].
    - destruct H as (_ & Hsz & _).
      rewrite (cur_ts pre rest E o (Some s) pu sh _ 1) by lia. unfold stmt_tokens, size_tokens. cbn [app nth].
      rewrite (is_ty_eq _ _ Hsz). cbn [length]. split; [lia | reflexivity].
    - rewrite (after_opcode_not_size _ _ _ _ _ _ H). cbn [size_tokens length]. split; [lia | reflexivity].
  Qed.

  (** C01_shape on built token lists: [parse_decl] at [length pre] returns exactly the node of the
      shape -- mode [mode_of sh], mnemonic [t_value o], size [vsize_of sz], operand = the flat
      expression [pexpression] yields on [E], index [index_of pu sh], file_info [o] -- and ends right
      after the statement. *)
  Theorem C01_shape_tokens pre rest E o sz pu sh :
    shape_hyps pre rest E o sz pu sh f ->
    pdecl (ts_of pre rest E o sz pu sh) sub (S f) (length pre) =
    POk (Some (AOpcode (mode_of sh) (t_value o) (vsize_of sz)
                 (match sh with
                  | ShImplied => None
                  | _ => Some (match pexpression (ts_of pre rest E o sz pu sh) f (qE_of pre sz pu sh) with POk (e, _) => e | _ => [] end)
                  end)
                 (index_of pu sh) o),
         length pre + length (stmt_tokens o sz pu sh E)).
  Proof.
    intro Hall. destruct (size_facts _ _ _ _ _ _ _ Hall) as [Hq Hs].
    pose proof (opc_eq pre rest E o sz pu sh) as Hopc.
    unfold shape_hyps in Hall. cbv zeta in Hall. destruct Hall as (Hpu & Hsz & Ho & Hterm & HE & Hdir & Hsy).
    destruct Hpu as (P1 & P2 & P3 & P4 & P5 & P6 & P7 & P8 & P9).
    destruct sh; cbn [mode_of index_of].
    - (* implied *)
      destruct Hterm as (T1 & T2 & T3 & T4 & _).
      assert (Hn : cur (ts_of pre rest E o sz pu ShImplied) (length pre + 1 + length (size_tokens sz)) = nth 0 rest eof_token).
      { rewrite (cur_ts pre rest E o sz pu ShImplied _ (1 + length (size_tokens sz))) by lia.
        unfold stmt_tokens, shape_tokens. destruct sz; cbn [size_tokens app nth length Nat.add]; reflexivity. }
      pose proof (shape_implied (ts_of pre rest E o sz pu ShImplied) sub f (length pre)) as X. rewrite Hq, Hs, Hopc, Hn in X.
      rewrite (X Ho T1 T2 T3 T4). unfold stmt_tokens, shape_tokens. rewrite app_nil_r. cbn [length].
      f_equal. f_equal. lia.
    - (* # E *)
      destruct HE as [e He]. rewrite He.
      assert (HqE : (qE_of pre sz pu ShImm) = S (length pre + 1 + length (size_tokens sz))) by (unfold qE_of; cbn [opening length]; lia).
      assert (H0 : cur (ts_of pre rest E o sz pu ShImm) (length pre + 1 + length (size_tokens sz)) = pu_sharp pu).
      { rewrite (cur_ts pre rest E o sz pu ShImm _ (1 + length (size_tokens sz))) by (unfold qE_of; cbn [opening length]; lia).
        unfold stmt_tokens, shape_tokens, opening, closing.
        destruct sz; cbn [size_tokens app nth length Nat.add]; reflexivity. }
      assert (H1 : cur (ts_of pre rest E o sz pu ShImm) ((qE_of pre sz pu ShImm) + length E) = nth 0 rest eof_token).
      { rewrite (cur_ts pre rest E o sz pu ShImm _ (1 + length (size_tokens sz) + 1 + length E + 0)) by (unfold qE_of; cbn [opening length]; lia).
        unfold stmt_tokens, shape_tokens, opening, closing.
        destruct sz; cbn [size_tokens app nth length Nat.add]; rewrite <- ?app_assoc; cbn [app nth]; rewrite (nth_skip E _ eof_token _ 0) by lia; reflexivity. }
      pose proof (shape_immediate (ts_of pre rest E o sz pu ShImm) sub f (length pre) e ((qE_of pre sz pu ShImm) + length E)) as X. unfold is_opcode_token in X.
      rewrite Hq, Hs, Hopc, H0, H1 in X. rewrite <- HqE in X.
      rewrite (X (or_introl Ho) P1 He Hterm).
      f_equal. f_equal. unfold stmt_tokens, shape_tokens, opening, closing. unfold qE_of, opening.
      repeat first [rewrite app_length | progress cbn [length app]]; lia.
    - (* E *)
      destruct HE as [e He]. rewrite He.
      assert (HqE : (qE_of pre sz pu ShDirect) = (length pre + 1 + length (size_tokens sz))) by (unfold qE_of; cbn [opening length]; lia).
      assert (H0 : cur (ts_of pre rest E o sz pu ShDirect) (length pre + 1 + length (size_tokens sz)) = nth 0 E eof_token).
      { assert (HEne : E <> []).
        { intro HE0. rewrite HE0 in He at 2. cbn [length] in He. unfold qE_of in He. cbn [opening length] in He.
          pose proof (pexpression_adv (ts_of pre rest E o sz pu ShDirect) f _ _ _ He) as Ha. lia. }
        rewrite (cur_ts pre rest E o sz pu ShDirect _ (1 + length (size_tokens sz))) by lia.
        unfold stmt_tokens, shape_tokens, opening, closing. destruct E as [|x E']; [contradiction|].
        destruct sz; cbn [size_tokens app nth length Nat.add]; reflexivity. }
      assert (H1 : cur (ts_of pre rest E o sz pu ShDirect) ((qE_of pre sz pu ShDirect) + length E) = nth 0 rest eof_token).
      { rewrite (cur_ts pre rest E o sz pu ShDirect _ (1 + length (size_tokens sz) + 0 + length E + 0)) by (unfold qE_of; cbn [opening length]; lia).
        unfold stmt_tokens, shape_tokens, opening, closing.
        destruct sz; cbn [size_tokens app nth length Nat.add]; rewrite <- ?app_assoc; cbn [app nth]; rewrite (nth_skip E _ eof_token _ 0) by lia; reflexivity. }
      pose proof (shape_direct (ts_of pre rest E o sz pu ShDirect) sub f (length pre) e ((qE_of pre sz pu ShDirect) + length E)) as X. unfold is_opcode_token in X.
      rewrite Hq, Hs, Hopc, H0, H1 in X. rewrite <- HqE in X.
      rewrite (X Ho Hdir He Hterm).
      f_equal. f_equal. unfold stmt_tokens, shape_tokens, opening, closing. unfold qE_of, opening.
      repeat first [rewrite app_length | progress cbn [length app]]; lia.
    - (* E , i1 *)
      destruct HE as [e He]. rewrite He.
      assert (HqE : (qE_of pre sz pu ShDirectIdx) = (length pre + 1 + length (size_tokens sz))) by (unfold qE_of; cbn [opening length]; lia).
      assert (H0 : cur (ts_of pre rest E o sz pu ShDirectIdx) (length pre + 1 + length (size_tokens sz)) = nth 0 E eof_token).
      { assert (HEne : E <> []).
        { intro HE0. rewrite HE0 in He at 2. cbn [length] in He. unfold qE_of in He. cbn [opening length] in He.
          pose proof (pexpression_adv (ts_of pre rest E o sz pu ShDirectIdx) f _ _ _ He) as Ha. lia. }
        rewrite (cur_ts pre rest E o sz pu ShDirectIdx _ (1 + length (size_tokens sz))) by lia.
        unfold stmt_tokens, shape_tokens, opening, closing. destruct E as [|x E']; [contradiction|].
        destruct sz; cbn [size_tokens app nth length Nat.add]; reflexivity. }
      assert (H1 : cur (ts_of pre rest E o sz pu ShDirectIdx) ((qE_of pre sz pu ShDirectIdx) + length E) = pu_i1 pu).
      { rewrite (cur_ts pre rest E o sz pu ShDirectIdx _ (1 + length (size_tokens sz) + 0 + length E + 0)) by (unfold qE_of; cbn [opening length]; lia).
        unfold stmt_tokens, shape_tokens, opening, closing.
        destruct sz; cbn [size_tokens app nth length Nat.add]; rewrite <- ?app_assoc; cbn [app nth]; rewrite (nth_skip E _ eof_token _ 0) by lia; reflexivity. }
      pose proof (shape_direct_indexed (ts_of pre rest E o sz pu ShDirectIdx) sub f (length pre) e ((qE_of pre sz pu ShDirectIdx) + length E)) as X. unfold is_opcode_token in X.
      rewrite Hq, Hs, Hopc, H0, H1 in X. rewrite <- HqE in X.
      rewrite (X Ho Hdir He (conj P6 P7)).
      f_equal. f_equal. unfold stmt_tokens, shape_tokens, opening, closing. unfold qE_of, opening.
      repeat first [rewrite app_length | progress cbn [length app]]; lia.
    - (* ( E ) *)
      destruct HE as [e He]. rewrite He. destruct Hterm as [T1 T2].
      assert (HqE : (qE_of pre sz pu ShInd) = S (length pre + 1 + length (size_tokens sz))) by (unfold qE_of; cbn [opening length]; lia).
      assert (H0 : cur (ts_of pre rest E o sz pu ShInd) (length pre + 1 + length (size_tokens sz)) = pu_lp pu).
      { rewrite (cur_ts pre rest E o sz pu ShInd _ (1 + length (size_tokens sz))) by (unfold qE_of; cbn [opening length]; lia).
        unfold stmt_tokens, shape_tokens, opening, closing.
        destruct sz; cbn [size_tokens app nth length Nat.add]; reflexivity. }
      assert (H1 : cur (ts_of pre rest E o sz pu ShInd) ((qE_of pre sz pu ShInd) + length E) = pu_rp pu).
      { rewrite (cur_ts pre rest E o sz pu ShInd _ (1 + length (size_tokens sz) + 1 + length E + 0)) by (unfold qE_of; cbn [opening length]; lia).
        unfold stmt_tokens, shape_tokens, opening, closing.
        destruct sz; cbn [size_tokens app nth length Nat.add]; rewrite <- ?app_assoc; cbn [app nth]; rewrite (nth_skip E _ eof_token _ 0) by lia; reflexivity. }
      assert (H2 : cur (ts_of pre rest E o sz pu ShInd) (S ((qE_of pre sz pu ShInd) + length E)) = nth 0 rest eof_token).
      { rewrite (cur_ts pre rest E o sz pu ShInd _ (1 + length (size_tokens sz) + 1 + length E + 1)) by (unfold qE_of; cbn [opening length]; lia).
        unfold stmt_tokens, shape_tokens, opening, closing.
        destruct sz; cbn [size_tokens app nth length Nat.add]; rewrite <- ?app_assoc; cbn [app nth]; rewrite (nth_skip E _ eof_token _ 1) by lia; reflexivity. }
      pose proof (shape_indirect (ts_of pre rest E o sz pu ShInd) sub f (length pre) e ((qE_of pre sz pu ShInd) + length E)) as X. unfold is_opcode_token in X.
      rewrite Hq, Hs, Hopc, H0, H1, H2 in X. rewrite <- HqE in X.
      rewrite (X (or_introl Ho) P2 He P3 T2 T1).
      f_equal. f_equal. unfold stmt_tokens, shape_tokens, opening, closing. unfold qE_of, opening.
      repeat first [rewrite app_length | progress cbn [length app]]; lia.
    - (* ( E ) , i1 *)
      destruct HE as [e He]. rewrite He.
      assert (HqE : (qE_of pre sz pu ShIndIdx) = S (length pre + 1 + length (size_tokens sz))) by (unfold qE_of; cbn [opening length]; lia).
      assert (H0 : cur (ts_of pre rest E o sz pu ShIndIdx) (length pre + 1 + length (size_tokens sz)) = pu_lp pu).
      { rewrite (cur_ts pre rest E o sz pu ShIndIdx _ (1 + length (size_tokens sz))) by (unfold qE_of; cbn [opening length]; lia).
        unfold stmt_tokens, shape_tokens, opening, closing.
        destruct sz; cbn [size_tokens app nth length Nat.add]; reflexivity. }
      assert (H1 : cur (ts_of pre rest E o sz pu ShIndIdx) ((qE_of pre sz pu ShIndIdx) + length E) = pu_rp pu).
      { rewrite (cur_ts pre rest E o sz pu ShIndIdx _ (1 + length (size_tokens sz) + 1 + length E + 0)) by (unfold qE_of; cbn [opening length]; lia).
        unfold stmt_tokens, shape_tokens, opening, closing.
        destruct sz; cbn [size_tokens app nth length Nat.add]; rewrite <- ?app_assoc; cbn [app nth]; rewrite (nth_skip E _ eof_token _ 0) by lia; reflexivity. }
      assert (H2 : cur (ts_of pre rest E o sz pu ShIndIdx) (S ((qE_of pre sz pu ShIndIdx) + length E)) = pu_i1 pu).
      { rewrite (cur_ts pre rest E o sz pu ShIndIdx _ (1 + length (size_tokens sz) + 1 + length E + 1)) by (unfold qE_of; cbn [opening length]; lia).
        unfold stmt_tokens, shape_tokens, opening, closing.
        destruct sz; cbn [size_tokens app nth length Nat.add]; rewrite <- ?app_assoc; cbn [app nth]; rewrite (nth_skip E _ eof_token _ 1) by lia; reflexivity. }
      pose proof (shape_indirect_indexed (ts_of pre rest E o sz pu ShIndIdx) sub f (length pre) e ((qE_of pre sz pu ShIndIdx) + length E)) as X. unfold is_opcode_token in X.
      rewrite Hq, Hs, Hopc, H0, H1, H2 in X. rewrite <- HqE in X.
      rewrite (X (or_introl Ho) P2 He P3 (conj P6 P7)).
      f_equal. f_equal. unfold stmt_tokens, shape_tokens, opening, closing. unfold qE_of, opening.
      repeat first [rewrite app_length | progress cbn [length app]]; lia.
    - (* [ E ] *)
      destruct HE as [e He]. rewrite He.
      assert (HqE : (qE_of pre sz pu ShLong) = S (length pre + 1 + length (size_tokens sz))) by (unfold qE_of; cbn [opening length]; lia).
      assert (H0 : cur (ts_of pre rest E o sz pu ShLong) (length pre + 1 + length (size_tokens sz)) = pu_lb pu).
      { rewrite (cur_ts pre rest E o sz pu ShLong _ (1 + length (size_tokens sz))) by (unfold qE_of; cbn [opening length]; lia).
        unfold stmt_tokens, shape_tokens, opening, closing.
        destruct sz; cbn [size_tokens app nth length Nat.add]; reflexivity. }
      assert (H1 : cur (ts_of pre rest E o sz pu ShLong) ((qE_of pre sz pu ShLong) + length E) = pu_rb pu).
      { rewrite (cur_ts pre rest E o sz pu ShLong _ (1 + length (size_tokens sz) + 1 + length E + 0)) by (unfold qE_of; cbn [opening length]; lia).
        unfold stmt_tokens, shape_tokens, opening, closing.
        destruct sz; cbn [size_tokens app nth length Nat.add]; rewrite <- ?app_assoc; cbn [app nth]; rewrite (nth_skip E _ eof_token _ 0) by lia; reflexivity. }
      assert (H2 : cur (ts_of pre rest E o sz pu ShLong) (S ((qE_of pre sz pu ShLong) + length E)) = nth 0 rest eof_token).
      { rewrite (cur_ts pre rest E o sz pu ShLong _ (1 + length (size_tokens sz) + 1 + length E + 1)) by (unfold qE_of; cbn [opening length]; lia).
        unfold stmt_tokens, shape_tokens, opening, closing.
        destruct sz; cbn [size_tokens app nth length Nat.add]; rewrite <- ?app_assoc; cbn [app nth]; rewrite (nth_skip E _ eof_token _ 1) by lia; reflexivity. }
      pose proof (shape_indirect_long (ts_of pre rest E o sz pu ShLong) sub f (length pre) e ((qE_of pre sz pu ShLong) + length E)) as X. unfold is_opcode_token in X.
      rewrite Hq, Hs, Hopc, H0, H1, H2 in X. rewrite <- HqE in X.
      rewrite (X (or_introl Ho) P4 He P5 Hterm).
      f_equal. f_equal. unfold stmt_tokens, shape_tokens, opening, closing. unfold qE_of, opening.
      repeat first [rewrite app_length | progress cbn [length app]]; lia.
    - (* [ E ] , i1 *)
      destruct HE as [e He]. rewrite He.
      assert (HqE : (qE_of pre sz pu ShLongIdx) = S (length pre + 1 + length (size_tokens sz))) by (unfold qE_of; cbn [opening length]; lia).
      assert (H0 : cur (ts_of pre rest E o sz pu ShLongIdx) (length pre + 1 + length (size_tokens sz)) = pu_lb pu).
      { rewrite (cur_ts pre rest E o sz pu ShLongIdx _ (1 + length (size_tokens sz))) by (unfold qE_of; cbn [opening length]; lia).
        unfold stmt_tokens, shape_tokens, opening, closing.
        destruct sz; cbn [size_tokens app nth length Nat.add]; reflexivity. }
      assert (H1 : cur (ts_of pre rest E o sz pu ShLongIdx) ((qE_of pre sz pu ShLongIdx) + length E) = pu_rb pu).
      { rewrite (cur_ts pre rest E o sz pu ShLongIdx _ (1 + length (size_tokens sz) + 1 + length E + 0)) by (unfold qE_of; cbn [opening length]; lia).
        unfold stmt_tokens, shape_tokens, opening, closing.
        destruct sz; cbn [size_tokens app nth length Nat.add]; rewrite <- ?app_assoc; cbn [app nth]; rewrite (nth_skip E _ eof_token _ 0) by lia; reflexivity. }
      assert (H2 : cur (ts_of pre rest E o sz pu ShLongIdx) (S ((qE_of pre sz pu ShLongIdx) + length E)) = pu_i1 pu).
      { rewrite (cur_ts pre rest E o sz pu ShLongIdx _ (1 + length (size_tokens sz) + 1 + length E + 1)) by (unfold qE_of; cbn [opening length]; lia).
        unfold stmt_tokens, shape_tokens, opening, closing.
        destruct sz; cbn [size_tokens app nth length Nat.add]; rewrite <- ?app_assoc; cbn [app nth]; rewrite (nth_skip E _ eof_token _ 1) by lia; reflexivity. }
      pose proof (shape_indirect_long_indexed (ts_of pre rest E o sz pu ShLongIdx) sub f (length pre) e ((qE_of pre sz pu ShLongIdx) + length E)) as X. unfold is_opcode_token in X.
      rewrite Hq, Hs, Hopc, H0, H1, H2 in X. rewrite <- HqE in X.
      rewrite (X (or_introl Ho) P4 He P5 (conj P6 P7)).
      f_equal. f_equal. unfold stmt_tokens, shape_tokens, opening, closing. unfold qE_of, opening.
      repeat first [rewrite app_length | progress cbn [length app]]; lia.
    - (* ( E , i1 ) *)
      destruct HE as [e He]. rewrite He. destruct Hterm as [T1 T2].
      assert (HqE : (qE_of pre sz pu ShInner) = S (length pre + 1 + length (size_tokens sz))) by (unfold qE_of; cbn [opening length]; lia).
      assert (H0 : cur (ts_of pre rest E o sz pu ShInner) (length pre + 1 + length (size_tokens sz)) = pu_lp pu).
      { rewrite (cur_ts pre rest E o sz pu ShInner _ (1 + length (size_tokens sz))) by (unfold qE_of; cbn [opening length]; lia).
        unfold stmt_tokens, shape_tokens, opening, closing.
        destruct sz; cbn [size_tokens app nth length Nat.add]; reflexivity. }
      assert (H1 : cur (ts_of pre rest E o sz pu ShInner) ((qE_of pre sz pu ShInner) + length E) = pu_i1 pu).
      { rewrite (cur_ts pre rest E o sz pu ShInner _ (1 + length (size_tokens sz) + 1 + length E + 0)) by (unfold qE_of; cbn [opening length]; lia).
        unfold stmt_tokens, shape_tokens, opening, closing.
        destruct sz; cbn [size_tokens app nth length Nat.add]; rewrite <- ?app_assoc; cbn [app nth]; rewrite (nth_skip E _ eof_token _ 0) by lia; reflexivity. }
      assert (H2 : cur (ts_of pre rest E o sz pu ShInner) (S ((qE_of pre sz pu ShInner) + length E)) = pu_rp pu).
      { rewrite (cur_ts pre rest E o sz pu ShInner _ (1 + length (size_tokens sz) + 1 + length E + 1)) by (unfold qE_of; cbn [opening length]; lia).
        unfold stmt_tokens, shape_tokens, opening, closing.
        destruct sz; cbn [size_tokens app nth length Nat.add]; rewrite <- ?app_assoc; cbn [app nth]; rewrite (nth_skip E _ eof_token _ 1) by lia; reflexivity. }
      assert (H3 : cur (ts_of pre rest E o sz pu ShInner) (S (S ((qE_of pre sz pu ShInner) + length E))) = nth 0 rest eof_token).
      { rewrite (cur_ts pre rest E o sz pu ShInner _ (1 + length (size_tokens sz) + 1 + length E + 2)) by (unfold qE_of; cbn [opening length]; lia).
        unfold stmt_tokens, shape_tokens, opening, closing.
        destruct sz; cbn [size_tokens app nth length Nat.add]; rewrite <- ?app_assoc; cbn [app nth]; rewrite (nth_skip E _ eof_token _ 2) by lia; reflexivity. }
      pose proof (shape_inner_indexed (ts_of pre rest E o sz pu ShInner) sub f (length pre) e ((qE_of pre sz pu ShInner) + length E)) as X. unfold is_opcode_token in X.
      rewrite Hq, Hs, Hopc, H0, H1, H2, H3 in X. rewrite <- HqE in X.
      rewrite (X (or_introl Ho) P2 He P6 P3 T2 T1).
      f_equal. f_equal. unfold stmt_tokens, shape_tokens, opening, closing. unfold qE_of, opening.
      repeat first [rewrite app_length | progress cbn [length app]]; lia.
    - (* ( E , i1 ) , i2 *)
      destruct HE as [e He]. rewrite He. destruct Hsy as [Y1 Y2].
      assert (HqE : (qE_of pre sz pu ShInnerOuter) = S (length pre + 1 + length (size_tokens sz))) by (unfold qE_of; cbn [opening length]; lia).
      assert (H0 : cur (ts_of pre rest E o sz pu ShInnerOuter) (length pre + 1 + length (size_tokens sz)) = pu_lp pu).
      { rewrite (cur_ts pre rest E o sz pu ShInnerOuter _ (1 + length (size_tokens sz))) by (unfold qE_of; cbn [opening length]; lia).
        unfold stmt_tokens, shape_tokens, opening, closing.
        destruct sz; cbn [size_tokens app nth length Nat.add]; reflexivity. }
      assert (H1 : cur (ts_of pre rest E o sz pu ShInnerOuter) ((qE_of pre sz pu ShInnerOuter) + length E) = pu_i1 pu).
      { rewrite (cur_ts pre rest E o sz pu ShInnerOuter _ (1 + length (size_tokens sz) + 1 + length E + 0)) by (unfold qE_of; cbn [opening length]; lia).
        unfold stmt_tokens, shape_tokens, opening, closing.
        destruct sz; cbn [size_tokens app nth length Nat.add]; rewrite <- ?app_assoc; cbn [app nth]; rewrite (nth_skip E _ eof_token _ 0) by lia; reflexivity. }
      assert (H2 : cur (ts_of pre rest E o sz pu ShInnerOuter) (S ((qE_of pre sz pu ShInnerOuter) + length E)) = pu_rp pu).
      { rewrite (cur_ts pre rest E o sz pu ShInnerOuter _ (1 + length (size_tokens sz) + 1 + length E + 1)) by (unfold qE_of; cbn [opening length]; lia).
        unfold stmt_tokens, shape_tokens, opening, closing.
        destruct sz; cbn [size_tokens app nth length Nat.add]; rewrite <- ?app_assoc; cbn [app nth]; rewrite (nth_skip E _ eof_token _ 1) by lia; reflexivity. }
      assert (H3 : cur (ts_of pre rest E o sz pu ShInnerOuter) (S (S ((qE_of pre sz pu ShInnerOuter) + length E))) = pu_i2 pu).
      { rewrite (cur_ts pre rest E o sz pu ShInnerOuter _ (1 + length (size_tokens sz) + 1 + length E + 2)) by (unfold qE_of; cbn [opening length]; lia).
        unfold stmt_tokens, shape_tokens, opening, closing.
        destruct sz; cbn [size_tokens app nth length Nat.add]; rewrite <- ?app_assoc; cbn [app nth]; rewrite (nth_skip E _ eof_token _ 2) by lia; reflexivity. }
      pose proof (shape_stack_indexed (ts_of pre rest E o sz pu ShInnerOuter) sub f (length pre) e ((qE_of pre sz pu ShInnerOuter) + length E)) as X. unfold is_opcode_token in X.
      rewrite Hq, Hs, Hopc, H0, H1, H2, H3 in X. rewrite <- HqE in X.
      rewrite (X (or_introl Ho) P2 He P6 Y1 P3 P8 Y2).
      f_equal. f_equal. unfold stmt_tokens, shape_tokens, opening, closing. unfold qE_of, opening.
      repeat first [rewrite app_length | progress cbn [length app]]; lia.
  Qed.
End Tokens.

Print Assumptions C01_shape_tokens.

(** non-vacuity: [lbl: LDA.W (0x10,X)] built with [stmt_tokens]; the hypotheses hold and the
    theorem gives the node the real parser produces *)
Module Examples.
  Open Scope Z_scope.
  Definition F : str := [109;97;105;110;46;115].
  Definition tk (ty : ttype) (v : str) (l c : Z) : token :=
    {| t_type := ty; t_value := v; t_pos := Some {| tp_line := l; tp_col := c; tp_file := F |} |}.
  Definition nosub : str -> pres (list ast) := fun _ => PErr EFile None.
  Definition pu : punct :=
    {| pu_sharp := tk T_SHARP [35] 0 0; pu_lp := tk T_LPAREN [40] 0 11; pu_rp := tk T_RPAREN [41] 0 18;
       pu_lb := tk T_LBRAKET [91] 0 0; pu_rb := tk T_RBRAKET [93] 0 0;
       pu_i1 := tk T_ADDRESSING_MODE_INDEX [88] 0 17; pu_i2 := tk T_ADDRESSING_MODE_INDEX [121] 0 0 |}.
  Definition lda := tk T_OPCODE [76;68;65] 0 5.
  Definition num := tk T_NUMBER [48;120;49;48] 0 12.
  Definition pre := [tk T_LABEL [108;98;108] 0 0].
  Definition rest := [tk T_EOF [] 0 19].

  Example hyps_hold : shape_hyps pre rest [num] lda (Some (tk T_OPCODE_SIZE [87] 0 9)) pu ShInner 8.
  Proof.
    unfold shape_hyps. cbv zeta. repeat split; try discriminate.
    exists [{| en_kind := EK_term; en_tok := num |}]. reflexivity.
  Qed.

  Example shape_inner_built :
    pdecl (ts_of pre rest [num] lda (Some (tk T_OPCODE_SIZE [87] 0 9)) pu ShInner) nosub 9 1 =
    POk (Some (AOpcode M_dp_or_sr_indirect_indexed [76;68;65] (Some SzW)
                 (Some [{| en_kind := EK_term; en_tok := num |}]) (Some [120]) lda), 7%nat).
  Proof. exact (C01_shape_tokens nosub 8 _ _ _ _ _ _ _ hyps_hold). Qed.
End Examples.
