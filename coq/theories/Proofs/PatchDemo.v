(** Non-vacuity of the C13 patch round-trip theorems (Properties/C13Text.v): for each of them, concrete
    non-trivial arguments, every hypothesis discharged by computation, and the instantiated conclusion.

    Data used:
    - [blocksA]: six writer calls - two adjacent (0x10..0x12, 0x13..0x14), two out of address order
      (0x100 before 0x8), an overlapping pair (0x11 inside the first), one empty block;
    - [blocksB]: three calls, one of 70000 bytes (the writer splits it in two records), one before it,
      one overlapping it (cheap enough: all big equalities are decided inside the VM);
    - [q3_src]: a real three-block source text, its patches with and without the copier header;
    - [demo_fs] (Proofs/IpsText.v): a patch with a plain and a run-length record;
    - a patch cut inside a payload. *)
From Coq Require Import ZArith NArith List Bool Lia.
From A816 Require Import Spec.ExprSem Spec.IpsFormat Model.Ips Model.Sfc Model.Assemble
  Proofs.IpsFormatProofs Proofs.IpsProofs Proofs.IpsTextGen Proofs.IpsText
  Proofs.DataTextScan Proofs.DataText Proofs.InsnText Proofs.LabelTextGen Proofs.LabelText Proofs.PatchRoundTrip
  Properties.C13Text.
Import ListNotations.
Open Scope Z_scope.

(* ------------------------------------------------------------------------------------------ *)
(** * Helpers: results known to be [Ok] by computation *)
Definition is_ok {A} (r : res A) : bool := match r with Ok _ => true | _ => false end.
Definition get {A} (d : A) (r : res A) : A := match r with Ok a => a | _ => d end.
Lemma ok_get {A} (d : A) (r : res A) : is_ok r = true -> r = Ok (get d r).
Proof. destruct r; [reflexivity|discriminate|discriminate]. Qed.

(* ------------------------------------------------------------------------------------------ *)
(** * Blocks level *)
Definition blocksA : list (Z * bytes) :=
  [(16, [1; 2; 3]); (19, [4; 5]); (256, [9; 9]); (8, [7; 7; 7; 7]); (17, [170]); (512, [])].
Definition fileA (copier : bool) : bytes := get [] (ips_write copier blocksA).
Definition imageA : bytes := get [] (sfc_image blocksA).
Lemma fileA_ok copier : ips_write copier blocksA = Ok (fileA copier).
Proof. apply ok_get. destruct copier; vm_compute; reflexivity. Qed.
Lemma imageA_ok : sfc_image blocksA = Ok imageA.
Proof. apply ok_get. vm_compute. reflexivity. Qed.
(** what these are *)
Example fileA_bytes :
  fileA true = [80;65;84;67;72;  0;2;16; 0;3; 1;2;3;  0;2;19; 0;2; 4;5;  0;3;0; 0;2; 9;9;  0;2;8; 0;4; 7;7;7;7;
                0;2;17; 0;1; 170;  69;79;70] /\
  imageA = repeat 0 8 ++ [7; 7; 7; 7] ++ repeat 0 4 ++ [1; 170; 3; 4; 5] ++ repeat 0 235 ++ [9; 9].
Proof. vm_compute. split; reflexivity. Qed.

Definition blocksB : list (Z * bytes) := [(32768, sevens 70000); (16, [1; 2; 3]); (32773, [9; 9])].
Definition fileB (copier : bool) : bytes := get [] (ips_write copier blocksB).
Definition imageB : bytes := get [] (sfc_image blocksB).
Lemma fileB_ok copier : ips_write copier blocksB = Ok (fileB copier).
Proof. apply ok_get. destruct copier; vm_compute; reflexivity. Qed.
Lemma imageB_ok : sfc_image blocksB = Ok imageB.
Proof. apply ok_get. vm_compute. reflexivity. Qed.
(** the big block is two records: 5 + (5+65535) + (5+4465) + (5+3) + (5+2) + 3 bytes *)
Example fileB_length : Z.of_nat (length (fileB true)) = 5 + (5 + 65535) + (5 + 4465) + (5 + 3) + (5 + 2) + 3.
Proof. apply Z.eqb_eq. vm_compute. reflexivity. Qed.

Ltac nonneg := repeat constructor; cbn [fst snd]; unfold shift; intros _; lia.

(** C13_patch_blocks_read_back, copier header, delta = +0x100 (not the inverse of the shift): the
    blocks read back act like the original ones 0x300 further *)
Example demo_read_back_copier :
  exists rs recs,
    tiles_seq (shift_blocks true blocksA) rs /\ Forall wf_record rs /\ fileA true = ips_file rs /\
    read_ips 256 (fileA true) = Ok recs /\ recs = records_blocks 256 rs /\
    forall img, apply_writes recs img = apply_writes (moved (shift true + 256) blocksA) img.
Proof. apply (C13_patch_blocks_read_back true blocksA (fileA true) 256 (fileA_ok true)). nonneg. Qed.
(** ... no header, delta = -8 (the lowest block lands on offset 0) *)
Example demo_read_back_plain :
  exists rs recs,
    tiles_seq (shift_blocks false blocksA) rs /\ Forall wf_record rs /\ fileA false = ips_file rs /\
    read_ips (-8) (fileA false) = Ok recs /\ recs = records_blocks (-8) rs /\
    forall img, apply_writes recs img = apply_writes (moved (shift false + -8) blocksA) img.
Proof. apply (C13_patch_blocks_read_back false blocksA (fileA false) (-8) (fileA_ok false)). nonneg. Qed.
(** ... the split block, copier header, delta = -0x200 + 5 *)
Example demo_read_back_big :
  exists rs recs,
    tiles_seq (shift_blocks true blocksB) rs /\ Forall wf_record rs /\ fileB true = ips_file rs /\
    read_ips (-507) (fileB true) = Ok recs /\ recs = records_blocks (-507) rs /\
    forall img, apply_writes recs img = apply_writes (moved (shift true + -507) blocksB) img.
Proof. apply (C13_patch_blocks_read_back true blocksB (fileB true) (-507) (fileB_ok true)). nonneg. Qed.

(** C13_patch_blocks_roundtrip, both headers, both block lists *)
Example demo_roundtrip_A copier :
  exists recs, read_ips (- shift copier) (fileA copier) = Ok recs /\
    forall img, apply_writes recs img = apply_writes blocksA img.
Proof. apply (C13_patch_blocks_roundtrip copier blocksA (fileA copier) (fileA_ok copier)). nonneg. Qed.
Example demo_roundtrip_B copier :
  exists recs, read_ips (- shift copier) (fileB copier) = Ok recs /\
    forall img, apply_writes recs img = apply_writes blocksB img.
Proof. apply (C13_patch_blocks_roundtrip copier blocksB (fileB copier) (fileB_ok copier)). nonneg. Qed.
(** what comes back for [blocksA]: five blocks (the empty one is gone), same addresses *)
Example demo_roundtrip_A_computed :
  read_ips (-512) (fileA true) = Ok [(16, [1; 2; 3]); (19, [4; 5]); (256, [9; 9]); (8, [7; 7; 7; 7]); (17, [170])] /\
  read_ips 0 (fileA false) = Ok [(16, [1; 2; 3]); (19, [4; 5]); (256, [9; 9]); (8, [7; 7; 7; 7]); (17, [170])].
Proof. vm_compute. split; reflexivity. Qed.
(** ... for [blocksB]: four blocks, the big one in two pieces *)
Example demo_roundtrip_B_computed :
  read_ips (-512) (fileB true) = Ok [(32768, sevens 65535); (98303, sevens 4465); (16, [1; 2; 3]); (32773, [9; 9])].
Proof. apply (res_eqb_eq blocks_eqb blocks_eqb_eq). vm_compute. reflexivity. Qed.

(** C13_patch_blocks_sfc *)
Example demo_sfc_A copier : exists recs, read_ips (- shift copier) (fileA copier) = Ok recs /\ sfc_image recs = Ok imageA.
Proof. exact (C13_patch_blocks_sfc copier blocksA (fileA copier) imageA (fileA_ok copier) imageA_ok). Qed.
Example demo_sfc_B copier : exists recs, read_ips (- shift copier) (fileB copier) = Ok recs /\ sfc_image recs = Ok imageB.
Proof. exact (C13_patch_blocks_sfc copier blocksB (fileB copier) imageB (fileB_ok copier) imageB_ok). Qed.

(* ------------------------------------------------------------------------------------------ *)
(** * Program level: ASTs taken from the model's own scanner and parser *)
Definition parse_src (src : str) : list ast :=
  match scan (lv_lex demo_live_ips) [113] src with
  | ScanOk toks _ =>
      match parse_program (parse_fuel (length toks)) include_depth (include_tokens demo_live_ips no_srcfiles) toks with
      | POk p => p
      | _ => []
      end
  | _ => []
  end.
Definition dummy_tok : token := {| t_type := T_EOF; t_value := []; t_pos := None |}.
Definition ips_parts (src : str) : str * expr * token :=
  match parse_src src with [AIncludeIps p e fi] => (p, e, fi) | _ => ([], [], dummy_tok) end.

(** ".include_ips 'p.ips' ,-0x200", ".include_ips 'p.ips' ,0x0", ".include_ips 'p.ips' ,0x10" *)
Definition parts_m512 := Eval vm_compute in ips_parts (include_src minus_0x200).
Definition parts_0 := Eval vm_compute in ips_parts (include_src zero).
Definition parts_16 := Eval vm_compute in ips_parts (include_src n16).
Definition e_m512 : expr := snd (fst parts_m512).  Definition fi_m512 : token := snd parts_m512.
Definition e_0 : expr := snd (fst parts_0).        Definition fi_0 : token := snd parts_0.
Definition e_16 : expr := snd (fst parts_16).      Definition fi_16 : token := snd parts_16.
Example parts_paths : fst (fst parts_m512) = p_ips /\ fst (fst parts_0) = p_ips /\ fst (fst parts_16) = p_ips /\
  e_m512 <> [] /\ e_0 <> [] /\ e_16 <> [].
Proof. repeat split; try reflexivity; discriminate. Qed.

Definition world_with (patch : bytes) : world := world_of demo_live_ips (fs_with patch).

Lemma eval_m512 patch r : eval_raw (world_with patch) r e_m512 = Ok (-512).
Proof. unfold eval_raw. vm_compute. reflexivity. Qed.
Lemma eval_0 patch r : eval_raw (world_with patch) r e_0 = Ok 0.
Proof. unfold eval_raw. vm_compute. reflexivity. Qed.
Lemma eval_16 patch r : eval_raw (world_with patch) r e_16 = Ok 16.
Proof. unfold eval_raw. vm_compute. reflexivity. Qed.
Lemma ips_of patch d : w_ips (world_with patch) p_ips d = read_ips d patch.
Proof. reflexivity. Qed.
Lemma init_ok patch : exists ri, initial_resolver (world_with patch) demo_cfg = Ok ri.
Proof.
  destruct (initial_resolver (world_with patch) demo_cfg) as [ri| |] eqn:E; [exists ri; reflexivity| |];
    vm_compute in E; discriminate E.
Qed.

(** C13_include_only_program: the copier-header patch of [blocksA], delta -0x200 *)
Definition blA : list (Z * bytes) := [(16, [1; 2; 3]); (19, [4; 5]); (256, [9; 9]); (8, [7; 7; 7; 7]); (17, [170])].
Example demo_include_only :
  exists oP o0,
    assemble_program (world_with (fileA true)) demo_cfg [AIncludeIps p_ips e_m512 fi_m512] = AOk oP (o_final oP) /\
    writer_blocks oP = blA /\
    assemble_program (world_with (fileA true)) demo_cfg [] = AOk o0 (o_final o0) /\ o_blocks o0 = [] /\
    o_labels oP = o_labels o0 /\ o_final oP = o_final o0.
Proof.
  destruct (init_ok (fileA true)) as (ri & Hi).
  apply (C13_include_only_program (world_with (fileA true)) demo_cfg ri p_ips e_m512 fi_m512 (-512) blA Hi
           (eval_m512 (fileA true))).
  rewrite ips_of. vm_compute. reflexivity.
Qed.

(** C13_patch_program_roundtrip, with and without the copier header, small and split blocks *)
Example demo_program_roundtrip_copier :
  exists oP, assemble_program (world_with (fileA true)) demo_cfg [AIncludeIps p_ips e_m512 fi_m512] = AOk oP (o_final oP) /\
    read_ips (- shift true) (fileA true) = Ok (writer_blocks oP) /\ sfc_image (writer_blocks oP) = Ok imageA.
Proof.
  destruct (init_ok (fileA true)) as (ri & Hi).
  exact (C13_patch_program_roundtrip (world_with (fileA true)) demo_cfg ri p_ips e_m512 fi_m512 true blocksA (fileA true) imageA
           Hi (eval_m512 (fileA true)) (ips_of (fileA true)) (fileA_ok true) imageA_ok).
Qed.
Example demo_program_roundtrip_plain :
  exists oP, assemble_program (world_with (fileA false)) demo_cfg [AIncludeIps p_ips e_0 fi_0] = AOk oP (o_final oP) /\
    read_ips (- shift false) (fileA false) = Ok (writer_blocks oP) /\ sfc_image (writer_blocks oP) = Ok imageA.
Proof.
  destruct (init_ok (fileA false)) as (ri & Hi).
  exact (C13_patch_program_roundtrip (world_with (fileA false)) demo_cfg ri p_ips e_0 fi_0 false blocksA (fileA false) imageA
           Hi (eval_0 (fileA false)) (ips_of (fileA false)) (fileA_ok false) imageA_ok).
Qed.
Example demo_program_roundtrip_big :
  exists oP, assemble_program (world_with (fileB true)) demo_cfg [AIncludeIps p_ips e_m512 fi_m512] = AOk oP (o_final oP) /\
    read_ips (- shift true) (fileB true) = Ok (writer_blocks oP) /\ sfc_image (writer_blocks oP) = Ok imageB.
Proof.
  destruct (init_ok (fileB true)) as (ri & Hi).
  exact (C13_patch_program_roundtrip (world_with (fileB true)) demo_cfg ri p_ips e_m512 fi_m512 true blocksB (fileB true) imageB
           Hi (eval_m512 (fileB true)) (ips_of (fileB true)) (fileB_ok true) imageB_ok).
Qed.

(* ------------------------------------------------------------------------------------------ *)
(** * Source text, through the model's front end *)

(** Q: "*=0x8000 / .dw 0x1234 / *=0x8010 / .dl 0x56789a / *=0x8001 / .db 0x55": three blocks, the
    third out of address order and overlapping the first *)
Definition q3_src : str :=
  [42;61;48;120;56;48;48;48;10;  46;100;119;32;48;120;49;50;51;52;10;
   42;61;48;120;56;48;49;48;10;  46;100;108;32;48;120;53;54;55;56;57;97;10;
   42;61;48;120;56;48;48;49;10;  46;100;98;32;48;120;53;53;10].
Definition q3_image : bytes := [52; 85] ++ repeat 0 14 ++ [154; 120; 86].
Definition q3_patch (copier : bool) : bytes :=
  let h := if copier then 2 else 0 in
  [80;65;84;67;72;  0;h;0; 0;2; 52;18;  0;h;16; 0;3; 154;120;86;  0;h;1; 0;1; 85;  69;79;70].

Example q3_computed :
  calls no_srcfiles q3_src = Some [(0, [52; 18]); (16, [154; 120; 86]); (1, [85])] /\
  built FIps true no_srcfiles q3_src = Some (q3_patch true) /\
  built FIps false no_srcfiles q3_src = Some (q3_patch false) /\
  built FSfc false no_srcfiles q3_src = Some q3_image.
Proof. vm_compute. repeat split; reflexivity. Qed.

Lemma xips_ok e : dlex e -> xstmt_ok (lv_lex demo_live_ips) (XIps 1 p_ips 1 sp00 e).
Proof.
  intros D. cbn [xstmt_ok]. split; [reflexivity|]. split; [|exact D].
  repeat (constructor; [repeat split; discriminate|]). constructor.
Qed.

(** C13_patch_text_roundtrip: the source ".include_ips 'p.ips' ,-0x200" over the copier-header patch
    of Q, and ".include_ips 'p.ips' ,0x0" over the plain one *)
Example demo_text_roundtrip_copier : exists oQ finQ oP finP,
  assemble_source demo_live_ips no_srcfiles demo_cfg [113] q3_src = AOk oQ finQ /\
  output_file (front FIps true) oQ = Ok (q3_patch true) /\ output_file (front FSfc false) oQ = Ok q3_image /\
  include_src minus_0x200 =
    [46;105;110;99;108;117;100;101;95;105;112;115;32;39;112;46;105;112;115;39;32;44;45;48;120;50;48;48;10] /\
  assemble_source demo_live_ips (fs_with (q3_patch true)) demo_cfg [113] (include_src minus_0x200) = AOk oP finP /\
  read_ips (- shift true) (q3_patch true) = Ok (writer_blocks oP) /\
  output_file (front FSfc false) oP = Ok q3_image.
Proof.
  destruct (assemble_source demo_live_ips no_srcfiles demo_cfg [113] q3_src) as [oQ finQ| | | |] eqn:EQ;
    try (vm_compute in EQ; discriminate EQ).
  assert (HP : output_file (front FIps true) oQ = Ok (q3_patch true)) by (vm_compute in EQ; injection EQ as <- _; reflexivity).
  assert (HI : output_file (front FSfc false) oQ = Ok q3_image) by (vm_compute in EQ; injection EQ as <- _; reflexivity).
  destruct (C13_patch_text_roundtrip demo_live_ips (fs_with (q3_patch true)) demo_cfg [113] 1 p_ips 1 sp00 minus_0x200
              true demo_cfg false false oQ (q3_patch true) q3_image demo_ips_tables (xips_ok minus_0x200 I))
    as (oP & finP & EP & RP & IP); try reflexivity; try assumption.
  - split; [reflexivity|exact I].
  - exists oQ, finQ, oP, finP. repeat split; try assumption; reflexivity.
Qed.
Example demo_text_roundtrip_plain : exists oQ finQ oP finP,
  assemble_source demo_live_ips no_srcfiles demo_cfg [113] q3_src = AOk oQ finQ /\
  output_file (front FIps false) oQ = Ok (q3_patch false) /\ output_file (front FSfc false) oQ = Ok q3_image /\
  assemble_source demo_live_ips (fs_with (q3_patch false)) demo_cfg [113] (include_src zero) = AOk oP finP /\
  read_ips (- shift false) (q3_patch false) = Ok (writer_blocks oP) /\
  output_file (front FSfc true) oP = Ok q3_image.
Proof.
  destruct (assemble_source demo_live_ips no_srcfiles demo_cfg [113] q3_src) as [oQ finQ| | | |] eqn:EQ;
    try (vm_compute in EQ; discriminate EQ).
  assert (HP : output_file (front FIps false) oQ = Ok (q3_patch false)) by (vm_compute in EQ; injection EQ as <- _; reflexivity).
  assert (HI : output_file (front FSfc false) oQ = Ok q3_image) by (vm_compute in EQ; injection EQ as <- _; reflexivity).
  destruct (C13_patch_text_roundtrip demo_live_ips (fs_with (q3_patch false)) demo_cfg [113] 1 p_ips 1 sp00 zero
              false demo_cfg false true oQ (q3_patch false) q3_image demo_ips_tables (xips_ok zero I))
    as (oP & finP & EP & RP & IP); try reflexivity; try assumption; try exact I.
  exists oQ, finQ, oP, finP. repeat split; try assumption; reflexivity.
Qed.

(* ------------------------------------------------------------------------------------------ *)
(** * The directive inside a program: C13_node_insert, C13_program_insert, C13_program_rejected *)

(** Q's statements, as parsed by the model: [*=0x8000; .dw 0x1234] before the directive,
    [*=0x8010; .dl 0x56789a; *=0x8001; .db 0x55] after it *)
Definition q3_asts : list ast := Eval vm_compute in parse_src q3_src.
Definition asts1 : list ast := firstn 2 q3_asts.
Definition asts2 : list ast := skipn 2 q3_asts.
Definition nodes_of (a : ast) : list node :=
  match a with
  | AStarEq e fi => [NCodePos e fi]
  | AData k data fi => map (fun e => NData k e fi) data
  | ALabel name _ => [NLabel name]
  | _ => []
  end.
Definition nss1 : list (list node) := map nodes_of asts1.
Definition nss2 : list (list node) := map nodes_of asts2.
Example asts_shape : length asts1 = 2%nat /\ length asts2 = 4%nat /\ length (concat nss1) = 2%nat /\ length (concat nss2) = 4%nat.
Proof. repeat split. Qed.

Lemma simple1 w : Forall2 (simple w) asts1 nss1.
Proof. repeat constructor. Qed.
Lemma simple2 w : Forall2 (simple w) asts2 nss2.
Proof. repeat constructor. Qed.

(** the patch of Proofs/IpsText.v: a plain record (3 bytes at 0x100) and a run-length record (4 x 9 at 0x200) *)
Definition rfile : bytes := ips_file demo_records.
Definition bl16 : list (Z * bytes) := [(272, [1; 2; 3]); (528, [9; 9; 9; 9])].
Lemma rfile_read : w_ips (world_with rfile) p_ips 16 = Ok bl16.
Proof. rewrite ips_of. vm_compute. reflexivity. Qed.

Lemma nodes_ok patch : exists ri o,
  initial_resolver (world_with patch) demo_cfg = Ok ri /\
  assemble_nodes (world_with patch) ri (concat nss1 ++ concat nss2) = Ok o.
Proof.
  destruct (init_ok patch) as (ri & Hi).
  assert (X : is_ok (do r <- initial_resolver (world_with patch) demo_cfg;
                     assemble_nodes (world_with patch) r (concat nss1 ++ concat nss2)) = true)
    by (vm_compute; reflexivity).
  rewrite Hi in X. cbn [bind] in X.
  destruct (assemble_nodes (world_with patch) ri (concat nss1 ++ concat nss2)) as [o| |] eqn:E; try discriminate X.
  exists ri, o. split; [exact Hi|exact E].
Qed.

(** C13_node_insert: the node [NIps bl16] between the two halves of Q's node list *)
Example demo_node_insert : exists ri o o' A B,
  initial_resolver (world_with rfile) demo_cfg = Ok ri /\
  assemble_nodes (world_with rfile) ri (concat nss1 ++ concat nss2) = Ok o /\
  assemble_nodes (world_with rfile) ri (concat nss1 ++ NIps bl16 :: concat nss2) = Ok o' /\
  o_labels o' = o_labels o /\ o_final o' = o_final o /\
  o_blocks o = A ++ B /\ o_blocks o' = A ++ ips_calls bl16 ++ B /\
  calls_before (world_with rfile) ri (concat nss1) (concat nss2) A.
Proof.
  destruct (nodes_ok rfile) as (ri & o & Hi & E).
  destruct (C13_node_insert (world_with rfile) ri (concat nss1) (concat nss2) bl16 o E) as (o' & A & B & H).
  exists ri, o, o', A, B. split; [exact Hi|]. split; [exact E|exact H].
Qed.

(** C13_program_insert: ".include_ips 'p.ips' ,0x10" (delta 16) between the two halves of Q *)
Example demo_program_insert : exists ri o o' A B,
  initial_resolver (world_with rfile) demo_cfg = Ok ri /\
  assemble_program (world_with rfile) demo_cfg (asts1 ++ AIncludeIps p_ips e_16 fi_16 :: asts2) = AOk o' (o_final o') /\
  assemble_program (world_with rfile) demo_cfg (asts1 ++ asts2) = AOk o (o_final o) /\
  o_labels o' = o_labels o /\ o_final o' = o_final o /\
  o_blocks o = A ++ B /\ o_blocks o' = A ++ ips_calls bl16 ++ B /\
  calls_before (world_with rfile) ri (concat nss1) (concat nss2) A.
Proof.
  destruct (nodes_ok rfile) as (ri & o & Hi & E).
  destruct (C13_program_insert (world_with rfile) demo_cfg ri asts1 nss1 asts2 nss2 p_ips e_16 fi_16 16 bl16 o
              Hi (simple1 _) (simple2 _) (eval_16 rfile) rfile_read E) as (o' & A & B & H).
  exists ri, o, o', A, B. split; [exact Hi|exact H].
Qed.
Definition prog_calls (patch : bytes) (prog : list ast) : option (list (Z * bytes)) + errk :=
  match assemble_program (world_with patch) demo_cfg prog with
  | AOk o _ => inl (Some (writer_blocks o))
  | AExc k _ => inr k
  | _ => inl None
  end.

(** C13_program_rejected: the same program with the patch cut inside the first payload
    ("PATCH", offset, size 3, then only two of the three bytes) *)
Definition cut_file : bytes := firstn 12 rfile.
Example cut_file_bytes : cut_file = [80;65;84;67;72;  0;1;0; 0;3; 1;2].
Proof. reflexivity. Qed.
Example demo_program_rejected :
  assemble_program (world_with cut_file) demo_cfg (asts1 ++ AIncludeIps p_ips e_16 fi_16 :: asts2) = AExc ERuntime None.
Proof.
  destruct (init_ok cut_file) as (ri & Hi).
  apply (C13_program_rejected (world_with cut_file) demo_cfg ri asts1 nss1 asts2 p_ips e_16 fi_16 16 ERuntime
           Hi (simple1 _) (eval_16 cut_file)).
  rewrite ips_of. vm_compute. reflexivity.
Qed.

(** the three runs, computed: the patch's blocks (offset + 0x10, the run-length record expanded) reach
    the writer before Q's first block, because the run open at the directive is written when it ends;
    Q's own calls are unchanged; the cut file rejects the assembly *)
Example demo_insert_computed :
  prog_calls rfile (asts1 ++ AIncludeIps p_ips e_16 fi_16 :: asts2) =
    inl (Some [(272, [1; 2; 3]); (528, [9; 9; 9; 9]); (0, [52; 18]); (16, [154; 120; 86]); (1, [85])]) /\
  prog_calls rfile (asts1 ++ asts2) = inl (Some [(0, [52; 18]); (16, [154; 120; 86]); (1, [85])]) /\
  prog_calls cut_file (asts1 ++ AIncludeIps p_ips e_16 fi_16 :: asts2) = inr ERuntime.
Proof. vm_compute. repeat split; reflexivity. Qed.

Print Assumptions demo_read_back_big.
Print Assumptions demo_program_roundtrip_big.
Print Assumptions demo_text_roundtrip_copier.
Print Assumptions demo_program_insert.
Print Assumptions demo_program_rejected.
