(** C11 + C12 + C13 composed: "the patch of a program, included back, rebuilds the program's image".

    [ips_write copier blocks]   what assemble_as_patch writes for the writer calls [blocks] (Model/Ips.v)
    [read_ips delta file]       the blocks [.include_ips 'file', delta] hands to the writer (Model/Ips.v)
    [sfc_image blocks]          the file [assemble] (SFC writer) produces for the calls [blocks] (Model/Sfc.v)
    [apply_writes ws img]       Spec/IpsFormat.v: the writes [ws] applied in order to the image [img]
    [shift copier]              0x200 with the copier header, else 0

    - blocks level ([patch_blocks_roundtrip*]): reading the written file back with [delta = - shift copier]
      gives blocks (one per RECORD: a block above 0xFFFF bytes comes back in 0xFFFF-byte pieces, an empty
      block not at all) that have the same effect on every image as the original blocks;
    - program level ([patch_program_roundtrip] on ASTs, [patch_text_roundtrip] on source text): the one-line
      program [.include_ips 'p', delta] assembles to exactly those blocks and nothing else, so its SFC
      image is the SFC image of the program the patch was made from;
    - [patch_demo]: computed through the whole pipeline on the demo tables. *)
From Coq Require Import ZArith NArith List Bool Lia.
From A816 Require Import Spec.ExprSem Spec.IpsFormat Model.Ips Model.Sfc Model.Assemble
  Proofs.IpsFormatProofs Proofs.IpsProofs Proofs.IpsTextGen Proofs.IpsText
  Proofs.DataText Proofs.InsnText Proofs.LabelTextGen Proofs.LabelText.
Import ListNotations.
Open Scope Z_scope.

(* ------------------------------------------------------------------------------------------ *)
(** * Blocks level *)

Lemma apply_writes_app w1 w2 img : apply_writes (w1 ++ w2) img = apply_writes w2 (apply_writes w1 img).
Proof. unfold apply_writes. apply fold_left_app. Qed.
Lemma records_blocks_app delta r1 r2 : records_blocks delta (r1 ++ r2) = records_blocks delta r1 ++ records_blocks delta r2.
Proof. unfold records_blocks. apply map_app. Qed.

(** the records of one block, read back with [delta], are one write of the block [delta] further *)
Lemma tiles_read_back delta a d rs : tiles a d rs -> (d <> [] -> 0 <= a + delta) ->
  forall img, apply_writes (records_blocks delta rs) img = write_at img (a + delta) d.
Proof.
  induction 1 as [a | a d1 d2 rs Hd1 Ht IH]; intros Ha img; [reflexivity|].
  assert (Ha' : 0 <= a + delta) by (apply Ha; destruct d1; [contradiction|discriminate]).
  cbn [records_blocks map rec_off rec_data]. fold (records_blocks delta rs).
  cbn [apply_writes fold_left fst snd]. fold (apply_writes (records_blocks delta rs) (write_at img (a + delta) d1)).
  rewrite IH by (intros _; lia).
  replace (a + Z.of_nat (length d1) + delta) with (a + delta + Z.of_nat (length d1)) by lia.
  apply write_at_app; assumption.
Qed.

Definition moved (k : Z) (blocks : list (Z * bytes)) : list (Z * bytes) := map (fun b => (fst b + k, snd b)) blocks.

Lemma tiles_seq_read_back delta : forall ws rs, tiles_seq ws rs ->
  Forall (fun b => snd b <> [] -> 0 <= fst b + delta) ws ->
  forall img, apply_writes (records_blocks delta rs) img = apply_writes (moved delta ws) img.
Proof.
  induction 1 as [|a d ws r1 r2 Ht Hs IH]; intros Hn img; [reflexivity|].
  inversion Hn as [|? ? Ha Hn']; subst. cbn [fst snd] in Ha.
  rewrite records_blocks_app, apply_writes_app, (tiles_read_back delta a d r1 Ht Ha).
  cbn [moved map apply_writes fold_left fst snd]. apply (IH Hn').
Qed.

(** (1), any delta.  Every block list the writer accepts ([C11_accept]: every record start
    [a + shift + k*65535] is in 0..2^24-1 and not 0x454F46), every signed delta that keeps the non-empty
    blocks at non-negative addresses: the reader returns blocks whose effect on every image is that of
    the original blocks moved by [shift copier + delta]. *)
Theorem patch_blocks_read_back copier blocks file delta :
  ips_write copier blocks = Ok file ->
  Forall (fun b => snd b <> [] -> 0 <= fst b + shift copier + delta) blocks ->
  exists rs recs,
    tiles_seq (shift_blocks copier blocks) rs /\ Forall wf_record rs /\ file = ips_file rs /\
    read_ips delta file = Ok recs /\ recs = records_blocks delta rs /\
    forall img, apply_writes recs img = apply_writes (moved (shift copier + delta) blocks) img.
Proof.
  intros Hw Hn. destruct (ips_write_ok_inv copier blocks file Hw) as (rs & -> & Hts & Hwf & _).
  exists rs, (records_blocks delta rs). split; [exact Hts|]. split; [exact Hwf|]. split; [reflexivity|].
  split; [apply read_ips_roundtrip, Hwf|]. split; [reflexivity|]. intros img.
  rewrite (tiles_seq_read_back delta _ _ Hts).
  - unfold moved, shift_blocks. rewrite map_map. f_equal. apply map_ext. intros [a d]. cbn [fst snd]. f_equal. lia.
  - unfold shift_blocks. apply Forall_map. eapply Forall_impl; [|exact Hn]. intros [a d]. cbn [fst snd]. intros H; exact H.
Qed.

Lemma moved_0 blocks : moved 0 blocks = blocks.
Proof. unfold moved. rewrite <- (map_id blocks) at 2. apply map_ext. intros [a d]. cbn [fst snd]. f_equal. lia. Qed.

(** (1) Reading with [delta = - shift copier] (0 without the copier header, -0x200 with it): same effect
    as the original blocks, on every image.  Side condition: non-empty blocks sit at non-negative
    addresses (an SFC writer refuses the others anyway; needed here only with the copier header and
    addresses -0x200..-1, see [patch_blocks_negative]). *)
Theorem patch_blocks_roundtrip copier blocks file :
  ips_write copier blocks = Ok file ->
  Forall (fun b => snd b <> [] -> 0 <= fst b) blocks ->
  exists recs, read_ips (- shift copier) file = Ok recs /\
    forall img, apply_writes recs img = apply_writes blocks img.
Proof.
  intros Hw Hn.
  destruct (patch_blocks_read_back copier blocks file (- shift copier) Hw) as (rs & recs & _ & _ & _ & Hr & _ & Ha).
  - eapply Forall_impl; [|exact Hn]. intros [a d]. cbn [fst snd]. intros H Hd. specialize (H Hd). lia.
  - exists recs. split; [exact Hr|]. intros img. rewrite Ha. replace (shift copier + - shift copier) with 0 by lia.
    rewrite moved_0. reflexivity.
Qed.

(** Without the copier header there is no side condition at all: a non-empty block the writer accepts
    starts at a representable, hence non-negative, offset. *)
Lemma accepted_nonneg copier blocks file : ips_write copier blocks = Ok file ->
  Forall (fun b => snd b <> [] -> 0 <= fst b + shift copier) blocks.
Proof.
  intros Hw. destruct (ips_write_ok_inv copier blocks file Hw) as (rs & _ & _ & _ & Hok).
  eapply Forall_impl; [|exact Hok]. intros [a d]. unfold block_ok, all_starts_ok. cbn [fst snd]. intros H Hd.
  assert (Hl : 0 < blen d) by (unfold blen; destruct d; [contradiction|cbn [length]; lia]).
  destruct (H 0 ltac:(lia) ltac:(lia)) as [Hr _]. lia.
Qed.
Theorem patch_blocks_roundtrip_plain blocks file :
  ips_write false blocks = Ok file ->
  exists recs, read_ips 0 file = Ok recs /\ forall img, apply_writes recs img = apply_writes blocks img.
Proof.
  intros Hw. apply (patch_blocks_roundtrip false blocks file Hw).
  eapply Forall_impl; [|exact (accepted_nonneg false blocks file Hw)]. intros [a d]. cbn [fst snd shift]. intros H Hd.
  specialize (H Hd). lia.
Qed.

(** In terms of the two writers: if the SFC writer accepts the blocks (no negative address), the
    blocks read back give the same SFC image. *)
Lemma sfc_image_nonneg : forall blocks img im, sfc_write_blocks blocks img = Ok im -> Forall (fun b => 0 <= fst b) blocks.
Proof.
  induction blocks as [|[a d] r IH]; intros img im H; [constructor|].
  cbn [sfc_write_blocks] in H. unfold sfc_write_block in H. destruct (a <? 0) eqn:E; [discriminate H|]. cbn [bind] in H.
  constructor; [cbn [fst]; lia|exact (IH _ _ H)].
Qed.
Theorem patch_blocks_sfc copier blocks file im :
  ips_write copier blocks = Ok file -> sfc_image blocks = Ok im ->
  exists recs, read_ips (- shift copier) file = Ok recs /\ sfc_image recs = Ok im.
Proof.
  intros Hw Hs. pose proof (sfc_image_nonneg _ _ _ Hs) as Hn.
  destruct (patch_blocks_read_back copier blocks file (- shift copier) Hw) as (rs & recs & Hts & Hwf & _ & Hr & -> & Ha).
  { eapply Forall_impl; [|exact Hn]. intros [a d]. cbn [fst snd]. intros; lia. }
  exists (records_blocks (- shift copier) rs). split; [exact Hr|].
  rewrite (sfc_image_defined blocks Hn) in Hs. injection Hs as <-.
  rewrite sfc_image_defined.
  - rewrite Ha. replace (shift copier + - shift copier) with 0 by lia. rewrite moved_0. reflexivity.
  - unfold records_blocks. apply Forall_map. rewrite Forall_forall. intros r Hr'. cbn [fst].
    rewrite Forall_forall in Hwf. specialize (Hwf r Hr').
    (* a record lies inside a block that starts at a non-negative address *)
    clear - Hts Hn Hr'. revert Hr'. unfold shift_blocks in Hts.
    remember (map (fun b => (fst b + shift copier, snd b)) blocks) as ws eqn:Ews. revert blocks Ews Hn.
    induction Hts as [|a d ws r1 r2 Ht Hs IH]; intros blocks Ews Hn Hin; [contradiction|].
    destruct blocks as [|[a0 d0] bl]; [discriminate Ews|]. cbn [map fst snd] in Ews. injection Ews as -> -> Ews.
    inversion Hn as [|? ? Ha0 Hn']; subst. cbn [fst] in Ha0.
    apply in_app_or in Hin as [Hin|Hin]; [|exact (IH bl eq_refl Hn' Hin)].
    clear - Ht Hin Ha0. assert (G : forall a' d' rs', tiles a' d' rs' -> forall r', In r' rs' -> a' <= rec_off r').
    { clear. induction 1 as [|a d1 d2 rs _ _ IH]; intros r' Hr; [contradiction|].
      destruct Hr as [<-|H]; [cbn; lia|]. specialize (IH r' H). lia. }
    specialize (G _ _ _ Ht r Hin). lia.
Qed.

(* ------------------------------------------------------------------------------------------ *)
(** * Program level *)

Lemma assemble_nodes_nil w r : exists o, assemble_nodes w r [] = Ok o /\ o_blocks o = [].
Proof.
  unfold assemble_nodes, resolve_labels, emit. cbn. rewrite Z.eqb_refl. cbn. eexists. split; reflexivity.
Qed.

Lemma writer_blocks_ips_calls o bl : o_blocks o = ips_calls bl -> writer_blocks o = bl.
Proof.
  intros H. unfold writer_blocks. rewrite H. unfold ips_calls. rewrite map_map.
  rewrite <- (map_id bl) at 2. apply map_ext. intros [a d]. reflexivity.
Qed.

(** The one-line program [.include_ips path, e] (AST level; [e] closed with value [delta], [path] a
    readable patch): it assembles, the writer receives exactly the blocks of the patch (no block of
    its own: the run that is open at the end of the program is empty and is not written), and labels
    and final resolver are those of the empty program. *)
Theorem include_only_program w c ri path e fi delta bl :
  initial_resolver w c = Ok ri ->
  (forall r, eval_raw w r e = Ok delta) -> w_ips w path delta = Ok bl ->
  exists oP o0,
    assemble_program w c [AIncludeIps path e fi] = AOk oP (o_final oP) /\ writer_blocks oP = bl /\
    assemble_program w c [] = AOk o0 (o_final o0) /\ o_blocks o0 = [] /\
    o_labels oP = o_labels o0 /\ o_final oP = o_final o0.
Proof.
  intros Hi He Hw. destruct (assemble_nodes_nil w ri) as (o0 & E0 & B0).
  destruct (ips_program_insert w c ri [] [] [] [] path e fi delta bl o0 Hi ltac:(constructor) ltac:(constructor) He Hw E0)
    as (oP & A & B & EP & E0' & HL & HF & HB & HB' & _).
  rewrite B0 in HB. symmetry in HB. apply app_eq_nil in HB as [-> ->]. cbn [app] in HB'. rewrite app_nil_r in HB'.
  exists oP, o0. cbn [app] in EP, E0'. split; [exact EP|]. split; [apply writer_blocks_ips_calls, HB'|].
  split; [exact E0'|]. split; [exact B0|]. split; [exact HL|exact HF].
Qed.

(** (2) AST level.  [blocks]: the writer calls of any program Q (its [writer_blocks]).  The patch of Q,
    written with or without the copier header, included by the one-line program with
    [delta = - shift copier] (0, resp. -0x200): the SFC image of the including program is the SFC
    image of Q.  Blocks the writer split (> 0xFFFF bytes) come back as their 0xFFFF-byte pieces, empty
    blocks do not come back; the image is the same. *)
Theorem patch_program_roundtrip w c ri path e fi copier blocks file im :
  initial_resolver w c = Ok ri ->
  (forall r, eval_raw w r e = Ok (- shift copier)) ->
  (forall d, w_ips w path d = read_ips d file) ->
  ips_write copier blocks = Ok file -> sfc_image blocks = Ok im ->
  exists oP, assemble_program w c [AIncludeIps path e fi] = AOk oP (o_final oP) /\
    read_ips (- shift copier) file = Ok (writer_blocks oP) /\
    sfc_image (writer_blocks oP) = Ok im.
Proof.
  intros Hi He Hp Hw Hs. destruct (patch_blocks_sfc copier blocks file im Hw Hs) as (recs & Hr & Him).
  destruct (include_only_program w c ri path e fi (- shift copier) recs Hi He) as (oP & o0 & EP & WB & _).
  { rewrite Hp. exact Hr. }
  exists oP. rewrite WB. auto.
Qed.

(** ... with another delta the image is Q's, moved: e.g. a copier-header patch included with delta 0
    rebuilds Q's image 0x200 bytes further (zero-filled below). *)
Theorem patch_program_read_back w c ri path e fi copier blocks file delta :
  initial_resolver w c = Ok ri ->
  (forall r, eval_raw w r e = Ok delta) ->
  (forall d, w_ips w path d = read_ips d file) ->
  ips_write copier blocks = Ok file ->
  Forall (fun b => snd b <> [] -> 0 <= fst b + shift copier + delta) blocks ->
  exists oP, assemble_program w c [AIncludeIps path e fi] = AOk oP (o_final oP) /\
    forall img, apply_writes (writer_blocks oP) img = apply_writes (moved (shift copier + delta) blocks) img.
Proof.
  intros Hi He Hp Hw Hn.
  destruct (patch_blocks_read_back copier blocks file delta Hw Hn) as (rs & recs & _ & _ & _ & Hr & _ & Ha).
  destruct (include_only_program w c ri path e fi delta recs Hi He) as (oP & o0 & EP & WB & _).
  { rewrite Hp. exact Hr. }
  exists oP. rewrite WB. auto.
Qed.

(** (2) on source text, through the front ends.  Q's outcome [oQ] written by assemble_as_patch (format
    IPS, with or without copier header) and by assemble (format SFC); the source text
        .include_ips <k1 blanks>'<path>'<k2 blanks>,<e>
    with [e] a closed expression of value [- shift copier] (any spacing), assembled with [path] naming
    the patch: its SFC output file is Q's SFC output file. *)
Theorem patch_text_roundtrip t fs c fname k1 path k2 sp e copier cQ b b' oQ file im :
  tables_ok t c -> xstmt_ok (lv_lex t) (XIps k1 path k2 sp e) -> wf e -> eval noenv e = Ok (- shift copier) ->
  assoc_str (sf_bin fs) path = Some file ->
  output_file {| fc_format := FIps; fc_copier := copier; fc_config := cQ |} oQ = Ok file ->
  output_file {| fc_format := FSfc; fc_copier := b; fc_config := cQ |} oQ = Ok im ->
  exists oP finP,
    assemble_source t fs c fname (xsrc [XIps k1 path k2 sp e]) = AOk oP finP /\
    read_ips (- shift copier) file = Ok (writer_blocks oP) /\
    output_file {| fc_format := FSfc; fc_copier := b'; fc_config := c |} oP = Ok im.
Proof.
  intros (Hag & Hcfg & Hc) Hok We Ee Hfile Hw Hs. unfold output_file in *. cbn [fc_format fc_copier] in *.
  destruct (lorom_range t c 32768 Hag Hcfg ltac:(left; vm_compute; split; discriminate) ltac:(vm_compute; discriminate))
    as (m & Hlow & Hphys & Hrt & _).
  destruct (initial_resolver_root (world_of t fs) c (lv_low t) (Some 0) Hlow Hphys Hrt) as (ri & s0 & Einit & _).
  destruct (xprog_front t fs c fname [XIps k1 path k2 sp e] ltac:(constructor; [exact Hok|constructor])) as (asts & Esrc & F2).
  inversion F2 as [|? a ? ? Ha F2']; subst. inversion F2'; subst. destruct Ha as (re & qt & -> & Se).
  destruct Hok as (_ & _ & De).
  destruct (patch_program_roundtrip (world_of t fs) c ri path re qt copier (writer_blocks oQ) file im Einit)
    as (oP & EP & Hr & Him); try assumption.
  - intros r. apply (eval_raw_tree t fs r re e _ Hc Se We De Ee).
  - intros d. cbn [world_of w_ips]. rewrite Hfile. reflexivity.
  - exists oP, (o_final oP). rewrite Esrc. auto.
Qed.

(* ------------------------------------------------------------------------------------------ *)
(** * Examples (computed by the model on the demo tables) *)

(** Q: "*=0x8000 / .dw 0x1234 / *=0x8010 / .dl 0x56789a": two blocks, at file offsets 0 and 0x10 *)
Definition q_src : str :=
  [42;61;48;120;56;48;48;48;10;  46;100;119;32;48;120;49;50;51;52;10;
   42;61;48;120;56;48;49;48;10;  46;100;108;32;48;120;53;54;55;56;57;97;10].
Definition zero : sexpr := Num (FHex 0 []) 0.
Definition minus_0x200 : sexpr := Un ONeg (Num (FHex 0 []) 512).
(** ".include_ips 'p.ips' ,<e>" *)
Definition include_src (e : sexpr) : str := xsrc [XIps 1 p_ips 1 sp00 e].
Definition fs_with (patch : bytes) : srcfiles := {| sf_text := []; sf_bin := [(p_ips, patch)]; sf_tbl := [] |}.
Definition front (fmt : format) (copier : bool) : frontcfg := {| fc_format := fmt; fc_copier := copier; fc_config := demo_cfg |}.

Definition built (fmt : format) (copier : bool) (fs : srcfiles) (src : str) : option bytes :=
  match assemble_source demo_live_ips fs demo_cfg [113] src with
  | AOk o _ => match output_file (front fmt copier) o with Ok f => Some f | _ => None end
  | _ => None
  end.
Definition calls (fs : srcfiles) (src : str) : option (list (Z * bytes)) :=
  match assemble_source demo_live_ips fs demo_cfg [113] src with AOk o _ => Some (writer_blocks o) | _ => None end.

Definition q_image : bytes := [52; 18] ++ repeat 0 14 ++ [154; 120; 86].
Definition q_patch : bytes := [80;65;84;67;72;  0;0;0; 0;2; 52;18;   0;0;16; 0;3; 154;120;86;  69;79;70].
Definition q_patch_copier : bytes := [80;65;84;67;72;  0;2;0; 0;2; 52;18;   0;2;16; 0;3; 154;120;86;  69;79;70].

(** (3) the program, its two patches, the including programs, equal images; and the copier-header
    patch included WITHOUT the -0x200: the image 0x200 bytes further *)
Example patch_demo :
  include_src minus_0x200 = [46;105;110;99;108;117;100;101;95;105;112;115;32;39;112;46;105;112;115;39;32;44;45;48;120;50;48;48;10] /\
  calls no_srcfiles q_src = Some [(0, [52; 18]); (16, [154; 120; 86])] /\
  built FSfc false no_srcfiles q_src = Some q_image /\
  built FIps false no_srcfiles q_src = Some q_patch /\
  built FIps true no_srcfiles q_src = Some q_patch_copier /\
  calls (fs_with q_patch) (include_src zero) = Some [(0, [52; 18]); (16, [154; 120; 86])] /\
  built FSfc false (fs_with q_patch) (include_src zero) = Some q_image /\
  calls (fs_with q_patch_copier) (include_src minus_0x200) = Some [(0, [52; 18]); (16, [154; 120; 86])] /\
  built FSfc false (fs_with q_patch_copier) (include_src minus_0x200) = Some q_image /\
  built FSfc false (fs_with q_patch_copier) (include_src zero) = Some (repeat 0 512 ++ q_image) /\
  (* and once more: the patch of the including program is the patch again *)
  built FIps true (fs_with q_patch_copier) (include_src minus_0x200) = Some q_patch_copier.
Proof. vm_compute. repeat split; reflexivity. Qed.

(** the same from the theorem, all side conditions discharged *)
Example patch_demo_proved : exists oQ finQ oP finP,
  assemble_source demo_live_ips no_srcfiles demo_cfg [113] q_src = AOk oQ finQ /\
  output_file (front FIps true) oQ = Ok q_patch_copier /\ output_file (front FSfc false) oQ = Ok q_image /\
  assemble_source demo_live_ips (fs_with q_patch_copier) demo_cfg [113] (include_src minus_0x200) = AOk oP finP /\
  output_file (front FSfc false) oP = Ok q_image.
Proof.
  destruct (assemble_source demo_live_ips no_srcfiles demo_cfg [113] q_src) as [oQ finQ| | | |] eqn:EQ;
    try (vm_compute in EQ; discriminate EQ).
  assert (HP : output_file (front FIps true) oQ = Ok q_patch_copier) by (vm_compute in EQ; injection EQ as <- _; reflexivity).
  assert (HI : output_file (front FSfc false) oQ = Ok q_image) by (vm_compute in EQ; injection EQ as <- _; reflexivity).
  destruct (patch_text_roundtrip demo_live_ips (fs_with q_patch_copier) demo_cfg [113] 1 p_ips 1 sp00 minus_0x200
              true demo_cfg false false oQ q_patch_copier q_image demo_ips_tables) as (oP & finP & EP & _ & IP);
    try reflexivity; try assumption.
  - cbn [xstmt_ok]. split; [reflexivity|]. split; [|exact I].
    repeat (constructor; [repeat split; discriminate|]). constructor.
  - split; [reflexivity|exact I].
  - exists oQ, finQ, oP, finP. auto.
Qed.

(** a block above 0xFFFF bytes: written as two records, read back as two blocks, same image
    (equalities of 64K-byte lists are decided inside the VM, so nothing big is read back) *)
Definition sevens (n : Z) : bytes := repeat 7 (Z.to_nat n).
Definition blocks_eqb : list (Z * bytes) -> list (Z * bytes) -> bool :=
  list_eqb (fun x y => (fst x =? fst y) && list_eqb Z.eqb (snd x) (snd y)).
Definition res_eqb {A} (eqb : A -> A -> bool) (x y : res A) : bool :=
  match x, y with Ok a, Ok b => eqb a b | Err j, Err k => errk_eqb j k | _, _ => false end.
Lemma gen_list_eqb_eq {A} (eqb : A -> A -> bool) : (forall x y, eqb x y = true -> x = y) ->
  forall a b, list_eqb eqb a b = true -> a = b.
Proof.
  intros H. induction a as [|x a IH]; intros [|y b] E; try discriminate E; [reflexivity|].
  cbn [list_eqb] in E. apply andb_prop in E as [E1 E2]. rewrite (H _ _ E1), (IH _ E2). reflexivity.
Qed.
Lemma bytes_eqb_eq a b : list_eqb Z.eqb a b = true -> a = b.
Proof. apply gen_list_eqb_eq. intros x y; apply Z.eqb_eq. Qed.
Lemma blocks_eqb_eq a b : blocks_eqb a b = true -> a = b.
Proof.
  apply gen_list_eqb_eq. intros [x1 x2] [y1 y2] E. cbn [fst snd] in E. apply andb_prop in E as [E1 E2].
  apply Z.eqb_eq in E1. apply bytes_eqb_eq in E2. congruence.
Qed.
Lemma res_eqb_eq {A} (eqb : A -> A -> bool) : (forall a b, eqb a b = true -> a = b) ->
  forall x y : res A, res_eqb eqb x y = true -> x = y.
Proof.
  intros H [a|j|] [b|k|] E; try discriminate E; cbn [res_eqb] in E.
  - f_equal. apply H, E.
  - f_equal. destruct j, k; try discriminate E; reflexivity.
Qed.

Example patch_split_example :
  let blocks := [(0, sevens 65536)] in
  let recs := [(0, sevens 65535); (65535, [7])] in
  (do file <- ips_write false blocks; Ok (Z.of_nat (length file))) = Ok (5 + (5 + 65535) + (5 + 1) + 3) /\
  (do file <- ips_write false blocks; read_ips 0 file) = Ok recs /\
  sfc_image recs = sfc_image blocks.
Proof.
  cbv zeta. split; [|split].
  - apply (res_eqb_eq Z.eqb); [intros a b; apply Z.eqb_eq|]. vm_compute. reflexivity.
  - apply (res_eqb_eq blocks_eqb blocks_eqb_eq). vm_compute. reflexivity.
  - apply (res_eqb_eq (list_eqb Z.eqb) bytes_eqb_eq). vm_compute. reflexivity.
Qed.

(** the side condition of [patch_blocks_roundtrip]: with the copier header the writer accepts addresses
    -0x200..-1; such a block, once split, does not read back to the same effect on the abstract
    image (which clamps a negative offset to 0) - the SFC writer refuses it in both forms *)
Example patch_blocks_negative :
  let blocks := [(-1, sevens 65535 ++ [9])] in
  let recs := [(-1, sevens 65535); (65534, [9])] in
  (do file <- ips_write true blocks; read_ips (-512) file) = Ok recs /\
  Z.of_nat (length (apply_writes recs [])) = 65535 /\ Z.of_nat (length (apply_writes blocks [])) = 65536 /\
  sfc_image blocks = Err EValue /\ sfc_image recs = Err EValue.
Proof.
  cbv zeta. split; [|split; [|split; [|split]]].
  - apply (res_eqb_eq blocks_eqb blocks_eqb_eq). vm_compute. reflexivity.
  - apply Z.eqb_eq. vm_compute. reflexivity.
  - apply Z.eqb_eq. vm_compute. reflexivity.
  - reflexivity.
  - reflexivity.
Qed.

Print Assumptions patch_blocks_read_back.
Print Assumptions patch_blocks_roundtrip.
Print Assumptions patch_blocks_roundtrip_plain.
Print Assumptions patch_blocks_sfc.
Print Assumptions include_only_program.
Print Assumptions patch_program_roundtrip.
Print Assumptions patch_program_read_back.
Print Assumptions patch_text_roundtrip.
Print Assumptions patch_demo.
Print Assumptions patch_demo_proved.
Print Assumptions patch_split_example.
Print Assumptions patch_blocks_negative.
