(** * Non-vacuity of the ten [C20_pointers_*] theorems

    For every theorem of [Properties/C20Pointers.v] this file builds concrete, non-trivial
    arguments, proves that every hypothesis of the theorem holds for them, and applies the theorem:
    the instantiated conclusion is an [Example] closed by [exact (C20_pointers_xxx ...)].

    For the theorems that have no hypothesis (or whose conclusion is an equation between two
    computable terms) a second [Example] checks by computation that the two sides are a non-empty
    list, so that the equation is not the trivial [Ok [] = Ok []] nor [Err _ = Err _]. *)
From Coq Require Import ZArith List Lia Sorted.
From A816 Require Import Model.Table Model.Pointers Proofs.LegacyProofs Proofs.PackLemmas
  Spec.TableSpec Proofs.TableDecode Proofs.PointersProofs Proofs.TableOracle Properties.C20Pointers.
Import ListNotations.
Open Scope Z_scope.

(** ** small tactics for the side conditions *)
Ltac zcmp :=
  first [ lia
        | vm_compute; reflexivity
        | vm_compute; let Hc := fresh "Hc" in intro Hc; discriminate Hc ].
Ltac all_of tac := repeat (apply Forall_cons; [tac|]); apply Forall_nil.
Ltac valued := all_of ltac:(unfold has_value; cbn; discriminate).
Ltac addressed := all_of ltac:(unfold addr_ok; cbn; eexists; split; [reflexivity|zcmp]).

Definition P (i : Z) (a : option Z) (v : option bytes) : pointer :=
  {| p_id := i; p_addr := a; p_value := v |}.

(** * 1. [C20_pointers_partition] *)
Module PartitionDemo.
  (** a 40-byte rom *)
  Definition rom : bytes :=
    [ 16;  17;  18;  19;  20;  21;  22;  23;  24;  25;
      32;  33;  34;  35;  36;  37;  38;  39;  40;  41;
      48;  49;  50;  51;  52;  53;  54;  55;  56;  57;
     200; 201; 202; 203; 204; 205; 206; 207; 208; 209].
  (** four pointers, addresses 20, 4, 20, 11: unsorted, address 20 twice; the file object is
      positioned in the middle of the rom; the end is 33, before the end of the rom *)
  Definition ps : list pointer := [P 0 (Some 20) None; P 1 (Some 4) None; P 2 (Some 20) None; P 3 (Some 11) None].
  Definition e : Z := 33.
  Definition pos : Z := 7.

  Lemma H_addr : Forall addr_ok ps.            Proof. unfold ps. addressed. Qed.
  Lemma H_two : (2 <= length ps)%nat.          Proof. cbn. lia. Qed.
  Lemma H_end : Forall (fun p => addr_key p <= e) ps.
  Proof. unfold ps, e. all_of ltac:(cbn; lia). Qed.

  Example partition :
    exists out f',
      read_pointers_content (mkfile rom pos) ps e = Ok (out, f') /\
      f_content f' = rom /\
      map p_id out = map p_id (sort_by addr_key ps) /\
      map p_addr out = map p_addr (sort_by addr_key ps) /\
      map p_value out = map Some (slices rom (map addr_key (sort_by addr_key ps)) e) /\
      StronglySorted Z.le (map addr_key (sort_by addr_key ps)) /\
      concat (slices rom (map addr_key (sort_by addr_key ps)) e)
      = slice rom (hd 0 (map addr_key (sort_by addr_key ps))) e.
  Proof. exact (C20_pointers_partition rom pos ps e H_addr H_two H_end). Qed.

  (** what that is, computed: ids in address order (the two pointers at 20 keep their relative
      order), the duplicate address gives an empty slice, the slices tile [rom[4:33]] *)
  Example partition_computed :
    (do r <- read_pointers_content (mkfile rom pos) ps e;
     Ok (map (fun p => (p_id p, p_addr p, p_value p)) (fst r)))
    = Ok [ (1, Some 4,  Some [20; 21; 22; 23; 24; 25; 32]);
           (3, Some 11, Some [33; 34; 35; 36; 37; 38; 39; 40; 41]);
           (0, Some 20, Some []);
           (2, Some 20, Some [48; 49; 50; 51; 52; 53; 54; 55; 56; 57; 200; 201; 202])].
  Proof. vm_compute. reflexivity. Qed.
End PartitionDemo.

(** * 2. [C20_pointers_single] *)
Module SingleDemo.
  Import PartitionDemo.
  (** one pointer at 11, end 33, file positioned at 7: the value is read from the CURRENT position
      (7), not from the address, and is [33 - 11 = 22] bytes long *)
  Definition p : pointer := P 5 (Some 11) None.

  Example single :
    read_pointers_content (mkfile rom 7) [p] 33
    = Ok ([set_value p (readat rom 7 (33 - 11))], snd (fread (mkfile rom 7) (33 - 11))).
  Proof. exact (C20_pointers_single rom 7 p 11 33 eq_refl). Qed.

  Example single_computed :
    (do r <- read_pointers_content (mkfile rom 7) [p] 33; Ok (map p_value (fst r), f_pos (snd r)))
    = Ok ([Some [23; 24; 25; 32; 33; 34; 35; 36; 37; 38; 39; 40; 41; 48; 49; 50; 51; 52; 53; 54; 55; 56]], 29).
  Proof. vm_compute. reflexivity. Qed.
End SingleDemo.

(** * 3.-7. the binary writers *)
Module WriterDemo.
  (** four pointers with values, ids 7, 2, 9, 2 (unsorted, id 2 twice), one empty value *)
  Definition ps : list pointer :=
    [ P 7 (Some 20) (Some [170; 171; 172]);
      P 2 (Some 4)  (Some [1; 2; 3; 4; 5]);
      P 9 None      (Some []);
      P 2 (Some 20) (Some [255; 254]) ].
  (** 0x12345: not a multiple of 0x8000 nor of 0x10000 *)
  Definition base : Z := 74565.

  Lemma H_val : Forall has_value ps.   Proof. unfold ps. valued. Qed.

  (** ** 3. [C20_pointers_values] *)
  Example values :
    write_pointers_value_as_binary ps = Ok (concat (map value_of (sort_by p_id ps))).
  Proof. exact (C20_pointers_values ps H_val). Qed.

  Example values_computed :
    write_pointers_value_as_binary ps = Ok [1; 2; 3; 4; 5; 255; 254; 170; 171; 172]
    /\ concat (map value_of (sort_by p_id ps)) = [1; 2; 3; 4; 5; 255; 254; 170; 171; 172].
  Proof. split; vm_compute; reflexivity. Qed.

  (** ** 4. [C20_pointers_addresses] *)
  Lemma H_base : 0 <= base.   Proof. unfold base. lia. Qed.
  Lemma H_fit : base + len (concat (map value_of ps)) < 8388608.   Proof. vm_compute. reflexivity. Qed.

  Example addresses :
    write_pointers_addresses_as_binary ps (long_low_rom_pointer base)
    = Ok (concat (map (fun o => le_bytes 3 (rom_to_snes (base + o) LowRom))
                      (offsets (map value_of (sort_by p_id ps)) 0))) /\
    write_pointers_value_as_binary ps = Ok (concat (map value_of (sort_by p_id ps))) /\
    forall k, (k < length (map value_of (sort_by p_id ps)))%nat ->
              nth k (offsets (map value_of (sort_by p_id ps)) 0) 0
              = len (concat (firstn k (map value_of (sort_by p_id ps)))).
  Proof. exact (C20_pointers_addresses ps base H_val H_base H_fit). Qed.

  (** rom 0x12345 is SNES 0x02A345 (LowRom): four 3-byte little-endian entries at offsets
      0, 5, 7, 10 (the empty value, id 9, is last: its address is the end of the values) *)
  Example addresses_computed :
    write_pointers_addresses_as_binary ps (long_low_rom_pointer base)
    = Ok [69; 163; 2;  74; 163; 2;  76; 163; 2;  79; 163; 2]
    /\ offsets (map value_of (sort_by p_id ps)) 0 = [0; 5; 7; 10].
  Proof. split; vm_compute; reflexivity. Qed.

  (** ** 5. [C20_pointers_addresses_roundtrip] *)
  Lemma H_fit_rt : base + len (concat (map value_of ps)) < 3670016.   Proof. vm_compute. reflexivity. Qed.

  Example addresses_roundtrip :
    exists table,
      write_pointers_addresses_as_binary ps (long_low_rom_pointer base) = Ok table /\
      result (read_pointers (mkfile table 6) 0 (Z.of_nat (length ps)) 3 long_low_rom_pointer_inverse)
      = Ok (numbered 0 (map (fun o => base + o) (offsets (map value_of (sort_by p_id ps)) 0))).
  Proof. exact (C20_pointers_addresses_roundtrip ps base 6 H_val H_base H_fit_rt). Qed.

  Example addresses_roundtrip_computed :
    numbered 0 (map (fun o => base + o) (offsets (map value_of (sort_by p_id ps)) 0))
    = [P 0 (Some 74565) None; P 1 (Some 74570) None; P 2 (Some 74572) None; P 3 (Some 74575) None].
  Proof. vm_compute. reflexivity. Qed.

  (** ** 6. [C20_pointers_base_relative_roundtrip] *)
  Lemma H_fit16 : len (concat (map value_of ps)) < 65536.   Proof. vm_compute. reflexivity. Qed.

  Example base_relative_roundtrip :
    exists table,
      write_pointers_addresses_as_binary ps (fun p => Ok (le_bytes 2 p)) = Ok table /\
      result (read_pointers (mkfile table 3) 0 (Z.of_nat (length ps)) 2 (base_relative_16bits_pointer base))
      = Ok (numbered 0 (map (fun o => o + base) (offsets (map value_of (sort_by p_id ps)) 0))).
  Proof. exact (C20_pointers_base_relative_roundtrip ps base 3 H_val H_fit16). Qed.

  Example base_relative_computed :
    write_pointers_addresses_as_binary ps (fun p => Ok (le_bytes 2 p)) = Ok [0; 0; 5; 0; 7; 0; 10; 0].
  Proof. vm_compute. reflexivity. Qed.

  (** ** 7. [C20_pointers_dump_roundtrip] *)
  (** 37 bytes before the values (so the base is 37, not aligned on anything), 5 bytes after *)
  Definition pre : bytes :=
    [ 80; 81; 82; 83; 84; 85; 86; 87; 88; 89; 90; 91; 92; 93; 94; 95; 96; 97; 98; 99;
      100; 101; 102; 103; 104; 105; 106; 107; 108; 109; 110; 111; 112; 113; 114; 115; 116].
  Definition suf : bytes := [9; 8; 7; 6; 5].

  Lemma H_two : (2 <= length ps)%nat.   Proof. cbn. lia. Qed.
  Lemma H_fit_dump : len pre + len (concat (map value_of ps)) < 3670016.   Proof. vm_compute. reflexivity. Qed.

  Example dump_roundtrip :
    exists table values ptrs out f',
      write_pointers_addresses_as_binary ps (long_low_rom_pointer (len pre)) = Ok table /\
      write_pointers_value_as_binary ps = Ok values /\
      result (read_pointers (mkfile table 2) 0 (Z.of_nat (length ps)) 3 long_low_rom_pointer_inverse) = Ok ptrs /\
      read_pointers_content (mkfile (pre ++ values ++ suf) 11) ptrs (len pre + len values) = Ok (out, f') /\
      map p_value out = map Some (map value_of (sort_by p_id ps)) /\
      map p_id out = map Z.of_nat (seq 0 (length ps)).
  Proof. exact (C20_pointers_dump_roundtrip ps pre suf 2 11 H_val H_two H_fit_dump). Qed.

  Example dump_roundtrip_computed :
    map Some (map value_of (sort_by p_id ps))
    = [Some [1; 2; 3; 4; 5]; Some [255; 254]; Some [170; 171; 172]; Some []].
  Proof. vm_compute. reflexivity. Qed.
End WriterDemo.

(** * 8. [C20_pointers_append] *)
Module AppendDemo.
  (** two non-empty tables, both with unsorted ids; the first has its largest id (12) in the
      middle and one id twice, the second has non-negative ids *)
  Definition t1 : list pointer := [P 5 (Some 1) None; P 12 None (Some [1]); P 3 (Some 9) None; P 5 None None].
  Definition t2 : list pointer := [P 4 (Some 7) None; P 0 None (Some [2; 3]); P 2 (Some 8) None].

  Lemma H_ne : t1 <> [].   Proof. discriminate. Qed.

  Example append :
    exists m,
      In m (map p_id t1) /\
      Forall (fun i => i <= m) (map p_id t1) /\
      append_pointers t1 t2 = Ok (sort_by p_id t1 ++ map (shift_id m) (sort_by p_id t2)) /\
      (Forall (fun i => 0 <= i) (map p_id t2) ->
       StronglySorted Z.le (map p_id (sort_by p_id t1 ++ map (shift_id m) (sort_by p_id t2)))).
  Proof. exact (C20_pointers_append t1 t2 H_ne). Qed.

  (** the premise of the last implication holds for [t2], and the result is what one expects *)
  Example append_premise : Forall (fun i => 0 <= i) (map p_id t2).
  Proof. cbn. all_of ltac:(lia). Qed.
  Example append_computed :
    (do l <- append_pointers t1 t2; Ok (map p_id l)) = Ok [3; 5; 5; 12; 12; 14; 16].
  Proof. vm_compute. reflexivity. Qed.
End AppendDemo.

(** * 9. [C20_pointers_recode] *)
Definition tbl_of (es : list entry) : table :=
  match table_of_entries es with Ok t => t | _ => empty_table end.

Module RecodeDemo.
  (** two C18-style tables with multi-character entries and multi-byte codes.
      [esA]: "th"=90, "e"=45, "a"=41, "t"=54, "h"=48, " "=20, "<nl>"=FE.
      [esB]: "the"=01 02, "a"=61, "t"=74, "h"=68, "e"=65, " "=FF 00, "<nl>"=0A, "th"=99. *)
  Definition esA : list entry :=
    [ ([116; 104], [144], None); ([101], [69], None); ([97], [65], None); ([116], [84], None);
      ([104], [72], None); ([32], [32], None); ([60; 110; 108; 62], [254], None) ].
  Definition esB : list entry :=
    [ ([116; 104; 101], [1; 2], None); ([97], [97], None); ([116], [116], None); ([104], [104], None);
      ([101], [101], None); ([32], [255; 0], None); ([60; 110; 108; 62], [10], None); ([116; 104], [153], None) ].
  Definition tA : table := Eval vm_compute in tbl_of esA.
  Definition tB : table := Eval vm_compute in tbl_of esB.
  Example tA_ok : table_of_entries esA = Ok tA.   Proof. vm_compute. reflexivity. Qed.
  Example tB_ok : table_of_entries esB = Ok tB.   Proof. vm_compute. reflexivity. Qed.

  (** "the hat<nl>", "at", "" under [esA]; ids unsorted, one id twice *)
  Definition ps : list pointer :=
    [ P 4 (Some 100) (Some [144; 69; 32; 72; 65; 84; 254]);
      P 1 (Some 7)   (Some [65; 84]);
      P 4 None       (Some []) ].

  Example recode :
    recode_pointer_values ps tA tB = map_res (recode_one tA tB) ps.
  Proof. exact (C20_pointers_recode ps tA tB). Qed.

  (** both sides are the same non-empty list: "the" is now one two-byte code, " " is FF 00 *)
  Example recode_computed :
    recode_pointer_values ps tA tB
    = Ok [ P 4 (Some 100) (Some [1; 2; 255; 0; 104; 97; 116; 10]); P 1 (Some 7) (Some [97; 116]); P 4 None (Some []) ]
    /\ map_res (recode_one tA tB) ps
    = Ok [ P 4 (Some 100) (Some [1; 2; 255; 0; 104; 97; 116; 10]); P 1 (Some 7) (Some [97; 116]); P 4 None (Some []) ].
  Proof. split; vm_compute; reflexivity. Qed.
End RecodeDemo.

(** * 10. [C20_pointers_recode_roundtrip]

    The theorem asks for [single_char_texts] of both tables, so the TEXTS of the entries are one
    character here (multi-character texts are excluded by that hypothesis: see the remark at the
    end); the CODES are of one, two and three bytes. *)
Module RecodeRoundtripDemo.
  (** [es1]: "a"=01, "b"=02 03, "c"=80 01 7F, " "=00, "!"=04.
      [es2]: "a"=41, "b"=42 10, "c"=43, " "=20 20, "!"=21, "z"=7A. *)
  Definition es1 : list entry :=
    [ ([97], [1], None); ([98], [2; 3], None); ([99], [128; 1; 127], None); ([32], [0], None); ([33], [4], None) ].
  Definition es2 : list entry :=
    [ ([97], [65], None); ([98], [66; 16], None); ([99], [67], None); ([32], [32; 32], None);
      ([33], [33], None); ([122], [122], None) ].
  Definition t1 : table := Eval vm_compute in tbl_of es1.
  Definition t2 : table := Eval vm_compute in tbl_of es2.

  Lemma H_t1 : table_of_entries es1 = Ok t1.   Proof. vm_compute. reflexivity. Qed.
  Lemma H_t2 : table_of_entries es2 = Ok t2.   Proof. vm_compute. reflexivity. Qed.
  Lemma H_rt1 : rt_table es1.   Proof. apply rt_table_b_sound. vm_compute. reflexivity. Qed.
  Lemma H_rt2 : rt_table es2.   Proof. apply rt_table_b_sound. vm_compute. reflexivity. Qed.

  Ltac in_cases H := cbn in H; repeat (destruct H as [H|H]; [subst|]); try contradiction.
  Lemma H_sc1 : single_char_texts es1.
  Proof. intros e0 H. in_cases H; reflexivity. Qed.
  Lemma H_sc2 : single_char_texts es2.
  Proof. intros e0 H. in_cases H; reflexivity. Qed.

  (** "cab b!", "abc", "" under [es1]; ids unsorted, one id twice *)
  Definition s_a : str := [99; 97; 98; 32; 98; 33].
  Definition s_b : str := [97; 98; 99].
  Definition s_c : str := [].
  Definition ps : list pointer :=
    [ P 3 (Some 64) (Some [128; 1; 127; 1; 2; 3; 0; 2; 3; 4]);
      P 0 None      (Some [1; 2; 3; 128; 1; 127]);
      P 3 (Some 2)  (Some []) ].

  Ltac pick_entry :=
    unfold has_text;
    first [ eexists; split; [left; reflexivity|reflexivity]
          | eexists; split; [right; left; reflexivity|reflexivity]
          | eexists; split; [right; right; left; reflexivity|reflexivity]
          | eexists; split; [right; right; right; left; reflexivity|reflexivity]
          | eexists; split; [right; right; right; right; left; reflexivity|reflexivity]
          | eexists; split; [right; right; right; right; right; left; reflexivity|reflexivity] ].
  Ltac alphabet := let ch := fresh "ch" in let H := fresh "H" in
    intros ch H; in_cases H; pick_entry.
  Ltac no_bracket := apply no_bracket_joker_free; let H := fresh "H" in
    intro H; cbn in H; repeat (destruct H as [H|H]; [discriminate H|]); contradiction.
  Ltac text_of s :=
    exists s; split; [alphabet|split; [alphabet|split; [no_bracket|vm_compute; reflexivity]]].

  Lemma H_ps :
    Forall (fun p => exists s, over_alphabet es1 s /\ over_alphabet es2 s /\ joker_free s /\
                               (do b <- to_bytes t1 s; Ok (Some b)) = Ok (p_value p)) ps.
  Proof.
    unfold ps. apply Forall_cons; [text_of s_a|]. apply Forall_cons; [text_of s_b|].
    apply Forall_cons; [text_of s_c|]. apply Forall_nil.
  Qed.

  Example recode_roundtrip :
    exists mid, recode_pointer_values ps t1 t2 = Ok mid /\ recode_pointer_values mid t2 t1 = Ok ps.
  Proof. exact (C20_pointers_recode_roundtrip es1 es2 t1 t2 ps H_t1 H_rt1 H_sc1 H_t2 H_rt2 H_sc2 H_ps). Qed.

  Example recode_roundtrip_computed :
    recode_pointer_values ps t1 t2
    = Ok [ P 3 (Some 64) (Some [67; 65; 66; 16; 32; 32; 66; 16; 33]); P 0 None (Some [65; 66; 16; 67]);
           P 3 (Some 2) (Some []) ].
  Proof. vm_compute. reflexivity. Qed.

  (** Remark (why the texts are single characters here).  With the multi-character tables of
      [RecodeDemo] the round trip really fails: "the" is one entry of [esB] and three of [esA],
      and back from [esB] the greedy encoder of [esA] takes "th" + "e" where the original had
      "t" + "h" + "e". *)
  Example multi_char_texts_do_not_roundtrip :
    let p := P 0 None (Some [84; 72; 69]) in      (* "t" "h" "e" under esA *)
    (do mid <- recode_pointer_values [p] RecodeDemo.tA RecodeDemo.tB;
     do back <- recode_pointer_values mid RecodeDemo.tB RecodeDemo.tA; Ok (map p_value back))
    = Ok [Some [144; 69]].
  Proof. vm_compute. reflexivity. Qed.
End RecodeRoundtripDemo.

Print Assumptions PartitionDemo.partition.
Print Assumptions WriterDemo.dump_roundtrip.
Print Assumptions RecodeRoundtripDemo.recode_roundtrip.
