(** Proofs about Model/Pointers.v (script/pointers.py). *)
From Coq Require Import ZArith List Lia Sorted Permutation Bool.
From A816 Require Import Model.Pointers Proofs.LegacyProofs Proofs.PackLemmas Spec.TableSpec Proofs.TableDecode.
Import ListNotations.
Open Scope Z_scope.

(** * sorted(key=...) *)
Section Sort.
  Context {A : Type} (key : A -> Z).

  Lemma insert_by_perm x l : Permutation (insert_by key x l) (x :: l).
  Proof.
    induction l as [|y r IH]; cbn [insert_by]; [reflexivity|].
    destruct (key x <=? key y); [reflexivity|].
    rewrite IH. apply perm_swap.
  Qed.
  Lemma sort_by_perm l : Permutation (sort_by key l) l.
  Proof.
    induction l as [|x r IH]; [reflexivity|]. unfold sort_by in *. cbn [fold_right].
    rewrite insert_by_perm. constructor. exact IH.
  Qed.
  Lemma sort_by_length l : length (sort_by key l) = length l.
  Proof. apply Permutation_length, sort_by_perm. Qed.

  Definition sorted_by (l : list A) : Prop := StronglySorted (fun a b => key a <= key b) l.

  Lemma insert_by_sorted x l : sorted_by l -> sorted_by (insert_by key x l).
  Proof.
    induction 1 as [|y r Hs IH Hy]; cbn [insert_by].
    - constructor; constructor.
    - destruct (key x <=? key y) eqn:E.
      + constructor; [constructor; assumption|].
        constructor; [lia|]. eapply Forall_impl; [|exact Hy]. cbn. intros; lia.
      + constructor; [exact IH|].
        eapply Permutation_Forall; [symmetry; apply insert_by_perm|]. constructor; [lia|exact Hy].
  Qed.
  Lemma sort_by_sorted l : sorted_by (sort_by key l).
  Proof.
    induction l as [|x r IH]; [constructor|]. unfold sort_by in *. cbn [fold_right].
    apply insert_by_sorted, IH.
  Qed.

  (** a list already in order is left alone (this is also where stability shows: equal keys keep
      their order) *)
  Lemma sort_by_id l : sorted_by l -> sort_by key l = l.
  Proof.
    induction 1 as [|y r Hs IH Hy]; [reflexivity|]. unfold sort_by in *. cbn [fold_right]. rewrite IH.
    destruct r as [|z r']; [reflexivity|]. cbn [insert_by].
    inversion Hy as [|? ? Hz _]; subst. replace (key y <=? key z) with true by lia. reflexivity.
  Qed.

  (** stability: the elements of any one key come out in the order they went in *)
  Lemma insert_by_filter k x l : sorted_by l ->
    filter (fun a => key a =? k) (insert_by key x l) = filter (fun a => key a =? k) (x :: l).
  Proof.
    induction 1 as [|y r Hs IH Hy]; [reflexivity|]. cbn [insert_by].
    destruct (key x <=? key y) eqn:E; [reflexivity|].
    cbn [filter] in *. rewrite IH.
    destruct (key x =? k) eqn:Ex; destruct (key y =? k) eqn:Ey; try reflexivity. lia.
  Qed.
  Theorem sort_by_stable k l :
    filter (fun a => key a =? k) (sort_by key l) = filter (fun a => key a =? k) l.
  Proof.
    induction l as [|x r IH]; [reflexivity|]. unfold sort_by in *. cbn [fold_right].
    rewrite insert_by_filter by apply (sort_by_sorted r). cbn [filter]. rewrite IH. reflexivity.
  Qed.

  Lemma sort_by_nil_iff l : sort_by key l = [] <-> l = [].
  Proof.
    split; [|intros ->; reflexivity]. intros H. pose proof (sort_by_length l) as E. rewrite H in E.
    destruct l; [reflexivity|discriminate].
  Qed.
End Sort.

(** * file objects *)
Definition mkfile (rom : bytes) (pos : Z) : file := {| f_content := rom; f_pos := pos |}.

(** [rom[a:b]] for [0 <= a <= b] (truncated at the end of [rom], like a Python slice) *)
Definition slice (rom : bytes) (a b : Z) : bytes := firstn (Z.to_nat (b - a)) (skipn (Z.to_nat a) rom).
(** what [read(n)] returns at position [a] *)
Definition readat (rom : bytes) (a n : Z) : bytes :=
  if n <? 0 then skipn (Z.to_nat a) rom else firstn (Z.to_nat n) (skipn (Z.to_nat a) rom).

Lemma fread_readat f n : fst (fread f n) = readat (f_content f) (f_pos f) n.
Proof. reflexivity. Qed.
Lemma fread_content f n : f_content (snd (fread f n)) = f_content f.
Proof. reflexivity. Qed.
Lemma readat_slice rom a b : a <= b -> readat rom a (b - a) = slice rom a b.
Proof. intros H. unfold readat, slice. replace (b - a <? 0) with false by lia. reflexivity. Qed.

Lemma firstn_add {A} n m (l : list A) : firstn (n + m) l = firstn n l ++ firstn m (skipn n l).
Proof.
  revert l. induction n as [|n IH]; intros l; [reflexivity|].
  destruct l as [|x l]; cbn [Nat.add firstn skipn app]; [destruct m; reflexivity|]. rewrite IH. reflexivity.
Qed.

Lemma skipn_add {A} n m (l : list A) : skipn (n + m) l = skipn m (skipn n l).
Proof.
  revert l. induction n as [|n IH]; intros l; [reflexivity|].
  destruct l as [|x l]; cbn [Nat.add skipn]; [destruct m; reflexivity|]. apply IH.
Qed.

Lemma slice_app rom a b c : 0 <= a <= b -> b <= c -> slice rom a b ++ slice rom b c = slice rom a c.
Proof.
  intros Hab Hbc. unfold slice.
  replace (Z.to_nat (c - a)) with (Z.to_nat (b - a) + Z.to_nat (c - b))%nat by lia.
  rewrite firstn_add, <- skipn_add. repeat f_equal. lia.
Qed.
Lemma slice_empty rom a : slice rom a a = [].
Proof. unfold slice. rewrite Z.sub_diag. reflexivity. Qed.
Lemma slice_length rom a b : 0 <= a <= b -> b <= Z.of_nat (length rom) -> Z.of_nat (length (slice rom a b)) = b - a.
Proof. intros Ha Hb. unfold slice. rewrite firstn_length, skipn_length. lia. Qed.
(** a slice of [pre ++ v ++ suf] starting right after [pre] *)
Lemma slice_middle pre v suf : slice (pre ++ v ++ suf) (Z.of_nat (length pre)) (Z.of_nat (length pre) + Z.of_nat (length v)) = v.
Proof.
  unfold slice. rewrite Nat2Z.id. replace (Z.to_nat _) with (length v) by lia.
  rewrite skipn_app, skipn_all, Nat.sub_diag. cbn [skipn app].
  rewrite firstn_app, firstn_all, Nat.sub_diag. cbn [firstn]. apply app_nil_r.
Qed.

(** after reading [rom[a:b]] the file is where a seek to [b] would have put it, as far as any later
    read can tell (the position itself is smaller when [b] is beyond the end of the file) *)
Definition positioned (f : file) (rom : bytes) (a : Z) : Prop :=
  f_content f = rom /\ skipn (Z.to_nat (f_pos f)) rom = skipn (Z.to_nat a) rom.

Lemma positioned_read rom a n f : positioned f rom a -> fst (fread f n) = readat rom a n.
Proof. intros [Hc Hp]. rewrite fread_readat, Hc. unfold readat. rewrite Hp. reflexivity. Qed.

Lemma positioned_after rom a b : 0 <= a <= b ->
  positioned (snd (fread (mkfile rom a) (b - a))) rom b.
Proof.
  intros H. split; [reflexivity|]. cbn [fread snd f_pos f_content mkfile].
  replace (b - a <? 0) with false by lia.
  set (l := skipn (Z.to_nat a) rom). set (k := Z.to_nat (b - a)).
  replace (Z.to_nat (a + Z.of_nat (length (firstn k l)))) with (Z.to_nat a + length (firstn k l))%nat by lia.
  replace (Z.to_nat b) with (Z.to_nat a + k)%nat by lia.
  rewrite !skipn_add. fold l. rewrite firstn_length.
  destruct (Nat.le_ge_cases k (length l)) as [Hk|Hk].
  - rewrite Nat.min_l by exact Hk. reflexivity.
  - rewrite Nat.min_r by exact Hk. rewrite skipn_all. symmetry. apply skipn_all2. exact Hk.
Qed.

(** * read_pointers_content *)
Definition set_values (ps : list pointer) (vs : list bytes) : list pointer :=
  map (fun pv => set_value (fst pv) (snd pv)) (combine ps vs).

(** what the successive reads return: every pointer up to the next address, the last one
    [end - address] bytes ([read] of a negative count = to the end of the file) *)
Fixpoint reads (rom : bytes) (addrs : list Z) (e : Z) : list bytes :=
  match addrs with
  | [] => []
  | a :: r => match r with
              | [] => [readat rom a (e - a)]
              | b :: _ => readat rom a (b - a) :: reads rom r e
              end
  end.
Fixpoint slices (rom : bytes) (addrs : list Z) (e : Z) : list bytes :=
  match addrs with
  | [] => []
  | a :: r => match r with
              | [] => [slice rom a e]
              | b :: _ => slice rom a b :: slices rom r e
              end
  end.

Definition rpc_tail (f : file) (ps : list pointer) (e : Z) : res (list pointer * file) :=
  do x <- rpc_loop f ps;
  match rev (fst x) with
  | [] => Err EIndex
  | lastp :: before =>
      let '(v, f') := fread (snd x) (e - addr_key lastp) in
      Ok (rev before ++ [set_value lastp v], f')
  end.

Lemma rpc_loop_cons f p q r :
  rpc_loop f (p :: q :: r) =
  (do f1 <- fseek f (addr_key p);
   let '(v, f2) := fread f1 (addr_key q - addr_key p) in
   do x <- rpc_loop f2 (q :: r); Ok (set_value p v :: fst x, snd x)).
Proof. reflexivity. Qed.

Lemma rpc_loop_length ps : forall f x, rpc_loop f ps = Ok x -> length (fst x) = length ps.
Proof.
  induction ps as [|p r IH]; intros f x H; [cbn in H; injection H as <-; reflexivity|].
  destruct r as [|q r']; [cbn in H; injection H as <-; reflexivity|].
  rewrite rpc_loop_cons in H. destruct (fseek f (addr_key p)) as [f1| |]; try discriminate H. cbn [bind] in H.
  destruct (fread f1 (addr_key q - addr_key p)) as [v f2].
  destruct (rpc_loop f2 (q :: r')) as [x'| |] eqn:E; try discriminate H. cbn [bind] in H.
  injection H as <-. cbn [fst length]. f_equal. exact (IH _ _ E).
Qed.

Lemma rpc_tail_cons f p q r e :
  rpc_tail f (p :: q :: r) e =
  (do f1 <- fseek f (addr_key p);
   let '(v, f2) := fread f1 (addr_key q - addr_key p) in
   do x <- rpc_tail f2 (q :: r) e; Ok (set_value p v :: fst x, snd x)).
Proof.
  unfold rpc_tail. rewrite rpc_loop_cons. destruct (fseek f (addr_key p)) as [f1| |]; try reflexivity. cbn [bind].
  destruct (fread f1 (addr_key q - addr_key p)) as [v f2].
  destruct (rpc_loop f2 (q :: r)) as [[l' f3]| |] eqn:E; try reflexivity. cbn [bind fst snd].
  pose proof (rpc_loop_length _ _ _ E) as HL. cbn [fst length] in HL.
  cbn [rev]. destruct (rev l') as [|lastp before] eqn:ER.
  - apply (f_equal (@length _)) in ER. rewrite rev_length, HL in ER. discriminate ER.
  - cbn [app]. destruct (fread f3 (e - addr_key lastp)) as [v' f4]. cbn [bind fst snd].
    rewrite rev_app_distr. reflexivity.
Qed.

Lemma rpc_tail_positioned rom e : forall ps p f,
  sorted_by addr_key (p :: ps) -> Forall (fun q => 0 <= addr_key q) (p :: ps) ->
  positioned f rom (addr_key p) ->
  exists f', rpc_tail f (p :: ps) e = Ok (set_values (p :: ps) (reads rom (map addr_key (p :: ps)) e), f')
             /\ f_content f' = rom.
Proof.
  induction ps as [|q r IH]; intros p f Hs Hn Hp.
  - unfold rpc_tail. cbn [rpc_loop bind fst snd rev app].
    pose proof (positioned_read _ _ (e - addr_key p) _ Hp) as Hr.
    pose proof (fread_content f (e - addr_key p)) as Hc.
    destruct (fread f (e - addr_key p)) as [v f']. cbn [fst snd] in *. exists f'. subst v.
    split; [reflexivity|]. rewrite Hc. apply Hp.
  - rewrite rpc_tail_cons.
    inversion Hs as [|? ? Hs' Hle]; subst. inversion Hn as [|? ? Hp0 Hn']; subst.
    inversion Hle as [|? ? Hpq _]; subst. inversion Hn' as [|? ? Hq0 _]; subst.
    unfold fseek. replace (addr_key p <? 0) with false by lia. cbn [bind].
    destruct Hp as [Hc _]. rewrite Hc. fold (mkfile rom (addr_key p)).
    pose proof (positioned_after rom (addr_key p) (addr_key q) ltac:(lia)) as Hpos.
    pose proof (fread_readat (mkfile rom (addr_key p)) (addr_key q - addr_key p)) as Hr.
    destruct (fread (mkfile rom (addr_key p)) (addr_key q - addr_key p)) as [v f2]. cbn [fst snd] in *.
    destruct (IH q f2 Hs' Hn' Hpos) as (f' & E & Hc'). rewrite E. cbn [bind fst snd].
    exists f'. split; [|exact Hc']. subst v. reflexivity.
Qed.

Lemma all_addresses_ok ps : Forall (fun p => p_addr p <> None) ps -> exists l, all_addresses ps = Ok l.
Proof.
  induction 1 as [|p r Hp _ [l IH]]; [eexists; reflexivity|].
  cbn [all_addresses]. unfold Pointers.get_address. destruct (p_addr p); [|contradiction]. cbn [bind]. rewrite IH.
  eexists; reflexivity.
Qed.

Definition addr_ok (p : pointer) : Prop := exists a, p_addr p = Some a /\ 0 <= a.
Lemma addr_ok_key p : addr_ok p -> 0 <= addr_key p /\ p_addr p <> None.
Proof. intros (a & E & H). unfold addr_key. rewrite E. split; [exact H|discriminate]. Qed.

(** (a) Two pointers or more: wherever the ROM file was positioned, the result is the list sorted by
    address (stable), each value being what [read] returns AT the pointer's address. *)
Theorem read_pointers_content_reads rom pos ps e :
  Forall addr_ok ps -> (2 <= length ps)%nat ->
  let qs := sort_by addr_key ps in
  exists f', read_pointers_content (mkfile rom pos) ps e = Ok (set_values qs (reads rom (map addr_key qs) e), f')
             /\ f_content f' = rom.
Proof.
  intros Hok Hlen qs. unfold read_pointers_content.
  destruct (all_addresses_ok ps) as [l El].
  { eapply Forall_impl; [|exact Hok]. intros p Hp. apply (addr_ok_key p Hp). }
  rewrite El. cbn [bind]. fold qs. fold (rpc_tail (mkfile rom pos) qs e).
  assert (Hs : sorted_by addr_key qs) by apply sort_by_sorted.
  assert (Hn : Forall (fun q => 0 <= addr_key q) qs).
  { eapply Permutation_Forall; [symmetry; apply sort_by_perm|].
    eapply Forall_impl; [|exact Hok]. intros p Hp. apply (addr_ok_key p Hp). }
  assert (HL : length qs = length ps) by apply sort_by_length.
  destruct qs as [|p [|q r]]; cbn [length] in HL; try lia.
  rewrite rpc_tail_cons.
  inversion Hs as [|? ? Hs' Hle]; subst. inversion Hn as [|? ? Hp0 Hn']; subst.
  inversion Hle as [|? ? Hpq _]; subst.
  unfold fseek. replace (addr_key p <? 0) with false by lia. cbn [bind f_content mkfile].
  fold (mkfile rom (addr_key p)).
  pose proof (positioned_after rom (addr_key p) (addr_key q) ltac:(lia)) as Hpos.
  pose proof (fread_readat (mkfile rom (addr_key p)) (addr_key q - addr_key p)) as Hr.
  destruct (fread (mkfile rom (addr_key p)) (addr_key q - addr_key p)) as [v f2]. cbn [fst snd] in *.
  destruct (rpc_tail_positioned rom e r q f2 Hs' Hn' Hpos) as (f' & E & Hc'). rewrite E. cbn [bind fst snd].
  exists f'. split; [|exact Hc']. subst v. reflexivity.
Qed.

(** The missing seek.  One pointer: nothing is sought, the value is read from wherever the file
    position happens to be, and the pointer's address only determines how much is read. *)
Theorem read_pointers_content_single rom pos p a e :
  p_addr p = Some a ->
  read_pointers_content (mkfile rom pos) [p] e =
  Ok ([set_value p (readat rom pos (e - a))], snd (fread (mkfile rom pos) (e - a))).
Proof.
  intros Ha. unfold read_pointers_content. cbn [all_addresses]. unfold Pointers.get_address. rewrite Ha.
  cbn [bind sort_by fold_right insert_by rpc_loop fst snd rev app]. unfold addr_key. rewrite Ha.
  pose proof (fread_readat (mkfile rom pos) (e - a)) as Hr.
  destruct (fread (mkfile rom pos) (e - a)) as [v f']. cbn [fst snd] in *. subst v. reflexivity.
Qed.
Definition result {A B} (r : res (A * B)) : res A := do x <- r; Ok (fst x).
(** rom = "ABCDEF", one pointer at address 2, end 4: a fresh file yields "AB", not "CD". *)
Example read_pointers_content_single_quirk :
  let p := {| p_id := 0; p_addr := Some 2; p_value := None |} in
  let rom := [65; 66; 67; 68; 69; 70] in
  result (read_pointers_content (mkfile rom 0) [p] 4) = Ok [set_value p [65; 66]] /\
  result (read_pointers_content (mkfile rom 2) [p] 4) = Ok [set_value p [67; 68]] /\
  result (read_pointers_content (mkfile rom 5) [p] 4) = Ok [set_value p [70]].
Proof. repeat split. Qed.
(** Other boundary behaviour: an empty list is IndexError, a pointer without address an
    AssertionError, a negative address ValueError (only if it has to be sought, i.e. not for a
    single pointer), an end before the last address reads to the end of the file. *)
Example read_pointers_content_boundaries :
  let P i a := {| p_id := i; p_addr := a; p_value := None |} in
  let rom := [65; 66; 67; 68; 69; 70] in
  read_pointers_content (mkfile rom 0) [] 4 = Err EIndex /\
  read_pointers_content (mkfile rom 0) [P 0 (Some 1); P 1 None] 4 = Err EAssert /\
  read_pointers_content (mkfile rom 0) [P 0 (Some (-1)); P 1 (Some 2)] 4 = Err EValue /\
  result (read_pointers_content (mkfile rom 0) [P 0 (Some (-1))] 4) = Ok [set_value (P 0 (Some (-1))) [65; 66; 67; 68; 69]] /\
  result (read_pointers_content (mkfile rom 0) [P 0 (Some 3); P 1 (Some 1)] 2) =
    Ok [set_value (P 1 (Some 1)) [66; 67]; set_value (P 0 (Some 3)) [68; 69; 70]].
Proof. repeat split. Qed.

(** ** the values partition [rom[first address : end]] *)
Lemma reads_length rom addrs e : length (reads rom addrs e) = length addrs.
Proof. induction addrs as [|a [|b r] IH]; cbn [reads length] in *; congruence. Qed.
Lemma slices_length rom addrs e : length (slices rom addrs e) = length addrs.
Proof. induction addrs as [|a [|b r] IH]; cbn [slices length] in *; congruence. Qed.

Lemma reads_slices rom addrs e :
  StronglySorted Z.le addrs -> Forall (fun a => a <= e) addrs -> reads rom addrs e = slices rom addrs e.
Proof.
  induction 1 as [|a r Hs IH Ha]; intros He; [reflexivity|].
  inversion He as [|? ? Hae He']; subst.
  destruct r as [|b r']; cbn [reads slices].
  - rewrite readat_slice by lia. reflexivity.
  - inversion Ha; subst. rewrite readat_slice by lia. f_equal. exact (IH He').
Qed.

Lemma slices_concat rom a r e :
  StronglySorted Z.le (a :: r) -> 0 <= a -> Forall (fun x => x <= e) (a :: r) ->
  concat (slices rom (a :: r) e) = slice rom a e.
Proof.
  revert a. induction r as [|b r IH]; intros a Hs Ha He.
  - cbn. apply app_nil_r.
  - inversion Hs as [|? ? Hs' Hle]; subst. inversion Hle as [|? ? Hab _]; subst.
    inversion He as [|? ? Hae He']; subst. inversion He' as [|? ? Hbe _]; subst.
    change (slices rom (a :: b :: r) e) with (slice rom a b :: slices rom (b :: r) e).
    cbn [concat]. rewrite (IH b Hs' ltac:(lia) He'). apply slice_app; lia.
Qed.

Lemma sorted_by_map {A} (key : A -> Z) l : sorted_by key l -> StronglySorted Z.le (map key l).
Proof.
  induction 1 as [|x r Hs IH Hx]; cbn [map]; constructor; [exact IH|].
  apply Forall_map. exact Hx.
Qed.

Lemma set_values_ids ps vs : length vs = length ps -> map p_id (set_values ps vs) = map p_id ps.
Proof.
  revert vs. induction ps as [|p r IH]; intros [|v vs] H; try discriminate H; [reflexivity|].
  unfold set_values in *. cbn [combine map fst snd set_value p_id]. f_equal. apply IH. injection H as H; exact H.
Qed.
Lemma set_values_addrs ps vs : length vs = length ps -> map p_addr (set_values ps vs) = map p_addr ps.
Proof.
  revert vs. induction ps as [|p r IH]; intros [|v vs] H; try discriminate H; [reflexivity|].
  unfold set_values in *. cbn [combine map fst snd set_value p_addr]. f_equal. apply IH. injection H as H; exact H.
Qed.
Lemma set_values_values ps vs : length vs = length ps -> map p_value (set_values ps vs) = map Some vs.
Proof.
  revert vs. induction ps as [|p r IH]; intros [|v vs] H; try discriminate H; [reflexivity|].
  unfold set_values in *. cbn [combine map fst snd set_value p_value]. f_equal. apply IH. injection H as H; exact H.
Qed.

(** (a) Two pointers or more, non-negative addresses, end of script not before the last address (no
    distinctness needed: equal addresses give empty values): ids and addresses are those of the
    address-sorted list; the k-th value is [rom[a_k : a_(k+1)]], the last [rom[a_last : end]] - so
    every value starts at its own address - and together they are [rom[a_first : end]].  If
    moreover [end <= len(rom)] the k-th value has exactly [a_(k+1) - a_k] bytes ([slice_length]). *)
Theorem read_pointers_content_partition rom pos ps e :
  Forall addr_ok ps -> (2 <= length ps)%nat -> Forall (fun p => addr_key p <= e) ps ->
  let qs := sort_by addr_key ps in
  let addrs := map addr_key qs in
  exists out f', read_pointers_content (mkfile rom pos) ps e = Ok (out, f') /\ f_content f' = rom /\
    map p_id out = map p_id qs /\ map p_addr out = map p_addr qs /\
    map p_value out = map Some (slices rom addrs e) /\
    StronglySorted Z.le addrs /\
    concat (slices rom addrs e) = slice rom (hd 0 addrs) e.
Proof.
  intros Hok Hlen He qs addrs.
  destruct (read_pointers_content_reads rom pos ps e Hok Hlen) as (f' & E & Hc). fold qs in E. fold addrs in E.
  assert (Hs : StronglySorted Z.le addrs) by apply sorted_by_map, sort_by_sorted.
  assert (He' : Forall (fun a => a <= e) addrs).
  { unfold addrs. apply Forall_map. eapply Permutation_Forall; [symmetry; apply sort_by_perm|exact He]. }
  rewrite (reads_slices rom addrs e Hs He') in E.
  assert (HL : length (slices rom addrs e) = length qs) by (rewrite slices_length; apply map_length).
  eexists _, f'. split; [exact E|]. split; [exact Hc|].
  split; [apply set_values_ids, HL|]. split; [apply set_values_addrs, HL|].
  split; [apply set_values_values, HL|]. split; [exact Hs|].
  assert (Hn : Forall (fun a => 0 <= a) addrs).
  { unfold addrs. apply Forall_map. eapply Permutation_Forall; [symmetry; apply sort_by_perm|].
    eapply Forall_impl; [|exact Hok]. intros p Hp. apply (addr_ok_key p Hp). }
  destruct addrs as [|a r] eqn:Ea.
  - apply (f_equal (@length _)) in Ea. unfold addrs in Ea. rewrite map_length in Ea.
    unfold qs in Ea. rewrite sort_by_length in Ea. cbn in Ea. lia.
  - cbn [hd]. inversion Hn; subst. apply slices_concat; assumption.
Qed.

(** ... and for one pointer the same holds exactly when the file happens to be positioned at (or
    equivalently to) the pointer's address. *)
Theorem read_pointers_content_single_positioned rom p a e :
  p_addr p = Some a -> a <= e ->
  result (read_pointers_content (mkfile rom a) [p] e) = Ok [set_value p (slice rom a e)].
Proof.
  intros Ha He. rewrite (read_pointers_content_single rom a p a e Ha). cbn [result bind fst].
  rewrite readat_slice by exact He. reflexivity.
Qed.

(** * the binary writers *)
Definition has_value (p : pointer) : Prop := p_value p <> None.
Definition value_of (p : pointer) : bytes := match p_value p with Some v => v | None => [] end.
Definition len (bs : bytes) : Z := Z.of_nat (length bs).

(** the running position: start of every value in the values file *)
Fixpoint offsets (vs : list bytes) (pos : Z) : list Z :=
  match vs with
  | [] => []
  | v :: r => pos :: offsets r (pos + len v)
  end.

Lemma offsets_length vs pos : length (offsets vs pos) = length vs.
Proof. revert pos. induction vs as [|v r IH]; intros pos; cbn [offsets length]; [reflexivity|]. rewrite IH. reflexivity. Qed.

(** the k-th offset is the total length of the values before it *)
Lemma offsets_nth vs : forall pos k, (k < length vs)%nat ->
  nth k (offsets vs pos) 0 = pos + len (concat (firstn k vs)).
Proof.
  induction vs as [|v r IH]; intros pos k Hk; [cbn in Hk; lia|].
  destruct k as [|k]; cbn [offsets nth firstn concat]; [unfold len; cbn; lia|].
  rewrite IH by (cbn in Hk; lia). unfold len. rewrite app_length. lia.
Qed.
Lemma offsets_bounds vs : forall pos, Forall (fun o => pos <= o <= pos + len (concat vs)) (offsets vs pos).
Proof.
  induction vs as [|v r IH]; intros pos; cbn [offsets concat]; [constructor|].
  unfold len in *. rewrite app_length. constructor; [lia|].
  eapply Forall_impl; [|apply IH]. cbn. intros; lia.
Qed.

Lemma concat_values_ok ps : Forall has_value ps -> concat_values ps = Ok (concat (map value_of ps)).
Proof.
  induction 1 as [|p r Hp _ IH]; [reflexivity|].
  cbn [concat_values map concat]. unfold Pointers.get_value, value_of, has_value in *.
  destruct (p_value p); [|contradiction]. cbn [bind]. rewrite IH. reflexivity.
Qed.

Lemma write_addr_loop_ok formula (g : Z -> bytes) ps : forall pos,
  Forall has_value ps ->
  Forall (fun o => formula o = Ok (g o)) (offsets (map value_of ps) pos) ->
  write_addr_loop formula ps pos = Ok (concat (map g (offsets (map value_of ps) pos))).
Proof.
  induction ps as [|p r IH]; intros pos Hv Hf; [reflexivity|].
  inversion Hv as [|? ? Hp Hv']; subst. cbn [map offsets] in Hf. inversion Hf as [|? ? Hf0 Hf']; subst.
  cbn [write_addr_loop map offsets concat]. rewrite Hf0. cbn [bind].
  assert (Ev : p_value p = Some (value_of p))
    by (unfold value_of, has_value in *; destruct (p_value p); congruence).
  unfold Pointers.get_value. rewrite Ev. cbn [bind]. unfold len in *.
  rewrite (IH _ Hv' Hf'). reflexivity.
Qed.

Lemma has_value_sorted ps : Forall has_value ps -> Forall has_value (sort_by p_id ps).
Proof. intros H. eapply Permutation_Forall; [symmetry; apply sort_by_perm|exact H]. Qed.

Lemma concat_length_perm (l l' : list bytes) : Permutation l l' -> length (concat l) = length (concat l').
Proof. induction 1; cbn [concat]; rewrite ?app_length in *; lia. Qed.

(** write_pointers_value_as_binary: the values in id order (stable), back to back *)
Theorem write_values_spec ps : Forall has_value ps ->
  write_pointers_value_as_binary ps = Ok (concat (map value_of (sort_by p_id ps))).
Proof. intros H. apply concat_values_ok, has_value_sorted, H. Qed.

(** (b) write_pointers_addresses_as_binary with [long_low_rom_pointer base]: the k-th 3-byte entry
    is the LoROM address of [base + (total length of the values before it in id order)], i.e. of the
    place where write_pointers_value_as_binary puts the k-th value if that file is put at [base]. *)
Theorem write_addresses_lorom ps base :
  Forall has_value ps -> 0 <= base ->
  base + len (concat (map value_of ps)) < 8388608 ->
  let vs := map value_of (sort_by p_id ps) in
  write_pointers_addresses_as_binary ps (long_low_rom_pointer base) =
    Ok (concat (map (fun o => le_bytes 3 (rom_to_snes (base + o) LowRom)) (offsets vs 0))) /\
  write_pointers_value_as_binary ps = Ok (concat vs) /\
  forall k, (k < length vs)%nat -> nth k (offsets vs 0) 0 = len (concat (firstn k vs)).
Proof.
  intros Hv Hb Ht vs. split; [|split].
  - unfold write_pointers_addresses_as_binary. apply write_addr_loop_ok; [apply has_value_sorted, Hv|].
    subst vs. eapply Forall_impl; [|apply offsets_bounds]. cbn beta. intros o Ho.
    assert (len (concat (map value_of (sort_by p_id ps))) = len (concat (map value_of ps))) as E.
    { unfold len. f_equal. apply concat_length_perm, Permutation_map, sort_by_perm. }
    unfold len in *. rewrite legacy_long_pointer by (clear - Hb Ht Ho E; lia).
    rewrite (Z.add_comm o base). reflexivity.
  - apply write_values_spec, Hv.
  - intros k Hk. rewrite offsets_nth by exact Hk. lia.
Qed.

(** errors, in the order the code meets them: the formula is applied before the value is asked for *)
Example write_addresses_order :
  let P i v := {| p_id := i; p_addr := None; p_value := v |} in
  write_pointers_addresses_as_binary [P 1 None; P 0 (Some [1; 2])] (long_low_rom_pointer 0) = Err EAssert /\
  write_pointers_addresses_file [P 1 None; P 0 (Some [1; 2])] (long_low_rom_pointer 0) = [0; 128; 0; 2; 128; 0] /\
  write_pointers_addresses_as_binary [P 1 None; P 0 (Some [1; 2])] (long_low_rom_pointer 8388607) = Err EStruct /\
  write_pointers_addresses_file [P 1 None; P 0 (Some [1; 2])] (long_low_rom_pointer 8388607) = [255; 255; 255] /\
  write_pointers_value_as_binary [P 1 None; P 0 (Some [1; 2])] = Err EAssert /\
  write_pointers_value_file [P 1 None; P 0 (Some [1; 2])] = [1; 2].
Proof. repeat split. Qed.

(** when nothing fails the file left behind is the result *)
Lemma values_written_ok ps out : concat_values ps = Ok out -> values_written ps = out.
Proof.
  revert out. induction ps as [|p r IH]; intros out H; cbn [concat_values values_written] in *; [congruence|].
  unfold Pointers.get_value in H. destruct (p_value p); [|discriminate H]. cbn [bind] in H.
  destruct (concat_values r) as [t| |]; try discriminate H. cbn [bind] in H. rewrite (IH t eq_refl). congruence.
Qed.
Lemma addrs_written_ok formula ps : forall pos out,
  write_addr_loop formula ps pos = Ok out -> addrs_written formula ps pos = out.
Proof.
  induction ps as [|p r IH]; intros pos out H; cbn [write_addr_loop addrs_written] in *; [congruence|].
  destruct (formula pos) as [fb| |]; try discriminate H. cbn [bind] in H.
  unfold Pointers.get_value in H. destruct (p_value p); [|discriminate H]. cbn [bind] in H.
  destruct (write_addr_loop formula r _) as [t| |] eqn:E; try discriminate H. cbn [bind] in H.
  rewrite (IH _ t E). congruence.
Qed.
Theorem write_files_ok ps formula :
  (forall out, write_pointers_value_as_binary ps = Ok out -> write_pointers_value_file ps = out) /\
  (forall out, write_pointers_addresses_as_binary ps formula = Ok out -> write_pointers_addresses_file ps formula = out).
Proof. split; intros out H; [apply values_written_ok, H|apply addrs_written_ok, H]. Qed.

(** * read_pointers, and the round trip of an address table *)
Fixpoint numbered (i : Z) (addrs : list Z) : list pointer :=
  match addrs with
  | [] => []
  | a :: r => {| p_id := i; p_addr := Some a; p_value := None |} :: numbered (i + 1) r
  end.

Lemma numbered_ids addrs : forall i, map p_id (numbered i addrs) = map (fun k => i + Z.of_nat k) (seq 0 (length addrs)).
Proof.
  induction addrs as [|a r IH]; intros i; [reflexivity|].
  cbn [numbered map length seq p_id]. f_equal; [lia|]. rewrite IH, <- seq_shift, map_map.
  apply map_ext. intros k. lia.
Qed.
Lemma numbered_addrs addrs : forall i, map p_addr (numbered i addrs) = map Some addrs.
Proof. induction addrs as [|a r IH]; intros i; [reflexivity|]. cbn [numbered map p_addr]. f_equal. apply IH. Qed.

(** reading [count] chunks of [n] bytes laid out back to back after [pre] *)
Lemma read_ptr_loop_chunks (rf : bytes -> res Z) (g : bytes -> Z) (n : nat) chunks : forall pre suf i,
  Forall (fun c => length c = n /\ rf c = Ok (g c)) chunks ->
  result (read_ptr_loop rf (mkfile (pre ++ concat chunks ++ suf) (Z.of_nat (length pre))) i (length chunks) (Z.of_nat n))
  = Ok (numbered i (map g chunks)).
Proof.
  induction chunks as [|c r IH]; intros pre suf i H; [reflexivity|].
  inversion H as [|? ? [Hl Hc] H']; subst.
  cbn [length read_ptr_loop]. unfold fread. cbn [f_pos f_content mkfile].
  replace (Z.of_nat (length c) <? 0) with false by lia. rewrite !Nat2Z.id.
  cbn [concat]. rewrite <- app_assoc.
  rewrite skipn_app, skipn_all, Nat.sub_diag. cbn [skipn app].
  rewrite firstn_app, firstn_all, Nat.sub_diag. cbn [firstn]. rewrite app_nil_r.
  rewrite Hc. cbn [bind].
  specialize (IH (pre ++ c) suf (i + 1) H').
  rewrite <- app_assoc, app_length, Nat2Z.inj_add in IH. unfold mkfile in IH.
  unfold result in *. destruct (read_ptr_loop rf _ (i + 1) (length r) _) as [x| |]; try discriminate IH.
  cbn [bind fst] in *. injection IH as IH. rewrite IH. reflexivity.
Qed.

(** Generic round trip.  If the reading formula [rf] undoes the writing formula [wf] on every
    position that occurs ([rf (wf o) = g o]) and [wf] always yields [n] bytes, then reading the
    written address table back yields pointers numbered 0, 1, ... (the RANK in id order, not the
    original ids) whose addresses are [g] of the start offsets of the values. *)
Theorem addresses_roundtrip ps (wf : Z -> res bytes) (rf : bytes -> res Z) (w : Z -> bytes) (g : Z -> Z) (n : nat) pos :
  Forall has_value ps ->
  let offs := offsets (map value_of (sort_by p_id ps)) 0 in
  Forall (fun o => wf o = Ok (w o) /\ length (w o) = n /\ rf (w o) = Ok (g o)) offs ->
  exists table, write_pointers_addresses_as_binary ps wf = Ok table /\
    result (read_pointers (mkfile table pos) 0 (Z.of_nat (length ps)) (Z.of_nat n) rf) = Ok (numbered 0 (map g offs)).
Proof.
  intros Hv offs Hf. eexists. split.
  - unfold write_pointers_addresses_as_binary. apply (write_addr_loop_ok wf w); [apply has_value_sorted, Hv|].
    eapply Forall_impl; [|exact Hf]. cbn beta. intros o Ho; apply Ho.
  - fold offs. unfold read_pointers, fseek. cbn [Z.ltb Z.compare bind f_content mkfile]. rewrite Nat2Z.id.
    pose proof (read_ptr_loop_chunks rf (fun c => match rf c with Ok a => a | _ => 0 end) n (map w offs) [] [] 0) as R.
    cbn [app length] in R. rewrite app_nil_r, map_length in R.
    assert (HL : length offs = length ps).
    { unfold offs. rewrite offsets_length, map_length. apply sort_by_length. }
    rewrite HL in R. unfold mkfile in *. cbn [Z.of_nat] in R. rewrite R.
    + f_equal. f_equal. rewrite map_map. apply map_ext_in. intros o Ho.
      rewrite Forall_forall in Hf. destruct (Hf o Ho) as (_ & _ & E). rewrite E. reflexivity.
    + apply Forall_map. eapply Forall_impl; [|exact Hf]. cbn beta. intros o (_ & Hl & E). rewrite E. split; [exact Hl|reflexivity].
Qed.

(** [long_low_rom_pointer_inverse] (Model/Pointers.v: little-endian -> SNES address -> ROM offset,
    Python [lambda v: snes_to_rom(int.from_bytes(v, "little"))]) undoes [long_low_rom_pointer 0] *)
Lemma lorom_inverse o : 0 <= o < 3670016 ->
  long_low_rom_pointer_inverse (le_bytes 3 (rom_to_snes o LowRom)) = Ok o.
Proof.
  intros H. unfold long_low_rom_pointer_inverse. f_equal.
  rewrite le_bytes_in_range.
  - apply (legacy_low o H).
  - rewrite rom_to_snes_low by lia. change (256 ^ Z.of_nat 3) with 16777216. lia.
Qed.

(** (b, round trip) LoROM: reading the table written with [long_low_rom_pointer base] back through
    the inverse formula gives the ROM offsets [base + start of the k-th value]. *)
Theorem addresses_roundtrip_lorom ps base pos :
  Forall has_value ps -> 0 <= base ->
  base + len (concat (map value_of ps)) < 3670016 ->
  let offs := offsets (map value_of (sort_by p_id ps)) 0 in
  exists table, write_pointers_addresses_as_binary ps (long_low_rom_pointer base) = Ok table /\
    result (read_pointers (mkfile table pos) 0 (Z.of_nat (length ps)) 3 long_low_rom_pointer_inverse)
    = Ok (numbered 0 (map (fun o => base + o) offs)).
Proof.
  intros Hv Hb Ht offs.
  apply (addresses_roundtrip ps (long_low_rom_pointer base) long_low_rom_pointer_inverse
           (fun o => le_bytes 3 (rom_to_snes (base + o) LowRom)) (fun o => base + o) 3 pos Hv).
  eapply Forall_impl; [|apply offsets_bounds]. cbn beta. intros o Ho.
  assert (len (concat (map value_of (sort_by p_id ps))) = len (concat (map value_of ps))) as E.
  { unfold len. f_equal. apply concat_length_perm, Permutation_map, sort_by_perm. }
  unfold len in *. split; [|split].
  - rewrite legacy_long_pointer by (clear - Hb Ht Ho E; lia). rewrite (Z.add_comm o base). reflexivity.
  - apply le_bytes_length.
  - apply lorom_inverse. clear - Hb Ht Ho E. lia.
Qed.

(** 16-bit tables: [base_relative_16bits_pointer_formula base] undoes a writer [struct.pack("<H", p)]
    (formulas.py has the reader only) as long as the positions fit 16 bits. *)
Theorem addresses_roundtrip_base_relative ps base pos :
  Forall has_value ps -> len (concat (map value_of ps)) < 65536 ->
  let offs := offsets (map value_of (sort_by p_id ps)) 0 in
  exists table, write_pointers_addresses_as_binary ps (fun p => Ok (le_bytes 2 p)) = Ok table /\
    result (read_pointers (mkfile table pos) 0 (Z.of_nat (length ps)) 2 (base_relative_16bits_pointer base))
    = Ok (numbered 0 (map (fun o => o + base) offs)).
Proof.
  intros Hv Ht offs.
  apply (addresses_roundtrip ps (fun p => Ok (le_bytes 2 p)) (base_relative_16bits_pointer base)
           (le_bytes 2) (fun o => o + base) 2 pos Hv).
  eapply Forall_impl; [|apply offsets_bounds]. cbn beta. intros o Ho.
  assert (len (concat (map value_of (sort_by p_id ps))) = len (concat (map value_of ps))) as E.
  { unfold len. f_equal. apply concat_length_perm, Permutation_map, sort_by_perm. }
  unfold len in *. split; [reflexivity|]. split; [reflexivity|].
  cbn [le_bytes]. rewrite legacy_base_relative. f_equal. clear - Ht Ho E. lia.
Qed.

(** ** dump -> insert round trip through a ROM image *)
Lemma offsets_shift vs : forall b pos, map (fun o => b + o) (offsets vs pos) = offsets vs (b + pos).
Proof.
  induction vs as [|v r IH]; intros b pos; [reflexivity|]. cbn [offsets map]. f_equal.
  rewrite IH. f_equal. lia.
Qed.
Lemma offsets_sorted vs : forall pos, StronglySorted Z.le (offsets vs pos).
Proof.
  induction vs as [|v r IH]; intros pos; cbn [offsets]; constructor; [apply IH|].
  eapply Forall_impl; [|apply offsets_bounds]. cbn beta. unfold len. intros; lia.
Qed.
Lemma numbered_keys addrs : forall i, map addr_key (numbered i addrs) = addrs.
Proof. induction addrs as [|a r IH]; intros i; [reflexivity|]. cbn [numbered map]. f_equal. apply IH. Qed.
Lemma sorted_by_of_map {A} (key : A -> Z) l : StronglySorted Z.le (map key l) -> sorted_by key l.
Proof.
  induction l as [|x r IH]; intros H; [constructor|]. cbn [map] in H. inversion H as [|? ? Hs Hx]; subst.
  constructor; [apply IH, Hs|]. rewrite Forall_map in Hx. exact Hx.
Qed.

Lemma slices_offsets vs : forall pre suf, vs <> [] ->
  slices (pre ++ concat vs ++ suf) (offsets vs (len pre)) (len pre + len (concat vs)) = vs.
Proof.
  induction vs as [|v r IH]; intros pre suf Hne; [contradiction|].
  destruct r as [|w r'].
  - cbn [offsets slices concat]. rewrite app_nil_r. unfold len. rewrite slice_middle. reflexivity.
  - change (offsets (v :: w :: r') (len pre)) with (len pre :: offsets (w :: r') (len pre + len v)).
    change (concat (v :: w :: r')) with (v ++ concat (w :: r')).
    set (rest := w :: r') in *.
    assert (Hs : forall a l e, slices (pre ++ (v ++ concat rest) ++ suf) (a :: offsets rest l) e =
                 slice (pre ++ (v ++ concat rest) ++ suf) a (hd 0 (offsets rest l)) ::
                 slices (pre ++ (v ++ concat rest) ++ suf) (offsets rest l) e) by reflexivity.
    rewrite Hs. f_equal.
    + cbn [rest offsets hd]. rewrite <- app_assoc. unfold len. apply slice_middle.
    + specialize (IH (pre ++ v) suf ltac:(discriminate)).
      unfold len in *. rewrite !app_length, !Nat2Z.inj_add in *. rewrite <- !app_assoc in *.
      rewrite Z.add_assoc. exact IH.
Qed.

(** Dump what was inserted: put the values file at ROM offset [base] (anything before and after),
    write the LoROM address table, read the table back, read the contents back with the end of
    the script as the end address: the values come back in id order.  Needs two pointers or more
    (with one, the result depends on the ROM file position, see above). *)
Theorem dump_roundtrip ps pre suf pos pos' :
  Forall has_value ps -> (2 <= length ps)%nat ->
  len pre + len (concat (map value_of ps)) < 3670016 ->
  let base := len pre in
  let vs := map value_of (sort_by p_id ps) in
  exists table values ptrs out f',
    write_pointers_addresses_as_binary ps (long_low_rom_pointer base) = Ok table /\
    write_pointers_value_as_binary ps = Ok values /\
    result (read_pointers (mkfile table pos) 0 (Z.of_nat (length ps)) 3 long_low_rom_pointer_inverse) = Ok ptrs /\
    read_pointers_content (mkfile (pre ++ values ++ suf) pos') ptrs (base + len values) = Ok (out, f') /\
    map p_value out = map Some vs /\
    map p_id out = map Z.of_nat (seq 0 (length ps)).
Proof.
  intros Hv Hlen Ht base vs.
  assert (Hb : 0 <= base) by (unfold base, len; lia).
  destruct (addresses_roundtrip_lorom ps base pos Hv Hb Ht) as (table & Ew & Er).
  fold vs in Er. set (offs := offsets vs 0) in *.
  set (ptrs := numbered 0 (map (fun o => base + o) offs)) in *.
  assert (Hoffs : map (fun o => base + o) offs = offsets vs base).
  { unfold offs. rewrite offsets_shift. f_equal. lia. }
  assert (HL : length vs = length ps) by (unfold vs; rewrite map_length; apply sort_by_length).
  assert (Hkeys : map addr_key ptrs = offsets vs base) by (unfold ptrs; rewrite numbered_keys; exact Hoffs).
  assert (Hsorted : sort_by addr_key ptrs = ptrs).
  { apply sort_by_id, sorted_by_of_map. rewrite Hkeys. apply offsets_sorted. }
  assert (Hpl : length ptrs = length ps).
  { rewrite <- (map_length addr_key), Hkeys, offsets_length. exact HL. }
  assert (Htot : len (concat vs) = len (concat (map value_of ps))).
  { unfold len. f_equal. apply concat_length_perm, Permutation_map, sort_by_perm. }
  assert (Hbounds : Forall (fun a => base <= a <= base + len (concat vs)) (map addr_key ptrs)).
  { rewrite Hkeys. apply offsets_bounds. }
  destruct (read_pointers_content_partition (pre ++ concat vs ++ suf) pos' ptrs (base + len (concat vs)))
    as (out & f' & E & _ & Hid & _ & Hval & _ & _).
  - rewrite Forall_map in Hbounds. rewrite Forall_forall in *. intros p Hp.
    unfold ptrs in Hp. specialize (Hbounds p Hp).
    assert (exists a, p_addr p = Some a) as [a Ea].
    { clear - Hp. revert Hp. generalize 0. generalize (map (fun o => base + o) offs).
      induction l as [|a r IH]; intros i Hp; cbn [numbered In] in Hp; [contradiction|].
      destruct Hp as [<-|H]; [eexists; reflexivity|exact (IH _ H)]. }
    exists a. split; [exact Ea|]. unfold addr_key in Hbounds. rewrite Ea in Hbounds. lia.
  - lia.
  - rewrite Forall_map in Hbounds. eapply Forall_impl; [|exact Hbounds]. cbn beta. intros; lia.
  - rewrite Hsorted, Hkeys in *. unfold base in Hval at 2. rewrite slices_offsets in Hval.
    2:{ intros H0. rewrite H0 in HL. cbn in HL. lia. }
    exists table, (concat vs), ptrs, out, f'.
    split; [exact Ew|]. split; [apply write_values_spec, Hv|]. split; [exact Er|]. split; [exact E|].
    split; [exact Hval|]. rewrite Hid. unfold ptrs. rewrite numbered_ids, map_length.
    unfold offs. rewrite offsets_length, HL. apply map_ext. intros k; lia.
Qed.

(** * append_pointers *)
Lemma sorted_last_max {A} (key : A -> Z) l x before : sorted_by key l -> rev l = x :: before ->
  In x l /\ Forall (fun y => key y <= key x) l.
Proof.
  intros Hs Hr. assert (El : l = rev before ++ [x]).
  { rewrite <- (rev_involutive l), Hr. reflexivity. }
  subst l. split; [apply in_or_app; right; left; reflexivity|].
  clear Hr. induction (rev before) as [|y r IH]; cbn [app] in *.
  - constructor; [lia|constructor].
  - inversion Hs as [|? ? Hs' Hy]; subst. constructor; [|apply IH, Hs'].
    rewrite Forall_forall in Hy. apply Hy, in_or_app. right; left; reflexivity.
Qed.

(** (c) the ids of the result are the ids of table 1 in increasing order followed by the ids of
    table 2 in increasing order, each increased by the LARGEST id of table 1; addresses and values
    are untouched; the whole is in id order when table 2 has no negative id.  (Table 2's objects
    are updated in place, so its pointers carry the new ids afterwards.) *)
Theorem append_pointers_spec t1 t2 : t1 <> [] ->
  exists m, In m (map p_id t1) /\ Forall (fun i => i <= m) (map p_id t1) /\
    append_pointers t1 t2 = Ok (sort_by p_id t1 ++ map (shift_id m) (sort_by p_id t2)) /\
    (Forall (fun i => 0 <= i) (map p_id t2) ->
     StronglySorted Z.le (map p_id (sort_by p_id t1 ++ map (shift_id m) (sort_by p_id t2)))).
Proof.
  intros Hne. unfold append_pointers.
  destruct (rev (sort_by p_id t1)) as [|x before] eqn:Er.
  - apply (f_equal (@length _)) in Er. rewrite rev_length, sort_by_length in Er.
    destruct t1; [contradiction|discriminate].
  - destruct (sorted_last_max p_id _ _ _ (sort_by_sorted p_id t1) Er) as [Hin Hmax].
    assert (Hmax' : Forall (fun y => p_id y <= p_id x) t1).
    { eapply Permutation_Forall; [apply sort_by_perm|exact Hmax]. }
    exists (p_id x). split; [|split; [|split]].
    + apply in_map. eapply Permutation_in; [apply sort_by_perm|exact Hin].
    + apply Forall_map. exact Hmax'.
    + reflexivity.
    + intros Hpos. rewrite map_app, map_map. cbn [shift_id p_id].
      assert (H1 : StronglySorted Z.le (map p_id (sort_by p_id t1))) by apply sorted_by_map, sort_by_sorted.
      assert (H2 : StronglySorted Z.le (map (fun p => p_id p + p_id x) (sort_by p_id t2))).
      { pose proof (sort_by_sorted p_id t2) as Hs. induction Hs as [|y r Hs IH Hy]; cbn [map]; constructor; [exact IH|].
        apply Forall_map. eapply Forall_impl; [|exact Hy]. cbn beta. intros; lia. }
      assert (H3 : Forall (fun j => p_id x <= j) (map (fun p => p_id p + p_id x) (sort_by p_id t2))).
      { apply Forall_map. eapply Permutation_Forall; [symmetry; apply sort_by_perm|].
        rewrite Forall_map in Hpos. eapply Forall_impl; [|exact Hpos]. cbn beta. intros; lia. }
      assert (Hm : Forall (fun i => i <= p_id x) (map p_id (sort_by p_id t1))) by (apply Forall_map; exact Hmax).
      revert H1 Hm. generalize (map p_id (sort_by p_id t1)). intros l H1.
      induction H1 as [|a r Hs IH Ha]; intros Hmx0; cbn [app]; [exact H2|].
      inversion Hmx0 as [|? ? Hax Hmx]; subst.
      constructor; [exact (IH Hmx)|]. apply Forall_app. split; [exact Ha|].
      eapply Forall_impl; [|exact H3]. cbn beta. intros; lia.
Qed.
Theorem append_pointers_empty t2 : append_pointers [] t2 = Err EIndex.
Proof. reflexivity. Qed.
(** the shift is by the largest id, not by the count: two tables numbered from 0 (as
    [read_pointers] numbers them) collide on the id where they meet *)
Example append_pointers_collision :
  let P i := {| p_id := i; p_addr := None; p_value := None |} in
  (do l <- append_pointers [P 0; P 1; P 2] [P 0; P 1]; Ok (map p_id l)) = Ok [0; 1; 2; 2; 3].
Proof. reflexivity. Qed.

(** * recode_pointer_values *)
Definition recode_one (from_t to_t : table) (p : pointer) : res pointer :=
  do v <- get_value p; do s <- to_text from_t v; do b <- to_bytes to_t s; Ok (set_value p b).
Fixpoint map_res {A B} (f : A -> res B) (l : list A) : res (list B) :=
  match l with
  | [] => Ok []
  | x :: r => do y <- f x; do t <- map_res f r; Ok (y :: t)
  end.

(** (d) every value is decoded with the first table and encoded with the second, independently of
    the others; the first failure is the result *)
Theorem recode_is_map ps from_t to_t : recode_pointer_values ps from_t to_t = map_res (recode_one from_t to_t) ps.
Proof.
  induction ps as [|p r IH]; [reflexivity|]. cbn [recode_pointer_values map_res]. unfold recode_one.
  destruct (get_value p) as [v| |]; try reflexivity. cbn [bind].
  destruct (to_text from_t v) as [s| |]; try reflexivity. cbn [bind].
  destruct (to_bytes to_t s) as [b| |]; try reflexivity. cbn [bind]. rewrite IH. reflexivity.
Qed.
Theorem recode_ok_iff ps from_t to_t out :
  recode_pointer_values ps from_t to_t = Ok out <->
  Forall2 (fun p q => exists v s b, p_value p = Some v /\ to_text from_t v = Ok s /\ to_bytes to_t s = Ok b /\
                                    q = set_value p b) ps out.
Proof.
  revert out. induction ps as [|p r IH]; intros out; cbn [recode_pointer_values].
  - split; [intros H; injection H as <-; constructor|intros H; inversion H; reflexivity].
  - unfold Pointers.get_value. split.
    + intros H. destruct (p_value p) as [v|] eqn:Ev; [|discriminate H]. cbn [bind] in H.
      destruct (to_text from_t v) as [s| |] eqn:Es; try discriminate H. cbn [bind] in H.
      destruct (to_bytes to_t s) as [b| |] eqn:Eb; try discriminate H. cbn [bind] in H.
      destruct (recode_pointer_values r from_t to_t) as [t| |]; try discriminate H. cbn [bind] in H.
      injection H as <-. constructor; [exists v, s, b; repeat split; assumption|]. apply IH. reflexivity.
    + intros H. inversion H as [|? q ? t (v & s & b & Ev & Es & Eb & ->) Ht]; subst.
      rewrite Ev. cbn [bind]. rewrite Es. cbn [bind]. rewrite Eb. cbn [bind].
      rewrite (proj2 (IH t) Ht). reflexivity.
Qed.
(** after a failure the pointers before the failing one are recoded, the rest untouched; without
    failure the state is the result *)
Theorem recode_state_ok ps from_t to_t out : recode_pointer_values ps from_t to_t = Ok out -> recode_state ps from_t to_t = out.
Proof.
  revert out. induction ps as [|p r IH]; intros out H; cbn [recode_pointer_values recode_state] in *; [congruence|].
  destruct (get_value p) as [v| |]; try discriminate H. cbn [bind] in *.
  destruct (to_text from_t v) as [s| |]; try discriminate H. cbn [bind] in *.
  destruct (to_bytes to_t s) as [b| |]; try discriminate H. cbn [bind] in *.
  destruct (recode_pointer_values r from_t to_t) as [t| |]; try discriminate H. cbn [bind] in H.
  rewrite (IH t eq_refl). congruence.
Qed.

Lemma set_value_same p v : p_value p = Some v -> set_value p v = p.
Proof. destruct p as [i a w]. cbn. intros ->. reflexivity. Qed.

(** Round trip under C18's round-trip-table condition.  Values that are the encoding (under [t1],
    a round-trip table) of escape-free strings: recoding to [t2] yields exactly the encodings of
    the texts of the matched entries; ... *)
Theorem recode_roundtrip_table es1 t1 t2 ps :
  table_of_entries es1 = Ok t1 -> rt_table es1 ->
  Forall (fun p => exists s, joker_free s /\ (do b <- to_bytes t1 s; Ok (Some b)) = Ok (p_value p)) ps ->
  Forall2 (fun p r => exists its, p_value p = Some (bytes_of its) /\
                      r = (do b <- to_bytes t2 (texts_of its); Ok (set_value p b)))
          ps (map (recode_one t1 t2) ps).
Proof.
  intros Ht Hrt H. induction H as [|p r (s & Hj & Hp) _ IH]; cbn [map]; constructor; [|exact IH].
  destruct (roundtrip es1 t1 s Ht Hrt Hj) as (its & _ & Eb & Et).
  rewrite Eb in Hp. cbn [bind] in Hp. injection Hp as Hp. exists its. split; [symmetry; exact Hp|].
  unfold recode_one, Pointers.get_value. rewrite <- Hp. cbn [bind]. rewrite Et. reflexivity.
Qed.
(** ... and with single-character tables over a common alphabet, recoding there and back is the
    identity (so is recoding from a table to itself). *)
Theorem recode_there_and_back es1 es2 t1 t2 ps :
  table_of_entries es1 = Ok t1 -> rt_table es1 -> single_char_texts es1 ->
  table_of_entries es2 = Ok t2 -> rt_table es2 -> single_char_texts es2 ->
  Forall (fun p => exists s, over_alphabet es1 s /\ over_alphabet es2 s /\ joker_free s /\
                             (do b <- to_bytes t1 s; Ok (Some b)) = Ok (p_value p)) ps ->
  exists mid, recode_pointer_values ps t1 t2 = Ok mid /\ recode_pointer_values mid t2 t1 = Ok ps.
Proof.
  intros Ht1 Hr1 Hs1 Ht2 Hr2 Hs2 H. induction H as [|p r (s & Ho1 & Ho2 & Hj & Hp) _ (mid & E1 & E2)].
  - exists []. split; reflexivity.
  - destruct (roundtrip_single es1 t1 s Ht1 Hr1 Hs1 Ho1 Hj) as (b1 & Eb1 & Et1).
    destruct (roundtrip_single es2 t2 s Ht2 Hr2 Hs2 Ho2 Hj) as (b2 & Eb2 & Et2).
    rewrite Eb1 in Hp. cbn [bind] in Hp. injection Hp as Hp.
    exists (set_value p b2 :: mid). split.
    + cbn [recode_pointer_values]. unfold Pointers.get_value. rewrite <- Hp. cbn [bind].
      rewrite Et1. cbn [bind]. rewrite Eb2. cbn [bind]. rewrite E1. reflexivity.
    + cbn [recode_pointer_values]. unfold Pointers.get_value. cbn [set_value p_value bind].
      rewrite Et2. cbn [bind]. rewrite Eb1. cbn [bind]. rewrite E2. cbn [bind]. f_equal. f_equal.
      destruct p as [i a w]. cbn in *. subst w. reflexivity.
Qed.
Corollary recode_same_table es t ps :
  table_of_entries es = Ok t -> rt_table es -> single_char_texts es ->
  Forall (fun p => exists s, over_alphabet es s /\ joker_free s /\
                             (do b <- to_bytes t s; Ok (Some b)) = Ok (p_value p)) ps ->
  recode_pointer_values ps t t = Ok ps.
Proof.
  intros Ht Hr Hs H. induction H as [|p r (s & Ho & Hj & Hp) _ IH]; [reflexivity|].
  destruct (roundtrip_single es t s Ht Hr Hs Ho Hj) as (b & Eb & Et).
  rewrite Eb in Hp. cbn [bind] in Hp. injection Hp as Hp.
  cbn [recode_pointer_values]. unfold Pointers.get_value. rewrite <- Hp. cbn [bind].
  rewrite Et. cbn [bind]. rewrite Eb. cbn [bind]. rewrite IH. cbn [bind]. f_equal. f_equal.
  apply set_value_same. symmetry; exact Hp.
Qed.

(** read_fixed_text_list: [count] consecutive chunks of [n] bytes from [address], numbered from 0 *)
Lemma read_chunks_spec n chunks : forall pre suf i,
  Forall (fun c => length c = n) chunks ->
  fst (read_chunks (mkfile (pre ++ concat chunks ++ suf) (Z.of_nat (length pre))) i (length chunks) (Z.of_nat n))
  = combine (map (fun k => i + Z.of_nat k) (seq 0 (length chunks))) chunks.
Proof.
  induction chunks as [|c r IH]; intros pre suf i H; [reflexivity|].
  inversion H as [|? ? Hl H']; subst.
  cbn [length read_chunks]. unfold fread. cbn [f_pos f_content mkfile].
  replace (Z.of_nat (length c) <? 0) with false by lia. rewrite !Nat2Z.id.
  cbn [concat]. rewrite <- app_assoc.
  rewrite skipn_app, skipn_all, Nat.sub_diag. cbn [skipn app].
  rewrite firstn_app, firstn_all, Nat.sub_diag. cbn [firstn]. rewrite app_nil_r.
  specialize (IH (pre ++ c) suf (i + 1) H').
  rewrite <- app_assoc, app_length, Nat2Z.inj_add in IH. unfold mkfile in IH.
  destruct (read_chunks _ (i + 1) (length r) _) as [rest f2]. cbn [fst] in *. rewrite IH.
  cbn [seq map combine]. f_equal; [f_equal; lia|]. rewrite <- seq_shift, map_map.
  f_equal. apply map_ext. intros k; lia.
Qed.
Theorem read_fixed_text_list_spec n chunks pre suf pos :
  Forall (fun c => length c = n) chunks ->
  (do x <- read_fixed_text_list (mkfile (pre ++ concat chunks ++ suf) pos) (Z.of_nat (length pre))
            (Z.of_nat (length chunks)) (Z.of_nat n);
   Ok (map (fun p => (p_id p, p_addr p, p_value p)) (fst x)))
  = Ok (map (fun kc => (Z.of_nat (fst kc), None, Some (snd kc))) (combine (seq 0 (length chunks)) chunks)).
Proof.
  intros H. unfold read_pointers, read_fixed_text_list, fseek. replace (Z.of_nat (length pre) <? 0) with false by lia.
  cbn [bind f_content mkfile]. rewrite Nat2Z.id.
  pose proof (read_chunks_spec n chunks pre suf 0 H) as R. unfold mkfile in R.
  destruct (read_chunks _ 0 (length chunks) _) as [cs f1]. cbn [fst bind] in *. subst cs. f_equal.
  rewrite map_map. cbn [p_id p_addr p_value].
  generalize (seq 0 (length chunks)). intros l. revert chunks H. induction l as [|k l IH]; intros [|c r] H; try reflexivity.
  cbn [map combine fst snd]. f_equal. apply (IH r). inversion H; assumption.
Qed.
