(** C02 / C03 — the passes: every node is emitted at the address its labels were resolved with
    (or the assembly fails); emitted bytes are conserved in the writer blocks; the file offset
    stays in step with the run address. *)
From Coq Require Import ZArith List Lia Bool Arith.
From A816 Require Import Model.Program Spec.BusLaws Spec.EnvSem Proofs.BusProofs Proofs.ResolverProofs
     Proofs.NodeProofs Proofs.BranchProofs.
Open Scope Z_scope.

(** ** The label pass as a run that returns one address per node *)
Fixpoint label_run (w : world) (r : rstate) (ns : list node) (a : addr) : res (rstate * addr * list Z) :=
  match ns with
  | [] => Ok (r, a, [])
  | n :: rest =>
      do ra <- (if is_symbol_node n then Ok (r, a) else pc_after w r n a);
      do x <- label_run w (fst ra) rest (snd ra);
      Ok (fst (fst x), snd (fst x), a_val a :: snd x)
  end.

Lemma label_pass_run w ns : forall r a acc,
  label_pass w r ns a acc =
  match label_run w r ns a with
  | Ok x => Ok (fst (fst x), snd (fst x), acc ++ snd x ++ [a_val (snd (fst x))])
  | Err k => Err k
  | OutOfFuel => OutOfFuel
  end.
Proof.
  induction ns as [|n rest IH]; intros r a acc; cbn [label_pass label_run].
  - reflexivity.
  - destruct (is_symbol_node n).
    + cbn [bind fst snd]. rewrite IH.
      destruct (label_run w r rest a) as [[[r' a'] l]| |]; cbn [bind fst snd]; try reflexivity.
      rewrite <- app_assoc. reflexivity.
    + destruct (pc_after w r n a) as [[r1 a1]| |]; cbn [bind fst snd]; try reflexivity.
      rewrite IH.
      destruct (label_run w r1 rest a1) as [[[r' a'] l]| |]; cbn [bind fst snd]; try reflexivity.
      rewrite <- app_assoc. reflexivity.
Qed.

Lemma label_run_length w ns : forall r a r' a' l,
  label_run w r ns a = Ok (r', a', l) -> length l = length ns.
Proof.
  induction ns as [|n rest IH]; intros r a r' a' l; cbn [label_run].
  - intros H; inversion H; reflexivity.
  - destruct (if is_symbol_node n then Ok (r, a) else pc_after w r n a) as [[r1 a1]| |]; cbn [bind fst snd]; try discriminate.
    destruct (label_run w r1 rest a1) as [[[r2 a2] l2]| |] eqn:E; cbn [bind fst snd]; try discriminate.
    intros H; inversion H; subst. cbn [length]. f_equal. eapply IH; eauto.
Qed.

Lemma label_run_app w pre : forall post r a r' a' l,
  label_run w r (pre ++ post) a = Ok (r', a', l) ->
  exists r1 a1 l1 l2,
    label_run w r pre a = Ok (r1, a1, l1) /\ label_run w r1 post a1 = Ok (r', a', l2) /\ l = l1 ++ l2.
Proof.
  induction pre as [|n pre IH]; intros post r a r' a' l; cbn [app label_run].
  - intros H. exists r, a, [], l. auto.
  - destruct (if is_symbol_node n then Ok (r, a) else pc_after w r n a) as [[r1 a1]| |]; cbn [bind fst snd]; try discriminate.
    destruct (label_run w r1 (pre ++ post) a1) as [[[r2 a2] l2]| |] eqn:E; cbn [bind fst snd]; try discriminate.
    intros H; inversion H; subst.
    destruct (IH _ _ _ _ _ _ E) as (r3 & a3 & l3 & l4 & A & B & C).
    exists r3, a3, (a_val a :: l3), l4. rewrite A. cbn [bind fst snd]. subst. auto.
Qed.

(** ** Emission up to a node *)
Fixpoint emit_prefix (w : world) (st : estate) (ns : list node) (addrs : list Z) : res estate :=
  match ns with
  | [] => Ok st
  | n :: rest =>
      match addrs with
      | x :: addrs' => do st' <- emit_step w st n x; emit_prefix w st' rest addrs'
      | [] => Err EIndex
      end
  end.

Lemma emit_loop_app w pre : forall post st l1 l2,
  length l1 = length pre ->
  emit_loop w st (pre ++ post) (l1 ++ l2) = (do st1 <- emit_prefix w st pre l1; emit_loop w st1 post l2).
Proof.
  induction pre as [|n pre IH]; intros post st l1 l2 Hl.
  - destruct l1; [reflexivity|discriminate].
  - destruct l1 as [|x l1]; [discriminate|]. cbn [app emit_loop emit_prefix].
    destruct (emit_step w st n x) as [st'| |]; cbn [bind]; try reflexivity.
    apply IH. cbn in Hl. lia.
Qed.

(** The phase check: a node is only emitted when the run address equals the expected one. *)
Lemma emit_step_phase w st n x st' : emit_step w st n x = Ok st' -> a_val (r_reloc (e_r st)) = x.
Proof.
  unfold emit_step. destruct (a_val (r_reloc (e_r st)) =? x) eqn:E; cbn [negb]; [|discriminate].
  intros _. apply Z.eqb_eq. exact E.
Qed.

(** C02 (core).  If the label pass and the emission both succeed on a node list, then every node
    is emitted at exactly the run address it had while labels were being resolved — and so is the
    end of the program. *)
Theorem phase_agreement w r a ns r' a' l st st' :
  label_run w r ns a = Ok (r', a', l) ->
  emit_loop w st ns (l ++ [a_val a']) = Ok st' ->
  (forall pre n post, ns = pre ++ n :: post ->
     exists r1 a1 l1 st1,
       label_run w r pre a = Ok (r1, a1, l1) /\
       emit_prefix w st pre l1 = Ok st1 /\
       a_val (r_reloc (e_r st1)) = a_val a1) /\
  a_val (r_reloc (e_r st')) = a_val a'.
Proof.
  intros HL HE. split.
  - intros pre n post ->.
    destruct (label_run_app _ _ _ _ _ _ _ _ HL) as (r1 & a1 & l1 & l2 & A & B & C).
    exists r1, a1, l1. subst l.
    pose proof (label_run_length _ _ _ _ _ _ _ A) as Hlen.
    rewrite <- app_assoc in HE. rewrite emit_loop_app in HE by assumption.
    destruct (emit_prefix w st pre l1) as [st1| |]; cbn [bind] in HE; try discriminate.
    exists st1. repeat split; auto.
    cbn [label_run] in B.
    destruct (if is_symbol_node n then Ok (r1, a1) else pc_after w r1 n a1) as [[r2 a2]| |]; cbn [bind fst snd] in B; try discriminate.
    destruct (label_run w r2 post a2) as [[[r3 a3] l3]| |]; cbn [bind fst snd] in B; try discriminate.
    inversion B; subst. cbn [app emit_loop] in HE.
    destruct (emit_step w st1 n (a_val a1)) as [st2| |] eqn:ES; cbn [bind] in HE; try discriminate.
    apply (emit_step_phase _ _ _ _ _ ES).
  - pose proof (label_run_length _ _ _ _ _ _ _ HL) as Hlen.
    replace ns with (ns ++ []) in HE by apply app_nil_r.
    rewrite emit_loop_app in HE by assumption.
    destruct (emit_prefix w st ns l) as [st1| |]; cbn [bind] in HE; try discriminate.
    cbn [emit_loop] in HE.
    destruct (a_val (r_reloc (e_r st1)) =? a_val a') eqn:E; cbn [negb] in HE; [|discriminate].
    inversion HE; subst. apply Z.eqb_eq. exact E.
Qed.

(** A label is bound, in the scope current at its definition, to the address the label pass holds
    at that node — which by [phase_agreement] is the run address at which the node is emitted. *)
Theorem label_binding w r name a s :
  nth_error (r_scopes r) (r_cur r) = Some s ->
  exists r1 s1,
    pc_after w r (NLabel name) a = Ok (r1, a) /\ r_cur r1 = r_cur r /\
    nth_error (r_scopes r1) (r_cur r) = Some s1 /\
    dict_get (s_labels s1) name = Some (a_val a) /\ dict_get (s_symbols s1) name = Some (a_val a).
Proof.
  intros Hn. exists (add_label r name (a_val a)), (scope_add_label name (a_val a) s).
  cbn [pc_after]. repeat split.
  - unfold add_label, upd_scope. cbn [r_scopes set_scopes]. apply nth_list_update_same. exact Hn.
  - cbn [scope_add_label s_labels]. apply dict_get_set_same.
  - cbn [scope_add_label s_symbols]. apply dict_get_set_same.
Qed.

(** .incbin: the start symbol is the address of the first byte, the size symbol its length. *)
Theorem incbin_binding w r path content a r1 a1 s :
  nth_error (r_scopes r) (r_cur r) = Some s ->
  pc_after w r (NBinary path content) a = Ok (r1, a1) ->
  addr_plus a (Z.of_nat (length content)) = Ok a1 /\
  exists s1, nth_error (r_scopes r1) (r_cur r) = Some s1 /\
    dict_get (s_labels s1) (symbol_base path) = Some (a_val a) /\
    dict_get (s_symbols s1) (symbol_base path ++ size_suffix) = Some (Z.of_nat (length content)).
Proof.
  intros Hn. cbn [pc_after].
  destruct (addr_plus a _) as [a'| |] eqn:E; cbn [bind]; try discriminate.
  intros H; inversion H; subst; clear H. split; [reflexivity|].
  unfold add_symbol, add_label, upd_scope. cbn [r_scopes r_cur set_scopes].
  eexists. split.
  - apply nth_list_update_same. apply nth_list_update_same. exact Hn.
  - cbn [scope_add_symbol scope_add_label s_labels s_symbols]. split; apply dict_get_set_same.
Qed.

(** The assembly as a whole: [assemble_nodes] succeeding means both passes succeeded on the same
    list, so [phase_agreement] applies; when the two traversals cannot agree the result is an
    error, never an output with shifted addresses. *)
Theorem assemble_nodes_phase w r ns out :
  assemble_nodes w r ns = Ok out ->
  exists r1 a1 l,
    label_run w (set_cur_last r (r_cur r) 0) ns (r_reloc r) = Ok (r1, a1, l) /\
    exists r2 st',
      emit_loop w {| e_r := r2; e_block := []; e_baddr := r_pc r2; e_out := [] |} ns (l ++ [a_val a1]) = Ok st'.
Proof.
  unfold assemble_nodes, resolve_labels. rewrite label_pass_run.
  cbn [r_reloc set_cur_last].
  destruct (label_run w (set_cur_last r (r_cur r) 0) ns (r_reloc r)) as [[[r1 a1] l]| |] eqn:E; cbn [bind fst snd]; try discriminate.
  destruct (symbol_pass w _ ns _) as [[r2 a2]| |]; cbn [bind fst snd]; try discriminate.
  unfold emit. cbn [app].
  destruct (emit_loop w _ ns _) as [st'| |] eqn:EL; cbn [bind]; try discriminate.
  intros _. exists r1, a1, l. split; [reflexivity|]. eauto.
Qed.

(** ** C03 — conservation of the emitted bytes *)
Definition is_ips (n : node) : bool := match n with NIps _ => true | _ => false end.

(** One emission step appends exactly the node's bytes to "blocks written so far ++ current
    block": nothing is lost, duplicated or reordered. *)
Theorem emit_step_conserves w st n x st' :
  is_ips n = false -> emit_step w st n x = Ok st' ->
  exists r1 bs, node_emit w (e_r st) n = Ok (r1, bs) /\
    concat (map fst (e_out st')) ++ e_block st' = concat (map fst (e_out st)) ++ e_block st ++ bs.
Proof.
  intros Hips. unfold emit_step.
  destruct (negb _); [discriminate|].
  destruct (node_emit w (e_r st) n) as [[r1 bs]| |]; cbn [bind]; try discriminate.
  match goal with |- context [bind ?X _] => destruct X as [r2| |]; cbn [bind]; try discriminate end.
  intros H. exists r1, bs. split; [reflexivity|].
  assert (Hn : forall s : estate, match n with NIps blocks => {| e_r := e_r s; e_block := e_block s; e_baddr := e_baddr s;
              e_out := e_out s ++ map (fun ab => (snd ab, fst ab)) blocks |} | _ => s end = s)
    by (intros s; destruct n; try reflexivity; discriminate).
  rewrite Hn in H. inversion H; subst; clear H.
  destruct (is_codepos n); cbn [e_out e_block].
  - rewrite app_nil_r. destruct (e_block st ++ bs) as [|b0 l0].
    + rewrite app_nil_r. reflexivity.
    + rewrite map_app, concat_app. cbn [map fst concat]. rewrite app_nil_r. reflexivity.
  - reflexivity.
Qed.

(** ** C03 — the file offset stays in step with the run address *)

(** [synced m st]: the run address is a ROM address inside the window of mapping [m] (which owns
    its bank range on the address's bus), and the next byte of the current block goes to exactly
    the file offset the mapping assigns to the run address. *)
Record synced (m : mapping) (st : estate) : Prop := {
  sy_cov : covers (a_bus (r_reloc (e_r st))) m;
  sy_mask : mask_ok m;
  sy_rom : m_writable m = false;
  sy_win : in_window m (a_val (r_reloc (e_r st)));
  sy_bank : m_first m <= bank_of (a_val (r_reloc (e_r st))) <= m_last m;
  sy_off : e_baddr st + Z.of_nat (length (e_block st)) = spec_offset m (a_val (r_reloc (e_r st)));
  sy_pc : r_pc (e_r st) = spec_offset m (a_val (r_reloc (e_r st)))
}.

Lemma use_next_scope_position r r' : use_next_scope r = Ok r' -> r_reloc r' = r_reloc r /\ r_pc r' = r_pc r.
Proof.
  unfold use_next_scope. destruct (nth_error _ _); try discriminate. intros H; inversion H; subst; auto.
Qed.
Lemma restore_scope_position r e r' : restore_scope r e = Ok r' -> r_reloc r' = r_reloc r /\ r_pc r' = r_pc r.
Proof.
  unfold restore_scope. destruct (nth_error _ _) as [s|]; try discriminate.
  destruct (s_parent s); try discriminate. intros H; inversion H; subst.
  destruct (s_kind s); try destruct e; auto.
Qed.

Lemma node_emit_keeps_position w r n r1 bs :
  is_position n = false -> node_emit w r n = Ok (r1, bs) ->
  r_reloc r1 = r_reloc r /\ r_pc r1 = r_pc r.
Proof.
  intros Hp. destruct n; cbn [node_emit is_position] in *; try discriminate;
    try (intros H; inversion H; subst; auto; fail).
  - destruct (get_value _ _ _); cbn [bind]; try discriminate. intros H; inversion H; subst; auto.
  - destruct (opcode_emit _ _ _ _ _ _ _); cbn [bind]; try discriminate. intros H; inversion H; subst; auto.
  - destruct (use_next_scope r) eqn:E; cbn [bind]; try discriminate.
    intros H; inversion H; subst. eapply use_next_scope_position; eauto.
  - destruct (restore_scope r false) eqn:E; cbn [bind]; try discriminate.
    intros H; inversion H; subst. eapply restore_scope_position; eauto.
  - destruct enc; cbn [bind]; try discriminate. intros H; inversion H; subst; auto.
Qed.

(** Every node other than a position move keeps the state in step: its bytes go to consecutive
    file offsets, which are the offsets the mapping assigns to the consecutive run addresses
    (crossing into the next bank's window when a bank ends). *)
Theorem emit_step_synced w m st n x st' :
  synced m st -> is_position n = false -> emit_step w st n x = Ok st' ->
  (spec_offset m (a_val (r_reloc (e_r st'))) < (m_last m - m_first m + 1) * m_mask m) ->
  synced m st' /\
  exists r1 bs, node_emit w (e_r st) n = Ok (r1, bs) /\
    spec_offset m (a_val (r_reloc (e_r st'))) = spec_offset m (a_val (r_reloc (e_r st))) + Z.of_nat (length bs) /\
    e_baddr st' = e_baddr st.
Proof.
  intros [Hcov Hmask Hrom Hwin Hbank Hoff Hpc] Hpos. unfold emit_step.
  destruct (negb _); [discriminate|].
  destruct (node_emit w (e_r st) n) as [[r1 bs]| |] eqn:NE; cbn [bind]; try discriminate.
  destruct (node_emit_keeps_position _ _ _ _ _ Hpos NE) as [Hrel Hpc1].
  assert (Hcp : is_codepos n = false) by (destruct n; try reflexivity; discriminate).
  rewrite Hcp.
  destruct bs as [|b0 bs0].
  - cbn [bind]. intros H Hrange.
    assert (st' = {| e_r := r1; e_block := e_block st ++ []; e_baddr := e_baddr st; e_out :=
              match n with NIps blocks => e_out st ++ map (fun ab => (snd ab, fst ab)) blocks | _ => e_out st end |}).
    { destruct n; inversion H; reflexivity. }
    subst st'. cbn [e_r e_block e_baddr] in *. rewrite Hrel in *. rewrite app_nil_r.
    split; [constructor; cbn [e_r e_block e_baddr]; rewrite ?Hrel, ?Hpc1; auto|].
    exists r1, []. cbn [length]. repeat split; auto. lia.
  - set (bs := b0 :: bs0) in *.
    unfold addr_plus. rewrite Hrel.
    set (a := a_val (r_reloc (e_r st))) in *. set (bus := a_bus (r_reloc (e_r st))) in *.
    set (len := Z.of_nat (length bs)).
    destruct (addr_add bus a len) as [a'| |] eqn:AD; cbn [bind]; try discriminate.
    intros H Hrange.
    assert (st' = {| e_r := set_reloc (set_pc r1 (r_pc r1 + len)) {| a_bus := bus; a_val := a' |};
                     e_block := e_block st ++ bs; e_baddr := e_baddr st; e_out :=
              match n with NIps blocks => e_out st ++ map (fun ab => (snd ab, fst ab)) blocks | _ => e_out st end |}).
    { destruct n; inversion H; reflexivity. }
    subst st'. cbn [e_r e_block e_baddr set_reloc set_pc r_reloc r_pc a_val a_bus] in *.
    assert (Hlen : 0 <= len) by (unfold len; lia).
    assert (Hr : 0 <= spec_offset m a + len < (m_last m - m_first m + 1) * m_mask m).
    { assert (0 <= spec_offset m a)
        by (pose proof (spec_offset_range m a Hmask Hwin); destruct Hmask as [E|E]; rewrite E in *; lia).
      split; [lia|].
      (* the new address is the one with offset + len: use the advance law once we know a' *)
      destruct (Z_lt_ge_dec (spec_offset m a + len) ((m_last m - m_first m + 1) * m_mask m)) as [L|G]; [exact L|].
      exfalso.
      (* out of range: logical_address would leave the bank range; but then the offset of a' ... *)
      revert Hrange. unfold addr_add in AD. rewrite bank_shiftr, (Hcov _ Hbank) in AD. cbn [bind] in AD.
      rewrite physical_rom in AD by assumption. rewrite logical_spec in AD by assumption. cbn [bind] in AD.
      unfold get_address in AD. destruct (bus_mapping_for_bank bus _); cbn [bind] in AD; try discriminate.
      inversion AD; subst a'.
      destruct (spec_address_props m (spec_offset m a + len) Hmask) as (Hb' & Hw' & Ho').
      rewrite Ho'. lia. }
    destruct (bus_advance bus a len m Hcov Hmask Hrom Hwin Hbank Hr) as (Hadd & Hphys & Hwin' & Hbank').
    rewrite AD in Hadd. inversion Hadd; subst a'.
    destruct (spec_address_props m (spec_offset m a + len) Hmask) as (_ & _ & Ho').
    split.
    + constructor; cbn [e_r e_block e_baddr set_reloc set_pc r_reloc r_pc a_val a_bus]; auto.
      * rewrite app_length, Nat2Z.inj_add, Ho'. fold len. lia.
      * rewrite Ho', Hpc1, Hpc. reflexivity.
    + exists r1, bs. repeat split; auto.
Qed.

(** [*= v] with [v] a ROM address inside its window re-establishes the invariant: the logical
    address and the output offset both move, the block is flushed and a new one starts at the
    file offset of [v]. *)
Theorem codepos_synced w st e fi x st' v bus m :
  emit_step w st (NCodePos e fi) x = Ok st' ->
  get_value w (e_r st) e = Ok v -> get_bus w (e_r st) = Ok bus ->
  covers bus m -> mask_ok m -> m_writable m = false -> in_window m v ->
  m_first m <= bank_of v <= m_last m ->
  synced m st' /\ a_val (r_reloc (e_r st')) = v /\ e_block st' = [] /\
  e_baddr st' = spec_offset m v /\
  e_out st' = match e_block st with [] => e_out st | b => e_out st ++ [(b, e_baddr st)] end.
Proof.
  intros H Hv Hb Hcov Hmask Hrom Hwin Hbank. unfold emit_step in H.
  destruct (negb _); [discriminate|].
  cbn [node_emit] in H. rewrite Hv in H. cbn [bind] in H.
  unfold set_position in H. rewrite Hb in H. cbn [bind] in H.
  rewrite (mk_addr_ok bus v m (Hcov _ Hbank)) in H. cbn [bind] in H.
  unfold addr_phys in H. cbn [a_bus a_val] in H.
  rewrite (bus_physical bus v m (Hcov _ Hbank) Hmask Hrom Hwin) in H. cbn [bind is_codepos] in H.
  rewrite app_nil_r in H. inversion H; subst; clear H.
  cbn [e_r e_block e_baddr e_out set_reloc set_pc r_reloc r_pc a_val a_bus].
  refine (conj _ (conj _ (conj _ (conj _ _)))); auto.
  - constructor; cbn [e_r e_block e_baddr set_reloc set_pc r_reloc r_pc a_val a_bus length]; auto. lia.
  - destruct (e_block st); reflexivity.
Qed.

(** ** C03 — whole runs *)

(** The bytes each node emits along an emission run (a ghost trace of the same run). *)
Fixpoint emit_trace (w : world) (st : estate) (ns : list node) (addrs : list Z) : res (list bytes) :=
  match ns with
  | [] => Ok []
  | n :: rest =>
      match addrs with
      | x :: addrs' =>
          do rb <- node_emit w (e_r st) n;
          do st' <- emit_step w st n x;
          do bss <- emit_trace w st' rest addrs';
          Ok (snd rb :: bss)
      | [] => Err EIndex
      end
  end.

(** Whole-run conservation: for a run without included patches, what reached the writer plus the
    still open block is exactly the concatenation of every node's bytes, in source order. *)
Theorem emit_prefix_conserves w ns : forallb (fun n => negb (is_ips n)) ns = true -> forall st addrs st',
  emit_prefix w st ns addrs = Ok st' ->
  exists bss, emit_trace w st ns addrs = Ok bss /\
    concat (map fst (e_out st')) ++ e_block st' = concat (map fst (e_out st)) ++ e_block st ++ concat bss.
Proof.
  induction ns as [|n ns IH]; intros Hips st addrs st' H; cbn [emit_prefix emit_trace] in *.
  - inversion H; subst. exists []. split; [reflexivity|]. cbn [concat]. rewrite app_nil_r. reflexivity.
  - cbn [forallb] in Hips. apply andb_prop in Hips as [Hn Hrest].
    destruct addrs as [|x addrs]; [discriminate|].
    destruct (emit_step w st n x) as [st1| |] eqn:ES; cbn [bind] in H; try discriminate.
    destruct (emit_step_conserves w st n x st1 ltac:(destruct (is_ips n); [discriminate|reflexivity]) ES) as (r1 & bs & NE & C1).
    rewrite NE. cbn [bind snd].
    destruct (IH Hrest st1 addrs st' H) as (bss & T & C2).
    rewrite T. cbn [bind]. exists (bs :: bss). split; [reflexivity|].
    rewrite C2. cbn [concat]. rewrite app_assoc, C1, <- !app_assoc. reflexivity.
Qed.

(** The run address after a non-position node is the address whose offset is larger by the number
    of bytes emitted (whatever the range: the address constructor may still refuse it). *)
Lemma emit_step_offset w m st n x st1 :
  synced m st -> is_position n = false -> emit_step w st n x = Ok st1 ->
  exists r1 bs, node_emit w (e_r st) n = Ok (r1, bs) /\
    spec_offset m (a_val (r_reloc (e_r st1))) = spec_offset m (a_val (r_reloc (e_r st))) + Z.of_nat (length bs).
Proof.
  intros [Hcov Hmask Hrom Hwin Hbank Hoff Hpc] Hpos. unfold emit_step.
  destruct (negb _); [discriminate|].
  destruct (node_emit w (e_r st) n) as [[r1 bs]| |] eqn:NE; cbn [bind]; try discriminate.
  destruct (node_emit_keeps_position _ _ _ _ _ Hpos NE) as [Hrel Hpc1].
  assert (Hcp : is_codepos n = false) by (destruct n; try reflexivity; discriminate). rewrite Hcp.
  exists r1, bs. split; [reflexivity|].
  destruct bs as [|b0 bs0]; cbn [bind] in *.
  - assert (e_r st1 = r1) by (destruct n; inversion H; reflexivity). subst r1. rewrite Hrel. cbn. lia.
  - revert H. unfold addr_plus. rewrite Hrel. unfold addr_add. rewrite bank_shiftr, (Hcov _ Hbank). cbn [bind].
    rewrite physical_rom by assumption. rewrite logical_spec by assumption. cbn [bind].
    set (p' := spec_offset m (a_val (r_reloc (e_r st))) + Z.of_nat (length (b0 :: bs0))).
    destruct (spec_address_props m p' Hmask) as (Hb' & Hw' & Ho').
    unfold get_address. destruct (bus_mapping_for_bank _ _) as [m'| |]; cbn [bind]; try discriminate.
    intros E.
    assert (Ha : a_val (r_reloc (e_r st1)) = spec_address m p') by (destruct n; inversion E; reflexivity).
    rewrite Ha, Ho'. reflexivity.
Qed.

(** Whole-run offsets: from an in-step state, a run of non-position nodes whose bytes all fit in
    the mapped range stays in step: every node's bytes went to the file offsets the mapping assigns
    to its run addresses, the block was never flushed, and the run address advanced by exactly the
    number of bytes emitted (crossing bank ends where needed). *)
Theorem emit_prefix_synced w m ns : forallb (fun n => negb (is_position n)) ns = true -> forall st addrs st' bss,
  synced m st -> emit_prefix w st ns addrs = Ok st' -> emit_trace w st ns addrs = Ok bss ->
  spec_offset m (a_val (r_reloc (e_r st))) + Z.of_nat (length (concat bss)) < (m_last m - m_first m + 1) * m_mask m ->
  synced m st' /\ e_baddr st' = e_baddr st /\
  spec_offset m (a_val (r_reloc (e_r st'))) = spec_offset m (a_val (r_reloc (e_r st))) + Z.of_nat (length (concat bss)).
Proof.
  induction ns as [|n ns IH]; intros Hpos st addrs st' bss Hs H T Hr; cbn [emit_prefix emit_trace] in *.
  - inversion H; inversion T; subst. cbn. split; [exact Hs|]. split; [reflexivity|lia].
  - cbn [forallb] in Hpos. apply andb_prop in Hpos as [Hn Hrest].
    assert (Hn' : is_position n = false) by (destruct (is_position n); [discriminate|reflexivity]).
    destruct addrs as [|x addrs]; [discriminate|].
    destruct (emit_step w st n x) as [st1| |] eqn:ES; cbn [bind] in H; try discriminate.
    destruct (emit_step_offset w m st n x st1 Hs Hn' ES) as (r1 & bs & NE & Hgrow).
    rewrite NE in T. cbn [bind snd] in T.
    destruct (emit_trace w st1 ns addrs) as [bss1| |] eqn:T1; cbn [bind] in T; try discriminate.
    inversion T; subst bss. cbn [concat] in Hr. rewrite app_length, Nat2Z.inj_add in Hr.
    assert (Hmid : spec_offset m (a_val (r_reloc (e_r st1))) < (m_last m - m_first m + 1) * m_mask m) by lia.
    destruct (emit_step_synced w m st n x st1 Hs Hn' ES Hmid) as (Hs1 & _ & _ & _ & _ & Hb1).
    destruct (IH Hrest st1 addrs st' bss1 Hs1 H T1 ltac:(lia)) as (Hs' & Hb' & Hoff).
    split; [exact Hs'|]. split; [congruence|]. cbn [concat]. rewrite app_length, Nat2Z.inj_add. lia.
Qed.

(** ** C05 meets C03: in an in-step emission state a branch gets its true displacement *)
Theorem branch_in_step w m st op t :
  synced m st -> get_bus w (e_r st) = Ok (a_bus (r_reloc (e_r st))) ->
  let p := a_val (r_reloc (e_r st)) in
  in_window m t -> bank_of t = bank_of p -> byte_ok op = true ->
  rel_emit w (e_r st) op (Some (Ok t)) = branch_bytes op (t - (p + 2)).
Proof.
  intros [Hcov Hmask Hrom Hwin Hbank Hoff Hpc] Hbus p Hwt Hb Hop.
  apply (rel_branch_encode w (e_r st) op t (a_bus (r_reloc (e_r st))) m); auto.
Qed.
