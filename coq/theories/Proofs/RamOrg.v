(** C03 — the model's emission trace satisfies the oracle conjunct [ram_org_ok] (Oracle/Coreo.v): a
    [*=] whose target is a RAM address leaves the file offset where it was.  On the built-in buses,
    for every node list and start state; no side condition beyond "the bus in force is the built-in
    one" (the oracle only checks this when there is no user [.map]). *)
From Coq Require Import ZArith List Lia Bool Arith.
From A816 Require Import Model.Program Oracle.Coreo Proofs.BusProofs Proofs.NodeProofs Proofs.ProgramProofs
     Proofs.WriterProtocol Proofs.WriterProtocolBus Proofs.TraceOracle.
Open Scope Z_scope.

Lemma ram_org_ok_cons high n rest :
  ram_org_ok high (n :: rest) =
  match rest with
  | m :: _ => negb (tn_kind n =? 1) || negb (is_ram high (tn_addr m)) || (tn_pc m =? tn_pc n)
  | [] => true
  end && ram_org_ok high rest.
Proof. reflexivity. Qed.

Lemma emit_step_keeps_bus w st n x st1 : emit_step w st n x = Ok st1 -> get_bus w (e_r st1) = get_bus w (e_r st).
Proof.
  intros ES. destruct (emit_step_inv2 _ _ _ _ _ ES) as (r1 & bs & NE & Hb & Hr & _).
  destruct (node_emit_bus _ _ _ _ _ NE) as [Hb1 Hr1]. unfold get_bus. rewrite Hb, Hr, Hb1, Hr1. reflexivity.
Qed.

(** the [*=] step itself *)
Lemma codepos_step w high st e fi x st1 :
  get_bus w (e_r st) = Ok (builtin high) -> emit_step w st (NCodePos e fi) x = Ok st1 ->
  is_ram high (a_val (r_reloc (e_r st1))) = true -> r_pc (e_r st1) = r_pc (e_r st).
Proof.
  intros Hbus ES Hram. destruct (emit_step_inv2 _ _ _ _ _ ES) as (r1 & bs & NE & _ & _ & Hshape).
  cbn [node_emit] in NE. destruct (get_value w (e_r st) e) as [v| |]; cbn [bind] in NE; try discriminate.
  destruct (set_position w (e_r st) v) as [r'| |] eqn:SP; cbn [bind] in NE; try discriminate.
  inversion NE; subst r1 bs; clear NE. rewrite Hshape in *.
  destruct (set_position_inv _ _ _ _ SP) as (b & p & Gb & Ph & Rl & Pc & _ & _).
  rewrite Hbus in Gb. inversion Gb; subst b. rewrite Pc. rewrite Rl in Hram. cbn [a_val] in Hram.
  unfold is_ram in Hram. fold (bspec high v) in Hram. rewrite <- (builtin_closed high v), Ph in Hram.
  destruct p; [discriminate|reflexivity].
Qed.

Theorem trace_ram_org_ok w high ns : forall st addrs tr st',
  get_bus w (e_r st) = Ok (builtin high) ->
  model_trace_st w st ns addrs = Ok (tr, st') -> ram_org_ok high tr = true.
Proof.
  induction ns as [|n ns IH]; intros st addrs tr st' Hbus H; cbn [model_trace_st] in H.
  - destruct addrs as [|x [|y l]]; try discriminate. destruct (negb _); [discriminate|].
    inversion H; subst. reflexivity.
  - destruct addrs as [|x addrs]; [discriminate|].
    destruct (node_emit w (e_r st) n) as [[r1 bs]| |] eqn:NE; cbn [bind] in H; try discriminate.
    destruct (emit_step w st n x) as [st1| |] eqn:ES; cbn [bind] in H; try discriminate.
    destruct (model_trace_st w st1 ns addrs) as [[tr1 st2]| |] eqn:T; cbn [bind fst snd] in H; try discriminate.
    inversion H; subst tr st2; clear H. cbn [snd].
    assert (Hbus1 : get_bus w (e_r st1) = Ok (builtin high)) by (rewrite (emit_step_keeps_bus _ _ _ _ _ ES); exact Hbus).
    rewrite ram_org_ok_cons, (IH _ _ _ _ Hbus1 T), andb_true_r.
    destruct tr1 as [|m tr2]; [reflexivity|].
    cbn [tnode_of tn_kind tn_pc].
    pose proof (trace_first_addr _ _ _ _ _ _ _ T) as Ha.
    pose proof (trace_first_pc _ _ _ _ _ _ T) as Hp. cbn [first_pc] in Hp. rewrite Ha, Hp.
    destruct n; try reflexivity.
    destruct (is_ram high (a_val (r_reloc (e_r st1)))) eqn:Hram; [|reflexivity].
    rewrite (codepos_step w high st e fi x st1 Hbus ES Hram). cbn [node_kind Z.eqb negb orb]. apply Z.eqb_refl.
Qed.

(** the whole assembly, with the other three conjuncts of [spec_ok (SBlocks high false ...)] *)
Theorem assemble_ram_org_ok w high r ns o :
  get_bus w r = Ok (builtin high) -> assemble_nodes w r ns = Ok o ->
  exists r1 addrs tr,
    resolve_labels w r ns = Ok (r1, addrs) /\
    model_trace w (emit_start r1) ns addrs = Ok (tr, r_pc (o_final o)) /\
    ram_org_ok high tr = true.
Proof.
  intros Hbus H.
  destruct (assemble_writer_protocol _ _ _ _ H) as (r1 & addrs & tr & RL & T & _).
  exists r1, addrs, tr. refine (conj RL (conj T _)).
  unfold model_trace in T.
  destruct (model_trace_st w (emit_start r1) ns addrs) as [[tr' st']| |] eqn:TS; cbn [bind fst snd] in T; try discriminate.
  inversion T; subst tr'; clear T.
  destruct (resolve_labels_fixed _ _ _ _ _ RL) as (F1 & F2 & F3).
  apply (trace_ram_org_ok w high ns (emit_start r1) addrs tr st'); [|exact TS].
  cbn [emit_start e_r]. unfold get_bus in *. rewrite F2, F3. exact Hbus.
Qed.

(** Example: the RAM-run program of WriterExamples — [*=0x7fffff] leaves pc at 0 *)
Module RamOrgExamples.
  Import NonInterference.NIExamples Unroll.UnrollExamples WriterExamples.
  Example ramrun_ram_org : match trace_of ramrun with Ok (tr, _) => ram_org_ok false tr | _ => false end = true.
  Proof. vm_compute. reflexivity. Qed.
  Example prog_ram_org : match trace_of prog with Ok (tr, _) => ram_org_ok false tr | _ => false end = true.
  Proof. vm_compute. reflexivity. Qed.
  (** not vacuous: a trace in which a RAM [*=] moved the offset is rejected *)
  Example rejects : ram_org_ok false
    [ {| tn_kind := 1; tn_addr := 0; tn_pc := 0; tn_bytes := []; tn_ips := [] |};
      {| tn_kind := 0; tn_addr := 8257536; tn_pc := 5; tn_bytes := [1]; tn_ips := [] |} ] = false.
  Proof. vm_compute. reflexivity. Qed.
End RamOrgExamples.

Print Assumptions trace_ram_org_ok.
Print Assumptions assemble_ram_org_ok.
