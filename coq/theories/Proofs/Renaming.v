(** C08 (renaming half) — consistently renaming a name does not change the output.

    [rename_nodes rho ns] applies [rho] to every name a LabelNode / SymbolNode defines and to every
    identifier token of every expression.  When [rho] is injective on a set [D] of names that
    contains every name in play and is closed under the prefixing [scope.name] done by the export
    of named scopes, and [rho] commutes with that prefixing, the renamed assembly goes through
    resolver states whose dictionaries are the original ones with keys mapped by [rho]: same
    writer blocks, same error kind on failure, labels = the original labels with renamed keys.

    The instance of interest is [ren z z'] (z |-> z', p.z |-> p.z') with D = "not z'-derived",
    i.e. z' fresh. *)
From Coq Require Import ZArith List Lia Bool Arith.
From A816 Require Import Model.Program Proofs.BusProofs Proofs.ResolverProofs Proofs.EvalCongr
     Proofs.RenamingExpr Proofs.NonInterference.
Open Scope Z_scope.

(** ** The renamed node list *)
Definition rename_node (rho : str -> str) (n : node) : node :=
  match n with
  | NLabel name => NLabel (rho name)
  | NSymbol name e ip => NSymbol (rho name) (rename_expr rho e) ip
  | NSymConst name k => NSymConst (rho name) k
  | NData k e fi => NData k (rename_expr rho e) fi
  | NOpcode op m i o sz fi => NOpcode op m i (option_map (rename_expr rho) o) sz fi
  | NCodePos e fi => NCodePos (rename_expr rho e) fi
  | NReloc e fi => NReloc (rename_expr rho e) fi
  | _ => n
  end.
Definition rename_nodes (rho : str -> str) (ns : list node) : list node := map (rename_node rho) ns.
Definition map_keys {V} (rho : str -> str) (d : list (str * V)) : list (str * V) :=
  map (fun kv => (rho (fst kv), snd kv)) d.

Section Ren.
  Variable rho : str -> str.
  Variable D : str -> Prop.
  (** [rho] is injective on the names in play *)
  Hypothesis rho_inj : forall a b, D a -> D b -> rho a = rho b -> a = b.
  (** the names in play are closed under what the export of a named scope derives *)
  Hypothesis D_prefix : forall name k, D k -> D (name ++ dot ++ k).
  (** renaming a qualified name renames its last component *)
  Hypothesis rho_prefix : forall name k, rho (name ++ dot ++ k) = name ++ dot ++ rho k.

  Notation mk := (map_keys rho).
  Definition keysD {V} (d : dict V) : Prop := Forall (fun kv => D (fst kv)) d.

  Lemma rho_eqb a b : D a -> D b -> str_eqb (rho a) (rho b) = str_eqb a b.
  Proof.
    intros Ha Hb. destruct (str_eqb a b) eqn:E.
    - apply str_eqb_eq in E. subst. apply str_eqb_refl.
    - destruct (str_eqb (rho a) (rho b)) eqn:E2; auto.
      apply str_eqb_eq in E2. apply rho_inj in E2; auto. subst. rewrite str_eqb_refl in E. discriminate.
  Qed.

  Lemma mk_set {V} (d : dict V) k v : keysD d -> D k -> mk (dict_set d k v) = dict_set (mk d) (rho k) v.
  Proof.
    intros Hd Hk. induction Hd as [|[k' v'] d Hk' Hd IH]; cbn [dict_set map_keys map fst snd]; [reflexivity|].
    cbn [fst] in Hk'. rewrite (rho_eqb k k' Hk Hk').
    destruct (str_eqb k k'); cbn [map fst snd]; [reflexivity|]. unfold map_keys in IH. rewrite IH. reflexivity.
  Qed.

  Lemma keysD_set {V} (d : dict V) k v : keysD d -> D k -> keysD (dict_set d k v).
  Proof.
    intros Hd Hk. induction Hd as [|[k' v'] d Hk' Hd IH]; cbn [dict_set].
    - constructor; auto.
    - destruct (str_eqb k k'); constructor; auto.
  Qed.

  Lemma mk_get {V} (d : dict V) q : keysD d -> D q -> dict_get (mk d) (rho q) = dict_get d q.
  Proof.
    intros Hd Hq. induction Hd as [|[k' v'] d Hk' Hd IH]; cbn [dict_get map_keys map fst snd]; [reflexivity|].
    cbn [fst] in Hk'. rewrite (rho_eqb q k' Hq Hk'). destruct (str_eqb q k'); [reflexivity|exact IH].
  Qed.

  Lemma mk_mem {V} (d : dict V) q : keysD d -> D q -> dict_mem (mk d) (rho q) = dict_mem d q.
  Proof. intros Hd Hq. unfold dict_mem. rewrite mk_get; auto. Qed.

  (** ** The simulation relation (with the invariant of the original side built in) *)
  Record rssim (s1 s2 : scope) : Prop := {
    rs_parent : s_parent s1 = s_parent s2;
    rs_kind : s_kind s1 = s_kind s2;
    rs_table : s_table s1 = s_table s2;
    rs_sym : s_symbols s2 = mk (s_symbols s1);
    rs_lab : s_labels s2 = mk (s_labels s1);
    rs_code : s_code s2 = mk (s_code s1);
    rs_symD : keysD (s_symbols s1);
    rs_labD : keysD (s_labels s1);
    rs_codeD : keysD (s_code s1)
  }.

  Record rsim (r1 r2 : rstate) : Prop := {
    rm_scopes : Forall2 rssim (r_scopes r1) (r_scopes r2);
    rm_cur : r_cur r1 = r_cur r2;
    rm_last : r_last r1 = r_last r2;
    rm_pc : r_pc r1 = r_pc r2;
    rm_reloc : r_reloc r1 = r_reloc r2;
    rm_bus : r_bus r1 = r_bus r2;
    rm_rom : r_rom r1 = r_rom r2
  }.

  Lemma rsim_set_cur r1 r2 c : rsim r1 r2 -> rsim (set_cur r1 c) (set_cur r2 c).
  Proof. intros []; constructor; auto. Qed.
  Lemma rsim_set_cur_last r1 r2 c l : rsim r1 r2 -> rsim (set_cur_last r1 c l) (set_cur_last r2 c l).
  Proof. intros []; constructor; auto. Qed.
  Lemma rsim_set_pc r1 r2 p : rsim r1 r2 -> rsim (set_pc r1 p) (set_pc r2 p).
  Proof. intros []; constructor; auto. Qed.
  Lemma rsim_set_reloc r1 r2 a : rsim r1 r2 -> rsim (set_reloc r1 a) (set_reloc r2 a).
  Proof. intros []; constructor; auto. Qed.
  Lemma rsim_reset r1 r2 : rsim r1 r2 -> rsim (resolver_reset r1) (resolver_reset r2).
  Proof. intros H. unfold resolver_reset. apply rsim_set_pc, rsim_set_cur_last, H. Qed.

  Lemma rsim_upd r1 r2 i f g :
    (forall a b, rssim a b -> rssim (f a) (g b)) -> rsim r1 r2 -> rsim (upd_scope r1 i f) (upd_scope r2 i g).
  Proof.
    intros Hfg []; constructor; auto. cbn [upd_scope set_scopes r_scopes].
    apply Forall2_list_update; auto.
  Qed.

  Lemma rssim_add_symbol n v a b : D n -> rssim a b -> rssim (scope_add_symbol n v a) (scope_add_symbol (rho n) v b).
  Proof.
    intros Hn [P Kd T S L C SD LD CD];
      constructor; cbn [scope_add_symbol s_parent s_kind s_code s_table s_symbols s_labels]; auto.
    - rewrite S. symmetry. apply mk_set; auto.
    - apply keysD_set; auto.
  Qed.
  Lemma rssim_add_label n v a b : D n -> rssim a b -> rssim (scope_add_label n v a) (scope_add_label (rho n) v b).
  Proof.
    intros Hn [P Kd T S L C SD LD CD];
      constructor; cbn [scope_add_label s_parent s_kind s_code s_table s_symbols s_labels]; auto.
    - rewrite S. symmetry. apply mk_set; auto.
    - rewrite L. symmetry. apply mk_set; auto.
    - apply keysD_set; auto.
    - apply keysD_set; auto.
  Qed.
  Lemma rsim_add_symbol r1 r2 n v : D n -> rsim r1 r2 -> rsim (add_symbol r1 n v) (add_symbol r2 (rho n) v).
  Proof. intros Hn H. unfold add_symbol. rewrite (rm_cur _ _ H). apply rsim_upd; auto using rssim_add_symbol. Qed.
  Lemma rsim_add_label r1 r2 n v : D n -> rsim r1 r2 -> rsim (add_label r1 n v) (add_label r2 (rho n) v).
  Proof. intros Hn H. unfold add_label. rewrite (rm_cur _ _ H). apply rsim_upd; auto using rssim_add_label. Qed.

  (** ** Lookups *)
  Lemma scope_getitem_ren s1 s2 q : D q -> rssim s1 s2 -> scope_getitem s2 (rho q) = scope_getitem s1 q.
  Proof.
    intros Hq [P Kd T S L C SD LD CD]. unfold scope_getitem. rewrite C, S, !mk_get; auto.
  Qed.

  Lemma value_for_fuel_ren sc1 sc2 q : D q -> Forall2 rssim sc1 sc2 -> forall fuel i,
    value_for_fuel sc2 fuel i (rho q) = value_for_fuel sc1 fuel i q.
  Proof.
    intros Hq H fuel; induction fuel as [|fuel IH]; intros i; [reflexivity|]. cbn [value_for_fuel].
    pose proof (Forall2_nth_error _ _ _ H i) as Hi.
    destruct (nth_error sc1 i) as [s1|], (nth_error sc2 i) as [s2|]; try contradiction; [|reflexivity].
    rewrite (scope_getitem_ren _ _ q Hq Hi). rewrite <- (rs_parent _ _ Hi).
    rewrite (rs_sym _ _ Hi), (rs_code _ _ Hi), !mk_mem; auto using (rs_symD _ _ Hi), (rs_codeD _ _ Hi).
    destruct (s_parent s1); [|reflexivity]. rewrite IH. reflexivity.
  Qed.

  Lemma env_of_ren r1 r2 q : D q -> rsim r1 r2 -> env_of r2 (rho q) = env_of r1 q.
  Proof.
    intros Hq H. unfold env_of, value_for. rewrite <- (rm_cur _ _ H).
    rewrite (value_for_fuel_ren _ _ q Hq (rm_scopes _ _ H)). reflexivity.
  Qed.

  (** ** Expressions: identifiers are operands and are names in play *)
  Definition expr_ok (e : expr) : Prop :=
    ident_terms e = true /\ Forall (fun t => en_type t = T_IDENTIFIER -> D (en_val t)) e.

  Lemma eval_raw_ren w r1 r2 e : expr_ok e -> rsim r1 r2 -> eval_raw w r2 (rename_expr rho e) = eval_raw w r1 e.
  Proof.
    intros [Hw Hd] H. unfold eval_raw. apply eval_expression_rename; auto.
    eapply Forall_impl; [|exact Hd]. intros t Ht Hty. apply env_of_ren; auto.
  Qed.
  Lemma get_value_ren w r1 r2 e : expr_ok e -> rsim r1 r2 -> get_value w r2 (rename_expr rho e) = get_value w r1 e.
  Proof. intros He H. unfold get_value. rewrite (eval_raw_ren w r1 r2 e He H). reflexivity. Qed.

  Lemma get_bus_ren w r1 r2 : rsim r1 r2 -> get_bus w r1 = get_bus w r2.
  Proof. intros H. unfold get_bus. rewrite (rm_bus _ _ H), (rm_rom _ _ H). reflexivity. Qed.

  (** ** Scope moves *)
  Lemma use_next_scope_ren r1 r2 : rsim r1 r2 -> res_rel rsim (use_next_scope r1) (use_next_scope r2).
  Proof.
    intros H. unfold use_next_scope. rewrite (rm_last _ _ H).
    pose proof (Forall2_nth_error _ _ _ (rm_scopes _ _ H) (S (r_last r2))) as Hi.
    destruct (nth_error (r_scopes r1) _), (nth_error (r_scopes r2) _); try contradiction; cbn [res_rel]; auto.
    apply rsim_set_cur_last; auto.
  Qed.

  Lemma mk_export name c : forall d, keysD c -> keysD d ->
    fold_left (export_step name) (mk c) (mk d) = mk (fold_left (export_step name) c d) /\
    keysD (fold_left (export_step name) c d).
  Proof.
    induction c as [|[k v] c IH]; intros d Hc Hd; cbn [map_keys map fold_left]; [auto|].
    inversion Hc as [|? ? Hk Hc']; subst. cbn [fst] in Hk.
    assert (E : export_step name (mk d) (rho k, v) = mk (export_step name d (k, v))).
    { unfold export_step. cbn [fst snd]. rewrite <- rho_prefix. symmetry. apply mk_set; auto. }
    cbn [fst snd]. rewrite E. apply IH; auto.
    unfold export_step. cbn [fst snd]. apply keysD_set; auto.
  Qed.

  Lemma rssim_export name s1 s2 a b :
    rssim s1 s2 -> rssim a b -> rssim (export_into name (s_symbols s1) a) (export_into name (s_symbols s2) b).
  Proof.
    intros Hs [P Kd T S L C SD LD CD].
    destruct (export_into_fields name (s_symbols s1) a) as (A1 & B1 & C1 & D1 & E1 & F1).
    destruct (export_into_fields name (s_symbols s2) b) as (A2 & B2 & C2 & D2 & E2 & F2).
    destruct (mk_export name (s_symbols s1) (s_symbols a) (rs_symD _ _ Hs) SD) as [M1 M2].
    constructor; try congruence.
    rewrite F2, F1, (rs_sym _ _ Hs), S. exact M1.
  Qed.

  Lemma restore_scope_ren r1 r2 e : rsim r1 r2 -> res_rel rsim (restore_scope r1 e) (restore_scope r2 e).
  Proof.
    intros H. unfold restore_scope. rewrite (rm_cur _ _ H).
    pose proof (Forall2_nth_error _ _ _ (rm_scopes _ _ H) (r_cur r2)) as Hi.
    destruct (nth_error (r_scopes r1) _) as [s1|], (nth_error (r_scopes r2) _) as [s2|]; try contradiction;
      cbn [res_rel]; auto.
    rewrite (rs_parent _ _ Hi), (rs_kind _ _ Hi).
    destruct (s_parent s2) as [p|]; cbn [res_rel]; auto.
    apply rsim_set_cur.
    destruct (s_kind s2); auto. destruct e; auto.
    apply rsim_upd; auto. intros a b Hab. apply rssim_export; auto.
  Qed.

  Lemma set_position_ren w r1 r2 v : rsim r1 r2 -> res_rel rsim (set_position w r1 v) (set_position w r2 v).
  Proof.
    intros H. unfold set_position. rewrite (get_bus_ren w r1 r2 H).
    apply res_rel_bind_same; intros b _. apply res_rel_bind_same; intros a _. apply res_rel_bind_same; intros p _.
    cbn [res_rel]. apply rsim_set_reloc. destruct p; auto using rsim_set_pc.
  Qed.

  Lemma eval_scope_ren r1 r2 ip : rsim r1 r2 -> rsim (eval_scope r1 ip) (eval_scope r2 ip).
  Proof.
    intros H. unfold eval_scope. destruct ip; auto. rewrite (rm_cur _ _ H).
    pose proof (Forall2_nth_error _ _ _ (rm_scopes _ _ H) (r_cur r2)) as Hi.
    destruct (nth_error (r_scopes r1) _) as [s1|], (nth_error (r_scopes r2) _) as [s2|]; try contradiction; auto.
    rewrite (rs_parent _ _ Hi). destruct (s_parent s2); auto using rsim_set_cur.
  Qed.

  (** ** Nodes *)
  Definition operand_ok (o : option expr) : Prop := match o with Some e => expr_ok e | None => True end.

  (** what is asked of a node of the original list: defined names and identifiers are names in
      play; the two names an [.incbin] derives from its path are names in play that [rho] leaves
      alone (they are not renamed in the node list). *)
  Definition node_ok (n : node) : Prop :=
    match n with
    | NLabel name | NSymConst name _ => D name
    | NSymbol name e _ => D name /\ expr_ok e
    | NBinary path _ =>
        D (symbol_base path) /\ D (symbol_base path ++ size_suffix) /\
        rho (symbol_base path) = symbol_base path /\
        rho (symbol_base path ++ size_suffix) = symbol_base path ++ size_suffix
    | NData _ e _ | NCodePos e _ | NReloc e _ => expr_ok e
    | NOpcode _ _ _ o _ _ => operand_ok o
    | _ => True
    end.

  Definition qsim {T} (x y : rstate * T) : Prop := rsim (fst x) (fst y) /\ snd x = snd y.

  Lemma operand_value_ren w r1 r2 o : operand_ok o -> rsim r1 r2 ->
    operand_value w r2 (option_map (rename_expr rho) o) = operand_value w r1 o.
  Proof. intros Ho H. destruct o; cbn [operand_value option_map]; [|reflexivity]. rewrite (get_value_ren w r1 r2 e Ho H). reflexivity. Qed.

  Lemma opcode_length_ren w r1 r2 op m i o sz : operand_ok o -> rsim r1 r2 ->
    opcode_length w r2 op m i (option_map (rename_expr rho) o) sz = opcode_length w r1 op m i o sz.
  Proof. intros Ho H. unfold opcode_length. rewrite (operand_value_ren w r1 r2 o Ho H). reflexivity. Qed.

  Lemma opcode_emit_ren w r1 r2 op m i o sz : operand_ok o -> rsim r1 r2 ->
    opcode_emit w r2 op m i (option_map (rename_expr rho) o) sz = opcode_emit w r1 op m i o sz.
  Proof.
    intros Ho H. unfold opcode_emit, rel_emit, dummy_rc.
    rewrite (operand_value_ren w r1 r2 o Ho H), (get_bus_ren w r1 r2 H), (rm_reloc _ _ H), (rm_pc _ _ H).
    reflexivity.
  Qed.

  Lemma pc_after_ren w r1 r2 n a : node_ok n -> rsim r1 r2 ->
    res_rel qsim (pc_after w r1 n a) (pc_after w r2 (rename_node rho n) a).
  Proof.
    intros Hn H. destruct n; cbn [node_ok rename_node] in *.
    - cbn [pc_after res_rel]. split; cbn [fst snd]; auto using rsim_add_label.
    - destruct Hn as [Hd He].
      change (res_rel qsim (do v <- eval_raw w (eval_scope r1 in_parent) e; Ok (add_symbol r1 name v, a))
                (do v <- eval_raw w (eval_scope r2 in_parent) (rename_expr rho e); Ok (add_symbol r2 (rho name) v, a))).
      rewrite (eval_raw_ren w _ _ e He (eval_scope_ren r1 r2 in_parent H)).
      apply res_rel_bind_same; intros v _. split; cbn [fst snd]; auto using rsim_add_symbol.
    - cbn [pc_after res_rel]. split; cbn [fst snd]; auto using rsim_add_symbol.
    - destruct Hn as (D1 & D2 & E1 & E2). cbn [pc_after]. apply res_rel_bind_same; intros a' _. split; cbn [fst snd]; auto.
      rewrite <- E2 at 2. apply rsim_add_symbol; auto. rewrite <- E1 at 2. apply rsim_add_label; auto.
    - cbn [pc_after]. apply res_rel_bind_same; intros a' _. split; cbn [fst snd]; auto.
    - cbn [pc_after]. rewrite (opcode_length_ren w r1 r2 opcode mode index operand size); auto.
      apply res_rel_bind_same; intros len _. apply res_rel_bind_same; intros a' _. split; cbn [fst snd]; auto.
    - cbn [pc_after]. rewrite (get_value_ren w r1 r2 e Hn H), (get_bus_ren w r1 r2 H).
      apply res_rel_bind_same; intros v _. apply res_rel_bind_same; intros b _. apply res_rel_bind_same; intros a' _.
      split; cbn [fst snd]; auto.
    - cbn [pc_after]. rewrite (get_value_ren w r1 r2 e Hn H), (get_bus_ren w r1 r2 H).
      apply res_rel_bind_same; intros v _. apply res_rel_bind_same; intros b _. apply res_rel_bind_same; intros a' _.
      split; cbn [fst snd]; auto.
    - cbn [pc_after res_rel]. split; cbn [fst snd]; auto.
    - cbn [pc_after]. eapply res_rel_bind; [apply use_next_scope_ren; exact H|]. intros ra rb Hab. split; cbn [fst snd]; auto.
    - cbn [pc_after]. eapply res_rel_bind; [apply restore_scope_ren; exact H|]. intros ra rb Hab. split; cbn [fst snd]; auto.
    - cbn [pc_after res_rel]. split; cbn [fst snd]; auto.
    - cbn [pc_after]. apply res_rel_bind_same; intros bs _. apply res_rel_bind_same; intros a' _. split; cbn [fst snd]; auto.
    - cbn [pc_after]. apply res_rel_bind_same; intros a' _. split; cbn [fst snd]; auto.
  Qed.

  Lemma node_emit_ren w r1 r2 n : node_ok n -> rsim r1 r2 ->
    res_rel qsim (node_emit w r1 n) (node_emit w r2 (rename_node rho n)).
  Proof.
    intros Hn H. destruct n; cbn [node_ok rename_node] in *; cbn [node_emit];
      try (cbn [res_rel]; split; cbn [fst snd]; auto; fail).
    - rewrite (get_value_ren w r1 r2 e Hn H). apply res_rel_bind_same; intros v _. split; cbn [fst snd]; auto.
    - rewrite (opcode_emit_ren w r1 r2 opcode mode index operand size); auto.
      apply res_rel_bind_same; intros bs _. split; cbn [fst snd]; auto.
    - rewrite (get_value_ren w r1 r2 e Hn H). apply res_rel_bind_same; intros v _.
      eapply res_rel_bind; [apply set_position_ren; exact H|]. intros ra rb Hab. split; cbn [fst snd]; auto.
    - rewrite (get_value_ren w r1 r2 e Hn H). apply res_rel_bind_same; intros v _.
      eapply res_rel_bind; [apply set_position_ren; exact H|]. intros ra rb Hab. split; cbn [fst snd]; auto.
    - eapply res_rel_bind; [apply use_next_scope_ren; exact H|]. intros ra rb Hab. split; cbn [fst snd]; auto.
    - eapply res_rel_bind; [apply restore_scope_ren; exact H|]. intros ra rb Hab. split; cbn [fst snd]; auto.
    - apply res_rel_bind_same; intros bs _. split; cbn [fst snd]; auto.
  Qed.

  Record resim (s1 s2 : estate) : Prop := {
    re_r : rsim (e_r s1) (e_r s2);
    re_block : e_block s1 = e_block s2;
    re_baddr : e_baddr s1 = e_baddr s2;
    re_out : e_out s1 = e_out s2
  }.

  Lemma emit_step_ren w s1 s2 n x : node_ok n -> resim s1 s2 ->
    res_rel resim (emit_step w s1 n x) (emit_step w s2 (rename_node rho n) x).
  Proof.
    intros Hn [Hr Hb Ha Ho]. unfold emit_step. rewrite (rm_reloc _ _ Hr).
    destruct (negb _); [reflexivity|].
    eapply res_rel_bind; [apply node_emit_ren; eauto|].
    intros [ra bs] [rb bs'] [Hs Hbs]. cbn [fst snd] in Hs, Hbs. subst bs'.
    eapply res_rel_bind with (R := rsim).
    - destruct bs as [|b0 bs0]; [exact Hs|]. rewrite (rm_reloc _ _ Hs), (rm_pc _ _ Hs).
      apply res_rel_bind_same; intros a' _. cbn [res_rel]. apply rsim_set_reloc, rsim_set_pc, Hs.
    - intros r2a r2b H2. cbn [res_rel]. rewrite Hb, Ha, Ho, (rm_pc _ _ H2).
      destruct n; cbn [rename_node is_codepos]; constructor; cbn [e_r e_block e_baddr e_out]; auto.
  Qed.

  (** ** The passes *)
  Definition lrel (x y : rstate * addr * list Z) : Prop :=
    rsim (fst (fst x)) (fst (fst y)) /\ snd (fst x) = snd (fst y) /\ snd x = snd y.

  Lemma is_symbol_node_ren n : is_symbol_node (rename_node rho n) = is_symbol_node n.
  Proof. destruct n; reflexivity. Qed.
  Lemma is_label_or_binary_ren n : is_label_or_binary (rename_node rho n) = is_label_or_binary n.
  Proof. destruct n; reflexivity. Qed.

  Lemma label_pass_ren w ns : Forall node_ok ns -> forall r1 r2 a acc, rsim r1 r2 ->
    res_rel lrel (label_pass w r1 ns a acc) (label_pass w r2 (rename_nodes rho ns) a acc).
  Proof.
    unfold rename_nodes. induction 1 as [|n ns Hn Hns IH]; intros r1 r2 a acc H; cbn [map label_pass].
    - cbn [res_rel]. unfold lrel. cbn [fst snd]. auto.
    - rewrite is_symbol_node_ren. destruct (is_symbol_node n); [apply IH; auto|].
      eapply res_rel_bind; [apply pc_after_ren; eauto|].
      intros [ra a1] [rb a2] [Hs Ha]. cbn [fst snd] in *. subst a2. apply IH; auto.
  Qed.

  Lemma symbol_pass_ren w ns : Forall node_ok ns -> forall r1 r2 a, rsim r1 r2 ->
    res_rel qsim (symbol_pass w r1 ns a) (symbol_pass w r2 (rename_nodes rho ns) a).
  Proof.
    unfold rename_nodes. induction 1 as [|n ns Hn Hns IH]; intros r1 r2 a H; cbn [map symbol_pass].
    - split; auto.
    - rewrite is_label_or_binary_ren. destruct (is_label_or_binary n); [apply IH; auto|].
      eapply res_rel_bind; [apply pc_after_ren; eauto|].
      intros [ra a1] [rb a2] [Hs Ha]. cbn [fst snd] in *. subst a2. apply IH; auto.
  Qed.

  Lemma emit_loop_ren w ns : Forall node_ok ns -> forall s1 s2 addrs, resim s1 s2 ->
    res_rel resim (emit_loop w s1 ns addrs) (emit_loop w s2 (rename_nodes rho ns) addrs).
  Proof.
    unfold rename_nodes. induction 1 as [|n ns Hn Hns IH]; intros s1 s2 addrs H; cbn [map emit_loop].
    - destruct addrs as [|x [|y l]]; try reflexivity.
      rewrite (rm_reloc _ _ (re_r _ _ H)). destruct (negb _); [reflexivity|exact H].
    - destruct addrs as [|x addrs]; [reflexivity|].
      eapply res_rel_bind; [apply emit_step_ren; eauto|]. intros sa sb Hab. apply IH; auto.
  Qed.

  Lemma resolve_labels_ren w ns r1 r2 : Forall node_ok ns -> rsim r1 r2 ->
    res_rel qsim (resolve_labels w r1 ns) (resolve_labels w r2 (rename_nodes rho ns)).
  Proof.
    intros Hns H. unfold resolve_labels.
    assert (H0 : rsim (set_cur_last r1 (r_cur r1) 0) (set_cur_last r2 (r_cur r2) 0))
      by (rewrite (rm_cur _ _ H); apply rsim_set_cur_last; exact H).
    rewrite (rm_reloc _ _ H0).
    eapply res_rel_bind; [apply label_pass_ren; eauto|].
    intros [[ra a1] l1] [[rb a2] l2] (Hs & Ha & Hl). cbn [fst snd] in Hs, Ha, Hl. subst a2 l2.
    pose proof (rsim_reset _ _ Hs) as Hr. rewrite (rm_reloc _ _ Hr).
    eapply res_rel_bind; [apply symbol_pass_ren; eauto|].
    intros [ra' a1'] [rb' a2'] [Hs' _]. cbn [fst snd] in Hs'. cbn [res_rel].
    split; cbn [fst snd]; [apply rsim_reset; exact Hs'|reflexivity].
  Qed.

  Lemma emit_ren w ns r1 r2 l : Forall node_ok ns -> rsim r1 r2 ->
    res_rel qsim (emit w r1 ns l) (emit w r2 (rename_nodes rho ns) l).
  Proof.
    intros Hns H. unfold emit.
    eapply res_rel_bind.
    - apply emit_loop_ren; eauto. constructor; cbn [e_r e_block e_baddr e_out]; auto. apply (rm_pc _ _ H).
    - intros sa sb [Hr Hb Ha Ho]. cbn [res_rel]. split; cbn [fst snd]; [exact Hr|].
      rewrite Hb, Ha, Ho. reflexivity.
  Qed.

  Lemma all_labels_ren sc1 sc2 : Forall2 rssim sc1 sc2 ->
    flat_map (fun s => match s_kind s with SInternal => [] | _ => s_labels s end) sc2 =
    mk (flat_map (fun s => match s_kind s with SInternal => [] | _ => s_labels s end) sc1).
  Proof.
    unfold map_keys. induction 1 as [|s1 s2 l1 l2 Hs H IH]; cbn [flat_map]; [reflexivity|].
    rewrite map_app, IH, <- (rs_kind _ _ Hs). f_equal.
    destruct (s_kind s1); try reflexivity; apply (rs_lab _ _ Hs).
  Qed.

  Definition orel (o1 o2 : output) : Prop :=
    o_blocks o1 = o_blocks o2 /\ o_labels o2 = mk (o_labels o1) /\ rsim (o_final o1) (o_final o2).

  Theorem assemble_nodes_ren w ns r1 r2 : Forall node_ok ns -> rsim r1 r2 ->
    res_rel orel (assemble_nodes w r1 ns) (assemble_nodes w r2 (rename_nodes rho ns)).
  Proof.
    intros Hns H. unfold assemble_nodes.
    eapply res_rel_bind; [apply resolve_labels_ren; eauto|].
    intros [ra l1] [rb l2] [Hs Hl]. cbn [fst snd] in Hs, Hl |- *. subst l2.
    eapply res_rel_bind; [apply emit_ren; eauto|].
    intros [ra' b1] [rb' b2] [Hs' Hb]. cbn [fst snd] in Hs', Hb |- *. subst b2. cbn [res_rel].
    unfold orel. cbn [o_blocks o_labels o_final]. split; [reflexivity|]. split; [|exact Hs'].
    unfold get_all_labels. apply all_labels_ren. apply (rm_scopes _ _ Hs').
  Qed.

  (** a start state all of whose keys are names in play that [rho] leaves alone is related to itself *)
  Definition keys_fixed {V} (d : dict V) : Prop := Forall (fun kv => D (fst kv) /\ rho (fst kv) = fst kv) d.
  Lemma keys_fixed_mk {V} (d : dict V) : keys_fixed d -> mk d = d /\ keysD d.
  Proof.
    induction 1 as [|[k v] d [Hk Hr] H [IH1 IH2]]; cbn [map_keys map fst snd]; [split; [reflexivity|constructor]|].
    cbn [fst] in *. unfold map_keys in IH1. rewrite Hr, IH1. split; [reflexivity|constructor; auto].
  Qed.
  Definition state_fixed (r : rstate) : Prop :=
    Forall (fun s => keys_fixed (s_symbols s) /\ keys_fixed (s_labels s) /\ keys_fixed (s_code s)) (r_scopes r).
  Lemma rsim_refl r : state_fixed r -> rsim r r.
  Proof.
    intros H. constructor; auto. unfold state_fixed in H.
    induction H as [|s l (A & B & C) H IH]; constructor; auto.
    destruct (keys_fixed_mk _ A), (keys_fixed_mk _ B), (keys_fixed_mk _ C). constructor; auto.
  Qed.
End Ren.

(** ** The instance: z |-> z', p.z |-> p.z' *)
Lemma str_eqb_length a b : length a <> length b -> str_eqb a b = false.
Proof.
  intros H. destruct (str_eqb a b) eqn:E; [|reflexivity]. apply str_eqb_eq in E. subst. congruence.
Qed.

(** with a dot-free [x], a qualified name is x-derived only when its last part is *)
Lemma derived_prefix_inv x name k : ~ In 46 x -> K x (name ++ dot ++ k) -> K x k.
Proof.
  unfold K, dot. intros Hx [E|(p & E)].
  - exfalso. apply Hx. rewrite <- E. apply in_or_app. right. left. reflexivity.
  - replace (name ++ [46] ++ k) with ((name ++ [46]) ++ k) in E by (rewrite <- app_assoc; reflexivity).
    replace (p ++ [46] ++ x) with ((p ++ [46]) ++ x) in E by (rewrite <- app_assoc; reflexivity).
    apply app_eq_app in E. destruct E as (l & [[E1 E2]|[E1 E2]]).
    + destruct l as [|c l]; [left; rewrite E2; reflexivity|]. exfalso.
      destruct (exists_last (l := c :: l)) as (l' & a & El); [discriminate|]. rewrite El in *.
      rewrite app_assoc in E1. apply app_inj_tail in E1 as [_ <-].
      apply Hx. rewrite E2. apply in_or_app. left. apply in_or_app. right. left. reflexivity.
    + destruct l as [|c l]; [left; rewrite E2; reflexivity|]. right.
      destruct (exists_last (l := c :: l)) as (l' & a & El); [discriminate|]. rewrite El in *.
      rewrite app_assoc in E1. apply app_inj_tail in E1 as [_ <-].
      exists l'. rewrite E2, <- app_assoc. reflexivity.
Qed.

Section RenZ.
  Variables z z' : str.

  Fixpoint ren_suf (n : str) : str :=
    if str_eqb n (dot ++ z) then dot ++ z'
    else match n with [] => [] | c :: n' => c :: ren_suf n' end.
  Definition ren (n : str) : str := if str_eqb n z then z' else ren_suf n.

  Lemma ren_suf_unfold n :
    ren_suf n = if str_eqb n (dot ++ z) then dot ++ z' else match n with [] => [] | c :: n' => c :: ren_suf n' end.
  Proof. destruct n; reflexivity. Qed.

  Lemma ren_suf_q p : ren_suf (p ++ dot ++ z) = p ++ dot ++ z'.
  Proof.
    induction p as [|c p IH]; rewrite ren_suf_unfold.
    - cbn [app]. rewrite str_eqb_refl. reflexivity.
    - rewrite str_eqb_length by (cbn [app length]; rewrite !app_length; cbn [length]; lia).
      cbn [app]. rewrite IH. reflexivity.
  Qed.

  Lemma ren_suf_id n : (forall p, n <> p ++ dot ++ z) -> ren_suf n = n.
  Proof.
    induction n as [|c n IH]; intros H; rewrite ren_suf_unfold.
    - destruct (str_eqb [] (dot ++ z)) eqn:E; [|reflexivity]. apply str_eqb_eq in E. discriminate.
    - destruct (str_eqb (c :: n) (dot ++ z)) eqn:E.
      + apply str_eqb_eq in E. exfalso. apply (H []). exact E.
      + f_equal. apply IH. intros p Hp. apply (H (c :: p)). cbn [app]. rewrite Hp. reflexivity.
  Qed.

  Lemma ren_z : ren z = z'.
  Proof. unfold ren. rewrite str_eqb_refl. reflexivity. Qed.
  Lemma ren_q p : ren (p ++ dot ++ z) = p ++ dot ++ z'.
  Proof.
    unfold ren. rewrite str_eqb_length by (rewrite !app_length; cbn [length dot]; lia). apply ren_suf_q.
  Qed.
  Lemma ren_id n : ~ K z n -> ren n = n.
  Proof.
    intros H. unfold ren. destruct (str_eqb n z) eqn:E.
    - apply str_eqb_eq in E. exfalso. apply H. left. exact E.
    - apply ren_suf_id. intros p Hp. apply H. right. exists p. exact Hp.
  Qed.

  Lemma K_dec n : K z n \/ ~ K z n.
  Proof. destruct (inK z n) eqn:E; [left; apply inK_spec; exact E|right; intros H; apply inK_spec in H; congruence]. Qed.

  (** a z-derived name is renamed to a z'-derived one *)
  Lemma ren_derived n : K z n -> K z' (ren n).
  Proof. intros [->|(p & ->)]; [rewrite ren_z; left; reflexivity|rewrite ren_q; right; exists p; reflexivity]. Qed.

  Hypothesis z_nodot : ~ In 46 z.
  Hypothesis z'_nodot : ~ In 46 z'.

  Lemma ren_prefix name k : ren (name ++ dot ++ k) = name ++ dot ++ ren k.
  Proof.
    destruct (K_dec k) as [[->|(p & ->)]|N].
    - rewrite ren_z. apply ren_q.
    - rewrite ren_q. replace (name ++ dot ++ p ++ dot ++ z) with ((name ++ dot ++ p) ++ dot ++ z)
        by (rewrite <- !app_assoc; reflexivity).
      rewrite ren_q, <- !app_assoc. reflexivity.
    - rewrite (ren_id k N). apply ren_id. intros H. apply N. eapply derived_prefix_inv; eauto.
  Qed.

  (** the names in play: everything that is not z'-derived *)
  Definition inD (n : str) : Prop := inK z' n = false.

  Lemma inD_not n : inD n -> ~ K z' n.
  Proof. unfold inD. intros H Hk. apply inK_spec in Hk. congruence. Qed.

  Lemma ren_inj a b : inD a -> inD b -> ren a = ren b -> a = b.
  Proof.
    intros Ha Hb E. apply inD_not in Ha. apply inD_not in Hb.
    destruct (K_dec a) as [Ka|Na], (K_dec b) as [Kb|Nb].
    - destruct Ka as [->|(p & ->)], Kb as [->|(q & ->)]; auto; rewrite ?ren_z, ?ren_q in E.
      + exfalso. apply (f_equal (@length Z)) in E. rewrite !app_length in E. cbn [length dot] in E. lia.
      + exfalso. apply (f_equal (@length Z)) in E. rewrite !app_length in E. cbn [length dot] in E. lia.
      + apply app_inv_tail in E. subst. reflexivity.
    - exfalso. apply Hb. rewrite (ren_id b Nb) in E. rewrite <- E. apply ren_derived. exact Ka.
    - exfalso. apply Ha. rewrite (ren_id a Na) in E. rewrite E. apply ren_derived. exact Kb.
    - rewrite (ren_id a Na), (ren_id b Nb) in E. exact E.
  Qed.

  Lemma inD_prefix name k : inD k -> inD (name ++ dot ++ k).
  Proof.
    unfold inD. intros H. destruct (inK z' (name ++ dot ++ k)) eqn:E; [|reflexivity].
    apply inK_spec in E. apply derived_prefix_inv in E; auto. apply inK_spec in E. congruence.
  Qed.

  (** ** Boolean side conditions *)
  (** neither z- nor z'-derived: a name of the start state, or one of the two names of an [.incbin] *)
  Definition untouched (n : str) : bool := negb (inK z n) && negb (inK z' n).
  Lemma untouched_spec n : untouched n = true -> inD n /\ ren n = n.
  Proof.
    unfold untouched, inD. intros H. apply andb_prop in H as [A B].
    destruct (inK z n) eqn:E1; [discriminate|]. destruct (inK z' n) eqn:E2; [discriminate|].
    split; [reflexivity|]. apply ren_id. intros Hk. apply inK_spec in Hk. congruence.
  Qed.

  Definition expr_okb (e : expr) : bool :=
    ident_terms e &&
    forallb (fun t => match en_type t with T_IDENTIFIER => negb (inK z' (en_val t)) | _ => true end) e.
  Lemma expr_okb_spec e : expr_okb e = true -> expr_ok inD e.
  Proof.
    unfold expr_okb, expr_ok. intros H. apply andb_prop in H as [A B]. split; [exact A|].
    apply Forall_forall. intros t Ht Hty. rewrite forallb_forall in B. specialize (B t Ht).
    rewrite Hty in B. unfold inD. destruct (inK z' (en_val t)); [discriminate|reflexivity].
  Qed.

  Definition node_okb (n : node) : bool :=
    match n with
    | NLabel name | NSymConst name _ => negb (inK z' name)
    | NSymbol name e _ => negb (inK z' name) && expr_okb e
    | NBinary path _ => untouched (symbol_base path) && untouched (symbol_base path ++ size_suffix)
    | NData _ e _ | NCodePos e _ | NReloc e _ => expr_okb e
    | NOpcode _ _ _ (Some e) _ _ => expr_okb e
    | _ => true
    end.
  Lemma node_okb_spec n : node_okb n = true -> node_ok ren inD n.
  Proof.
    destruct n; cbn [node_okb node_ok]; auto using expr_okb_spec.
    - unfold inD. destruct (inK z' name); [discriminate|reflexivity].
    - intros H. apply andb_prop in H as [A B]. split; [|apply expr_okb_spec; exact B].
      unfold inD. destruct (inK z' name); [discriminate|reflexivity].
    - unfold inD. destruct (inK z' name); [discriminate|reflexivity].
    - intros H. apply andb_prop in H as [A B].
      destruct (untouched_spec _ A), (untouched_spec _ B). auto.
    - destruct operand; cbn [operand_ok]; auto using expr_okb_spec.
  Qed.

  (** [ren_fresh ns]: z' is fresh for the node list *)
  Definition ren_fresh (ns : list node) : bool := forallb node_okb ns.

  (** [state_untouched r]: no key of any dictionary of the start state is z- or z'-derived *)
  Definition keys_untouched {V} (d : dict V) : bool := forallb (fun kv => untouched (fst kv)) d.
  Definition state_untouched (r : rstate) : bool :=
    forallb (fun s => keys_untouched (s_symbols s) && keys_untouched (s_labels s) && keys_untouched (s_code s))
            (r_scopes r).

  Lemma keys_untouched_spec {V} (d : dict V) : keys_untouched d = true -> keys_fixed ren inD d.
  Proof.
    unfold keys_untouched, keys_fixed. intros H. apply Forall_forall. intros kv Hkv.
    rewrite forallb_forall in H. apply untouched_spec. apply H. exact Hkv.
  Qed.
  Lemma state_untouched_spec r : state_untouched r = true -> state_fixed ren inD r.
  Proof.
    unfold state_untouched, state_fixed. intros H. apply Forall_forall. intros s Hs.
    rewrite forallb_forall in H. specialize (H s Hs). apply andb_prop in H as [H C]. apply andb_prop in H as [A B].
    auto using keys_untouched_spec.
  Qed.
End RenZ.

Definition nodot (x : str) : bool := negb (mem_z 46 x).
Lemma nodot_spec x : nodot x = true -> ~ In 46 x.
Proof.
  unfold nodot, mem_z. intros H Hin. destruct (existsb (Z.eqb 46) x) eqn:E; [discriminate|].
  assert (existsb (Z.eqb 46) x = true) by (apply existsb_exists; exists 46; split; [exact Hin|reflexivity]).
  congruence.
Qed.

(** C08, renaming.  [z'] is dot-free and fresh: no name the list defines, no identifier of its
    expressions and no key of the start state is z'-derived.  [z] is dot-free, and the start state
    and the [.incbin] names (which are not renamed) are not z-derived either.  Then renaming z to
    z' throughout the node list leaves the writer blocks (and the kind of failure) unchanged, and
    the labels are the original labels with renamed keys. *)
Theorem renaming w r z z' ns :
  nodot z = true -> nodot z' = true ->
  ren_fresh z z' ns = true -> state_untouched z z' r = true ->
  match assemble_nodes w r ns, assemble_nodes w r (rename_nodes (ren z z') ns) with
  | Ok o1, Ok o2 => o_blocks o2 = o_blocks o1 /\ o_labels o2 = map_keys (ren z z') (o_labels o1)
  | Err j, Err k => j = k
  | OutOfFuel, OutOfFuel => True
  | _, _ => False
  end.
Proof.
  intros Hz Hz' Hns Hr. apply nodot_spec in Hz. apply nodot_spec in Hz'.
  assert (Hok : Forall (node_ok (ren z z') (inD z')) ns).
  { apply Forall_forall. intros n Hn. apply node_okb_spec. unfold ren_fresh in Hns. rewrite forallb_forall in Hns. auto. }
  pose proof (assemble_nodes_ren (ren z z') (inD z') (ren_inj z z') (inD_prefix z' Hz') (ren_prefix z z' Hz)
                w ns r r Hok (rsim_refl _ _ r (state_untouched_spec z z' r Hr))) as H.
  destruct (assemble_nodes w r ns), (assemble_nodes w r (rename_nodes (ren z z') ns)); cbn [res_rel] in H; auto.
  destruct H as (A & B & _). auto.
Qed.

(** ** Non-vacuity and necessity of the hypotheses (the world of [NIExamples]) *)
Module RenExamples.
  Import NIExamples.
  Notation x := [120]. Notation y := [121]. Notation s_x := [115; 46; 120]. Notation s_y := [115; 46; 121].

  (** a label defined in the named scope "s", used inside it as [x] and after it as [s.x] *)
  Definition ns1 := [NCodePos num8000 fi; NScope; NLabel x; NData D_dw (ident x) fi; NPop; NData D_dw (ident s_x) fi].
  Example hyps1 : (nodot x, nodot y, ren_fresh x y ns1, state_untouched x y ex_r) = (true, true, true, true).
  Proof. reflexivity. Qed.
  Example renamed1 :
    rename_nodes (ren x y) ns1 =
    [NCodePos num8000 fi; NScope; NLabel y; NData D_dw (ident y) fi; NPop; NData D_dw (ident s_y) fi].
  Proof. reflexivity. Qed.
  Example original1 : view (assemble_nodes ex_world ex_r ns1) = Ok ([([0; 128; 0; 128], 0)], [(x, 32768)]).
  Proof. vm_compute. reflexivity. Qed.
  Example after1 : view (assemble_nodes ex_world ex_r (rename_nodes (ren x y) ns1)) = Ok ([([0; 128; 0; 128], 0)], [(y, 32768)]).
  Proof. vm_compute. reflexivity. Qed.

  (** capture: when the new name is already in use, the renamed inner definition shadows it *)
  Definition ns2 := [NSymConst y 1; NScope; NSymConst x 2; NData D_db (ident y) fi; NPop].
  Example not_fresh2 : ren_fresh x y ns2 = false. Proof. reflexivity. Qed.
  Example original2 : view (assemble_nodes ex_world ex_r ns2) = Ok ([([1], 0)], []).
  Proof. vm_compute. reflexivity. Qed.
  Example after2 : view (assemble_nodes ex_world ex_r (rename_nodes (ren x y) ns2)) = Ok ([([2], 0)], []).
  Proof. vm_compute. reflexivity. Qed.

  (** the start state must not bind the old name either (it is not renamed): *)
  Definition ex_r3 := add_symbol ex_r x 5.
  Definition ns3 := [NData D_db (ident x) fi].
  Example hyps3 : (ren_fresh x y ns3, state_untouched x y ex_r3) = (true, false). Proof. reflexivity. Qed.
  Example original3 : view (assemble_nodes ex_world ex_r3 ns3) = Ok ([([5], 0)], []).
  Proof. vm_compute. reflexivity. Qed.
  Example after3 : view (assemble_nodes ex_world ex_r3 (rename_nodes (ren x y) ns3)) = Err ENode.
  Proof. vm_compute. reflexivity. Qed.
End RenExamples.

Print Assumptions renaming.
Print Assumptions assemble_nodes_ren.
