(** C08 renaming at the level of programs ([assemble_ast]).

    [rename_ast rho] renames every name that is a key of a resolver dictionary — labels, [=] / [:=]
    symbols, macro parameters, loop variables, spliced names — and every identifier token of every
    expression, recursively through bodies, macro bodies and code-block arguments.  Macro names and
    scope names are not renamed (they are not dictionary keys).

    [code_gen_ren]: code generation of the renamed program from a renamed state gives the renamed
    node list and a renamed state ([rsim] of Proofs/Renaming.v); [assemble_nodes_ren] does the
    passes.  Restriction: the code-block ARGUMENTS of macro applications must be invariant under
    the renaming ([rsim] relates code dictionaries by their keys only, so the blocks stored in them
    must be the same on both sides). *)
From Coq Require Import ZArith List Lia Bool Arith.
From A816 Require Import Model.Codegen Proofs.BusProofs Proofs.ResolverProofs Proofs.EvalCongr
     Proofs.RenamingExpr Proofs.CodegenProofs Proofs.NonInterference Proofs.Renaming.
Open Scope Z_scope.

Section AllP.
  Context {A : Type} (P : A -> Prop).
  Fixpoint allP (l : list A) : Prop := match l with [] => True | x :: r => P x /\ allP r end.
  Lemma allP_Forall l : allP l -> Forall P l.
  Proof. induction l as [|x l IH]; cbn [allP]; [constructor|]. intros [H1 H2]. constructor; auto. Qed.
End AllP.

Section RenameAst.
  Variable rho : str -> str.
  Notation re := (rename_expr rho).

  Fixpoint rename_ast (a : ast) : ast :=
    match a with
    | ABlock b fi => ABlock (map rename_ast b) fi
    | ACompound b fi => ACompound (map rename_ast b) fi
    | ALabel name fi => ALabel (rho name) fi
    | AScope name b bfi fi => AScope name (map rename_ast b) bfi fi
    | AStarEq e fi => AStarEq (re e) fi
    | AAtEq e fi => AAtEq (re e) fi
    | AIf c th thfi el fi =>
        AIf (re c) (map rename_ast th) thfi
            (match el with Some (eb, efi) => Some (map rename_ast eb, efi) | None => None end) fi
    | AMacro name params b bfi fi => AMacro name (map rho params) (map rename_ast b) bfi fi
    | AMacroApply name args fi =>
        AMacroApply name (map (fun x => match x with
                                        | inl e => inl (re e)
                                        | inr (b, bfi) => inr (map rename_ast b, bfi)
                                        end) args) fi
    | AData k data fi => AData k (map re data) fi
    | AIncludeIps path e fi => AIncludeIps path (re e) fi
    | ASymbol name e fi => ASymbol (rho name) (re e) fi
    | AAssign name e fi => AAssign (rho name) (re e) fi
    | ACodeLookup name fi => ACodeLookup (rho name) fi
    | AFor v lo hi b bfi fi => AFor (rho v) (re lo) (re hi) (map rename_ast b) bfi fi
    | AOpcode mode opcode size operand index fi => AOpcode mode opcode size (option_map re operand) index fi
    | _ => a
    end.
  Definition rename_prog (prog : list ast) : list ast := map rename_ast prog.
  Definition rename_arg (x : expr + (list ast * token)) : expr + (list ast * token) :=
    match x with inl e => inl (re e) | inr (b, bfi) => inr (map rename_ast b, bfi) end.

  Variable D : str -> Prop.
  Hypothesis rho_inj : forall a b, D a -> D b -> rho a = rho b -> a = b.
  Hypothesis D_prefix : forall name k, D k -> D (name ++ dot ++ k).
  Hypothesis rho_prefix : forall name k, rho (name ++ dot ++ k) = name ++ dot ++ rho k.

  (** what is asked of the original program: every defined / bound / spliced name and every
      identifier is a name in play, identifiers are operands, the names an [.incbin] derives are
      left alone, code-block arguments are invariant under the renaming *)
  Fixpoint aok (a : ast) : Prop :=
    match a with
    | ABlock b _ | ACompound b _ | AScope _ b _ _ => allP aok b
    | ALabel name _ | ACodeLookup name _ => D name
    | AStarEq e _ | AAtEq e _ | AIncludeIps _ e _ => expr_ok D e
    | ASymbol name e _ | AAssign name e _ => D name /\ expr_ok D e
    | AIf c th _ el _ =>
        expr_ok D c /\ allP aok th /\ match el with Some (eb, _) => allP aok eb | None => True end
    | AMacro _ params b _ _ => allP D params /\ allP aok b
    | AMacroApply _ args _ =>
        allP (fun x => match x with
                       | inl e => expr_ok D e
                       | inr (b, _) => allP aok b /\ map rename_ast b = b
                       end) args
    | AData _ data _ => allP (expr_ok D) data
    | AFor v lo hi b _ _ => D v /\ expr_ok D lo /\ expr_ok D hi /\ allP aok b
    | AOpcode _ _ _ operand _ _ => operand_ok D operand
    | AIncbin path _ =>
        D (symbol_base path) /\ D (symbol_base path ++ size_suffix) /\
        rho (symbol_base path) = symbol_base path /\
        rho (symbol_base path ++ size_suffix) = symbol_base path ++ size_suffix
    | _ => True
    end.
  Definition prog_ok (prog : list ast) : Prop := allP aok prog.
  Definition arg_ok (x : expr + (list ast * token)) : Prop :=
    match x with inl e => expr_ok D e | inr (b, _) => allP aok b /\ map rename_ast b = b end.

  (** ** Code blocks bound in the (original) resolver state: well-formed and invariant *)
  Definition cval_ok (c : list ast * token) : Prop := allP aok (fst c) /\ map rename_ast (fst c) = fst c.
  Definition code_inv (r : rstate) : Prop :=
    Forall (fun s => Forall (fun kv => cval_ok (snd kv)) (s_code s)) (r_scopes r).

  Lemma value_for_fuel_cinv scopes q b fi :
    Forall (fun s => Forall (fun kv => cval_ok (snd kv)) (s_code s)) scopes ->
    forall fuel i, value_for_fuel scopes fuel i q = Ok (VCode b fi) -> cval_ok (b, fi).
  Proof.
    intros Hc fuel; induction fuel as [|fuel IH]; intros i; cbn [value_for_fuel]; [discriminate|].
    destruct (nth_error scopes i) as [s|] eqn:Hn; [|discriminate].
    assert (Hs : scope_getitem s q = Ok (VCode b fi) -> cval_ok (b, fi)).
    { unfold scope_getitem. destruct (dict_get (s_code s) q) as [[b' fi']|] eqn:E.
      - intros X; inversion X; subst. apply dict_get_in in E as (k' & _ & Hin).
        rewrite Forall_forall in Hc. specialize (Hc s (nth_error_In _ _ Hn)).
        rewrite Forall_forall in Hc. apply (Hc _ Hin).
      - destruct (dict_get (s_symbols s) q); discriminate. }
    destruct (s_parent s); [|exact Hs]. destruct (_ || _); [exact Hs|apply IH].
  Qed.

  Lemma ci_upd r k f : (forall s, s_code (f s) = s_code s) -> code_inv r -> code_inv (upd_scope r k f).
  Proof.
    intros Hf H. unfold code_inv, upd_scope in *. cbn [set_scopes r_scopes].
    apply Forall_list_update; auto. intros s Hs. rewrite Hf. exact Hs.
  Qed.
  Lemma ci_add_code r q c : cval_ok c -> code_inv r -> code_inv (add_code r q c).
  Proof.
    intros Hb H. unfold code_inv, add_code, upd_scope in *. cbn [set_scopes r_scopes].
    apply Forall_list_update; auto. intros s Hs. cbn [scope_add_code s_code].
    induction Hs as [|[k' v'] d Hx Hd IH]; cbn [dict_set]; [constructor; auto|].
    destruct (str_eqb q k'); constructor; auto.
  Qed.
  Lemma ci_enter r k ra : code_inv r -> enter_scope r k = Ok ra -> code_inv ra.
  Proof.
    unfold enter_scope, use_next_scope, append_scope. cbn [set_scopes r_scopes r_last]. intros H.
    destruct (nth_error _ _); [|discriminate]. intros E; inversion E; subst.
    unfold code_inv in *. cbn [set_cur_last set_scopes r_scopes]. apply Forall_app. split; [exact H|].
    constructor; [constructor|constructor].
  Qed.
  Lemma ci_restore r e ra : code_inv r -> restore_scope r e = Ok ra -> code_inv ra.
  Proof.
    intros H. unfold restore_scope. destruct (nth_error _ _) as [s|]; [|discriminate].
    destruct (s_parent s) as [p|]; [|discriminate]. intros E; inversion E; subst; clear E.
    change (code_inv (set_cur ?x p)) with (code_inv x).
    destruct (s_kind s); auto. destruct e; auto.
    apply ci_upd; auto. intros s0. apply (export_into_fields name (s_symbols s) s0).
  Qed.

  (** ** More of [rsim] *)
  Notation rsim := (rsim rho D).
  Notation rssim := (rssim rho D).

  Lemma rssim_add_code q c a b : D q -> rssim a b -> rssim (scope_add_code q c a) (scope_add_code (rho q) c b).
  Proof.
    intros Hq [P Kd T S L C SD LD CD];
      constructor; cbn [scope_add_code s_parent s_kind s_code s_table s_symbols s_labels]; auto.
    - rewrite C. symmetry. apply (mk_set rho D rho_inj); auto.
    - apply keysD_set; auto.
  Qed.
  Lemma rssim_set_table t a b : rssim a b -> rssim (scope_set_table t a) (scope_set_table t b).
  Proof. intros [P Kd T S L C SD LD CD]; constructor; cbn [scope_set_table s_parent s_kind s_code s_table s_symbols s_labels]; auto. Qed.
  Lemma rsim_add_code r1 r2 q c : D q -> rsim r1 r2 -> rsim (add_code r1 q c) (add_code r2 (rho q) c).
  Proof. intros Hq H. unfold add_code. rewrite (rm_cur _ _ _ _ H). apply rsim_upd; auto using rssim_add_code. Qed.
  Lemma rsim_set_bus r1 r2 b : rsim r1 r2 -> rsim (set_bus r1 b) (set_bus r2 b).
  Proof. intros []; constructor; auto. Qed.

  Lemma enter_scope_ren r1 r2 k : rsim r1 r2 -> res_rel rsim (enter_scope r1 k) (enter_scope r2 k).
  Proof.
    intros H. unfold enter_scope. apply use_next_scope_ren. unfold append_scope. rewrite (rm_cur _ _ _ _ H).
    destruct H; constructor; cbn [set_scopes r_scopes r_cur r_last r_pc r_reloc r_bus r_rom]; auto.
    apply Forall2_app; auto. constructor; [|constructor].
    constructor; cbn [new_scope s_parent s_kind s_code s_table s_symbols s_labels]; auto; constructor.
  Qed.

  Lemma get_table_fuel_ren sc1 sc2 : Forall2 rssim sc1 sc2 -> forall fuel i,
    get_table_fuel sc1 fuel i = get_table_fuel sc2 fuel i.
  Proof.
    intros H fuel; induction fuel as [|fuel IH]; intros i; [reflexivity|]. cbn [get_table_fuel].
    pose proof (Forall2_nth_error _ _ _ H i) as Hi.
    destruct (nth_error sc1 i) as [a|], (nth_error sc2 i) as [b|]; try contradiction; [|reflexivity].
    rewrite (rs_table _ _ _ _ Hi), (rs_parent _ _ _ _ Hi). destruct (s_table b); [reflexivity|].
    destruct (s_parent b); [apply IH|reflexivity].
  Qed.
  Lemma get_table_ren r1 r2 : rsim r1 r2 -> get_table r1 = get_table r2.
  Proof. intros H. unfold get_table. rewrite (rm_cur _ _ _ _ H). apply get_table_fuel_ren. apply (rm_scopes _ _ _ _ H). Qed.

  Lemma generate_map_ren r1 r2 a : rsim r1 r2 -> code_inv r1 ->
    res_rel (fun x y => rsim x y /\ code_inv x) (generate_map r1 a) (generate_map r2 a).
  Proof.
    intros H Hc. unfold generate_map. rewrite (rm_bus _ _ _ _ H).
    destruct (ma_identifier a) as [id|]; [|reflexivity].
    destruct (ma_bank_range a) as [[lo [hi|]]|]; try reflexivity;
    destruct (ma_addr_range a) as [ar|]; try reflexivity;
    destruct (ma_mask a) as [[mask [mh|]]|]; try reflexivity.
    destruct (ma_mirror_bank_range a) as [[m0 [m1|]]|].
    - apply res_rel_bind_same; intros b _. cbn [res_rel]. split; [apply rsim_set_bus, H|exact Hc].
    - destruct (m0 =? 0); [|reflexivity].
      apply res_rel_bind_same; intros b _. cbn [res_rel]. split; [apply rsim_set_bus, H|exact Hc].
    - apply res_rel_bind_same; intros b _. cbn [res_rel]. split; [apply rsim_set_bus, H|exact Hc].
  Qed.

  Lemma value_for_ren r1 r2 q : D q -> rsim r1 r2 -> value_for r2 (rho q) = value_for r1 q.
  Proof.
    intros Hq H. unfold value_for. rewrite <- (rm_cur _ _ _ _ H).
    apply (value_for_fuel_ren rho D rho_inj); auto. apply (rm_scopes _ _ _ _ H).
  Qed.

  Lemma if_condition_ren w r1 r2 c : expr_ok D c -> rsim r1 r2 -> if_condition w r2 (re c) = if_condition w r1 c.
  Proof. intros Hc H. unfold if_condition. rewrite (eval_raw_ren rho D rho_inj w r1 r2 c Hc H). reflexivity. Qed.

  (** ** Macro arguments *)
  Definition rename_argval (v : argval) : argval :=
    match v with AVInt x => AVInt x | AVCode b fi => AVCode (map rename_ast b) fi | AVDeferred e => AVDeferred (re e) end.
  Definition rename_bound (bs : list (str * argval)) : list (str * argval) :=
    map (fun pv => (rho (fst pv), rename_argval (snd pv))) bs.

  Lemma eval_macro_args_ren w r1 r2 : rsim r1 r2 -> forall ps args, allP arg_ok args ->
    eval_macro_args w r2 (map rho ps) (map rename_arg args) = rmap rename_bound (eval_macro_args w r1 ps args).
  Proof.
    intros H. induction ps as [|p ps IH]; intros args Ha; cbn [map eval_macro_args]; [reflexivity|].
    destruct args as [|a rest]; [reflexivity|]. cbn [allP] in Ha. destruct Ha as [Ha Hr]. cbn [map].
    rewrite (IH rest Hr). destruct a as [e|[body fi]]; cbn [rename_arg arg_ok] in *.
    - rewrite (eval_raw_ren rho D rho_inj w r1 r2 e Ha H).
      destruct (eval_raw w r1 e) as [v|[]|]; cbn [bind rmap]; try reflexivity;
        destruct (eval_macro_args w r1 ps rest) as [tl| |]; cbn [bind rmap]; reflexivity.
    - cbn [bind]. destruct (eval_macro_args w r1 ps rest) as [tl| |]; cbn [bind rmap]; reflexivity.
  Qed.

  Definition bound_ok (bs : list (str * argval)) : Prop :=
    allP (fun pv => D (fst pv) /\ match snd pv with
                                  | AVInt _ => True
                                  | AVCode b fi => cval_ok (b, fi)
                                  | AVDeferred e => expr_ok D e
                                  end) bs.
  Lemma eval_macro_args_ok w r : forall ps args bs, allP D ps -> allP arg_ok args ->
    eval_macro_args w r ps args = Ok bs -> bound_ok bs.
  Proof.
    induction ps as [|p ps IH]; intros args bs Hp Ha; cbn [eval_macro_args].
    - intros X; inversion X; exact I.
    - destruct args as [|a rest]; [discriminate|]. cbn [allP] in Hp, Ha. destruct Hp as [Hp Hps], Ha as [Ha Hr].
      destruct a as [e|[body fi]]; cbn [arg_ok] in Ha.
      + destruct (eval_raw w r e) as [v|[]|]; cbn [bind]; try discriminate;
          (destruct (eval_macro_args w r ps rest) as [tl| |] eqn:E; cbn [bind]; try discriminate;
           intros X; inversion X; subst; split; [cbn [fst snd]; auto|eapply IH; eauto]).
      + cbn [bind]. destruct (eval_macro_args w r ps rest) as [tl| |] eqn:E; cbn [bind]; try discriminate.
        intros X; inversion X; subst. split; [cbn [fst snd]; auto|eapply IH; eauto].
  Qed.

  Lemma bind_macro_args_ren bs : bound_ok bs -> forall r1 r2, rsim r1 r2 -> code_inv r1 ->
    rsim (fst (bind_macro_args r1 bs)) (fst (bind_macro_args r2 (rename_bound bs))) /\
    code_inv (fst (bind_macro_args r1 bs)) /\
    snd (bind_macro_args r2 (rename_bound bs)) = rename_nodes rho (snd (bind_macro_args r1 bs)) /\
    Forall (node_ok rho D) (snd (bind_macro_args r1 bs)).
  Proof.
    induction bs as [|[p v] bs IH]; intros Hb r1 r2 H Hc; cbn [rename_bound map bind_macro_args fst snd].
    - refine (conj H (conj Hc (conj eq_refl (Forall_nil _)))).
    - cbn [bound_ok allP fst snd] in Hb. destruct Hb as [[Hp Hv] Hbs]. fold (rename_bound bs).
      destruct v as [x|body fi|e]; cbn [rename_argval].
      + apply IH; auto using (rsim_add_symbol rho D rho_inj). apply ci_upd; auto.
      + destruct Hv as [Hv1 Hv2]. cbn [fst] in Hv2. rewrite Hv2.
        apply IH; auto using rsim_add_code. apply ci_add_code; auto. split; auto.
      + destruct (IH Hbs r1 r2 H Hc) as (A & B & C' & E).
        destruct (bind_macro_args r1 bs) as [ra na], (bind_macro_args r2 (rename_bound bs)) as [rb nb].
        cbn [fst snd] in *. subst nb. refine (conj A (conj B (conj eq_refl _))).
        constructor; auto. cbn [node_ok]. auto.
  Qed.

  (** ** Code generation *)
  Definition mdrel (m1 m2 : macrodef) : Prop :=
    md_params m2 = map rho (md_params m1) /\ md_body m2 = map rename_ast (md_body m1) /\
    allP D (md_params m1) /\ allP aok (md_body m1).
  Definition mrel (t1 t2 : dict macrodef) : Prop :=
    Forall2 (fun kv1 kv2 => fst kv1 = fst kv2 /\ mdrel (snd kv1) (snd kv2)) t1 t2.

  Lemma mrel_get t1 t2 k : mrel t1 t2 ->
    match dict_get t1 k, dict_get t2 k with
    | Some a, Some b => mdrel a b
    | None, None => True
    | _, _ => False
    end.
  Proof.
    induction 1 as [|[k1 m1] [k2 m2] t1 t2 [E Hm] H IH]; cbn [dict_get]; auto.
    cbn [fst snd] in *. subst k2. destruct (str_eqb k k1); auto.
  Qed.
  Lemma mrel_set t1 t2 k m1 m2 : mrel t1 t2 -> mdrel m1 m2 -> mrel (dict_set t1 k m1) (dict_set t2 k m2).
  Proof.
    intros H Hm. induction H as [|[k1 a1] [k2 a2] t1 t2 [E Ha] H IH]; cbn [dict_set].
    - constructor; [split; auto|constructor].
    - cbn [fst snd] in *. subst k2. destruct (str_eqb k k1); constructor; auto; split; auto.
  Qed.

  Definition cgren (s1 s2 : cgstate) : Prop :=
    rsim (cg_r s1) (cg_r s2) /\ mrel (cg_macros s1) (cg_macros s2) /\ code_inv (cg_r s1).
  Definition grel (x y : cgstate * list node) : Prop :=
    cgren (fst x) (fst y) /\ snd y = rename_nodes rho (snd x) /\ Forall (node_ok rho D) (snd x).
  Definition gen_resp (gen : cgstate -> list ast -> res (cgstate * list node)) : Prop :=
    forall s1 s2 b, cgren s1 s2 -> allP aok b -> res_rel grel (gen s1 b) (gen s2 (map rename_ast b)).

  Lemma grel_nodes s1 s2 ns : cgren s1 s2 -> Forall (node_ok rho D) ns ->
    res_rel grel (Ok (s1, ns)) (Ok (s2, rename_nodes rho ns)).
  Proof. intros H Hn. refine (conj H (conj eq_refl Hn)). Qed.
  Lemma cgren_set_r s1 s2 ra rb : cgren s1 s2 -> rsim ra rb -> code_inv ra -> cgren (cg_set_r s1 ra) (cg_set_r s2 rb).
  Proof. intros (_ & Hm & _) Hr Hc. refine (conj Hr (conj Hm Hc)). Qed.

  Lemma seq_rel (A1 A2 : res (cgstate * list node)) (B1 B2 : cgstate -> res (cgstate * list node)) :
    res_rel grel A1 A2 -> (forall sa sb, cgren sa sb -> res_rel grel (B1 sa) (B2 sb)) ->
    res_rel grel (do x <- A1; do y <- B1 (fst x); Ok (fst y, snd x ++ snd y))
                 (do x <- A2; do y <- B2 (fst x); Ok (fst y, snd x ++ snd y)).
  Proof.
    intros HA HB. eapply res_rel_bind; [exact HA|].
    intros [sa na] [sb nb] (Hs & Hn & Hf). cbn [fst snd] in *. subst nb.
    eapply res_rel_bind; [apply HB; exact Hs|].
    intros [sa' na'] [sb' nb'] (Hs' & Hn' & Hf'). cbn [fst snd] in *. subst nb'. cbn [res_rel].
    refine (conj Hs' (conj _ _)); cbn [fst snd].
    - unfold rename_nodes. rewrite map_app. reflexivity.
    - apply Forall_app. auto.
  Qed.

  Lemma restore_scope_ci r1 r2 e : rsim r1 r2 -> code_inv r1 ->
    res_rel (fun x y => rsim x y /\ code_inv x) (restore_scope r1 e) (restore_scope r2 e).
  Proof.
    intros H Hc. pose proof (restore_scope_ren rho D rho_inj D_prefix rho_prefix r1 r2 e H) as HR.
    destruct (restore_scope r1 e) as [ra| |] eqn:E1, (restore_scope r2 e) as [rb| |]; cbn [res_rel] in *; auto.
    split; [exact HR|eapply ci_restore; eauto].
  Qed.

  Lemma scoped_ren gen k s1 s2 pre1 pre2 b :
    gen_resp gen -> cgren s1 s2 -> allP aok b ->
    (forall ra rb, rsim ra rb -> code_inv ra ->
       rsim (fst (pre1 ra)) (fst (pre2 rb)) /\ code_inv (fst (pre1 ra)) /\
       snd (pre2 rb) = rename_nodes rho (snd (pre1 ra)) /\ Forall (node_ok rho D) (snd (pre1 ra))) ->
    res_rel grel (scoped gen k s1 pre1 b) (scoped gen k s2 pre2 (map rename_ast b)).
  Proof.
    intros Hgen (Hr & Hm & Hc) Hb Hpre. unfold scoped.
    pose proof (enter_scope_ren _ _ k Hr) as HE.
    destruct (enter_scope (cg_r s1) k) as [ra| |] eqn:E1, (enter_scope (cg_r s2) k) as [rb| |];
      cbn [res_rel] in HE; try contradiction; cbn [bind res_rel]; auto.
    destruct (Hpre ra rb HE (ci_enter _ _ _ Hc E1)) as (P1 & P2 & P3 & P4).
    destruct (pre1 ra) as [ra2 pn1], (pre2 rb) as [rb2 pn2]. cbn [fst snd] in *. subst pn2.
    eapply res_rel_bind; [apply Hgen; [exact (conj P1 (conj Hm P2))|exact Hb]|].
    intros [sa na] [sb nb] ((Hr' & Hm' & Hc') & Hn & Hnf). cbn [fst snd] in *. subst nb.
    eapply res_rel_bind; [apply restore_scope_ci; eauto|].
    intros r3a r3b [H3 Hc3]. cbn [res_rel]. refine (conj (conj H3 (conj Hm' Hc3)) (conj _ _)); cbn [fst snd].
    - unfold rename_nodes. cbn [map rename_node]. rewrite !map_app. reflexivity.
    - constructor; [exact I|]. apply Forall_app. split; [exact P4|]. apply Forall_app. split; [exact Hnf|].
      constructor; [exact I|constructor].
  Qed.

  Section Step.
    Variable w : world.
    Variable gen : cgstate -> list ast -> res (cgstate * list node).
    Hypothesis Hgen : gen_resp gen.

    Lemma for_loop_ren v b : D v -> allP aok b -> forall n k s1 s2, cgren s1 s2 ->
      res_rel grel (for_loop gen n k v b s1) (for_loop gen n k (rho v) (map rename_ast b) s2).
    Proof.
      intros Hv Hb. induction n as [|n IH]; intros k s1 s2 H; cbn [for_loop].
      - apply (grel_nodes s1 s2 []); auto.
      - apply seq_rel; [|intros sa sb Hab; apply IH; exact Hab].
        apply scoped_ren; auto. intros ra rb A B. cbn [fst snd]. refine (conj A (conj B (conj eq_refl _))).
        constructor; [exact Hv|constructor].
    Qed.

    Lemma gen_one_ren s1 s2 a : cgren s1 s2 -> aok a ->
      res_rel grel (gen_one w gen s1 a) (gen_one w gen s2 (rename_ast a)).
    Proof.
      intros H Ha. pose proof H as (Hr & Hm & Hc).
      destruct a; cbn [aok] in Ha; cbn [rename_ast gen_one].
      - (* ABlock *) apply Hgen; auto.
      - (* ACompound *) apply scoped_ren; auto. intros ra rb A B. cbn [fst snd]. refine (conj A (conj B (conj eq_refl (Forall_nil _)))).
      - (* ALabel *) apply (grel_nodes s1 s2 [NLabel name]); auto; try (constructor; [exact Ha|constructor]).
      - (* AText *) rewrite (get_table_ren _ _ Hr). apply res_rel_bind_same; intros t _.
        apply (grel_nodes s1 s2 [NText _ fi]); auto; try (constructor; [exact I|constructor]).
      - (* AAscii *) apply (grel_nodes s1 s2 [NAscii text]); auto; try (constructor; [exact I|constructor]).
      - (* AScope *) apply scoped_ren; auto. intros ra rb A B. cbn [fst snd]. refine (conj A (conj B (conj eq_refl (Forall_nil _)))).
      - (* AStarEq *) apply (grel_nodes s1 s2 [NCodePos e fi]); auto; try (constructor; [exact Ha|constructor]).
      - (* AAtEq *) apply (grel_nodes s1 s2 [NReloc e fi]); auto; try (constructor; [exact Ha|constructor]).
      - (* AMap *) eapply res_rel_bind; [apply generate_map_ren; eauto|].
        intros ra rb [Hab Hcb]. apply (grel_nodes _ _ []); auto. apply cgren_set_r; auto.
      - (* AIf *) destruct Ha as (Hcnd & Hth & Hel).
        rewrite (if_condition_ren w _ _ c Hcnd Hr). apply res_rel_bind_same; intros cond _.
        destruct cond; [apply Hgen; auto|].
        destruct el as [[eb ebfi]|]; [apply Hgen; auto|apply (grel_nodes s1 s2 []); auto].
      - (* AMacro *) destruct Ha as [Hp Hb]. cbn [res_rel].
        refine (conj _ (conj eq_refl (Forall_nil _))). cbn [fst].
        refine (conj Hr (conj _ Hc)). cbn [cg_macros]. apply mrel_set; auto. repeat split; auto.
      - (* AMacroApply *)
        pose proof (mrel_get _ _ name Hm) as Hg.
        destruct (dict_get (cg_macros s1) name) as [md1|], (dict_get (cg_macros s2) name) as [md2|];
          try contradiction; [|reflexivity].
        destruct Hg as (Hp & Hb & Hpd & Hbd). rewrite Hp, Hb.
        change (map (fun x => match x with inl e => inl (re e) | inr (b, bfi) => inr (map rename_ast b, bfi) end) args)
          with (map rename_arg args).
        rewrite (eval_macro_args_ren w _ _ Hr (md_params md1) args Ha).
        destruct (eval_macro_args w (cg_r s1) (md_params md1) args) as [bound| |] eqn:E; cbn [rmap bind res_rel]; auto.
        apply scoped_ren; auto.
        intros ra rb Hab Hcb. apply bind_macro_args_ren; auto. eapply eval_macro_args_ok; eauto.
      - (* AData *) apply (grel_nodes s1 s2 (map (fun e => NData k e fi) data)) in H.
        + unfold rename_nodes in H. rewrite map_map in H. rewrite map_map. exact H.
        + apply allP_Forall in Ha. apply Forall_map. eapply Forall_impl; [|exact Ha]. intros e He. exact He.
      - (* ATable *) apply res_rel_bind_same; intros t _. apply (grel_nodes _ _ [NTable]); [|constructor; [exact I|constructor]].
        apply cgren_set_r; auto.
        + rewrite (rm_cur _ _ _ _ Hr). apply rsim_upd; auto using rssim_set_table.
        + apply ci_upd; auto.
      - (* AIncludeIps *) rewrite (eval_raw_ren rho D rho_inj w _ _ e Ha Hr).
        apply res_rel_bind_same; intros delta _. apply res_rel_bind_same; intros blocks _.
        apply (grel_nodes s1 s2 [NIps blocks]); auto; try (constructor; [exact I|constructor]).
      - (* AIncbin *) apply res_rel_bind_same; intros c _.
        apply (grel_nodes s1 s2 [NBinary path c]); auto; try (constructor; [exact Ha|constructor]).
      - (* ASymbol *) apply (grel_nodes s1 s2 [NSymbol name e false]); auto; try (constructor; [exact Ha|constructor]).
      - (* AAssign *) destruct Ha as [Hn He]. rewrite (eval_raw_ren rho D rho_inj w _ _ e He Hr).
        apply res_rel_bind_same; intros v _. apply (grel_nodes _ _ []); auto.
        apply cgren_set_r; auto using (rsim_add_symbol rho D rho_inj). apply ci_upd; auto.
      - (* ACodeLookup *) rewrite (value_for_ren _ _ name Ha Hr).
        destruct (value_for (cg_r s1) name) as [[x|body bfi]|k|] eqn:E; try reflexivity.
        destruct (value_for_fuel_cinv _ _ _ _ Hc _ _ E) as [Hb1 Hb2]. cbn [fst] in *.
        rewrite <- Hb2 at 2. apply Hgen; auto.
      - (* AStruct *) reflexivity.
      - (* AFor *) destruct Ha as (Hv & Hlo & Hhi & Hb).
        rewrite (eval_raw_ren rho D rho_inj w _ _ lo Hlo Hr), (eval_raw_ren rho D rho_inj w _ _ hi Hhi Hr).
        apply res_rel_bind_same; intros from _. apply res_rel_bind_same; intros to _.
        apply for_loop_ren; auto.
      - (* AOpcode *)
        destruct mode;
          try (apply (grel_nodes s1 s2 [NOpcode (lower_ascii opcode) _ None None None fi]); auto; try (constructor; [exact I|constructor]));
          (destruct operand as [e|]; cbn [option_map]; [|reflexivity];
           apply (grel_nodes s1 s2 [NOpcode (lower_ascii opcode) _ _ (Some e) size fi]); auto; try (constructor; [exact Ha|constructor])).
    Qed.

    Lemma gen_list_ren b : allP aok b -> forall s1 s2, cgren s1 s2 ->
      res_rel grel (gen_list w gen s1 b) (gen_list w gen s2 (map rename_ast b)).
    Proof.
      induction b as [|a rest IH]; intros Hb s1 s2 H; cbn [map gen_list].
      - apply (grel_nodes s1 s2 []); auto.
      - cbn [allP] in Hb. destruct Hb as [Ha Hr].
        apply (seq_rel _ _ (fun s => gen_list w gen s rest) (fun s => gen_list w gen s (map rename_ast rest))).
        + apply gen_one_ren; auto.
        + intros sa sb Hab. apply IH; auto.
    Qed.
  End Step.

  Theorem code_gen_ren w fuel : gen_resp (code_gen_fuel w fuel).
  Proof.
    induction fuel as [|f IH]; intros s1 s2 b H Hb; cbn [code_gen_fuel]; [reflexivity|].
    apply gen_list_ren; auto.
  Qed.

  Theorem assemble_ast_ren w r1 r2 prog :
    prog_ok prog -> rsim r1 r2 -> code_inv r1 ->
    res_rel (orel rho D) (assemble_ast w r1 prog) (assemble_ast w r2 (rename_prog prog)).
  Proof.
    intros Hp Hr Hc. unfold assemble_ast, rename_prog.
    eapply res_rel_bind.
    - apply (code_gen_ren w cg_depth); [|exact Hp]. refine (conj Hr (conj _ Hc)). constructor.
    - intros [sa na] [sb nb] ((Hr' & _ & _) & Hn & Hnf). cbn [fst snd] in *. subst nb.
      apply (assemble_nodes_ren rho D rho_inj D_prefix rho_prefix); auto.
  Qed.
End RenameAst.

(** C08, renaming for programs: z |-> z' (and p.z |-> p.z') throughout the program.  [z'] fresh
    ([prog_ok] with the names in play = the names that are not z'-derived), both dot-free, the start
    state free of both, code-block arguments (and code blocks already bound) free of [z]. *)
Theorem renaming_ast w r z z' prog :
  nodot z = true -> nodot z' = true ->
  prog_ok (ren z z') (inD z') prog ->
  state_untouched z z' r = true -> code_inv (ren z z') (inD z') r ->
  match assemble_ast w r prog, assemble_ast w r (rename_prog (ren z z') prog) with
  | Ok o1, Ok o2 => o_blocks o2 = o_blocks o1 /\ o_labels o2 = map_keys (ren z z') (o_labels o1)
  | Err j, Err k => j = k
  | OutOfFuel, OutOfFuel => True
  | _, _ => False
  end.
Proof.
  intros Hz Hz' Hp Hr Hc. apply nodot_spec in Hz. apply nodot_spec in Hz'.
  pose proof (assemble_ast_ren (ren z z') (inD z') (ren_inj z z') (inD_prefix z' Hz') (ren_prefix z z' Hz)
                w r r prog Hp (rsim_refl _ _ r (state_untouched_spec z z' r Hr)) Hc) as H.
  destruct (assemble_ast w r prog), (assemble_ast w r (rename_prog (ren z z') prog)); cbn [res_rel] in H; auto.
  destruct H as (A & B & _). auto.
Qed.

(** ** Examples (world of [NIExamples]) *)
Module RenAstExamples.
  Import NonInterference.NIExamples.
  Notation x := [120]. Notation y := [121]. Notation s_ := [115]. Notation m_ := [109].
  Notation s_x := [115; 46; 120]. Notation s_y := [115; 46; 121].
  Definition num (c : Z) : expr := [{| en_kind := EK_term; en_tok := mk_token T_NUMBER [c] |}].
  Definition ex_r0 : rstate :=
    {| r_scopes := [new_scope None SPlain]; r_cur := 0; r_last := 0; r_pc := 0;
       r_reloc := {| a_bus := lorom; a_val := 0 |}; r_bus := empty_bus; r_rom := LowRom |}.

  (** [x] as macro parameter, loop variable, label of the named scope s (used as x and s.x), [:=]
      symbol and [.if] condition:
      *=0x8000  .macro m(x){.db x}  .for x:=0,2 {m(x)}  .scope s {x: .dw x}  .dw s.x  x := 7  .if x {.db x} *)
  Definition prog : list ast :=
    [AStarEq num8000 fi; AMacro m_ [x] [AData D_db [ident x] fi] fi fi;
     AFor x (num 48) (num 50) [AMacroApply m_ [inl (ident x)] fi] fi fi;
     AScope s_ [ALabel x fi; AData D_dw [ident x] fi] fi fi; AData D_dw [ident s_x] fi;
     AAssign x (num 55) fi; AIf (ident x) [AData D_db [ident x] fi] fi None fi].

  Example renamed :
    rename_prog (ren x y) prog =
    [AStarEq num8000 fi; AMacro m_ [y] [AData D_db [ident y] fi] fi fi;
     AFor y (num 48) (num 50) [AMacroApply m_ [inl (ident y)] fi] fi fi;
     AScope s_ [ALabel y fi; AData D_dw [ident y] fi] fi fi; AData D_dw [ident s_y] fi;
     AAssign y (num 55) fi; AIf (ident y) [AData D_db [ident y] fi] fi None fi].
  Proof. reflexivity. Qed.

  Ltac ok_tac :=
    repeat match goal with
           | |- _ /\ _ => split
           | |- True => exact I
           | |- expr_ok _ _ => split; [reflexivity|repeat constructor; intros _; reflexivity]
           | |- inD _ _ => reflexivity
           end.
  Example prog_is_ok : prog_ok (ren x y) (inD y) prog.
  Proof. unfold prog_ok, prog. cbn [allP aok]. ok_tac. Qed.
  Example r0_ok : state_untouched x y ex_r0 = true /\ code_inv (ren x y) (inD y) ex_r0.
  Proof. split; [reflexivity|repeat constructor]. Qed.

  Example applies :
    match assemble_ast ex_world ex_r0 prog, assemble_ast ex_world ex_r0 (rename_prog (ren x y) prog) with
    | Ok o1, Ok o2 => o_blocks o2 = o_blocks o1 /\ o_labels o2 = map_keys (ren x y) (o_labels o1)
    | Err j, Err k => j = k
    | OutOfFuel, OutOfFuel => True
    | _, _ => False
    end.
  Proof. apply renaming_ast; [reflexivity|reflexivity|exact prog_is_ok|apply r0_ok|apply r0_ok]. Qed.
  Example values :
    view (assemble_ast ex_world ex_r0 prog) = Ok ([([0; 1; 2; 128; 2; 128; 7], 0)], [(x, 32770)]) /\
    view (assemble_ast ex_world ex_r0 (rename_prog (ren x y) prog)) = Ok ([([0; 1; 2; 128; 2; 128; 7], 0)], [(y, 32770)]).
  Proof. split; vm_compute; reflexivity. Qed.

  (** capture when the new name is in use:  y := 1  { x := 2  .db y }  *)
  Definition cap : list ast :=
    [AStarEq num8000 fi; AAssign y (num 49) fi; ACompound [AAssign x (num 50) fi; AData D_db [ident y] fi] fi].
  Example cap_not_ok : ~ prog_ok (ren x y) (inD y) cap.
  Proof. unfold prog_ok, cap. cbn [allP aok]. intros (_ & (H & _) & _). discriminate H. Qed.
  Example cap_values :
    view (assemble_ast ex_world ex_r0 cap) = Ok ([([1], 0)], []) /\
    view (assemble_ast ex_world ex_r0 (rename_prog (ren x y) cap)) = Ok ([([2], 0)], []).
  Proof. split; vm_compute; reflexivity. Qed.
End RenAstExamples.

Print Assumptions code_gen_ren.
Print Assumptions renaming_ast.
