(** Renaming the identifiers of an expression: [shunting_yard] commutes with any map over the
    nodes that keeps kinds and types and leaves the non-term nodes alone, and [eval_rpn] of the
    renamed list under an environment that answers the new names as the old environment answered
    the old ones gives the same result. *)
From Coq Require Import ZArith List Bool.
From A816 Require Import Model.Expr Proofs.EvalCongr.
Open Scope Z_scope.

Definition rmap {A B} (f : A -> B) (x : res A) : res B :=
  match x with Ok a => Ok (f a) | Err k => Err k | OutOfFuel => OutOfFuel end.

Section SyMap.
  Variable f : enode -> enode.
  Hypothesis f_kind : forall t, en_kind (f t) = en_kind t.
  Hypothesis f_type : forall t, en_type (f t) = en_type t.
  Hypothesis f_val : forall t, en_type t <> T_IDENTIFIER -> en_val (f t) = en_val t.

  Definition fixedp (t : enode) : Prop := f t = t.
  (** what is asked of the input nodes: only term nodes are changed *)
  Definition okn (t : enode) : Prop := en_kind t <> EK_term -> f t = t.

  Lemma map_fixed l : Forall fixedp l -> map f l = l.
  Proof. induction 1 as [|t l Ht H IH]; cbn [map]; [reflexivity|]. rewrite Ht, IH. reflexivity. Qed.

  Lemma pop_tighter_map p cur : forall stack out, Forall fixedp stack ->
    match pop_tighter p cur stack out with
    | Ok so => pop_tighter p cur stack (map f out) = Ok (fst so, map f (snd so)) /\ Forall fixedp (fst so)
    | Err k => pop_tighter p cur stack (map f out) = Err k
    | OutOfFuel => pop_tighter p cur stack (map f out) = OutOfFuel
    end.
  Proof.
    induction stack as [|top rest IH]; intros out Hs; cbn [pop_tighter].
    - cbn [fst snd]. auto.
    - inversion Hs as [|? ? Ht Hr]; subst.
      destruct (stack_prec p top) as [tp| |]; cbn [bind]; auto.
      destruct ((tp <=? cur) && negb (str_eqb (en_val top) s_lparen)).
      + specialize (IH (out ++ [top]) Hr). rewrite map_app in IH. cbn [map] in IH. rewrite Ht in IH. exact IH.
      + cbn [fst snd]. auto.
  Qed.

  Lemma pop_to_lparen_map : forall stack out, Forall fixedp stack ->
    match pop_to_lparen stack out with
    | Ok so => pop_to_lparen stack (map f out) = Ok (fst so, map f (snd so)) /\ Forall fixedp (fst so)
    | Err k => pop_to_lparen stack (map f out) = Err k
    | OutOfFuel => pop_to_lparen stack (map f out) = OutOfFuel
    end.
  Proof.
    induction stack as [|top rest IH]; intros out Hs; cbn [pop_to_lparen]; [reflexivity|].
    inversion Hs as [|? ? Ht Hr]; subst.
    destruct (str_eqb (en_val top) s_lparen).
    - cbn [fst snd]. auto.
    - specialize (IH (out ++ [top]) Hr). rewrite map_app in IH. cbn [map] in IH. rewrite Ht in IH. exact IH.
  Qed.

  Lemma sy_loop_map p : forall nodes stack out, Forall okn nodes -> Forall fixedp stack ->
    sy_loop p (map f nodes) stack (map f out) = rmap (map f) (sy_loop p nodes stack out).
  Proof.
    induction nodes as [|e r IH]; intros stack out Hn Hs; cbn [map sy_loop].
    - cbn [rmap]. rewrite map_app, (map_fixed stack Hs). reflexivity.
    - inversion Hn as [|? ? He Hr]; subst. unfold okn in He.
      destruct (en_kind e) eqn:Kd.
      + rewrite f_kind, Kd. replace (map f out ++ [f e]) with (map f (out ++ [e])) by (rewrite map_app; reflexivity).
        apply IH; auto.
      + assert (Fe : f e = e) by (apply He; congruence). rewrite Fe, Kd.
        destruct (prec_get p (en_val e)) as [cur| |]; cbn [bind rmap]; auto.
        pose proof (pop_tighter_map p cur stack out Hs) as HP.
        destruct (pop_tighter p cur stack out) as [[s' o']| |].
        * destruct HP as [E F]. rewrite E. cbn [bind fst snd] in *. apply IH; auto; constructor; auto.
        * rewrite HP. reflexivity.
        * rewrite HP. reflexivity.
      + assert (Fe : f e = e) by (apply He; congruence). rewrite Fe, Kd. apply IH; auto; constructor; auto.
      + assert (Fe : f e = e) by (apply He; congruence). rewrite Fe, Kd.
        destruct (en_type e); try (apply IH; auto; constructor; auto; fail).
        pose proof (pop_to_lparen_map stack out Hs) as HP.
        destruct (pop_to_lparen stack out) as [[s' o']| |].
        * destruct HP as [E F]. rewrite E. cbn [bind fst snd] in *. apply IH; auto.
        * rewrite HP. reflexivity.
        * rewrite HP. reflexivity.
  Qed.

  Lemma eval_binop_val e e' v1 v2 : en_val e' = en_val e -> eval_binop e' v1 v2 = eval_binop e v1 v2.
  Proof. intros V. unfold eval_binop, op_is. rewrite V. reflexivity. Qed.

  Lemma eval_rpn_map (ev1 ev2 : env) : forall rpn stack,
    Forall (fun t => en_type t = T_IDENTIFIER -> ev2 (en_val (f t)) = ev1 (en_val t)) rpn ->
    eval_rpn ev2 (map f rpn) stack = eval_rpn ev1 rpn stack.
  Proof.
    induction rpn as [|e r IH]; intros stack H; cbn [map eval_rpn]; [reflexivity|].
    inversion H as [|? ? He Hr]; subst. rewrite f_type, f_kind.
    destruct (en_type e) eqn:T;
      try (assert (V : en_val (f e) = en_val e) by (apply f_val; rewrite T; discriminate);
           destruct (en_kind e); auto;
           [ destruct stack as [|v2 [|v1 st]]; auto; rewrite (eval_binop_val _ _ v1 v2 V); apply bind_ext; auto
           | destruct stack as [|v1 st]; auto; unfold op_is; rewrite V; apply bind_ext; auto ]; fail).
    - rewrite (He eq_refl). apply bind_ext; auto.
    - rewrite f_val by (rewrite T; discriminate). apply bind_ext; auto.
  Qed.

  Theorem eval_expression_map p (ev1 ev2 : env) (e : expr) :
    Forall okn e ->
    Forall (fun t => en_type t = T_IDENTIFIER -> ev2 (en_val (f t)) = ev1 (en_val t)) e ->
    eval_expression p ev2 (map f e) = eval_expression p ev1 e.
  Proof.
    intros Hok Hag. unfold eval_expression, shunting_yard.
    pose proof (sy_loop_map p e [] [] Hok (Forall_nil _)) as HS. cbn [map] in HS. rewrite HS.
    destruct (sy_loop p e [] []) as [rpn| |] eqn:E; cbn [rmap bind]; auto.
    apply eval_rpn_map. apply (sy_loop_Forall _ p e [] [] rpn); auto.
  Qed.
End SyMap.

(** ** Renaming identifier tokens *)
Section Rename.
  Variable rho : str -> str.

  Definition rename_tok (t : enode) : enode :=
    match en_type t with
    | T_IDENTIFIER =>
        {| en_kind := en_kind t;
           en_tok := {| t_type := T_IDENTIFIER; t_value := rho (en_val t); t_pos := t_pos (en_tok t) |} |}
    | _ => t
    end.
  Definition rename_expr (e : expr) : expr := map rename_tok e.

  (** identifier tokens are operands (what the parser builds: Term nodes) *)
  Definition ident_term (t : enode) : bool :=
    match en_type t with T_IDENTIFIER => is_term t | _ => true end.
  Definition ident_terms (e : expr) : bool := forallb ident_term e.

  Lemma rename_tok_kind t : en_kind (rename_tok t) = en_kind t.
  Proof. unfold rename_tok. destruct (en_type t); reflexivity. Qed.
  Lemma rename_tok_type t : en_type (rename_tok t) = en_type t.
  Proof. unfold rename_tok. destruct (en_type t) eqn:E; auto. Qed.
  Lemma rename_tok_val_other t : en_type t <> T_IDENTIFIER -> en_val (rename_tok t) = en_val t.
  Proof. unfold rename_tok. destruct (en_type t); congruence. Qed.
  Lemma rename_tok_val_ident t : en_type t = T_IDENTIFIER -> en_val (rename_tok t) = rho (en_val t).
  Proof. unfold rename_tok. intros ->. reflexivity. Qed.

  Theorem eval_expression_rename p (ev1 ev2 : env) (e : expr) :
    ident_terms e = true ->
    Forall (fun t => en_type t = T_IDENTIFIER -> ev2 (rho (en_val t)) = ev1 (en_val t)) e ->
    eval_expression p ev2 (rename_expr e) = eval_expression p ev1 e.
  Proof.
    intros Hw Hag. unfold rename_expr.
    apply (eval_expression_map rename_tok rename_tok_kind rename_tok_type rename_tok_val_other).
    - apply Forall_forall. intros t Ht Hk. unfold ident_terms in Hw. rewrite forallb_forall in Hw.
      specialize (Hw t Ht). unfold ident_term, rename_tok in *.
      destruct (en_type t); auto. unfold is_term in Hw. destruct (en_kind t); congruence.
    - eapply Forall_impl; [|exact Hag]. intros t Ht Hty. rewrite (rename_tok_val_ident t Hty). auto.
  Qed.
End Rename.

Print Assumptions eval_expression_rename.
