(** C08 — the positional replay of scopes: code generation produces a node list whose k-th
    ScopeNode enters the scope created k-th and whose PopScopeNodes return to the scope that was
    current when it was created, so that replaying the list in a pass walks the same scope tree. *)
From Coq Require Import ZArith List Lia Bool Arith.
From A816 Require Import Model.Codegen Spec.EnvSem Proofs.ResolverProofs.
Open Scope Z_scope.

(** Replaying the scope moves of a node list: it needs nothing but the parent pointers. *)
Fixpoint replay (scopes : list scope) (ns : list node) (cur last : nat) : option (nat * nat) :=
  match ns with
  | [] => Some (cur, last)
  | NScope :: r => if Nat.ltb (S last) (length scopes) then replay scopes r (S last) (S last) else None
  | NPop :: r =>
      match nth_error scopes cur with
      | Some s => match s_parent s with Some p => replay scopes r p last | None => None end
      | None => None
      end
  | _ :: r => replay scopes r cur last
  end.

Definition scope_node (n : node) : bool := match n with NScope | NPop => true | _ => false end.

Lemma replay_app sc ns1 : forall ns2 c l,
  replay sc (ns1 ++ ns2) c l =
  match replay sc ns1 c l with Some (c', l') => replay sc ns2 c' l' | None => None end.
Proof.
  induction ns1 as [|n ns1 IH]; intros ns2 c l; [reflexivity|].
  destruct n; cbn [app replay]; try apply IH.
  - destruct (Nat.ltb _ _); [apply IH|reflexivity].
  - destruct (nth_error sc c) as [s|]; [|reflexivity]. destruct (s_parent s); [apply IH|reflexivity].
Qed.

Lemma replay_plain sc ns c l : forallb (fun n => negb (scope_node n)) ns = true -> replay sc ns c l = Some (c, l).
Proof.
  induction ns as [|n ns IH]; [reflexivity|]. cbn [forallb]. intros H. apply andb_prop in H as [Hn H].
  destruct n; cbn [replay]; try (apply IH; exact H); discriminate.
Qed.

(** [ext old new]: [new] extends [old] and keeps every parent pointer. *)
Definition ext (old new : list scope) : Prop :=
  (length old <= length new)%nat /\
  forall i s0, nth_error old i = Some s0 -> exists s1, nth_error new i = Some s1 /\ s_parent s1 = s_parent s0.

Lemma ext_refl l : ext l l.
Proof. split; [lia|]. intros i s0 H; exists s0; auto. Qed.
Lemma ext_trans a b c : ext a b -> ext b c -> ext a c.
Proof.
  intros [L1 H1] [L2 H2]. split; [lia|]. intros i s0 H.
  destruct (H1 _ _ H) as (s1 & A & B). destruct (H2 _ _ A) as (s2 & C & D). exists s2. split; [auto|congruence].
Qed.
Lemma ext_update l j f : (forall s, s_parent (f s) = s_parent s) -> ext l (list_update l j f).
Proof.
  intros Hf. split; [rewrite list_update_length; lia|]. intros i s0 H.
  rewrite nth_list_update. destruct (Nat.eqb j i); rewrite H; cbn; eauto.
Qed.
Lemma ext_append l x : ext l (l ++ [x]).
Proof.
  split; [rewrite app_length; cbn; lia|]. intros i s0 H. exists s0. split; [|reflexivity].
  rewrite nth_error_app1; [exact H|]. apply nth_error_Some. congruence.
Qed.

(** The invariant of the resolver during code generation. *)
Record cg_ok (r : rstate) : Prop := {
  ck_last : S (r_last r) = length (r_scopes r);      (* every created scope has been entered *)
  ck_cur : (r_cur r < length (r_scopes r))%nat;
  ck_wf : wf_scopes (r_scopes r)
}.

(** What generating a statement list guarantees. *)
Definition R (s s' : cgstate) (ns : list node) : Prop :=
  cg_ok (cg_r s') /\ r_cur (cg_r s') = r_cur (cg_r s) /\
  ext (r_scopes (cg_r s)) (r_scopes (cg_r s')) /\
  forall sc, ext (r_scopes (cg_r s')) sc ->
    replay sc ns (r_cur (cg_r s)) (r_last (cg_r s)) = Some (r_cur (cg_r s), r_last (cg_r s')).

Definition gen_ok (gen : cgstate -> list ast -> res (cgstate * list node)) : Prop :=
  forall s b s' ns, cg_ok (cg_r s) -> gen s b = Ok (s', ns) -> R s s' ns.

Lemma R_nil s : cg_ok (cg_r s) -> R s s [].
Proof. intros H. refine (conj H (conj eq_refl (conj (ext_refl _) _))). intros sc _. reflexivity. Qed.

Lemma R_trans s s1 s2 n1 n2 : R s s1 n1 -> R s1 s2 n2 -> R s s2 (n1 ++ n2).
Proof.
  intros (K1 & C1 & E1 & P1) (K2 & C2 & E2 & P2). refine (conj K2 (conj _ (conj _ _))).
  - congruence.
  - eapply ext_trans; eauto.
  - intros sc Hsc. rewrite replay_app. rewrite (P1 sc (ext_trans _ _ _ E2 Hsc)).
    rewrite <- C1. rewrite (P2 sc Hsc). rewrite C1. reflexivity.
Qed.

(** A state change that touches neither the scope tree's shape nor the current scope, producing
    only non-scope nodes. *)
Definition benign (r r' : rstate) : Prop :=
  r_cur r' = r_cur r /\ r_last r' = r_last r /\ length (r_scopes r') = length (r_scopes r) /\
  ext (r_scopes r) (r_scopes r') /\ (wf_scopes (r_scopes r) -> wf_scopes (r_scopes r')).

Lemma benign_refl r : benign r r.
Proof. refine (conj eq_refl (conj eq_refl (conj eq_refl (conj (ext_refl _) (fun H => H))))). Qed.
Lemma benign_trans a b c : benign a b -> benign b c -> benign a c.
Proof.
  intros (A1 & A2 & A3 & A4 & A5) (B1 & B2 & B3 & B4 & B5).
  refine (conj _ (conj _ (conj _ (conj (ext_trans _ _ _ A4 B4) _)))); try congruence. auto.
Qed.
Lemma benign_upd r i f : (forall s, s_parent (f s) = s_parent s) -> benign r (upd_scope r i f).
Proof.
  intros Hf. unfold upd_scope, benign. cbn [set_scopes r_cur r_last r_scopes].
  refine (conj eq_refl (conj eq_refl (conj _ (conj _ _)))).
  - apply list_update_length.
  - apply ext_update; auto.
  - apply wf_update; auto.
Qed.

Lemma benign_R s r' ns :
  cg_ok (cg_r s) -> benign (cg_r s) r' -> forallb (fun n => negb (scope_node n)) ns = true ->
  R s (cg_set_r s r') ns.
Proof.
  intros [K1 K2 K3] (B1 & B2 & B3 & B4 & B5) Hns. unfold R. cbn [cg_set_r cg_r].
  refine (conj _ (conj B1 (conj B4 _))).
  - constructor; [rewrite B2, B3; exact K1 | rewrite B1, B3; exact K2 | exact (B5 K3)].
  - intros sc _. rewrite replay_plain by assumption. rewrite B2. reflexivity.
Qed.

Lemma cg_set_r_same s : cg_set_r s (cg_r s) = s.
Proof. destruct s; reflexivity. Qed.

Lemma bind_macro_args_benign bound : forall r r' ns,
  bind_macro_args r bound = (r', ns) ->
  benign r r' /\ forallb (fun n => negb (scope_node n)) ns = true.
Proof.
  induction bound as [|[p v] bound IH]; intros r r' ns H; cbn [bind_macro_args] in H.
  - inversion H; subst. split; [apply benign_refl|reflexivity].
  - destruct v as [x|body fi|e].
    + destruct (IH _ _ _ H) as [B F]. split; [|exact F].
      eapply benign_trans; [|exact B]. apply benign_upd. reflexivity.
    + destruct (IH _ _ _ H) as [B F]. split; [|exact F].
      eapply benign_trans; [|exact B]. apply benign_upd. reflexivity.
    + destruct (bind_macro_args r bound) as [r0 ns0] eqn:E. inversion H; subst.
      destruct (IH _ _ _ E) as [B F]. split; [exact B|]. cbn [forallb scope_node negb andb]. exact F.
Qed.

Lemma data_nodes_plain k fi data : forallb (fun n => negb (scope_node n)) (map (fun e => NData k e fi) data) = true.
Proof. induction data as [|e data IH]; [reflexivity|]. cbn [map forallb scope_node negb andb]. exact IH. Qed.

Section Step.
  Variable w : world.
  Variable gen : cgstate -> list ast -> res (cgstate * list node).
  Hypothesis Hgen : gen_ok gen.

  (** Entering a fresh scope, generating a body in it, leaving it. *)
  Lemma scoped_R k s pre b s' ns :
    (forall r r' pns, pre r = (r', pns) -> benign r r' /\ forallb (fun n => negb (scope_node n)) pns = true) ->
    cg_ok (cg_r s) -> scoped gen k s pre b = Ok (s', ns) -> R s s' ns.
  Proof.
    intros Hpre [K1 K2 K3]. unfold scoped, enter_scope, use_next_scope, append_scope.
    set (r := cg_r s) in *. cbn [set_scopes r_scopes r_last r_cur].
    rewrite nth_error_app2 by lia. rewrite <- K1. rewrite Nat.sub_diag. cbn [nth_error bind].
    set (r1 := set_cur_last (set_scopes r (r_scopes r ++ [new_scope (Some (r_cur r)) k])) (S (r_last r)) (S (r_last r))).
    destruct (pre r1) as [r2 prens] eqn:Epre.
    destruct (Hpre _ _ _ Epre) as ((B1 & B2 & B3 & B4 & B5) & Fpre).
    destruct (gen (cg_set_r s r2) b) as [[s3 n3]| |] eqn:Eg; cbn [bind fst snd]; try discriminate.
    assert (Hr1len : length (r_scopes r1) = S (length (r_scopes r))) by (cbn; rewrite app_length; cbn; lia).
    assert (Hk2 : cg_ok r2).
    { constructor.
      - rewrite B2, B3, Hr1len. cbn. lia.
      - rewrite B1, B3, Hr1len. cbn. lia.
      - apply B5. cbn. apply wf_append; auto. }
    destruct (Hgen (cg_set_r s r2) b s3 n3 Hk2 Eg) as (K3' & C3 & E3 & P3). cbn [cg_set_r cg_r] in *.
    (* the scope we are in after the body is the fresh one; its parent is the scope we came from *)
    assert (Hfresh : exists sf, nth_error (r_scopes (cg_r s3)) (S (r_last r)) = Some sf /\ s_parent sf = Some (r_cur r)).
    { assert (H1 : nth_error (r_scopes r1) (S (r_last r)) = Some (new_scope (Some (r_cur r)) k)).
      { unfold r1. cbn [set_cur_last set_scopes r_scopes]. rewrite nth_error_app2 by lia.
        rewrite <- K1, Nat.sub_diag. reflexivity. }
      destruct (proj2 B4 _ _ H1) as (sa & A1 & A2). destruct (proj2 E3 _ _ A1) as (sb & A3 & A4).
      exists sb. split; [exact A3|]. rewrite A4, A2. reflexivity. }
    destruct Hfresh as (sf & Hsf & Hpar).
    unfold restore_scope. rewrite C3, B1. cbn [r1 set_cur_last r_cur]. rewrite Hsf, Hpar.
    replace (match s_kind sf with SNamed _ => cg_r s3 | _ => cg_r s3 end) with (cg_r s3) by (destruct (s_kind sf); reflexivity).
    cbn [bind]. intros H; inversion H; subst; clear H. unfold R. cbn [cg_set_r cg_r set_cur r_cur r_scopes r_last].
    assert (Eall : ext (r_scopes r) (r_scopes (cg_r s3))).
    { eapply ext_trans; [|exact E3]. eapply ext_trans; [|exact B4]. cbn. apply ext_append. }
    refine (conj _ (conj eq_refl (conj Eall _))).
    - destruct K3' as [L1 L2 L3]. constructor; cbn [set_cur r_cur r_scopes r_last]; auto.
      destruct Eall as [Le _]. lia.
    - intros sc Hsc. fold r. cbn [replay].
      assert (Hlen : (S (r_last r) < length sc)%nat).
      { destruct Hsc as [L _]. destruct K3' as [L1 L2 L3]. rewrite C3, B1 in L2. cbn in L2. lia. }
      apply Nat.ltb_lt in Hlen. rewrite Hlen.
      rewrite replay_app. rewrite replay_plain by assumption.
      rewrite replay_app.
      specialize (P3 sc Hsc). rewrite B1, B2 in P3. cbn [r1 set_cur_last r_cur r_last] in P3. rewrite P3.
      cbn [replay]. destruct (proj2 Hsc _ _ Hsf) as (sg & G1 & G2). rewrite G1, G2, Hpar. reflexivity.
  Qed.

  Lemma for_loop_R n : forall k v b s s' ns,
    cg_ok (cg_r s) -> for_loop gen n k v b s = Ok (s', ns) -> R s s' ns.
  Proof.
    induction n as [|n IH]; intros k v b s s' ns K; cbn [for_loop].
    - intros H; inversion H; subst. apply R_nil; auto.
    - destruct (scoped gen SInternal s _ b) as [[s1 n1]| |] eqn:E1; cbn [bind fst snd]; try discriminate.
      destruct (for_loop gen n (k + 1) v b s1) as [[s2 n2]| |] eqn:E2; cbn [bind fst snd]; try discriminate.
      intros H; inversion H; subst.
      assert (R1 : R s s1 n1).
      { eapply scoped_R; [|exact K|exact E1]. intros r r' pns Hp. inversion Hp; subst. split; [apply benign_refl|reflexivity]. }
      eapply R_trans; [exact R1|]. apply (IH _ _ _ _ _ _ (proj1 R1) E2).
  Qed.

  Lemma set_bus_benign r b : benign r (set_bus r b).
  Proof. refine (conj eq_refl (conj eq_refl (conj eq_refl (conj (ext_refl _) (fun H => H))))). Qed.

  Lemma generate_map_benign r args r' : generate_map r args = Ok r' -> benign r r'.
  Proof.
    unfold generate_map.
    repeat match goal with
           | |- context [match ?x with _ => _ end] => destruct x; cbn [bind]
           | |- context [bind ?x _] => destruct x; cbn [bind]
           end; try discriminate; intros H; inversion H; subst; apply set_bus_benign.
  Qed.

  Lemma gen_one_R s a s' ns : cg_ok (cg_r s) -> gen_one w gen s a = Ok (s', ns) -> R s s' ns.
  Proof.
    intros K. destruct a; cbn [gen_one].
    - (* ABlock *) apply Hgen; auto.
    - (* ACompound *) intros H. eapply scoped_R; [|exact K|exact H].
      intros r r' pns Hp; inversion Hp; subst. split; [apply benign_refl|reflexivity].
    - (* ALabel *) intros H; inversion H; subst. rewrite <- (cg_set_r_same s') at 2. apply benign_R; auto. apply benign_refl.
    - (* AText *) destruct (get_table (cg_r s)); cbn [bind]; try discriminate.
      intros H; inversion H; subst. rewrite <- (cg_set_r_same s') at 2. apply benign_R; auto. apply benign_refl.
    - (* AAscii *) intros H; inversion H; subst. rewrite <- (cg_set_r_same s') at 2. apply benign_R; auto. apply benign_refl.
    - (* AScope *) intros H. eapply scoped_R; [|exact K|exact H].
      intros r r' pns Hp; inversion Hp; subst. split; [apply benign_refl|reflexivity].
    - (* AStarEq *) intros H; inversion H; subst. rewrite <- (cg_set_r_same s') at 2. apply benign_R; auto. apply benign_refl.
    - (* AAtEq *) intros H; inversion H; subst. rewrite <- (cg_set_r_same s') at 2. apply benign_R; auto. apply benign_refl.
    - (* AMap *) destruct (generate_map (cg_r s) args) as [r'| |] eqn:E; cbn [bind]; try discriminate.
      intros H; inversion H; subst. apply benign_R; auto. eapply generate_map_benign; eauto.
    - (* AIf *) destruct (if_condition w (cg_r s) c) as [[|]| |]; cbn [bind]; try discriminate.
      + apply Hgen; auto.
      + destruct el as [[eb ebfi]|]; [apply Hgen; auto|]. intros H; inversion H; subst. apply R_nil; auto.
    - (* AMacro *) intros H; inversion H; subst. unfold R. cbn [cg_r].
      refine (conj K (conj eq_refl (conj (ext_refl _) _))). intros sc _. reflexivity.
    - (* AMacroApply *) destruct (dict_get (cg_macros s) name) as [md|]; [|discriminate].
      destruct (eval_macro_args w (cg_r s) (md_params md) args) as [bound| |]; cbn [bind]; try discriminate.
      intros H. eapply scoped_R; [|exact K|exact H]. intros r r' pns Hp. cbv beta in Hp. exact (bind_macro_args_benign _ _ _ _ Hp).
    - (* AData *) intros H; inversion H; subst. rewrite <- (cg_set_r_same s') at 2. apply benign_R; auto; [apply benign_refl|].
      apply data_nodes_plain.
    - (* ATable *) destruct (w_table w path); cbn [bind]; try discriminate.
      intros H; inversion H; subst. apply benign_R; auto. apply benign_upd. reflexivity.
    - (* AIncludeIps *) destruct (eval_raw w (cg_r s) e); cbn [bind]; try discriminate.
      destruct (w_ips w path _); cbn [bind]; try discriminate.
      intros H; inversion H; subst. rewrite <- (cg_set_r_same s') at 2. apply benign_R; auto. apply benign_refl.
    - (* AIncbin *) destruct (w_incbin w path); cbn [bind]; try discriminate.
      intros H; inversion H; subst. rewrite <- (cg_set_r_same s') at 2. apply benign_R; auto. apply benign_refl.
    - (* ASymbol *) intros H; inversion H; subst. rewrite <- (cg_set_r_same s') at 2. apply benign_R; auto. apply benign_refl.
    - (* AAssign *) destruct (eval_raw w (cg_r s) e); cbn [bind]; try discriminate.
      intros H; inversion H; subst. apply benign_R; auto. apply benign_upd. reflexivity.
    - (* ACodeLookup *) destruct (value_for (cg_r s) name) as [[v|body fi']| |]; try discriminate. apply Hgen; auto.
    - (* AStruct *) discriminate.
    - (* AFor *) destruct (eval_raw w (cg_r s) lo); cbn [bind]; try discriminate.
      destruct (eval_raw w (cg_r s) hi); cbn [bind]; try discriminate. apply for_loop_R; auto.
    - (* AOpcode *) destruct mode; try (destruct operand; try discriminate);
        intros H; inversion H; subst; rewrite <- (cg_set_r_same s') at 2; apply benign_R; auto; apply benign_refl.
  Qed.

  Lemma gen_list_R body : forall s s' ns, cg_ok (cg_r s) -> gen_list w gen s body = Ok (s', ns) -> R s s' ns.
  Proof.
    induction body as [|a rest IH]; intros s s' ns K; cbn [gen_list].
    - intros H; inversion H; subst. apply R_nil; auto.
    - destruct (gen_one w gen s a) as [[s1 n1]| |] eqn:E1; cbn [bind fst snd]; try discriminate.
      destruct (gen_list w gen s1 rest) as [[s2 n2]| |] eqn:E2; cbn [bind fst snd]; try discriminate.
      intros H; inversion H; subst.
      pose proof (gen_one_R _ _ _ _ K E1) as R1.
      eapply R_trans; [exact R1|]. apply (IH _ _ _ (proj1 R1) E2).
  Qed.
End Step.

Theorem code_gen_replay w fuel : gen_ok (code_gen_fuel w fuel).
Proof.
  induction fuel as [|f IH]; intros s b s' ns K; cbn [code_gen_fuel]; [discriminate|].
  apply gen_list_R; auto.
Qed.

(** The initial resolver satisfies the invariant, so the theorem applies to whole programs. *)
Lemma resolver_init_ok w r : resolver_init w = Ok r -> cg_ok r.
Proof.
  unfold resolver_init. destruct (w_builtin w LowRom) as [b| |]; try discriminate.
  unfold set_position. destruct (get_bus w _); cbn [bind]; try discriminate.
  destruct (mk_addr _ _); cbn [bind]; try discriminate. destruct (addr_phys _) as [[p|]| |]; cbn [bind]; try discriminate;
    intros H; inversion H; subst; constructor; cbn; auto; intros i s p' Hn Hp; destruct i as [|[|i]]; cbn in Hn; inversion Hn; subst; discriminate.
Qed.

(** In a pass, ScopeNode and PopScopeNode move the current scope exactly as [replay] does. *)
Theorem pass_scope_moves w r n a r' a' :
  pc_after w r n a = Ok (r', a') ->
  replay (r_scopes r) [n] (r_cur r) (r_last r) = Some (r_cur r', r_last r') /\ ext (r_scopes r) (r_scopes r').
Proof.
  destruct n; cbn [pc_after replay]; intros H;
    try (match type of H with context [bind ?X _] => destruct X as [x| |] eqn:E; cbn [bind] in H; try discriminate end);
    try (match type of H with context [bind ?X _] => destruct X as [y| |] eqn:E'; cbn [bind] in H; try discriminate end);
    try (match type of H with context [bind ?X _] => destruct X as [z| |] eqn:E''; cbn [bind] in H; try discriminate end);
    try (inversion H; subst; split; [reflexivity|]; try apply ext_refl; try (apply ext_update; reflexivity); fail).
  - (* NBinary *) inversion H; subst. split; [reflexivity|]. unfold add_symbol, add_label, upd_scope. cbn.
    eapply ext_trans; apply ext_update; reflexivity.
  - (* NScope *) unfold use_next_scope in E. revert E.
    destruct (nth_error (r_scopes r) (S (r_last r))) eqn:N; [|intros X; discriminate X]. intros E.
    inversion E; subst. inversion H; subst.
    assert (L : (S (r_last r) < length (r_scopes r))%nat) by (apply nth_error_Some; congruence).
    apply Nat.ltb_lt in L. rewrite L. split; [reflexivity|apply ext_refl].
  - (* NPop *) unfold restore_scope in E. revert E.
    destruct (nth_error (r_scopes r) (r_cur r)) as [s|] eqn:N; [|intros X; discriminate X].
    destruct (s_parent s) as [p|] eqn:P; [|intros X; discriminate X]. intros E. inversion E; subst. inversion H; subst.
    split; [destruct (s_kind s); reflexivity|].
    destruct (s_kind s); try apply ext_refl. cbn. apply ext_update. intros s0. apply export_into_parent.
Qed.
