(** C08 — lexical lookup, isolation of scopes, export from named scopes. *)
From Coq Require Import ZArith List Lia Bool Arith.
From A816 Require Import Spec.EnvSem Proofs.BusProofs.
Open Scope Z_scope.

(** ** list_update / dictionaries *)
Lemma list_update_length {A} (l : list A) i f : length (list_update l i f) = length l.
Proof. revert i; induction l as [|x l IH]; intros [|i]; cbn; auto. Qed.

Lemma nth_list_update_same {A} (l : list A) i f x :
  nth_error l i = Some x -> nth_error (list_update l i f) i = Some (f x).
Proof. revert i; induction l as [|y l IH]; intros [|i]; cbn; try discriminate; auto. intros H; inversion H; auto. Qed.

Lemma nth_list_update_other {A} (l : list A) i j f :
  i <> j -> nth_error (list_update l i f) j = nth_error l j.
Proof.
  revert i j; induction l as [|y l IH]; intros [|i] [|j] H; cbn; auto; try congruence.
Qed.

Lemma nth_list_update {A} (l : list A) i j f :
  nth_error (list_update l i f) j =
  if Nat.eqb i j then option_map f (nth_error l j) else nth_error l j.
Proof.
  destruct (Nat.eqb_spec i j) as [->|N].
  - destruct (nth_error l j) eqn:E; cbn.
    + apply nth_list_update_same; auto.
    + apply nth_error_None in E. apply nth_error_None. rewrite list_update_length. auto.
  - apply nth_list_update_other; auto.
Qed.

Lemma dict_mem_set_same {V} (d : dict V) k v : dict_mem (dict_set d k v) k = true.
Proof. unfold dict_mem. rewrite dict_get_set_same. reflexivity. Qed.

(** ** value_for against the specification *)
Lemma Resolves_fun scopes i name v1 v2 :
  Resolves scopes i name v1 -> Resolves scopes i name v2 -> v1 = v2.
Proof.
  intros H1; revert v2; induction H1 as [i s name Hn Hp Hd|i s p name v Hn Hp Hd H IH|i s name Hn Hp];
    intros v2 H2; inversion H2; subst;
    repeat match goal with
           | A : nth_error ?l ?i = Some ?x, B : nth_error ?l ?i = Some ?y |- _ =>
               rewrite A in B; inversion B; subst; clear B
           end; try congruence; auto.
  apply IH. assert (p = p0) by congruence. subst. assumption.
Qed.

Theorem value_for_resolves scopes :
  wf_scopes scopes ->
  forall fuel i name, (i < fuel)%nat -> (i < length scopes)%nat ->
  Resolves scopes i name (value_for_fuel scopes fuel i name).
Proof.
  intros Hwf fuel; induction fuel as [|fuel IH]; intros i name Hf Hi; [lia|].
  cbn [value_for_fuel].
  destruct (nth_error scopes i) as [s|] eqn:Hn; [|apply nth_error_None in Hn; lia].
  destruct (s_parent s) as [p|] eqn:Hp.
  - destruct (dict_mem (s_symbols s) name || dict_mem (s_code s) name) eqn:Hd.
    + apply R_here; auto. congruence.
    + pose proof (Hwf _ _ _ Hn Hp) as Hlt.
      eapply R_up; eauto. apply IH; lia.
  - apply R_root; auto.
Qed.

(** In particular the walk never runs out of fuel with [fuel = S index]. *)
Corollary value_for_total r name :
  wf_scopes (r_scopes r) -> (r_cur r < length (r_scopes r))%nat ->
  Resolves (r_scopes r) (r_cur r) name (value_for r name) /\ value_for r name <> OutOfFuel.
Proof.
  intros Hwf Hc. pose proof (value_for_resolves _ Hwf (S (r_cur r)) (r_cur r) name (Nat.lt_succ_diag_r _) Hc) as H.
  split; [exact H|]. unfold value_for.
  clear Hc. revert H. generalize (value_for_fuel (r_scopes r) (S (r_cur r)) (r_cur r) name).
  intros v H. induction H; auto; unfold scope_getitem;
    repeat match goal with |- context [match ?x with _ => _ end] => destruct x end; discriminate.
Qed.

(** ** Isolation: a definition made in scope [j] is seen only from [j] and the scopes it encloses *)
Lemma encloses_le scopes j i : wf_scopes scopes -> encloses scopes j i -> (j <= i)%nat.
Proof.
  intros Hwf H; induction H as [i|j i s p Hn Hp H IH]; [lia|].
  pose proof (Hwf _ _ _ Hn Hp). lia.
Qed.

Theorem update_invisible scopes j f :
  (forall s, s_parent (f s) = s_parent s) ->
  forall fuel i name, ~ encloses scopes j i ->
  value_for_fuel (list_update scopes j f) fuel i name = value_for_fuel scopes fuel i name.
Proof.
  intros Hf fuel; induction fuel as [|fuel IH]; intros i name Hne; [reflexivity|].
  cbn [value_for_fuel].
  assert (Hij : j <> i) by (intros ->; apply Hne; constructor).
  rewrite nth_list_update_other by assumption.
  destruct (nth_error scopes i) as [s|] eqn:Hn; [|reflexivity].
  destruct (s_parent s) as [p|] eqn:Hp; [|reflexivity].
  destruct (_ || _); [reflexivity|].
  apply IH. intros He. apply Hne. eapply E_parent; eauto.
Qed.

(** Enclosing and later-created sibling scopes never enclose [j]... stated with indices: a scope
    with a smaller index is not enclosed by [j], so it never sees [j]'s definitions. *)
Corollary update_invisible_outer scopes j f fuel i name :
  wf_scopes scopes -> (forall s, s_parent (f s) = s_parent s) -> (i < j)%nat ->
  value_for_fuel (list_update scopes j f) fuel i name = value_for_fuel scopes fuel i name.
Proof.
  intros Hwf Hf Hlt. apply update_invisible; auto.
  intros He. apply (encloses_le _ _ _ Hwf) in He. lia.
Qed.

(** add_symbol / add_label / add_code keep the parent pointers. *)
Lemma add_symbol_parent name v s : s_parent (scope_add_symbol name v s) = s_parent s. Proof. reflexivity. Qed.
Lemma add_label_parent name v s : s_parent (scope_add_label name v s) = s_parent s. Proof. reflexivity. Qed.
Lemma add_code_parent name c s : s_parent (scope_add_code name c s) = s_parent s. Proof. reflexivity. Qed.

Theorem add_symbol_isolated r name v i q :
  ~ encloses (r_scopes r) (r_cur r) i ->
  value_for (set_cur (add_symbol r name v) i) q = value_for (set_cur r i) q.
Proof.
  intros H. unfold value_for, add_symbol, upd_scope. cbn [r_scopes r_cur set_cur set_scopes].
  apply update_invisible; auto.
Qed.

Theorem add_label_isolated r name v i q :
  ~ encloses (r_scopes r) (r_cur r) i ->
  value_for (set_cur (add_label r name v) i) q = value_for (set_cur r i) q.
Proof.
  intros H. unfold value_for, add_label, upd_scope. cbn [r_scopes r_cur set_cur set_scopes].
  apply update_invisible; auto.
Qed.

(** ... and the definition IS seen from the defining scope itself. *)
Theorem add_symbol_visible r name v s :
  nth_error (r_scopes r) (r_cur r) = Some s -> dict_get (s_code s) name = None ->
  value_for (add_symbol r name v) name = Ok (VInt v).
Proof.
  intros Hn Hc. unfold value_for, add_symbol, upd_scope. cbn [r_scopes r_cur set_scopes value_for_fuel].
  rewrite (nth_list_update_same _ _ _ _ Hn).
  cbn [s_parent scope_add_symbol s_symbols s_code].
  rewrite dict_mem_set_same. cbn [orb].
  unfold scope_getitem. cbn [s_code s_symbols scope_add_symbol]. rewrite Hc, dict_get_set_same.
  destruct (s_parent s); reflexivity.
Qed.

(** ** Well-formedness is preserved by everything the passes and code generation do *)
Lemma wf_update scopes j f :
  (forall s, s_parent (f s) = s_parent s) -> wf_scopes scopes -> wf_scopes (list_update scopes j f).
Proof.
  intros Hf Hwf i s p Hn Hp. rewrite nth_list_update in Hn.
  destruct (Nat.eqb j i).
  - destruct (nth_error scopes i) as [s0|] eqn:E; cbn in Hn; [|discriminate].
    inversion Hn; subst. rewrite Hf in Hp. eapply Hwf; eauto.
  - eapply Hwf; eauto.
Qed.

Lemma wf_append scopes cur k :
  (cur < length scopes)%nat -> wf_scopes scopes -> wf_scopes (scopes ++ [new_scope (Some cur) k]).
Proof.
  intros Hc Hwf i s p Hn Hp.
  destruct (Nat.lt_ge_cases i (length scopes)) as [L|G].
  - rewrite nth_error_app1 in Hn by assumption. eapply Hwf; eauto.
  - rewrite nth_error_app2 in Hn by assumption.
    destruct (i - length scopes)%nat as [|d] eqn:E; cbn in Hn.
    + inversion Hn; subst. cbn in Hp. inversion Hp; subst. lia.
    + destruct d; discriminate.
Qed.

(** ** Export from a named scope *)
Definition dict_wf {V} (d : dict V) : Prop := NoDup (map fst d).

Lemma dict_get_in {V} (d : dict V) k v : dict_get d k = Some v -> exists k', str_eqb k k' = true /\ In (k', v) d.
Proof.
  induction d as [|[k0 v0] d IH]; cbn; [discriminate|].
  destruct (str_eqb k k0) eqn:E.
  - intros H; inversion H; subst. exists k0; auto.
  - intros H. destruct (IH H) as (k' & A & B). exists k'; auto.
Qed.

Lemma export_key_inj name k1 k2 : name ++ dot ++ k1 = name ++ dot ++ k2 -> k1 = k2.
Proof. intros H. apply app_inv_head in H. apply app_inv_head in H. exact H. Qed.

Lemma export_into_symbols_other name child parent q :
  (forall k v, In (k, v) child -> name ++ dot ++ k <> q) ->
  dict_get (s_symbols (export_into name child parent)) q = dict_get (s_symbols parent) q.
Proof.
  unfold export_into. revert parent; induction child as [|[k v] child IH]; intros parent H; [reflexivity|].
  cbn [fold_left fst snd]. rewrite IH by (intros k' v' Hin; apply (H k' v'); right; exact Hin).
  cbn [scope_add_symbol s_symbols]. apply dict_get_set_other.
  destruct (str_eqb q (name ++ dot ++ k)) eqn:E; [|reflexivity].
  apply str_eqb_eq in E. exfalso. apply (H k v (or_introl eq_refl)). symmetry; exact E.
Qed.

(** Every symbol (labels included) of the named scope becomes [scopename.k] in the parent, with
    the same value; nothing else of the parent changes. *)
Theorem export_into_spec name child parent k v :
  dict_wf child -> In (k, v) child ->
  dict_get (s_symbols (export_into name child parent)) (name ++ dot ++ k) = Some v.
Proof.
  unfold export_into, dict_wf. revert parent; induction child as [|[k0 v0] child IH]; intros parent Hwf Hin; [destruct Hin|].
  cbn [fold_left fst snd]. cbn [map fst] in Hwf. inversion Hwf as [|? ? Hnotin Hnd]; subst.
  destruct Hin as [E|Hin].
  - inversion E; subst.
    fold (export_into name child (scope_add_symbol (name ++ dot ++ k) v parent)).
    rewrite export_into_symbols_other.
    + cbn [scope_add_symbol s_symbols]. apply dict_get_set_same.
    + intros k' v' Hin' Heq. apply export_key_inj in Heq. subst.
      apply Hnotin. apply (in_map fst) in Hin'. exact Hin'.
  - apply IH; auto.
Qed.

Lemma export_into_parent name child parent : s_parent (export_into name child parent) = s_parent parent.
Proof.
  unfold export_into. revert parent; induction child as [|[k v] child IH]; intros parent; [reflexivity|].
  cbn [fold_left]. rewrite IH. reflexivity.
Qed.

Theorem restore_scope_exports r r' s p name k v :
  nth_error (r_scopes r) (r_cur r) = Some s -> s_parent s = Some p -> s_kind s = SNamed name ->
  (p < r_cur r)%nat -> dict_wf (s_symbols s) -> In (k, v) (s_symbols s) ->
  restore_scope r true = Ok r' ->
  r_cur r' = p /\
  exists ps, nth_error (r_scopes r') p = Some ps /\ dict_get (s_symbols ps) (name ++ dot ++ k) = Some v.
Proof.
  intros Hn Hp Hk Hlt Hwf Hin. unfold restore_scope. rewrite Hn, Hp, Hk.
  intros H; inversion H; subst; clear H. split; [reflexivity|].
  cbn [set_cur r_scopes upd_scope set_scopes].
  assert (Hpl : (p < length (r_scopes r))%nat).
  { apply Nat.lt_trans with (r_cur r); auto. apply nth_error_Some. congruence. }
  destruct (nth_error (r_scopes r) p) as [ps|] eqn:Hps; [|apply nth_error_None in Hps; lia].
  exists (export_into name (s_symbols s) ps). split.
  - apply nth_list_update_same; auto.
  - apply export_into_spec; auto.
Qed.

(** dict_set keeps keys distinct, so every symbol table the model builds is a well-formed dict. *)
Lemma dict_set_keys {V} (d : dict V) k v x :
  In x (map fst (dict_set d k v)) -> In x (map fst d) \/ x = k.
Proof.
  induction d as [|[k0 v0] d IH]; cbn.
  - intros [E|[]]; auto.
  - destruct (str_eqb k k0) eqn:E; cbn.
    + intros [A|B]; auto.
    + intros [A|B]; auto. destruct (IH B); auto.
Qed.

Lemma dict_set_wf {V} (d : dict V) k v : dict_wf d -> dict_wf (dict_set d k v).
Proof.
  unfold dict_wf. induction d as [|[k0 v0] d IH]; cbn.
  - intros _. constructor; [intros []|constructor].
  - intros H; inversion H as [|? ? Hnotin Hnd]; subst.
    destruct (str_eqb k k0) eqn:E; cbn.
    + constructor; auto.
    + constructor; auto. intros Hin. apply dict_set_keys in Hin. destruct Hin as [A|B]; auto.
      subst. rewrite str_eqb_refl in E. discriminate.
Qed.
