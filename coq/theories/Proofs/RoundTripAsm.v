(** Round trip, corollary: assembling the PRINTED text of a printable program is assembling the
    program (the AST-level function [assemble_program], i.e. [initial_resolver] then [assemble_ast]):
    same blocks at the same offsets, same labels, final resolver states with the same symbol tables,
    same exception class otherwise -- up to the positions of the tokens errors point at.
    So every AST-level theorem about [assemble_ast] / [assemble_program] on a printable program is a
    theorem about [assemble_source] on its text. *)
From Coq Require Import ZArith List Lia Bool Arith.
From A816 Require Import Model.Assemble Proofs.BusProofs Proofs.ParserProofs Proofs.LocationTextParse
  Proofs.LocationTextSim Proofs.LocationTextGen Proofs.LocationText Proofs.IncludeLoc Proofs.LayoutLink
  Proofs.LabelTextScan Proofs.RoundTripExpr Proofs.RoundTripParse Proofs.RoundTripProgram.
Import ListNotations.
Open Scope Z_scope.

Theorem assemble_printed t fs c fname prog :
  lexicon_rt (lv_lex t) = true -> printable (lv_lex t) prog = true ->
  result_same_up_to_positions (assemble_program (world_of t fs) c prog)
                              (assemble_source t fs c fname (print_program prog)).
Proof.
  intros Hrt HP.
  destruct (roundtrip (lv_lex t) fname (include_tokens t fs) include_depth prog Hrt (inc_no_fuel' t fs) HP)
    as (toks & lines & prog' & E & P & R).
  rewrite (assemble_source_ok _ _ _ _ _ _ _ E). unfold after_scan. rewrite P.
  pose proof (assemble_program_rel sameTV sameTV_type sameTV_value (world_of t fs) c prog prog' R) as HA.
  pose proof (assemble_program_shape (world_of t fs) c prog) as HSh.
  destruct (assemble_program (world_of t fs) c prog) as [o fin|f e|tk|kd s|],
           (assemble_program (world_of t fs) c prog') as [o' fin'|f' e'|tk'|kd' s'|]; cbn [aresrel] in HA; try contradiction;
    cbn [result_same_up_to_positions].
  - destruct HA as [(A & B & _) C]. auto.
  - exact HA.
  - exact I.
Qed.

(** on success: the very blocks and labels *)
Corollary assemble_printed_ok t fs c fname prog o fin :
  lexicon_rt (lv_lex t) = true -> printable (lv_lex t) prog = true ->
  assemble_program (world_of t fs) c prog = AOk o fin ->
  exists o' fin', assemble_source t fs c fname (print_program prog) = AOk o' fin' /\
                  o_blocks o' = o_blocks o /\ o_labels o' = o_labels o.
Proof.
  intros Hrt HP E. pose proof (assemble_printed t fs c fname prog Hrt HP) as H. rewrite E in H.
  destruct (assemble_source t fs c fname (print_program prog)) as [o' fin'| | | |];
    cbn [result_same_up_to_positions] in H; try contradiction.
  destruct H as (A & B & _). exists o', fin'. auto.
Qed.

(** in terms of [assemble_ast] (what the AST-level theorems of C02/C03/C07/C08/C09/C10 speak about) *)
Corollary assemble_ast_printed t fs c fname prog ri o :
  lexicon_rt (lv_lex t) = true -> printable (lv_lex t) prog = true ->
  initial_resolver (world_of t fs) c = Ok ri -> assemble_ast (world_of t fs) ri prog = Ok o ->
  exists o' fin', assemble_source t fs c fname (print_program prog) = AOk o' fin' /\
                  o_blocks o' = o_blocks o /\ o_labels o' = o_labels o.
Proof.
  intros Hrt HP Ei Ea. apply (assemble_printed_ok t fs c fname prog o (o_final o) Hrt HP).
  unfold assemble_program. rewrite Ei. unfold assemble_ast in Ea.
  destruct (code_gen_fuel (world_of t fs) cg_depth {| cg_r := ri; cg_macros := [] |} prog) as [[s ns]| |];
    cbn [bind fst snd] in Ea; try discriminate. rewrite Ea. reflexivity.
Qed.

(** failures of the AST-level assembly are failures of the text, with the same exception class *)
Corollary assemble_printed_exc t fs c fname prog k s :
  lexicon_rt (lv_lex t) = true -> printable (lv_lex t) prog = true ->
  assemble_program (world_of t fs) c prog = AExc k s ->
  exists s', assemble_source t fs c fname (print_program prog) = AExc k s'.
Proof.
  intros Hrt HP E. pose proof (assemble_printed t fs c fname prog Hrt HP) as H. rewrite E in H.
  destruct (assemble_source t fs c fname (print_program prog)) as [| | |k' s'|];
    cbn [result_same_up_to_positions] in H; try contradiction.
  destruct H as [<- _]. eauto.
Qed.

Print Assumptions assemble_printed.
Print Assumptions assemble_ast_printed.
