(** Round trip, non-vacuity: a program with a label, instructions (immediate, (e),y, operand-less),
    a data list, a string, a symbol, a block, a scope, a macro and its application, an [.if] with else
    and a [.for] is printable; its printed text is shown; scanning + parsing the text gives the
    program back (computed, and by the theorem); assembling the text gives the bytes of assembling
    the AST (computed, and by the theorem). *)
From Coq Require Import ZArith List Bool.
From A816 Require Import Spec.ExprSem Model.Assemble Oracle.Parseo Proofs.BusProofs Proofs.ExprProofs
  Proofs.DataText Proofs.InsnText Proofs.LabelTextScan Proofs.LocationTextParse Proofs.LayoutLink
  Proofs.RoundTripExpr Proofs.RoundTripScan Proofs.RoundTripParse Proofs.RoundTripProgram Proofs.RoundTripAsm.
Import ListNotations.
Open Scope Z_scope.

Definition demo_lx : lexicon :=
  mk_lexicon [s_lda; s_nop] [s_nop]
    [k_db; k_dw; k_dl; k_pointer; k_ascii; k_text; k_scope; k_macro; k_if; k_for; k_table; k_incbin].
Definition demo_live4 : live :=
  {| lv_low := lorom; lv_high := hirom; lv_busmap := [(0, true); (1, true); (2, false)];
     lv_optable := demo_optable; lv_prec := reference_prec; lv_lex := demo_lx |}.

Definition T (ty : ttype) (v : str) : token := mk_token ty v.
Definition nm (v : str) : expr := [en EK_term (T T_NUMBER v)].
Definition idn (v : str) : expr := [en EK_term (T T_IDENTIFIER v)].
Definition plus (a b : expr) : expr := a ++ [en EK_bin (T T_OPERATOR [43])] ++ b.
Definition s_start : str := [115; 116; 97; 114; 116].   (* start *)
Definition s_inner : str := [105; 110; 110; 101; 114].   (* inner *)
Definition s_x : str := [120].   (* x *)
Definition s_sc : str := [115; 99].   (* sc *)
Definition s_mm : str := [109; 109].   (* mm *)
Definition s_a : str := [97].   (* a *)
Definition s_b : str := [98].   (* b *)
Definition s_k : str := [107].   (* k *)
Definition s_y : str := [121].   (* y *)
Definition s_hi : str := [104; 105].   (* hi *)
Definition n8000 : str := [48; 120; 56; 48; 48; 48].   (* 0x8000 *)
Definition n0 : str := [48].   (* 0 *)
Definition n1 : str := [49].   (* 1 *)
Definition n2 : str := [50].   (* 2 *)
Definition n3 : str := [51].   (* 3 *)
Definition n5 : str := [53].   (* 5 *)
Definition n7 : str := [55].   (* 7 *)
Definition n8 : str := [56].   (* 8 *)
Definition n16 : str := [49; 54].   (* 16 *)

Definition nop_stmt : ast := AOpcode M_none s_nop None None None (T T_OPCODE_NAKED s_nop).
Definition db_kw : token := T T_KEYWORD k_db.

Definition demo_prog : list ast :=
  [ AStarEq (nm n8000) (T T_NUMBER n8000);
    ALabel s_start (T T_LABEL s_start);
    AOpcode M_immediate s_lda None (Some (nm n1)) None (T T_OPCODE s_lda);
    AOpcode M_indirect_indexed s_lda None (Some (nm n16)) (Some s_y) (T T_OPCODE s_lda);
    AData D_db [nm n1; plus (nm n2) (nm n3)] db_kw;
    AAscii s_hi (T T_KEYWORD k_ascii);
    ASymbol s_x (nm n5) (T T_IDENTIFIER s_x);
    ACompound [nop_stmt] (T T_LBRACE [123]);
    AScope s_sc [ALabel s_inner (T T_LABEL s_inner)] (T T_LBRACE [123]) (T T_IDENTIFIER s_sc);
    AMacro s_mm [s_a; s_b] [AData D_db [idn s_a] db_kw] (T T_LBRACE [123]) (T T_IDENTIFIER s_mm);
    AMacroApply s_mm [inl (nm n7); inl (nm n8)] (T T_IDENTIFIER s_mm);
    AIf (nm n1) [nop_stmt] (T T_IDENTIFIER k_else) (Some ([nop_stmt], T T_KEYWORD k_for)) (T T_NUMBER n1);
    AFor s_k (nm n0) (nm n2) [AData D_db [idn s_k] db_kw] (T T_EOF []) (T T_IDENTIFIER s_k) ].

Example demo_lexicon_ok : lexicon_rt demo_lx = true.
Proof. vm_compute. reflexivity. Qed.
Example demo_printable : printable demo_lx demo_prog = true.
Proof. vm_compute. reflexivity. Qed.

(** the printed text:
<<
*= 0x8000
start:
lda #1
lda (16),y
.db 1 , 2 + 3
.ascii 'hi'
x = 5
{
nop
}
.scope sc {
inner:
}
.macro mm ( a , b ) {
.db a
}
mm ( 7 , 8 )
.if 1 {
nop
} else {
nop
}
.for k := 0 , 2 {
.db k
}
>>
*)
Definition demo_src : str :=
  [42; 61; 32; 48; 120; 56; 48; 48; 48; 10; 115; 116; 97; 114; 116; 58; 10; 108; 100; 97; 32; 35; 49;
   10; 108; 100; 97; 32; 40; 49; 54; 41; 44; 121; 10; 46; 100; 98; 32; 49; 32; 44; 32; 50; 32; 43; 32;
   51; 10; 46; 97; 115; 99; 105; 105; 32; 39; 104; 105; 39; 10; 120; 32; 61; 32; 53; 10; 123; 10; 110;
   111; 112; 10; 125; 10; 46; 115; 99; 111; 112; 101; 32; 115; 99; 32; 123; 10; 105; 110; 110; 101;
   114; 58; 10; 125; 10; 46; 109; 97; 99; 114; 111; 32; 109; 109; 32; 40; 32; 97; 32; 44; 32; 98; 32;
   41; 32; 123; 10; 46; 100; 98; 32; 97; 10; 125; 10; 109; 109; 32; 40; 32; 55; 32; 44; 32; 56; 32; 41;
   10; 46; 105; 102; 32; 49; 32; 123; 10; 110; 111; 112; 10; 125; 32; 101; 108; 115; 101; 32; 123; 10;
   110; 111; 112; 10; 125; 10; 46; 102; 111; 114; 32; 107; 32; 58; 61; 32; 48; 32; 44; 32; 50; 32; 123;
   10; 46; 100; 98; 32; 107; 10; 125; 10].
Example demo_text : print_program demo_prog = demo_src.
Proof. vm_compute. reflexivity. Qed.

(** [file_info] positions erased *)
Definition st (t : token) : token := mk_token (t_type t) (t_value t).
Definition se (e : expr) : expr := map (fun n => en (en_kind n) (st (en_tok n))) e.
Fixpoint strip_ast (a : ast) : ast :=
  match a with
  | ABlock b fi => ABlock (map strip_ast b) (st fi)
  | ACompound b fi => ACompound (map strip_ast b) (st fi)
  | ALabel n fi => ALabel n (st fi)
  | AText s fi => AText s (st fi)
  | AAscii s fi => AAscii s (st fi)
  | AScope n b bf fi => AScope n (map strip_ast b) (st bf) (st fi)
  | AStarEq e fi => AStarEq (se e) (st fi)
  | AAtEq e fi => AAtEq (se e) (st fi)
  | AMap m fi => AMap m (st fi)
  | AIf c th tf el fi =>
      AIf (se c) (map strip_ast th) (st tf)
          (match el with Some (eb, ef) => Some (map strip_ast eb, st ef) | None => None end) (st fi)
  | AMacro n ps b bf fi => AMacro n ps (map strip_ast b) (st bf) (st fi)
  | AMacroApply n args fi =>
      AMacroApply n (map (fun x => match x with
                                   | inl e => inl (se e)
                                   | inr (b, t) => inr (map strip_ast b, st t)
                                   end) args) (st fi)
  | AData k es fi => AData k (map se es) (st fi)
  | ATable p fi => ATable p (st fi)
  | AIncludeIps p e fi => AIncludeIps p (se e) (st fi)
  | AIncbin p fi => AIncbin p (st fi)
  | ASymbol n e fi => ASymbol n (se e) (st fi)
  | AAssign n e fi => AAssign n (se e) (st fi)
  | ACodeLookup n fi => ACodeLookup n (st fi)
  | AStruct n fs fi => AStruct n fs (st fi)
  | AFor v lo hi b bf fi => AFor v (se lo) (se hi) (map strip_ast b) (st bf) (st fi)
  | AOpcode m op sz o idx fi => AOpcode m op sz (match o with Some e => Some (se e) | None => None end) idx (st fi)
  end.

(** computed: scanning and parsing the printed text gives the program, positions erased *)
Example demo_roundtrip_computed :
  match scan demo_lx [109] (print_program demo_prog) with
  | ScanOk toks _ =>
      match parse_program (parse_fuel (length toks)) 0 (fun _ => Err EFile) toks with
      | POk p => ast_eqb (ACompound (map strip_ast p) eof_token) (ACompound demo_prog eof_token)
      | _ => false
      end
  | _ => false
  end = true.
Proof. vm_compute. reflexivity. Qed.

(** by the theorem *)
Example demo_roundtrip_proved : exists toks lines prog',
  scan demo_lx [109] demo_src = ScanOk toks lines /\
  parse_program (parse_fuel (length toks)) 0 (fun _ => Err EFile) toks = POk prog' /\
  asrel sameTV demo_prog prog'.
Proof.
  rewrite <- demo_text.
  apply (roundtrip demo_lx [109] (fun _ => Err EFile) 0 demo_prog demo_lexicon_ok); [discriminate|exact demo_printable].
Qed.

(** assembling: the AST and its text give the same block and labels (computed) ... *)
Definition view (r : aresult) : option (list wblock * list (str * Z)) :=
  match r with AOk o _ => Some (o_blocks o, o_labels o) | _ => None end.
Example demo_assemble_computed :
  view (assemble_program (world_of demo_live4 no_srcfiles) demo_cfg demo_prog)
  = Some ([([169; 1; 177; 16; 1; 5; 104; 105; 234; 7; 234; 0; 1], 0)], [(s_start, 32768); (s_inner, 32777)]) /\
  view (assemble_source demo_live4 no_srcfiles demo_cfg [109] demo_src)
  = view (assemble_program (world_of demo_live4 no_srcfiles) demo_cfg demo_prog).
Proof. vm_compute. split; reflexivity. Qed.

(** ... and by the theorem *)
Example demo_assemble_proved :
  result_same_up_to_positions (assemble_program (world_of demo_live4 no_srcfiles) demo_cfg demo_prog)
                              (assemble_source demo_live4 no_srcfiles demo_cfg [109] demo_src).
Proof. rewrite <- demo_text. apply assemble_printed; [exact demo_lexicon_ok|exact demo_printable]. Qed.

Print Assumptions demo_roundtrip_proved.
Print Assumptions demo_assemble_proved.
