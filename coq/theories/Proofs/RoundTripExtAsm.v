(** Round trip, EXTENDED class: assembling the printed text is assembling the program
    (Proofs/RoundTripAsm.v for the class of Proofs/RoundTripExtParse.v; [.include] goes through
    [include_tokens t fs], the files of the file system). *)
From Coq Require Import ZArith List Lia Bool Arith.
From A816 Require Import Model.Assemble Proofs.BusProofs Proofs.ParserProofs Proofs.LocationTextParse
  Proofs.LocationTextSim Proofs.LocationTextGen Proofs.LocationText Proofs.IncludeLoc Proofs.LayoutLink
  Proofs.LabelTextScan Proofs.RoundTripExtExpr Proofs.RoundTripExtParse Proofs.RoundTripExtProgram.
Import ListNotations.
Open Scope Z_scope.

Theorem assemble_printed_ext pth incd t fs c fname prog :
  lexicon_rt (lv_lex t) = true ->
  (forall b, incd b = true ->
     exists b', inc_sub include_depth (include_tokens t fs) (pth b) = POk b' /\ asrel sameTV b b') ->
  printable pth incd (lv_lex t) prog = true ->
  result_same_up_to_positions (assemble_program (world_of t fs) c prog)
                              (assemble_source t fs c fname (print_program pth prog)).
Proof.
  intros Hrt Hsub HP.
  destruct (roundtrip_ext pth incd (lv_lex t) fname (include_tokens t fs) include_depth prog Hrt (inc_no_fuel' t fs) Hsub HP)
    as (toks & lines & prog' & E & P & R).
  rewrite (assemble_source_ok _ _ _ _ _ _ _ E). unfold after_scan. rewrite P.
  pose proof (assemble_program_rel sameTV sameTV_type sameTV_value (world_of t fs) c prog prog' R) as HA.
  pose proof (assemble_program_shape (world_of t fs) c prog) as HSh.
  destruct (assemble_program (world_of t fs) c prog) as [o fin|f e|tk|kd s|],
           (assemble_program (world_of t fs) c prog') as [o' fin'|f' e'|tk'|kd' s'|]; cbn [aresrel] in HA; try contradiction;
    cbn [result_same_up_to_positions].
  - destruct HA as [(A & B & _) C]. auto.
  - exact HA.
  - exact I.
Qed.

Print Assumptions assemble_printed_ext.
