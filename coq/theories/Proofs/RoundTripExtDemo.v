(** Round trip, EXTENDED class, non-vacuity: .map, .include, a dotted name, a code-block macro argument
    with a code lookup, .include_ips; and what cannot round-trip. *)
From Coq Require Import ZArith List Bool Lia.
From A816 Require Proofs.RoundTripDemo.
From A816 Require Import Spec.ExprSem Model.Assemble Oracle.Parseo Proofs.BusProofs Proofs.ExprProofs
  Proofs.ExprLex Proofs.DataText Proofs.InsnText Proofs.LabelTextScan Proofs.LocationTextParse Proofs.LayoutLink
  Proofs.RoundTripExtExpr Proofs.RoundTripExtScan Proofs.RoundTripExtParse Proofs.RoundTripExtProgram Proofs.RoundTripExtAsm.
Import ListNotations.
Open Scope Z_scope.

Definition T (ty : ttype) (v : str) : token := mk_token ty v.
Definition nm (v : str) : expr := [en EK_term (T T_NUMBER v)].
Definition idn (v : str) : expr := [en EK_term (T T_IDENTIFIER v)].
Definition s_sc : str := [115; 99].  Definition s_mm : str := [109; 109].
Definition n8000 : str := [48; 120; 56; 48; 48; 48].  Definition n0 : str := [48].
Definition s_lab : str := [108; 97; 98].   (* lab *)
Definition s_c : str := [99].   (* c *)
Definition s_inc : str := [105; 110; 99; 46; 115].   (* inc.s *)
Definition s_ips : str := [112; 46; 105; 112; 115].   (* p.ips *)
Definition s_sclab : str := [115; 99; 46; 108; 97; 98].   (* sc.lab *)
Definition n111 : str := [49; 49; 49].   (* 111 *)
Definition n32768 : str := [51; 50; 55; 54; 56].   (* 32768 *)
Definition n65535 : str := [54; 53; 53; 51; 53].   (* 65535 *)

Definition xlx : lexicon :=
  mk_lexicon [s_lda; s_nop] [s_nop]
    [k_db; k_dw; k_dl; k_pointer; k_ascii; k_text; k_scope; k_macro; k_if; k_for; k_table; k_incbin;
     k_include; k_include_ips; k_map].
Definition xlive : live :=
  {| lv_low := lorom; lv_high := hirom; lv_busmap := [(0, true); (1, true); (2, false)];
     lv_optable := demo_optable; lv_prec := reference_prec; lv_lex := xlx |}.
Definition xfs : srcfiles := {| sf_text := [(s_inc, [110; 111; 112; 10])]; sf_bin := []; sf_tbl := [] |}.   (* inc.s = "nop\n" *)

Definition nop_stmt : ast := AOpcode M_none s_nop None None None (T T_OPCODE_NAKED s_nop).
Definition lb : token := T T_LBRACE [123].
Definition xpth (_ : list ast) : str := s_inc.
Definition xincd (b : list ast) : bool :=
  match b with
  | [AOpcode M_none op None None None fi] => str_eqb op s_nop && fi_is fi (T_OPCODE_NAKED, s_nop)
  | _ => false
  end.

Definition the_map : mapargs :=
  {| ma_identifier := Some 1; ma_writable := None; ma_bank_range := Some (0, Some 111);
     ma_addr_range := Some (32768, Some 65535); ma_mask := Some (32768, None); ma_mirror_bank_range := None |}.

Definition core : list ast :=
  [ AStarEq (nm n8000) (T T_NUMBER n8000);
    ABlock [nop_stmt] (T T_KEYWORD k_include);
    AScope s_sc [ALabel s_lab (T T_LABEL s_lab)] lb (T T_IDENTIFIER s_sc);
    AData D_dw [idn s_sclab] (T T_KEYWORD k_dw);
    AMacro s_mm [s_c] [ACodeLookup s_c (T T_IDENTIFIER s_c)] lb (T T_IDENTIFIER s_mm);
    AMacroApply s_mm [inr ([nop_stmt], lb)] (T T_IDENTIFIER s_mm) ].
Definition full : list ast :=
  AMap the_map (T T_IDENTIFIER k_identifier) :: core ++
  [AIncludeIps s_ips (nm n0) (T T_QUOTED_STRING (39 :: s_ips ++ [39]))].

(** the printed text of [full]:
<<
.map identifier = 1 bank_range = 0 , 111 addr_range = 32768 , 65535 mask = 32768
*= 0x8000
.include 'inc.s'
.scope sc {
lab:
}
.dw sc.lab
.macro mm ( c ) {
{{ c }}
}
mm ( {
nop
} )
.include_ips 'p.ips' , 0
>>
*)
Definition full_src : str :=
  [46; 109; 97; 112; 32; 105; 100; 101; 110; 116; 105; 102; 105; 101; 114; 32; 61; 32; 49; 32; 98; 97;
   110; 107; 95; 114; 97; 110; 103; 101; 32; 61; 32; 48; 32; 44; 32; 49; 49; 49; 32; 97; 100; 100; 114;
   95; 114; 97; 110; 103; 101; 32; 61; 32; 51; 50; 55; 54; 56; 32; 44; 32; 54; 53; 53; 51; 53; 32; 109;
   97; 115; 107; 32; 61; 32; 51; 50; 55; 54; 56; 10; 42; 61; 32; 48; 120; 56; 48; 48; 48; 10; 46; 105;
   110; 99; 108; 117; 100; 101; 32; 39; 105; 110; 99; 46; 115; 39; 10; 46; 115; 99; 111; 112; 101; 32;
   115; 99; 32; 123; 10; 108; 97; 98; 58; 10; 125; 10; 46; 100; 119; 32; 115; 99; 46; 108; 97; 98; 10;
   46; 109; 97; 99; 114; 111; 32; 109; 109; 32; 40; 32; 99; 32; 41; 32; 123; 10; 123; 123; 32; 99; 32;
   125; 125; 10; 125; 10; 109; 109; 32; 40; 32; 123; 10; 110; 111; 112; 10; 125; 32; 41; 10; 46; 105;
   110; 99; 108; 117; 100; 101; 95; 105; 112; 115; 32; 39; 112; 46; 105; 112; 115; 39; 32; 44; 32; 48;
   10].
Example xlexicon_ok : lexicon_rt xlx = true. Proof. vm_compute. reflexivity. Qed.
Example ext_printable : printable xpth xincd xlx core = true /\ printable xpth xincd xlx full = true.
Proof. vm_compute. split; reflexivity. Qed.
Example ext_text : print_program xpth full = full_src.
Proof. vm_compute. reflexivity. Qed.

(** computed: scan + parse (the include resolved through the file system) gives [full], positions erased *)
Example ext_roundtrip_computed :
  match scan xlx [109] full_src with
  | ScanOk toks _ =>
      match parse_program (parse_fuel (length toks)) include_depth (include_tokens xlive xfs) toks with
      | POk p => ast_eqb (ACompound (map RoundTripDemo.strip_ast p) eof_token) (ACompound full eof_token)
      | _ => false
      end
  | _ => false
  end = true.
Proof. vm_compute. reflexivity. Qed.

(** the included body is what the nested parse of inc.s returns *)
Lemma ext_included : forall b, xincd b = true ->
  exists b', inc_sub include_depth (include_tokens xlive xfs) (xpth b) = POk b' /\ asrel sameTV b b'.
Proof.
  intros b Hb. destruct b as [|a r]; [discriminate|]. destruct a; try discriminate.
  destruct mode; try discriminate. destruct size; try discriminate. destruct operand; try discriminate.
  destruct index; try discriminate. destruct r; try discriminate. cbn [xincd] in Hb.
  apply andb_true_iff in Hb as [H1 H2]. apply str_eqb_true'' in H1. subst opcode.
  eexists. split; [vm_compute; reflexivity|].
  constructor; [|constructor]. apply R_Opcode; [exact I|]. apply (fi_same _ _ _ H2). reflexivity.
Qed.

(** by the theorem *)
Example ext_roundtrip_proved : exists toks lines prog',
  scan xlx [109] full_src = ScanOk toks lines /\
  parse_program (parse_fuel (length toks)) include_depth (include_tokens xlive xfs) toks = POk prog' /\
  asrel sameTV full prog'.
Proof.
  rewrite <- ext_text. destruct ext_printable as [_ P].
  apply (roundtrip_ext xpth xincd xlx [109] (include_tokens xlive xfs) include_depth full xlexicon_ok
           (inc_no_fuel' xlive xfs) ext_included P).
Qed.

(** assembling [core] (the part that needs no binary file): AST and printed text, computed and proved *)
Definition view (r : aresult) : option (list wblock * list (str * Z)) :=
  match r with AOk o _ => Some (o_blocks o, o_labels o) | _ => None end.
Example ext_assemble_computed :
  view (assemble_program (world_of xlive xfs) demo_cfg core) = Some ([([234; 1; 128; 234], 0)], [(s_lab, 32769)]) /\
  view (assemble_source xlive xfs demo_cfg [109] (print_program xpth core)) = Some ([([234; 1; 128; 234], 0)], [(s_lab, 32769)]).
Proof. vm_compute. split; reflexivity. Qed.
Example ext_assemble_proved :
  result_same_up_to_positions (assemble_program (world_of xlive xfs) demo_cfg core)
                              (assemble_source xlive xfs demo_cfg [109] (print_program xpth core)).
Proof.
  destruct ext_printable as [P _].
  exact (assemble_printed_ext xpth xincd xlive xfs demo_cfg [109] core xlexicon_ok ext_included P).
Qed.

(* ------------------------------------------------------------------------------------------ *)
(** * What cannot round-trip *)

Definition klx : lexicon := mk_lexicon [s_lda; s_nop] [s_nop] [k_db; k_struct].
Definition scan_tv (text : str) : option (list ExprLex.tk) :=
  match scan klx [109] text with ScanOk toks _ => Some (map tv toks) | _ => None end.

(** '/', '|', '~' in statement context: ".db 1 / 2" is a scanner error (lex_initial knows no such
    character), so a data expression with these operators has no source text *)
Example no_slash_in_statement : scan_tv [46; 100; 98; 32; 49; 32; 47; 32; 50; 10] = None.
Proof. vm_compute. reflexivity. Qed.
Example no_bar_in_statement : scan_tv [46; 100; 98; 32; 49; 32; 124; 32; 50; 10] = None.
Proof. vm_compute. reflexivity. Qed.
(** ">=" is read as ">" followed by "=" *)
Example ge_is_two_tokens :
  scan_tv [46; 100; 98; 32; 49; 32; 62; 61; 32; 50; 10]
  = Some [(T_KEYWORD, k_db); (T_NUMBER, [49]); (T_OPERATOR, [62]); (T_EQUAL, [61]); (T_NUMBER, [50]); (T_EOF, [])].
Proof. vm_compute. reflexivity. Qed.
(** BOOLEAN terms: the scanner never produces the token; "true" is an identifier *)
Example boolean_is_identifier :
  scan_tv [46; 100; 98; 32; 116; 114; 117; 101; 10]
  = Some [(T_KEYWORD, k_db); (T_IDENTIFIER, [116; 114; 117; 101]); (T_EOF, [])].
Proof. vm_compute. reflexivity. Qed.
(** [.struct] with fields: the scanner never produces a TYPE token, so ".struct s { byte x }" is a
    ParserSyntaxError (at "byte") and no text parses to an [AStruct] with fields *)
Example struct_fields_do_not_parse :
  match scan klx [109] [46; 115; 116; 114; 117; 99; 116; 32; 115; 32; 123; 10; 98; 121; 116; 101; 32; 120; 10; 125; 10] with
  | ScanOk toks _ =>
      match parse_program (parse_fuel (length toks)) 0 (fun _ => Err EFile) toks with
      | PErr EParse (Some t) => Some (tv t)
      | _ => None
      end
  | _ => None
  end = Some (T_IDENTIFIER, [98; 121; 116; 101]).
Proof. vm_compute. reflexivity. Qed.
(** a label named "else" after an [.if] without else is taken for the else branch *)
Example else_label_captured :
  match scan (mk_lexicon [s_nop] [s_nop] [k_if]) [109]
          [46; 105; 102; 32; 49; 32; 123; 10; 125; 10; 101; 108; 115; 101; 58; 10; 110; 111; 112; 10] with
  | ScanOk toks _ =>
      match parse_program (parse_fuel (length toks)) 0 (fun _ => Err EFile) toks with
      | PErr EParse (Some t) => Some (tv t)
      | _ => None
      end
  | _ => None
  end = Some (T_OPCODE_NAKED, s_nop).
Proof. vm_compute. reflexivity. Qed.

Print Assumptions ext_roundtrip_proved.
Print Assumptions ext_assemble_proved.
