(** Round trip, EXTENDED class, layer (a): expressions.  A copy of Proofs/RoundTripExpr.v in which an
    identifier of an expression may also be a DOTTED name  first.second  ([eident_b]): [first] a plain
    name that is not a mnemonic, [second] letters / digits / '_' (what lex_identifier emits as ONE
    IDENTIFIER token, in an operand and in statement context).  Everything else as in the original. *)
From Coq Require Import ZArith NArith List Bool Lia Arith.
From A816 Require Import Spec.ExprSem Model.Scanner Model.Parser Proofs.ParserProofs Proofs.ExprProofs
  Proofs.ExprLex Proofs.ExprLexParse Proofs.DataTextScan Proofs.DataTextParse Proofs.LabelTextScan.
Import ListNotations.
Open Scope Z_scope.

(* ------------------------------------------------------------------------------------------ *)
(** * Tokens up to positions *)

Definition etv (n : enode) : tk := tv (en_tok n).
Definition ntv (n : enode) : ekind * tk := (en_kind n, etv n).
Definition strip_tok (t : token) : token := mk_token (t_type t) (t_value t).

Lemma cons_inj {A} (x y : A) a b : x :: a = y :: b -> x = y /\ a = b.
Proof. intros H. injection H. auto. Qed.

Lemma ntv_strip a b : ntv a = ntv b -> en_strip a = en_strip b.
Proof.
  unfold ntv, etv, tv, en_strip. intros H. injection H as H1 H2 H3. rewrite H1, H2, H3. reflexivity.
Qed.
Lemma map_ntv_strip : forall a b, map ntv a = map ntv b -> map en_strip a = map en_strip b.
Proof.
  induction a as [|x a IH]; intros [|y b] H; cbn [map] in *; try discriminate; [reflexivity|].
  apply cons_inj in H as [H1 H2]. rewrite (ntv_strip _ _ H1), (IH _ H2). reflexivity.
Qed.
Lemma strip_tok_tv a b : tv a = tv b -> strip_tok a = strip_tok b.
Proof. unfold tv, strip_tok. intros H. injection H as -> ->. reflexivity. Qed.

(** the tokens [l] (types and values) are at positions [pos ..] of [ts] *)
Fixpoint At (ts : list token) (pos : nat) (l : list tk) : Prop :=
  match l with
  | [] => True
  | t :: r => tv (cur ts pos) = t /\ At ts (S pos) r
  end.

Lemma At_app ts : forall a b pos, At ts pos (a ++ b) <-> At ts pos a /\ At ts (pos + length a) b.
Proof.
  induction a as [|x a IH]; intros b pos; cbn [app At length].
  - rewrite Nat.add_0_r. tauto.
  - rewrite (IH b (S pos)). replace (S pos + length a)%nat with (pos + S (length a))%nat by lia. tauto.
Qed.

Lemma At_nth ts : forall l pos j, At ts pos l -> (j < length l)%nat -> tv (cur ts (pos + j)) = nth j l (T_EOF, []).
Proof.
  induction l as [|x l IH]; intros pos j H Hj; cbn [length] in Hj; [lia|].
  destruct H as [H1 H2]. destruct j as [|j]; cbn [nth].
  - rewrite Nat.add_0_r. exact H1.
  - replace (pos + S j)%nat with (S pos + j)%nat by lia. apply IH; [exact H2|lia].
Qed.

(** the nodes of [e] with the tokens found at [pos ..] *)
Fixpoint retok (ts : list token) (pos : nat) (e : list enode) : list enode :=
  match e with
  | [] => []
  | n :: r => en (en_kind n) (cur ts pos) :: retok ts (S pos) r
  end.

Lemma retok_length ts : forall e pos, length (retok ts pos e) = length e.
Proof. induction e as [|n e IH]; intros pos; cbn [retok length]; [reflexivity|]. rewrite IH. reflexivity. Qed.

Lemma retok_seg ts : forall e pos, seg ts pos (map en_tok (retok ts pos e)).
Proof.
  induction e as [|n e IH]; intros pos j Hj; cbn [retok map length] in *; [lia|].
  destruct j as [|j]; cbn [nth en_tok en].
  - rewrite Nat.add_0_r. reflexivity.
  - replace (pos + S j)%nat with (S pos + j)%nat by lia. apply IH. lia.
Qed.

Lemma retok_ntv ts : forall e pos, At ts pos (map etv e) -> map ntv (retok ts pos e) = map ntv e.
Proof.
  induction e as [|n e IH]; intros pos H; cbn [retok map At] in *; [reflexivity|].
  destruct H as [H1 H2]. rewrite (IH _ H2). f_equal. unfold ntv, etv. cbn [en en_kind en_tok]. rewrite H1. reflexivity.
Qed.

(* ------------------------------------------------------------------------------------------ *)
(** * [PE] only looks at kinds, types and values *)

Lemma en_eta n : n = en (en_kind n) (en_tok n).
Proof. destruct n; reflexivity. Qed.

Lemma ntv_en k t n : ntv n = ntv (en k t) -> exists t', n = en k t' /\ tv t' = tv t.
Proof.
  unfold ntv, etv, tv. cbn [en en_kind en_tok]. intros H. injection H as H1 H2 H3. exists (en_tok n).
  split; [rewrite (en_eta n) at 1; rewrite H1; reflexivity|]. rewrite H2, H3. reflexivity.
Qed.

Lemma tv_ty a b : tv a = tv b -> t_type a = t_type b.
Proof. unfold tv. congruence. Qed.
Lemma tv_val a b : tv a = tv b -> t_value a = t_value b.
Proof. unfold tv. congruence. Qed.

Lemma term_ty_tv a b : tv a = tv b -> term_ty b -> term_ty a.
Proof. intros H [T|T]; [left|right]; rewrite (tv_ty _ _ H); exact T. Qed.
Lemma un_tok_tv a b : tv a = tv b -> un_tok b -> un_tok a.
Proof. intros H [T V]. split; [rewrite (tv_ty _ _ H); exact T|rewrite (tv_val _ _ H); exact V]. Qed.

Lemma PE_ntv l : PE l -> forall l', map ntv l' = map ntv l -> PE l'.
Proof.
  induction 1 as [t Ht|t o s Ht Ho Hs IH|lp s rp Hl Hr Hs IH|lp s rp o s' Hl Hr Ho Hs IHs Hs' IHs'|u s Hu Hs IH];
    intros l' E.
  - destruct l' as [|n [|? ?]]; try discriminate E. cbn [map] in E. apply cons_inj in E as [E _].
    destruct (ntv_en _ _ _ E) as (?t & -> & T). apply PE_term. eapply term_ty_tv; eassumption.
  - destruct l' as [|n [|m r]]; try discriminate E. cbn [map] in E.
    apply cons_inj in E as [E1 E]. apply cons_inj in E as [E2 E3].
    destruct (ntv_en _ _ _ E1) as (?t & -> & T1). destruct (ntv_en _ _ _ E2) as (?t & -> & T2).
    apply PE_term_op; [eapply term_ty_tv; eassumption|rewrite (tv_ty _ _ T2); exact Ho|apply IH; exact E3].
  - destruct l' as [|n r]; try discriminate E. cbn [map] in E. apply cons_inj in E as [E1 E2].
    rewrite map_app in E2. apply map_eq_app in E2 as (r1 & r2 & -> & E21 & E22).
    destruct r2 as [|m [|? ?]]; try discriminate E22. cbn [map] in E22. apply cons_inj in E22 as [E22 _].
    destruct (ntv_en _ _ _ E1) as (?t & -> & T1). destruct (ntv_en _ _ _ E22) as (?t & -> & T2).
    apply PE_par; [rewrite (tv_ty _ _ T1); exact Hl|rewrite (tv_ty _ _ T2); exact Hr|apply IH; exact E21].
  - destruct l' as [|n r]; try discriminate E. cbn [map] in E. apply cons_inj in E as [E1 E2].
    rewrite map_app in E2. apply map_eq_app in E2 as (r1 & r2 & -> & E21 & E22).
    destruct r2 as [|m [|mo r3]]; try discriminate E22. cbn [map] in E22.
    apply cons_inj in E22 as [E22 E2x]. apply cons_inj in E2x as [E23 E24].
    destruct (ntv_en _ _ _ E1) as (?t & -> & T1).
    destruct (ntv_en _ _ _ E22) as (?t & -> & T2). destruct (ntv_en _ _ _ E23) as (?t & -> & T3).
    apply PE_par_op; [rewrite (tv_ty _ _ T1); exact Hl|rewrite (tv_ty _ _ T2); exact Hr|
                      rewrite (tv_ty _ _ T3); exact Ho|apply IHs; exact E21|apply IHs'; exact E24].
  - destruct l' as [|n r]; try discriminate E. cbn [map] in E. apply cons_inj in E as [E1 E2].
    destruct (ntv_en _ _ _ E1) as (?t & -> & T1).
    apply PE_un; [eapply un_tok_tv; eassumption|apply IH; exact E2].
Qed.

(** the parser on the tokens of a [PE] list, anywhere in any token list *)
Lemma pexpression_at ts e pos f : PE e -> At ts pos (map etv e) ->
  is_ty (cur ts (pos + length e)) T_OPERATOR = false -> (length e < f)%nat ->
  pexpression ts f pos = POk (retok ts pos e, (pos + length e)%nat) /\
  map en_strip (retok ts pos e) = map en_strip e.
Proof.
  intros P A St HF. pose proof (retok_ntv ts e pos A) as N. split; [|apply map_ntv_strip; exact N].
  pose proof (PE_ntv e P _ N) as P'.
  rewrite <- (retok_length ts e pos).
  apply (pexpression_PE ts (retok ts pos e) P' pos f (retok_seg ts e pos)); rewrite retok_length; assumption.
Qed.

(* ------------------------------------------------------------------------------------------ *)
(** * The boolean shape test *)

Definition ekind_eqb (a b : ekind) : bool :=
  match a, b with
  | EK_term, EK_term | EK_bin, EK_bin | EK_un, EK_un | EK_par, EK_par => true
  | _, _ => false
  end.
Lemma ekind_eqb_true a b : ekind_eqb a b = true -> a = b.
Proof. destruct a, b; cbn; congruence. Qed.
Lemma ttype_eqb_true a b : ttype_eqb a b = true -> a = b.
Proof. destruct a, b; cbn; congruence. Qed.

Definition en_ty (n : enode) : ttype := t_type (en_tok n).
Definition en_v (n : enode) : str := t_value (en_tok n).
Definition is_term (n : enode) : bool :=
  ekind_eqb (en_kind n) EK_term && (ttype_eqb (en_ty n) T_NUMBER || ttype_eqb (en_ty n) T_IDENTIFIER).
Definition is_binop (n : enode) : bool := ekind_eqb (en_kind n) EK_bin && ttype_eqb (en_ty n) T_OPERATOR.
Definition is_unop (n : enode) : bool :=
  ekind_eqb (en_kind n) EK_un && ttype_eqb (en_ty n) T_OPERATOR && (str_eqb (en_v n) [45] || str_eqb (en_v n) [126]).
Definition is_lp (n : enode) : bool := ekind_eqb (en_kind n) EK_par && ttype_eqb (en_ty n) T_LPAREN.
Definition is_rp (n : enode) : bool := ekind_eqb (en_kind n) EK_par && ttype_eqb (en_ty n) T_RPAREN.

Definition pe_tail (k : list enode -> option (list enode)) (r : list enode) : option (list enode) :=
  match r with
  | o :: r2 => if is_binop o then k r2 else Some r
  | [] => Some r
  end.

(** consume one greedy PE from the front; [Some rest] *)
Fixpoint pe_rest (fuel : nat) (l : list enode) : option (list enode) :=
  match fuel with
  | O => None
  | S f =>
      match l with
      | [] => None
      | n :: r =>
          if is_term n then pe_tail (pe_rest f) r
          else if is_lp n then
            match pe_rest f r with
            | Some (m :: r') => if is_rp m then pe_tail (pe_rest f) r' else None
            | _ => None
            end
          else if is_unop n then pe_rest f r
          else None
      end
  end.

Definition pe_b (l : list enode) : bool :=
  match pe_rest (S (length l)) l with Some [] => true | _ => false end.

Lemma is_term_en n : is_term n = true -> n = en EK_term (en_tok n) /\ term_ty (en_tok n).
Proof.
  unfold is_term, en_ty. intros H. apply andb_true_iff in H as [K T]. apply ekind_eqb_true in K.
  split; [rewrite (en_eta n) at 1; rewrite K; reflexivity|].
  apply orb_true_iff in T as [T|T]; apply ttype_eqb_true in T; [left|right]; exact T.
Qed.
Lemma is_binop_en n : is_binop n = true -> n = en EK_bin (en_tok n) /\ t_type (en_tok n) = T_OPERATOR.
Proof.
  unfold is_binop, en_ty. intros H. apply andb_true_iff in H as [K T]. apply ekind_eqb_true in K.
  apply ttype_eqb_true in T. split; [rewrite (en_eta n) at 1; rewrite K; reflexivity|exact T].
Qed.
Lemma is_unop_en n : is_unop n = true -> n = en EK_un (en_tok n) /\ un_tok (en_tok n).
Proof.
  unfold is_unop, en_ty, en_v. intros H. apply andb_true_iff in H as [H V]. apply andb_true_iff in H as [K T].
  apply ekind_eqb_true in K. apply ttype_eqb_true in T.
  split; [rewrite (en_eta n) at 1; rewrite K; reflexivity|]. split; [exact T|].
  apply orb_true_iff in V as [V|V]; apply str_eqb_true'' in V; [left|right]; exact V.
Qed.
Lemma is_lp_en n : is_lp n = true -> n = en EK_par (en_tok n) /\ t_type (en_tok n) = T_LPAREN.
Proof.
  unfold is_lp, en_ty. intros H. apply andb_true_iff in H as [K T]. apply ekind_eqb_true in K.
  apply ttype_eqb_true in T. split; [rewrite (en_eta n) at 1; rewrite K; reflexivity|exact T].
Qed.
Lemma is_rp_en n : is_rp n = true -> n = en EK_par (en_tok n) /\ t_type (en_tok n) = T_RPAREN.
Proof.
  unfold is_rp, en_ty. intros H. apply andb_true_iff in H as [K T]. apply ekind_eqb_true in K.
  apply ttype_eqb_true in T. split; [rewrite (en_eta n) at 1; rewrite K; reflexivity|exact T].
Qed.

Lemma pe_rest_sound : forall fuel l r, pe_rest fuel l = Some r -> exists p, l = p ++ r /\ PE p.
Proof.
  induction fuel as [|f IH]; intros l r H; [discriminate|]. cbn [pe_rest] in H.
  destruct l as [|n l']; [discriminate|].
  destruct (is_term n) eqn:Et.
  { destruct (is_term_en n Et) as [En Tn]. unfold pe_tail in H.
    destruct l' as [|o r2].
    - injection H as <-. exists [n]. split; [reflexivity|]. rewrite En. apply PE_term; exact Tn.
    - destruct (is_binop o) eqn:Eo.
      + destruct (is_binop_en o Eo) as [Eo' To]. destruct (IH _ _ H) as (p & -> & Pp).
        exists (n :: o :: p). split; [reflexivity|]. rewrite En, Eo'. apply PE_term_op; assumption.
      + injection H as <-. exists [n]. split; [reflexivity|]. rewrite En. apply PE_term; exact Tn. }
  destruct (is_lp n) eqn:El.
  { destruct (is_lp_en n El) as [En Tn].
    destruct (pe_rest f l') as [[|m r']|] eqn:E1; try discriminate.
    destruct (is_rp m) eqn:Er; [|discriminate]. destruct (is_rp_en m Er) as [Em Tm].
    destruct (IH _ _ E1) as (p & -> & Pp). unfold pe_tail in H.
    destruct r' as [|o r2].
    - injection H as <-. exists (n :: p ++ [m]). split; [cbn [app]; rewrite <- app_assoc; reflexivity|].
      rewrite En, Em. apply PE_par; assumption.
    - destruct (is_binop o) eqn:Eo.
      + destruct (is_binop_en o Eo) as [Eo' To]. destruct (IH _ _ H) as (p2 & -> & Pp2).
        exists (n :: p ++ m :: o :: p2). split; [cbn [app]; rewrite <- app_assoc; reflexivity|].
        rewrite En, Em, Eo'. apply PE_par_op; assumption.
      + injection H as <-. exists (n :: p ++ [m]). split; [cbn [app]; rewrite <- app_assoc; reflexivity|].
        rewrite En, Em. apply PE_par; assumption. }
  destruct (is_unop n) eqn:Eu; [|discriminate].
  destruct (is_unop_en n Eu) as [En Tn]. destruct (IH _ _ H) as (p & -> & Pp).
  exists (n :: p). split; [reflexivity|]. rewrite En. apply PE_un; assumption.
Qed.

Lemma pe_b_PE l : pe_b l = true -> PE l.
Proof.
  unfold pe_b. destruct (pe_rest (S (length l)) l) as [[|? ?]|] eqn:E; try discriminate. intros _.
  destruct (pe_rest_sound _ _ _ E) as (p & -> & P). rewrite app_nil_r. exact P.
Qed.

(* ------------------------------------------------------------------------------------------ *)
(** * The lexical classes *)

Definition num_b (v : str) : bool :=
  match py_int_literal v with
  | Some z => (0 <=? z) && (str_eqb v (render FDec (Z.to_N z)) || str_eqb v (render (FHex 0 []) (Z.to_N z)))
  | None => false
  end.
Lemma num_b_render v : num_b v = true -> exists f n, v = render f n.
Proof.
  unfold num_b. destruct (py_int_literal v) as [z|]; [|discriminate]. intros H.
  apply andb_true_iff in H as [_ H]. apply orb_true_iff in H as [H|H]; apply str_eqb_true'' in H; eauto.
Qed.

Definition name_b (v : str) : bool :=
  match v with
  | c0 :: t => mem_z c0 ident_start && forallb (fun c => mem_z c ident_chars) t
  | [] => false
  end.
Lemma name_b_ok v : name_b v = true -> name_ok v.
Proof.
  destruct v as [|c0 t]; [discriminate|]. cbn [name_b]. intros H. apply andb_true_iff in H as [H1 H2].
  exists c0, t. split; [reflexivity|]. split; [exact H1|]. apply Forall_forall. rewrite forallb_forall in H2. exact H2.
Qed.
Lemma name_ok_ident v : name_ok v -> ident_ok v.
Proof. intros (c0 & t & -> & M & A). apply ident_plain; [exact M|exact A]. Qed.

(** an identifier the printer may write: a plain name, not a mnemonic in any letter case, not "else" *)
Definition pident_b (lx : lexicon) (v : str) : bool :=
  name_b v && negb (mem_str (map Scanner.lower v) (lx_mnemonics lx)) && negb (str_eqb v k_else).
Lemma pident_b_ok lx v : pident_b lx v = true -> name_ok v /\ not_mnemonic lx v /\ v <> k_else.
Proof.
  unfold pident_b. intros H. apply andb_true_iff in H as [H E]. apply andb_true_iff in H as [N M].
  split; [apply name_b_ok; exact N|]. split; [unfold not_mnemonic; destruct (mem_str _ _); [discriminate|reflexivity]|].
  intros ->. discriminate E.
Qed.

Definition xops : list str := [[43]; [45]; [42]; [38]; [124]; [126]; [60; 60]; [62; 62]].
Definition dops : list str := [[43]; [45]; [42]; [38]; [60; 60]; [62; 62]].

Lemma mem_str_cases v l : mem_str v l = true -> In v l.
Proof.
  unfold mem_str. intros H. apply existsb_exists in H as (x & Hx & E). apply str_eqb_true'' in E. subst. exact Hx.
Qed.

Lemma xop_tk v : mem_str v xops = true -> tk_ok (T_OPERATOR, v).
Proof.
  intros H. apply mem_str_cases in H. unfold xops in H. cbn [In] in H.
  destruct H as [<-|[<-|[<-|[<-|[<-|[<-|[<-|[<-|[]]]]]]]]].
  - apply (ok_bin OAdd). - apply (ok_bin OSub). - apply (ok_bin OMul). - apply (ok_bin OAnd).
  - apply (ok_bin OOr). - apply (ok_un ONot). - apply (ok_bin OShl). - apply (ok_bin OShr).
Qed.
Lemma dop_xop v : mem_str v dops = true -> mem_str v xops = true.
Proof.
  intros H. apply mem_str_cases in H. unfold dops in H. cbn [In] in H.
  destruct H as [<-|[<-|[<-|[<-|[<-|[<-|[]]]]]]]; reflexivity.
Qed.

(** a dotted name  first.second *)
Fixpoint split_dot (v : str) : option (str * str) :=
  match v with
  | [] => None
  | c :: r => if c =? 46 then Some ([], r)
              else match split_dot r with Some (a, b) => Some (c :: a, b) | None => None end
  end.
Lemma split_dot_spec : forall v a b, split_dot v = Some (a, b) -> v = a ++ 46 :: b.
Proof.
  induction v as [|c r IH]; intros a b H; cbn [split_dot] in H; [discriminate|].
  destruct (c =? 46) eqn:E.
  - apply Z.eqb_eq in E. injection H as <- <-. subst c. reflexivity.
  - destruct (split_dot r) as [[a' b']|]; [|discriminate]. injection H as <- <-. cbn [app]. rewrite (IH a' b' eq_refl). reflexivity.
Qed.
Definition dotted_b (lx : lexicon) (v : str) : bool :=
  match split_dot v with
  | Some (a, b) => name_b a && forallb (fun c => mem_z c ident_chars) b &&
                   negb (mem_str (map Scanner.lower a) (lx_mnemonics lx))
  | None => false
  end.
Lemma dotted_b_ok lx v : dotted_b lx v = true ->
  exists a b, v = a ++ 46 :: b /\ name_ok a /\ not_mnemonic lx a /\ all_in ident_chars b.
Proof.
  unfold dotted_b. destruct (split_dot v) as [[a b]|] eqn:E; [|discriminate]. intros H.
  apply andb_true_iff in H as [H M]. apply andb_true_iff in H as [N B].
  exists a, b. split; [apply split_dot_spec; exact E|]. split; [apply name_b_ok; exact N|].
  split; [unfold not_mnemonic; destruct (mem_str _ _); [discriminate|reflexivity]|].
  apply Forall_forall. rewrite forallb_forall in B. exact B.
Qed.
(** an identifier of an expression: plain or dotted *)
Definition eident_b (lx : lexicon) (v : str) : bool := pident_b lx v || dotted_b lx v.
Lemma eident_ok lx v : eident_b lx v = true -> ident_ok v.
Proof.
  unfold eident_b. intros H. apply orb_true_iff in H as [H|H].
  - apply name_ok_ident. apply (pident_b_ok lx v H).
  - destruct (dotted_b_ok lx v H) as (a & b & -> & (c0 & t & -> & M & A) & _ & B).
    cbn [app]. apply ident_dot; assumption.
Qed.

(** one token, in an operand ([x = true]) or in statement context *)
Definition etok_b (lx : lexicon) (x : bool) (t : tk) : bool :=
  match fst t with
  | T_NUMBER => num_b (snd t)
  | T_IDENTIFIER => eident_b lx (snd t)
  | T_OPERATOR => mem_str (snd t) (if x then xops else dops)
  | T_LPAREN => str_eqb (snd t) [40]
  | T_RPAREN => str_eqb (snd t) [41]
  | _ => false
  end.

Lemma etok_tk_ok lx x t : etok_b lx x t = true -> tk_ok t.
Proof.
  destruct t as [ty v]. unfold etok_b. cbn [fst snd]. destruct ty; try discriminate; intros H.
  - apply ok_id. apply (eident_ok lx v H).
  - apply xop_tk. destruct x; [exact H|apply dop_xop; exact H].
  - apply str_eqb_true'' in H. subst. apply ok_lp.
  - apply str_eqb_true'' in H. subst. apply ok_rp.
  - destruct (num_b_render v H) as (f & n & ->). apply ok_num.
Qed.

Definition printable_expr (lx : lexicon) (x : bool) (e : expr) : bool :=
  forallb (etok_b lx x) (map etv e) && pe_b e.

Lemma printable_expr_PE lx x e : printable_expr lx x e = true -> PE e.
Proof. unfold printable_expr. intros H. apply andb_true_iff in H as [_ H]. apply pe_b_PE. exact H. Qed.
Lemma printable_expr_toks lx x e : printable_expr lx x e = true -> Forall (fun t => etok_b lx x t = true) (map etv e).
Proof.
  unfold printable_expr. intros H. apply andb_true_iff in H as [H _]. apply Forall_forall. rewrite forallb_forall in H. exact H.
Qed.

(* ------------------------------------------------------------------------------------------ *)
(** * The scanner side: the token sequence of a [PE] list is [seq_ok] *)

Lemma Forall_app_l {A} (P : A -> Prop) a b : Forall P (a ++ b) -> Forall P a.
Proof. intros H. apply Forall_app in H. tauto. Qed.
Lemma Forall_app_r {A} (P : A -> Prop) a b : Forall P (a ++ b) -> Forall P b.
Proof. intros H. apply Forall_app in H. tauto. Qed.

Lemma term_ty_termtk t : term_ty t -> is_termtk (tv t) = true.
Proof. unfold is_termtk, tv. cbn [fst]. intros [H|H]; rewrite H; reflexivity. Qed.

Lemma etv_en k t : etv (en k t) = tv t. Proof. reflexivity. Qed.
Lemma termtk_ty t ty : t_type t = ty -> is_termtk (tv t) = match ty with T_NUMBER | T_IDENTIFIER => true | _ => false end.
Proof. intros <-. reflexivity. Qed.

Lemma PE_seq_ok l : PE l -> Forall tk_ok (map etv l) ->
  forall r, seq_ok true r -> seq_ok false (map etv l ++ r).
Proof.
  induction 1 as [t Ht|t o s Ht Ho Hs IH|lp s rp Hl Hr Hs IH|lp s rp o s' Hl Hr Ho Hs IHs Hs' IHs'|u s Hu Hs IH];
    intros F r Hr0; cbn [map app] in *; rewrite ?map_app in *; cbn [map app] in *; rewrite ?etv_en in *.
  - inversion F as [|? ? F1 _]; subst. cbn [seq_ok]. split; [exact F1|]. split; [discriminate|].
    rewrite (term_ty_termtk t Ht). exact Hr0.
  - inversion F as [|? ? F1 F2]; subst. inversion F2 as [|? ? F3 F4]; subst.
    cbn [seq_ok]. split; [exact F1|]. split; [discriminate|]. rewrite (term_ty_termtk t Ht).
    split; [exact F3|]. rewrite (termtk_ty o _ Ho). split; [reflexivity|].
    apply IH; assumption.
  - inversion F as [|? ? F1 F2]; subst.
    pose proof (Forall_app_l _ _ _ F2) as Fs. pose proof (Forall_app_r _ _ _ F2) as Fr.
    inversion Fr as [|? ? Fr1 _]; subst.
    cbn [seq_ok]. split; [exact F1|]. split; [discriminate|]. rewrite (termtk_ty lp _ Hl).
    rewrite <- app_assoc. cbn [app]. apply IH; [exact Fs|].
    cbn [seq_ok]. split; [exact Fr1|]. rewrite (termtk_ty rp _ Hr). split; [reflexivity|].
    apply seq_ok_weaken. exact Hr0.
  - inversion F as [|? ? F1 F2]; subst.
    pose proof (Forall_app_l _ _ _ F2) as Fs. pose proof (Forall_app_r _ _ _ F2) as Fr.
    inversion Fr as [|? ? Fr1 Fr2]; subst. inversion Fr2 as [|? ? Fo Fs']; subst.
    cbn [seq_ok]. split; [exact F1|]. split; [discriminate|]. rewrite (termtk_ty lp _ Hl).
    rewrite <- app_assoc. cbn [app]. apply IHs; [exact Fs|].
    cbn [seq_ok]. split; [exact Fr1|]. rewrite (termtk_ty rp _ Hr). split; [reflexivity|].
    split; [exact Fo|]. rewrite (termtk_ty o _ Ho). split; [discriminate|].
    apply IHs'; assumption.
  - inversion F as [|? ? F1 F2]; subst. destruct Hu as [Tu _].
    cbn [seq_ok]. split; [exact F1|]. split; [discriminate|]. rewrite (termtk_ty u _ Tu).
    apply IH; assumption.
Qed.

Lemma printable_seq_ok lx x e : printable_expr lx x e = true -> seq_ok false (map etv e).
Proof.
  intros H. pose proof (PE_seq_ok e (printable_expr_PE _ _ _ H)) as S.
  rewrite <- (app_nil_r (map etv e)). apply S; [|exact I].
  eapply Forall_impl; [|exact (printable_expr_toks _ _ _ H)]. intros t. apply etok_tk_ok.
Qed.

Lemma PE_nonempty l : PE l -> l <> [].
Proof. destruct 1; discriminate. Qed.

(* ------------------------------------------------------------------------------------------ *)
(** * The printer *)

Fixpoint unwords (ws : list str) : str :=
  match ws with
  | [] => []
  | w :: r => match r with [] => w | _ => w ++ 32 :: unwords r end
  end.

Definition print_expr (e : expr) : str := unwords (map en_v e).

(** single spaces between the tokens, nothing before the first, nothing after the last *)
Definition sp_mid (n : nat) : spacing := fun i => if ((i =? 0) || (n <=? i))%nat then 0%nat else 1%nat.

Lemma join_mid : forall (l : list tk) i, (0 < i)%nat ->
  join (sp_mid (i + length l)) i l = match l with [] => [] | _ => 32 :: unwords (map snd l) end.
Proof.
  induction l as [|t l IH]; intros i Hi; cbn [join length map].
  - unfold sp_mid. replace (i =? 0)%nat with false by (symmetry; apply Nat.eqb_neq; lia).
    replace (i + 0 <=? i)%nat with true by (symmetry; apply Nat.leb_le; lia). reflexivity.
  - replace (sp_mid (i + S (length l)) i) with 1%nat.
    2:{ unfold sp_mid. replace (i =? 0)%nat with false by (symmetry; apply Nat.eqb_neq; lia).
        replace (i + S (length l) <=? i)%nat with false by (symmetry; apply Nat.leb_gt; lia). reflexivity. }
    replace (i + S (length l))%nat with (S i + length l)%nat by lia. rewrite (IH (S i)) by lia.
    cbn [spaces repeat_z app unwords]. destruct l as [|t' l']; cbn [map]; [rewrite app_nil_r; reflexivity|reflexivity].
Qed.

Lemma join_unwords (l : list tk) : l <> [] -> join (sp_mid (length l)) 0%nat l = unwords (map snd l).
Proof.
  destruct l as [|t l]; [congruence|]. intros _. cbn [join length map].
  replace (sp_mid (S (length l)) 0%nat) with 0%nat by reflexivity. cbn [spaces repeat_z app].
  pose proof (join_mid l 1%nat ltac:(lia)) as H. cbn [Nat.add] in H. rewrite H.
  cbn [unwords]. destruct l as [|t' l']; cbn [map]; [rewrite app_nil_r; reflexivity|reflexivity].
Qed.

Lemma print_expr_join e : e <> [] -> print_expr e = join (sp_mid (length e)) 0%nat (map etv e).
Proof.
  intros H. rewrite <- (map_length etv e). rewrite join_unwords by (destruct e; [congruence|discriminate]).
  unfold print_expr. rewrite map_map. reflexivity.
Qed.

(* ------------------------------------------------------------------------------------------ *)
(** * Layer (a), closed: an operand expression is read back from its text *)

Theorem expr_roundtrip lx file e : printable_expr lx true e = true ->
  exists toks lines e',
    scan_expression file (print_expr e) = ScanOk toks lines /\
    parse_expression_ep (parse_fuel (length toks)) toks = POk e' /\
    map en_strip e' = map en_strip e.
Proof.
  intros H. pose proof (printable_expr_PE _ _ _ H) as P. pose proof (PE_nonempty _ P) as NE.
  rewrite (print_expr_join e NE).
  destruct (lex_join file (sp_mid (length e)) (map etv e) (printable_seq_ok _ _ _ H)
              ltac:(destruct e; [congruence|discriminate])) as (toks & eof & lines & E & T & Eo).
  exists (toks ++ [eof]), lines. set (ts := toks ++ [eof]).
  assert (Len : length toks = length e) by (rewrite <- (map_length tv toks), T, map_length; reflexivity).
  assert (A : At ts 0%nat (map etv e)).
  { rewrite <- T. unfold ts. clear.
    assert (G : forall (pre : list token), At (pre ++ toks ++ [eof]) (length pre) (map tv toks)).
    { induction toks as [|t toks IH]; intros pre; cbn [map At app]; [exact I|]. split.
      - rewrite cur_mid. reflexivity.
      - specialize (IH (pre ++ [t])). rewrite <- app_assoc, app_length in IH. cbn [app length] in IH.
        replace (length pre + 1)%nat with (S (length pre)) in IH by lia. exact IH. }
    exact (G []). }
  destruct (pexpression_at ts e 0%nat (parse_fuel (length ts)) P A) as [E1 E2].
  - cbn [Nat.add]. rewrite <- Len. unfold ts, cur. rewrite nth_middle. unfold is_ty.
    rewrite (tv_type _ _ _ Eo). reflexivity.
  - unfold ts, parse_fuel. rewrite app_length. cbn [length]. lia.
  - exists (retok ts 0%nat e). split; [exact E|]. split; [|exact E2].
    unfold parse_expression_ep. rewrite E1. reflexivity.
Qed.

Print Assumptions pexpression_at.
Print Assumptions expr_roundtrip.
