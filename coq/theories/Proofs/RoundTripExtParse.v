(** Round trip, EXTENDED class, parser side.  A copy of Proofs/RoundTripParse.v with more statements:
      .include 'path'            (ABlock: the body is the parse of the included file; [pth] gives the
                                  path under which a body is included, [incd] says which bodies are,
                                  and the theorems assume that [sub (pth b)] parses to [b] up to positions)
      .include_ips 'path', e
      {{name}}                   (code lookup)
      m({ ... }, e, ...)         (code-block arguments of a macro application)
    and, through Proofs/RoundTripExtExpr.v, dotted names in expressions. *)
From Coq Require Import ZArith NArith List Bool Lia Arith.
From A816 Require Import Spec.ExprSem Model.Scanner Model.Parser Proofs.ParserProofs Proofs.ParserFuelProofs Proofs.ParserCaseProofs
  Proofs.ParserShapeProofs Proofs.ExprLex Proofs.ExprLexParse Proofs.DataTextParse Proofs.LabelTextScan
  Proofs.InsnTextParse Proofs.LocationTextParse Proofs.LayoutLink Proofs.RoundTripExtExpr Proofs.RoundTripExtScan.
Import ListNotations.
Open Scope Z_scope.

(* ------------------------------------------------------------------------------------------ *)
(** * Induction on the AST *)

Section AstInd.
  Variable P : ast -> Prop.
  Definition Pm (x : expr + (list ast * token)) : Prop :=
    match x with inl _ => True | inr (b, _) => Forall P b end.
  Hypothesis H_Block : forall b fi, Forall P b -> P (ABlock b fi).
  Hypothesis H_Compound : forall b fi, Forall P b -> P (ACompound b fi).
  Hypothesis H_Label : forall n fi, P (ALabel n fi).
  Hypothesis H_Text : forall s fi, P (AText s fi).
  Hypothesis H_Ascii : forall s fi, P (AAscii s fi).
  Hypothesis H_Scope : forall n b bf fi, Forall P b -> P (AScope n b bf fi).
  Hypothesis H_StarEq : forall e fi, P (AStarEq e fi).
  Hypothesis H_AtEq : forall e fi, P (AAtEq e fi).
  Hypothesis H_Map : forall a fi, P (AMap a fi).
  Definition Pel (el : option (list ast * token)) : Prop :=
    match el with Some (eb, _) => Forall P eb | None => True end.
  Hypothesis H_If : forall c th tf el fi, Forall P th -> Pel el -> P (AIf c th tf el fi).
  Hypothesis H_Macro : forall n ps b bf fi, Forall P b -> P (AMacro n ps b bf fi).
  Hypothesis H_MacroApply : forall n args fi, Forall Pm args -> P (AMacroApply n args fi).
  Hypothesis H_Data : forall k es fi, P (AData k es fi).
  Hypothesis H_Table : forall p fi, P (ATable p fi).
  Hypothesis H_IncludeIps : forall p e fi, P (AIncludeIps p e fi).
  Hypothesis H_Incbin : forall p fi, P (AIncbin p fi).
  Hypothesis H_Symbol : forall n e fi, P (ASymbol n e fi).
  Hypothesis H_Assign : forall n e fi, P (AAssign n e fi).
  Hypothesis H_CodeLookup : forall n fi, P (ACodeLookup n fi).
  Hypothesis H_Struct : forall n fs fi, P (AStruct n fs fi).
  Hypothesis H_For : forall v lo hi b bf fi, Forall P b -> P (AFor v lo hi b bf fi).
  Hypothesis H_Opcode : forall m op sz o idx fi, P (AOpcode m op sz o idx fi).

  Fixpoint ast_ind' (a : ast) : P a :=
    let body := fix go (l : list ast) : Forall P l :=
      match l with [] => Forall_nil P | x :: r => Forall_cons x (ast_ind' x) (go r) end in
    match a with
    | ABlock b fi => H_Block b fi (body b)
    | ACompound b fi => H_Compound b fi (body b)
    | ALabel n fi => H_Label n fi
    | AText s fi => H_Text s fi
    | AAscii s fi => H_Ascii s fi
    | AScope n b bf fi => H_Scope n b bf fi (body b)
    | AStarEq e fi => H_StarEq e fi
    | AAtEq e fi => H_AtEq e fi
    | AMap m fi => H_Map m fi
    | AIf c th tf el fi =>
        H_If c th tf el fi (body th)
          (match el return Pel el with
           | Some p => match p return Pel (Some p) with (eb, _) => body eb end
           | None => I
           end)
    | AMacro n ps b bf fi => H_Macro n ps b bf fi (body b)
    | AMacroApply n args fi =>
        H_MacroApply n args fi
          ((fix goa (l : list (expr + (list ast * token))) : Forall Pm l :=
              match l with
              | [] => Forall_nil Pm
              | x :: r =>
                  Forall_cons x
                    (match x return Pm x with
                     | inl _ => I
                     | inr p => match p as p0 return Pm (inr p0) with (b, _) => body b end
                     end) (goa r)
              end) args)
    | AData k es fi => H_Data k es fi
    | ATable p fi => H_Table p fi
    | AIncludeIps p e fi => H_IncludeIps p e fi
    | AIncbin p fi => H_Incbin p fi
    | ASymbol n e fi => H_Symbol n e fi
    | AAssign n e fi => H_Assign n e fi
    | ACodeLookup n fi => H_CodeLookup n fi
    | AStruct n fs fi => H_Struct n fs fi
    | AFor v lo hi b bf fi => H_For v lo hi b bf fi (body b)
    | AOpcode m op sz o idx fi => H_Opcode m op sz o idx fi
    end.
End AstInd.

(* ------------------------------------------------------------------------------------------ *)
(** * Tokens of a statement *)

Definition tLB : tk := (T_LBRACE, [123]).
Definition tRB : tk := (T_RBRACE, [125]).
Definition tLP : tk := (T_LPAREN, [40]).
Definition tRP : tk := (T_RPAREN, [41]).
Definition tLK : tk := (T_LBRAKET, [91]).
Definition tRK : tk := (T_RBRAKET, [93]).
Definition tSHARP : tk := (T_SHARP, [35]).
Definition tCOMMA : tk := (T_COMMA, [44]).
Definition tEQ : tk := (T_EQUAL, [61]).
Definition tASSIGN : tk := (T_ASSIGN, [58; 61]).
Definition tSTAR : tk := (T_STAR_EQ, [42; 61]).
Definition tAT : tk := (T_AT_EQ, [64; 61]).
Definition tEOF : tk := (T_EOF, []).
Definition kwt (k : str) : tk := (T_KEYWORD, k).
Definition idt (n : str) : tk := (T_IDENTIFIER, n).
Definition qst (s : str) : tk := (T_QUOTED_STRING, 39 :: s ++ [39]).
Definition ixt (i : str) : tk := (T_ADDRESSING_MODE_INDEX, i).

Definition dk_name (k : dkind) : str :=
  match k with D_db => k_db | D_dw => k_dw | D_dl => k_dl | D_pointer => k_pointer end.

(** items separated by commas *)
Definition commas (ls : list (list tk)) : list tk :=
  match ls with
  | [] => []
  | x :: r => x ++ flat_map (fun y => tCOMMA :: y) r
  end.

Definition sz_tks (sz : option vsize) : list tk :=
  match sz with
  | Some SzB => [(T_OPCODE_SIZE, [98])]
  | Some SzW => [(T_OPCODE_SIZE, [119])]
  | Some SzL => [(T_OPCODE_SIZE, [108])]
  | None => []
  end.

(** the operand syntax of an addressing mode *)
Definition opnd_tks (m : amode) (e : list tk) (idx : option str) : option (list tk) :=
  match m, idx with
  | M_immediate, None => Some (tSHARP :: e)
  | M_direct, None => Some e
  | M_direct_indexed, Some i => Some (e ++ [ixt i])
  | M_indirect, None => Some (tLP :: e ++ [tRP])
  | M_indirect_indexed, Some i => Some (tLP :: e ++ [tRP; ixt i])
  | M_indirect_long, None => Some (tLK :: e ++ [tRK])
  | M_indirect_indexed_long, Some i => Some (tLK :: e ++ [tRK; ixt i])
  | M_dp_or_sr_indirect_indexed, Some i => Some (tLP :: e ++ [ixt i; tRP])
  | M_stack_indexed_indirect_indexed, Some i => Some (tLP :: e ++ [ixt k_s; tRP; ixt i])
  | _, _ => None
  end.

(** [.map] attributes: key = number [, number], in the order of the record *)
Definition dec_text (v : Z) : str := render FDec (Z.to_N v).
Definition num_tk (v : Z) : tk := (T_NUMBER, dec_text v).
Definition val_tks (v : Z * option Z) : list tk :=
  match v with (a, None) => [num_tk a] | (a, Some b) => [num_tk a; tCOMMA; num_tk b] end.
Definition mentry : Type := (mapkey * str * (Z * option Z))%type.
Definition entry_tks (e : mentry) : list tk := idt (snd (fst e)) :: tEQ :: val_tks (snd e).
Definition optl {A B} (o : option A) (f : A -> B) : list B := match o with Some x => [f x] | None => [] end.
Definition map_attrs (m : mapargs) : list mentry :=
  optl (ma_identifier m) (fun n => (MK_identifier, k_identifier, (n, None))) ++
  optl (ma_writable m) (fun n => (MK_writable, k_writable, (n, None))) ++
  optl (ma_bank_range m) (fun v => (MK_bank_range, k_bank_range, v)) ++
  optl (ma_addr_range m) (fun v => (MK_addr_range, k_addr_range, v)) ++
  optl (ma_mask m) (fun v => (MK_mask, k_mask, v)) ++
  optl (ma_mirror_bank_range m) (fun v => (MK_mirror_bank_range, k_mirror_bank_range, v)).
Definition map_tks (m : mapargs) : list tk := flat_map entry_tks (map_attrs m).

(** a value that is written in decimal and read back by ast.literal_eval *)
Definition lit_ok (v : Z) : bool :=
  (0 <=? v) && num_b (dec_text v) &&
  match py_int_literal (dec_text v) with Some z => z =? v | None => false end.
Definition val_okb (v : Z * option Z) : bool :=
  lit_ok (fst v) && match snd v with Some b => lit_ok b | None => true end.

Definition tDLB : tk := (T_DOUBLE_LBRACE, [123; 123]).
Definition tDRB : tk := (T_DOUBLE_RBRACE, [125; 125]).

Section Ext.
Variable pth : list ast -> str.      (* the path under which an included body is written *)
Variable incd : list ast -> bool.    (* the bodies that are included files *)

Fixpoint stmt_tks (a : ast) : list tk :=
  match a with
  | ALabel n _ => [(T_LABEL, n)]
  | AData k es _ => kwt (dk_name k) :: commas (map (map etv) es)
  | AAscii s _ => [kwt k_ascii; qst s]
  | AText s _ => [kwt k_text; qst s]
  | ATable p _ => [kwt k_table; qst p]
  | AIncbin p _ => [kwt k_incbin; qst p]
  | ASymbol n e _ => idt n :: tEQ :: map etv e
  | AAssign n e _ => idt n :: tASSIGN :: map etv e
  | AStarEq e _ => tSTAR :: map etv e
  | AAtEq e _ => tAT :: map etv e
  | ACompound b _ => tLB :: flat_map stmt_tks b ++ [tRB]
  | AScope n b _ _ => kwt k_scope :: idt n :: tLB :: flat_map stmt_tks b ++ [tRB]
  | AMacro n ps b _ _ =>
      kwt k_macro :: idt n :: tLP :: commas (map (fun p => [idt p]) ps) ++ tRP :: tLB :: flat_map stmt_tks b ++ [tRB]
  | AMacroApply n args _ =>
      idt n :: tLP ::
      commas (map (fun x => match x with
                            | inl e => map etv e
                            | inr (b, _) => tLB :: flat_map stmt_tks b ++ [tRB]
                            end) args) ++ [tRP]
  | AMap m _ => kwt k_map :: map_tks m
  | ABlock b _ => [kwt k_include; qst (pth b)]
  | AIncludeIps p e _ => kwt k_include_ips :: qst p :: tCOMMA :: map etv e
  | ACodeLookup n _ => [tDLB; idt n; tDRB]
  | AIf c th _ el _ =>
      kwt k_if :: map etv c ++ tLB :: flat_map stmt_tks th ++ tRB ::
      match el with Some (eb, _) => idt k_else :: tLB :: flat_map stmt_tks eb ++ [tRB] | None => [] end
  | AFor v lo hi b _ _ =>
      kwt k_for :: idt v :: tASSIGN :: map etv lo ++ tCOMMA :: map etv hi ++ tLB :: flat_map stmt_tks b ++ [tRB]
  | AOpcode m op sz operand idx _ =>
      match operand with
      | None => [(T_OPCODE_NAKED, op)]
      | Some e => (T_OPCODE, op) :: sz_tks sz ++ match opnd_tks m (map etv e) idx with Some l => l | None => [] end
      end
  | _ => []
  end.

Definition first_tk (a : ast) : tk := hd tEOF (stmt_tks a).
Definition prog_tks (l : list ast) : list tk := flat_map stmt_tks l.
Definition arg_tks (x : expr + (list ast * token)) : list tk :=
  match x with inl e => map etv e | inr (b, _) => tLB :: prog_tks b ++ [tRB] end.
Lemma stmt_tks_apply n args fi : stmt_tks (AMacroApply n args fi) = idt n :: tLP :: commas (map arg_tks args) ++ [tRP].
Proof. reflexivity. Qed.

(* ------------------------------------------------------------------------------------------ *)
(** * The printable class *)

Definition tk_eqb (a b : tk) : bool := ttype_eqb (fst a) (fst b) && str_eqb (snd a) (snd b).
Lemma tk_eqb_true a b : tk_eqb a b = true -> a = b.
Proof.
  destruct a as [t v], b as [t' v']. unfold tk_eqb. cbn [fst snd]. intros H. apply andb_true_iff in H as [H1 H2].
  apply ttype_eqb_true in H1. apply str_eqb_true'' in H2. congruence.
Qed.

(** a statement list in context: each statement sees the first token of the next one *)
Section CtxAll.
  Context {A : Type}.
  Variable f : tk -> A -> bool.
  Variable first : A -> tk.
  Fixpoint ctx_all (next : tk) (l : list A) : bool :=
    match l with
    | [] => true
    | x :: r => f (match r with [] => next | y :: _ => first y end) x && ctx_all next r
    end.
End CtxAll.

Definition fi_is (fi : token) (t : tk) : bool := tk_eqb (tv fi) t.
Definition kw_in (lx : lexicon) (k : str) : bool :=
  mem_str k (lx_keywords lx) && forallb (fun c => mem_z c kw_chars) k.
Definition qstr_b (s : str) : bool := forallb qchar_b s.
Definition head_not_lp (e : expr) : bool :=
  match e with n :: _ => negb (ttype_eqb (en_ty n) T_LPAREN) | [] => false end.
Definition ix_b (i : str) : bool := str_eqb i k_x || str_eqb i k_y || str_eqb i k_s.
Definition mn3_b (lx : lexicon) (mn : str) : bool :=
  match mn with
  | [c0; _; _] => mem_z c0 ident_start && mem_str (map Scanner.lower mn) (lx_mnemonics lx)
  | _ => false
  end.
Definition sz_b (sz : option vsize) : bool := true.

(** the operand of an instruction: mode, index and head of the expression fit together *)
Definition opnd_b (m : amode) (e : expr) (idx : option str) : bool :=
  match m, idx with
  | M_immediate, None | M_indirect, None | M_indirect_long, None => true
  | M_direct, None => head_not_lp e
  | M_direct_indexed, Some i => head_not_lp e && ix_b i
  | M_indirect_indexed, Some i | M_indirect_indexed_long, Some i | M_dp_or_sr_indirect_indexed, Some i => ix_b i
  | M_stack_indexed_indirect_indexed, Some i => str_eqb i k_y
  | _, _ => false
  end.

Definition is_inl {A B} (x : A + B) : bool := match x with inl _ => true | inr _ => false end.

Fixpoint pstmt (lx : lexicon) (next : tk) (a : ast) {struct a} : bool :=
  match a with
  | ALabel n fi => pident_b lx n && fi_is fi (T_LABEL, n)
  | AData k es fi =>
      kw_in lx (dk_name k) && fi_is fi (kwt (dk_name k)) &&
      match es with [] => false | _ => forallb (printable_expr lx false) es end
  | AAscii s fi => kw_in lx k_ascii && fi_is fi (kwt k_ascii) && qstr_b s
  | AText s fi => kw_in lx k_text && fi_is fi (kwt k_text) && qstr_b s
  | ATable p fi => kw_in lx k_table && fi_is fi next && qstr_b p
  | AIncbin p fi => kw_in lx k_incbin && fi_is fi next && qstr_b p
  | ASymbol n e fi => pident_b lx n && fi_is fi (idt n) && printable_expr lx false e
  | AAssign n e fi => pident_b lx n && fi_is fi (idt n) && printable_expr lx false e
  | AStarEq e fi => printable_expr lx false e && fi_is fi (hd tEOF (map etv e))
  | AAtEq e fi => printable_expr lx false e && fi_is fi (hd tEOF (map etv e))
  | ACompound b fi => fi_is fi tLB && ctx_all (pstmt lx) first_tk tRB b
  | AScope n b bfi fi =>
      kw_in lx k_scope && pident_b lx n && fi_is bfi tLB && fi_is fi (idt n) && ctx_all (pstmt lx) first_tk tRB b
  | AMacro n ps b bfi fi =>
      kw_in lx k_macro && pident_b lx n && forallb (pident_b lx) ps && fi_is bfi tLB && fi_is fi (idt n) &&
      ctx_all (pstmt lx) first_tk tRB b
  | AMacroApply n args fi =>
      pident_b lx n && fi_is fi (idt n) &&
      forallb (fun x => match x with
                        | inl e => printable_expr lx false e
                        | inr (b, bfi) => fi_is bfi tLB && ctx_all (pstmt lx) first_tk tRB b
                        end) args
  | AMap m fi =>
      kw_in lx k_map && fi_is fi (hd tEOF (map_tks m)) &&
      match map_attrs m with [] => false | _ => true end &&
      forallb (fun e : mentry => pident_b lx (snd (fst e)) && val_okb (snd e)) (map_attrs m) &&
      negb (ttype_eqb (fst next) T_IDENTIFIER)
  | ABlock b fi => kw_in lx k_include && fi_is fi (kwt k_include) && qstr_b (pth b) && incd b
  | AIncludeIps p e fi => kw_in lx k_include_ips && fi_is fi (qst p) && qstr_b p && printable_expr lx false e
  | ACodeLookup n fi => pident_b lx n && fi_is fi (idt n)
  | AIf c th thfi el fi =>
      kw_in lx k_if && printable_expr lx false c && fi_is fi (hd tEOF (map etv c)) &&
      ctx_all (pstmt lx) first_tk tRB th &&
      match el with
      | None => fi_is thfi next
      | Some (eb, efi) => fi_is thfi (idt k_else) && fi_is efi next && ctx_all (pstmt lx) first_tk tRB eb
      end
  | AFor v lo hi b bfi fi =>
      kw_in lx k_for && pident_b lx v && printable_expr lx false lo && printable_expr lx false hi &&
      fi_is fi (idt v) && fi_is bfi next && ctx_all (pstmt lx) first_tk tRB b
  | AOpcode m op sz operand idx fi =>
      mn3_b lx op &&
      match operand with
      | None =>
          mem_str (map Scanner.lower op) (lx_naked lx) && fi_is fi (T_OPCODE_NAKED, op) &&
          match m, sz, idx with M_none, None, None => true | _, _, _ => false end
      | Some e => printable_expr lx true e && opnd_b m e idx && fi_is fi (T_OPCODE, op)
      end
  | _ => false
  end.

Definition pstmts (lx : lexicon) (next : tk) (l : list ast) : bool := ctx_all (pstmt lx) first_tk next l.

(** what may follow a statement: the first token of a statement, "}" or the end *)
Definition starter (t : tk) : bool :=
  match fst t with
  | T_LABEL | T_OPCODE | T_OPCODE_NAKED | T_KEYWORD | T_IDENTIFIER | T_LBRACE | T_STAR_EQ | T_AT_EQ
  | T_DOUBLE_LBRACE =>
      negb (str_eqb (snd t) k_else)
  | _ => false
  end.
Definition nx_ok (t : tk) : bool := starter t || tk_eqb t tRB || tk_eqb t tEOF.

Lemma nx_ok_facts t : nx_ok t = true ->
  fst t <> T_OPERATOR /\ fst t <> T_COMMA /\ fst t <> T_ADDRESSING_MODE_INDEX /\ fst t <> T_SHARP /\
  fst t <> T_LPAREN /\ fst t <> T_LBRAKET /\ fst t <> T_OPCODE_SIZE /\ snd t <> k_else.
Proof.
  unfold nx_ok, starter. destruct t as [ty v]. cbn [fst snd]. intros H.
  apply orb_true_iff in H as [H|H]; [apply orb_true_iff in H as [H|H]|].
  - destruct ty; try discriminate H; apply negb_true_iff in H; repeat split; try discriminate; intros ->; discriminate H.
  - apply tk_eqb_true in H. injection H as -> ->. repeat split; discriminate.
  - apply tk_eqb_true in H. injection H as -> ->. repeat split; discriminate.
Qed.

(* ------------------------------------------------------------------------------------------ *)
(** * Small facts *)

Ltac lens3 := repeat progress (rewrite ?app_length, ?map_length, ?retok_length in *; cbn [length] in *).
Ltac ll3 := lens3; unfold tk, str in *; lia.

Lemma sameTV_tv a b : tv b = tv a -> sameTV a b.
Proof. unfold tv, sameTV. intros H. injection H as -> ->. split; reflexivity. Qed.
Lemma fi_is_tv fi t : fi_is fi t = true -> tv fi = t.
Proof. apply tk_eqb_true. Qed.
Lemma fi_same fi t tok : fi_is fi t = true -> tv tok = t -> sameTV fi tok.
Proof. intros H1 H2. apply sameTV_tv. rewrite (fi_is_tv _ _ H1). exact H2. Qed.

Lemma retok_erel ts : forall e pos, At ts pos (map etv e) -> erel sameTV e (retok ts pos e).
Proof.
  induction e as [|n e IH]; intros pos H; cbn [retok map At] in *; [constructor|].
  destruct H as [H1 H2]. constructor; [|apply IH; exact H2].
  split; [reflexivity|]. cbn [en en_tok]. apply sameTV_tv. exact H1.
Qed.

Lemma At_cons ts pos t l : At ts pos (t :: l) -> tv (cur ts pos) = t /\ At ts (S pos) l.
Proof. intros H. exact H. Qed.

Lemma tv_is ts q ty v : tv (cur ts q) = (ty, v) -> t_type (cur ts q) = ty /\ t_value (cur ts q) = v.
Proof. unfold tv. intros H. injection H as -> ->. auto. Qed.

Lemma printable_len lx x e : printable_expr lx x e = true -> e <> [].
Proof. intros H. apply PE_nonempty. eapply printable_expr_PE; eassumption. Qed.

(** an expression at [pos], followed by a token that is not an operator *)
Lemma pexp ts lx x e pos f : printable_expr lx x e = true -> At ts pos (map etv e) ->
  t_type (cur ts (pos + length e)) <> T_OPERATOR -> (length e < f)%nat ->
  pexpression ts f pos = POk (retok ts pos e, (pos + length e)%nat) /\ erel sameTV e (retok ts pos e).
Proof.
  intros P A N HF. split; [|apply retok_erel; exact A].
  apply (pexpression_at ts e pos f (printable_expr_PE _ _ _ P) A); [apply is_ty_neq; exact N|exact HF].
Qed.

(** the first token of a printable expression *)
Lemma pexp_first lx x e : printable_expr lx x e = true ->
  exists n e', e = n :: e' /\ en_ty n <> T_RPAREN /\ en_ty n <> T_LBRACE /\ en_ty n <> T_COMMA /\ en_ty n <> T_EOF.
Proof.
  intros P. pose proof (printable_expr_PE _ _ _ P) as PEe.
  destruct PEe as [t Ht|t o s Ht Ho Hs|lp s r Hl Hr Hs|lp s r o s' Hl Hr Ho Hs Hs'|u s Hu Hs];
    eexists _, _; (split; [reflexivity|]); unfold en_ty; cbn [en_tok en].
  - destruct Ht as [H|H]; rewrite H; repeat split; discriminate.
  - destruct Ht as [H|H]; rewrite H; repeat split; discriminate.
  - rewrite Hl; repeat split; discriminate.
  - rewrite Hl; repeat split; discriminate.
  - destruct Hu as [H _]; rewrite H; repeat split; discriminate.
Qed.

(* ------------------------------------------------------------------------------------------ *)
(** * Expression lists (data items, macro arguments) *)

Lemma commas_cons2 (x y : list tk) r : commas (x :: y :: r) = x ++ tCOMMA :: commas (y :: r).
Proof. reflexivity. Qed.

Lemma commas_map_cons2 (x y : expr) es :
  commas (map (map etv) (x :: y :: es)) = map etv x ++ tCOMMA :: commas (map (map etv) (y :: es)).
Proof. reflexivity. Qed.

Section Lists.
  Variable ts : list token.
  Variable sub : str -> pres (list ast).
  Variable lx : lexicon.

  Lemma pel_exprs : forall es x pos f acc,
    Forall (fun e => printable_expr lx false e = true) (x :: es) ->
    At ts pos (commas (map (map etv) (x :: es))) ->
    let p' := (pos + length (commas (map (map etv) (x :: es))))%nat in
    t_type (cur ts p') <> T_OPERATOR -> t_type (cur ts p') <> T_COMMA ->
    (length (commas (map (map etv) (x :: es))) + length es + 1 < f)%nat ->
    exists es', pel ts sub f pos acc = POk (acc ++ map (fun e => inl e) es', p') /\
                Forall2 (erel sameTV) (x :: es) es'.
  Proof.
    induction es as [|y es IH]; intros x pos f acc HP A p' N1 N2 HF; subst p'; (destruct f as [|f]; [lia|]);
      inversion HP as [|? ? Px HP']; subst.
    - cbn [map commas flat_map] in *. rewrite app_nil_r in *. rewrite map_length in *.
      destruct (pexp_first _ _ _ Px) as (n & e' & Ex & F1 & F2 & _).
      pose proof A as A0. rewrite Ex in A0. cbn [map At] in A0. destruct A0 as [A0 _].
      destruct (tv_is _ _ _ _ A0) as [T0 _].
      rewrite pel_S. cbv zeta. rewrite (is_ty_neq _ T_RPAREN) by (rewrite T0; exact F1).
      rewrite (is_ty_neq _ T_LBRACE) by (rewrite T0; exact F2).
      destruct (pexp ts lx false _ pos f Px A N1 ltac:(lia)) as [E R]. rewrite E. cbn [pbind fst snd].
      rewrite (is_ty_neq _ T_COMMA) by exact N2.
      exists [retok ts pos x]. split; [reflexivity|]. constructor; [exact R|constructor].
    - assert (Lc : (length (commas (map (map etv) (x :: y :: es)))
                    = length x + S (length (commas (map (map etv) (y :: es)))))%nat).
      { rewrite commas_map_cons2. ll3. }
      rewrite Lc in HF, N1, N2.
      rewrite commas_map_cons2 in A.
      apply At_app in A as [Ax A']. rewrite map_length in A'. apply At_cons in A' as [Ac A'].
      destruct (tv_is _ _ _ _ Ac) as [Tc _].
      destruct (pexp_first _ _ _ Px) as (n & e' & Ex & F1 & F2 & _).
      pose proof Ax as A0. rewrite Ex in A0. cbn [map At] in A0. destruct A0 as [A0 _].
      destruct (tv_is _ _ _ _ A0) as [T0 _].
      rewrite pel_S. cbv zeta. rewrite (is_ty_neq _ T_RPAREN) by (rewrite T0; exact F1).
      rewrite (is_ty_neq _ T_LBRACE) by (rewrite T0; exact F2).
      destruct (pexp ts lx false _ pos f Px Ax ltac:(rewrite Tc; discriminate) ltac:(lia)) as [E R].
      rewrite E. cbn [pbind fst snd]. rewrite (is_ty_eq _ _ Tc).
      destruct (IH y (S (pos + length x)) f (acc ++ [inl (retok ts pos x)]) HP' A')
        as (es' & E' & R').
      + match type of N1 with context [cur ts ?q0] =>
          match goal with |- context [cur ts ?q] => replace q with q0 by lia end end. exact N1.
      + match type of N2 with context [cur ts ?q0] =>
          match goal with |- context [cur ts ?q] => replace q with q0 by lia end end. exact N2.
      + cbn [length] in *. lia.
      + exists (retok ts pos x :: es'). split; [|constructor; assumption].
        etransitivity; [exact E'|]. f_equal. f_equal; [cbn [map]; rewrite <- app_assoc; reflexivity|].
        unfold tk, str, expr in *. lia.
  Qed.

  (** macro parameters: IDENTIFIER (, IDENTIFIER)* then the closing parenthesis *)
  Lemma pmacro_loop_at : forall ps pos f acc,
    At ts pos (flat_map (fun p => [tCOMMA; idt p]) ps ++ [tRP]) -> (2 * length ps + 1 < f)%nat ->
    pmacro_args_loop ts f pos acc = POk (acc ++ ps, (pos + 2 * length ps)%nat).
  Proof.
    induction ps as [|p ps IH]; intros pos f acc A HF; (destruct f as [|f]; [lia|]); cbn [flat_map app length] in *.
    - apply At_cons in A as [A _]. destruct (tv_is _ _ _ _ A) as [T _].
      cbn [pmacro_args_loop]. cbv zeta. rewrite (is_ty_eq _ _ T). rewrite (is_ty_neq _ T_COMMA) by (rewrite T; discriminate).
      cbn [orb backup]. rewrite app_nil_r. f_equal. f_equal. lia.
    - apply At_cons in A as [A1 A]. apply At_cons in A as [A2 A].
      destruct (tv_is _ _ _ _ A1) as [T1 _]. destruct (tv_is _ _ _ _ A2) as [T2 V2].
      destruct f as [|f]; [lia|].
      cbn [pmacro_args_loop]. cbv zeta. rewrite (is_ty_eq _ _ T1).
      rewrite (is_ty_neq _ T_RPAREN) by (rewrite T1; discriminate). cbn [orb].
      rewrite (is_ty_neq (cur ts (S pos)) T_COMMA) by (rewrite T2; discriminate).
      rewrite (is_ty_neq (cur ts (S pos)) T_RPAREN) by (rewrite T2; discriminate).
      rewrite (is_ty_eq _ _ T2). cbn [orb]. unfold expect. rewrite (is_ty_eq _ _ T2). rewrite V2.
      rewrite (IH (S (S pos)) f (acc ++ [p]) A ltac:(lia)). rewrite <- app_assoc. cbn [app]. f_equal. f_equal. lia.
  Qed.

  Definition params_tks (ps : list str) : list tk := commas (map (fun p => [idt p]) ps).

  Lemma params_tks_cons p ps : params_tks (p :: ps) = idt p :: flat_map (fun q => [tCOMMA; idt q]) ps.
  Proof.
    unfold params_tks. cbn [map commas app]. f_equal. induction ps as [|q ps IH]; [reflexivity|].
    cbn [map flat_map app]. rewrite IH. reflexivity.
  Qed.

  Lemma pmacro_args_at ps pos f : At ts pos (params_tks ps ++ [tRP]) -> (2 * length ps + 2 < f)%nat ->
    pmacro_args ts f pos = POk (ps, (pos + length (params_tks ps))%nat).
  Proof.
    intros A HF. unfold pmacro_args. cbv zeta. destruct ps as [|p ps].
    - cbn [params_tks map commas app length] in *. apply At_cons in A as [A _]. destruct (tv_is _ _ _ _ A) as [T _].
      rewrite (is_ty_eq _ _ T). cbn [negb backup]. f_equal. f_equal. lia.
    - rewrite params_tks_cons in *. cbn [app] in A. apply At_cons in A as [A1 A].
      destruct (tv_is _ _ _ _ A1) as [T1 V1].
      rewrite (is_ty_neq _ T_RPAREN) by (rewrite T1; discriminate). cbn [negb]. unfold expect.
      rewrite (is_ty_eq _ _ T1), V1. rewrite (pmacro_loop_at ps (S pos) f [p] A ltac:(cbn [length] in HF; lia)).
      cbn [app length]. f_equal. f_equal.
      assert (L : length (flat_map (fun q => [tCOMMA; idt q]) ps) = (2 * length ps)%nat).
      { clear. induction ps as [|q ps IH]; cbn [flat_map app length]; [reflexivity|]. rewrite IH. lia. }
      rewrite L. lia.
  Qed.
End Lists.

(* ------------------------------------------------------------------------------------------ *)
(** * First tokens, statement lists *)

Lemma and2 a b : a && b = true -> a = true /\ b = true.
Proof. apply andb_true_iff. Qed.
Lemma and3 a b c : a && b && c = true -> a = true /\ b = true /\ c = true.
Proof. intros H. apply and2 in H as [H ?]. apply and2 in H as [? ?]. auto. Qed.
Lemma and4 a b c d : a && b && c && d = true -> a = true /\ b = true /\ c = true /\ d = true.
Proof. intros H. apply and2 in H as [H ?]. apply and3 in H as (? & ? & ?). auto. Qed.
Lemma and5 a b c d e : a && b && c && d && e = true -> a = true /\ b = true /\ c = true /\ d = true /\ e = true.
Proof. intros H. apply and2 in H as [H ?]. apply and4 in H as (? & ? & ? & ?). auto. Qed.
Lemma and6 a b c d e g : a && b && c && d && e && g = true ->
  a = true /\ b = true /\ c = true /\ d = true /\ e = true /\ g = true.
Proof. intros H. apply and2 in H as [H ?]. apply and5 in H as (? & ? & ? & ? & ?). auto 7. Qed.
Lemma and7 a b c d e g h : a && b && c && d && e && g && h = true ->
  a = true /\ b = true /\ c = true /\ d = true /\ e = true /\ g = true /\ h = true.
Proof. intros H. apply and2 in H as [H ?]. apply and6 in H as (? & ? & ? & ? & ? & ?). auto 8. Qed.

Lemma str_eqb_neq (a b : str) : a <> b -> str_eqb a b = false.
Proof. intros N. destruct (str_eqb a b) eqn:E; [|reflexivity]. apply str_eqb_true'' in E. contradiction. Qed.

Lemma pident_not_else lx n : pident_b lx n = true -> str_eqb n k_else = false.
Proof. intros H. apply str_eqb_neq. apply (pident_b_ok lx n H). Qed.

Lemma mn3_not_else lx op : mn3_b lx op = true -> str_eqb op k_else = false.
Proof.
  destruct op as [|a [|b [|c [|d r]]]]; try discriminate. intros _.
  unfold str_eqb, k_else. cbn [list_eqb]. rewrite !andb_false_r. reflexivity.
Qed.

Lemma first_starter lx next a : pstmt lx next a = true ->
  exists t rest, stmt_tks a = t :: rest /\ starter t = true.
Proof.
  destruct a; cbn [pstmt stmt_tks]; try discriminate; intros H.
  - (* ABlock *) eexists _, _. split; reflexivity.
  - (* ACompound *) eexists _, _. split; reflexivity.
  - (* ALabel *) apply and2 in H as [H _]. eexists _, _. split; [reflexivity|].
    unfold starter. cbn [fst snd]. rewrite (pident_not_else _ _ H). reflexivity.
  - eexists _, _. split; reflexivity.
  - eexists _, _. split; reflexivity.
  - eexists _, _. split; reflexivity.
  - eexists _, _. split; reflexivity.
  - eexists _, _. split; reflexivity.
  - eexists _, _. split; reflexivity.
  - eexists _, _. split; reflexivity.
  - eexists _, _. split; reflexivity.
  - (* AMacroApply *) apply and3 in H as (H & _ & _). eexists _, _. split; [reflexivity|].
    unfold starter, idt. cbn [fst snd]. rewrite (pident_not_else _ _ H). reflexivity.
  - (* AData *) eexists _, _. split; [reflexivity|]. destruct k; reflexivity.
  - eexists _, _. split; reflexivity.
  - eexists _, _. split; reflexivity.
  - eexists _, _. split; reflexivity.
  - (* ASymbol *) apply and3 in H as (H & _ & _). eexists _, _. split; [reflexivity|].
    unfold starter, idt. cbn [fst snd]. rewrite (pident_not_else _ _ H). reflexivity.
  - apply and3 in H as (H & _ & _). eexists _, _. split; [reflexivity|].
    unfold starter, idt. cbn [fst snd]. rewrite (pident_not_else _ _ H). reflexivity.
  - (* ACodeLookup *) eexists _, _. split; reflexivity.
  - eexists _, _. split; reflexivity.
  - (* AOpcode *) apply and2 in H as [H _]. destruct operand; eexists _, _; (split; [reflexivity|]);
      unfold starter; cbn [fst snd]; rewrite (mn3_not_else _ _ H); reflexivity.
Qed.

Lemma starter_facts t : starter t = true -> nx_ok t = true /\ fst t <> T_EOF /\ fst t <> T_RBRACE.
Proof.
  intros H. split; [unfold nx_ok; rewrite H; reflexivity|]. unfold starter in H.
  destruct (fst t); try discriminate H; split; discriminate.
Qed.

Section Stmts.
  Variable lx : lexicon.
  Variable sub : str -> pres (list ast).

  Definition Pst (a : ast) : Prop :=
    forall next, pstmt lx next a = true -> nx_ok next = true ->
    exists F, forall ts pos f,
      At ts pos (stmt_tks a) -> tv (cur ts (pos + length (stmt_tks a))) = next -> (F <= f)%nat ->
      exists a', pdecl ts sub f pos = POk (Some a', (pos + length (stmt_tks a))%nat) /\ arel sameTV a a'.

  Lemma stmts_parse l : Forall Pst l -> forall next, pstmts lx next l = true -> nx_ok next = true ->
    exists F, forall ts pos f acc,
      At ts pos (prog_tks l) -> tv (cur ts (pos + length (prog_tks l))) = next -> (F <= f)%nat ->
      exists l', asrel sameTV l l' /\
        (next = tRB -> pblock ts sub f pos acc = POk (acc ++ l', S (pos + length (prog_tks l)))) /\
        (next = tEOF -> pinitial ts sub f pos acc = POk (acc ++ l')).
  Proof.
    induction 1 as [|x l Hx Hl IH]; intros next HP Hn.
    - exists 1%nat. intros ts pos f acc _ Hnext HF. exists []. split; [constructor|].
      cbn [prog_tks flat_map length] in *. rewrite Nat.add_0_r in *. destruct f as [|f]; [lia|].
      rewrite app_nil_r. split; intros Hx0; rewrite Hx0 in Hnext; destruct (tv_is _ _ _ _ Hnext) as [T _].
      + rewrite pblock_S. cbv zeta. rewrite (is_ty_neq _ T_EOF) by (rewrite T; discriminate).
        rewrite (is_ty_eq _ _ T). cbn [orb]. unfold expect. rewrite (is_ty_eq _ _ T). reflexivity.
      + cbn [pinitial]. rewrite (is_ty_eq _ _ T). reflexivity.
    - unfold pstmts in HP. cbn [ctx_all] in HP. apply and2 in HP as [HPx HPl].
      set (nx := match l with [] => next | y :: _ => first_tk y end) in *.
      assert (Hnx : nx_ok nx = true).
      { unfold nx. destruct l as [|y l']; [exact Hn|]. cbn [ctx_all] in HPl. apply and2 in HPl as [HPy _].
        destruct (first_starter _ _ _ HPy) as (t & rest & E & S). unfold first_tk. rewrite E. cbn [hd].
        apply (starter_facts _ S). }
      destruct (Hx nx HPx Hnx) as (F1 & H1). destruct (IH next HPl Hn) as (F2 & H2).
      exists (S (F1 + F2)). intros ts pos f acc A Hnext HF. destruct f as [|f]; [lia|].
      unfold prog_tks in A, Hnext. cbn [flat_map] in A, Hnext. fold (prog_tks l) in A, Hnext.
      apply At_app in A as [Ax Al].
      assert (Hx_next : tv (cur ts (pos + length (stmt_tks x))) = nx).
      { unfold nx. destruct l as [|y l'].
        - cbn [prog_tks flat_map] in Hnext. rewrite app_nil_r in Hnext. exact Hnext.
        - cbn [ctx_all] in HPl. apply and2 in HPl as [HPy _].
          destruct (first_starter _ _ _ HPy) as (t & rest & E & S). unfold first_tk. rewrite E. cbn [hd].
          cbn [prog_tks flat_map] in Al. rewrite E in Al. cbn [app] in Al. apply Al. }
      destruct (H1 ts pos f Ax Hx_next ltac:(lia)) as (x' & Ex & Rx).
      destruct (H2 ts (pos + length (stmt_tks x))%nat f (acc ++ [x']) Al) as (l' & Rl & B & I0).
      { rewrite <- Nat.add_assoc. rewrite app_length in Hnext. exact Hnext. }
      { lia. }
      destruct (first_starter _ _ _ HPx) as (t0 & r0 & E0 & S0).
      destruct (starter_facts _ S0) as (_ & S1 & S2).
      rewrite E0 in Ax. apply At_cons in Ax as [A0 _]. destruct t0 as [ty0 v0]. cbn [fst] in S1, S2.
      destruct (tv_is _ _ _ _ A0) as [T0 _].
      exists (x' :: l'). split; [constructor; assumption|]. split; intros Hnx0.
      + rewrite pblock_S. cbv zeta. rewrite (is_ty_neq _ T_EOF) by (rewrite T0; exact S1).
        rewrite (is_ty_neq _ T_RBRACE) by (rewrite T0; exact S2). cbn [orb]. rewrite Ex. cbn [pbind fst snd opt_app].
        rewrite (B Hnx0). rewrite <- app_assoc. cbn [app]. f_equal. f_equal.
        unfold prog_tks. cbn [flat_map]. ll3.
      + cbn [pinitial]. rewrite (is_ty_neq _ T_EOF) by (rewrite T0; exact S1). rewrite Ex. cbn [pbind fst snd opt_app].
        rewrite (I0 Hnx0). rewrite <- app_assoc. reflexivity.
  Qed.
End Stmts.

(* ------------------------------------------------------------------------------------------ *)
(** * The statements, one by one *)

Ltac kwc :=
  repeat match goal with
    | |- context [str_eqb ?a ?b] =>
        let v := eval vm_compute in (str_eqb a b) in
        match v with
        | true => change (str_eqb a b) with true
        | false => change (str_eqb a b) with false
        end
    | |- context [dkind_of ?a] =>
        let v := eval vm_compute in (dkind_of a) in
        match v with
        | Some ?k => change (dkind_of a) with (Some k)
        | None => change (dkind_of a) with (@None dkind)
        end
    end; cbv iota.

Lemma strip_quotes_q s : strip_quotes (39 :: s ++ [39]) = s.
Proof. unfold strip_quotes. cbn [tl]. apply removelast_last. Qed.

Lemma pdecl_kw ts sub f pos : t_type (cur ts pos) = T_KEYWORD ->
  pdecl ts sub (S f) pos =
  (dop x <- pkeyword ts sub (fun p => pblock ts sub f p []) (fun p => pel ts sub f p []) f pos;
   POk (Some (fst x), snd x)).
Proof. intros T. rewrite pdecl_S. unfold pdecl_body. cbv zeta. rewrite T. reflexivity. Qed.

Section Cases.
  Variable lx : lexicon.
  Variable sub : str -> pres (list ast).
  Local Notation Pst := (Pst lx sub).

  Lemma case_label n fi : Pst (ALabel n fi).
  Proof.
    intros next HP Hn. cbn [pstmt] in HP. apply and2 in HP as [Hid Hfi].
    exists 1%nat. intros ts pos f A Hnx HF. destruct f as [|f]; [lia|].
    cbn [stmt_tks] in *. apply At_cons in A as [A _]. destruct (tv_is _ _ _ _ A) as [T V].
    exists (ALabel (t_value (cur ts pos)) (cur ts pos)). split.
    - rewrite pdecl_S. unfold pdecl_body. cbv zeta. rewrite T. unfold plabel. cbn [backup pbind fst snd].
      f_equal. f_equal. cbn [length]. lia.
    - rewrite V. apply R_Label. exact (fi_same _ _ _ Hfi A).
  Qed.

  Lemma case_symbol n e fi : Pst (ASymbol n e fi).
  Proof.
    intros [nty nv] HP Hn. cbn [pstmt] in HP. apply and3 in HP as (Hid & Hfi & He).
    destruct (nx_ok_facts _ Hn) as (N1 & _). cbn [fst] in N1.
    exists (S (S (length e))). intros ts pos f A Hnx HF. destruct f as [|f]; [lia|].
    cbn [stmt_tks] in *. apply At_cons in A as [A0 A]. apply At_cons in A as [A1 Ae].
    destruct (tv_is _ _ _ _ A0) as [T0 V0]. destruct (tv_is _ _ _ _ A1) as [T1 _].
    cbn [length] in Hnx. rewrite map_length in Hnx.
    replace (pos + S (S (length e)))%nat with (S (S pos) + length e)%nat in Hnx by lia.
    destruct (tv_is _ _ _ _ Hnx) as [Tn _].
    destruct (pexp ts lx false e (S (S pos)) f He Ae ltac:(rewrite Tn; exact N1) ltac:(lia)) as [E R].
    exists (ASymbol (t_value (cur ts pos)) (retok ts (S (S pos)) e) (cur ts pos)). split.
    - rewrite pdecl_S. unfold pdecl_body. cbv zeta. rewrite T0. cbn [backup].
      change (peek ts pos) with (cur ts (S pos)). rewrite (is_ty_neq _ T_LPAREN) by (rewrite T1; discriminate).
      unfold psymbol. cbv zeta. rewrite (is_ty_eq _ _ T1). cbn [orb]. rewrite E. cbn [pbind fst snd].
      f_equal. f_equal. cbn [length]. rewrite map_length. lia.
    - rewrite V0. apply R_Symbol; [exact R|exact (fi_same _ _ _ Hfi A0)].
  Qed.

  Lemma case_assign n e fi : Pst (AAssign n e fi).
  Proof.
    intros [nty nv] HP Hn. cbn [pstmt] in HP. apply and3 in HP as (Hid & Hfi & He).
    destruct (nx_ok_facts _ Hn) as (N1 & _). cbn [fst] in N1.
    exists (S (S (length e))). intros ts pos f A Hnx HF. destruct f as [|f]; [lia|].
    cbn [stmt_tks] in *. apply At_cons in A as [A0 A]. apply At_cons in A as [A1 Ae].
    destruct (tv_is _ _ _ _ A0) as [T0 V0]. destruct (tv_is _ _ _ _ A1) as [T1 _].
    cbn [length] in Hnx. rewrite map_length in Hnx.
    replace (pos + S (S (length e)))%nat with (S (S pos) + length e)%nat in Hnx by lia.
    destruct (tv_is _ _ _ _ Hnx) as [Tn _].
    destruct (pexp ts lx false e (S (S pos)) f He Ae ltac:(rewrite Tn; exact N1) ltac:(lia)) as [E R].
    exists (AAssign (t_value (cur ts pos)) (retok ts (S (S pos)) e) (cur ts pos)). split.
    - rewrite pdecl_S. unfold pdecl_body. cbv zeta. rewrite T0. cbn [backup].
      change (peek ts pos) with (cur ts (S pos)). rewrite (is_ty_neq _ T_LPAREN) by (rewrite T1; discriminate).
      unfold psymbol. cbv zeta. rewrite (is_ty_neq _ T_EQUAL) by (rewrite T1; discriminate).
      rewrite (is_ty_eq _ _ T1). cbn [orb]. rewrite E. cbn [pbind fst snd].
      f_equal. f_equal. cbn [length]. rewrite map_length. lia.
    - rewrite V0. apply R_Assign; [exact R|exact (fi_same _ _ _ Hfi A0)].
  Qed.

  (** [tv] of the first token of an expression found at [q] *)
  Lemma At_hd ts q e : e <> [] -> At ts q (map etv e) -> tv (cur ts q) = hd tEOF (map etv e).
  Proof. destruct e as [|n e]; [congruence|]. intros _ A. cbn [map hd]. apply A. Qed.

  Lemma case_stareq e fi : Pst (AStarEq e fi).
  Proof.
    intros [nty nv] HP Hn. cbn [pstmt] in HP. apply and2 in HP as (He & Hfi).
    destruct (nx_ok_facts _ Hn) as (N1 & _). cbn [fst] in N1.
    exists (S (S (length e))). intros ts pos f A Hnx HF. destruct f as [|f]; [lia|].
    cbn [stmt_tks] in *. apply At_cons in A as [A0 Ae]. destruct (tv_is _ _ _ _ A0) as [T0 _].
    cbn [length] in Hnx. rewrite map_length in Hnx.
    replace (pos + S (length e))%nat with (S pos + length e)%nat in Hnx by lia.
    destruct (tv_is _ _ _ _ Hnx) as [Tn _].
    destruct (pexp ts lx false e (S pos) f He Ae ltac:(rewrite Tn; exact N1) ltac:(lia)) as [E R].
    exists (AStarEq (retok ts (S pos) e) (cur ts (S pos))). split.
    - rewrite pdecl_S. unfold pdecl_body. cbv zeta. rewrite T0. unfold pstar_eq. cbv zeta. rewrite E.
      cbn [pbind fst snd]. f_equal. f_equal. cbn [length]. rewrite map_length. lia.
    - apply R_StarEq; [exact R|]. apply (fi_same _ _ _ Hfi). apply At_hd; [eapply printable_len; exact He|exact Ae].
  Qed.

  Lemma case_ateq e fi : Pst (AAtEq e fi).
  Proof.
    intros [nty nv] HP Hn. cbn [pstmt] in HP. apply and2 in HP as (He & Hfi).
    destruct (nx_ok_facts _ Hn) as (N1 & _). cbn [fst] in N1.
    exists (S (S (length e))). intros ts pos f A Hnx HF. destruct f as [|f]; [lia|].
    cbn [stmt_tks] in *. apply At_cons in A as [A0 Ae]. destruct (tv_is _ _ _ _ A0) as [T0 _].
    cbn [length] in Hnx. rewrite map_length in Hnx.
    replace (pos + S (length e))%nat with (S pos + length e)%nat in Hnx by lia.
    destruct (tv_is _ _ _ _ Hnx) as [Tn _].
    destruct (pexp ts lx false e (S pos) f He Ae ltac:(rewrite Tn; exact N1) ltac:(lia)) as [E R].
    exists (AAtEq (retok ts (S pos) e) (cur ts (S pos))). split.
    - rewrite pdecl_S. unfold pdecl_body. cbv zeta. rewrite T0. unfold pat_eq. cbv zeta. rewrite E.
      cbn [pbind fst snd]. f_equal. f_equal. cbn [length]. rewrite map_length. lia.
    - apply R_AtEq; [exact R|]. apply (fi_same _ _ _ Hfi). apply At_hd; [eapply printable_len; exact He|exact Ae].
  Qed.

  (** keyword + quoted string *)
  Lemma quoted_at ts q s : tv (cur ts q) = qst s -> pquoted ts q = POk (s, S q).
  Proof.
    intros A. destruct (tv_is _ _ _ _ A) as [T V]. unfold pquoted. cbv zeta. unfold expect.
    rewrite (is_ty_eq _ _ T), V, strip_quotes_q. reflexivity.
  Qed.

  Lemma case_ascii s fi : Pst (AAscii s fi).
  Proof.
    intros next HP Hn. cbn [pstmt] in HP. apply and3 in HP as (_ & Hfi & _).
    exists 1%nat. intros ts pos f A Hnx HF. destruct f as [|f]; [lia|].
    cbn [stmt_tks] in *. apply At_cons in A as [A0 A]. apply At_cons in A as [A1 _].
    destruct (tv_is _ _ _ _ A0) as [T0 V0].
    exists (AAscii s (cur ts pos)). split.
    - rewrite (pdecl_kw ts sub f pos T0). unfold pkeyword. cbv zeta. rewrite V0. kwc.
      rewrite (quoted_at ts (S pos) s A1). cbn [pbind fst snd]. f_equal. f_equal. cbn [length]. lia.
    - apply R_Ascii. exact (fi_same _ _ _ Hfi A0).
  Qed.

  Lemma case_text s fi : Pst (AText s fi).
  Proof.
    intros next HP Hn. cbn [pstmt] in HP. apply and3 in HP as (_ & Hfi & _).
    exists 1%nat. intros ts pos f A Hnx HF. destruct f as [|f]; [lia|].
    cbn [stmt_tks] in *. apply At_cons in A as [A0 A]. apply At_cons in A as [A1 _].
    destruct (tv_is _ _ _ _ A0) as [T0 V0].
    exists (AText s (cur ts pos)). split.
    - rewrite (pdecl_kw ts sub f pos T0). unfold pkeyword. cbv zeta. rewrite V0. kwc.
      rewrite (quoted_at ts (S pos) s A1). cbn [pbind fst snd]. f_equal. f_equal. cbn [length]. lia.
    - apply R_Text. exact (fi_same _ _ _ Hfi A0).
  Qed.

  Lemma case_table p fi : Pst (ATable p fi).
  Proof.
    intros next HP Hn. cbn [pstmt] in HP. apply and3 in HP as (_ & Hfi & _).
    exists 1%nat. intros ts pos f A Hnx HF. destruct f as [|f]; [lia|].
    cbn [stmt_tks] in *. apply At_cons in A as [A0 A]. apply At_cons in A as [A1 _].
    destruct (tv_is _ _ _ _ A0) as [T0 V0]. cbn [length] in Hnx.
    replace (pos + 2)%nat with (S (S pos)) in Hnx by lia.
    exists (ATable p (cur ts (S (S pos)))). split.
    - rewrite (pdecl_kw ts sub f pos T0). unfold pkeyword. cbv zeta. rewrite V0. kwc.
      rewrite (quoted_at ts (S pos) p A1). cbn [pbind fst snd]. f_equal. f_equal. cbn [length]. lia.
    - apply R_Table. exact (fi_same _ _ _ Hfi Hnx).
  Qed.

  Lemma case_incbin p fi : Pst (AIncbin p fi).
  Proof.
    intros next HP Hn. cbn [pstmt] in HP. apply and3 in HP as (_ & Hfi & _).
    exists 1%nat. intros ts pos f A Hnx HF. destruct f as [|f]; [lia|].
    cbn [stmt_tks] in *. apply At_cons in A as [A0 A]. apply At_cons in A as [A1 _].
    destruct (tv_is _ _ _ _ A0) as [T0 V0]. cbn [length] in Hnx.
    replace (pos + 2)%nat with (S (S pos)) in Hnx by lia.
    exists (AIncbin p (cur ts (S (S pos)))). split.
    - rewrite (pdecl_kw ts sub f pos T0). unfold pkeyword. cbv zeta. rewrite V0. kwc.
      rewrite (quoted_at ts (S pos) p A1). cbn [pbind fst snd]. f_equal. f_equal. cbn [length]. lia.
    - apply R_Incbin. exact (fi_same _ _ _ Hfi Hnx).
  Qed.

  (** .map key = number [, number] ... *)
  Definition entry_ok (e : mentry) : Prop :=
    mapkey_of (snd (fst e)) = Some (fst (fst e)) /\ val_okb (snd e) = true /\
    match fst (fst e) with MK_identifier | MK_writable => snd (snd e) = None | _ => True end.
  Definition assign1 (a : mapargs) (e : mentry) : mapargs :=
    match mapargs_set a (fst (fst e)) (snd e) with Some a' => a' | None => a end.

  Lemma lit_ok_eval v : lit_ok v = true -> py_int_literal (dec_text v) = Some v.
  Proof.
    unfold lit_ok. intros H. apply and3 in H as (_ & _ & H).
    destruct (py_int_literal (dec_text v)) as [z|]; [|discriminate]. apply Z.eqb_eq in H. congruence.
  Qed.

  Lemma entry_len (e : mentry) L : length (flat_map entry_tks (e :: L)) = (length (entry_tks e) + length (flat_map entry_tks L))%nat.
  Proof. cbn [flat_map]. apply app_length. Qed.

  Lemma pmap_loop_at ts : forall L pos f args,
    Forall entry_ok L -> At ts pos (flat_map entry_tks L) ->
    t_type (cur ts (pos + length (flat_map entry_tks L))) <> T_IDENTIFIER ->
    t_type (cur ts (pos + length (flat_map entry_tks L))) <> T_COMMA -> (length L < f)%nat ->
    pmap_loop ts f pos args (None, None) =
    POk (fold_left assign1 L args, (pos + length (flat_map entry_tks L))%nat).
  Proof.
    induction L as [|[[mk key] [a ob]] L IH]; intros pos f args HL A N N2 HF; (destruct f as [|f]; [cbn [length] in HF; lia|]).
    - cbn [flat_map length fold_left] in *. rewrite Nat.add_0_r in *. cbn [pmap_loop]. rewrite (is_ty_neq _ _ N). reflexivity.
    - inversion HL as [|? ? (Hk & Hv & Hs) HL']; subst. cbn [fst snd] in *.
      rewrite entry_len in N, N2 |- *. cbn [flat_map] in A. apply At_app in A as [Ae A].
      unfold entry_tks in Ae. cbn [fst snd] in Ae. apply At_cons in Ae as [A0 Ae]. apply At_cons in Ae as [A1 Ae].
      destruct (tv_is _ _ _ _ A0) as [T0 V0]. destruct (tv_is _ _ _ _ A1) as [T1 _].
      unfold val_okb in Hv. cbn [fst snd] in Hv. apply and2 in Hv as [Ha Hb].
      cbn [pmap_loop]. rewrite (is_ty_eq _ _ T0). unfold expect. rewrite (is_ty_eq _ _ T0), V0, Hk, (is_ty_eq _ _ T1).
      assert (P1 : forall k, poison_upd (None, None) k None = (None, None)) by (intros k; destruct k; reflexivity).
      assert (P2 : forall a0, mapargs_set a0 mk (a, ob) <> None).
      { intros a0. destruct mk; cbn [mapargs_set]; try discriminate; rewrite Hs; discriminate. }
      cbn [fold_left]. unfold assign1 at 2. cbn [fst snd].
      destruct (mapargs_set args mk (a, ob)) as [a'|] eqn:Es; [|exfalso; exact (P2 args Es)].
      destruct ob as [b|]; unfold entry_tks in *; cbn [fst snd val_tks length] in *.
      + apply At_cons in Ae as [A2 Ae]. apply At_cons in Ae as [A3 Ae]. apply At_cons in Ae as [A4 _].
        destruct (tv_is _ _ _ _ A2) as [T2 V2]. destruct (tv_is _ _ _ _ A3) as [T3 _]. destruct (tv_is _ _ _ _ A4) as [T4 V4].
        rewrite (is_ty_eq _ _ T2), (is_ty_eq _ _ T3), (is_ty_eq _ _ T4). unfold lit_eval. rewrite V2, V4.
        rewrite (lit_ok_eval _ Ha), (lit_ok_eval _ Hb). unfold map_assign. rewrite Es, P1.
        replace (S (S (S (S (S pos))))) with (pos + 5)%nat by lia.
        rewrite (IH (pos + 5)%nat f a' HL' A).
        * f_equal. f_equal. lia.
        * rewrite <- Nat.add_assoc. exact N.
        * rewrite <- Nat.add_assoc. exact N2.
        * cbn [length] in HF. lia.
      + apply At_cons in Ae as [A2 _]. destruct (tv_is _ _ _ _ A2) as [T2 V2].
        rewrite (is_ty_eq _ _ T2).
        assert (Tn : t_type (cur ts (S (S (S pos)))) <> T_COMMA).
        { replace (S (S (S pos))) with (pos + 3)%nat by lia. destruct L as [|[[mk' key'] v'] L'].
          - cbn [flat_map length] in N2. rewrite Nat.add_0_r in N2. exact N2.
          - cbn [flat_map] in A. unfold entry_tks in A. cbn [fst snd app] in A. apply At_cons in A as [X _].
            destruct (tv_is _ _ _ _ X) as [X1 _]. rewrite X1. discriminate. }
        rewrite (is_ty_neq _ _ Tn). unfold lit_eval. rewrite V2, (lit_ok_eval _ Ha). unfold map_assign. rewrite Es, P1.
        replace (S (S (S pos))) with (pos + 3)%nat by lia.
        rewrite (IH (pos + 3)%nat f a' HL' A).
        * f_equal. f_equal. lia.
        * rewrite <- Nat.add_assoc. exact N.
        * rewrite <- Nat.add_assoc. exact N2.
        * cbn [length] in HF. lia.
  Qed.

  Lemma map_attrs_ok lx0 m :
    forallb (fun e : mentry => pident_b lx0 (snd (fst e)) && val_okb (snd e)) (map_attrs m) = true ->
    Forall entry_ok (map_attrs m).
  Proof.
    intros H0. assert (H : Forall (fun e : mentry => pident_b lx0 (snd (fst e)) && val_okb (snd e) = true) (map_attrs m))
      by (apply Forall_forall; rewrite forallb_forall in H0; exact H0). clear H0. unfold map_attrs in *.
    repeat (apply Forall_app in H; destruct H as [?H H]).
    repeat (apply Forall_app; split);
      match goal with
      | Hx : Forall _ (optl ?o _) |- Forall _ (optl ?o _) =>
          destruct o; cbn [optl] in *; [|constructor];
          inversion Hx as [|? ? Hy _]; subst; constructor; [|constructor];
          cbn [fst snd] in Hy; apply and2 in Hy as [_ Hy]; unfold entry_ok; cbn [fst snd]; auto
      end.
  Qed.

  Lemma map_attrs_fold m : fold_left assign1 (map_attrs m) mapargs_empty = m.
  Proof. destruct m as [[i|] [w0|] [b|] [a|] [k|] [r|]]; reflexivity. Qed.

  Lemma case_map m fi : Pst (AMap m fi).
  Proof.
    intros [nty nv] HP Hn. cbn [pstmt] in HP. apply and5 in HP as (_ & Hfi & Hne & Hall & Hnx).
    destruct (nx_ok_facts _ Hn) as (_ & N2 & _). cbn [fst] in N2, Hnx.
    pose proof (map_attrs_ok lx m Hall) as Hok.
    exists (S (S (length (map_attrs m)))). intros ts pos f A Hnext HF. destruct f as [|f]; [lia|].
    cbn [stmt_tks] in *. apply At_cons in A as [A0 A]. destruct (tv_is _ _ _ _ A0) as [T0 V0].
    unfold map_tks in *. cbn [length] in Hnext.
    replace (pos + S (length (flat_map entry_tks (map_attrs m))))%nat
      with (S pos + length (flat_map entry_tks (map_attrs m)))%nat in Hnext by lia.
    destruct (tv_is _ _ _ _ Hnext) as [Tn _].
    assert (Ni : t_type (cur ts (S pos + length (flat_map entry_tks (map_attrs m)))) <> T_IDENTIFIER).
    { rewrite Tn. intros X. rewrite X in Hnx. discriminate Hnx. }
    pose proof (pmap_loop_at ts (map_attrs m) (S pos) f mapargs_empty Hok A Ni ltac:(rewrite Tn; exact N2) ltac:(lia)) as E.
    rewrite map_attrs_fold in E.
    assert (Hfirst : t_type (cur ts (S pos)) = T_IDENTIFIER /\ tv (cur ts (S pos)) = hd tEOF (flat_map entry_tks (map_attrs m))).
    { destruct (map_attrs m) as [|[[mk key] v] L]; [discriminate Hne|]. cbn [flat_map] in A |- *.
      unfold entry_tks in A |- *. cbn [fst snd app hd] in A |- *. apply At_cons in A as [X _].
      destruct (tv_is _ _ _ _ X) as [X1 _]. auto. }
    destruct Hfirst as [Tf Vf].
    exists (AMap m (cur ts (S pos))). split.
    - rewrite (pdecl_kw ts sub f pos T0). unfold pkeyword. cbv zeta. rewrite V0. kwc.
      unfold pmap. cbv zeta. unfold expect. rewrite (is_ty_eq _ _ Tf). rewrite E. cbn [pbind fst snd].
      f_equal. f_equal. cbn [length]. lia.
    - apply R_Map. exact (fi_same _ _ _ Hfi Vf).
  Qed.

  (** {{name}} *)
  Lemma case_code_lookup n fi : Pst (ACodeLookup n fi).
  Proof.
    intros next HP Hn. cbn [pstmt] in HP. apply and2 in HP as [Hid Hfi].
    exists 1%nat. intros ts pos f A Hnx HF. destruct f as [|f]; [lia|].
    cbn [stmt_tks] in *. apply At_cons in A as [A0 A]. apply At_cons in A as [A1 A]. apply At_cons in A as [A2 _].
    destruct (tv_is _ _ _ _ A0) as [T0 _]. destruct (tv_is _ _ _ _ A1) as [T1 V1]. destruct (tv_is _ _ _ _ A2) as [T2 _].
    exists (ACodeLookup (t_value (cur ts (S pos))) (cur ts (S pos))). split.
    - rewrite pdecl_S. unfold pdecl_body. cbv zeta. rewrite T0. unfold pcode_lookup. cbv zeta. unfold expect.
      rewrite (is_ty_eq _ _ T1), (is_ty_eq _ _ T2). cbn [pbind fst snd]. f_equal. f_equal. cbn [length]. lia.
    - rewrite V1. apply R_CodeLookup. exact (fi_same _ _ _ Hfi A1).
  Qed.

  (** .include_ips 'path', e  (the file_info is the string token) *)
  Lemma case_include_ips p e fi : Pst (AIncludeIps p e fi).
  Proof.
    intros [nty nv] HP Hn. cbn [pstmt] in HP. apply and4 in HP as (_ & Hfi & _ & He).
    destruct (nx_ok_facts _ Hn) as (N1 & _). cbn [fst] in N1.
    exists (S (S (length e))). intros ts pos f A Hnx HF. destruct f as [|f]; [lia|].
    cbn [stmt_tks] in *. apply At_cons in A as [A0 A]. apply At_cons in A as [A1 A]. apply At_cons in A as [A2 Ae].
    destruct (tv_is _ _ _ _ A0) as [T0 V0]. destruct (tv_is _ _ _ _ A2) as [T2 _].
    cbn [length] in Hnx. rewrite map_length in Hnx.
    replace (pos + S (S (S (length e))))%nat with (S (S (S pos)) + length e)%nat in Hnx by lia.
    destruct (tv_is _ _ _ _ Hnx) as [Tn _].
    destruct (pexp ts lx false e (S (S (S pos))) f He Ae ltac:(rewrite Tn; exact N1) ltac:(lia)) as [E R].
    exists (AIncludeIps p (retok ts (S (S (S pos))) e) (cur ts (S pos))). split.
    - rewrite (pdecl_kw ts sub f pos T0). unfold pkeyword. cbv zeta. rewrite V0. kwc.
      unfold pinclude_ips. cbv zeta. rewrite (quoted_at ts (S pos) p A1). cbn [pbind]. unfold expect.
      rewrite (is_ty_eq _ _ T2). rewrite E. cbn [pbind fst snd]. f_equal. f_equal. cbn [length]. rewrite map_length. lia.
    - apply R_IncludeIps; [exact R|exact (fi_same _ _ _ Hfi A1)].
  Qed.

  (** .include 'path': the body is what the nested parse of the file returns *)
  Hypothesis Hsub : forall b, incd b = true -> exists b', sub (pth b) = POk b' /\ asrel sameTV b b'.

  Lemma case_block b fi : Pst (ABlock b fi).
  Proof.
    intros next HP Hn. cbn [pstmt] in HP. apply and4 in HP as (_ & Hfi & _ & Hin).
    destruct (Hsub b Hin) as (b' & Es & Rb).
    exists 1%nat. intros ts pos f A Hnx HF. destruct f as [|f]; [lia|].
    cbn [stmt_tks] in *. apply At_cons in A as [A0 A]. apply At_cons in A as [A1 _].
    destruct (tv_is _ _ _ _ A0) as [T0 V0].
    exists (ABlock b' (cur ts pos)). split.
    - rewrite (pdecl_kw ts sub f pos T0). unfold pkeyword. cbv zeta. rewrite V0. kwc.
      rewrite (quoted_at ts (S pos) (pth b) A1). cbn [pbind fst snd]. rewrite Es. cbn [pbind fst snd].
      f_equal. f_equal. cbn [length]. lia.
    - apply R_Block; [exact Rb|exact (fi_same _ _ _ Hfi A0)].
  Qed.
End Cases.

Lemma all_exprs_map_inl (ls : list expr) :
  all_exprs (map (fun e => inl e : expr + (list ast * token)) ls) = Some ls.
Proof. induction ls as [|l r IH]; cbn [map all_exprs]; [reflexivity|]. rewrite IH. reflexivity. Qed.

Lemma At_join ts pos a b : At ts pos a -> At ts (pos + length a) b -> At ts pos (a ++ b).
Proof. intros H1 H2. apply At_app. split; assumption. Qed.

Lemma forallb_Forall {A} (p : A -> bool) l : forallb p l = true -> Forall (fun x => p x = true) l.
Proof. intros H. apply Forall_forall. rewrite forallb_forall in H. exact H. Qed.

Ltac at_pos H q :=
  match type of H with context [cur ?ts ?p] => replace p with q in H by (lens3; unfold tk, str in *; lia) end.

Section Cases2.
  Variable lx : lexicon.
  Variable sub : str -> pres (list ast).
  Local Notation Pst := (Pst lx sub).

  Lemma case_data k es fi : Pst (AData k es fi).
  Proof.
    intros [nty nv] HP Hn. cbn [pstmt] in HP. apply and3 in HP as (_ & Hfi & Hes).
    destruct es as [|x es]; [discriminate|]. apply forallb_Forall in Hes.
    destruct (nx_ok_facts _ Hn) as (N1 & N2 & _). cbn [fst] in N1, N2.
    exists (length (commas (map (map etv) (x :: es))) + length es + 3)%nat.
    intros ts pos f A Hnx HF. destruct f as [|f]; [lia|].
    cbn [stmt_tks] in *. apply At_cons in A as [A0 Ae]. destruct (tv_is _ _ _ _ A0) as [T0 V0].
    cbn [length] in Hnx.
    at_pos Hnx (S pos + length (commas (map (map etv) (x :: es))))%nat.
    destruct (tv_is _ _ _ _ Hnx) as [Tn _].
    destruct (pel_exprs ts sub lx es x (S pos) f [] Hes Ae) as (es' & E & R).
    { rewrite Tn. exact N1. } { rewrite Tn. exact N2. } { lia. }
    exists (AData k es' (cur ts pos)). split.
    - rewrite (pdecl_kw ts sub f pos T0). unfold pkeyword. cbv zeta. rewrite V0.
      destruct k; cbn [dk_name]; kwc; rewrite E; cbn [pbind fst snd app]; rewrite all_exprs_map_inl;
        cbn [pbind fst snd]; f_equal; f_equal; cbn [length]; unfold tk, str, expr in *; lia.
    - apply R_Data; [exact R|exact (fi_same _ _ _ Hfi A0)].
  Qed.

  Lemma case_compound b fi : Forall Pst b -> Pst (ACompound b fi).
  Proof.
    intros IHb next HP Hn. cbn [pstmt] in HP. apply and2 in HP as (Hfi & Hb).
    destruct (stmts_parse lx sub b IHb tRB Hb eq_refl) as (F & H).
    exists (S F). intros ts pos f A Hnx HF. destruct f as [|f]; [lia|].
    cbn [stmt_tks] in *. fold (prog_tks b) in *.
    apply At_cons in A as [A0 A]. apply At_app in A as [Ab Ar]. apply At_cons in Ar as [Ar _].
    destruct (tv_is _ _ _ _ A0) as [T0 _].
    destruct (H ts (S pos) f [] Ab Ar ltac:(lia)) as (b' & Rb & B & _). specialize (B eq_refl).
    exists (ACompound b' (cur ts pos)). split.
    - rewrite pdecl_S. unfold pdecl_body. cbv zeta. rewrite T0. rewrite B. cbn [pbind fst snd app].
      f_equal. f_equal. ll3.
    - apply R_Compound; [exact Rb|exact (fi_same _ _ _ Hfi A0)].
  Qed.

  Lemma case_scope n b bfi fi : Forall Pst b -> Pst (AScope n b bfi fi).
  Proof.
    intros IHb next HP Hn. cbn [pstmt] in HP. apply and5 in HP as (_ & Hid & Hbfi & Hfi & Hb).
    destruct (stmts_parse lx sub b IHb tRB Hb eq_refl) as (F & H).
    exists (S F). intros ts pos f A Hnx HF. destruct f as [|f]; [lia|].
    cbn [stmt_tks] in *. fold (prog_tks b) in *.
    apply At_cons in A as [A0 A]. apply At_cons in A as [A1 A]. apply At_cons in A as [A2 A].
    apply At_app in A as [Ab Ar]. apply At_cons in Ar as [Ar _].
    destruct (tv_is _ _ _ _ A0) as [T0 V0]. destruct (tv_is _ _ _ _ A1) as [T1 V1].
    destruct (tv_is _ _ _ _ A2) as [T2 _].
    destruct (H ts (S (S (S pos))) f [] Ab Ar ltac:(lia)) as (b' & Rb & B & _). specialize (B eq_refl).
    exists (AScope (t_value (cur ts (S pos))) b' (cur ts (S (S pos))) (cur ts (S pos))). split.
    - rewrite (pdecl_kw ts sub f pos T0). unfold pkeyword. cbv zeta. rewrite V0. kwc.
      unfold pscope. cbv zeta. unfold expect. rewrite (is_ty_eq _ _ T1), (is_ty_eq _ _ T2). rewrite B.
      cbn [pbind fst snd app]. f_equal. f_equal. ll3.
    - rewrite V1. apply R_Scope; [exact Rb|exact (fi_same _ _ _ Hbfi A2)|exact (fi_same _ _ _ Hfi A1)].
  Qed.
End Cases2.

Lemma mrel_inl (es es' : list expr) : Forall2 (erel sameTV) es es' ->
  Forall2 (mrel sameTV) (map (fun e => inl e) es) (map (fun e => inl e) es').
Proof. induction 1; cbn [map]; constructor; [apply M_expr; assumption|assumption]. Qed.

Section Cases3.
  Variable lx : lexicon.
  Variable sub : str -> pres (list ast).
  Local Notation Pst := (Pst lx sub).

  Lemma case_macro n ps b bfi fi : Forall Pst b -> Pst (AMacro n ps b bfi fi).
  Proof.
    intros IHb next HP Hn. cbn [pstmt] in HP. apply and6 in HP as (_ & Hid & _ & Hbfi & Hfi & Hb).
    destruct (stmts_parse lx sub b IHb tRB Hb eq_refl) as (F & H).
    exists (S (F + 2 * length ps + 3))%nat. intros ts pos f A Hnx HF. destruct f as [|f]; [lia|].
    cbn [stmt_tks] in *. fold (prog_tks b) in *. fold (params_tks ps) in *.
    apply At_cons in A as [A0 A]. apply At_cons in A as [A1 A]. apply At_cons in A as [A2 A].
    apply At_app in A as [Ap A]. apply At_cons in A as [A3 A]. apply At_cons in A as [A4 A].
    apply At_app in A as [Ab Ar]. apply At_cons in Ar as [Ar _].
    destruct (tv_is _ _ _ _ A0) as [T0 V0]. destruct (tv_is _ _ _ _ A1) as [T1 V1].
    destruct (tv_is _ _ _ _ A2) as [T2 _]. destruct (tv_is _ _ _ _ A3) as [T3 _].
    destruct (tv_is _ _ _ _ A4) as [T4 _].
    set (q := (S (S (S pos)) + length (params_tks ps))%nat) in *.
    assert (Apr : At ts (S (S (S pos))) (params_tks ps ++ [tRP])).
    { apply At_join; [exact Ap|]. cbn [At]. split; [exact A3|exact I]. }
    pose proof (pmacro_args_at ts sub ps (S (S (S pos))) f Apr ltac:(lia)) as Ea. fold q in Ea.
    destruct (H ts (S (S q)) f [] Ab Ar ltac:(lia)) as (b' & Rb & B & _). specialize (B eq_refl).
    exists (AMacro (t_value (cur ts (S pos))) ps b' (cur ts (S q)) (cur ts (S pos))). split.
    - rewrite (pdecl_kw ts sub f pos T0). unfold pkeyword. cbv zeta. rewrite V0. kwc.
      unfold pmacro. cbv zeta. unfold expect. rewrite (is_ty_eq _ _ T1), (is_ty_eq _ _ T2). rewrite Ea.
      cbn [pbind]. rewrite (is_ty_eq _ _ T3), (is_ty_eq _ _ T4). rewrite B.
      cbn [pbind fst snd app]. f_equal. f_equal. unfold q. ll3.
    - rewrite V1. apply R_Macro; [exact Rb|exact (fi_same _ _ _ Hbfi A4)|exact (fi_same _ _ _ Hfi A1)].
  Qed.

  (** one argument of a macro application: an expression or a block in braces *)
  Definition arg_ok (x : expr + (list ast * token)) : bool :=
    match x with
    | inl e => printable_expr lx false e
    | inr (b, bfi) => fi_is bfi tLB && ctx_all (pstmt lx) first_tk tRB b
    end.
  Definition item_parse (ts : list token) (f pos : nat) : R (expr + (list ast * token)) :=
    if is_ty (cur ts pos) T_LBRACE then
      dop rb <- pblock ts sub f (S pos) []; POk (inr (fst rb, cur ts pos), snd rb)
    else dop re <- pexpression ts f pos; POk (inl (fst re), snd re).

  Lemma pel_S' ts f pos acc :
    pel ts sub (S f) pos acc =
    (if is_ty (cur ts pos) T_RPAREN then POk (acc, pos)
     else dop r <- item_parse ts f pos;
          let '(item, p2) := r in
          if is_ty (cur ts p2) T_COMMA then pel ts sub f (S p2) (acc ++ [item]) else POk (acc ++ [item], p2)).
  Proof. reflexivity. Qed.

  Lemma pel_item x : Pm Pst x -> arg_ok x = true ->
    exists F, forall ts pos f, At ts pos (arg_tks x) ->
      t_type (cur ts (pos + length (arg_tks x))) <> T_OPERATOR -> (F <= f)%nat ->
      is_ty (cur ts pos) T_RPAREN = false /\
      exists x', item_parse ts f pos = POk (x', (pos + length (arg_tks x))%nat) /\ mrel sameTV x x'.
  Proof.
    intros HP Hok. destruct x as [e|[b bfi]]; cbn [Pm arg_ok arg_tks] in *.
    - exists (S (length e)). intros ts pos f A N HF. rewrite map_length in N.
      destruct (pexp_first _ _ _ Hok) as (n & e' & Ex & F1 & F2 & _).
      pose proof A as A0. rewrite Ex in A0. cbn [map At] in A0. destruct A0 as [A0 _].
      destruct (tv_is _ _ _ _ A0) as [T0 _].
      destruct (pexp ts lx false e pos f Hok A N ltac:(lia)) as [E R].
      split; [apply is_ty_neq; rewrite T0; exact F1|].
      exists (inl (retok ts pos e)). split; [|apply M_expr; exact R].
      unfold item_parse. rewrite (is_ty_neq _ T_LBRACE) by (rewrite T0; exact F2). rewrite E. cbn [pbind fst snd].
      rewrite map_length. reflexivity.
    - apply and2 in Hok as [Hfi Hb].
      destruct (stmts_parse lx sub b HP tRB Hb eq_refl) as (F & H).
      exists F. intros ts pos f A N HF.
      apply At_cons in A as [A0 A]. apply At_app in A as [Ab Ar]. apply At_cons in Ar as [Ar _].
      destruct (tv_is _ _ _ _ A0) as [T0 _].
      destruct (H ts (S pos) f [] Ab Ar HF) as (b' & Rb & B & _). specialize (B eq_refl).
      split; [apply is_ty_neq; rewrite T0; discriminate|].
      exists (inr (b', cur ts pos)). split; [|apply M_code; [exact Rb|exact (fi_same _ _ _ Hfi A0)]].
      unfold item_parse. rewrite (is_ty_eq _ _ T0). rewrite B. cbn [pbind fst snd app]. f_equal. f_equal. ll3.
  Qed.

  Lemma commas_cons2' (x y : expr + (list ast * token)) r :
    commas (map arg_tks (x :: y :: r)) = arg_tks x ++ tCOMMA :: commas (map arg_tks (y :: r)).
  Proof. reflexivity. Qed.

  Lemma pel_args : forall args x, Forall (Pm Pst) (x :: args) -> forallb arg_ok (x :: args) = true ->
    exists F, forall ts pos f acc, At ts pos (commas (map arg_tks (x :: args))) ->
      t_type (cur ts (pos + length (commas (map arg_tks (x :: args))))) <> T_OPERATOR ->
      t_type (cur ts (pos + length (commas (map arg_tks (x :: args))))) <> T_COMMA -> (F <= f)%nat ->
      exists args', pel ts sub f pos acc = POk (acc ++ args', (pos + length (commas (map arg_tks (x :: args))))%nat) /\
                    Forall2 (mrel sameTV) (x :: args) args'.
  Proof.
    induction args as [|y args IH]; intros x HP Hok; inversion HP as [|? ? Px HP']; subst;
      cbn [forallb] in Hok; apply and2 in Hok as [Ox Ok'].
    - destruct (pel_item x Px Ox) as (F & H). exists (S F). intros ts pos f acc A N1 N2 HF.
      destruct f as [|f]; [lia|]. cbn [map commas flat_map] in *. rewrite app_nil_r in *.
      destruct (H ts pos f A N1 ltac:(lia)) as (R0 & x' & E & Rx).
      rewrite pel_S', R0, E. cbn [pbind]. rewrite (is_ty_neq _ _ N2).
      exists [x']. split; [reflexivity|constructor; [exact Rx|constructor]].
    - destruct (pel_item x Px Ox) as (F1 & H1). destruct (IH y HP' Ok') as (F2 & H2).
      exists (S (F1 + F2)). intros ts pos f acc A N1 N2 HF. destruct f as [|f]; [lia|].
      assert (Lc : (length (commas (map arg_tks (x :: y :: args)))
                    = length (arg_tks x) + S (length (commas (map arg_tks (y :: args)))))%nat).
      { rewrite commas_cons2'. ll3. }
      rewrite commas_cons2' in A. apply At_app in A as [Ax A']. apply At_cons in A' as [Ac A'].
      destruct (tv_is _ _ _ _ Ac) as [Tc _].
      destruct (H1 ts pos f Ax ltac:(rewrite Tc; discriminate) ltac:(lia)) as (R0 & x' & E & Rx).
      rewrite pel_S', R0, E. cbn [pbind]. rewrite (is_ty_eq _ _ Tc).
      destruct (H2 ts (S (pos + length (arg_tks x))) f (acc ++ [x']) A') as (args' & E' & R').
      + match type of N1 with context [cur ts ?q0] =>
          match goal with |- context [cur ts ?q] => replace q with q0 by (unfold tk, str in *; lia) end end. exact N1.
      + match type of N2 with context [cur ts ?q0] =>
          match goal with |- context [cur ts ?q] => replace q with q0 by (unfold tk, str in *; lia) end end. exact N2.
      + lia.
      + exists (x' :: args'). split; [|constructor; assumption].
        etransitivity; [exact E'|]. f_equal. f_equal; [rewrite <- app_assoc; reflexivity|].
        unfold tk, str in *. lia.
  Qed.

  Lemma case_macro_apply n args fi : Forall (Pm Pst) args -> Pst (AMacroApply n args fi).
  Proof.
    intros IHa [nty nv] HP Hn. cbn [pstmt] in HP. apply and3 in HP as (Hid & Hfi & Hargs).
    fold arg_ok in Hargs.
    assert (Hpel : exists F, forall ts pos f, At ts pos (commas (map arg_tks args) ++ [tRP]) -> (F <= f)%nat ->
              exists args', pel ts sub f pos [] = POk (args', (pos + length (commas (map arg_tks args)))%nat) /\
                            Forall2 (mrel sameTV) args args').
    { destruct args as [|x args].
      - exists 1%nat. intros ts pos f A HF. cbn [map commas app length] in *. apply At_cons in A as [A _].
        destruct (tv_is _ _ _ _ A) as [T _]. destruct f as [|f]; [lia|].
        exists []. split; [|constructor]. rewrite pel_S', (is_ty_eq _ _ T), Nat.add_0_r. reflexivity.
      - destruct (pel_args args x IHa Hargs) as (F & H). exists F. intros ts pos f A HF.
        apply At_app in A as [A Ar]. apply At_cons in Ar as [Ar _]. destruct (tv_is _ _ _ _ Ar) as [Tr _].
        destruct (H ts pos f [] A ltac:(rewrite Tr; discriminate) ltac:(rewrite Tr; discriminate) HF) as (args' & E & R).
        exists args'. split; [exact E|exact R]. }
    destruct Hpel as (F & Hpel).
    exists (S F). intros ts pos f A Hnx HF. destruct f as [|f]; [lia|].
    rewrite stmt_tks_apply in *.
    apply At_cons in A as [A0 A]. apply At_cons in A as [A1 A].
    destruct (tv_is _ _ _ _ A0) as [T0 V0]. destruct (tv_is _ _ _ _ A1) as [T1 _].
    destruct (Hpel ts (S (S pos)) f A ltac:(lia)) as (args' & E & R).
    apply At_app in A as [_ Ar]. apply At_cons in Ar as [Ar _]. destruct (tv_is _ _ _ _ Ar) as [Tr _].
    exists (AMacroApply (t_value (cur ts pos)) args' (cur ts pos)). split.
    - rewrite pdecl_S. unfold pdecl_body. cbv zeta. rewrite T0. cbn [backup].
      change (peek ts pos) with (cur ts (S pos)). rewrite (is_ty_eq _ _ T1).
      unfold pmacro_apply. cbv zeta. unfold expect at 1. rewrite (is_ty_eq _ _ T0).
      unfold pelist. unfold expect at 1. rewrite (is_ty_eq _ _ T1). rewrite E. cbn [pbind].
      unfold expect. rewrite (is_ty_eq _ _ Tr). cbn [pbind fst snd]. f_equal. f_equal. ll3.
    - rewrite V0. apply R_MacroApply; [exact R|exact (fi_same _ _ _ Hfi A0)].
  Qed.

  Lemma case_for v lo hi b bfi fi : Forall Pst b -> Pst (AFor v lo hi b bfi fi).
  Proof.
    intros IHb [nty nv] HP Hn. cbn [pstmt] in HP. apply and7 in HP as (_ & Hid & Hlo & Hhi & Hfi & Hbfi & Hb).
    destruct (stmts_parse lx sub b IHb tRB Hb eq_refl) as (F & H).
    exists (S (F + length lo + length hi + 3))%nat. intros ts pos f A Hnx HF. destruct f as [|f]; [lia|].
    cbn [stmt_tks] in *. fold (prog_tks b) in *.
    apply At_cons in A as [A0 A]. apply At_cons in A as [A1 A]. apply At_cons in A as [A2 A].
    apply At_app in A as [Alo A]. apply At_cons in A as [A3 A]. apply At_app in A as [Ahi A].
    apply At_cons in A as [A4 A]. apply At_app in A as [Ab Ar]. apply At_cons in Ar as [Ar _].
    rewrite !map_length in *.
    destruct (tv_is _ _ _ _ A0) as [T0 V0]. destruct (tv_is _ _ _ _ A1) as [T1 V1].
    destruct (tv_is _ _ _ _ A2) as [T2 _]. destruct (tv_is _ _ _ _ A3) as [T3 _].
    destruct (tv_is _ _ _ _ A4) as [T4 _].
    set (p2 := (S (S (S pos)) + length lo)%nat) in *.
    set (p3 := (S p2 + length hi)%nat) in *.
    set (p4 := (S (S p3 + length (prog_tks b)))%nat).
    destruct (pexp ts lx false lo (S (S (S pos))) f Hlo Alo ltac:(fold p2; rewrite T3; discriminate) ltac:(lia))
      as [Elo Rlo]. fold p2 in Elo.
    destruct (pexp ts lx false hi (S p2) f Hhi Ahi ltac:(fold p3; rewrite T4; discriminate) ltac:(lia))
      as [Ehi Rhi]. fold p3 in Ehi.
    destruct (H ts (S p3) f [] Ab Ar ltac:(lia)) as (b' & Rb & B & _). specialize (B eq_refl). fold p4 in B.
    assert (Hnx' : tv (cur ts p4) = (nty, nv)).
    { match type of Hnx with context [cur ts ?p] => replace p with p4 in Hnx
        by (unfold p4, p3, p2; lens3; unfold tk, str in *; lia) end. exact Hnx. }
    exists (AFor (t_value (cur ts (S pos))) (retok ts (S (S (S pos))) lo) (retok ts (S p2) hi) b'
                 (cur ts p4) (cur ts (S pos))). split.
    - rewrite (pdecl_kw ts sub f pos T0). unfold pkeyword. cbv zeta. rewrite V0. kwc.
      unfold pfor. cbv zeta. unfold expect. rewrite (is_ty_eq _ _ T1), (is_ty_eq _ _ T2). rewrite Elo.
      cbn [pbind]. rewrite (is_ty_eq _ _ T3). rewrite Ehi. cbn [pbind]. rewrite (is_ty_eq _ _ T4). rewrite B.
      cbn [pbind fst snd app]. f_equal. f_equal. unfold p4, p3, p2. ll3.
    - rewrite V1. apply R_For; [exact Rlo|exact Rhi|exact Rb|exact (fi_same _ _ _ Hbfi Hnx')|exact (fi_same _ _ _ Hfi A1)].
  Qed.
End Cases3.

Section Cases4.
  Variable lx : lexicon.
  Variable sub : str -> pres (list ast).
  Local Notation Pst := (Pst lx sub).

  Lemma case_if c th thfi el fi : Forall Pst th -> Pel Pst el -> Pst (AIf c th thfi el fi).
  Proof.
    intros IHt IHe [nty nv] HP Hn. cbn [pstmt] in HP. apply and5 in HP as (_ & Hc & Hfi & Hth & Hel).
    destruct (nx_ok_facts _ Hn) as (_ & _ & _ & _ & _ & _ & _ & Nelse). cbn [snd] in Nelse.
    destruct (stmts_parse lx sub th IHt tRB Hth eq_refl) as (F1 & H1).
    destruct el as [[eb efi]|].
    - apply and3 in Hel as (Hthfi & Hefi & Heb). cbn [Pel] in IHe.
      destruct (stmts_parse lx sub eb IHe tRB Heb eq_refl) as (F2 & H2).
      exists (S (F1 + F2 + length c + 2))%nat. intros ts pos f A Hnx HF. destruct f as [|f]; [lia|].
      cbn [stmt_tks] in *. fold (prog_tks th) in *. fold (prog_tks eb) in *.
      apply At_cons in A as [A0 A]. apply At_app in A as [Ac A]. apply At_cons in A as [A1 A].
      apply At_app in A as [Ath A]. apply At_cons in A as [A2 A]. apply At_cons in A as [A3 A].
      apply At_cons in A as [A4 A]. apply At_app in A as [Aeb Ar]. apply At_cons in Ar as [Ar _].
      rewrite !map_length in *.
      destruct (tv_is _ _ _ _ A0) as [T0 V0]. destruct (tv_is _ _ _ _ A1) as [T1 _].
      destruct (tv_is _ _ _ _ A3) as [T3 V3]. destruct (tv_is _ _ _ _ A4) as [T4 _].
      set (p1 := (S pos + length c)%nat) in *.
      set (p2 := (S (S p1 + length (prog_tks th)))%nat) in *.
      set (p4 := (S (S (S p2) + length (prog_tks eb)))%nat).
      destruct (pexp ts lx false c (S pos) f Hc Ac ltac:(fold p1; rewrite T1; discriminate) ltac:(lia)) as [Ec Rc].
      fold p1 in Ec.
      destruct (H1 ts (S p1) f [] Ath A2 ltac:(lia)) as (th' & Rth & B1 & _). specialize (B1 eq_refl). fold p2 in B1.
      destruct (H2 ts (S (S p2)) f [] Aeb Ar ltac:(lia)) as (eb' & Reb & B2 & _). specialize (B2 eq_refl). fold p4 in B2.
      assert (Hnx' : tv (cur ts p4) = (nty, nv)).
      { match type of Hnx with context [cur ts ?p] => replace p with p4 in Hnx
          by (unfold p4, p2, p1; lens3; unfold tk, str in *; lia) end. exact Hnx. }
      exists (AIf (retok ts (S pos) c) th' (cur ts p2) (Some (eb', cur ts p4)) (cur ts (S pos))). split.
      + rewrite (pdecl_kw ts sub f pos T0). unfold pkeyword. cbv zeta. rewrite V0. kwc.
        unfold pif. cbv zeta. rewrite Ec. cbn [pbind]. unfold expect. rewrite (is_ty_eq _ _ T1). rewrite B1.
        cbn [pbind app]. rewrite V3. kwc. rewrite (is_ty_eq _ _ T4). rewrite B2. cbn [pbind fst snd app].
        f_equal. f_equal. unfold p4, p2, p1. ll3.
      + apply R_If_some; [exact Rc|exact Rth|exact (fi_same _ _ _ Hthfi A3)|exact Reb|exact (fi_same _ _ _ Hefi Hnx')|].
        apply (fi_same _ _ _ Hfi). apply At_hd; [eapply printable_len; exact Hc|exact Ac].
    - exists (S (F1 + length c + 2))%nat. intros ts pos f A Hnx HF. destruct f as [|f]; [lia|].
      cbn [stmt_tks] in *. fold (prog_tks th) in *.
      apply At_cons in A as [A0 A]. apply At_app in A as [Ac A]. apply At_cons in A as [A1 A].
      apply At_app in A as [Ath A]. apply At_cons in A as [A2 _].
      rewrite !map_length in *.
      destruct (tv_is _ _ _ _ A0) as [T0 V0]. destruct (tv_is _ _ _ _ A1) as [T1 _].
      set (p1 := (S pos + length c)%nat) in *.
      set (p2 := (S (S p1 + length (prog_tks th)))%nat) in *.
      destruct (pexp ts lx false c (S pos) f Hc Ac ltac:(fold p1; rewrite T1; discriminate) ltac:(lia)) as [Ec Rc].
      fold p1 in Ec.
      destruct (H1 ts (S p1) f [] Ath A2 ltac:(lia)) as (th' & Rth & B1 & _). specialize (B1 eq_refl). fold p2 in B1.
      assert (Hnx' : tv (cur ts p2) = (nty, nv)).
      { match type of Hnx with context [cur ts ?p] => replace p with p2 in Hnx
          by (unfold p2, p1; lens3; unfold tk, str in *; lia) end. exact Hnx. }
      destruct (tv_is _ _ _ _ Hnx') as [_ Vn].
      exists (AIf (retok ts (S pos) c) th' (cur ts p2) None (cur ts (S pos))). split.
      + rewrite (pdecl_kw ts sub f pos T0). unfold pkeyword. cbv zeta. rewrite V0. kwc.
        unfold pif. cbv zeta. rewrite Ec. cbn [pbind]. unfold expect. rewrite (is_ty_eq _ _ T1). rewrite B1.
        cbn [pbind app]. rewrite Vn, (str_eqb_neq _ _ Nelse). cbn [pbind fst snd]. f_equal. f_equal. unfold p2, p1. ll3.
      + apply R_If_none; [exact Rc|exact Rth|exact (fi_same _ _ _ Hel Hnx')|].
        apply (fi_same _ _ _ Hfi). apply At_hd; [eapply printable_len; exact Hc|exact Ac].
  Qed.
End Cases4.

(* ------------------------------------------------------------------------------------------ *)
(** * Instructions *)

Lemma size_facts' ts pos sz : At ts (S pos) (sz_tks sz) ->
  (sz = None -> t_type (cur ts (S pos)) <> T_OPCODE_SIZE) ->
  operand_start ts pos = (S pos + length (sz_tks sz))%nat /\ size_of ts pos = sz.
Proof.
  intros A N. unfold operand_start, size_of, has_size. destruct sz as [[| |]|]; cbn [sz_tks At length] in *.
  1-3: destruct A as [A _]; destruct (tv_is _ _ _ _ A) as [T V]; rewrite (is_ty_eq _ _ T), V; split; [lia|reflexivity].
  rewrite (is_ty_neq _ _ (N eq_refl)). split; [lia|reflexivity].
Qed.

Lemma ix_b_facts i : ix_b i = true -> i <> [] /\ Parser.lower i = i.
Proof.
  unfold ix_b. intros H. apply orb_true_iff in H as [H|H]; [apply orb_true_iff in H as [H|H]|];
    apply str_eqb_true'' in H; subst i; split; (discriminate || reflexivity).
Qed.

Lemma pexp_first_ty lx x e : printable_expr lx x e = true ->
  exists n e', e = n :: e' /\
    (en_ty n = T_NUMBER \/ en_ty n = T_IDENTIFIER \/ en_ty n = T_LPAREN \/ en_ty n = T_OPERATOR).
Proof.
  intros P. pose proof (printable_expr_PE _ _ _ P) as PEe.
  destruct PEe as [t Ht|t o s Ht Ho Hs|lp s r Hl Hr Hs|lp s r o s' Hl Hr Ho Hs Hs'|u s Hu Hs];
    eexists _, _; (split; [reflexivity|]); unfold en_ty; cbn [en_tok en].
  - destruct Ht as [H|H]; rewrite H; auto.
  - destruct Ht as [H|H]; rewrite H; auto.
  - rewrite Hl; auto.
  - rewrite Hl; auto.
  - destruct Hu as [H _]; rewrite H; auto.
Qed.

Lemma opnd_first lx m e idx l : printable_expr lx true e = true -> opnd_tks m (map etv e) idx = Some l ->
  exists t l', l = t :: l' /\ fst t <> T_OPCODE_SIZE.
Proof.
  intros P E. destruct (pexp_first_ty _ _ _ P) as (n & e' & -> & Hn).
  assert (X : fst (etv n) <> T_OPCODE_SIZE).
  { unfold etv, tv. cbn [fst]. unfold en_ty in Hn. destruct Hn as [H|[H|[H|H]]]; rewrite H; discriminate. }
  destruct m, idx; cbn [opnd_tks map app] in E; try discriminate E; injection E as <-;
    eexists _, _; (split; [reflexivity|]); try exact X; discriminate.
Qed.

Lemma head_not_lp_ty e : head_not_lp e = true -> en_ty (hd (en EK_term eof_token) e) <> T_LPAREN.
Proof.
  destruct e as [|n e]; [discriminate|]. cbn [head_not_lp hd]. intros H X. rewrite X in H. discriminate H.
Qed.

Section CaseOp.
  Variable lx : lexicon.
  Variable sub : str -> pres (list ast).
  Local Notation Pst := (Pst lx sub).

  Lemma case_opcode m op sz operand idx fi : Pst (AOpcode m op sz operand idx fi).
  Proof.
    intros [nty nv] HP Hn. cbn [pstmt] in HP. apply and2 in HP as [Hmn HP].
    destruct (nx_ok_facts _ Hn) as (N1 & _ & N3 & N4 & N5 & N6 & N7 & _). cbn [fst] in *.
    destruct operand as [e|].
    2:{ apply and3 in HP as (_ & Hfi & Hm).
        destruct m; try discriminate; destruct sz; try discriminate; destruct idx; try discriminate.
        exists 1%nat. intros ts pos f A Hnx HF. destruct f as [|f]; [lia|].
        cbn [stmt_tks] in *. apply At_cons in A as [A0 _]. destruct (tv_is _ _ _ _ A0) as [T0 V0].
        cbn [length] in Hnx. replace (pos + 1)%nat with (S pos) in Hnx by lia.
        destruct (tv_is _ _ _ _ Hnx) as [Tn _].
        destruct (size_facts' ts pos None I ltac:(intros _; rewrite Tn; exact N7)) as [Eq Esz].
        cbn [sz_tks length] in Eq. rewrite Nat.add_0_r in Eq.
        pose proof (shape_implied ts sub f pos) as S. unfold opc in S. rewrite Eq, Esz in S.
        exists (AOpcode M_none (t_value (cur ts pos)) None None None (cur ts pos)). split.
        - rewrite S; [f_equal; f_equal; cbn [length]; lia|exact T0|rewrite Tn; exact N4|rewrite Tn; exact N5|
                      rewrite Tn; exact N6|rewrite Tn; exact N3].
        - rewrite V0. apply R_Opcode; [exact I|exact (fi_same _ _ _ Hfi A0)]. }
    apply and3 in HP as (He & Hop & Hfi).
    exists (S (length e + 2))%nat. intros ts pos f A Hnx HF. destruct f as [|f]; [lia|].
    cbn [stmt_tks] in *.
    destruct (opnd_tks m (map etv e) idx) as [l|] eqn:El; [|exfalso; destruct m, idx; discriminate].
    destruct (opnd_first _ _ _ _ _ He El) as (t1 & l1 & El1 & Ht1).
    apply At_cons in A as [A0 A]. apply At_app in A as [Asz Al]. destruct (tv_is _ _ _ _ A0) as [T0 V0].
    assert (Ho : is_opcode_token ts pos) by (left; exact T0).
    assert (Hszn : sz = None -> t_type (cur ts (S pos)) <> T_OPCODE_SIZE).
    { intros ->. cbn [sz_tks length] in Al. rewrite Nat.add_0_r in Al. rewrite El1 in Al.
      apply At_cons in Al as [X _]. destruct t1 as [ty1 v1]. destruct (tv_is _ _ _ _ X) as [X1 _]. rewrite X1. exact Ht1. }
    destruct (size_facts' ts pos sz Asz Hszn) as [Eq Esz]. clear Hszn t1 l1 El1 Ht1.
    set (q := (S pos + length (sz_tks sz))%nat) in *.
    assert (Lq : forall k, (pos + length ((T_OPCODE, op) :: sz_tks sz ++ k) = q + length k)%nat)
      by (intros k; unfold q; ll3).
    rewrite Lq in Hnx. rewrite Lq.
    destruct m; destruct idx as [i|]; try discriminate Hop; cbn [opnd_tks] in El; injection El as <-.
    - (* # E *)
      cbn [app] in Al. apply At_cons in Al as [A1 Ae]. destruct (tv_is _ _ _ _ A1) as [T1 _].
      cbn [length] in Hnx. rewrite map_length in Hnx.
      replace (q + S (length e))%nat with (S q + length e)%nat in Hnx by lia.
      destruct (tv_is _ _ _ _ Hnx) as [Tn _].
      destruct (pexp ts lx true e (S q) f He Ae ltac:(rewrite Tn; exact N1) ltac:(lia)) as [E R].
      pose proof (shape_immediate ts sub f pos (retok ts (S q) e) (S q + length e)%nat) as S.
      unfold opc in S. rewrite Eq, Esz in S. specialize (S Ho T1 E ltac:(rewrite Tn; exact N3)).
      eexists. split; [rewrite S; f_equal; f_equal; ll3|].
      rewrite V0. apply R_Opcode; [exact R|exact (fi_same _ _ _ Hfi A0)].
    - (* E *)
      rewrite map_length in Hnx. destruct (tv_is _ _ _ _ Hnx) as [Tn _].
      destruct (pexp ts lx true e q f He Al ltac:(rewrite Tn; exact N1) ltac:(lia)) as [E R].
      assert (Hl : t_type (cur ts q) <> T_LPAREN).
      { pose proof (head_not_lp_ty e Hop) as X. destruct e as [|n e']; [discriminate Hop|].
        cbn [map At hd] in *. destruct Al as [Y _]. unfold etv in Y. rewrite (tv_ty _ _ Y). exact X. }
      pose proof (shape_direct ts sub f pos (retok ts q e) (q + length e)%nat) as S.
      unfold opc in S. rewrite Eq, Esz in S. specialize (S T0 Hl E ltac:(rewrite Tn; exact N3)).
      eexists. split; [rewrite S; f_equal; f_equal; ll3|].
      rewrite V0. apply R_Opcode; [exact R|exact (fi_same _ _ _ Hfi A0)].
    - (* E , i *)
      apply and2 in Hop as [Hhd Hi]. destruct (ix_b_facts i Hi) as [Ine Ilow].
      apply At_app in Al as [Ae Ai]. rewrite map_length in Ai. apply At_cons in Ai as [Ai _].
      destruct (tv_is _ _ _ _ Ai) as [Ti Vi].
      match type of Vi with t_value ?t = _ => assert (Hix : t_value t <> []) by (rewrite Vi; assumption || discriminate) end.
      destruct (pexp ts lx true e q f He Ae ltac:(rewrite Ti; discriminate) ltac:(lia)) as [E R].
      assert (Hl : t_type (cur ts q) <> T_LPAREN).
      { pose proof (head_not_lp_ty e Hhd) as X. destruct e as [|n e']; [discriminate Hhd|].
        cbn [map At hd] in *. destruct Ae as [Y _]. unfold etv in Y. rewrite (tv_ty _ _ Y). exact X. }
      pose proof (shape_direct_indexed ts sub f pos (retok ts q e) (q + length e)%nat) as S.
      unfold opc in S. rewrite Eq, Esz in S.
      specialize (S T0 Hl E (conj Ti Hix)). rewrite Vi, Ilow in S.
      eexists. split; [rewrite S; f_equal; f_equal; ll3|].
      rewrite V0. apply R_Opcode; [exact R|exact (fi_same _ _ _ Hfi A0)].
    - (* ( E ) *)
      cbn [app] in Al. apply At_cons in Al as [A1 Al]. apply At_app in Al as [Ae Ar].
      rewrite map_length in Ar. apply At_cons in Ar as [Ar _].
      destruct (tv_is _ _ _ _ A1) as [T1 _]. destruct (tv_is _ _ _ _ Ar) as [Tr _].
      cbn [length] in Hnx. rewrite app_length, map_length in Hnx. cbn [length] in Hnx.
      replace (q + S (length e + 1))%nat with (S (S q + length e))%nat in Hnx by lia.
      destruct (tv_is _ _ _ _ Hnx) as [Tn _].
      destruct (pexp ts lx true e (S q) f He Ae ltac:(rewrite Tr; discriminate) ltac:(lia)) as [E R].
      pose proof (shape_indirect ts sub f pos (retok ts (S q) e) (S q + length e)%nat) as S.
      unfold opc in S. rewrite Eq, Esz in S.
      specialize (S Ho T1 E Tr ltac:(rewrite Tn; exact N1) ltac:(rewrite Tn; exact N3)).
      eexists. split; [rewrite S; f_equal; f_equal; ll3|].
      rewrite V0. apply R_Opcode; [exact R|exact (fi_same _ _ _ Hfi A0)].
    - (* ( E ) , i *)
      destruct (ix_b_facts i Hop) as [Ine Ilow].
      cbn [app] in Al. apply At_cons in Al as [A1 Al]. apply At_app in Al as [Ae Ar].
      rewrite map_length in Ar. apply At_cons in Ar as [Ar Ai]. apply At_cons in Ai as [Ai _].
      destruct (tv_is _ _ _ _ A1) as [T1 _]. destruct (tv_is _ _ _ _ Ar) as [Tr _].
      destruct (tv_is _ _ _ _ Ai) as [Ti Vi].
      match type of Vi with t_value ?t = _ => assert (Hix : t_value t <> []) by (rewrite Vi; assumption || discriminate) end.
      destruct (pexp ts lx true e (S q) f He Ae ltac:(rewrite Tr; discriminate) ltac:(lia)) as [E R].
      pose proof (shape_indirect_indexed ts sub f pos (retok ts (S q) e) (S q + length e)%nat) as S.
      unfold opc in S. rewrite Eq, Esz in S.
      specialize (S Ho T1 E Tr (conj Ti Hix)). rewrite Vi, Ilow in S.
      eexists. split; [rewrite S; f_equal; f_equal; ll3|].
      rewrite V0. apply R_Opcode; [exact R|exact (fi_same _ _ _ Hfi A0)].
    - (* [ E ] *)
      cbn [app] in Al. apply At_cons in Al as [A1 Al]. apply At_app in Al as [Ae Ar].
      rewrite map_length in Ar. apply At_cons in Ar as [Ar _].
      destruct (tv_is _ _ _ _ A1) as [T1 _]. destruct (tv_is _ _ _ _ Ar) as [Tr _].
      cbn [length] in Hnx. rewrite app_length, map_length in Hnx. cbn [length] in Hnx.
      replace (q + S (length e + 1))%nat with (S (S q + length e))%nat in Hnx by lia.
      destruct (tv_is _ _ _ _ Hnx) as [Tn _].
      destruct (pexp ts lx true e (S q) f He Ae ltac:(rewrite Tr; discriminate) ltac:(lia)) as [E R].
      pose proof (shape_indirect_long ts sub f pos (retok ts (S q) e) (S q + length e)%nat) as S.
      unfold opc in S. rewrite Eq, Esz in S.
      specialize (S Ho T1 E Tr ltac:(rewrite Tn; exact N3)).
      eexists. split; [rewrite S; f_equal; f_equal; ll3|].
      rewrite V0. apply R_Opcode; [exact R|exact (fi_same _ _ _ Hfi A0)].
    - (* [ E ] , i *)
      destruct (ix_b_facts i Hop) as [Ine Ilow].
      cbn [app] in Al. apply At_cons in Al as [A1 Al]. apply At_app in Al as [Ae Ar].
      rewrite map_length in Ar. apply At_cons in Ar as [Ar Ai]. apply At_cons in Ai as [Ai _].
      destruct (tv_is _ _ _ _ A1) as [T1 _]. destruct (tv_is _ _ _ _ Ar) as [Tr _].
      destruct (tv_is _ _ _ _ Ai) as [Ti Vi].
      match type of Vi with t_value ?t = _ => assert (Hix : t_value t <> []) by (rewrite Vi; assumption || discriminate) end.
      destruct (pexp ts lx true e (S q) f He Ae ltac:(rewrite Tr; discriminate) ltac:(lia)) as [E R].
      pose proof (shape_indirect_long_indexed ts sub f pos (retok ts (S q) e) (S q + length e)%nat) as S.
      unfold opc in S. rewrite Eq, Esz in S.
      specialize (S Ho T1 E Tr (conj Ti Hix)). rewrite Vi, Ilow in S.
      eexists. split; [rewrite S; f_equal; f_equal; ll3|].
      rewrite V0. apply R_Opcode; [exact R|exact (fi_same _ _ _ Hfi A0)].
    - (* ( E , i ) *)
      destruct (ix_b_facts i Hop) as [Ine Ilow].
      cbn [app] in Al. apply At_cons in Al as [A1 Al]. apply At_app in Al as [Ae Ar].
      rewrite map_length in Ar. apply At_cons in Ar as [Ai Ar]. apply At_cons in Ar as [Ar _].
      destruct (tv_is _ _ _ _ A1) as [T1 _]. destruct (tv_is _ _ _ _ Ar) as [Tr _].
      destruct (tv_is _ _ _ _ Ai) as [Ti Vi].
      match type of Vi with t_value ?t = _ => assert (Hix : t_value t <> []) by (rewrite Vi; assumption || discriminate) end.
      cbn [length] in Hnx. rewrite app_length, map_length in Hnx. cbn [length] in Hnx.
      replace (q + S (length e + 2))%nat with (S (S (S q + length e)))%nat in Hnx by lia.
      destruct (tv_is _ _ _ _ Hnx) as [Tn _].
      destruct (pexp ts lx true e (S q) f He Ae ltac:(rewrite Ti; discriminate) ltac:(lia)) as [E R].
      pose proof (shape_inner_indexed ts sub f pos (retok ts (S q) e) (S q + length e)%nat) as S.
      unfold opc in S. rewrite Eq, Esz in S.
      specialize (S Ho T1 E Ti Tr ltac:(rewrite Tn; exact N1) ltac:(rewrite Tn; exact N3)). rewrite Vi, Ilow in S.
      eexists. split; [rewrite S; f_equal; f_equal; ll3|].
      rewrite V0. apply R_Opcode; [exact R|exact (fi_same _ _ _ Hfi A0)].
    - (* ( E , s ) , y *)
      apply str_eqb_true'' in Hop. subst i.
      cbn [app] in Al. apply At_cons in Al as [A1 Al]. apply At_app in Al as [Ae Ar].
      rewrite map_length in Ar. apply At_cons in Ar as [Ai Ar]. apply At_cons in Ar as [Ar Ay].
      apply At_cons in Ay as [Ay _].
      destruct (tv_is _ _ _ _ A1) as [T1 _]. destruct (tv_is _ _ _ _ Ar) as [Tr _].
      destruct (tv_is _ _ _ _ Ai) as [Ti Vi]. destruct (tv_is _ _ _ _ Ay) as [Ty Vy].
      destruct (pexp ts lx true e (S q) f He Ae ltac:(rewrite Ti; discriminate) ltac:(lia)) as [E R].
      pose proof (shape_stack_indexed ts sub f pos (retok ts (S q) e) (S q + length e)%nat) as S.
      unfold opc in S. rewrite Eq, Esz in S.
      specialize (S Ho T1 E Ti ltac:(rewrite Vi; reflexivity) Tr Ty ltac:(rewrite Vy; reflexivity)).
      eexists. split; [rewrite S; f_equal; f_equal; ll3|].
      rewrite V0. apply R_Opcode; [exact R|exact (fi_same _ _ _ Hfi A0)].
  Qed.
End CaseOp.

(* ------------------------------------------------------------------------------------------ *)
(** * Every printable statement; whole programs *)

Theorem stmt_parse lx sub :
  (forall b, incd b = true -> exists b', sub (pth b) = POk b' /\ asrel sameTV b b') ->
  forall a, Pst lx sub a.
Proof.
  intros Hsub. apply ast_ind'; intros;
    try (intros next HP; cbn [pstmt] in HP; discriminate HP).
  - apply case_block; assumption.
  - apply case_compound; assumption.
  - apply case_label.
  - apply case_text.
  - apply case_ascii.
  - apply case_scope; assumption.
  - apply case_stareq.
  - apply case_ateq.
  - apply case_map.
  - apply case_if; assumption.
  - apply case_macro; assumption.
  - apply case_macro_apply; assumption.
  - apply case_data.
  - apply case_table.
  - apply case_include_ips.
  - apply case_incbin.
  - apply case_symbol.
  - apply case_assign.
  - apply case_code_lookup.
  - apply case_for; assumption.
  - apply case_opcode.
Qed.

Lemma At_map_tv (toks : list token) : forall pre post, At (pre ++ toks ++ post) (length pre) (map tv toks).
Proof.
  induction toks as [|t toks IH]; intros pre post; cbn [map At app]; [exact I|]. split.
  - rewrite cur_mid. reflexivity.
  - specialize (IH (pre ++ [t]) post). rewrite <- app_assoc, app_length in IH. cbn [app length] in IH.
    replace (length pre + 1)%nat with (S (length pre)) in IH by lia. exact IH.
Qed.

(** parse_initial on the tokens of a printable program *)
Theorem prog_parse lx sub prog ts :
  (forall b, incd b = true -> exists b', sub (pth b) = POk b' /\ asrel sameTV b b') ->
  pstmts lx tEOF prog = true -> map tv ts = prog_tks prog ++ [tEOF] ->
  exists F, forall f, (F <= f)%nat ->
    exists prog', pinitial ts sub f 0 [] = POk prog' /\ asrel sameTV prog prog'.
Proof.
  intros Hsub HP E.
  destruct (stmts_parse lx sub prog ltac:(apply Forall_forall; intros a _; apply stmt_parse; exact Hsub) tEOF HP eq_refl)
    as (F & H).
  exists F. intros f HF.
  pose proof (At_map_tv ts [] []) as A. cbn [app length] in A. rewrite app_nil_r in A. rewrite E in A.
  apply At_app in A as [A1 A2]. cbn [Nat.add] in A2. apply At_cons in A2 as [A2 _].
  destruct (H ts 0%nat f [] A1 A2 HF) as (prog' & R & _ & I0).
  exists prog'. split; [exact (I0 eq_refl)|exact R].
Qed.

(** what [.include] does in [parse_program incfuel inc]: scan result + nested parse *)
Definition inc_sub (incfuel : nat) (inc : str -> res (list token)) : str -> pres (list ast) :=
  fun name =>
    match incfuel with
    | O => PErr ERecursion None
    | S i => match inc name with
             | Ok tk0 => parse_file i inc (parse_fuel (length tk0)) tk0
             | Err k => PErr k None
             | OutOfFuel => PFuel
             end
    end.

(** ... with the fuel Parser.parse gets *)
Theorem parse_printable lx inc incfuel prog toks :
  (forall name, inc name <> OutOfFuel) ->
  (forall b, incd b = true -> exists b', inc_sub incfuel inc (pth b) = POk b' /\ asrel sameTV b b') ->
  pstmts lx tEOF prog = true -> map tv toks = prog_tks prog ++ [tEOF] ->
  exists prog', parse_program (parse_fuel (length toks)) incfuel inc toks = POk prog' /\
                asrel sameTV prog prog'.
Proof.
  intros Hinc Hsub HP E.
  destruct (prog_parse lx (inc_sub incfuel inc) prog toks Hsub HP E) as (F & H).
  destruct (H (F + parse_fuel (length toks))%nat ltac:(lia)) as (prog' & E' & R).
  exists prog'. split; [|exact R].
  rewrite <- (parse_fuel_irrelevant inc toks incfuel (F + parse_fuel (length toks))%nat Hinc ltac:(lia)).
  unfold parse_program. rewrite parse_file_unfold. exact E'.
Qed.

End Ext.

Print Assumptions stmt_parse.
Print Assumptions parse_printable.
