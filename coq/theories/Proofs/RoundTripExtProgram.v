(** Round trip, EXTENDED class: the printer and the main theorem [roundtrip_ext].  A copy of
    Proofs/RoundTripProgram.v over the class of Proofs/RoundTripExtParse.v:  .include 'path',
    .include_ips 'path', e,  {{name}},  code-block macro arguments (the application then spans several
    lines:  "m ( {" / body / "} , 7 )"), dotted names in expressions. *)
From Coq Require Import ZArith NArith List Bool Lia Arith.
From A816 Require Import Spec.ExprSem Model.Scanner Model.Parser Proofs.ParserProofs Proofs.ExprLex
  Proofs.DataTextScan Proofs.ParserShapeTokens Proofs.InsnTextParse Proofs.InsnTextScan Proofs.LabelTextScan
  Proofs.LocationTextParse Proofs.LayoutLink Proofs.RoundTripExtExpr Proofs.RoundTripExtScan Proofs.RoundTripExtParse.
Import ListNotations.
Open Scope Z_scope.

(* ------------------------------------------------------------------------------------------ *)
(** * The printer *)

(** how a token is written: a keyword with its '.', a label with its ':', anything else as its value *)
Definition tok_text (t : tk) : str :=
  match fst t with
  | T_KEYWORD => 46 :: snd t
  | T_LABEL => snd t ++ [58]
  | _ => snd t
  end.

(** a line of words *)
Definition wline (l : list tk) : line :=
  {| l_body := unwords (map tok_text l); l_toks := l; l_calls := length l |}.

Definition ix_char (i : str) : Z := hd 120 i.
Definition sz_char (sz : option vsize) : option Z :=
  match sz with Some SzB => Some 98 | Some SzW => Some 119 | Some SzL => Some 108 | None => None end.

Definition iline (op : str) (sz : option vsize) (o : opening) (sp : spacing) (L : list tk) (c1 : option Z)
           (cl : closing) (c2 : option Z) : line :=
  {| l_body := insn_text op (sz_char sz) o sp L c1 cl c2;
     l_toks := insn_tks op (sz_char sz) o L c1 cl c2; l_calls := 1 |}.

(** an instruction with an operand; the spacing puts single blanks between the tokens of the
    expression only (the ")" of "(e)" directly follows the expression) *)
Definition insn_line (m : amode) (op : str) (sz : option vsize) (e : expr) (idx : option str) : line :=
  let L := map etv e in
  let sp := sp_mid (length L) in
  match m, idx with
  | M_immediate, None => iline op sz OSharp sp L None CNo None
  | M_direct, None => iline op sz ONo sp L None CNo None
  | M_direct_indexed, Some i => iline op sz ONo sp L (Some (ix_char i)) CNo None
  | M_indirect, None => iline op sz OParen sp (L ++ [tRP]) None CNo None
  | M_indirect_indexed, Some i => iline op sz OParen sp (L ++ [tRP]) (Some (ix_char i)) CNo None
  | M_indirect_long, None => iline op sz OBracket sp L None CBracket None
  | M_indirect_indexed_long, Some i => iline op sz OBracket sp L None CBracket (Some (ix_char i))
  | M_dp_or_sr_indirect_indexed, Some i => iline op sz OParen sp L (Some (ix_char i)) CParen None
  | M_stack_indexed_indirect_indexed, Some i => iline op sz OParen sp L (Some 115) CParen (Some (ix_char i))
  | _, _ => wline []
  end.

(** the lines of a macro application: words up to an opening brace, the body, the rest *)
Section ApplyLines.
  Variable sl : ast -> list line.
  Fixpoint apply_lines (cur : list tk) (l : list (expr + (list ast * token))) : list line :=
    match l with
    | [] => [wline (cur ++ [tRP])]
    | inl e :: r => apply_lines (cur ++ map etv e ++ match r with [] => [] | _ => [tCOMMA] end) r
    | inr (b, _) :: r =>
        wline (cur ++ [tLB]) :: flat_map sl b ++ apply_lines (tRB :: match r with [] => [] | _ => [tCOMMA] end) r
    end.
End ApplyLines.

Section ExtP.
Variable pth : list ast -> str.
Variable incd : list ast -> bool.

Fixpoint stmt_lines (a : ast) : list line :=
  match a with
  | ACompound b _ => wline [tLB] :: flat_map stmt_lines b ++ [wline [tRB]]
  | AScope n b _ _ => wline [kwt k_scope; idt n; tLB] :: flat_map stmt_lines b ++ [wline [tRB]]
  | AMacro n ps b _ _ =>
      wline (kwt k_macro :: idt n :: tLP :: params_tks ps ++ [tRP; tLB]) :: flat_map stmt_lines b ++ [wline [tRB]]
  | AIf c th _ el _ =>
      wline (kwt k_if :: map etv c ++ [tLB]) :: flat_map stmt_lines th ++
      match el with
      | Some (eb, _) => wline [tRB; idt k_else; tLB] :: flat_map stmt_lines eb ++ [wline [tRB]]
      | None => [wline [tRB]]
      end
  | AFor v lo hi b _ _ =>
      wline (kwt k_for :: idt v :: tASSIGN :: map etv lo ++ tCOMMA :: map etv hi ++ [tLB]) ::
      flat_map stmt_lines b ++ [wline [tRB]]
  | AOpcode m op sz operand idx _ =>
      match operand with
      | None => [{| l_body := op; l_toks := [(T_OPCODE_NAKED, op)]; l_calls := 1 |}]
      | Some e => [insn_line m op sz e idx]
      end
  | AMacroApply n args _ => apply_lines stmt_lines [idt n; tLP] args
  | _ => [wline (stmt_tks pth a)]
  end.

Definition prog_lines (prog : list ast) : list line := flat_map stmt_lines prog.
Definition print_stmt (a : ast) : list str := map l_body (stmt_lines a).
Definition print_program (prog : list ast) : str := prog_text (prog_lines prog).

(** the printable class and the condition on the lexicon *)
Definition printable (lx : lexicon) (prog : list ast) : bool := pstmts pth incd lx tEOF prog.
Definition lexicon_rt (lx : lexicon) : bool := mn_chars_ok lx && negb (mem_str k_else (lx_mnemonics lx)).

(* ------------------------------------------------------------------------------------------ *)
(** * Every word is a [wtk] *)

Definition wtok_ok (lx : lexicon) (t : tk) : Prop := wtk lx (fst t) (snd t) (tok_text t).

Lemma wline_ok lx l : mn_chars_ok lx = true -> l <> [] -> Forall (wtok_ok lx) l -> line_ok lx (wline l).
Proof.
  intros Hmn NE F. unfold line_ok, wline. cbn [l_body l_toks l_calls].
  pose proof (lscan_words lx (map (fun t => (t, tok_text t)) l) Hmn) as H.
  rewrite !map_map, map_length in H. cbn [fst snd] in H. rewrite map_id in H. apply H.
  - destruct l; [congruence|discriminate].
  - apply Forall_forall. intros w Hw. apply in_map_iff in Hw as (t & <- & Ht). unfold word_ok. cbn [fst snd].
    rewrite Forall_forall in F. apply F. exact Ht.
Qed.

Section Words.
  Variable lx : lexicon.
  Hypothesis Hrt : lexicon_rt lx = true.

  Lemma rt_mn : mn_chars_ok lx = true.
  Proof. unfold lexicon_rt in Hrt. apply andb_true_iff in Hrt as [H _]. exact H. Qed.

  Lemma wt_kw k : kw_in lx k = true -> wtok_ok lx (kwt k).
  Proof.
    unfold kw_in. intros H. apply andb_true_iff in H as [H1 H2]. apply w_i. apply i_kw; [|exact H1].
    apply Forall_forall. rewrite forallb_forall in H2. exact H2.
  Qed.
  Lemma wt_id n : pident_b lx n = true -> wtok_ok lx (idt n).
  Proof. intros H. destruct (pident_b_ok lx n H) as (A & B & _). apply w_ident; assumption. Qed.
  Lemma wt_label n : pident_b lx n = true -> wtok_ok lx (T_LABEL, n).
  Proof. intros H. destruct (pident_b_ok lx n H) as (A & B & _). apply w_label; assumption. Qed.
  Lemma wt_else : wtok_ok lx (idt k_else).
  Proof.
    apply w_ident.
    - exists 101, [108; 115; 101]. repeat split. repeat constructor.
    - unfold not_mnemonic. unfold lexicon_rt in Hrt. apply andb_true_iff in Hrt as [_ H].
      apply negb_true_iff in H. exact H.
  Qed.
  Lemma wt_q s : qstr_b s = true -> wtok_ok lx (qst s).
  Proof.
    intros H. apply w_quoted. apply Forall_forall. unfold qstr_b in H. rewrite forallb_forall in H.
    intros c Hc. apply qchar_b_ok. apply H. exact Hc.
  Qed.
  Lemma wt_LB : wtok_ok lx tLB. Proof. apply w_lbrace. Qed.
  Lemma wt_RB : wtok_ok lx tRB. Proof. apply w_rbrace. Qed.
  Lemma wt_LP : wtok_ok lx tLP. Proof. apply w_i. apply i_lp. Qed.
  Lemma wt_RP : wtok_ok lx tRP. Proof. apply w_i. apply i_rp. Qed.
  Lemma wt_COMMA : wtok_ok lx tCOMMA. Proof. apply w_i. apply i_comma. Qed.
  Lemma wt_EQ : wtok_ok lx tEQ. Proof. apply w_equal. Qed.
  Lemma wt_ASSIGN : wtok_ok lx tASSIGN. Proof. apply w_assign. Qed.
  Lemma wt_STAR : wtok_ok lx tSTAR. Proof. apply w_i. apply i_stareq. Qed.
  Lemma wt_AT : wtok_ok lx tAT. Proof. apply w_ateq. Qed.
  Lemma wt_DLB : wtok_ok lx tDLB. Proof. apply w_dlbrace. Qed.
  Lemma wt_DRB : wtok_ok lx tDRB. Proof. apply w_drbrace. Qed.

  Lemma wt_etok t : etok_b lx false t = true -> wtok_ok lx t.
  Proof.
    destruct t as [ty v]. unfold etok_b. cbn [fst snd]. destruct ty; try discriminate; intros H.
    - unfold eident_b in H. apply orb_true_iff in H as [H|H]; [apply wt_id; exact H|].
      destruct (dotted_b_ok lx v H) as (a & b & -> & A1 & A2 & A3). apply w_dotted; assumption.
    - apply mem_str_cases in H. unfold dops in H. cbn [In] in H.
      destruct H as [<-|[<-|[<-|[<-|[<-|[<-|[]]]]]]]; apply w_i;
        try (apply i_op1; reflexivity); [apply i_mul|apply i_shl|apply i_shr].
    - apply str_eqb_true'' in H. subst. apply wt_LP.
    - apply str_eqb_true'' in H. subst. apply wt_RP.
    - destruct (num_b_render v H) as (f & n & ->). apply w_i. apply i_num.
  Qed.

  Lemma wt_expr e : printable_expr lx false e = true -> Forall (wtok_ok lx) (map etv e).
  Proof.
    intros H. eapply Forall_impl; [|exact (printable_expr_toks _ _ _ H)]. intros t. apply wt_etok.
  Qed.

  Lemma wt_commas (ls : list (list tk)) : Forall (Forall (wtok_ok lx)) ls -> Forall (wtok_ok lx) (commas ls).
  Proof.
    destruct ls as [|x r]; [constructor|]. intros H. inversion H as [|? ? Hx Hr]; subst. cbn [commas].
    apply Forall_app. split; [exact Hx|]. clear H Hx. induction Hr as [|y r Hy _ IH]; cbn [flat_map]; [constructor|].
    constructor; [apply wt_COMMA|]. apply Forall_app. split; assumption.
  Qed.

  Lemma wt_num v : wtok_ok lx (num_tk v).
  Proof. unfold num_tk, dec_text. apply w_i. apply i_num. Qed.
  Lemma wt_map m :
    forallb (fun e : mentry => pident_b lx (snd (fst e)) && val_okb (snd e)) (map_attrs m) = true ->
    Forall (wtok_ok lx) (map_tks m).
  Proof.
    unfold map_tks. generalize (map_attrs m). intros L. induction L as [|[[mk key] [a ob]] L IH]; cbn [forallb flat_map]; intros H.
    - constructor.
    - apply andb_true_iff in H as [H1 H2]. apply andb_true_iff in H1 as [Hid _]. cbn [fst snd] in Hid.
      apply Forall_app. split; [|apply IH; exact H2]. unfold entry_tks. cbn [fst snd].
      constructor; [apply wt_id; exact Hid|]. constructor; [apply wt_EQ|].
      destruct ob as [b|]; cbn [val_tks]; repeat (constructor; try apply wt_num; try apply wt_COMMA).
  Qed.

  Lemma wt_params ps : forallb (pident_b lx) ps = true -> Forall (wtok_ok lx) (params_tks ps).
  Proof.
    intros H. unfold params_tks. apply wt_commas. apply Forall_forall. intros l Hl.
    apply in_map_iff in Hl as (p & <- & Hp). constructor; [|constructor]. apply wt_id.
    rewrite forallb_forall in H. apply H. exact Hp.
  Qed.
End Words.

(* ------------------------------------------------------------------------------------------ *)
(** * The lines of a printable statement scan, and carry its tokens *)

Lemma ctx_all_each {A} (f : tk -> A -> bool) first next (l : list A) :
  ctx_all f first next l = true -> Forall (fun x => exists nx, f nx x = true) l.
Proof.
  induction l as [|x r IH]; cbn [ctx_all]; intros H; constructor.
  - apply andb_true_iff in H as [H _]. eauto.
  - apply IH. apply andb_true_iff in H as [_ H]. exact H.
Qed.

Lemma prog_toks_app a b : prog_toks (a ++ b) = prog_toks a ++ prog_toks b.
Proof. unfold prog_toks. apply flat_map_app. Qed.
Lemma prog_toks_cons l r : prog_toks (l :: r) = l_toks l ++ prog_toks r.
Proof. reflexivity. Qed.
Lemma prog_toks_wline l : prog_toks [wline l] = l.
Proof. unfold prog_toks. cbn [flat_map wline l_toks]. apply app_nil_r. Qed.

Definition Ql (lx : lexicon) (a : ast) : Prop :=
  forall next, pstmt pth incd lx next a = true ->
    prog_toks (stmt_lines a) = stmt_tks pth a /\ Forall (line_ok lx) (stmt_lines a).

Lemma body_lines lx b : Forall (Ql lx) b -> forall next, ctx_all (pstmt pth incd lx) (first_tk pth) next b = true ->
  prog_toks (flat_map stmt_lines b) = prog_tks pth b /\ Forall (line_ok lx) (flat_map stmt_lines b).
Proof.
  intros HQ next HP. apply ctx_all_each in HP.
  induction HQ as [|x r Hx _ IH]; [split; [reflexivity|constructor]|].
  inversion HP as [|? ? (nx & Px) HPr]; subst. destruct (Hx nx Px) as [T1 L1]. destruct (IH HPr) as [T2 L2].
  cbn [flat_map]. unfold prog_tks. cbn [flat_map]. fold (prog_tks pth r). rewrite prog_toks_app, T1, T2.
  split; [reflexivity|apply Forall_app; split; assumption].
Qed.

Lemma mn3_b_ok lx op : mn3_b lx op = true -> mn3_ok lx op.
Proof.
  destruct op as [|c0 [|c1 [|c2 [|c3 r]]]]; try discriminate. cbn [mn3_b]. intros H.
  apply andb_true_iff in H as [H1 H2]. exists c0, c1, c2. auto.
Qed.

Lemma ix_char_facts i : ix_b i = true -> [ix_char i] = i /\ mem_z (ix_char i) index_chars = true.
Proof.
  unfold ix_b. intros H. apply orb_true_iff in H as [H|H]; [apply orb_true_iff in H as [H|H]|];
    apply str_eqb_true'' in H; subst i; split; reflexivity.
Qed.

Lemma sfx_sz sz : sfx_tok (sz_char sz) = sz_tks sz.
Proof. destruct sz as [[| |]|]; reflexivity. Qed.
Lemma sz_char_ok sz : match sz_char sz with Some c => mem_z c size_chars = true | None => True end.
Proof. destruct sz as [[| |]|]; cbn; auto. Qed.

Lemma head_not_lp_tk e : head_not_lp e = true -> head_not_lparen (map etv e).
Proof.
  destruct e as [|n e]; [discriminate|]. cbn [head_not_lp map]. unfold en_ty, etv, tv, head_not_lparen.
  destruct (t_type (en_tok n)); try (intros _; exact I). discriminate.
Qed.

Section Lines.
  Variable lx : lexicon.
  Hypothesis Hrt : lexicon_rt lx = true.
  Let Hmn := rt_mn lx Hrt.

  Ltac wl := apply (wline_ok lx _ Hmn); [discriminate|].
  Ltac tkeq := rewrite ?app_nil_r; rewrite <- ?app_assoc; cbn [app]; rewrite ?app_nil_r; reflexivity.
  Ltac tks := unfold insn_tks; rewrite sfx_sz; cbn [gen_toks open_tok close_tok ixtok ix0 app].

  Lemma seq_ok_rp e : printable_expr lx true e = true -> seq_ok false (map etv e ++ [tRP]).
  Proof.
    intros H. apply (PE_seq_ok e (printable_expr_PE _ _ _ H)).
    - eapply Forall_impl; [|exact (printable_expr_toks _ _ _ H)]. intros t. apply etok_tk_ok.
    - cbn [seq_ok]. split; [apply ok_rp|]. split; [reflexivity|exact I].
  Qed.

  Lemma insn_line_ok m op sz e idx : mn3_b lx op = true -> printable_expr lx true e = true ->
    opnd_b m e idx = true ->
    l_toks (insn_line m op sz e idx) = stmt_tks pth (AOpcode m op sz (Some e) idx eof_token) /\
    line_ok lx (insn_line m op sz e idx).
  Proof.
    intros Hop He Hb. pose proof (mn3_b_ok _ _ Hop) as M3. pose proof (sz_char_ok sz) as Sz.
    pose proof (printable_seq_ok _ _ _ He) as SL. pose proof (seq_ok_rp e He) as SLr.
    assert (NE : map etv e <> []) by (pose proof (printable_len _ _ _ He); destruct e; [congruence|discriminate]).
    assert (NEr : map etv e ++ [tRP] <> []) by (destruct (map etv e); discriminate).
    cbn [stmt_tks]. unfold insn_line, line_ok.
    destruct m; destruct idx as [i|]; try discriminate Hb; cbn [opnd_b] in Hb;
      unfold iline; cbn [l_toks l_body l_calls opnd_tks].
    - split; [tks; tkeq|]. apply lscan_insn_tk; auto; try exact I; try discriminate.
    - split; [tks; tkeq|].
      apply lscan_insn_tk; auto; try exact I; try discriminate. intros _. apply head_not_lp_tk. exact Hb.
    - apply andb_true_iff in Hb as [Hh Hi]. destruct (ix_char_facts i Hi) as [E1 E2].
      split; [tks; rewrite E1; unfold ixt; tkeq|].
      apply lscan_insn_tk; auto; try exact I; try discriminate. intros _. apply head_not_lp_tk. exact Hh.
    - split; [tks; tkeq|].
      apply lscan_insn_tk; auto; try exact I; try discriminate.
    - destruct (ix_char_facts i Hb) as [E1 E2].
      split; [tks; rewrite E1; unfold ixt; tkeq|].
      apply lscan_insn_tk; auto; try exact I; try discriminate.
    - split; [tks; tkeq|]. apply lscan_insn_tk; auto; try exact I; try discriminate.
    - destruct (ix_char_facts i Hb) as [E1 E2].
      split; [tks; rewrite E1; unfold ixt; tkeq|]. apply lscan_insn_tk; auto; try exact I; try discriminate.
    - destruct (ix_char_facts i Hb) as [E1 E2].
      split; [tks; rewrite E1; unfold ixt; tkeq|]. apply lscan_insn_tk; auto; try exact I; try discriminate.
    - apply str_eqb_true'' in Hb. subst i.
      split; [tks; tkeq|]. apply lscan_insn_tk; auto; try exact I; try discriminate; reflexivity.
  Qed.

  Lemma apply_lines_ok : forall l cur, cur <> [] -> Forall (wtok_ok lx) cur -> Forall (Pm (Ql lx)) l ->
    Forall (fun x => match x with
                     | inl e => printable_expr lx false e = true
                     | inr (b, _) => ctx_all (pstmt pth incd lx) (first_tk pth) tRB b = true
                     end) l ->
    prog_toks (apply_lines stmt_lines cur l) = cur ++ commas (map (arg_tks pth) l) ++ [tRP] /\
    Forall (line_ok lx) (apply_lines stmt_lines cur l).
  Proof.
    induction l as [|x r IH]; intros cur NE Hc HQ HA.
    - cbn [apply_lines map commas app]. split; [apply prog_toks_wline|]. constructor; [|constructor].
      apply (wline_ok lx _ Hmn); [destruct cur; [congruence|discriminate]|].
      apply Forall_app. split; [exact Hc|]. constructor; [apply wt_RP|constructor].
    - inversion HQ as [|? ? Qx HQ']; subst. inversion HA as [|? ? Ax HA']; subst.
      assert (Hsep : Forall (wtok_ok lx) (match r with [] => [] | _ => [tCOMMA] end))
        by (destruct r; [constructor|constructor; [apply wt_COMMA|constructor]]).
      assert (Ecom : forall xs : list tk,
                 xs ++ match r with [] => [] | _ => [tCOMMA] end ++ commas (map (arg_tks pth) r)
                 = commas (xs :: map (arg_tks pth) r)).
      { intros xs. destruct r as [|y r']; [cbn; rewrite !app_nil_r; reflexivity|]. cbn [map]. rewrite commas_cons2.
        cbn [app]. reflexivity. }
      destruct x as [e|[b bfi]]; cbn [apply_lines].
      + destruct (IH (cur ++ map etv e ++ match r with [] => [] | _ => [tCOMMA] end)) as [T L]; try assumption.
        { destruct cur; [congruence|discriminate]. }
        { apply Forall_app. split; [exact Hc|]. apply Forall_app. split; [apply (wt_expr lx); exact Ax|exact Hsep]. }
        split; [|exact L]. rewrite T. cbn [map arg_tks]. rewrite <- (Ecom (map etv e)). rewrite <- !app_assoc. reflexivity.
      + cbn [Pm] in Qx. destruct (body_lines lx b Qx _ Ax) as [Tb Lb].
        destruct (IH (tRB :: match r with [] => [] | _ => [tCOMMA] end)) as [T L]; try assumption.
        { discriminate. }
        { constructor; [apply wt_RB|exact Hsep]. }
        split.
        * rewrite prog_toks_cons, prog_toks_app, Tb, T. cbn [wline l_toks map arg_tks].
          rewrite <- (Ecom (tLB :: prog_tks pth b ++ [tRB])). cbn [app]. rewrite <- !app_assoc. cbn [app]. reflexivity.
        * constructor.
          -- apply (wline_ok lx _ Hmn); [destruct cur; discriminate|]. apply Forall_app. split; [exact Hc|].
             constructor; [apply wt_LB|constructor].
          -- apply Forall_app. split; assumption.
  Qed.

  Theorem stmt_lines_ok : forall a, Ql lx a.
  Proof.
    apply ast_ind'; intros; intros next HP; cbn [pstmt] in HP; try discriminate HP; cbn [stmt_lines stmt_tks].
    - (* ABlock *)
      apply and4 in HP as (Hk & _ & Hq & _). split; [apply prog_toks_wline|]. constructor; [|constructor]. wl.
      constructor; [apply (wt_kw lx); exact Hk|]. constructor; [apply (wt_q lx); exact Hq|constructor].
    - (* ACompound *)
      apply and2 in HP as (_ & Hb). destruct (body_lines lx b H _ Hb) as [T L].
      split.
      + rewrite prog_toks_cons, prog_toks_app, T, prog_toks_wline. reflexivity.
      + constructor; [wl; constructor; [apply wt_LB|constructor]|]. apply Forall_app. split; [exact L|].
        constructor; [|constructor]. wl. constructor; [apply wt_RB|constructor].
    - (* ALabel *)
      apply and2 in HP as (Hid & _). split; [apply prog_toks_wline|]. constructor; [|constructor]. wl.
      constructor; [apply (wt_label lx); exact Hid|constructor].
    - (* AText *)
      apply and3 in HP as (Hk & _ & Hq). split; [apply prog_toks_wline|]. constructor; [|constructor]. wl.
      constructor; [apply (wt_kw lx); exact Hk|]. constructor; [apply (wt_q lx); exact Hq|constructor].
    - (* AAscii *)
      apply and3 in HP as (Hk & _ & Hq). split; [apply prog_toks_wline|]. constructor; [|constructor]. wl.
      constructor; [apply (wt_kw lx); exact Hk|]. constructor; [apply (wt_q lx); exact Hq|constructor].
    - (* AScope *)
      apply and5 in HP as (Hk & Hid & _ & _ & Hb). destruct (body_lines lx b H _ Hb) as [T L].
      split.
      + rewrite prog_toks_cons, prog_toks_app, T, prog_toks_wline. reflexivity.
      + constructor.
        * wl. constructor; [apply (wt_kw lx); exact Hk|]. constructor; [apply (wt_id lx); exact Hid|].
          constructor; [apply wt_LB|constructor].
        * apply Forall_app. split; [exact L|]. constructor; [|constructor]. wl. constructor; [apply wt_RB|constructor].
    - (* AStarEq *)
      apply and2 in HP as (He & _). split; [apply prog_toks_wline|]. constructor; [|constructor]. wl.
      constructor; [apply wt_STAR|apply (wt_expr lx); exact He].
    - (* AAtEq *)
      apply and2 in HP as (He & _). split; [apply prog_toks_wline|]. constructor; [|constructor]. wl.
      constructor; [apply wt_AT|apply (wt_expr lx); exact He].
    - (* AMap *)
      apply and5 in HP as (Hk & _ & _ & Hall & _). split; [apply prog_toks_wline|]. constructor; [|constructor]. wl.
      constructor; [apply (wt_kw lx); exact Hk|apply (wt_map lx); exact Hall].
    - (* AIf *)
      apply and5 in HP as (Hk & Hc & _ & Hth & Hel). destruct (body_lines lx th H _ Hth) as [T L].
      assert (Hhead : line_ok lx (wline (kwt k_if :: map etv c ++ [tLB]))).
      { wl. constructor; [apply (wt_kw lx); exact Hk|]. apply Forall_app. split; [apply (wt_expr lx); exact Hc|].
        constructor; [apply wt_LB|constructor]. }
      destruct el as [[eb efi]|].
      + apply and3 in Hel as (_ & _ & Heb). cbn [Pel] in H0. destruct (body_lines lx eb H0 _ Heb) as [T2 L2].
        split.
        * rewrite prog_toks_cons, prog_toks_app, T, prog_toks_cons, prog_toks_app, T2, prog_toks_wline.
          cbn [wline l_toks app]. rewrite <- !app_assoc. reflexivity.
        * constructor; [exact Hhead|]. apply Forall_app. split; [exact L|]. constructor.
          -- wl. constructor; [apply wt_RB|]. constructor; [apply (wt_else lx Hrt)|]. constructor; [apply wt_LB|constructor].
          -- apply Forall_app. split; [exact L2|]. constructor; [|constructor]. wl. constructor; [apply wt_RB|constructor].
      + split.
        * rewrite prog_toks_cons, prog_toks_app, T, prog_toks_wline. cbn [wline l_toks app].
          rewrite <- !app_assoc. reflexivity.
        * constructor; [exact Hhead|]. apply Forall_app. split; [exact L|]. constructor; [|constructor].
          wl. constructor; [apply wt_RB|constructor].
    - (* AMacro *)
      apply and6 in HP as (Hk & Hid & Hps & _ & _ & Hb). destruct (body_lines lx b H _ Hb) as [T L].
      split.
      + rewrite prog_toks_cons, prog_toks_app, T, prog_toks_wline. cbn [wline l_toks app].
        rewrite <- !app_assoc. reflexivity.
      + constructor.
        * wl. constructor; [apply (wt_kw lx); exact Hk|]. constructor; [apply (wt_id lx); exact Hid|].
          constructor; [apply wt_LP|]. apply Forall_app. split; [apply (wt_params lx); exact Hps|].
          constructor; [apply wt_RP|]. constructor; [apply wt_LB|constructor].
        * apply Forall_app. split; [exact L|]. constructor; [|constructor]. wl. constructor; [apply wt_RB|constructor].
    - (* AMacroApply *)
      apply and3 in HP as (Hid & _ & Hargs).
      destruct (apply_lines_ok args [idt n; tLP]) as [T L]; [discriminate| |exact H| |].
      { constructor; [apply (wt_id lx); exact Hid|]. constructor; [apply wt_LP|constructor]. }
      { apply Forall_forall. intros x Hx. rewrite forallb_forall in Hargs. specialize (Hargs x Hx).
        destruct x as [e|[bb bf]]; [exact Hargs|]. apply and2 in Hargs as [_ Hb]. exact Hb. }
      split; [rewrite T; reflexivity|exact L].
    - (* AData *)
      apply and3 in HP as (Hk & _ & Hes). destruct es as [|x es]; [discriminate|]. apply forallb_Forall in Hes.
      split; [apply prog_toks_wline|]. constructor; [|constructor]. wl.
      constructor; [apply (wt_kw lx); exact Hk|]. apply wt_commas. apply Forall_forall. intros l Hl.
      apply in_map_iff in Hl as (e & <- & He). apply (wt_expr lx). rewrite Forall_forall in Hes. apply Hes. exact He.
    - (* ATable *)
      apply and3 in HP as (Hk & _ & Hq). split; [apply prog_toks_wline|]. constructor; [|constructor]. wl.
      constructor; [apply (wt_kw lx); exact Hk|]. constructor; [apply (wt_q lx); exact Hq|constructor].
    - (* AIncludeIps *)
      apply and4 in HP as (Hk & _ & Hq & He). split; [apply prog_toks_wline|]. constructor; [|constructor]. wl.
      constructor; [apply (wt_kw lx); exact Hk|]. constructor; [apply (wt_q lx); exact Hq|].
      constructor; [apply wt_COMMA|apply (wt_expr lx); exact He].
    - (* AIncbin *)
      apply and3 in HP as (Hk & _ & Hq). split; [apply prog_toks_wline|]. constructor; [|constructor]. wl.
      constructor; [apply (wt_kw lx); exact Hk|]. constructor; [apply (wt_q lx); exact Hq|constructor].
    - (* ASymbol *)
      apply and3 in HP as (Hid & _ & He). split; [apply prog_toks_wline|]. constructor; [|constructor]. wl.
      constructor; [apply (wt_id lx); exact Hid|]. constructor; [apply wt_EQ|apply (wt_expr lx); exact He].
    - (* AAssign *)
      apply and3 in HP as (Hid & _ & He). split; [apply prog_toks_wline|]. constructor; [|constructor]. wl.
      constructor; [apply (wt_id lx); exact Hid|]. constructor; [apply wt_ASSIGN|apply (wt_expr lx); exact He].
    - (* ACodeLookup *)
      apply and2 in HP as (Hid & _). split; [apply prog_toks_wline|]. constructor; [|constructor]. wl.
      constructor; [apply wt_DLB|]. constructor; [apply (wt_id lx); exact Hid|]. constructor; [apply wt_DRB|constructor].
    - (* AFor *)
      apply and7 in HP as (Hk & Hid & Hlo & Hhi & _ & _ & Hb). destruct (body_lines lx b H _ Hb) as [T L].
      split.
      + rewrite prog_toks_cons, prog_toks_app, T, prog_toks_wline. cbn [wline l_toks app].
        rewrite <- !app_assoc. cbn [app]. rewrite <- !app_assoc. reflexivity.
      + constructor.
        * wl. constructor; [apply (wt_kw lx); exact Hk|]. constructor; [apply (wt_id lx); exact Hid|].
          constructor; [apply wt_ASSIGN|]. apply Forall_app. split; [apply (wt_expr lx); exact Hlo|].
          constructor; [apply wt_COMMA|]. apply Forall_app. split; [apply (wt_expr lx); exact Hhi|].
          constructor; [apply wt_LB|constructor].
        * apply Forall_app. split; [exact L|]. constructor; [|constructor]. wl. constructor; [apply wt_RB|constructor].
    - (* AOpcode *)
      apply and2 in HP as (Hop & HP). destruct o as [e|].
      + apply and3 in HP as (He & Hb & _). destruct (insn_line_ok m op sz e idx Hop He Hb) as [T L].
        split; [|constructor; [exact L|constructor]].
        unfold prog_toks. cbn [flat_map]. rewrite app_nil_r. exact T.
      + apply and3 in HP as (Hnk & _ & _). split; [reflexivity|]. constructor; [|constructor].
        unfold line_ok. cbn [l_body l_toks l_calls].
        pose proof (lscan_naked lx op 0 (mn3_b_ok _ _ Hop) Hnk) as X. cbn [spaces repeat_z] in X.
        rewrite app_nil_r in X. exact X.
  Qed.
End Lines.

(* ------------------------------------------------------------------------------------------ *)
(** * The round trip *)

(** the scanner reads the printed text back as the tokens of the program *)
Theorem print_scan lx file prog : lexicon_rt lx = true -> printable lx prog = true ->
  exists toks lines, scan lx file (print_program prog) = ScanOk toks lines /\
                     map tv toks = prog_tks pth prog ++ [tEOF].
Proof.
  intros Hrt HP. unfold printable, pstmts in HP.
  destruct (body_lines lx prog ltac:(apply Forall_forall; intros a _; apply (stmt_lines_ok lx Hrt)) tEOF HP) as [T L].
  destruct (scan_prog lx file (prog_lines prog) L) as (toks & eof & lines & E & Tt & Eo).
  exists (toks ++ [eof]), lines. split; [exact E|]. rewrite map_app. cbn [map]. rewrite Tt, Eo.
  unfold prog_lines. rewrite T. reflexivity.
Qed.

(** scan, then parse: the program, up to the positions of its tokens.  [.include]: every included body
    ([incd b = true]) is, up to positions, what the nested parse of the file [pth b] returns. *)
Theorem roundtrip_ext lx file inc incfuel prog :
  lexicon_rt lx = true -> (forall name, inc name <> OutOfFuel) ->
  (forall b, incd b = true -> exists b', inc_sub incfuel inc (pth b) = POk b' /\ asrel sameTV b b') ->
  printable lx prog = true ->
  exists toks lines prog',
    scan lx file (print_program prog) = ScanOk toks lines /\
    parse_program (parse_fuel (length toks)) incfuel inc toks = POk prog' /\
    asrel sameTV prog prog'.
Proof.
  intros Hrt Hinc Hsub HP. destruct (print_scan lx file prog Hrt HP) as (toks & lines & E & T).
  destruct (parse_printable pth incd lx inc incfuel prog toks Hinc Hsub HP T) as (prog' & P & R).
  exists toks, lines, prog'. auto.
Qed.

End ExtP.

Print Assumptions print_scan.
Print Assumptions roundtrip_ext.
