(** Round trip, EXTENDED class, scanner side.  A copy of Proofs/RoundTripScan.v with three more words:
    a dotted identifier  first.second , "{{" and "}}". *)
From Coq Require Import ZArith NArith List Bool Lia Arith.
From A816 Require Import Spec.ExprSem Model.Scanner Proofs.ScannerFuel Proofs.ScannerMono
  Proofs.ExprProofs Proofs.ExprLex Proofs.DataTextScan Proofs.ParserShapeTokens Proofs.InsnTextParse
  Proofs.InsnTextScan Proofs.LabelTextScan Proofs.RoundTripExtExpr.
Import ListNotations.
Open Scope Z_scope.

Ltac lens2 := repeat progress (rewrite ?app_length, ?spaces_length, ?map_length in *; cbn [length] in *).
Ltac ll := lens2; unfold tk, str in *; lia.

(* ------------------------------------------------------------------------------------------ *)
(** * Quoted strings *)

Definition qchar_ok (c : Z) : Prop := c <> 39 /\ c <> 10 /\ c <> 92.
Definition qchar_b (c : Z) : bool := negb (c =? 39) && negb (c =? 10) && negb (c =? 92).
Lemma qchar_b_ok c : qchar_b c = true -> qchar_ok c.
Proof.
  unfold qchar_b, qchar_ok. intros H. apply andb_true_iff in H as [H H3]. apply andb_true_iff in H as [H1 H2].
  apply negb_true_iff in H1, H2, H3. apply Z.eqb_neq in H1, H2, H3. auto.
Qed.

Lemma quoted_rest p : forall q f s a v r out,
  Zv s a v (q ++ 39 :: r) out -> Forall qchar_ok q -> (length q < f)%nat ->
  exists s', (let '(c, s1) := next s in quoted_loop f p c s1) = LOk s' /\
             Zv s' (a ++ v ++ q ++ [39]) [] r ((T_QUOTED_STRING, v ++ q ++ [39]) :: out).
Proof.
  induction q as [|d q IH]; intros f s a v r out H Q HF; (destruct f as [|f]; [cbn [length] in HF; lia|]);
    cbn [app] in H.
  - destruct (next_Zv _ _ _ _ _ _ H) as (s1 & N & H1). rewrite N. cbn [quoted_loop oz_is].
    change (39 =? 39) with true. cbv beta iota. eexists. split; [reflexivity|].
    apply (emit_Zv _ _ _ _ _ T_QUOTED_STRING H1).
  - inversion Q as [|? ? (D1 & D2 & D3) Q']; subst.
    destruct (next_Zv _ _ _ _ _ _ H) as (s1 & N & H1). rewrite N. cbn [quoted_loop oz_is].
    replace (d =? 39) with false by (symmetry; apply Z.eqb_neq; exact D1).
    replace (d =? 10) with false by (symmetry; apply Z.eqb_neq; exact D2).
    replace (d =? 92) with false by (symmetry; apply Z.eqb_neq; exact D3).
    cbn [orb andb]. cbv beta iota.
    destruct (IH f s1 a (v ++ [d]) r out H1 Q' ltac:(cbn [length] in HF; lia)) as (s' & E & H').
    exists s'. split; [exact E|]. rewrite <- !app_assoc in H'. cbn [app] in H'. exact H'.
Qed.

(* ------------------------------------------------------------------------------------------ *)
(** * Words *)

(** the opcode test on a name followed by a character that is no identifier character *)
Lemma opcode_test_name_gen lx name c r :
  mn_chars_ok lx = true -> not_mnemonic lx name -> name_ok name ->
  Scanner.lower c = c -> mem_z c ident_chars = false ->
  opcode_test lx (name ++ c :: r) = false.
Proof.
  intros Hok Hnm Hn Lc Nc. pose proof (name_ok_all name Hn) as A. unfold opcode_test.
  destruct name as [|x0 [|x1 [|x2 [|x3 rest]]]].
  - destruct Hn as (? & ? & E & _). discriminate E.
  - destruct (mem_str (map lower (firstn 3 ([x0] ++ c :: r))) (lx_mnemonics lx)) eqn:E; [|reflexivity].
    exfalso. assert (X : mem_z c ident_chars = true).
    { eapply (mnemonic_chars lx _ c Hok E). cbn [app firstn map]. rewrite Lc. right; left; reflexivity. }
    congruence.
  - destruct (mem_str (map lower (firstn 3 ([x0; x1] ++ c :: r))) (lx_mnemonics lx)) eqn:E; [|reflexivity].
    exfalso. assert (X : mem_z c ident_chars = true).
    { eapply (mnemonic_chars lx _ c Hok E). cbn [app firstn map]. rewrite Lc. right; right; left; reflexivity. }
    congruence.
  - cbn [app firstn]. unfold not_mnemonic in Hnm. rewrite Hnm. reflexivity.
  - cbn [app nth]. inversion A as [|? ? _ A1]; subst. inversion A1 as [|? ? _ A2]; subst.
    inversion A2 as [|? ? _ A3]; subst. inversion A3 as [|? ? M3 _]; subst.
    rewrite (mem_z_disj ident_chars [32; 10; 9; 46; 0] eq_refl _ M3). apply andb_false_r.
Qed.

(** first.second *)
Lemma lex_identifier_dotted F s a n1 n2 r out :
  Zv s a [] (n1 ++ 46 :: n2 ++ r) out -> all_in ident_chars n1 -> all_in ident_chars n2 ->
  delim (hd 0 r) = true -> (length (inp s) + 1 < F)%nat ->
  exists s', lex_identifier F s = LOk s' /\
             Zv s' (a ++ n1 ++ 46 :: n2) [] r ((T_IDENTIFIER, n1 ++ 46 :: n2) :: out).
Proof.
  intros H A1 A2 D HF. pose proof (Zv_len _ _ _ _ _ H) as L. unfold lex_identifier.
  destruct (accept_run_Zv ident_chars n1 F s a [] (46 :: n2 ++ r) out H A1 eq_refl ltac:(lens2; unfold tk, str in *; lia))
    as (s1 & R & H1).
  rewrite R. cbn [lbind app] in *. rewrite (Zv_peek _ _ _ _ _ H1). cbn [hd].
  change (46 =? 58) with false. change (46 =? 46) with true. cbn [andb].
  destruct (next_Zv _ _ _ _ _ _ H1) as (s2 & N & H2). rewrite N. cbn [snd].
  destruct (accept_run_Zv ident_chars n2 F s2 a _ r out H2 A2 (delim_ident _ D) ltac:(lens2; unfold tk, str in *; lia))
    as (s3 & R3 & H3).
  rewrite R3. cbn [lbind]. eexists. split; [reflexivity|].
  pose proof (emit_Zv _ _ _ _ _ T_IDENTIFIER H3) as H4. rewrite <- !app_assoc in H4. cbn [app] in H4. exact H4.
Qed.

Inductive wtk (lx : lexicon) : ttype -> str -> str -> Prop :=
| w_i ty v text : itk lx ty v text -> wtk lx ty v text
| w_ident name : name_ok name -> not_mnemonic lx name -> wtk lx T_IDENTIFIER name name
| w_label name : name_ok name -> not_mnemonic lx name -> wtk lx T_LABEL name (name ++ [58])
| w_lbrace : wtk lx T_LBRACE [123] [123]
| w_rbrace : wtk lx T_RBRACE [125] [125]
| w_equal : wtk lx T_EQUAL [61] [61]
| w_assign : wtk lx T_ASSIGN [58; 61] [58; 61]
| w_ateq : wtk lx T_AT_EQ [64; 61] [64; 61]
| w_quoted q : Forall qchar_ok q -> wtk lx T_QUOTED_STRING (39 :: q ++ [39]) (39 :: q ++ [39])
| w_dotted n1 n2 : name_ok n1 -> not_mnemonic lx n1 -> all_in ident_chars n2 ->
                   wtk lx T_IDENTIFIER (n1 ++ 46 :: n2) (n1 ++ 46 :: n2)
| w_dlbrace : wtk lx T_DOUBLE_LBRACE [123; 123] [123; 123]
| w_drbrace : wtk lx T_DOUBLE_RBRACE [125; 125] [125; 125].

Lemma wtk_first lx ty v text : wtk lx ty v text -> exists c t', text = c :: t'.
Proof.
  destruct 1 as [ty v text K|name (c0 & t & -> & _) _|name (c0 & t & -> & _) _| | | | | |q _|n1 n2 (c0 & t & -> & _) _ _| | ];
    try (eexists _, _; reflexivity).
  destruct (itk_first _ _ _ _ K) as (c & t' & -> & _). eauto.
Qed.

Definition sep (c : Z) : Prop := c = 32 \/ c = 10.

Lemma init_word lx F s a ws ty v text c r out :
  mn_chars_ok lx = true ->
  Zv s a [] (ws ++ text ++ c :: r) out -> all_in blanks ws -> wtk lx ty v text -> sep c ->
  (length (inp s) + 1 < F)%nat ->
  exists s', lex_initial lx F s = LOk s' /\ Zv s' (a ++ ws ++ text) [] (c :: r) ((ty, v) :: out).
Proof.
  intros Hmn H B K Hc HF. pose proof (Zv_len _ _ _ _ _ H) as L.
  destruct K as [ty v text K|name Hn Hnm|name Hn Hnm| | | | | |q Q|n1 n2 Hn Hnm A2| | ].
  - (* the tokens of DataTextScan *)
    apply (init_step lx F s a ws ty v text (c :: r) out H B K); [|exact HF].
    destruct ty; cbn [follow_ok hd]; try exact I; destruct Hc as [-> | ->]; try reflexivity; intros _; discriminate.
  - (* identifier *)
    destruct (init_ident lx F s a ws name (c :: r) out H B Hn) as (s3 & E3 & H3).
    { apply opcode_test_name; try assumption. destruct Hc as [-> | ->]; [right; left|right; right]; reflexivity. }
    { exact HF. }
    rewrite E3. pose proof (Zv_len _ _ _ _ _ H3) as L3.
    destruct (lex_identifier_plain F s3 _ name (c :: r) out H3 (name_ok_all _ Hn)) as (s4 & E4 & H4).
    { destruct Hc as [-> | ->]; reflexivity. }
    { ll. }
    exists s4. split; [exact E4|]. rewrite <- app_assoc in H4. exact H4.
  - (* label *)
    rewrite <- app_assoc in H. cbn [app] in H.
    destruct (init_ident lx F s a ws name (58 :: c :: r) out H B Hn) as (s3 & E3 & H3).
    { apply opcode_test_name; try assumption. left; reflexivity. }
    { exact HF. }
    rewrite E3. pose proof (Zv_len _ _ _ _ _ H3) as L3.
    destruct (lex_identifier_label F s3 _ name (c :: r) out H3 (name_ok_all _ Hn)) as (s4 & E4 & H4).
    { destruct Hc as [-> | ->]; discriminate. }
    { ll. }
    exists s4. split; [exact E4|]. rewrite <- !app_assoc in H4. exact H4.
  - (* { *)
    unfold lex_initial, ignore_run.
    destruct (accept_run_Zv blanks ws F s a [] _ out H B eq_refl ltac:(ll)) as (s1 & R & H1).
    rewrite R. cbn [lbind]. apply ignore_Zv in H1. cbn [app] in H1.
    set (s0 := ignore s1) in *. clearbody s0. clear R s1.
    nop H1 [59]. nop H1 digits. nop H1 [43; 45; 38].
    nopr H1 [61; 61]. nopr H1 [33; 61]. nopr H1 [62; 62]. nopr H1 [60; 60].
    nopr H1 [62]. nopr H1 [60]. nopr H1 [62; 61]. nopr H1 [60; 61].
    nop H1 ident_start. nop H1 [46]. nop H1 [44]. nopr H1 [58; 61]. nopr H1 [64; 61].
    nop H1 [42]. nop H1 [39]. nop H1 [40]. nop H1 [41]. nop H1 [91]. nop H1 [93].
    destruct (accept_Zv_true _ _ _ _ _ _ [123] H1 eq_refl) as (s2 & A2 & H2). rewrite A2. cbv beta iota.
    assert (M : mem_z (hd 0 (c :: r)) [123] = false) by (destruct Hc as [-> | ->]; reflexivity).
    rewrite (accept_Zv_false _ _ _ _ _ [123] H2 M). cbv beta iota.
    eexists. split; [reflexivity|]. pose proof (emit_Zv _ _ _ _ _ T_LBRACE H2) as H3.
    cbn [app] in H3. rewrite <- app_assoc in H3. exact H3.
  - (* } *)
    unfold lex_initial, ignore_run.
    destruct (accept_run_Zv blanks ws F s a [] _ out H B eq_refl ltac:(ll)) as (s1 & R & H1).
    rewrite R. cbn [lbind]. apply ignore_Zv in H1. cbn [app] in H1.
    set (s0 := ignore s1) in *. clearbody s0. clear R s1.
    nop H1 [59]. nop H1 digits. nop H1 [43; 45; 38].
    nopr H1 [61; 61]. nopr H1 [33; 61]. nopr H1 [62; 62]. nopr H1 [60; 60].
    nopr H1 [62]. nopr H1 [60]. nopr H1 [62; 61]. nopr H1 [60; 61].
    nop H1 ident_start. nop H1 [46]. nop H1 [44]. nopr H1 [58; 61]. nopr H1 [64; 61].
    nop H1 [42]. nop H1 [39]. nop H1 [40]. nop H1 [41]. nop H1 [91]. nop H1 [93]. nop H1 [123].
    destruct (accept_Zv_true _ _ _ _ _ _ [125] H1 eq_refl) as (s2 & A2 & H2). rewrite A2. cbv beta iota.
    assert (M : mem_z (hd 0 (c :: r)) [125] = false) by (destruct Hc as [-> | ->]; reflexivity).
    rewrite (accept_Zv_false _ _ _ _ _ [125] H2 M). cbv beta iota.
    eexists. split; [reflexivity|]. pose proof (emit_Zv _ _ _ _ _ T_RBRACE H2) as H3.
    cbn [app] in H3. rewrite <- app_assoc in H3. exact H3.
  - (* = *)
    unfold lex_initial, ignore_run.
    destruct (accept_run_Zv blanks ws F s a [] _ out H B eq_refl ltac:(ll)) as (s1 & R & H1).
    rewrite R. cbn [lbind]. apply ignore_Zv in H1. cbn [app] in H1.
    set (s0 := ignore s1) in *. clearbody s0. clear R s1.
    assert (P61 : str_eqb (firstn (length [61; 61]) (61 :: c :: r)) [61; 61] = false)
      by (destruct Hc as [-> | ->]; reflexivity).
    nop H1 [59]. nop H1 digits. nop H1 [43; 45; 38].
    rewrite (accept_prefix_Zv_false _ _ _ _ _ [61; 61] H1 P61). cbn [accept_or fst snd]. cbv beta iota.
    nopr H1 [33; 61]. nopr H1 [62; 62]. nopr H1 [60; 60].
    nopr H1 [62]. nopr H1 [60]. nopr H1 [62; 61]. nopr H1 [60; 61].
    nop H1 ident_start. nop H1 [46]. nop H1 [44]. nopr H1 [58; 61]. nopr H1 [64; 61].
    nop H1 [42]. nop H1 [39]. nop H1 [40]. nop H1 [41]. nop H1 [91]. nop H1 [93]. nop H1 [123]. nop H1 [125].
    destruct (accept_Zv_true _ _ _ _ _ _ [61] H1 eq_refl) as (s2 & A2 & H2). rewrite A2. cbv beta iota.
    eexists. split; [reflexivity|]. pose proof (emit_Zv _ _ _ _ _ T_EQUAL H2) as H3.
    cbn [app] in H3. rewrite <- app_assoc in H3. exact H3.
  - (* := *)
    unfold lex_initial, ignore_run.
    destruct (accept_run_Zv blanks ws F s a [] _ out H B eq_refl ltac:(ll)) as (s1 & R & H1).
    rewrite R. cbn [lbind]. apply ignore_Zv in H1. cbn [app] in H1.
    set (s0 := ignore s1) in *. clearbody s0. clear R s1.
    nop H1 [59]. nop H1 digits. nop H1 [43; 45; 38].
    nopr H1 [61; 61]. nopr H1 [33; 61]. nopr H1 [62; 62]. nopr H1 [60; 60].
    nopr H1 [62]. nopr H1 [60]. nopr H1 [62; 61]. nopr H1 [60; 61].
    nop H1 ident_start. nop H1 [46]. nop H1 [44].
    change (58 :: 61 :: c :: r) with ([58; 61] ++ c :: r) in H1.
    destruct (accept_prefix_Zv_true _ _ _ _ _ _ H1) as (s2 & A2 & H2). rewrite A2. cbv beta iota.
    eexists. split; [reflexivity|]. pose proof (emit_Zv _ _ _ _ _ T_ASSIGN H2) as H3.
    cbn [app] in H3. rewrite <- app_assoc in H3. exact H3.
  - (* @= *)
    unfold lex_initial, ignore_run.
    destruct (accept_run_Zv blanks ws F s a [] _ out H B eq_refl ltac:(ll)) as (s1 & R & H1).
    rewrite R. cbn [lbind]. apply ignore_Zv in H1. cbn [app] in H1.
    set (s0 := ignore s1) in *. clearbody s0. clear R s1.
    nop H1 [59]. nop H1 digits. nop H1 [43; 45; 38].
    nopr H1 [61; 61]. nopr H1 [33; 61]. nopr H1 [62; 62]. nopr H1 [60; 60].
    nopr H1 [62]. nopr H1 [60]. nopr H1 [62; 61]. nopr H1 [60; 61].
    nop H1 ident_start. nop H1 [46]. nop H1 [44]. nopr H1 [58; 61].
    change (64 :: 61 :: c :: r) with ([64; 61] ++ c :: r) in H1.
    destruct (accept_prefix_Zv_true _ _ _ _ _ _ H1) as (s2 & A2 & H2). rewrite A2. cbv beta iota.
    eexists. split; [reflexivity|]. pose proof (emit_Zv _ _ _ _ _ T_AT_EQ H2) as H3.
    cbn [app] in H3. rewrite <- app_assoc in H3. exact H3.
  - (* quoted string *)
    unfold lex_initial, ignore_run.
    destruct (accept_run_Zv blanks ws F s a [] _ out H B eq_refl ltac:(ll)) as (s1 & R & H1).
    rewrite R. cbn [lbind]. apply ignore_Zv in H1. cbn [app] in H1.
    set (s0 := ignore s1) in *. clearbody s0. clear R s1.
    nop H1 [59]. nop H1 digits. nop H1 [43; 45; 38].
    nopr H1 [61; 61]. nopr H1 [33; 61]. nopr H1 [62; 62]. nopr H1 [60; 60].
    nopr H1 [62]. nopr H1 [60]. nopr H1 [62; 61]. nopr H1 [60; 61].
    nop H1 ident_start. nop H1 [46]. nop H1 [44]. nopr H1 [58; 61]. nopr H1 [64; 61].
    nop H1 [42].
    destruct (accept_Zv_true _ _ _ _ _ _ [39] H1 eq_refl) as (s2 & A2 & H2). rewrite A2. cbv beta iota.
    unfold lex_quoted_string. rewrite <- app_assoc in H2. cbn [app] in H2.
    destruct (quoted_rest (get_position s2) q F s2 _ [39] (c :: r) out H2 Q ltac:(ll)) as (s' & E & H').
    rewrite E. exists s'. split; [reflexivity|]. cbn [app] in H'. rewrite <- app_assoc in H'. exact H'.
  - (* dotted identifier *)
    rewrite <- app_assoc in H. cbn [app] in H.
    destruct (init_ident lx F s a ws n1 (46 :: n2 ++ c :: r) out H B Hn) as (s3 & E3 & H3).
    { apply opcode_test_name_gen; try assumption; reflexivity. }
    { exact HF. }
    rewrite E3. pose proof (Zv_len _ _ _ _ _ H3) as L3.
    destruct (lex_identifier_dotted F s3 _ n1 n2 (c :: r) out H3 (name_ok_all _ Hn) A2) as (s4 & E4 & H4).
    { destruct Hc as [-> | ->]; reflexivity. }
    { lens2. unfold tk, str in *. lia. }
    exists s4. split; [exact E4|]. rewrite <- !app_assoc in H4. cbn [app] in H4. exact H4.
  - (* {{ *)
    unfold lex_initial, ignore_run.
    destruct (accept_run_Zv blanks ws F s a [] _ out H B eq_refl ltac:(ll)) as (s1 & R & H1).
    rewrite R. cbn [lbind]. apply ignore_Zv in H1. cbn [app] in H1.
    set (s0 := ignore s1) in *. clearbody s0. clear R s1.
    nop H1 [59]. nop H1 digits. nop H1 [43; 45; 38].
    nopr H1 [61; 61]. nopr H1 [33; 61]. nopr H1 [62; 62]. nopr H1 [60; 60].
    nopr H1 [62]. nopr H1 [60]. nopr H1 [62; 61]. nopr H1 [60; 61].
    nop H1 ident_start. nop H1 [46]. nop H1 [44]. nopr H1 [58; 61]. nopr H1 [64; 61].
    nop H1 [42]. nop H1 [39]. nop H1 [40]. nop H1 [41]. nop H1 [91]. nop H1 [93].
    destruct (accept_Zv_true _ _ _ _ _ _ [123] H1 eq_refl) as (s2 & A2 & H2). rewrite A2. cbv beta iota.
    destruct (accept_Zv_true _ _ _ _ _ _ [123] H2 eq_refl) as (s3 & A3 & H3). rewrite A3. cbv beta iota.
    eexists. split; [reflexivity|]. pose proof (emit_Zv _ _ _ _ _ T_DOUBLE_LBRACE H3) as H4.
    cbn [app] in H4. rewrite <- app_assoc in H4. exact H4.
  - (* }} *)
    unfold lex_initial, ignore_run.
    destruct (accept_run_Zv blanks ws F s a [] _ out H B eq_refl ltac:(ll)) as (s1 & R & H1).
    rewrite R. cbn [lbind]. apply ignore_Zv in H1. cbn [app] in H1.
    set (s0 := ignore s1) in *. clearbody s0. clear R s1.
    nop H1 [59]. nop H1 digits. nop H1 [43; 45; 38].
    nopr H1 [61; 61]. nopr H1 [33; 61]. nopr H1 [62; 62]. nopr H1 [60; 60].
    nopr H1 [62]. nopr H1 [60]. nopr H1 [62; 61]. nopr H1 [60; 61].
    nop H1 ident_start. nop H1 [46]. nop H1 [44]. nopr H1 [58; 61]. nopr H1 [64; 61].
    nop H1 [42]. nop H1 [39]. nop H1 [40]. nop H1 [41]. nop H1 [91]. nop H1 [93]. nop H1 [123].
    destruct (accept_Zv_true _ _ _ _ _ _ [125] H1 eq_refl) as (s2 & A2 & H2). rewrite A2. cbv beta iota.
    destruct (accept_Zv_true _ _ _ _ _ _ [125] H2 eq_refl) as (s3 & A3 & H3). rewrite A3. cbv beta iota.
    eexists. split; [reflexivity|]. pose proof (emit_Zv _ _ _ _ _ T_DOUBLE_RBRACE H3) as H4.
    cbn [app] in H4. rewrite <- app_assoc in H4. exact H4.
Qed.

(* ------------------------------------------------------------------------------------------ *)
(** * A line of words *)

Definition word := (tk * str)%type.       (* (type, value), text *)
Definition word_ok (lx : lexicon) (w : word) : Prop := wtk lx (fst (fst w)) (snd (fst w)) (snd w).

Lemma unwords_cons w r : r <> [] -> unwords (w :: r) = w ++ 32 :: unwords r.
Proof. destruct r; [congruence|reflexivity]. Qed.

Lemma scan_words lx F r : mn_chars_ok lx = true ->
  forall (wl : list word), wl <> [] -> Forall (word_ok lx) wl ->
  forall n s a b out,
    Zv s a [] (b ++ unwords (map snd wl) ++ 10 :: r) out -> all_in blanks b -> (length (inp s) + 1 < F)%nat ->
    exists s' a',
      scan_loop (length wl + n) F (lex_initial lx) s = scan_loop n F (lex_initial lx) s' /\
      Zv s' a' [] (10 :: r) (rev (map fst wl) ++ out) /\ length (inp s') = length (inp s).
Proof.
  intros Hmn. induction wl as [|[[ty v] text] wl IH]; intros NE Hall n s a b out H B HF; [congruence|].
  inversion Hall as [|? ? Hw Hrest]; subst. unfold word_ok in Hw. cbn [fst snd] in Hw.
  destruct (wtk_first _ _ _ _ Hw) as (c0 & t0 & Etext).
  destruct wl as [|w2 wl'].
  - cbn [map unwords snd] in H.
    destruct (init_word lx F s a b ty v text 10 r out Hmn H B Hw ltac:(right; reflexivity) HF) as (s1 & E1 & H1).
    exists s1. eexists. split; [|split; [exact H1|]].
    + cbn [length Nat.add]. eapply scan_call; [exact H| |exact E1|exact H1|].
      * rewrite Etext. destruct b; discriminate.
      * rewrite Etext. ll.
    + pose proof (Zv_len _ _ _ _ _ H) as X. pose proof (Zv_len _ _ _ _ _ H1) as Y. ll.
  - cbn [map snd] in H. rewrite unwords_cons in H by discriminate.
    change (snd w2 :: map snd wl') with (map snd (w2 :: wl')) in H.
    rewrite <- app_assoc in H. cbn [app] in H.
    destruct (init_word lx F s a b ty v text 32 (unwords (map snd (w2 :: wl')) ++ 10 :: r) out Hmn H B Hw
                ltac:(left; reflexivity) HF) as (s1 & E1 & H1).
    assert (L1 : length (inp s1) = length (inp s)).
    { pose proof (Zv_len _ _ _ _ _ H) as X. pose proof (Zv_len _ _ _ _ _ H1) as Y. ll. }
    change (32 :: unwords (map snd (w2 :: wl')) ++ 10 :: r)
      with ([32] ++ unwords (map snd (w2 :: wl')) ++ 10 :: r) in H1.
    destruct (IH ltac:(discriminate) Hrest n s1 _ [32] _ H1 ltac:(repeat constructor) ltac:(lia))
      as (s' & a' & E' & H' & L').
    exists s', a'. split; [|split; [|lia]].
    + cbn [length Nat.add]. rewrite <- E'.
      change (S (length wl') + n)%nat with (length (w2 :: wl') + n)%nat.
      eapply scan_call; [exact H| |exact E1|exact H1|].
      * rewrite Etext. destruct b; discriminate.
      * rewrite Etext. ll.
    + cbn [map rev fst]. rewrite <- app_assoc. cbn [app]. exact H'.
Qed.

Theorem lscan_words lx (wl : list word) : mn_chars_ok lx = true -> wl <> [] -> Forall (word_ok lx) wl ->
  lscan lx (unwords (map snd wl)) (map fst wl) (length wl).
Proof.
  intros Hmn NE Hall F n s a ws r out H B HF.
  destruct (scan_words lx F r Hmn wl NE Hall n s a ws out H B HF) as (s' & a' & E & H' & L').
  exists s', a', 0%nat. split; [exact E|]. split; [exact H'|exact L'].
Qed.

(* ------------------------------------------------------------------------------------------ *)
(** * Instruction lines *)

(** ",x" without blanks *)
Definition ix0 (c : option Z) : option (nat * Z) := match c with Some ch => Some (0%nat, ch) | None => None end.

(** the operand part of an instruction line (without the newline) *)
Definition operand_body (o : opening) (sp : spacing) (L : list tk) (c1 : option Z) (cl : closing) (c2 : option Z) : str :=
  open_text o ++ join sp 0 L ++ ixpart (ix0 c1) ++
  match cl with CNo => [] | _ => close_text cl ++ ixpart (ix0 c2) end.
Definition insn_text (mn : str) (sz : option Z) (o : opening) (sp : spacing) (L : list tk) (c1 : option Z) (cl : closing)
           (c2 : option Z) : str :=
  mn ++ sfx_text sz ++ [32] ++ operand_body o sp L c1 cl c2.

Lemma operand_body_gen o sp L c1 cl c2 r :
  operand_body o sp L c1 cl c2 ++ 10 :: r
  = gen_text o 0 sp L (ix0 c1) cl 0 (ix0 c2) 0 r.
Proof.
  unfold operand_body, gen_text, after_close.
  cbn [spaces repeat_z app]. rewrite <- !app_assoc.
  destruct cl; cbn [app]; [reflexivity| |].
  - rewrite <- !app_assoc. destruct c2; cbn [ix0]; rewrite <- ?app_assoc; reflexivity.
  - rewrite <- !app_assoc. destruct c2; cbn [ix0]; rewrite <- ?app_assoc; reflexivity.
Qed.

Lemma tk_first2 ty v : tk_ok (ty, v) -> exists c v', v = c :: v' /\ mem_z c [32; 9; 59; 10; 0; 46] = false.
Proof.
  inversion 1 as [f n| s I |o|o| | ]; subst.
  - destruct (render_num_ok f n) as (d & tl & -> & N). exists d, tl. split; [reflexivity|].
    exact (mem_z_disj digits [32; 9; 59; 10; 0; 46] eq_refl _ (num_ok_digit _ _ N)).
  - assert (exists c v', v = c :: v' /\ mem_z c ident_start = true) as (c & v' & -> & M)
      by (inversion I; subst; eauto).
    exists c, v'. split; [reflexivity|]. exact (mem_z_disj ident_start [32; 9; 59; 10; 0; 46] eq_refl _ M).
  - destruct o; eexists _, _; split; reflexivity.
  - destruct o; eexists _, _; split; reflexivity.
  - eexists _, _; split; reflexivity.
  - eexists _, _; split; reflexivity.
Qed.

(** a mnemonic of the operand-less list written WITH an operand (and without size suffix) *)
Lemma lex_opcode_operand_naked lx F s a mn km o ko sp L c1 cl kc c2 ke r out :
  Zv s a mn (spaces km ++ gen_text o ko sp L c1 cl kc c2 ke r) out ->
  (1 <= km)%nat -> mem_str (map lower mn) (lx_naked lx) = true ->
  seq_ok false L -> L <> [] ->
  (o = ONo -> ko = 0%nat /\ head_not_lparen L) -> sp 0%nat = 0%nat ->
  ix_ok c1 -> ix_ok c2 -> (cl = CParen -> c1 <> None) -> (c1 = None -> cl = CNo -> ke = 0%nat) ->
  (length (inp s) + 1 < F)%nat ->
  exists s' a' k',
    lex_opcode F lx s = LOk s' /\
    Zv s' a' [] (spaces k' ++ 10 :: r) (rev ((T_OPCODE, mn) :: gen_toks o L c1 cl c2) ++ out) /\
    (length a < length a')%nat /\ length (inp s') = length (inp s).
Proof.
  intros H Hkm Hnk SL NE Hno Hsp0 Ok1 Ok2 Hcp Hke HF. pose proof (Zv_len _ _ _ _ _ H) as Len.
  (* the first character of the operand *)
  assert (Hd : exists c0 rest, gen_text o ko sp L c1 cl kc c2 ke r = c0 :: rest /\
                               mem_z c0 [32; 9; 59; 10; 0; 46] = false).
  { unfold gen_text. destruct o; cbn [open_text app]; try (eexists _, _; split; reflexivity).
    destruct (Hno eq_refl) as [-> _]. destruct L as [|[ty v] L']; [congruence|].
    cbn [join snd spaces repeat_z app]. rewrite Hsp0. cbn [spaces repeat_z app].
    cbn [seq_ok] in SL. destruct SL as (K & _). destruct (tk_first2 _ _ K) as (c & v' & -> & M).
    cbn [app]. eexists _, _. split; [reflexivity|exact M]. }
  destruct Hd as (c0 & rest & Eg & Mc0).
  unfold lex_opcode. change (slice (inp s) (start s) (pos s)) with (current_token_text s).
  rewrite (token_text_Zv _ _ _ _ _ H), (Zv_peek _ _ _ _ _ H), Hnk.
  assert (P : negb (hd 0 (spaces km ++ gen_text o ko sp L c1 cl kc c2 ke r) =? 46) = true)
    by (destruct km; [lia|reflexivity]).
  rewrite P. cbn [andb].
  assert (M1 : mem_z (hd 0 (gen_text o ko sp L c1 cl kc c2 ke r)) [32; 9] = false).
  { rewrite Eg. cbn [hd]. unfold mem_z in *. cbn [existsb] in *.
    destruct (c0 =? 32), (c0 =? 9); try discriminate Mc0; reflexivity. }
  destruct (accept_run_Zv [32; 9] (spaces km) F s a mn _ out H (spaces_tabs km) M1 ltac:(ll))
    as (s1 & R & H1).
  rewrite R. cbn [lbind].
  assert (M2 : mem_z (hd 0 (gen_text o ko sp L c1 cl kc c2 ke r)) [59] = false).
  { rewrite Eg. cbn [hd]. unfold mem_z in *. cbn [existsb] in *.
    destruct (c0 =? 32), (c0 =? 9), (c0 =? 59); try discriminate Mc0; reflexivity. }
  rewrite (accept_Zv_false _ _ _ _ _ [59] H1 M2). cbv beta iota. cbn [lbind].
  rewrite (Zv_peek _ _ _ _ _ H1), Eg. cbn [hd].
  assert (M3 : (c0 =? 10) || (c0 =? 0) = false).
  { unfold mem_z in Mc0. cbn [existsb] in Mc0.
    destruct (c0 =? 32), (c0 =? 9), (c0 =? 59), (c0 =? 10), (c0 =? 0); try discriminate Mc0; reflexivity. }
  rewrite M3.
  destruct H as (I1 & I2 & I3 & I4).
  assert (Hb : Zv (set_pos s1 (pos s)) a mn (spaces km ++ gen_text o ko sp L c1 cl kc c2 ke r) out).
  { rewrite I3. apply set_pos_back. exact H1. }
  pose proof (emit_Zv _ _ _ _ _ T_OPCODE Hb) as He.
  assert (Le : length (inp (emit (set_pos s1 (pos s)) T_OPCODE)) = length (inp s)).
  { pose proof (Zv_len _ _ _ _ _ He) as X. ll. }
  unfold lex_opcode_tail.
  assert (M : mem_z (hd 0 (spaces km ++ gen_text o ko sp L c1 cl kc c2 ke r)) [46] = false).
  { destruct km; [lia|reflexivity]. }
  rewrite (accept_Zv_false _ _ _ _ _ [46] He M). cbv beta iota. cbn [lbind].
  destruct (ignore_then_operand F (emit (set_pos s1 (pos s)) T_OPCODE) _ km o ko sp L c1 cl kc c2 ke r _ He SL NE Hno
              Ok1 Ok2 Hcp Hke ltac:(lia)) as (s4 & s5 & a5 & k5 & E4 & E5 & H5 & La5 & Li5).
  rewrite E4. cbn [lbind]. rewrite E5.
  exists s5, a5, k5. split; [reflexivity|]. split; [|split; [ll|lia]].
  cbn [rev app]. rewrite <- !app_assoc. cbn [app]. exact H5.
Qed.

(** the instruction line *)
Definition insn_tks (mn : str) (sz : option Z) (o : opening) (L : list tk) (c1 : option Z) (cl : closing)
           (c2 : option Z) : list tk :=
  (T_OPCODE, mn) :: sfx_tok sz ++ gen_toks o L (ix0 c1) cl (ix0 c2).

Definition oix_ok (c : option Z) : Prop := match c with Some ch => mem_z ch index_chars = true | None => True end.

Theorem lscan_insn_tk lx mn sz o sp L c1 cl c2 :
  mn3_ok lx mn ->
  match sz with Some c => mem_z c size_chars = true | None => True end ->
  seq_ok false L -> L <> [] -> (o = ONo -> head_not_lparen L) -> sp 0%nat = 0%nat ->
  oix_ok c1 -> oix_ok c2 -> (cl = CParen -> c1 <> None) ->
  lscan lx (insn_text mn sz o sp L c1 cl c2) (insn_tks mn sz o L c1 cl c2) 1.
Proof.
  intros Hmn Hsz SL NE Hhd Hsp0 Ok1 Ok2 Hcp F n s a ws r out H B HF.
  unfold insn_text in H. rewrite <- !app_assoc in H. rewrite (operand_body_gen o sp L c1 cl c2 r) in H.
  destruct Hmn as (c0 & c1' & c2' & Em & M0 & Mm).
  destruct (init_opcode lx F s a ws mn _ out H B) as (s3 & E3 & H3).
  { exists c0, c1', c2'. split; [exact Em|]. split; [exact M0|]. split; [exact Mm|].
    destruct sz as [c|]; reflexivity. }
  { exact HF. }
  pose proof (Zv_len _ _ _ _ _ H) as L0. pose proof (Zv_len _ _ _ _ _ H3) as L3.
  assert (Li3 : length (inp s3) = length (inp s)) by (unfold tk, str in *; ll).
  assert (I1 : ix_ok (ix0 c1)) by (destruct c1; exact Ok1).
  assert (I2 : ix_ok (ix0 c2)) by (destruct c2; exact Ok2).
  assert (Hcp' : cl = CParen -> ix0 c1 <> None) by (intros X; specialize (Hcp X); destruct c1; [discriminate|congruence]).
  assert (Hno : o = ONo -> 0%nat = 0%nat /\ head_not_lparen L) by (intros X; split; [reflexivity|exact (Hhd X)]).
  change ([32] ++ gen_text o 0 sp L (ix0 c1) cl 0 (ix0 c2) 0 r)
    with (spaces 1 ++ gen_text o 0 sp L (ix0 c1) cl 0 (ix0 c2) 0 r) in H3.
  assert (Fin : forall s4 a4 k4,
            lex_opcode F lx s3 = LOk s4 ->
            Zv s4 a4 [] (spaces k4 ++ 10 :: r) (rev (insn_tks mn sz o L c1 cl c2) ++ out) ->
            (length (a ++ ws) < length a4)%nat -> length (inp s4) = length (inp s3) ->
            exists s' a' k', scan_loop (1 + n) F (lex_initial lx) s = scan_loop n F (lex_initial lx) s' /\
              Zv s' a' [] (spaces k' ++ 10 :: r) (rev (insn_tks mn sz o L c1 cl c2) ++ out) /\
              length (inp s') = length (inp s)).
  { intros s4 a4 k4 E4 H4 La4 L4. exists s4, a4, k4. split; [|split; [exact H4|lia]].
    cbn [Nat.add]. eapply scan_call; [exact H| |rewrite E3; exact E4|exact H4|].
    - subst mn. destruct ws; discriminate.
    - ll. }
  destruct sz as [c|].
  - destruct (lex_opcode_operand lx F s3 _ mn (Some c) 1 o 0 sp L (ix0 c1) cl 0 (ix0 c2) 0 r _ H3
                Hsz SL NE Hno I1 I2 Hcp' ltac:(reflexivity) ltac:(lia)) as (s4 & a4 & k4 & E4 & H4 & La4 & L4).
    eapply Fin; eassumption.
  - destruct (mem_str (map lower mn) (lx_naked lx)) eqn:Enk.
    + cbn [sfx_text app] in H3.
      destruct (lex_opcode_operand_naked lx F s3 _ mn 1 o 0 sp L (ix0 c1) cl 0 (ix0 c2) 0 r _ H3
                  ltac:(lia) Enk SL NE Hno Hsp0 I1 I2 Hcp' ltac:(reflexivity) ltac:(lia))
        as (s4 & a4 & k4 & E4 & H4 & La4 & L4).
      eapply Fin; eassumption.
    + destruct (lex_opcode_operand lx F s3 _ mn None 1 o 0 sp L (ix0 c1) cl 0 (ix0 c2) 0 r _ H3
                  (conj (le_n 1) Enk) SL NE Hno I1 I2 Hcp' ltac:(reflexivity) ltac:(lia))
        as (s4 & a4 & k4 & E4 & H4 & La4 & L4).
      eapply Fin; eassumption.
Qed.

Print Assumptions lscan_words.
Print Assumptions lscan_insn_tk.
