(** Scanner proofs, part 7a (C16 2c): spaces inserted INSIDE a line.
    The line is [u ++ v]; run 1 scans [A1 = u ++ v ++ "\n"], run 2 scans [A2 = u ++ w ++ v ++ "\n"]
    where [w] is a non-empty run of spaces.  Two phases:
    - E (lock step): both scanners are inside [u], at the same offset, with the same tokens.  Where a
      lexer looks at the character after [u] (the first character of [v] in run 1, a space in
      run 2) the gap conditions make it take the same decision.
    - P (shifted): after the first run of blanks that reaches the end of [u], run 1 is the
      transplant [pp u O tau] and run 2 the transplant [pp (u ++ w) O tau] of ONE scanner state
      [tau] over [v ++ "\n"]: both follow [tau] by the column-shift simulation of ScannerColumns
      (prefix [u], resp. [u ++ w], on the first line) under the frame of ScannerShift (the tokens
      [O] emitted before the gap stay underneath).
    This file: the setting, the P machinery, the E primitives and the switch. *)
From A816 Require Import Model.Scanner Proofs.ScannerSpec Proofs.ScannerFuel Proofs.ScannerPos
  Proofs.ScannerMono Proofs.ScannerShift Proofs.ScannerPrefix Proofs.ScannerLayout
  Proofs.ScannerComments Proofs.ScannerColumns Proofs.ScannerTrailing1.
From Coq Require Import Arith Lia.
Open Scope nat_scope.

(* ------------------------------------------------------------------------------------------ *)
(** * Frame and transplant *)

(** the tokens [O] underneath, nothing else changed (ScannerShift with an empty prefix) *)
Definition fr (O : list token) (t : sc) : sc := sh [] 0 [] O t.
(** [t] seen after the prefix [pre] on its first line, over the tokens [O] *)
Definition pp (pre : str) (O : list token) (t : sc) : sc := fr O (csh pre t).

Lemma pp_pos pre O t : pos (pp pre O t) = length pre + pos t.
Proof. reflexivity. Qed.
Lemma pp_inp pre O t : inp (pp pre O t) = pre ++ inp t.
Proof. reflexivity. Qed.

(** OK outcomes of run 1 reproduced by run 2 *)
Definition lsimS (Q : sc -> sc -> Prop) (r r' : lres sc) : Prop :=
  match r with
  | LOk a => exists a', r' = LOk a' /\ Q a a'
  | _ => True
  end.

Lemma lsimS_bind (Q Q' : sc -> sc -> Prop) r r' (h h' : sc -> lres sc) :
  lsimS Q r r' -> (forall a a', Q a a' -> lsimS Q' (h a) (h' a')) -> lsimS Q' (lbind r h) (lbind r' h').
Proof.
  destruct r as [a|m l c a| |]; cbn [lsimS lbind]; auto.
  intros (a' & -> & Ha) H. cbn [lbind]. apply H. assumption.
Qed.

Lemma lsimS_weaken (Q Q' : sc -> sc -> Prop) r r' :
  lsimS Q r r' -> (forall a a', Q a a' -> Q' a a') -> lsimS Q' r r'.
Proof. destruct r; cbn; auto. intros (a' & ? & ?) HH. eauto. Qed.

Lemma lsimS_ok (Q : sc -> sc -> Prop) a a' : Q a a' -> lsimS Q (LOk a) (LOk a').
Proof. intros; exists a'; auto. Qed.

(** a state function that commutes with both transplants follows [tau] from both sides *)
Section PStep.
  Variable f : sc -> lres sc.
  Hypothesis Hc : forall pre t, J t -> csim pre (f t) (f (csh pre t)).
  Hypothesis Hs : forall O t, ScannerShift.lsim [] 0 [] O (f t) (f (fr O t)).

  Lemma pstep pre1 pre2 O tau : J tau -> post (inp tau) 0 (f tau) ->
    match f (pp pre1 O tau) with
    | LOk a1 => exists a, inp a = inp tau /\ J a /\ a1 = pp pre1 O a /\ f (pp pre2 O tau) = LOk (pp pre2 O a)
    | _ => True
    end.
  Proof.
    intros HJ Hp. pose proof (Hc pre1 tau HJ) as C1. pose proof (Hc pre2 tau HJ) as C2.
    pose proof (Hs O (csh pre1 tau)) as S1. pose proof (Hs O (csh pre2 tau)) as S2.
    unfold pp. destruct (f tau) as [a|m l c a| |]; cbn [csim post] in *.
    - destruct C1 as [C1 Ja]. destruct C2 as [C2 _]. rewrite C1 in S1. rewrite C2 in S2.
      cbn [ScannerShift.lsim] in S1, S2. fold (fr O (csh pre1 a)) in S1. rewrite S1.
      exists a. split; [apply Hp|]. split; [assumption|]. split; [reflexivity|exact S2].
    - destruct C1 as [C1 _]. rewrite C1 in S1. cbn [ScannerShift.lsim] in S1. destruct S1 as [S1 _]. rewrite S1. exact I.
    - contradiction.
    - contradiction.
  Qed.
End PStep.

(** [shift_tok 0] is the identity *)
Lemma shift_tok_0 t : shift_tok 0 t = t.
Proof.
  destruct t as [ty v [p|]]; unfold shift_tok; cbn; [|reflexivity].
  destruct p as [l c f]. cbn. rewrite Z.add_0_r. reflexivity.
Qed.
Lemma map_shift_tok_0 l : map (shift_tok 0) l = l.
Proof. induction l as [|x r IH]; cbn; [reflexivity|]. rewrite shift_tok_0, IH. reflexivity. Qed.

(** the first place at or before [m] where a run over [c] stops *)
Lemma first_stop c (l : str) : forall k p, exists q, p <= q <= p + k /\
  (forall i, p <= i < q -> mem_z (nth i l 0%Z) c = true) /\ (q = p + k \/ mem_z (nth q l 0%Z) c = false).
Proof.
  induction k as [|k IH]; intros p.
  - exists p. repeat split; lia.
  - destruct (mem_z (nth p l 0%Z) c) eqn:E.
    + destruct (IH (S p)) as (q & Hq & Hin & Ho). exists q. split; [lia|]. split.
      * intros i Hi. destruct (Nat.eq_dec i p) as [->|Hn]; [exact E|apply Hin; lia].
      * destruct Ho as [Ho|Ho]; [left; lia|right; exact Ho].
    + exists p. split; [lia|]. split; [intros; lia|right; exact E].
Qed.

(** the driver is never stuck when its state function is not *)
Lemma scan_loop_not_stuck F state s0 : length s0 < F ->
  (forall s p, at_ s0 p s -> post s0 p (state F s)) ->
  forall j s, inp s = s0 -> scan_loop j F state s <> ScanStuck.
Proof.
  intros HF Hst. induction j as [|j IH]; intros s Hi; cbn [scan_loop]; [discriminate|].
  destruct (pos s <? length (inp s)); [|discriminate].
  assert (Hat : at_ s0 (pos s) s) by (split; [assumption|lia]).
  specialize (Hst s (pos s) Hat).
  destruct (state F s) as [s'|m l c s'| |]; cbn [post] in Hst; try contradiction.
  - destruct Hst as [Hi' _]. destruct (pos s' =? pos s).
    + destruct (scan_handler_err F (M_InvalidInput (skipn (pos (ignore s')) (inp (ignore s'))))
                (fst (get_position (ignore s'))) (snd (get_position (ignore s'))) (ignore s')) as [e He].
      { cbn. rewrite Hi'. assumption. }
      rewrite He. discriminate.
    + apply IH. assumption.
  - destruct (scan_handler_err F m l c s') as [e He]; [rewrite Hst; assumption|]. rewrite He. discriminate.
Qed.

(** letters *)
Definition isletterb (c : Z) : bool := ((65 <=? c) && (c <=? 90) || (97 <=? c) && (c <=? 122))%Z.
(** the mnemonics are made of letters *)
Definition lexicon_alpha (lx : lexicon) : bool := forallb (forallb isletterb) (lx_mnemonics lx).

Lemma isletter_lower c : isletterb (lower c) = isletterb c.
Proof. unfold isletterb, lower. destruct ((65 <=? c) && (c <=? 90))%Z eqn:E; [|rewrite E; reflexivity].
  apply andb_true_iff in E as [E1 E2]. apply Z.leb_le in E1, E2. cbn [orb].
  destruct (Z.leb_spec 65 (c + 32)); destruct (Z.leb_spec (c + 32) 90); destruct (Z.leb_spec 97 (c + 32)); destruct (Z.leb_spec (c + 32) 122);
    try lia; reflexivity.
Qed.

Lemma letter_ident c : isletterb c = true -> mem_z c ident_chars = true.
Proof.
  unfold isletterb. intros H. apply orb_true_iff in H as [H|H]; apply andb_true_iff in H as [H1 H2];
    apply Z.leb_le in H1, H2.
  - assert (C : (c = 65 \/ c = 66 \/ c = 67 \/ c = 68 \/ c = 69 \/ c = 70 \/ c = 71 \/ c = 72 \/ c = 73 \/ c = 74 \/ c = 75 \/
                c = 76 \/ c = 77 \/ c = 78 \/ c = 79 \/ c = 80 \/ c = 81 \/ c = 82 \/ c = 83 \/ c = 84 \/ c = 85 \/ c = 86 \/
                c = 87 \/ c = 88 \/ c = 89 \/ c = 90)%Z) by lia.
    repeat (destruct C as [->|C]; [reflexivity|]). subst c. reflexivity.
  - assert (C : (c = 97 \/ c = 98 \/ c = 99 \/ c = 100 \/ c = 101 \/ c = 102 \/ c = 103 \/ c = 104 \/ c = 105 \/ c = 106 \/
                c = 107 \/ c = 108 \/ c = 109 \/ c = 110 \/ c = 111 \/ c = 112 \/ c = 113 \/ c = 114 \/ c = 115 \/ c = 116 \/
                c = 117 \/ c = 118 \/ c = 119 \/ c = 120 \/ c = 121 \/ c = 122)%Z) by lia.
    repeat (destruct C as [->|C]; [reflexivity|]). subst c. reflexivity.
Qed.

(** a candidate with a character that is no letter is no mnemonic *)
Lemma not_mnemonic lx (cand : str) j : lexicon_alpha lx = true -> j < length cand ->
  isletterb (nth j cand 0%Z) = false -> mem_str cand (lx_mnemonics lx) = false.
Proof.
  intros Hlx Hj Hn. destruct (mem_str cand (lx_mnemonics lx)) eqn:E; [|reflexivity]. exfalso.
  unfold mem_str in E. apply existsb_exists in E as (m & Hm & Em). apply str_eqb_true in Em. subst m.
  unfold lexicon_alpha in Hlx. rewrite forallb_forall in Hlx. specialize (Hlx _ Hm).
  rewrite forallb_forall in Hlx. rewrite (Hlx (nth j cand 0%Z)) in Hn; [discriminate|apply nth_In, Hj].
Qed.

(** two characters that form (or could form) one token *)
Definition bad_pair (a b : Z) : bool :=
  existsb (fun p => (fst p =? a)%Z && (snd p =? b)%Z)
    [(42,61);(60,60);(60,61);(62,62);(62,61);(61,61);(33,61);(58,61);(64,61);(123,123);(125,125);(47,42)]%Z.

Definition sub (c c' : str) : bool := forallb (fun x => mem_z x c') c.
Lemma sub_mem c c' x : sub c c' = true -> mem_z x c = true -> mem_z x c' = true.
Proof.
  unfold sub. rewrite forallb_forall. intros H Hx. apply mem_z_In in Hx. apply H. assumption.
Qed.
Lemma sub_not c c' x : sub c c' = true -> mem_z x c' = false -> mem_z x c = false.
Proof. intros H Hx. destruct (mem_z x c) eqn:E; [|reflexivity]. rewrite (sub_mem c c' x H E) in Hx. discriminate. Qed.

Lemma nth_map_lower (l : str) j : nth j (map lower l) 0%Z = lower (nth j l 0%Z).
Proof. change 0%Z with (lower 0) at 1. apply map_nth. Qed.

Lemma mem1 x a : mem_z x [a] = true -> x = a.
Proof. unfold mem_z. cbn. rewrite orb_false_r. intros H. apply Z.eqb_eq in H. congruence. Qed.

(* ------------------------------------------------------------------------------------------ *)
(** * The setting *)

Section Blank.
  Variable u w v : str.
  Hypothesis Hu : ~ In 10%Z u.
  Hypothesis Hv : ~ In 10%Z v.
  Hypothesis Hw : Forall (fun c => c = 32%Z) w.
  Hypothesis Hw0 : w <> [].
  Hypothesis Hv0 : v <> [].
  Local Notation n := (length u).
  Local Notation d := (length w).
  Definition bv1 : str := v ++ [10%Z].
  Definition bA1 : str := u ++ bv1.
  Definition bA2 : str := (u ++ w) ++ bv1.
  (** the character after the gap *)
  Definition bv0 : Z := nth 0 bv1 0%Z.

  Lemma len_v1 : length bv1 = S (length v).
  Proof. unfold bv1. rewrite app_length. cbn. lia. Qed.
  Lemma len_A1 : length bA1 = n + S (length v).
  Proof. unfold bA1. rewrite app_length, len_v1. reflexivity. Qed.
  Lemma len_A2 : length bA2 = n + d + S (length v).
  Proof. unfold bA2. rewrite !app_length, len_v1. reflexivity. Qed.
  Lemma d_pos : 1 <= d.
  Proof. destruct w; [congruence|cbn; lia]. Qed.

  Lemma A1_in i : i < n -> nth i bA1 0%Z = nth i u 0%Z.
  Proof. intros. unfold bA1. apply app_nth1. assumption. Qed.
  Lemma A2_in i : i < n -> nth i bA2 0%Z = nth i u 0%Z.
  Proof. intros. unfold bA2. rewrite <- app_assoc. apply app_nth1. assumption. Qed.
  Lemma A1_at j : nth (n + j) bA1 0%Z = nth j bv1 0%Z.
  Proof. unfold bA1. apply app_nth2_plus. Qed.
  Lemma A2_at j : nth (n + d + j) bA2 0%Z = nth j bv1 0%Z.
  Proof. unfold bA2. rewrite <- (app_length u w). apply app_nth2_plus. Qed.
  Lemma A2_w j : j < d -> nth (n + j) bA2 0%Z = 32%Z.
  Proof.
    intros Hj. unfold bA2. rewrite <- app_assoc, app_nth2_plus, app_nth1 by assumption.
    rewrite Forall_forall in Hw. apply Hw, nth_In, Hj.
  Qed.
  Lemma A1_n : nth n bA1 0%Z = bv0.
  Proof. rewrite <- (Nat.add_0_r n) at 1. apply A1_at. Qed.
  Lemma A2_n : nth n bA2 0%Z = 32%Z.
  Proof. rewrite <- (Nat.add_0_r n) at 1. apply A2_w, d_pos. Qed.
  Lemma u_nonl i : i < n -> nth i u 0%Z <> 10%Z.
  Proof. intros Hi E. apply Hu. rewrite <- E. apply nth_In. assumption. Qed.
  Lemma v0_v : bv0 = nth 0 v 0%Z.
  Proof. unfold bv0, bv1. destruct v; [congruence|reflexivity]. Qed.
  Lemma v0_ne10 : bv0 <> 10%Z.
  Proof. rewrite v0_v. intros E. apply Hv. rewrite <- E. apply nth_In. destruct v; [congruence|cbn; lia]. Qed.

  Lemma slice_A1 a b : b <= n -> slice bA1 a b = slice u a b.
  Proof. intros. unfold bA1. apply slice_ext. assumption. Qed.
  Lemma slice_A2 a b : b <= n -> slice bA2 a b = slice u a b.
  Proof. intros. unfold bA2. rewrite <- app_assoc. apply slice_ext. assumption. Qed.

  (** ** phase E: lock step inside [u] *)
  Definition te (t : sc) : sc :=
    mk_sc bA2 (pos t) (start t) (loff t) (cline t) (lines_rev t) (toks_rev t) (fname t).
  Definition Ein (t : sc) : Prop :=
    inp t = bA1 /\ pos t <= n /\ loff t = 0 /\ cline t = 0 /\ lines_rev t = [].
  Definition Erel (t t' : sc) : Prop := Ein t /\ t' = te t.

  (** ** phase P: both runs are transplants of one state over [v ++ "\n"] *)
  Definition Prel (t t' : sc) : Prop :=
    exists tau O, inp tau = bv1 /\ J tau /\ t = pp u O tau /\ t' = pp (u ++ w) O tau.
  (** the same just after a character was consumed *)
  Definition PrelN (t t' : sc) : Prop :=
    exists tau O q, inp tau = bv1 /\ J tau /\ pos tau = S q /\ q < length bv1 /\
                    t = pp u O tau /\ t' = pp (u ++ w) O tau.
  Lemma Prel_intro tau O : inp tau = bv1 -> J tau -> Prel (pp u O tau) (pp (u ++ w) O tau).
  Proof. intros H1 H2. exists tau, O. auto. Qed.
  Lemma PrelN_intro tau O q : inp tau = bv1 -> J tau -> pos tau = S q -> q < length bv1 ->
    PrelN (pp u O tau) (pp (u ++ w) O tau).
  Proof. intros H1 H2 H3 H4. exists tau, O, q. auto 7. Qed.
  Lemma PrelN_Prel t t' : PrelN t t' -> Prel t t'.
  Proof. intros (tau & O & q & H1 & H2 & _ & _ & H3 & H4). exists tau, O. auto. Qed.

  (** lock step, with [C] known when run 1 stands at the gap; or shifted *)
  Definition SimB (C : Prop) (t t' : sc) : Prop := (Erel t t' /\ (pos t = n -> C)) \/ Prel t t'.
  Definition Sim := SimB True.
  Definition SimL := SimB False.

  Lemma SimB_weaken (C C' : Prop) t t' : SimB C t t' -> (C -> C') -> SimB C' t t'.
  Proof. intros [[H1 H2]|H] HC; [left; split; auto|right; exact H]. Qed.
  Lemma SimB_Sim C t t' : SimB C t t' -> Sim t t'.
  Proof. intros H. eapply SimB_weaken; [exact H|auto]. Qed.
  Lemma Erel_Sim t t' : Erel t t' -> Sim t t'.
  Proof. intros H. left. auto. Qed.
  Lemma Prel_SimB C t t' : Prel t t' -> SimB C t t'.
  Proof. intros H. right. exact H. Qed.

  Lemma Ein_set_pos t p : Ein t -> p <= n -> Ein (set_pos t p).
  Proof. intros (H1 & H2 & H3 & H4 & H5) Hp. repeat split; cbn; auto. Qed.
  Lemma Ein_ignore t : Ein t -> Ein (ignore t).
  Proof. intros H; exact H. Qed.
  Lemma Ein_emit t ty : Ein t -> Ein (emit t ty).
  Proof. intros H; exact H. Qed.
  Lemma te_ignore t : ignore (te t) = te (ignore t).
  Proof. reflexivity. Qed.
  Lemma te_set_pos t p : set_pos (te t) p = te (set_pos t p).
  Proof. reflexivity. Qed.

  Lemma E_peek_in t : Ein t -> pos t < n ->
    peek (te t) = peek t /\ peek t = nth (pos t) u 0%Z /\ peek t <> 10%Z.
  Proof.
    intros (Hi & _) Hp. rewrite !peek_nth. cbn [te inp pos]. rewrite Hi, A1_in, A2_in by assumption.
    split; [reflexivity|]. split; [reflexivity|apply u_nonl; assumption].
  Qed.

  Lemma E_peek_bd t : Ein t -> pos t = n -> peek t = bv0 /\ peek (te t) = 32%Z.
  Proof.
    intros (Hi & _) Hp. rewrite !peek_nth. cbn [te inp pos]. rewrite Hi, Hp. split; [apply A1_n|apply A2_n].
  Qed.

  Lemma E_peek_k_in t j : Ein t -> pos t + j < n -> peek_k (te t) j = peek_k t j /\ peek_k t j = nth (pos t + j) u 0%Z.
  Proof.
    intros (Hi & _) Hp. unfold peek_k. cbn [te inp pos]. rewrite Hi, A1_in, A2_in by assumption. auto.
  Qed.

  Lemma E_next_in t : Ein t -> pos t < n ->
    next t = (Some (peek t), set_pos t (S (pos t))) /\
    next (te t) = (Some (peek t), te (set_pos t (S (pos t)))) /\
    Ein (set_pos t (S (pos t))).
  Proof.
    intros HE Hp. destruct (E_peek_in t HE Hp) as (E1 & E2 & E3). pose proof HE as (Hi & _).
    split; [|split].
    - rewrite peek_nth. apply next_plain; [rewrite Hi, len_A1; lia|rewrite <- peek_nth; exact E3].
    - rewrite <- E1. rewrite peek_nth. rewrite next_plain.
      + reflexivity.
      + cbn [te inp pos]. rewrite len_A2. lia.
      + rewrite <- peek_nth, E1. exact E3.
    - apply Ein_set_pos; [assumption|lia].
  Qed.

  Lemma E_accept_in t c neg : Ein t -> pos t < n ->
    accept (te t) c neg = (fst (accept t c neg), te (snd (accept t c neg))) /\
    Ein (snd (accept t c neg)) /\
    (fst (accept t c neg) = true -> pos (snd (accept t c neg)) = S (pos t) /\
                                    xorb (mem_z (nth (pos t) u 0%Z) c) neg = true) /\
    (fst (accept t c neg) = false -> snd (accept t c neg) = t).
  Proof.
    intros HE Hlt. unfold accept. destruct (E_peek_in t HE Hlt) as (-> & E2 & _).
    destruct (E_next_in t HE Hlt) as (N1 & N2 & N3). rewrite <- E2.
    destruct (xorb (mem_z (peek t) c) neg) eqn:X; cbn [fst snd].
    - rewrite N1, N2. cbn [snd]. split; [reflexivity|]. split; [exact N3|].
      split; [intros _; split; reflexivity|discriminate].
    - split; [reflexivity|]. split; [exact HE|]. split; [discriminate|reflexivity].
  Qed.

  Lemma E_accept_bd t c : Ein t -> pos t = n -> mem_z bv0 c = false -> mem_z 32 c = false ->
    accept t c false = (false, t) /\ accept (te t) c false = (false, te t).
  Proof.
    intros HE Hp H1 H2. destruct (E_peek_bd t HE Hp) as [P1 P2]. unfold accept.
    rewrite P1, P2, H1, H2. auto.
  Qed.

  Lemma E_emit t ty : Ein t -> emit (te t) ty = te (emit t ty).
  Proof.
    intros (Hi & Hp & _). unfold emit, te, get_token, current_token_text, get_position.
    cbn [inp pos start loff cline lines_rev toks_rev fname]. rewrite Hi.
    rewrite slice_A1, slice_A2 by assumption. reflexivity.
  Qed.

  Lemma E_ctt t : Ein t -> current_token_text (te t) = current_token_text t.
  Proof.
    intros (Hi & Hp & _). unfold current_token_text. cbn [te inp start pos]. rewrite Hi, slice_A1, slice_A2 by assumption.
    reflexivity.
  Qed.

  (** a prefix that does not straddle the gap in run 1 *)
  Definition nostr (p : str) : Prop :=
    forall a, a < n -> n < a + length p -> str_eqb (slice bA1 a (a + length p)) p = false.

  Lemma E_accept_prefix t p : Ein t -> pos t < n -> ~ In 32%Z p -> nostr p ->
    accept_prefix (te t) p = (fst (accept_prefix t p), te (snd (accept_prefix t p))) /\
    Ein (snd (accept_prefix t p)) /\
    (fst (accept_prefix t p) = false -> snd (accept_prefix t p) = t).
  Proof.
    intros HE Hlt H32 Hns. pose proof HE as (Hi & Hp & _).
    unfold accept_prefix. cbn [te inp pos]. rewrite Hi.
    destruct (Nat.le_gt_cases (pos t + length p) n) as [Hle|Hgt].
    - rewrite slice_A1, slice_A2 by assumption.
      destruct (str_eqb (slice u (pos t) (pos t + length p)) p); cbn [fst snd].
      + split; [reflexivity|]. split; [apply Ein_set_pos; assumption|discriminate].
      + split; [reflexivity|]. split; [assumption|reflexivity].
    - rewrite (Hns (pos t) Hlt Hgt).
      set (j := n - pos t). assert (Hj : j < length p) by (subst j; lia).
      assert (E2 : str_eqb (slice bA2 (pos t) (pos t + length p)) p = false).
      { apply (str_eqb_false_at _ _ j Hj). rewrite nth_slice by lia.
        replace (pos t + j) with n by (subst j; lia). rewrite A2_n. intros E. apply H32. rewrite E. apply nth_In, Hj. }
      rewrite E2. cbn [fst snd]. split; [reflexivity|]. split; [assumption|reflexivity].
  Qed.

  (** ** phase P primitives *)
  Lemma pp_accept pre O t c neg : J t ->
    accept (pp pre O t) c neg = (fst (accept t c neg), pp pre O (snd (accept t c neg))).
  Proof. intros HJ. unfold pp, fr. rewrite sh_accept, csh_accept by assumption. reflexivity. Qed.
  Lemma pp_accept_prefix pre O t p :
    accept_prefix (pp pre O t) p = (fst (accept_prefix t p), pp pre O (snd (accept_prefix t p))).
  Proof. unfold pp, fr. rewrite sh_accept_prefix, csh_accept_prefix. reflexivity. Qed.
  Lemma pp_next pre O t : J t -> next (pp pre O t) = (fst (next t), pp pre O (snd (next t))).
  Proof. intros HJ. unfold pp, fr. rewrite sh_next, csh_next by assumption. reflexivity. Qed.
  Lemma pp_emit pre O t ty : J t -> emit (pp pre O t) ty = pp pre O (emit t ty).
  Proof. intros HJ. unfold pp, fr. rewrite sh_emit, csh_emit by assumption. reflexivity. Qed.
  Lemma pp_peek pre O t : peek (pp pre O t) = peek t.
  Proof. unfold pp, fr. rewrite sh_peek, csh_peek. reflexivity. Qed.
  Lemma pp_ignore pre O t : ignore (pp pre O t) = pp pre O (ignore t).
  Proof. reflexivity. Qed.
  Lemma pp_not_at_end pre O t : (pos (pp pre O t) <? length (inp (pp pre O t))) = (pos t <? length (inp t)).
  Proof. unfold pp, fr. rewrite sh_not_at_end, csh_not_at_end. reflexivity. Qed.

  Lemma next_inp t : inp (snd (next t)) = inp t.
  Proof. apply next_fields. Qed.
  Lemma accept_inp t c neg : inp (snd (accept t c neg)) = inp t.
  Proof. apply accept_fields. Qed.
  Lemma accept_prefix_inp t p : inp (snd (accept_prefix t p)) = inp t.
  Proof. unfold accept_prefix. destruct (str_eqb _ _); reflexivity. Qed.

  (** ** unified primitives *)
  Lemma S_emit t t' ty : Sim t t' -> Sim (emit t ty) (emit t' ty).
  Proof.
    intros [[[HE ->] _]|(tau & O & Hi & HJ & -> & ->)].
    - rewrite E_emit by assumption. left. split; [split; [apply Ein_emit; assumption|reflexivity]|auto].
    - rewrite !pp_emit by assumption. right. apply Prel_intro; [assumption|apply J_emit; assumption].
  Qed.

  Lemma S_ignore C t t' : SimB C t t' -> SimB C (ignore t) (ignore t').
  Proof.
    intros [[[HE ->] HC]|(tau & O & Hi & HJ & -> & ->)].
    - left. split; [split; [apply Ein_ignore; assumption|reflexivity]|exact HC].
    - right. rewrite !pp_ignore. apply Prel_intro; [assumption|apply J_ignore; assumption].
  Qed.

  (** after a successful accept over [c] *)
  Definition SimA (c : str) (t t' y y' : sc) : Prop :=
    (Erel t t' /\ Erel y y' /\ pos y = S (pos t) /\ pos t < n /\ mem_z (nth (pos t) u 0%Z) c = true) \/
    (Prel t t' /\ PrelN y y').
  Lemma SimA_Sim c t t' y y' : SimA c t t' y y' -> Sim y y'.
  Proof. intros [(_ & H & _)|[_ H]]; [apply Erel_Sim, H|right; apply PrelN_Prel, H]. Qed.

  Lemma EP_excl t t' : Erel t t' -> Prel t t' -> False.
  Proof.
    intros [_ ->] (tau & O & _ & _ & E1 & E2).
    assert (P1 : pos t = n + pos tau) by (rewrite E1; reflexivity).
    assert (P2 : pos (te t) = length (u ++ w) + pos tau) by (rewrite E2; reflexivity).
    cbn [te pos] in P2. rewrite app_length in P2. pose proof d_pos. lia.
  Qed.

  Lemma S_accept (C : Prop) t t' c : mem_z 0 c = false -> SimB C t t' ->
    (C -> mem_z bv0 c = false /\ mem_z 32 c = false) ->
    exists y', accept t' c false = (fst (accept t c false), y') /\
               (fst (accept t c false) = true -> SimA c t t' (snd (accept t c false)) y') /\
               (fst (accept t c false) = false -> snd (accept t c false) = t /\ y' = t').
  Proof.
    intros H0 [[[HE ->] HC]|(tau & O & Hi & HJ & -> & ->)] Hcond.
    - destruct (Nat.lt_ge_cases (pos t) n) as [Hlt|Hge].
      + destruct (E_accept_in t c false HE Hlt) as (E & HE' & Ht & Hf). rewrite E.
        eexists. split; [reflexivity|]. split.
        * intros Hb. destruct (Ht Hb) as [P1 P2]. rewrite xorb_false_r in P2.
          left. split; [split; [assumption|reflexivity]|]. split; [split; [assumption|reflexivity]|]. auto.
        * intros Hb. rewrite (Hf Hb). auto.
      + assert (Hp : pos t = n) by (destruct HE as (_ & ? & _); lia).
        destruct (Hcond (HC Hp)) as [M1 M2].
        destruct (E_accept_bd t c HE Hp M1 M2) as [A1 A2]. rewrite A1, A2. cbn [fst snd].
        eexists. split; [reflexivity|]. split; [discriminate|auto].
    - rewrite !pp_accept by assumption. eexists. split; [reflexivity|].
      destruct (accept tau c false) as [b y] eqn:A. cbn [fst snd]. split.
      + intros ->. pose proof (accept_true _ _ _ _ A H0 eq_refl) as (I1 & P1 & P2 & _).
        right. split; [apply Prel_intro; assumption|].
        apply (PrelN_intro y O (pos tau)); [congruence| |assumption|rewrite <- Hi; exact P2].
        pose proof (J_accept tau c false HJ) as HJ'. rewrite A in HJ'. exact HJ'.
      + intros ->. apply accept_false in A. subst y. auto.
  Qed.

  Lemma S_accept_prefix t t' p : SimL t t' -> ~ In 32%Z p -> nostr p ->
    exists y', accept_prefix t' p = (fst (accept_prefix t p), y') /\
               Sim (snd (accept_prefix t p)) y' /\
               (fst (accept_prefix t p) = false -> snd (accept_prefix t p) = t /\ y' = t').
  Proof.
    intros [[[HE ->] HC]|(tau & O & Hi & HJ & -> & ->)] H32 Hns.
    - assert (Hlt : pos t < n) by (destruct HE as (_ & Hp & _); destruct (Nat.eq_dec (pos t) n) as [E|E]; [destruct (HC E)|lia]).
      destruct (E_accept_prefix t p HE Hlt H32 Hns) as (E & HE' & Hf). rewrite E.
      eexists. split; [reflexivity|]. split; [apply Erel_Sim; split; [assumption|reflexivity]|].
      intros Hb. rewrite (Hf Hb). auto.
    - rewrite !pp_accept_prefix. eexists. split; [reflexivity|]. split.
      + right. apply Prel_intro; [rewrite accept_prefix_inp; assumption|apply J_accept_prefix; assumption].
      + intros Hb. destruct (accept_prefix tau p) as [b y] eqn:A. cbn [fst snd] in *. subst b.
        apply accept_prefix_false in A. subst y. auto.
  Qed.

  Lemma S_peek_eqb (C : Prop) t t' x : SimB C t t' -> (C -> bv0 <> x /\ 32%Z <> x) ->
    (peek t' =? x)%Z = (peek t =? x)%Z.
  Proof.
    intros [[[HE ->] HC]|(tau & O & Hi & HJ & -> & ->)] Hcond.
    - destruct (Nat.lt_ge_cases (pos t) n) as [Hlt|Hge].
      + destruct (E_peek_in t HE Hlt) as (-> & _). reflexivity.
      + assert (Hp : pos t = n) by (destruct HE as (_ & ? & _); lia).
        destruct (Hcond (HC Hp)) as [M1 M2]. destruct (E_peek_bd t HE Hp) as [-> ->].
        apply Z.eqb_neq in M1, M2. congruence.
    - rewrite !pp_peek. reflexivity.
  Qed.

  (** a test that hits in run 1 was not made at the gap *)
  Lemma SimB_hit (C : Prop) t t' x : SimB C t t' -> (C -> bv0 <> x) -> peek t = x -> SimL t t'.
  Proof.
    intros [[[HE ->] HC]|H] Hcond Hpk; [|right; exact H].
    left. split; [split; [assumption|reflexivity]|]. intros Hp.
    destruct (E_peek_bd t HE Hp) as [P1 _]. apply (Hcond (HC Hp)). congruence.
  Qed.

  (** an opening or closing bracket *)
  Lemma S_bracket t t' ty : SimL t t' -> Sim (emit (snd (next t)) ty) (emit (snd (next t')) ty).
  Proof.
    intros [[[HE ->] HC]|(tau & O & Hi & HJ & -> & ->)].
    - assert (Hlt : pos t < n) by (destruct HE as (_ & Hp & _); destruct (Nat.eq_dec (pos t) n) as [E|E]; [destruct (HC E)|lia]).
      destruct (E_next_in t HE Hlt) as (N1 & N2 & N3). rewrite N1, N2. cbn [snd].
      apply S_emit, Erel_Sim. split; [assumption|reflexivity].
    - rewrite !pp_next by assumption. cbn [snd]. apply S_emit. right.
      apply Prel_intro; [rewrite next_inp; assumption|apply J_next; assumption].
  Qed.

  Lemma S_not_at_end t t' : Sim t t' -> (pos t' <? length (inp t')) = (pos t <? length (inp t)).
  Proof.
    intros [[[HE ->] _]|(tau & O & Hi & HJ & -> & ->)].
    - destruct HE as (Hi & Hp & _). cbn [te inp pos]. rewrite Hi, len_A1, len_A2.
      destruct (Nat.ltb_spec (pos t) (n + d + S (length v))); destruct (Nat.ltb_spec (pos t) (n + S (length v))); auto; lia.
    - rewrite !pp_not_at_end. reflexivity.
  Qed.

  (* ---------------------------------------------------------------------------------------- *)
  (** ** state functions in phase P *)
  Variable F : nat.
  Hypothesis HF : length bA2 < F.

  Lemma HF1 : length bA1 < F.
  Proof. rewrite len_A1. rewrite len_A2 in HF. lia. Qed.
  Lemma HFv : length bv1 < F.
  Proof. rewrite len_v1. rewrite len_A2 in HF. lia. Qed.

  Lemma P_step (f : sc -> lres sc) :
    (forall pre t, J t -> csim pre (f t) (f (csh pre t))) ->
    (forall O t, ScannerShift.lsim [] 0 [] O (f t) (f (fr O t))) ->
    (forall tau, inp tau = bv1 -> post bv1 0 (f tau)) ->
    forall t t', Prel t t' -> lsimS Prel (f t) (f t').
  Proof.
    intros Hc Hs Hp t t' (tau & O & Hi & HJ & -> & ->).
    pose proof (pstep f Hc Hs u (u ++ w) O tau HJ) as H. rewrite Hi in H. specialize (H (Hp tau Hi)).
    unfold lsimS. destruct (f (pp u O tau)) as [a1| | |]; auto.
    destruct H as (a & Ia & Ja & -> & E2). exists (pp (u ++ w) O a).
    split; [exact E2|apply Prel_intro; assumption].
  Qed.

  Lemma at0 tau : inp tau = bv1 -> at_ bv1 0 tau.
  Proof. intros H. split; [assumption|lia]. Qed.

  Lemma P_ignore_run c t t' : mem_z 0 c = false -> Prel t t' ->
    lsimS Prel (ignore_run F t c) (ignore_run F t' c).
  Proof.
    intros Hc. apply (P_step (fun s => ignore_run F s c)).
    - intros. apply csh_ignore_run. assumption.
    - intros. apply sh_ignore_run.
    - intros tau Hi. apply ignore_run_post; [assumption|apply HFv|apply at0, Hi].
  Qed.

  Lemma P_lex_identifier t t' : Prel t t' -> lsimS Prel (lex_identifier F t) (lex_identifier F t').
  Proof.
    apply (P_step (lex_identifier F)).
    - intros. apply csh_lex_identifier. assumption.
    - intros. apply sh_lex_identifier.
    - intros tau Hi. apply lex_identifier_post; [apply HFv|apply at0, Hi].
  Qed.

  Lemma P_lex_opcode_index t t' : Prel t t' -> lsimS Prel (lex_opcode_index F t) (lex_opcode_index F t').
  Proof.
    apply (P_step (lex_opcode_index F)).
    - intros. apply csh_lex_opcode_index. assumption.
    - intros. apply sh_lex_opcode_index.
    - intros tau Hi. apply lex_opcode_index_post; [apply HFv|apply at0, Hi].
  Qed.

  Lemma P_lex_initial lx t t' : Prel t t' -> lsimS Prel (lex_initial lx F t) (lex_initial lx F t').
  Proof.
    apply (P_step (lex_initial lx F)).
    - intros. apply csh_lex_initial. assumption.
    - intros. apply sh_lex_initial.
    - intros tau Hi. apply lex_initial_post; [apply HFv|apply at0, Hi].
  Qed.

  (** lex_number is entered just after a digit *)
  Lemma P_lex_number t t' : PrelN t t' -> lsimS Prel (lex_number F t) (lex_number F t').
  Proof.
    intros (tau & O & q & Hi & HJ & Hq & Hlt & -> & ->).
    pose proof (pstep (lex_number F) (fun pre x => csh_lex_number pre F x) (fun O x => sh_lex_number [] 0 [] O F x)
                      u (u ++ w) O tau HJ) as H.
    rewrite Hi in H.
    assert (Hp : post bv1 0 (lex_number F tau)).
    { eapply post_weaken; [apply (lex_number_post F tau bv1 q); auto; apply HFv|lia]. }
    specialize (H Hp). unfold lsimS. destruct (lex_number F (pp u O tau)) as [a1| | |]; auto.
    destruct H as (a & Ia & Ja & -> & E2). exists (pp (u ++ w) O a).
    split; [exact E2|apply Prel_intro; assumption].
  Qed.

  (* ---------------------------------------------------------------------------------------- *)
  (** ** a run of blanks: the switch from E to P *)

  Lemma to_gap c (s B : sc) k : mem_z 0 c = false -> length (inp s) < F -> pos s + k <= length (inp s) ->
    (forall i, i < k -> mem_z (nth (pos s + i) (inp s) 0%Z) c = true /\ nth (pos s + i) (inp s) 0%Z <> 10%Z) ->
    (exists x, B = set_start (set_pos s (pos s + k)) x) ->
    ignore_run F s c = ignore_run F B c.
  Proof.
    intros Hc Hlen Hk Hin [x ->].
    assert (P : post (inp s) 0 (ignore_run F s c)).
    { apply ignore_run_post; [assumption|assumption|split; [reflexivity|lia]]. }
    assert (E : ignore_run F s c = ignore_run (F - k) (set_start (set_pos s (pos s + k)) x) c).
    { rewrite ignore_run_set_start. unfold ignore_run at 1.
      replace F with (k + (F - k)) at 1 by lia. rewrite accept_run_skip by assumption. reflexivity. }
    destruct (ignore_run_mono c (F - k) F (set_start (set_pos s (pos s + k)) x)) as [Eo|Em]; [lia| |].
    - rewrite Eo in E. rewrite E in P. destruct P.
    - rewrite Em. exact E.
  Qed.

  (** run 1 at the gap, and run 2 after the inserted spaces, as transplants of the initial state
      over [v ++ "\n"] *)
  Definition tau0 (file : str) : sc := mk_sc bv1 0 0 0 0 [] [] file.
  Lemma J_tau0 file : J (tau0 file).
  Proof. split; reflexivity. Qed.

  Lemma E_to_gap c t : Ein t -> mem_z 0 c = false ->
    (forall i, pos t <= i < n -> mem_z (nth i u 0%Z) c = true) ->
    ignore_run F t c = ignore_run F (pp u (toks_rev t) (tau0 (fname t))) c.
  Proof.
    intros (Hi & Hp & Hl & Hc & Hls) H0 Hin.
    apply (to_gap c t _ (n - pos t)); [assumption|rewrite Hi; apply HF1|rewrite Hi, len_A1; lia| |].
    - intros i Hk. rewrite Hi, A1_in by lia. split; [apply Hin; lia|apply u_nonl; lia].
    - exists n. destruct t as [ti tp ts tl tc tls tt tf]. cbn in *. subst ti tl tc tls.
      unfold pp, fr, sh, csh, tau0, set_start, set_pos. cbn. f_equal; lia.
  Qed.

  Lemma E_to_gap2 c t : Ein t -> mem_z 0 c = false -> mem_z 32 c = true ->
    (forall i, pos t <= i < n -> mem_z (nth i u 0%Z) c = true) ->
    ignore_run F (te t) c = ignore_run F (pp (u ++ w) (toks_rev t) (tau0 (fname t))) c.
  Proof.
    intros (Hi & Hp & Hl & Hc & Hls) H0 H32 Hin.
    apply (to_gap c (te t) _ (n + d - pos t)); [assumption|apply HF|cbn [te inp pos]; rewrite len_A2; lia| |].
    - intros i Hk. cbn [te inp pos]. destruct (Nat.lt_ge_cases (pos t + i) n) as [Hlt|Hge].
      + rewrite A2_in by lia. split; [apply Hin; lia|apply u_nonl; lia].
      + replace (pos t + i) with (n + (pos t + i - n)) by lia. rewrite A2_w by lia. split; [assumption|discriminate].
    - exists (n + d). destruct t as [ti tp ts tl tc tls tt tf]. cbn in *. subst ti tl tc tls.
      unfold pp, fr, sh, csh, tau0, te, set_start, set_pos. cbn. rewrite ?app_length. f_equal; lia.
  Qed.

  (** after a run of blanks: still inside [u], or shifted *)
  Definition SimI (c : str) (t a a' : sc) : Prop :=
    (Erel a a' /\ pos a < n /\ start a = pos a /\ pos t <= pos a /\
     (forall i, pos t <= i < pos a -> mem_z (nth i u 0%Z) c = true)) \/ Prel a a'.
  Lemma SimI_SimL c t a a' : SimI c t a a' -> SimL a a'.
  Proof. intros [(H1 & H2 & _)|H]; [left; split; [assumption|lia]|right; exact H]. Qed.

  Lemma E_ignore_run c t : mem_z 0 c = false -> mem_z 32 c = true -> Ein t ->
    lsimS (SimI c t) (ignore_run F t c) (ignore_run F (te t) c).
  Proof.
    intros H0 H32 HE.
    pose proof HE as (Hi & Hp & _). pose proof HF as HF'. rewrite len_A2 in HF'.
    destruct (first_stop c bA1 (n - pos t) (pos t)) as (q & Hq & Hin & Hout).
    assert (Hinu : forall i, pos t <= i < q -> mem_z (nth i u 0%Z) c = true).
    { intros i Hi'. rewrite <- A1_in by lia. apply Hin. assumption. }
    destruct (Nat.lt_ge_cases q n) as [Hlt|Hge].
    - destruct Hout as [Hout|Hout]; [lia|].
      assert (R1 : accept_run F t c false = LOk (set_pos t q)).
      { apply accept_run_stretch_nl; rewrite ?Hi, ?len_A1; auto; try lia.
        intros i Hi'. rewrite A1_in by lia. split; [apply Hinu; assumption|apply u_nonl; lia]. }
      assert (R2 : accept_run F (te t) c false = LOk (set_pos (te t) q)).
      { apply accept_run_stretch_nl; cbn [te inp pos]; rewrite ?len_A2; auto; try lia.
        - intros i Hi'. rewrite A2_in by lia. split; [apply Hinu; assumption|apply u_nonl; lia].
        - rewrite A2_in by lia. rewrite <- A1_in by lia. exact Hout. }
      unfold ignore_run. rewrite R1, R2. cbn [lbind lsimS]. eexists. split; [reflexivity|].
      left. split; [split; [apply Ein_ignore, Ein_set_pos; [assumption|lia]|reflexivity]|].
      cbn. repeat split; auto; lia.
    - assert (q = n) by lia. subst q.
      rewrite (E_to_gap c t HE H0 Hinu), (E_to_gap2 c t HE H0 H32 Hinu).
      eapply lsimS_weaken; [apply P_ignore_run; [assumption|]|intros a a' H; right; exact H].
      apply Prel_intro; [reflexivity|apply J_tau0].
  Qed.

  Lemma S_ignore_run c t t' : mem_z 0 c = false -> mem_z 32 c = true -> Sim t t' ->
    lsimS (SimI c t) (ignore_run F t c) (ignore_run F t' c).
  Proof.
    intros H0 H32 [[[HE ->] _]|HP]; [apply E_ignore_run; assumption|].
    eapply lsimS_weaken; [apply P_ignore_run; assumption|]. intros a a' H. right. exact H.
  Qed.

  (* ---------------------------------------------------------------------------------------- *)
  (** ** the gap conditions *)
  Variable lx : lexicon.
  Hypothesis Hlx : lexicon_alpha lx = true.
  (** the character before the gap *)
  Definition blu : Z := nth (n - 1) u 0%Z.
  Hypothesis Hq39 : ~ In 39%Z u.
  Hypothesis Hsc59 : ~ In 59%Z u.
  Hypothesis Hsl : forall i, S i < n -> ~ (nth i u 0%Z = 47%Z /\ nth (S i) u 0%Z = 42%Z).
  Hypothesis HV0 : bv0 <> 0%Z.
  Hypothesis GID : 1 <= n -> mem_z blu ident_chars = true ->
    mem_z bv0 ident_chars = false /\ bv0 <> 58%Z /\ bv0 <> 46%Z.
  Hypothesis GDOT : 1 <= n -> blu <> 46%Z.
  Hypothesis GPAIR : 1 <= n -> bad_pair blu bv0 = false.
  Hypothesis GM : 3 <= n -> mem_str (map lower (slice u (n - 3) n)) (lx_mnemonics lx) = true ->
    bv0 = 32%Z \/ bv0 = 9%Z.
  Hypothesis GIX : 2 <= n -> mem_z blu index_chars = true ->
    (nth (n - 2) u 0%Z = 44%Z \/ nth (n - 2) u 0%Z = 32%Z) -> bv0 <> 41%Z /\ bv0 <> 93%Z.

  (** the last character of [u] is an identifier character *)
  Definition lastI : Prop := 1 <= n /\ mem_z blu ident_chars = true.

  Lemma lastI_at q : S q = n -> mem_z (nth q u 0%Z) ident_chars = true -> lastI.
  Proof. intros Hq H. split; [lia|]. unfold blu. replace (n - 1) with q by lia. exact H. Qed.

  Lemma nostr1 a : nostr [a].
  Proof. intros x Hx Hgt. cbn in Hgt. lia. Qed.

  Lemma nostr2 a b : bad_pair a b = true -> nostr [a; b].
  Proof.
    intros Hb x Hx Hgt. cbn [length] in *. assert (x = n - 1) by lia. subst x.
    destruct (str_eqb (slice bA1 (n - 1) (n - 1 + 2)) [a; b]) eqn:E; [|reflexivity]. exfalso.
    apply str_eqb_true in E.
    assert (E0 : nth 0 (slice bA1 (n - 1) (n - 1 + 2)) 0%Z = a) by (rewrite E; reflexivity).
    assert (E1 : nth 1 (slice bA1 (n - 1) (n - 1 + 2)) 0%Z = b) by (rewrite E; reflexivity).
    rewrite nth_slice in E0, E1 by lia.
    rewrite Nat.add_0_r, A1_in in E0 by lia. replace (n - 1 + 1) with n in E1 by lia. rewrite A1_n in E1.
    assert (G : bad_pair blu bv0 = false) by (apply GPAIR; lia).
    unfold blu in G. rewrite E0, E1, Hb in G. discriminate.
  Qed.

  (** a run over identifier characters stops at the gap at the latest, in both runs *)
  Lemma E_run c t : sub c ident_chars = true -> Ein t -> (pos t = n -> lastI) ->
    exists q, pos t <= q <= n /\ accept_run F t c false = LOk (set_pos t q) /\
              accept_run F (te t) c false = LOk (te (set_pos t q)) /\ (q = n -> lastI) /\
              (forall i, pos t <= i < q -> mem_z (nth i u 0%Z) c = true).
  Proof.
    intros Hsub HE Hlast. pose proof HE as (Hi & Hp & _). pose proof HF as HF'. rewrite len_A2 in HF'.
    destruct (first_stop c bA1 (n - pos t) (pos t)) as (q & Hq & Hin & Hout).
    assert (Hinu : forall i, pos t <= i < q -> mem_z (nth i u 0%Z) c = true).
    { intros i Hi'. rewrite <- A1_in by lia. apply Hin. assumption. }
    assert (HL : q = n -> lastI).
    { intros ->. destruct (Nat.eq_dec (pos t) n) as [E|E]; [auto|].
      apply (lastI_at (n - 1)); [lia|]. apply (sub_mem c); [assumption|apply Hinu; lia]. }
    assert (Hstop : mem_z (nth q bA1 0%Z) c = false /\ mem_z (nth q bA2 0%Z) c = false).
    { destruct (Nat.lt_ge_cases q n) as [Hlt|Hge].
      - destruct Hout as [Hout|Hout]; [lia|]. split; [exact Hout|]. rewrite A2_in by lia. rewrite <- A1_in by lia. exact Hout.
      - assert (q = n) by lia. subst q. destruct (HL eq_refl) as [L1 L2]. destruct (GID L1 L2) as (G1 & _).
        rewrite A1_n, A2_n. split; apply (sub_not c ident_chars); auto. }
    exists q. split; [lia|]. split; [|split; [|split; assumption]].
    - apply accept_run_stretch_nl; rewrite ?Hi, ?len_A1; auto; try lia; [|apply Hstop].
      intros i Hi'. rewrite A1_in by lia. split; [apply Hinu; assumption|apply u_nonl; lia].
    - change (te (set_pos t q)) with (set_pos (te t) q).
      apply accept_run_stretch_nl; cbn [te inp pos]; rewrite ?len_A2; auto; try lia; [|apply Hstop].
      intros i Hi'. rewrite A2_in by lia. split; [apply Hinu; assumption|apply u_nonl; lia].
  Qed.

  Lemma Erel_intro t : Ein t -> Erel t (te t).
  Proof. intros H. split; [assumption|reflexivity]. Qed.

  Lemma E_emit_ok t ty : Ein t -> lsimS Erel (LOk (emit t ty)) (LOk (emit (te t) ty)).
  Proof. intros HE. rewrite E_emit by assumption. apply lsimS_ok, Erel_intro, Ein_emit, HE. Qed.

  Lemma E_lex_identifier t : Ein t -> (pos t = n -> lastI) ->
    lsimS Erel (lex_identifier F t) (lex_identifier F (te t)).
  Proof.
    intros HE Hlast. unfold lex_identifier.
    destruct (E_run ident_chars t eq_refl HE Hlast) as (q & Hq & R1 & R2 & HL & Hin). rewrite R1, R2. cbn [lbind].
    set (a := set_pos t q). assert (Ha : Ein a) by (apply Ein_set_pos; [assumption|lia]).
    assert (Hpa : pos a = q) by reflexivity.
    destruct (Nat.lt_ge_cases q n) as [Hlt|Hge].
    - destruct (E_peek_in a Ha Hlt) as (P1 & P2 & P3). rewrite P1.
      destruct (E_next_in a Ha Hlt) as (N1 & N2 & N3).
      assert (ELSE : lsimS Erel
        (dol s2 <- (if (peek a =? 46)%Z then accept_run F (snd (next a)) ident_chars false else LOk a); LOk (emit s2 T_IDENTIFIER))
        (dol s2 <- (if (peek a =? 46)%Z then accept_run F (snd (next (te a))) ident_chars false else LOk (te a)); LOk (emit s2 T_IDENTIFIER))).
      { destruct (peek a =? 46)%Z eqn:P46; [|cbn [lbind]; apply E_emit_ok; assumption].
        rewrite N1, N2. cbn [snd]. apply Z.eqb_eq in P46.
        destruct (E_run ident_chars (set_pos a (S (pos a))) eq_refl N3) as (q2 & Hq2 & S1 & S2 & _).
        { cbn [set_pos pos]. intros E. exfalso. apply (GDOT ltac:(lia)). unfold blu.
          replace (n - 1) with (pos a) by lia. rewrite <- P2. exact P46. }
        rewrite S1, S2. cbn [lbind]. apply E_emit_ok. apply Ein_set_pos; [assumption|lia]. }
      destruct (peek a =? 58)%Z eqn:P58; [|exact ELSE]. apply Z.eqb_eq in P58.
      assert (K : (peek_k (te a) 1 =? 61)%Z = (peek_k a 1 =? 61)%Z).
      { destruct (Nat.lt_ge_cases (pos a + 1) n) as [H1|H1].
        - destruct (E_peek_k_in a 1 Ha H1) as [-> _]. reflexivity.
        - unfold peek_k. cbn [te inp pos]. destruct Ha as (Hi & _). rewrite Hi.
          replace (pos a + 1) with n by lia. rewrite A1_n, A2_n.
          assert (G : bad_pair blu bv0 = false) by (apply GPAIR; lia).
          unfold blu in G. replace (n - 1) with (pos a) in G by lia. rewrite <- P2, P58 in G.
          destruct (Z.eqb_spec bv0 61) as [E|E]; [rewrite E in G; discriminate|reflexivity]. }
      rewrite K. cbn [andb]. destruct (negb (peek_k a 1 =? 61)%Z); [|exact ELSE].
      rewrite E_emit by assumption.
      assert (He : Ein (emit a T_LABEL)) by (apply Ein_emit; assumption).
      destruct (E_next_in (emit a T_LABEL) He Hlt) as (M1 & M2 & M3). rewrite M1, M2. cbn [snd].
      rewrite te_ignore. apply lsimS_ok, Erel_intro, Ein_ignore, M3.
    - assert (Hqn : q = n) by lia. destruct (HL Hqn) as [L1 L2]. destruct (GID L1 L2) as (G1 & G2 & G3).
      destruct (E_peek_bd a Ha) as [P1 P2]; [lia|]. rewrite P1, P2.
      apply Z.eqb_neq in G2, G3. rewrite G2, G3. cbn [andb lbind]. apply E_emit_ok. assumption.
  Qed.

  Lemma set_pos_back s p : pos s = p -> set_pos (set_pos s (S p)) p = s.
  Proof. intros <-. destruct s; reflexivity. Qed.

  Lemma E_lex_number t q : Ein t -> pos t = S q -> mem_z (nth q u 0%Z) digits = true ->
    lsimS Erel (lex_number F t) (lex_number F (te t)).
  Proof.
    intros HE Hq Hdig. pose proof HE as (Hi & Hp & _).
    unfold lex_number, backup. change (pos (te t)) with (pos t). rewrite Hq. cbn [lbind].
    rewrite te_set_pos.
    assert (Hu0 : Ein (set_pos t q)) by (apply Ein_set_pos; [assumption|lia]).
    assert (Hlt : pos (set_pos t q) < n) by (cbn; lia).
    destruct (E_next_in (set_pos t q) Hu0 Hlt) as (N1 & N2 & N3). rewrite N1, N2.
    destruct (E_peek_in (set_pos t q) Hu0 Hlt) as (_ & Pch & _). cbn [set_pos pos] in Pch.
    set (ch := peek (set_pos t q)) in *. set (s1 := set_pos (set_pos t q) (S (pos (set_pos t q)))) in *.
    assert (Hp1 : pos s1 = S q) by reflexivity.
    assert (Hid : mem_z (nth q u 0%Z) ident_chars = true) by (apply (sub_mem digits); [reflexivity|assumption]).
    destruct (Nat.lt_ge_cases (S q) n) as [Hin|Hbd].
    - assert (Hlt1 : pos s1 < n) by lia.
      destruct (E_peek_in s1 N3 Hlt1) as (E1 & E2 & _). rewrite E1.
      destruct ((peek s1 =? 10)%Z || (peek s1 =? 0)%Z); [apply E_emit_ok; assumption|].
      assert (RUN : forall c x, sub c ident_chars = true -> Ein x -> (pos x = n -> lastI) ->
                lsimS Erel (dol s2 <- accept_run F x c false; LOk (emit s2 T_NUMBER))
                           (dol s2 <- accept_run F (te x) c false; LOk (emit s2 T_NUMBER))).
      { intros c x Hc Hx Hl. destruct (E_run c x Hc Hx Hl) as (q2 & Hq2 & S1 & S2 & _). rewrite S1, S2. cbn [lbind].
        apply E_emit_ok. apply Ein_set_pos; [assumption|lia]. }
      destruct (oz_is (Some ch) 48); [|apply RUN; [reflexivity|assumption|lia]].
      destruct (E_next_in s1 N3 Hlt1) as (M1 & M2 & M3). rewrite M1, M2.
      assert (HL2 : forall x, peek s1 = x -> mem_z x ident_chars = true -> pos (set_pos s1 (S (pos s1))) = n -> lastI).
      { intros x Hx Hm E. cbn [set_pos pos] in E. apply (lastI_at (S q)); [lia|]. rewrite <- Hp1, <- E2, Hx. exact Hm. }
      destruct (oz_is (Some (peek s1)) 98) eqn:B1.
      { apply Z.eqb_eq in B1. apply RUN; [reflexivity|assumption|apply (HL2 98%Z); [assumption|reflexivity]]. }
      destruct (oz_is (Some (peek s1)) 111) eqn:B2.
      { apply Z.eqb_eq in B2. apply RUN; [reflexivity|assumption|apply (HL2 111%Z); [assumption|reflexivity]]. }
      destruct (oz_is (Some (peek s1)) 120) eqn:B3.
      { apply Z.eqb_eq in B3. apply RUN; [reflexivity|assumption|apply (HL2 120%Z); [assumption|reflexivity]]. }
      unfold backup. cbn [te set_pos pos lbind]. apply E_emit_ok. apply Ein_set_pos; [assumption|lia].
    - assert (Hp1n : pos s1 = n) by lia.
      assert (HL : lastI) by (apply (lastI_at q); [lia|assumption]).
      destruct HL as [L1 L2]. destruct (GID L1 L2) as (G1 & G2 & G3).
      destruct (E_peek_bd s1 N3 Hp1n) as [P1 P2]. rewrite P1, P2.
      pose proof v0_ne10 as V10. apply Z.eqb_neq in V10. pose proof HV0 as V0. apply Z.eqb_neq in V0.
      rewrite V10, V0. cbn [Z.eqb orb].
      assert (RUNn : forall c, sub c ident_chars = true ->
                lsimS Erel (dol s2 <- accept_run F s1 c false; LOk (emit s2 T_NUMBER))
                           (dol s2 <- accept_run F (te s1) c false; LOk (emit s2 T_NUMBER))).
      { intros c Hc. destruct (E_run c s1 Hc N3) as (q2 & Hq2 & S1 & S2 & _); [intros _; split; assumption|].
        rewrite S1, S2. cbn [lbind]. apply E_emit_ok. apply Ein_set_pos; [assumption|lia]. }
      destruct (oz_is (Some ch) 48); [|apply RUNn; reflexivity].
      assert (NX1 : next s1 = (Some bv0, set_pos s1 (S n))).
      { rewrite <- P1, peek_nth, <- Hp1n. apply next_plain.
        - destruct N3 as (Hi1 & _). rewrite Hi1, len_A1. lia.
        - rewrite <- peek_nth, P1. apply v0_ne10. }
      assert (NX2 : next (te s1) = (Some 32%Z, set_pos (te s1) (S n))).
      { rewrite <- P2, peek_nth. replace (S n) with (S (pos (te s1))) by (cbn [te pos]; lia). apply next_plain.
        - cbn [te inp pos]. rewrite len_A2. lia.
        - rewrite <- peek_nth, P2. discriminate. }
      rewrite NX1, NX2.
      assert (B : forall x, mem_z x ident_chars = true -> oz_is (Some bv0) x = false).
      { intros x Hx. unfold oz_is. destruct (Z.eqb_spec bv0 x) as [E|E]; [|reflexivity]. rewrite E, Hx in G1. discriminate. }
      rewrite (B 98%Z eq_refl), (B 111%Z eq_refl), (B 120%Z eq_refl). cbn [oz_is Z.eqb].
      unfold backup. cbn [set_pos pos lbind].
      rewrite (set_pos_back s1 n Hp1n).
      assert (E2 : set_pos (set_pos (te s1) (S n)) n = te s1) by (apply set_pos_back; cbn [te pos]; assumption).
      rewrite E2. apply E_emit_ok. assumption.
  Qed.

  Lemma E_lex_keyword t : Ein t -> pos t < n -> lsimS Erel (lex_keyword F lx t) (lex_keyword F lx (te t)).
  Proof.
    intros HE Hlt. unfold lex_keyword. rewrite te_ignore.
    destruct (E_run kw_chars (ignore t) eq_refl (Ein_ignore t HE)) as (q & Hq & R1 & R2 & _).
    { cbn [ignore pos]. lia. }
    rewrite R1, R2. cbn [lbind].
    assert (Ha : Ein (set_pos (ignore t) q)) by (apply Ein_set_pos; [apply Ein_ignore; assumption|lia]).
    rewrite (E_ctt _ Ha). destruct (mem_str (current_token_text _) (lx_keywords lx)); [apply E_emit_ok; assumption|exact I].
  Qed.

  (* ---------------------------------------------------------------------------------------- *)
  (** ** the operand lexers, from either phase *)

  Lemma Erel_SimB (C : Prop) t t' : Erel t t' -> (pos t = n -> C) -> SimB C t t'.
  Proof. intros H1 H2. left. auto. Qed.
  Lemma Prel_Sim t t' : Prel t t' -> Sim t t'.
  Proof. intros H. right. exact H. Qed.
  Lemma SimL_Sim t t' : SimL t t' -> Sim t t'.
  Proof. apply SimB_Sim. Qed.

  Lemma S_lex_number t t' y y' : SimA digits t t' y y' -> lsimS Sim (lex_number F y) (lex_number F y').
  Proof.
    intros [(_ & [HE ->] & Hp & Hlt & Hm)|[_ HP]].
    - eapply lsimS_weaken; [apply (E_lex_number y (pos t)); assumption|intros a a' H; apply Erel_Sim, H].
    - eapply lsimS_weaken; [apply P_lex_number; assumption|intros a a' H; right; exact H].
  Qed.

  Lemma S_lex_identifier t t' y y' : SimA ident_start t t' y y' ->
    lsimS Sim (lex_identifier F y) (lex_identifier F y').
  Proof.
    intros [(_ & [HE ->] & Hp & Hlt & Hm)|[_ HP]].
    - eapply lsimS_weaken; [apply (E_lex_identifier y HE)|intros a a' H; apply Erel_Sim, H].
      intros E. apply (lastI_at (pos t)); [lia|]. apply (sub_mem ident_start); [reflexivity|assumption].
    - eapply lsimS_weaken; [apply P_lex_identifier, PrelN_Prel; assumption|intros a a' H; right; exact H].
  Qed.

  Ltac stepS H0 A Ht :=
    match goal with
    | |- lsimS _ (let '(b, s1) := accept ?s ?cc false in _) (let '(b, s1) := accept ?s' ?cc false in _) =>
      let y' := fresh "y'" in let E := fresh "E" in let Hf := fresh "Hf" in let y := fresh "y" in let b := fresh "b" in
      destruct (S_accept False s s' cc eq_refl H0) as (y' & E & Ht & Hf); [intros []|]; rewrite E; clear E;
      destruct (accept s cc false) as [b y] eqn:A; cbn [fst snd] in Ht, Hf |- *; destruct b;
      [specialize (Ht eq_refl); clear Hf | destruct (Hf eq_refl) as [-> ->]; clear Ht Hf A]
    end.

  Lemma notin32 (p : str) : mem_z 32 p = false -> ~ In 32%Z p.
  Proof. intros H HI. apply mem_z_In in HI. congruence. Qed.

  (** the operators of an expression *)
  Lemma S_or3 s s' : SimL s s' ->
    exists y', accept_or (accept_or (accept s' expr_ops false) (fun s => accept_prefix s [60;60]%Z))
                         (fun s => accept_prefix s [62;62]%Z) =
               (fst (accept_or (accept_or (accept s expr_ops false) (fun s => accept_prefix s [60;60]%Z))
                               (fun s => accept_prefix s [62;62]%Z)), y') /\
      (fst (accept_or (accept_or (accept s expr_ops false) (fun s => accept_prefix s [60;60]%Z))
                      (fun s => accept_prefix s [62;62]%Z)) = true ->
       Sim (snd (accept_or (accept_or (accept s expr_ops false) (fun s => accept_prefix s [60;60]%Z))
                           (fun s => accept_prefix s [62;62]%Z))) y') /\
      (fst (accept_or (accept_or (accept s expr_ops false) (fun s => accept_prefix s [60;60]%Z))
                      (fun s => accept_prefix s [62;62]%Z)) = false ->
       snd (accept_or (accept_or (accept s expr_ops false) (fun s => accept_prefix s [60;60]%Z))
                      (fun s => accept_prefix s [62;62]%Z)) = s /\ y' = s').
  Proof.
    intros H0. unfold accept_or.
    destruct (S_accept False s s' expr_ops eq_refl H0) as (y1' & E1 & Ht1 & Hf1); [intros []|]. rewrite E1.
    destruct (accept s expr_ops false) as [b1 y1] eqn:A1. cbn [fst snd] in *. destruct b1; cbn [fst snd].
    { exists y1'. split; [reflexivity|]. split; [intros _; eapply SimA_Sim; eauto|discriminate]. }
    destruct (Hf1 eq_refl) as [-> ->].
    destruct (S_accept_prefix s s' [60;60]%Z H0 (notin32 [60;60]%Z eq_refl) (nostr2 60%Z 60%Z eq_refl)) as (y2' & E2 & Ht2 & Hf2). rewrite E2.
    destruct (accept_prefix s [60;60]%Z) as [b2 y2] eqn:A2. cbn [fst snd] in *. destruct b2; cbn [fst snd].
    { exists y2'. split; [reflexivity|]. split; [auto|discriminate]. }
    destruct (Hf2 eq_refl) as [-> ->].
    destruct (S_accept_prefix s s' [62;62]%Z H0 (notin32 [62;62]%Z eq_refl) (nostr2 62%Z 62%Z eq_refl)) as (y3' & E3 & Ht3 & Hf3). rewrite E3.
    destruct (accept_prefix s [62;62]%Z) as [b3 y3] eqn:A3. cbn [fst snd] in *. destruct b3; cbn [fst snd].
    { exists y3'. split; [reflexivity|]. split; [auto|discriminate]. }
    exists y3'. split; [reflexivity|]. split; [discriminate|auto].
  Qed.

  Lemma S_lex_expression_loop : forall f t t', Sim t t' ->
    lsimS Sim (lex_expression_loop f F t) (lex_expression_loop f F t').
  Proof.
    induction f as [|f IH]; intros t t' HS; cbn [lex_expression_loop]; [exact I|].
    rewrite (S_not_at_end t t' HS). destruct (pos t <? length (inp t)); [|apply lsimS_ok; assumption].
    eapply lsimS_bind; [apply S_ignore_run; [reflexivity|reflexivity|assumption]|].
    intros s0 s0' HI. apply SimI_SimL in HI.
    stepS HI A Ht.
    { eapply lsimS_bind; [apply (S_lex_number _ _ _ _ Ht)|]. intros; apply IH; assumption. }
    stepS HI A Ht.
    { eapply lsimS_bind; [apply (S_lex_identifier _ _ _ _ Ht)|]. intros; apply IH; assumption. }
    destruct (S_or3 s0 s0' HI) as (y' & E & Ht & Hf). rewrite E. clear E.
    destruct (accept_or _ _) as [b y]. cbn [fst snd] in *. destruct b.
    { apply IH, S_emit, Ht. reflexivity. }
    destruct (Hf eq_refl) as [-> ->]. clear Ht Hf.
    stepS HI A Ht; [apply IH, S_emit; eapply SimA_Sim; eauto|].
    stepS HI A Ht; [apply IH, S_emit; eapply SimA_Sim; eauto|].
    apply lsimS_ok, SimL_Sim, HI.
  Qed.

  (** lex_opcode_index is entered just after its comma *)
  Definition Cix : Prop := bv0 <> 41%Z /\ bv0 <> 93%Z.
  Definition SimK (t t' : sc) : Prop :=
    (Erel t t' /\ 1 <= pos t /\ nth (pos t - 1) u 0%Z = 44%Z) \/ Prel t t'.

  Lemma SimA_comma t t' y y' : SimA [44%Z] t t' y y' -> SimK y y'.
  Proof.
    intros [(_ & Ey & Hp & Hlt & Hm)|[_ HP]]; [|right; apply PrelN_Prel, HP].
    left. split; [assumption|]. split; [lia|]. replace (pos y - 1) with (pos t) by lia. apply mem1. assumption.
  Qed.

  Lemma S_lex_opcode_index t t' : SimK t t' -> lsimS (SimB Cix) (lex_opcode_index F t) (lex_opcode_index F t').
  Proof.
    intros [([HE ->] & H1 & H44)|HP].
    2:{ eapply lsimS_weaken; [apply P_lex_opcode_index; assumption|intros a a' H; right; exact H]. }
    unfold lex_opcode_index. rewrite te_ignore.
    eapply lsimS_bind; [apply E_ignore_run; [reflexivity|reflexivity|apply Ein_ignore; assumption]|].
    intros a a' HI. pose proof (SimI_SimL _ _ _ _ HI) as HL.
    stepS HL A Ht; [|exact I].
    apply lsimS_ok. destruct Ht as [(Ea & [HEy ->] & Hpy & Hpa & Hm)|[Pa HPy]].
    - rewrite E_emit by assumption. apply Erel_SimB; [apply Erel_intro, Ein_emit; assumption|].
      cbn [emit pos]. intros Hn.
      destruct HI as [(_ & _ & Hst & Hle & Hsp)|HPa]; [|exfalso; eapply EP_excl; eauto].
      cbn [ignore pos] in Hle, Hsp.
      apply GIX; [lia| |].
      + unfold blu. replace (n - 1) with (pos a) by lia. exact Hm.
      + replace (n - 2) with (pos a - 1) by lia.
        destruct (Nat.eq_dec (pos a) (pos t)) as [E|E]; [left; rewrite E; exact H44|].
        right. apply mem1, Hsp. lia.
    - right. apply PrelN_Prel in HPy. destruct HPy as (tau & O & Hi & HJ & -> & ->).
      rewrite !pp_emit by assumption. apply Prel_intro; [assumption|apply J_emit; assumption].
  Qed.

  (** lex_operand *)
  Definition operand_rest (s6 : sc) : lres sc :=
    let p := peek s6 in
    let s7 := if (p =? 41)%Z then emit (snd (next s6)) T_RPAREN
              else if (p =? 93)%Z then emit (snd (next s6)) T_RBRAKET
              else s6 in
    dol s8 <- ignore_run F s7 [32%Z];
    let '(b, s9) := accept s8 [44%Z] false in
    if b then lex_opcode_index F s9 else LOk s9.

  Lemma S_operand_rest s6 s6' : SimB Cix s6 s6' -> lsimS Sim (operand_rest s6) (operand_rest s6').
  Proof.
    intros H6. unfold operand_rest. cbv zeta.
    assert (C1 : Cix -> bv0 <> 41%Z /\ 32%Z <> 41%Z) by (intros [? ?]; split; [assumption|discriminate]).
    assert (C2 : Cix -> bv0 <> 93%Z /\ 32%Z <> 93%Z) by (intros [? ?]; split; [assumption|discriminate]).
    rewrite (S_peek_eqb Cix s6 s6' 41%Z H6 C1), (S_peek_eqb Cix s6 s6' 93%Z H6 C2).
    assert (H7 : Sim (if (peek s6 =? 41)%Z then emit (snd (next s6)) T_RPAREN
                      else if (peek s6 =? 93)%Z then emit (snd (next s6)) T_RBRAKET else s6)
                     (if (peek s6 =? 41)%Z then emit (snd (next s6')) T_RPAREN
                      else if (peek s6 =? 93)%Z then emit (snd (next s6')) T_RBRAKET else s6')).
    { destruct (peek s6 =? 41)%Z eqn:P1.
      { apply Z.eqb_eq in P1. apply S_bracket. apply (SimB_hit Cix s6 s6' 41%Z H6); [intros [? _]; assumption|assumption]. }
      destruct (peek s6 =? 93)%Z eqn:P2.
      { apply Z.eqb_eq in P2. apply S_bracket. apply (SimB_hit Cix s6 s6' 93%Z H6); [intros [_ ?]; assumption|assumption]. }
      eapply SimB_Sim; eauto. }
    eapply lsimS_bind; [apply S_ignore_run; [reflexivity|reflexivity|exact H7]|]. clear H7 H6.
    intros s8 s8' H8. apply SimI_SimL in H8.
    stepS H8 A Ht.
    - eapply lsimS_weaken; [apply S_lex_opcode_index, (SimA_comma _ _ _ _ Ht)|intros a a' H; eapply SimB_Sim; eauto].
    - apply lsimS_ok, SimL_Sim, H8.
  Qed.

  Lemma S_lex_operand t t' : SimL t t' -> lsimS Sim (lex_operand F t) (lex_operand F t').
  Proof.
    intros HL. unfold lex_operand. cbv zeta.
    rewrite (S_peek_eqb False t t' 35%Z HL), (S_peek_eqb False t t' 40%Z HL), (S_peek_eqb False t t' 91%Z HL)
      by (intros []).
    assert (H1 : Sim (if (peek t =? 35)%Z then emit (snd (next t)) T_SHARP
                      else if (peek t =? 40)%Z then emit (snd (next t)) T_LPAREN
                      else if (peek t =? 91)%Z then emit (snd (next t)) T_LBRAKET else t)
                     (if (peek t =? 35)%Z then emit (snd (next t')) T_SHARP
                      else if (peek t =? 40)%Z then emit (snd (next t')) T_LPAREN
                      else if (peek t =? 91)%Z then emit (snd (next t')) T_LBRAKET else t')).
    { destruct (peek t =? 35)%Z; [apply S_bracket, HL|].
      destruct (peek t =? 40)%Z; [apply S_bracket, HL|].
      destruct (peek t =? 91)%Z; [apply S_bracket, HL|apply SimL_Sim, HL]. }
    eapply lsimS_bind; [apply S_ignore_run; [reflexivity|reflexivity|exact H1]|]. clear H1.
    intros s2 s2' H2. apply SimI_SimL, SimL_Sim in H2.
    eapply lsimS_bind; [apply S_lex_expression_loop, H2|]. clear H2.
    intros s3 s3' H3.
    eapply lsimS_bind; [apply S_ignore_run; [reflexivity|reflexivity|exact H3]|]. clear H3.
    intros s4 s4' H4. apply SimI_SimL in H4.
    stepS H4 A Ht.
    - apply lsimS_bind with (Q := SimB Cix); [apply S_lex_opcode_index, (SimA_comma _ _ _ _ Ht)|].
      apply S_operand_rest.
    - apply lsimS_bind with (Q := SimB Cix); [apply lsimS_ok; eapply SimB_weaken; [exact H4|intros []]|].
      apply S_operand_rest.
  Qed.

  Lemma S_lex_opcode_size t t' : SimL t t' -> lsimS Sim (lex_opcode_size F t) (lex_opcode_size F t').
  Proof.
    intros HL. unfold lex_opcode_size. apply S_ignore in HL.
    stepS HL A Ht; [|exact I].
    eapply lsimS_bind; [apply S_ignore_run; [reflexivity|reflexivity|apply S_emit; eapply SimA_Sim; eauto]|].
    intros s4 s4' H4. apply S_lex_operand. eapply SimI_SimL; eauto.
  Qed.

  (** after "." the size suffix starts inside [u] *)
  Lemma SimA_dot t t' y y' : SimA [46%Z] t t' y y' -> SimL y y'.
  Proof.
    intros [(_ & Ey & Hp & Hlt & Hm)|[_ HP]]; [|right; apply PrelN_Prel, HP].
    left. split; [assumption|]. intros E. apply (GDOT ltac:(lia)). unfold blu.
    replace (n - 1) with (pos t) by lia. apply mem1. assumption.
  Qed.

  Lemma S_lex_opcode_tail t t' : SimB (bv0 <> 46%Z) t t' -> lsimS Sim (lex_opcode_tail F t) (lex_opcode_tail F t').
  Proof.
    intros HB. unfold lex_opcode_tail.
    destruct (S_accept (bv0 <> 46%Z) t t' [46%Z] eq_refl HB) as (y' & E & Ht & Hf).
    { intros H. split; [|reflexivity]. unfold mem_z. cbn. apply Z.eqb_neq in H. rewrite H. reflexivity. }
    rewrite E. clear E. destruct (accept t [46%Z] false) as [b y] eqn:A. cbn [fst snd] in *.
    apply lsimS_bind with (Q := Sim).
    { destruct b; [apply S_lex_opcode_size, (SimA_dot _ _ _ _ (Ht eq_refl))|].
      destruct (Hf eq_refl) as [-> ->]. apply lsimS_ok. eapply SimB_Sim; eauto. }
    intros s2 s2' H2.
    eapply lsimS_bind; [apply S_ignore_run; [reflexivity|reflexivity|exact H2]|].
    intros s3 s3' H3. apply S_lex_operand. eapply SimI_SimL; eauto.
  Qed.

  (* ---------------------------------------------------------------------------------------- *)
  (** ** mnemonics *)
  Lemma len_v_pos : 1 <= length v.
  Proof. destruct v; [congruence|cbn; lia]. Qed.

  Lemma not_letter_ident c : mem_z c ident_chars = false -> isletterb c = false.
  Proof. intros H. destruct (isletterb c) eqn:E; [|reflexivity]. rewrite (letter_ident c E) in H. discriminate. Qed.

  Lemma E_accept_opcode t : Ein t -> start t = pos t -> pos t < n ->
    accept_opcode lx (te t) = (fst (accept_opcode lx t), te (snd (accept_opcode lx t))) /\
    Ein (snd (accept_opcode lx t)) /\
    (fst (accept_opcode lx t) = true -> pos (snd (accept_opcode lx t)) = n -> bv0 = 32%Z \/ bv0 = 9%Z) /\
    (fst (accept_opcode lx t) = false -> snd (accept_opcode lx t) = t).
  Proof.
    intros HE Hst Hlt. pose proof HE as (Hi & Hp & _). pose proof len_v_pos as Lv.
    unfold accept_opcode. cbn [te inp start pos]. rewrite Hi, Hst.
    destruct (Nat.le_gt_cases (pos t + 3) n) as [Hle|Hgt].
    - rewrite slice_A1, slice_A2 by assumption.
      destruct (Nat.eq_dec (pos t + 3) n) as [Heq|Hne].
      + assert (K1 : peek_k t 3 = bv0) by (unfold peek_k; rewrite Hi, Heq; apply A1_n).
        assert (K2 : peek_k (te t) 3 = 32%Z) by (unfold peek_k; cbn [te inp pos]; rewrite Heq; apply A2_n).
        rewrite K1, K2.
        destruct (mem_str (map lower (slice u (pos t) (pos t + 3))) (lx_mnemonics lx)) eqn:M; cbn [andb].
        * assert (G : bv0 = 32%Z \/ bv0 = 9%Z).
          { apply GM; [lia|]. replace (n - 3) with (pos t) by lia. rewrite <- Heq. exact M. }
          assert (G' : mem_z bv0 [32; 10; 9; 46; 0]%Z = true) by (destruct G as [-> | ->]; reflexivity).
          rewrite G'. cbn [mem_z existsb Z.eqb orb fst snd].
          split; [reflexivity|]. split; [apply Ein_set_pos; [assumption|lia]|]. split; [auto|discriminate].
        * cbn [fst snd]. split; [reflexivity|]. split; [assumption|]. split; [discriminate|reflexivity].
      + assert (K : peek_k (te t) 3 = peek_k t 3) by (apply E_peek_k_in; [assumption|lia]).
        rewrite K. destruct (_ && _); cbn [fst snd].
        * split; [reflexivity|]. split; [apply Ein_set_pos; [assumption|lia]|]. split; [cbn; lia|discriminate].
        * split; [reflexivity|]. split; [assumption|]. split; [discriminate|reflexivity].
    - set (k := n - pos t).
      assert (M1 : mem_str (map lower (slice bA1 (pos t) (pos t + 3))) (lx_mnemonics lx) = false).
      { assert (L : length (map lower (slice bA1 (pos t) (pos t + 3))) = 3)
          by (rewrite map_length, slice_length; [lia|rewrite len_A1; lia]).
        destruct (mem_z blu ident_chars) eqn:B.
        - destruct (GID ltac:(lia) eq_refl) as (G1 & _).
          apply (not_mnemonic lx _ k Hlx); [rewrite L; subst k; lia|].
          rewrite nth_map_lower, nth_slice by (subst k; lia). replace (pos t + k) with n by (subst k; lia).
          rewrite A1_n, isletter_lower. apply not_letter_ident, G1.
        - apply (not_mnemonic lx _ (k - 1) Hlx); [rewrite L; subst k; lia|].
          rewrite nth_map_lower, nth_slice by (subst k; lia). replace (pos t + (k - 1)) with (n - 1) by (subst k; lia).
          rewrite A1_in, isletter_lower by lia. apply not_letter_ident, B. }
      assert (M2 : mem_str (map lower (slice bA2 (pos t) (pos t + 3))) (lx_mnemonics lx) = false).
      { assert (L : length (map lower (slice bA2 (pos t) (pos t + 3))) = 3)
          by (rewrite map_length, slice_length; [lia|rewrite len_A2; lia]).
        apply (not_mnemonic lx _ k Hlx); [rewrite L; subst k; lia|].
        rewrite nth_map_lower, nth_slice by (subst k; lia). replace (pos t + k) with n by (subst k; lia).
        rewrite A2_n. reflexivity. }
      rewrite M1, M2. cbn [andb fst snd]. split; [reflexivity|]. split; [assumption|]. split; [discriminate|reflexivity].
  Qed.

  Lemma A1_last : nth (n + length v) bA1 0%Z = 10%Z.
  Proof. rewrite A1_at. unfold bv1. apply nth_middle. Qed.

  Lemma E_look t s3 : Ein t -> look F t = LOk s3 ->
    exists s3', look F (te t) = LOk s3' /\ at_eol s3' = at_eol s3.
  Proof.
    intros HE L. pose proof HE as (Hi & Hp & _). pose proof HF as HF'. rewrite len_A2 in HF'.
    destruct (exists_stop [32; 9]%Z bA1 (n + length v - pos t) (pos t)) as (q1 & Hq1 & Hin1 & Hout1).
    { replace (pos t + (n + length v - pos t)) with (n + length v) by lia. rewrite A1_last. reflexivity. }
    destruct (look_test F t q1) as (r1 & R1 & T1); rewrite ?Hi, ?len_A1; auto; try lia.
    rewrite R1 in L. injection L as <-. rewrite Hi in T1.
    destruct (Nat.lt_ge_cases q1 n) as [Hlt|Hge].
    - destruct (look_test F (te t) q1) as (r2 & R2 & T2); cbn [te inp pos]; rewrite ?len_A2; auto; try lia.
      + intros i Hi'. rewrite A2_in by lia. rewrite <- A1_in by lia. apply Hin1. assumption.
      + rewrite A2_in by lia. rewrite <- A1_in by lia. exact Hout1.
      + exists r2. split; [exact R2|]. cbn [te inp] in T2. rewrite T2, T1, A2_in, A1_in by lia. reflexivity.
    - assert (EQ : nth (q1 + d) bA2 0%Z = nth q1 bA1 0%Z).
      { replace (q1 + d) with (n + d + (q1 - n)) by lia. rewrite A2_at.
        replace q1 with (n + (q1 - n)) at 2 by lia. rewrite A1_at. reflexivity. }
      destruct (look_test F (te t) (q1 + d)) as (r2 & R2 & T2); cbn [te inp pos]; rewrite ?len_A2; auto; try lia.
      + intros i Hi'. destruct (Nat.lt_ge_cases i n) as [H1|H1].
        * rewrite A2_in by lia. rewrite <- A1_in by lia. apply Hin1. lia.
        * destruct (Nat.lt_ge_cases i (n + d)) as [H2|H2].
          -- replace i with (n + (i - n)) by lia. rewrite A2_w by lia. reflexivity.
          -- replace i with (n + d + (i - n - d)) by lia. rewrite A2_at.
             rewrite <- A1_at. apply Hin1. lia.
      + rewrite EQ. exact Hout1.
      + exists r2. split; [exact R2|]. cbn [te inp] in T2. rewrite T2, T1, EQ. reflexivity.
  Qed.

  Lemma E_lex_opcode t : Ein t -> (pos t = n -> bv0 = 32%Z \/ bv0 = 9%Z) ->
    lsimS Sim (lex_opcode F lx t) (lex_opcode F lx (te t)).
  Proof.
    intros HE Hgap. pose proof HE as (Hi & Hp & _). rewrite !lex_opcode_look.
    assert (EC : slice (inp (te t)) (start (te t)) (pos (te t)) = slice (inp t) (start t) (pos t)) by (apply (E_ctt t HE)).
    rewrite EC.
    assert (C46 : (bv0 = 32%Z \/ bv0 = 9%Z) -> bv0 <> 46%Z) by (intros [-> | ->]; discriminate).
    assert (HB : SimB (bv0 = 32%Z \/ bv0 = 9%Z) t (te t)) by (apply Erel_SimB; [apply Erel_intro; assumption|assumption]).
    rewrite (S_peek_eqb _ t (te t) 46%Z HB) by (intros H; split; [auto|discriminate]).
    assert (TAIL : lsimS Sim (lex_opcode_tail F (emit t T_OPCODE)) (lex_opcode_tail F (emit (te t) T_OPCODE))).
    { rewrite E_emit by assumption. apply S_lex_opcode_tail. apply Erel_SimB; [apply Erel_intro, Ein_emit; assumption|].
      cbn [emit pos]. auto. }
    destruct (_ && _); [|exact TAIL].
    destruct (look F t) as [s3| | |] eqn:L; cbn [lbind]; try exact I.
    destruct (E_look t s3 HE L) as (s3' & L' & Et). rewrite L'. cbn [lbind]. rewrite Et.
    pose proof (look_setpos _ _ _ L) as E1. pose proof (look_setpos _ _ _ L') as E2.
    change (pos (te t)) with (pos t).
    assert (S1 : set_pos s3 (pos t) = t) by (transitivity (set_pos t (pos t)); [rewrite E1; reflexivity|apply set_pos_same]).
    assert (S2 : set_pos s3' (pos t) = te t)
      by (transitivity (set_pos (te t) (pos (te t))); [rewrite E2; reflexivity|apply set_pos_same]).
    rewrite S1, S2. destruct (at_eol s3); [|exact TAIL].
    eapply lsimS_weaken; [apply E_emit_ok; assumption|intros a a' H; apply Erel_Sim, H].
  Qed.

  (* ---------------------------------------------------------------------------------------- *)
  (** ** lex_initial in lock step *)

  Lemma E_emit_sim t ty : Ein t -> lsimS Sim (LOk (emit t ty)) (LOk (emit (te t) ty)).
  Proof. intros HE. eapply lsimS_weaken; [apply E_emit_ok; assumption|intros a a' H; apply Erel_Sim, H]. Qed.

  (** a one- or two-character token ("*" "*=", "{" "{{", "}" "}}") *)
  Lemma E_two t c ty1 ty2 : Ein t -> (pos t = n -> mem_z bv0 c = false /\ mem_z 32 c = false) ->
    lsimS Sim (let '(b, s2) := accept t c false in if b then LOk (emit s2 ty1) else LOk (emit s2 ty2))
              (let '(b, s2) := accept (te t) c false in if b then LOk (emit s2 ty1) else LOk (emit s2 ty2)).
  Proof.
    intros HE Hc. destruct (Nat.lt_ge_cases (pos t) n) as [Hlt|Hge].
    - destruct (E_accept_in t c false HE Hlt) as (E & HY & _). rewrite E.
      destruct (accept t c false) as [[|] z]; cbn [fst snd] in *; apply E_emit_sim; assumption.
    - assert (Hp : pos t = n) by (destruct HE as (_ & ? & _); lia).
      destruct (Hc Hp) as [M1 M2]. destruct (E_accept_bd t c HE Hp M1 M2) as [A1 A2]. rewrite A1, A2.
      apply E_emit_sim. assumption.
  Qed.

  Lemma gap_pair a b : bad_pair a b = true -> 1 <= n -> blu = a -> bv0 <> b.
  Proof.
    intros Hb H1 Ha E. pose proof (GPAIR H1) as G. rewrite Ha, E, Hb in G. discriminate.
  Qed.

  Lemma mem1_false x a : x <> a -> mem_z x [a] = false.
  Proof. intros H. unfold mem_z. cbn. apply Z.eqb_neq in H. rewrite H. reflexivity. Qed.

  (** the comparison operators *)
  Lemma E_or4 t : Ein t -> pos t < n ->
    let r := accept_or (accept_or (accept_or (accept_prefix t [62%Z]) (fun s => accept_prefix s [60%Z]))
                                  (fun s => accept_prefix s [62;61]%Z)) (fun s => accept_prefix s [60;61]%Z) in
    accept_or (accept_or (accept_or (accept_prefix (te t) [62%Z]) (fun s => accept_prefix s [60%Z]))
                         (fun s => accept_prefix s [62;61]%Z)) (fun s => accept_prefix s [60;61]%Z) =
    (fst r, te (snd r)) /\ Ein (snd r) /\ (fst r = false -> snd r = t).
  Proof.
    intros HE Hlt. cbv zeta. unfold accept_or.
    destruct (E_accept_prefix t [62%Z] HE Hlt (notin32 [62%Z] eq_refl) (nostr1 _)) as (E1 & H1 & F1). rewrite E1.
    destruct (accept_prefix t [62%Z]) as [b1 y1]. cbn [fst snd] in *. destruct b1; cbn [fst snd]; [auto|].
    rewrite (F1 eq_refl) in *. clear E1 H1 F1.
    destruct (E_accept_prefix t [60%Z] HE Hlt (notin32 [60%Z] eq_refl) (nostr1 _)) as (E1 & H1 & F1). rewrite E1.
    destruct (accept_prefix t [60%Z]) as [b2 y2]. cbn [fst snd] in *. destruct b2; cbn [fst snd]; [auto|].
    rewrite (F1 eq_refl) in *. clear E1 H1 F1.
    destruct (E_accept_prefix t [62;61]%Z HE Hlt (notin32 [62;61]%Z eq_refl) (nostr2 62%Z 61%Z eq_refl)) as (E1 & H1 & F1). rewrite E1.
    destruct (accept_prefix t [62;61]%Z) as [b3 y3]. cbn [fst snd] in *. destruct b3; cbn [fst snd]; [auto|].
    rewrite (F1 eq_refl) in *. clear E1 H1 F1.
    destruct (E_accept_prefix t [60;61]%Z HE Hlt (notin32 [60;61]%Z eq_refl) (nostr2 60%Z 61%Z eq_refl)) as (E1 & H1 & F1). rewrite E1.
    destruct (accept_prefix t [60;61]%Z) as [b4 y4]. cbn [fst snd] in *. destruct b4; cbn [fst snd]; auto.
  Qed.

  Ltac chainE HE Hlt A y HY HX :=
    match goal with
    | |- lsimS _ (let '(b, s1) := accept ?s ?c false in _) _ =>
        let E := fresh "E" in let Hf := fresh "Hf" in
        destruct (E_accept_in s c false HE Hlt) as (E & HY & HX & Hf); rewrite E; clear E;
        destruct (accept s c false) as [[|] y] eqn:A; cbn [fst snd] in HY, HX, Hf |- *;
        [ specialize (HX eq_refl); clear Hf | specialize (Hf eq_refl); subst y; clear HX HY A ]
    | |- lsimS _ (let '(b, s1) := accept_prefix ?s (?a0 :: ?b0 :: nil) in _) _ =>
        let E := fresh "E" in let Hf := fresh "Hf" in
        destruct (E_accept_prefix s (a0 :: b0 :: nil) HE Hlt (notin32 (a0 :: b0 :: nil) eq_refl) (nostr2 a0 b0 eq_refl)) as (E & HY & Hf);
        rewrite E; clear E;
        destruct (accept_prefix s (a0 :: b0 :: nil)) as [[|] y] eqn:A; cbn [fst snd] in HY, Hf |- *;
        [ clear Hf | specialize (Hf eq_refl); subst y; clear HY A ]
    end.

  Lemma E_lex_initial_rest t : Ein t -> pos t < n -> start t = pos t ->
    lsimS Sim (lex_initial_rest lx F t) (lex_initial_rest lx F (te t)).
  Proof.
    intros HE Hlt Hst. pose proof HE as (Hi & Hp & _). unfold lex_initial_rest.
    assert (INU : forall x, mem_z (nth (pos t) u 0%Z) [x] = true -> In x u).
    { intros x Hm. apply mem1 in Hm. rewrite <- Hm. apply nth_In. assumption. }
    chainE HE Hlt A y HY HX.
    { exfalso. apply Hsc59, INU. destruct HX as [_ HX]. rewrite xorb_false_r in HX. exact HX. }
    chainE HE Hlt A y HY HX.
    { destruct HX as [HX1 HX2]. rewrite xorb_false_r in HX2.
      eapply lsimS_weaken; [apply (E_lex_number y (pos t)); assumption|intros a a' H; apply Erel_Sim, H]. }
    chainE HE Hlt A y HY HX; [apply E_emit_sim; assumption|].
    chainE HE Hlt A y HY HX; [apply E_emit_sim; assumption|].
    chainE HE Hlt A y HY HX; [apply E_emit_sim; assumption|].
    chainE HE Hlt A y HY HX; [apply E_emit_sim; assumption|].
    chainE HE Hlt A y HY HX; [apply E_emit_sim; assumption|].
    destruct (E_or4 t HE Hlt) as (E4 & H4 & F4). cbv zeta in E4, H4, F4. rewrite E4. clear E4.
    destruct (accept_or _ _) as [b4 y4]. cbn [fst snd] in *. destruct b4; [apply E_emit_sim; assumption|].
    specialize (F4 eq_refl). subst y4. clear H4.
    chainE HE Hlt A y HY HX.
    { (* a letter *)
      destruct HX as [HX1 HX2].
      pose proof (accept_true _ _ _ _ A eq_refl eq_refl) as (_ & _ & _ & _ & Hs1 & _).
      unfold backup. change (pos (te y)) with (pos y). rewrite HX1. cbn [lbind]. rewrite te_set_pos.
      assert (Hz : Ein (set_pos y (pos t))) by (apply Ein_set_pos; assumption).
      destruct (E_accept_opcode (set_pos y (pos t)) Hz) as (E & Hzv & Hg & Hf); [cbn; congruence|cbn; assumption|].
      rewrite E. clear E. destruct (accept_opcode lx (set_pos y (pos t))) as [b z]. cbn [fst snd] in *.
      destruct b; [apply E_lex_opcode; auto|].
      specialize (Hf eq_refl). subst z.
      eapply lsimS_weaken; [apply E_lex_identifier; [assumption|cbn; lia]|intros a a' H; apply Erel_Sim, H]. }
    chainE HE Hlt A y HY HX.
    { destruct HX as [HX1 HX2]. rewrite xorb_false_r in HX2. apply mem1 in HX2.
      eapply lsimS_weaken; [apply E_lex_keyword; [assumption|]|intros a a' H; apply Erel_Sim, H].
      destruct HY as (_ & HYp & _). destruct (Nat.eq_dec (pos y) n) as [E|E]; [|lia].
      exfalso. apply (GDOT ltac:(lia)). unfold blu. replace (n - 1) with (pos t) by lia. exact HX2. }
    chainE HE Hlt A y HY HX; [apply E_emit_sim; assumption|].
    chainE HE Hlt A y HY HX; [apply E_emit_sim; assumption|].
    chainE HE Hlt A y HY HX; [apply E_emit_sim; assumption|].
    chainE HE Hlt A y HY HX.
    { destruct HX as [HX1 HX2]. rewrite xorb_false_r in HX2. apply mem1 in HX2.
      apply E_two; [assumption|]. intros E. split; [|reflexivity]. apply mem1_false.
      apply (gap_pair 42%Z 61%Z eq_refl); [lia|]. unfold blu. replace (n - 1) with (pos t) by lia. exact HX2. }
    chainE HE Hlt A y HY HX.
    { exfalso. apply Hq39, INU. destruct HX as [_ HX]. rewrite xorb_false_r in HX. exact HX. }
    chainE HE Hlt A y HY HX; [apply E_emit_sim; assumption|].
    chainE HE Hlt A y HY HX; [apply E_emit_sim; assumption|].
    chainE HE Hlt A y HY HX; [apply E_emit_sim; assumption|].
    chainE HE Hlt A y HY HX; [apply E_emit_sim; assumption|].
    chainE HE Hlt A y HY HX.
    { destruct HX as [HX1 HX2]. rewrite xorb_false_r in HX2. apply mem1 in HX2.
      apply E_two; [assumption|]. intros E. split; [|reflexivity]. apply mem1_false.
      apply (gap_pair 123%Z 123%Z eq_refl); [lia|]. unfold blu. replace (n - 1) with (pos t) by lia. exact HX2. }
    chainE HE Hlt A y HY HX.
    { destruct HX as [HX1 HX2]. rewrite xorb_false_r in HX2. apply mem1 in HX2.
      apply E_two; [assumption|]. intros E. split; [|reflexivity]. apply mem1_false.
      apply (gap_pair 125%Z 125%Z eq_refl); [lia|]. unfold blu. replace (n - 1) with (pos t) by lia. exact HX2. }
    chainE HE Hlt A y HY HX; [apply E_emit_sim; assumption|].
    chainE HE Hlt A y HY HX.
    { (* no block comment starts inside [u] *)
      exfalso. unfold accept_prefix in A. rewrite Hi in A. cbn [length] in A.
      destruct (str_eqb (slice bA1 (pos t) (pos t + 2)) [47; 42]%Z) eqn:S; [|discriminate].
      destruct (Nat.le_gt_cases (pos t + 2) n) as [Hle|Hgt].
      - rewrite slice_A1 in S by assumption. apply str_eqb_true in S.
        assert (E0 : nth 0 (slice u (pos t) (pos t + 2)) 0%Z = 47%Z) by (rewrite S; reflexivity).
        assert (E1 : nth 1 (slice u (pos t) (pos t + 2)) 0%Z = 42%Z) by (rewrite S; reflexivity).
        rewrite nth_slice in E0, E1 by lia. rewrite Nat.add_0_r in E0. rewrite Nat.add_1_r in E1.
        apply (Hsl (pos t)); [lia|auto].
      - pose proof (nostr2 47%Z 42%Z eq_refl (pos t) Hlt) as N. cbn [length] in N. rewrite N in S by lia. discriminate. }
    destruct (E_next_in t HE Hlt) as (N1 & N2 & N3). rewrite N1. exact I.
  Qed.

  Lemma ignore_run_idem c G s a : 1 <= G -> ignore_run G s c = LOk a -> ignore_run G a c = LOk a.
  Proof.
    unfold ignore_run. destruct (accept_run G s c false) as [x| | |] eqn:R; cbn [lbind]; try discriminate.
    intros HG H. injection H as <-. apply accept_run_fields in R as (_ & _ & _ & _ & _ & St). rewrite xorb_false_r in St.
    destruct G; [lia|]. cbn [accept_run]. unfold accept. change (peek (ignore x)) with (peek x). rewrite St. reflexivity.
  Qed.

  Lemma rest_is_initial G s a : 1 <= G -> ignore_run G s blanks = LOk a ->
    lex_initial_rest lx G a = lex_initial lx G a.
  Proof. intros HG H. rewrite lex_initial_split, (ignore_run_idem blanks G s a HG H). reflexivity. Qed.

  Lemma S_lex_initial t t' : Sim t t' -> lsimS Sim (lex_initial lx F t) (lex_initial lx F t').
  Proof.
    intros [[[HE ->] _]|HP].
    2:{ eapply lsimS_weaken; [apply P_lex_initial; assumption|intros a a' H; right; exact H]. }
    assert (HG : 1 <= F) by (pose proof HF; lia).
    rewrite !lex_initial_split.
    pose proof (E_ignore_run blanks t eq_refl eq_refl HE) as H.
    destruct (ignore_run F t blanks) as [a| | |] eqn:R1; cbn [lbind]; try exact I.
    cbn [lsimS] in H. destruct H as (a' & R2 & HI). rewrite R2. cbn [lbind].
    destruct HI as [([HEa ->] & Hlt & Hst & _)|HPa].
    - apply E_lex_initial_rest; assumption.
    - rewrite (rest_is_initial F t a HG R1), (rest_is_initial F (te t) a' HG R2).
      eapply lsimS_weaken; [apply P_lex_initial; assumption|intros b b' H; right; exact H].
  Qed.

  (* ---------------------------------------------------------------------------------------- *)
  (** ** the driver *)

  (** what the two scans return: the tokens [O] before the gap are the same, the tokens [N] after
      it are on line 0 [d] columns further in run 2; the line texts differ by [w] *)
  Definition gap_results (r1 r2 : scan_result) : Prop :=
    exists O N Ls, r1 = ScanOk (O ++ map (colshift_tok n) N) (first_fwd u Ls) /\
                   r2 = ScanOk (O ++ map (colshift_tok (n + d)) N) (first_fwd (u ++ w) Ls).

  Lemma P_scan_loop j a a' T L : Prel a a' -> scan_loop j F (lex_initial lx) a = ScanOk T L ->
    gap_results (scan_loop j F (lex_initial lx) a) (scan_loop j F (lex_initial lx) a').
  Proof.
    intros (tau & O & Hi & HJ & -> & ->) R1.
    assert (C : forall pre, cssim pre (scan_loop j F (lex_initial lx) tau) (scan_loop j F (lex_initial lx) (csh pre tau))).
    { intros pre. apply csh_scan_loop; [|assumption]. intros x Hx. apply csh_lex_initial. assumption. }
    assert (S : forall x, ssim 0 [] O (scan_loop j F (lex_initial lx) x) (scan_loop j F (lex_initial lx) (fr O x))).
    { intros x. apply (sh_scan_loop [] 0 [] O eq_refl). intros y. apply sh_lex_initial. }
    assert (NS : scan_loop j F (lex_initial lx) tau <> ScanStuck).
    { apply (scan_loop_not_stuck F (lex_initial lx) bv1 HFv); [|assumption].
      intros s p Hat. apply lex_initial_post; [apply HFv|assumption]. }
    pose proof (C u) as C1. pose proof (C (u ++ w)) as C2.
    pose proof (S (csh u tau)) as S1. pose proof (S (csh (u ++ w) tau)) as S2.
    fold (pp u O tau) in S1. fold (pp (u ++ w) O tau) in S2.
    destruct (scan_loop j F (lex_initial lx) tau) as [tk ln|e| |] eqn:R; [| | contradiction|].
    - cbn [cssim cshift_result] in C1, C2. rewrite C1 in S1. rewrite C2 in S2.
      cbn [ssim shift_result rev app] in S1, S2. rewrite map_shift_tok_0 in S1, S2.
      exists (rev O), tk, ln. rewrite S1, S2, app_length. auto.
    - cbn [cssim cshift_result] in C1. rewrite C1 in S1. cbn [ssim shift_result] in S1. rewrite S1 in R1. discriminate.
    - cbn [cssim cshift_result] in C1. rewrite C1 in S1. cbn [ssim shift_result] in S1. rewrite S1 in R1. discriminate.
  Qed.

  Lemma S_scan_loop : forall j t T L, Ein t -> scan_loop j F (lex_initial lx) t = ScanOk T L ->
    gap_results (scan_loop j F (lex_initial lx) t) (scan_loop j F (lex_initial lx) (te t)).
  Proof.
    induction j as [|j IH]; intros t T L HE R; [discriminate|].
    pose proof HE as (Hi & Hp & _). cbn [scan_loop] in R |- *.
    rewrite (S_not_at_end t (te t) (Erel_Sim _ _ (Erel_intro t HE))).
    assert (Hlen : (pos t <? length (inp t)) = true) by (apply Nat.ltb_lt; rewrite Hi, len_A1; lia).
    rewrite Hlen in *.
    pose proof (S_lex_initial t (te t) (Erel_Sim _ _ (Erel_intro t HE))) as H.
    destruct (lex_initial lx F t) as [a|m l c a| |] eqn:LI; try discriminate.
    2:{ exfalso. eapply scan_handler_not_ok. exact R. }
    cbn [lsimS] in H. destruct H as (a' & LI' & HS). rewrite LI'.
    change (pos (te t)) with (pos t).
    destruct (pos a =? pos t) eqn:Pq; [exfalso; eapply scan_handler_not_ok; exact R|].
    apply Nat.eqb_neq in Pq.
    destruct HS as [[[HEa ->] _]|HPa].
    - change (pos (te a)) with (pos a). apply Nat.eqb_neq in Pq. rewrite Pq. eapply IH; eauto.
    - assert (Pq' : (pos a' =? pos t) = false).
      { destruct HPa as (tau & O & _ & _ & -> & ->). apply Nat.eqb_neq.
        rewrite pp_pos, app_length. rewrite pp_pos in Pq. pose proof d_pos. lia. }
      rewrite Pq'. eapply P_scan_loop; eauto.
  Qed.
End Blank.
