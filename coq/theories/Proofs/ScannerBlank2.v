(** Scanner proofs, part 7b (C16 2c): spaces inserted inside a line — the decidable gap condition
    [gap_ok], the theorems and the examples.

    [gap_ok lx u v] (line [u ++ v], spaces inserted between [u] and [v]) holds when
    - [v] is not empty and does not start with NUL (a gap at the end of the line is
      ScannerTrailing2.trailing_blanks_sig);
    - [u] contains no quote, no ";" and no "/*" (the gap is not inside a string or a comment);
    - [u] does not end with "." (the size suffix / keyword must follow directly);
    - the last character of [u] and the first of [v] are not the two halves of a two-character
      token ([bad_pair]: "*=", "<<", "<=", ">>", ">=", "==", "!=", ":=", "@=", "{{", "}}", "/*");
    - if [u] ends with an identifier character (letter, digit, "_") then [v] starts with none,
      nor with ":" (label) or "." (scope / size suffix);
    - if the last three characters of [u] are a mnemonic then [v] starts with a blank
      ("lda,x" is an identifier, "lda ,x" an instruction);
    - if [u] ends with an index register name (x, y, s) that follows a comma or a space then [v]
      does not start with ")" or "]" ("(1,x),y" / "(1,x ),y").
    In particular it holds after each of  , ( ) [ ] # + - * & | ~ << >>  and before each of
    , ( ) [ ] # + - * & | ~ << >>  unless one of the clauses above says otherwise. *)
From A816 Require Import Model.Scanner Proofs.ScannerSpec Proofs.ScannerFuel Proofs.ScannerPos
  Proofs.ScannerMono Proofs.ScannerShift Proofs.ScannerPrefix Proofs.ScannerLayout
  Proofs.ScannerComments Proofs.ScannerColumns Proofs.ScannerTrailing1 Proofs.ScannerTrailing2
  Proofs.ScannerBlank1.
From Coq Require Import Arith Lia.
Open Scope nat_scope.

(** no "/*" *)
Fixpoint no_slash_star (u : str) : bool :=
  match u with
  | a :: r => match r with
              | b :: _ => negb ((a =? 47)%Z && (b =? 42)%Z) && no_slash_star r
              | [] => true
              end
  | [] => true
  end.

Definition gap_ok (lx : lexicon) (u v : str) : bool :=
  match v with
  | [] => false
  | v0 :: _ =>
      negb (mem_z 39 u) && negb (mem_z 59 u) && no_slash_star u && negb (v0 =? 0)%Z &&
      match u with
      | [] => true
      | _ =>
          let lu := blu u in
          negb (lu =? 46)%Z && negb (bad_pair lu v0) &&
          (if mem_z lu ident_chars
           then negb (mem_z v0 ident_chars) && negb (v0 =? 58)%Z && negb (v0 =? 46)%Z else true) &&
          (if (3 <=? length u) && mem_str (map lower (slice u (length u - 3) (length u))) (lx_mnemonics lx)
           then (v0 =? 32)%Z || (v0 =? 9)%Z else true) &&
          (if (2 <=? length u) && mem_z lu index_chars &&
              ((nth (length u - 2) u 0 =? 44) || (nth (length u - 2) u 0 =? 32))%Z
           then negb (v0 =? 41)%Z && negb (v0 =? 93)%Z else true)
      end
  end.

Lemma no_slash_star_nth : forall u, no_slash_star u = true ->
  forall i, S i < length u -> ~ (nth i u 0%Z = 47%Z /\ nth (S i) u 0%Z = 42%Z).
Proof.
  induction u as [|a r IH]; intros H i Hi; [cbn in Hi; lia|].
  destruct r as [|b r']; [cbn in Hi; lia|].
  cbn [no_slash_star] in H. apply andb_true_iff in H as [H1 H2].
  destruct i as [|i].
  - cbn [nth]. intros [E1 E2]. subst a b. discriminate.
  - cbn [nth length] in *. apply (IH H2 i). cbn [length]. lia.
Qed.

Lemma not_mem_In x (l : str) : mem_z x l = false -> ~ In x l.
Proof. intros H HI. apply mem_z_In in HI. congruence. Qed.

(** the scans of the line and of the line with spaces inserted at an admissible gap: the tokens
    before the gap are the same, those after it stand [|w|] columns further; the recorded line
    has the spaces *)
Theorem blank_insertion_results : forall lx file u w v T L,
  lexicon_alpha lx = true -> ~ In 10%Z u -> ~ In 10%Z v -> Forall (fun c => c = 32%Z) w -> w <> [] ->
  gap_ok lx u v = true ->
  scan lx file (u ++ v ++ [10%Z]) = ScanOk T L ->
  exists O N Ls,
    T = O ++ map (colshift_tok (length u)) N /\ L = first_fwd u Ls /\
    scan lx file (u ++ w ++ v ++ [10%Z]) =
      ScanOk (O ++ map (colshift_tok (length u + length w)) N) (first_fwd (u ++ w) Ls).
Proof.
  intros lx file u w v T L Hlx Hu Hv Hw Hw0 G R.
  (* the gap conditions *)
  unfold gap_ok in G. destruct v as [|c0 v'] eqn:Ev; [discriminate|]. rewrite <- Ev in *.
  assert (Hv0 : v <> []) by (rewrite Ev; discriminate).
  assert (Bv : bv0 v = c0) by (rewrite Ev; reflexivity).
  repeat (apply andb_true_iff in G as [G ?]).
  apply negb_true_iff in G.
  match goal with H : negb (mem_z 59 u) = true |- _ => apply negb_true_iff in H; rename H into G59 end.
  match goal with H : negb (c0 =? 0)%Z = true |- _ => apply negb_true_iff, Z.eqb_neq in H; rename H into G0 end.
  match goal with H : no_slash_star u = true |- _ => rename H into Gss end.
  match goal with H : match u with [] => true | _ => _ end = true |- _ => rename H into GU end.
  assert (GU' : 1 <= length u ->
     (blu u =? 46)%Z = false /\ bad_pair (blu u) c0 = false /\
     (mem_z (blu u) ident_chars = true -> mem_z c0 ident_chars = false /\ c0 <> 58%Z /\ c0 <> 46%Z) /\
     (3 <= length u -> mem_str (map lower (slice u (length u - 3) (length u))) (lx_mnemonics lx) = true ->
      c0 = 32%Z \/ c0 = 9%Z) /\
     (2 <= length u -> mem_z (blu u) index_chars = true ->
      nth (length u - 2) u 0%Z = 44%Z \/ nth (length u - 2) u 0%Z = 32%Z -> c0 <> 41%Z /\ c0 <> 93%Z)).
  { intros K1. destruct u as [|a r] eqn:Eu; [cbn in K1; lia|]. rewrite <- Eu in *. cbv zeta in GU.
    repeat (apply andb_true_iff in GU as [GU ?]).
    apply negb_true_iff in GU.
    match goal with H : negb (bad_pair _ _) = true |- _ => apply negb_true_iff in H end.
    split; [assumption|]. split; [assumption|]. split; [|split].
    - intros Hm. match goal with H : (if mem_z (blu u) ident_chars then _ else _) = true |- _ => rewrite Hm in H;
        repeat (apply andb_true_iff in H as [H ?]); apply negb_true_iff in H end.
      repeat match goal with H : negb (_ =? _)%Z = true |- _ => apply negb_true_iff, Z.eqb_neq in H end. auto.
    - intros K3 Hm. match goal with H : (if (3 <=? length u) && _ then _ else _) = true |- _ =>
        rewrite Hm in H; apply Nat.leb_le in K3; rewrite K3 in H; cbn [andb] in H;
        apply orb_true_iff in H as [H|H]; apply Z.eqb_eq in H; auto end.
    - intros K2 Hm Hc. match goal with H : (if (2 <=? length u) && _ && _ then _ else _) = true |- _ =>
        rewrite Hm in H; apply Nat.leb_le in K2; rewrite K2 in H; cbn [andb] in H;
        assert (Hc' : ((nth (length u - 2) u 0 =? 44) || (nth (length u - 2) u 0 =? 32))%Z = true)
          by (destruct Hc as [Hc|Hc]; rewrite Hc; reflexivity);
        rewrite Hc' in H; apply andb_true_iff in H as [Ha Hb];
        apply negb_true_iff, Z.eqb_neq in Ha; apply negb_true_iff, Z.eqb_neq in Hb; auto end. }
  (* a common fuel *)
  set (F := length (bA2 u w v) + 2).
  assert (E1 : scan lx file (u ++ v ++ [10%Z]) = scan_with_fuel F lx file (u ++ v ++ [10%Z])).
  { symmetry. apply scan_fuel_irrelevant. unfold scan_fuel, F, bA2, bv1. rewrite !app_length. cbn. lia. }
  assert (E2 : scan lx file (u ++ w ++ v ++ [10%Z]) = scan_with_fuel F lx file (u ++ w ++ v ++ [10%Z])).
  { symmetry. apply scan_fuel_irrelevant. unfold scan_fuel, F, bA2, bv1. rewrite !app_length. cbn. lia. }
  rewrite E1 in R. rewrite E2.
  unfold scan_with_fuel, scan_gen in *.
  assert (Ht : Ein u v (init_sc file (u ++ v ++ [10%Z]))).
  { unfold Ein, init_sc. cbn. repeat split; auto. lia. }
  assert (Et : init_sc file (u ++ w ++ v ++ [10%Z]) = te u w v (init_sc file (u ++ v ++ [10%Z]))).
  { unfold te, init_sc, bA2, bv1. cbn. rewrite <- app_assoc. reflexivity. }
  rewrite Et.
  destruct (S_scan_loop u w v Hu Hv Hw Hw0 Hv0 F ltac:(unfold F; lia) lx Hlx
              (not_mem_In _ _ G) (not_mem_In _ _ G59) (no_slash_star_nth u Gss)) with (j := F)
    (t := init_sc file (u ++ v ++ [10%Z])) (T := T) (L := L) as (O & N & Ls & R1 & R2); try assumption.
  - rewrite Bv. assumption.
  - rewrite Bv. intros H1 Hm. apply (GU' H1). assumption.
  - intros H1. destruct (GU' H1) as (Hd & _). apply Z.eqb_neq. assumption.
  - rewrite Bv. intros H1. apply (GU' H1).
  - rewrite Bv. intros H3. apply (GU' ltac:(lia)). assumption.
  - rewrite Bv. intros H2. apply (GU' ltac:(lia)). assumption.
  - rewrite R in R1. injection R1 as -> ->. exists O, N, Ls. auto.
Qed.

(** the coordinator's statement: same (type, value) sequence of the non-comment tokens *)
Theorem blank_insertion_sig : forall lx file u w v t1 e1 l1,
  lexicon_alpha lx = true -> ~ In 10%Z u -> ~ In 10%Z v -> Forall (fun c => c = 32%Z) w ->
  gap_ok lx u v = true ->
  scan lx file (u ++ v ++ [10%Z]) = ScanOk (t1 ++ [e1]) l1 ->
  exists t2 e2 l2, scan lx file (u ++ w ++ v ++ [10%Z]) = ScanOk (t2 ++ [e2]) l2 /\ sig t2 = sig t1.
Proof.
  intros lx file u w v t1 e1 l1 Hlx Hu Hv Hw G R.
  destruct w as [|c w'] eqn:Ew; [exists t1, e1, l1; auto|]. rewrite <- Ew in *.
  assert (Hw0 : w <> []) by (rewrite Ew; discriminate).
  destruct (blank_insertion_results lx file u w v _ _ Hlx Hu Hv Hw Hw0 G R) as (O & N & Ls & ET & EL & R2).
  rewrite R2. clear R2. induction N as [|x N' _] using rev_ind.
  - cbn [map] in *. rewrite app_nil_r in *. exists t1, e1, (first_fwd (u ++ w) Ls). rewrite <- ET. auto.
  - rewrite map_app in *. cbn [map] in *. rewrite app_assoc in ET. apply app_inj_tail in ET as [Et Ee].
    exists (O ++ map (colshift_tok (length u + length w)) N'), (colshift_tok (length u + length w) x), (first_fwd (u ++ w) Ls).
    split; [rewrite app_assoc; reflexivity|].
    rewrite Et, !sig_app, !sig_colshift. reflexivity.
Qed.

(** the same between the lines of a file *)
Theorem blank_insertion_invisible : forall lx file a u w v b ta ea la t1 e1 l1,
  lexicon_ok lx = true -> lexicon_alpha lx = true ->
  ends_nl a -> scan lx file a = ScanOk (ta ++ [ea]) la ->
  ~ In 10%Z u -> ~ In 10%Z v -> Forall (fun c => c = 32%Z) w ->
  gap_ok lx u v = true ->
  scan lx file (u ++ v ++ [10%Z]) = ScanOk (t1 ++ [e1]) l1 ->
  view_of (scan lx file (a ++ (u ++ w ++ v ++ [10%Z]) ++ b)) =
  view_of (scan lx file (a ++ (u ++ v ++ [10%Z]) ++ b)).
Proof.
  intros lx file a u w v b ta ea la t1 e1 l1 Hok Hlx Ha Sa Hu Hv Hw G S1.
  destruct (blank_insertion_sig lx file u w v t1 e1 l1 Hlx Hu Hv Hw G S1) as (t2 & e2 & l2 & S2 & Es).
  eapply (line_replacement lx file a (u ++ w ++ v ++ [10%Z]) (u ++ v ++ [10%Z]) b); eauto.
  - exists (u ++ w ++ v). rewrite <- !app_assoc. reflexivity.
  - exists (u ++ v). rewrite <- !app_assoc. reflexivity.
Qed.

(** at the top of a file *)
Theorem blank_insertion_invisible_at_top : forall lx file u w v b t1 e1 l1,
  lexicon_ok lx = true -> lexicon_alpha lx = true ->
  ~ In 10%Z u -> ~ In 10%Z v -> Forall (fun c => c = 32%Z) w ->
  gap_ok lx u v = true ->
  scan lx file (u ++ v ++ [10%Z]) = ScanOk (t1 ++ [e1]) l1 ->
  view_of (scan lx file ((u ++ w ++ v ++ [10%Z]) ++ b)) = view_of (scan lx file ((u ++ v ++ [10%Z]) ++ b)).
Proof.
  intros lx file u w v b t1 e1 l1 Hok Hlx Hu Hv Hw G S1.
  destruct (blank_insertion_sig lx file u w v t1 e1 l1 Hlx Hu Hv Hw G S1) as (t2 & e2 & l2 & S2 & Es).
  assert (N1 : exists x, u ++ w ++ v ++ [10%Z] = x ++ [10%Z]) by (exists (u ++ w ++ v); rewrite <- !app_assoc; reflexivity).
  assert (N2 : exists x, u ++ v ++ [10%Z] = x ++ [10%Z]) by (exists (u ++ v); rewrite <- !app_assoc; reflexivity).
  rewrite (scan_line_compositional lx file _ b _ _ _ Hok N1 S2), (scan_line_compositional lx file _ b _ _ _ Hok N2 S1).
  rewrite !view_shift, Es. reflexivity.
Qed.

(* ------------------------------------------------------------------------------------------ *)
(** * Examples (demo_lexicon: mnemonics lda, nop; keyword db), two spaces inserted *)

(** an admissible gap: [gap_ok] holds, the line scans, same signature *)
Definition gap_pos (u v : str) : Prop :=
  gap_ok demo_lexicon u v = true /\
  first_sig demo_lexicon (u ++ [32; 32]%Z ++ v ++ [10%Z]) = first_sig demo_lexicon (u ++ v ++ [10%Z]) /\
  first_sig demo_lexicon (u ++ v ++ [10%Z]) <> None.
(** an excluded gap where the spaces do change the tokens *)
Definition gap_neg (u v : str) : Prop :=
  gap_ok demo_lexicon u v = false /\
  first_sig demo_lexicon (u ++ v ++ [10%Z]) <> None /\
  first_sig demo_lexicon (u ++ [32; 32]%Z ++ v ++ [10%Z]) <> first_sig demo_lexicon (u ++ v ++ [10%Z]).

Ltac gap_pos_tac := split; [vm_compute; reflexivity|split; [vm_compute; reflexivity|vm_compute; discriminate]].
Ltac gap_neg_tac := split; [vm_compute; reflexivity|split; [vm_compute; discriminate|vm_compute; discriminate]].

Example demo_alpha : lexicon_alpha demo_lexicon = true /\ lexicon_ok demo_lexicon = true.
Proof. split; vm_compute; reflexivity. Qed.

(** "lda (|1+2),x": after ( *)
Example gap_pos_1 : gap_pos [108;100;97;32;40]%Z [49;43;50;41;44;120]%Z.
Proof. gap_pos_tac. Qed.
(** "lda (1|+2),x": before + *)
Example gap_pos_2 : gap_pos [108;100;97;32;40;49]%Z [43;50;41;44;120]%Z.
Proof. gap_pos_tac. Qed.
(** "lda (1+2),|x": after , *)
Example gap_pos_3 : gap_pos [108;100;97;32;40;49;43;50;41;44]%Z [120]%Z.
Proof. gap_pos_tac. Qed.
(** "lda (1+2|),x": before ) *)
Example gap_pos_4 : gap_pos [108;100;97;32;40;49;43;50]%Z [41;44;120]%Z.
Proof. gap_pos_tac. Qed.
(** "lda #|1": after # *)
Example gap_pos_5 : gap_pos [108;100;97;32;35]%Z [49]%Z.
Proof. gap_pos_tac. Qed.
(** "lda 1<<|2": after << *)
Example gap_pos_6 : gap_pos [108;100;97;32;49;60;60]%Z [50]%Z.
Proof. gap_pos_tac. Qed.
(** "lda 1|<<2": before << *)
Example gap_pos_7 : gap_pos [108;100;97;32;49]%Z [60;60;50]%Z.
Proof. gap_pos_tac. Qed.
(** "lda [1],|y": after ], *)
Example gap_pos_8 : gap_pos [108;100;97;32;91;49;93;44]%Z [121]%Z.
Proof. gap_pos_tac. Qed.
(** "x|=1": before = *)
Example gap_pos_9 : gap_pos [120]%Z [61;49]%Z.
Proof. gap_pos_tac. Qed.

(** what [gap_ok] excludes is necessary *)
(** "ld|a": ld a: inside a mnemonic *)
Example gap_neg_1 : gap_neg [108;100]%Z [97]%Z.
Proof. gap_neg_tac. Qed.
(** "lda 0x|10": 0x 10: inside a number *)
Example gap_neg_2 : gap_neg [108;100;97;32;48;120]%Z [49;48]%Z.
Proof. gap_neg_tac. Qed.
(** "a<|<2": < <: inside an operator *)
Example gap_neg_3 : gap_neg [97;60]%Z [60;50]%Z.
Proof. gap_neg_tac. Qed.
(** "x:|=1": : =: inside the assignment operator *)
Example gap_neg_4 : gap_neg [120;58]%Z [61;49]%Z.
Proof. gap_neg_tac. Qed.
(** "lda (1,x|),y": (1,x ),y: a closing bracket after an index register *)
Example gap_neg_5 : gap_neg [108;100;97;32;40;49;44;120]%Z [41;44;121]%Z.
Proof. gap_neg_tac. Qed.
(** "lda|,x": lda,x is an identifier and lda ,x an instruction *)
Example gap_neg_6 : gap_neg [108;100;97]%Z [44;120]%Z.
Proof. gap_neg_tac. Qed.
(** ".db 'a,|b'": inside a string *)
Example gap_neg_7 : gap_neg [46;100;98;32;39;97;44]%Z [98;39]%Z.
Proof. gap_neg_tac. Qed.
(** "lda.|b #1": after the dot of a size suffix *)
Example gap_neg_8 : gap_neg [108;100;97;46]%Z [98;32;35;49]%Z.
Proof. gap_neg_tac. Qed.

(** [w] must consist of spaces: a tab after the comma of an index is an error *)
Example tab_in_operand :
  gap_ok demo_lexicon [108;100;97;32;49;44]%Z [120]%Z = true /\
  first_sig demo_lexicon [108;100;97;32;49;44;120;10]%Z <> None /\
  first_sig demo_lexicon [108;100;97;32;49;44;9;120;10]%Z = None.
Proof. split; [vm_compute; reflexivity|split; [vm_compute; discriminate|vm_compute; reflexivity]]. Qed.

Print Assumptions blank_insertion_results.
Print Assumptions blank_insertion_sig.
Print Assumptions blank_insertion_invisible.
Print Assumptions blank_insertion_invisible_at_top.
