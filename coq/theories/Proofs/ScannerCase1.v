(** Scanner proofs, part 6a (C16, letter case): lock-step simulation of the scans of two texts
    that are equal up to ASCII letter case ([map lower s = map lower s']).
    Every decision of the scanner is blind to letter case — its candidate sets are closed under
    case change, its look-ahead characters and prefixes are not letters, mnemonics are compared
    lower-cased — EXCEPT: (1) the keyword after "." (lower-case letters only), and (2) the base
    prefix b / o / x of a number after a leading 0.  Where the texts differ they must stay clear of
    those two ([case_safe]).  Result: same token types and positions, values equal up to case. *)
From A816 Require Import Model.Scanner Proofs.ScannerSpec Proofs.ScannerFuel Proofs.ScannerPos
  Proofs.ScannerMono Proofs.ScannerShift Proofs.ScannerPrefix Proofs.ScannerLayout
  Proofs.ScannerComments Proofs.ScannerColumns Proofs.ScannerTrailing1.
From Coq Require Import Arith Lia.
Open Scope nat_scope.

(* ------------------------------------------------------------------------------------------ *)
(** * Characters *)

Definition isletter (c : Z) : bool := ((65 <=? c) && (c <=? 90) || (97 <=? c) && (c <=? 122))%Z.
Definition swapcase (c : Z) : Z :=
  if ((65 <=? c) && (c <=? 90))%Z then (c + 32)%Z
  else if ((97 <=? c) && (c <=? 122))%Z then (c - 32)%Z else c.

Lemma lower_eq_cases v v' : lower v = lower v' -> v' = v \/ v' = swapcase v.
Proof.
  unfold lower, swapcase.
  destruct ((65 <=? v) && (v <=? 90))%Z eqn:A; destruct ((65 <=? v') && (v' <=? 90))%Z eqn:B;
    destruct ((97 <=? v) && (v <=? 122))%Z eqn:C;
    rewrite ?andb_true_iff, ?andb_false_iff, ?Z.leb_le, ?Z.leb_gt in *; lia.
Qed.

Lemma lower_nonletter v v' : isletter v = false -> lower v = lower v' -> v' = v.
Proof.
  unfold isletter, lower. intros H.
  destruct ((65 <=? v) && (v <=? 90))%Z eqn:A; destruct ((65 <=? v') && (v' <=? 90))%Z eqn:B;
    destruct ((97 <=? v) && (v <=? 122))%Z eqn:C; cbn in H; try discriminate;
    rewrite ?andb_true_iff, ?andb_false_iff, ?Z.leb_le, ?Z.leb_gt in *; lia.
Qed.

Lemma lower_0 : lower 0 = 0%Z. Proof. reflexivity. Qed.

(** a candidate set closed under case change *)
Definition cclb (c : str) : bool := forallb (fun v => mem_z (swapcase v) c) c.

Lemma ccl c v v' : cclb c = true -> lower v = lower v' -> mem_z v' c = mem_z v c.
Proof.
  intros Hc E.
  assert (S1 : forall a, mem_z a c = true -> mem_z (swapcase a) c = true).
  { intros a Ha. unfold cclb in Hc. rewrite forallb_forall in Hc. apply Hc. apply mem_z_In. exact Ha. }
  assert (SS : forall a, swapcase (swapcase a) = a).
  { intros a. unfold swapcase.
    destruct ((65 <=? a) && (a <=? 90))%Z eqn:A; destruct ((97 <=? a) && (a <=? 122))%Z eqn:C.
    - rewrite ?andb_true_iff, ?Z.leb_le in *. lia.
    - replace ((65 <=? a + 32) && (a + 32 <=? 90))%Z with false
        by (symmetry; rewrite andb_true_iff, andb_false_iff, ?Z.leb_le, ?Z.leb_gt in *; lia).
      replace ((97 <=? a + 32) && (a + 32 <=? 122))%Z with true
        by (symmetry; rewrite !andb_true_iff, ?Z.leb_le in *; lia). lia.
    - replace ((65 <=? a - 32) && (a - 32 <=? 90))%Z with true
        by (symmetry; rewrite !andb_true_iff, ?Z.leb_le in *; lia). lia.
    - rewrite A, C. reflexivity. }
  destruct (lower_eq_cases v v' E) as [-> | ->]; [reflexivity|].
  destruct (mem_z v c) eqn:M; [apply S1; assumption|].
  destruct (mem_z (swapcase v) c) eqn:M'; [|reflexivity].
  apply S1 in M'. rewrite SS in M'. congruence.
Qed.

(** a string without letters *)
Definition nlb (p : str) : bool := forallb (fun c => negb (isletter c)) p.

(** strings equal up to case *)
Definition lci (a b : str) : Prop := map lower a = map lower b.

Lemma lci_refl a : lci a a. Proof. reflexivity. Qed.

Lemma lci_nl p a : nlb p = true -> lci p a -> a = p.
Proof.
  unfold lci. revert a. induction p as [|c p IH]; intros a Hp H; destruct a as [|d a]; cbn in *; try discriminate; [reflexivity|].
  apply andb_true_iff in Hp as [Hc Hp]. apply negb_true_iff in Hc.
  injection H as H1 H2. f_equal; [apply (lower_nonletter c d Hc H1)|apply IH; assumption].
Qed.

Lemma str_eqb_refl' (a : str) : str_eqb a a = true.
Proof. induction a as [|c a IH]; cbn; [reflexivity|]. rewrite Z.eqb_refl. exact IH. Qed.

Lemma str_eqb_lci p a b : nlb p = true -> lci a b -> str_eqb b p = str_eqb a p.
Proof.
  intros Hp H.
  destruct (str_eqb a p) eqn:E1.
  - apply str_eqb_true in E1. subst a. rewrite (lci_nl p b Hp H). apply str_eqb_refl'.
  - destruct (str_eqb b p) eqn:E2; [|reflexivity]. apply str_eqb_true in E2. subst b.
    assert (a = p) by (apply (lci_nl p a Hp); unfold lci in *; congruence). subst a.
    rewrite str_eqb_refl' in E1. discriminate.
Qed.

Lemma slice_map (f : Z -> Z) l a b : map f (slice l a b) = slice (map f l) a b.
Proof. unfold slice. rewrite skipn_map, firstn_map. reflexivity. Qed.

(* ------------------------------------------------------------------------------------------ *)
(** * The setting *)

Lemma Forall2_rev {A B} (R : A -> B -> Prop) l l' : Forall2 R l l' -> Forall2 R (rev l) (rev l').
Proof. induction 1; cbn; [constructor|]. apply Forall2_app; [assumption|constructor; [assumption|constructor]]. Qed.

(** tokens equal up to the case of their values *)
Definition tlow (t t' : token) : Prop :=
  t_type t = t_type t' /\ t_pos t = t_pos t' /\ lci (t_value t) (t_value t').

Definition kw_ok (lx : lexicon) : bool :=
  negb (mem_str [] (lx_keywords lx)) && negb (mem_str [98%Z] (lx_keywords lx)) &&
  negb (mem_str [119%Z] (lx_keywords lx)) && negb (mem_str [108%Z] (lx_keywords lx)).

(** where the two texts may NOT differ.
    (1) after a leading 0, a letter b/o/x (either case): the base prefix test is case-sensitive
        ("0X1F" is the number 0 and the identifier X1F);
    (2) in the run of lower-case letters and "_" after a "." and on the character that ends it:
        keywords are lower-case only — except the single size-suffix letter b/w/l directly after
        the "." when the next character does not continue a keyword. *)
Definition case_safe (s s' : str) : Prop :=
  (forall p, nth p s 0%Z = 48%Z -> mem_z (lower (nth (S p) s 0%Z)) [98; 111; 120]%Z = true ->
             nth (S p) s' 0%Z = nth (S p) s 0%Z) /\
  (forall d p, d < p -> nth d s 0%Z = 46%Z ->
               (forall i, d < i < p -> mem_z (nth i s 0%Z) kw_chars = true) ->
               nth p s' 0%Z = nth p s 0%Z \/
               (p = S d /\ mem_z (lower (nth p s 0%Z)) [98; 119; 108]%Z = true /\
                mem_z (nth (S p) s 0%Z) kw_chars = false)).

Section CaseSim.
  Variable s s' : str.
  Hypothesis Hci : map lower s = map lower s'.
  Hypothesis Hsafe : case_safe s s'.

  Lemma len_eq : length s' = length s.
  Proof. rewrite <- (map_length lower s'), <- Hci, map_length. reflexivity. Qed.

  Lemma nth_ci i : lower (nth i s' 0%Z) = lower (nth i s 0%Z).
  Proof. rewrite <- (map_nth lower s' 0%Z i), <- (map_nth lower s 0%Z i), Hci. reflexivity. Qed.

  Lemma nth_error_ci i : option_map lower (nth_error s' i) = option_map lower (nth_error s i).
  Proof. rewrite <- !nth_error_map, Hci. reflexivity. Qed.

  Lemma slice_ci a b : lci (slice s a b) (slice s' a b).
  Proof. unfold lci. rewrite !slice_map, Hci. reflexivity. Qed.

  (** run 2's state: same offsets, its own lines and tokens *)
  Definition mkc (t : sc) (L : list str) (T : list token) : sc :=
    mk_sc s' (pos t) (start t) (loff t) (cline t) L T (fname t).

  Definition Rel (t t' : sc) : Prop :=
    inp t = s /\ exists L T, t' = mkc t L T /\ Forall2 lci (lines_rev t) L /\ Forall2 tlow (toks_rev t) T.

  Lemma Rel_pos t t' : Rel t t' -> pos t' = pos t.
  Proof. intros (_ & L & T & -> & _). reflexivity. Qed.

  Lemma rel_peek_k t t' k : Rel t t' -> lower (peek_k t' k) = lower (peek_k t k).
  Proof. intros (Hi & L & T & -> & _). unfold peek_k. cbn [mkc inp pos]. rewrite Hi. apply nth_ci. Qed.
  Lemma rel_peek t t' : Rel t t' -> lower (peek t') = lower (peek t).
  Proof. apply rel_peek_k. Qed.

  Lemma rel_peek_eqb t t' v : isletter v = false -> Rel t t' -> (peek t' =? v)%Z = (peek t =? v)%Z.
  Proof.
    intros Hv HR. pose proof (rel_peek t t' HR) as E.
    destruct (Z.eqb_spec (peek t) v) as [E1|N1].
    - rewrite E1 in E. symmetry in E. apply (lower_nonletter v _ Hv) in E. rewrite E. apply Z.eqb_refl.
    - destruct (Z.eqb_spec (peek t') v) as [E2|N2]; [|reflexivity].
      rewrite E2 in E. apply (lower_nonletter v _ Hv) in E. congruence.
  Qed.
  Lemma rel_peek_k_eqb t t' k v : isletter v = false -> Rel t t' -> (peek_k t' k =? v)%Z = (peek_k t k =? v)%Z.
  Proof.
    intros Hv HR. pose proof (rel_peek_k t t' k HR) as E.
    destruct (Z.eqb_spec (peek_k t k) v) as [E1|N1].
    - rewrite E1 in E. symmetry in E. apply (lower_nonletter v _ Hv) in E. rewrite E. apply Z.eqb_refl.
    - destruct (Z.eqb_spec (peek_k t' k) v) as [E2|N2]; [|reflexivity].
      rewrite E2 in E. apply (lower_nonletter v _ Hv) in E. congruence.
  Qed.

  Lemma rel_handle_line t t' : Rel t t' -> Rel (handle_line t) (handle_line t').
  Proof.
    intros (Hi & L & T & -> & HL & HT). unfold handle_line. cbn [mkc loff pos inp].
    destruct (loff t <=? pos t).
    - split; [exact Hi|]. cbn [inp lines_rev toks_rev].
      exists (slice s' (loff t) (pos t) :: L), T. split; [reflexivity|]. split; [|exact HT].
      constructor; [rewrite Hi; apply slice_ci|exact HL].
    - split; [exact Hi|]. exists L, T. auto.
  Qed.

  Lemma rel_set_pos t t' p : Rel t t' -> Rel (set_pos t p) (set_pos t' p).
  Proof. intros (Hi & L & T & -> & HL & HT). split; [exact Hi|]. exists L, T. auto. Qed.
  Lemma rel_ignore t t' : Rel t t' -> Rel (ignore t) (ignore t').
  Proof. intros (Hi & L & T & -> & HL & HT). split; [exact Hi|]. exists L, T. auto. Qed.

  Definition oci (c c' : option Z) : Prop :=
    match c, c' with Some a, Some b => lower b = lower a | None, None => True | _, _ => False end.

  Lemma rel_next t t' : Rel t t' -> oci (fst (next t)) (fst (next t')) /\ Rel (snd (next t)) (snd (next t')).
  Proof.
    intros HR. pose proof HR as (Hi & L & T & E & HL & HT). unfold next.
    assert (Ep : pos t' = pos t) by (subst t'; reflexivity).
    assert (Ei : inp t' = s') by (subst t'; reflexivity).
    rewrite Ei, Ep, Hi. pose proof (nth_error_ci (pos t)) as N.
    destruct (nth_error s (pos t)) as [c|]; destruct (nth_error s' (pos t)) as [c'|]; cbn in N; try discriminate.
    - injection N as N. cbn [fst snd]. split; [exact N|].
      assert (E10 : (c' =? 10)%Z = (c =? 10)%Z).
      { destruct (Z.eqb_spec c 10) as [->|Hn].
        - symmetry in N. apply (lower_nonletter 10%Z c' eq_refl) in N. subst c'. reflexivity.
        - destruct (Z.eqb_spec c' 10) as [->|]; [|reflexivity].
          apply (lower_nonletter 10%Z c eq_refl) in N. congruence. }
      rewrite E10. destruct (c =? 10)%Z; apply rel_set_pos; [apply rel_handle_line|]; exact HR.
    - cbn. split; [exact I|exact HR].
  Qed.

  Lemma oci_is c c' v : isletter v = false -> oci c c' -> oz_is c' v = oz_is c v.
  Proof.
    intros Hv H. destruct c as [a|], c' as [b|]; cbn in *; try contradiction; [|reflexivity].
    destruct (Z.eqb_spec a v) as [->|Hn].
    - symmetry in H. apply (lower_nonletter v b Hv) in H. subst b. apply Z.eqb_refl.
    - destruct (Z.eqb_spec b v) as [->|]; [|reflexivity].
      apply (lower_nonletter v a Hv) in H. congruence.
  Qed.

  Lemma oci_none c c' : oci c c' -> match c' with None => true | Some _ => false end = match c with None => true | Some _ => false end.
  Proof. destruct c, c'; cbn; intros; try contradiction; reflexivity. Qed.

  Lemma rel_accept t t' c neg : cclb c = true -> Rel t t' ->
    fst (accept t' c neg) = fst (accept t c neg) /\ Rel (snd (accept t c neg)) (snd (accept t' c neg)).
  Proof.
    intros Hc HR. unfold accept. rewrite (ccl c (peek t) (peek t') Hc) by (symmetry; apply rel_peek; exact HR).
    destruct (xorb _ _); cbn [fst snd]; (split; [reflexivity|]); [apply rel_next|]; exact HR.
  Qed.

  Lemma rel_accept_prefix t t' p : nlb p = true -> Rel t t' ->
    fst (accept_prefix t' p) = fst (accept_prefix t p) /\ Rel (snd (accept_prefix t p)) (snd (accept_prefix t' p)).
  Proof.
    intros Hp HR. pose proof HR as (Hi & L & T & E & HL & HT). unfold accept_prefix.
    assert (Ep : pos t' = pos t) by (subst t'; reflexivity).
    assert (Ei : inp t' = s') by (subst t'; reflexivity).
    rewrite Ei, Ep, Hi. rewrite (str_eqb_lci p _ _ Hp (slice_ci (pos t) (pos t + length p))).
    destruct (str_eqb _ _); cbn [fst snd]; (split; [reflexivity|]); [apply rel_set_pos|]; exact HR.
  Qed.

  Lemma rel_emit t t' ty : Rel t t' -> Rel (emit t ty) (emit t' ty).
  Proof.
    intros (Hi & L & T & -> & HL & HT). split; [exact Hi|]. cbn [emit mkc inp pos start loff cline lines_rev toks_rev fname].
    exists L, (get_token (mkc t L T) ty :: T). split; [reflexivity|]. split; [exact HL|].
    constructor; [|exact HT]. unfold tlow, get_token, current_token_text, get_position.
    cbn [t_type t_pos t_value mkc inp pos start loff cline fname]. rewrite Hi.
    split; [reflexivity|]. split; [reflexivity|apply slice_ci].
  Qed.

  Lemma rel_get_position t t' : Rel t t' -> get_position t' = get_position t.
  Proof. intros (_ & L & T & -> & _). reflexivity. Qed.

  Lemma rel_ctt t t' : Rel t t' -> lci (current_token_text t) (current_token_text t').
  Proof. intros (Hi & L & T & -> & _). unfold current_token_text. cbn [mkc inp start pos]. rewrite Hi. apply slice_ci. Qed.

  (** OK outcomes of run 1 reproduced by run 2 *)
  Definition lrel (r r' : lres sc) : Prop :=
    match r with
    | LOk a => exists a', r' = LOk a' /\ Rel a a'
    | _ => True
    end.

  Lemma lrel_bind r r' (h h' : sc -> lres sc) :
    lrel r r' -> (forall a a', Rel a a' -> lrel (h a) (h' a')) -> lrel (lbind r h) (lbind r' h').
  Proof.
    destruct r as [a|m l c a| |]; cbn [lrel lbind]; auto.
    intros (a' & -> & Ha) H. apply H. assumption.
  Qed.

  Lemma lrel_ok a a' : Rel a a' -> lrel (LOk a) (LOk a').
  Proof. intros; exists a'; auto. Qed.

  Lemma rel_accept_run c neg : cclb c = true -> forall G t t', Rel t t' ->
    lrel (accept_run G t c neg) (accept_run G t' c neg).
  Proof.
    intros Hc. induction G as [|G IH]; intros t t' HR; cbn [accept_run]; [exact I|].
    destruct (rel_accept t t' c neg Hc HR) as [Eb HR'].
    destruct (accept t c neg) as [b x]; destruct (accept t' c neg) as [b' x']. cbn [fst snd] in *. subst b'.
    destruct b; [apply IH; assumption|apply lrel_ok; assumption].
  Qed.

  Lemma rel_ignore_run c G t t' : cclb c = true -> Rel t t' -> lrel (ignore_run G t c) (ignore_run G t' c).
  Proof.
    intros Hc HR. unfold ignore_run. apply lrel_bind; [apply rel_accept_run; assumption|].
    intros a a' Ha. apply lrel_ok, rel_ignore, Ha.
  Qed.

  (* ---------------------------------------------------------------------------------------- *)
  (** ** case-blind lexers *)

  Ltac chainC HR A A' x x' HX :=
    match goal with
    | |- lrel (let '(b, s1) := accept ?t ?c false in _) (let '(b2, s2) := accept ?t' ?c false in _) =>
        let E := fresh "E" in let b' := fresh "b'" in
        destruct (rel_accept t t' c false eq_refl HR) as [E HX];
        destruct (accept t c false) as [[|] x] eqn:A; destruct (accept t' c false) as [b' x'] eqn:A';
        cbn [fst snd] in E, HX; subst b';
        [ | apply accept_false in A; apply accept_false in A'; subst x x'; clear HX ]
    | |- lrel (let '(b, s1) := accept_prefix ?t ?c in _) (let '(b2, s2) := accept_prefix ?t' ?c in _) =>
        let E := fresh "E" in let b' := fresh "b'" in
        destruct (rel_accept_prefix t t' c eq_refl HR) as [E HX];
        destruct (accept_prefix t c) as [[|] x] eqn:A; destruct (accept_prefix t' c) as [b' x'] eqn:A';
        cbn [fst snd] in E, HX; subst b';
        [ | apply accept_prefix_false in A; apply accept_prefix_false in A'; subst x x'; clear HX ]
    end.
  Ltac okE HX := apply lrel_ok, rel_emit; exact HX.

  Lemma rel_lex_identifier G t t' : Rel t t' -> lrel (lex_identifier G t) (lex_identifier G t').
  Proof.
    intros HR. unfold lex_identifier.
    apply lrel_bind; [apply rel_accept_run; [reflexivity|assumption]|]. intros a a' Ha.
    rewrite (rel_peek_eqb a a' 58%Z eq_refl Ha), (rel_peek_k_eqb a a' 1 61%Z eq_refl Ha), (rel_peek_eqb a a' 46%Z eq_refl Ha).
    destruct (_ && _).
    - apply lrel_ok, rel_ignore, rel_next, rel_emit, Ha.
    - apply lrel_bind; [|intros b b' Hb; okE Hb].
      destruct (peek a =? 46)%Z; [apply rel_accept_run; [reflexivity|apply rel_next, Ha]|apply lrel_ok, Ha].
  Qed.

  Lemma rel_quoted_loop p : forall G c c' t t', oci c c' -> Rel t t' ->
    lrel (quoted_loop G p c t) (quoted_loop G p c' t').
  Proof.
    induction G as [|G IH]; intros c c' t t' Hc HR; cbn [quoted_loop]; [exact I|].
    rewrite (oci_is c c' 39%Z eq_refl Hc), (oci_is c c' 10%Z eq_refl Hc), (oci_is c c' 92%Z eq_refl Hc), (oci_none c c' Hc).
    rewrite (rel_peek_eqb t t' 39%Z eq_refl HR).
    destruct (oz_is c 39); [okE HR|].
    destruct (_ || _); [exact I|].
    assert (H1 : Rel (if oz_is c 92 && (peek t =? 39)%Z then snd (next t) else t)
                     (if oz_is c 92 && (peek t =? 39)%Z then snd (next t') else t'))
      by (destruct (_ && _); [apply rel_next|]; exact HR).
    destruct (rel_next _ _ H1) as [Ho H2].
    destruct (next (if oz_is c 92 && (peek t =? 39)%Z then snd (next t) else t)) as [d u].
    destruct (next (if oz_is c 92 && (peek t =? 39)%Z then snd (next t') else t')) as [d' u'].
    cbn [fst snd] in *. apply IH; assumption.
  Qed.

  Lemma rel_lex_quoted_string G t t' : Rel t t' -> lrel (lex_quoted_string G t) (lex_quoted_string G t').
  Proof.
    intros HR. unfold lex_quoted_string. rewrite (rel_get_position t t' HR).
    destruct (rel_next _ _ HR) as [Ho H2]. destruct (next t) as [c u]; destruct (next t') as [c' u']. cbn [fst snd] in *.
    apply rel_quoted_loop; assumption.
  Qed.

  Lemma rel_line_comment_loop : forall G t t', Rel t t' -> lrel (line_comment_loop G t) (line_comment_loop G t').
  Proof.
    induction G as [|G IH]; intros t t' HR; cbn [line_comment_loop]; [exact I|].
    destruct (rel_next _ _ HR) as [Ho H2]. destruct (next t) as [c u]; destruct (next t') as [c' u']. cbn [fst snd] in *.
    destruct c as [x|], c' as [x'|]; cbn in Ho; try contradiction; [|apply lrel_ok, H2].
    assert (E10 : (x' =? 10)%Z = (x =? 10)%Z) by (apply (oci_is (Some x) (Some x') 10%Z eq_refl Ho)).
    rewrite E10. destruct (x =? 10)%Z; [apply lrel_ok, H2|apply IH, H2].
  Qed.

  Lemma rel_block_comment_loop p : forall G t t', Rel t t' ->
    lrel (block_comment_loop G p t) (block_comment_loop G p t').
  Proof.
    induction G as [|G IH]; intros t t' HR; cbn [block_comment_loop]; [exact I|].
    destruct (rel_accept_prefix t t' [42%Z; 47%Z] eq_refl HR) as [E HX].
    destruct (accept_prefix t [42%Z; 47%Z]) as [b x]; destruct (accept_prefix t' [42%Z; 47%Z]) as [b' x'].
    cbn [fst snd] in *. subst b'. destruct b; [apply lrel_ok, HX|].
    destruct (rel_next _ _ HX) as [Ho H2]. destruct (next x) as [c u]; destruct (next x') as [c' u']. cbn [fst snd] in *.
    destruct c as [y|], c' as [y'|]; cbn in Ho; try contradiction; [apply IH, H2|exact I].
  Qed.

  (** ** the number lexer: the base prefix is case-sensitive *)
  Lemma base_prefix_same u u' q v : Rel u u' -> pos u = S q -> nth q s 0%Z = 48%Z ->
    In v [98; 111; 120]%Z -> oz_is (fst (next u')) v = oz_is (fst (next u)) v.
  Proof.
    intros HR Hp H0 Hv. pose proof HR as (Hi & L & T & E & _).
    assert (Ep : pos u' = pos u) by (subst u'; reflexivity).
    assert (Ei : inp u' = s') by (subst u'; reflexivity).
    unfold next. rewrite Ei, Ep, Hi, Hp.
    pose proof (nth_error_ci (S q)) as N. pose proof (nth_ci (S q)) as Nc.
    destruct Hsafe as [Hnum _]. specialize (Hnum q H0).
    destruct (nth_error s (S q)) as [c|] eqn:E1; destruct (nth_error s' (S q)) as [c'|] eqn:E2; cbn in N; try discriminate;
      [|reflexivity].
    apply nth_error_nth0 in E1, E2. rewrite E1, E2 in *. cbn [fst oz_is].
    destruct (mem_z (lower c) [98; 111; 120]%Z) eqn:M.
    - rewrite (Hnum eq_refl). reflexivity.
    - assert (Hl : lower v = v) by (cbn in Hv; destruct Hv as [<- | [<- | [<- | []]]]; reflexivity).
      assert (Mv : mem_z v [98; 111; 120]%Z = true) by (apply mem_z_In; exact Hv).
      assert (N1 : c <> v) by (intros ->; rewrite Hl in M; congruence).
      assert (N2 : c' <> v) by (intros ->; rewrite Hl in Nc; rewrite <- Nc in M; congruence).
      apply Z.eqb_neq in N1, N2. congruence.
  Qed.

  Lemma rel_lex_number G t t' : Rel t t' -> lrel (lex_number G t) (lex_number G t').
  Proof.
    intros HR. unfold lex_number, backup. rewrite (Rel_pos t t' HR).
    destruct (pos t) as [|q] eqn:Eq; [exact I|]. cbn [lbind].
    pose proof (rel_set_pos t t' q HR) as Hu.
    destruct (rel_next _ _ Hu) as [Ho H1].
    pose proof (next_fields (set_pos t q)) as (_ & _ & _ & _ & P1 & P2). cbn [set_pos pos] in P1, P2.
    destruct (next (set_pos t q)) as [ch s1] eqn:N1; destruct (next (set_pos t' q)) as [ch' s1']. cbn [fst snd] in *.
    rewrite (rel_peek_eqb s1 s1' 10%Z eq_refl H1), (rel_peek_eqb s1 s1' 0%Z eq_refl H1).
    destruct (_ || _); [okE H1|].
    apply lrel_bind; [|intros b b' Hb; okE Hb].
    rewrite (oci_is ch ch' 48%Z eq_refl Ho).
    destruct (oz_is ch 48) eqn:C48; [|apply rel_accept_run; [reflexivity|assumption]].
    (* a leading 0 at offset q *)
    destruct ch as [c0|]; [|discriminate]. cbn in C48. apply Z.eqb_eq in C48. subst c0.
    pose proof (next_char _ _ _ N1) as H0. destruct HR as [Hi _]. cbn [set_pos pos inp] in H0. rewrite Hi in H0.
    apply next_some in N1 as (_ & _ & _ & Hp1 & _). cbn [set_pos pos] in Hp1.
    pose proof (base_prefix_same s1 s1' q 98%Z H1 Hp1 H0 ltac:(cbn; auto)) as B1.
    pose proof (base_prefix_same s1 s1' q 111%Z H1 Hp1 H0 ltac:(cbn; auto)) as B2.
    pose proof (base_prefix_same s1 s1' q 120%Z H1 Hp1 H0 ltac:(cbn; auto)) as B3.
    destruct (rel_next _ _ H1) as [_ H2].
    destruct (next s1) as [bp s2]; destruct (next s1') as [bp' s2']. cbn [fst snd] in *. rewrite B1, B2, B3.
    destruct (oz_is bp 98); [apply rel_accept_run; [reflexivity|assumption]|].
    destruct (oz_is bp 111); [apply rel_accept_run; [reflexivity|assumption]|].
    destruct (oz_is bp 120); [apply rel_accept_run; [reflexivity|assumption]|].
    unfold backup. rewrite (Rel_pos s2 s2' H2). destruct (pos s2); [exact I|]. apply lrel_ok, rel_set_pos, H2.
  Qed.

  (** ** operands *)
  Lemma rel_or_prefix (r r' : bool * sc) p : nlb p = true -> fst r' = fst r -> Rel (snd r) (snd r') ->
    fst (accept_or r' (fun x => accept_prefix x p)) = fst (accept_or r (fun x => accept_prefix x p)) /\
    Rel (snd (accept_or r (fun x => accept_prefix x p))) (snd (accept_or r' (fun x => accept_prefix x p))).
  Proof.
    intros Hp Hb HR. unfold accept_or. destruct r as [b y], r' as [b' y']. cbn [fst snd] in *. subst b'.
    destruct b; cbn [fst snd]; [auto|]. apply rel_accept_prefix; assumption.
  Qed.

  Lemma rel_lex_expression_loop G : forall fuel t t', Rel t t' ->
    lrel (lex_expression_loop fuel G t) (lex_expression_loop fuel G t').
  Proof.
    induction fuel as [|fuel IH]; intros t t' HR; cbn [lex_expression_loop]; [exact I|].
    assert (El : (pos t' <? length (inp t')) = (pos t <? length (inp t))).
    { destruct HR as (Hi & L & T & -> & _). cbn [mkc pos inp]. rewrite Hi, len_eq. reflexivity. }
    rewrite El. destruct (pos t <? length (inp t)); [|apply lrel_ok, HR].
    apply lrel_bind; [apply rel_ignore_run; [reflexivity|assumption]|]. clear t t' HR El. intros t t' HR.
    chainC HR A A' x x' HX.
    { apply lrel_bind; [apply rel_lex_number, HX|]. intros; apply IH; assumption. }
    chainC HR A A' x x' HX.
    { apply lrel_bind; [apply rel_lex_identifier, HX|]. intros; apply IH; assumption. }
    destruct (rel_accept t t' expr_ops false eq_refl HR) as [E0 H0].
    destruct (rel_or_prefix (accept t expr_ops false) (accept t' expr_ops false) [60%Z;60%Z] eq_refl E0 H0) as [E1 H1].
    destruct (rel_or_prefix _ _ [62%Z;62%Z] eq_refl E1 H1) as [E2 H2].
    pose proof (accept_or_false3 t (fun x => accept_prefix x [60%Z;60%Z]) (fun x => accept_prefix x [62%Z;62%Z]) expr_ops
                  (fun x y => accept_prefix_false x _ y) (fun x y => accept_prefix_false x _ y)) as Hr.
    pose proof (accept_or_false3 t' (fun x => accept_prefix x [60%Z;60%Z]) (fun x => accept_prefix x [62%Z;62%Z]) expr_ops
                  (fun x y => accept_prefix_false x _ y) (fun x y => accept_prefix_false x _ y)) as Hr'.
    destruct (accept_or (accept_or (accept t expr_ops false) (fun x => accept_prefix x [60%Z;60%Z]))
                        (fun x => accept_prefix x [62%Z;62%Z])) as [b3 x3].
    destruct (accept_or (accept_or (accept t' expr_ops false) (fun x => accept_prefix x [60%Z;60%Z]))
                        (fun x => accept_prefix x [62%Z;62%Z])) as [b3' x3'].
    cbn [fst snd] in *. subst b3'. destruct b3; [apply IH, rel_emit, H2|].
    specialize (Hr eq_refl). specialize (Hr' eq_refl). subst x3 x3'. clear E0 H0 E1 H1 H2.
    chainC HR A A' x x' HX; [apply IH, rel_emit, HX|].
    chainC HR A A' x x' HX; [apply IH, rel_emit, HX|].
    apply lrel_ok, HR.
  Qed.

  Lemma rel_lex_opcode_index G t t' : Rel t t' -> lrel (lex_opcode_index G t) (lex_opcode_index G t').
  Proof.
    intros HR. unfold lex_opcode_index. cbv zeta.
    apply lrel_bind; [apply rel_ignore_run; [reflexivity|apply rel_ignore, HR]|]. intros a a' Ha.
    destruct (rel_accept a a' index_chars false eq_refl Ha) as [E HX].
    destruct (accept a index_chars false) as [b x]; destruct (accept a' index_chars false) as [b' x'].
    cbn [fst snd] in *. subst b'. destruct b; [okE HX|exact I].
  Qed.

  Lemma rel_lex_operand G t t' : Rel t t' -> lrel (lex_operand G t) (lex_operand G t').
  Proof.
    intros HR. unfold lex_operand. cbv zeta.
    rewrite (rel_peek_eqb t t' 35%Z eq_refl HR), (rel_peek_eqb t t' 40%Z eq_refl HR), (rel_peek_eqb t t' 91%Z eq_refl HR).
    assert (H1 : Rel (if (peek t =? 35)%Z then emit (snd (next t)) T_SHARP
                      else if (peek t =? 40)%Z then emit (snd (next t)) T_LPAREN
                      else if (peek t =? 91)%Z then emit (snd (next t)) T_LBRAKET else t)
                     (if (peek t =? 35)%Z then emit (snd (next t')) T_SHARP
                      else if (peek t =? 40)%Z then emit (snd (next t')) T_LPAREN
                      else if (peek t =? 91)%Z then emit (snd (next t')) T_LBRAKET else t')).
    { destruct (peek t =? 35)%Z; [apply rel_emit, rel_next, HR|].
      destruct (peek t =? 40)%Z; [apply rel_emit, rel_next, HR|].
      destruct (peek t =? 91)%Z; [apply rel_emit, rel_next, HR|exact HR]. }
    apply lrel_bind; [apply rel_ignore_run; [reflexivity|exact H1]|]. intros y2 y2' H2.
    apply lrel_bind; [apply rel_lex_expression_loop; exact H2|]. intros y3 y3' H3.
    apply lrel_bind; [apply rel_ignore_run; [reflexivity|exact H3]|]. intros y4 y4' H4.
    destruct (rel_accept y4 y4' [44%Z] false eq_refl H4) as [E5 H5].
    destruct (accept y4 [44%Z] false) as [b y5]; destruct (accept y4' [44%Z] false) as [b' y5'].
    cbn [fst snd] in *. subst b'.
    apply lrel_bind; [destruct b; [apply rel_lex_opcode_index|apply lrel_ok]; exact H5|]. intros y6 y6' H6.
    rewrite (rel_peek_eqb y6 y6' 41%Z eq_refl H6), (rel_peek_eqb y6 y6' 93%Z eq_refl H6).
    assert (H7 : Rel (if (peek y6 =? 41)%Z then emit (snd (next y6)) T_RPAREN
                      else if (peek y6 =? 93)%Z then emit (snd (next y6)) T_RBRAKET else y6)
                     (if (peek y6 =? 41)%Z then emit (snd (next y6')) T_RPAREN
                      else if (peek y6 =? 93)%Z then emit (snd (next y6')) T_RBRAKET else y6')).
    { destruct (peek y6 =? 41)%Z; [apply rel_emit, rel_next, H6|].
      destruct (peek y6 =? 93)%Z; [apply rel_emit, rel_next, H6|exact H6]. }
    apply lrel_bind; [apply rel_ignore_run; [reflexivity|exact H7]|]. intros y8 y8' H8.
    destruct (rel_accept y8 y8' [44%Z] false eq_refl H8) as [E9 H9].
    destruct (accept y8 [44%Z] false) as [c y9]; destruct (accept y8' [44%Z] false) as [c' y9'].
    cbn [fst snd] in *. subst c'. destruct c; [apply rel_lex_opcode_index|apply lrel_ok]; exact H9.
  Qed.

  Lemma rel_lex_opcode_size G t t' : Rel t t' -> lrel (lex_opcode_size G t) (lex_opcode_size G t').
  Proof.
    intros HR. unfold lex_opcode_size. cbv zeta.
    destruct (rel_accept (ignore t) (ignore t') size_chars false eq_refl (rel_ignore t t' HR)) as [E HX].
    destruct (accept (ignore t) size_chars false) as [b x]; destruct (accept (ignore t') size_chars false) as [b' x'].
    cbn [fst snd] in *. subst b'. destruct b; [|exact I].
    apply lrel_bind; [apply rel_ignore_run; [reflexivity|apply rel_emit, HX]|]. intros y y' Hy.
    apply rel_lex_operand, Hy.
  Qed.

  Lemma rel_lex_opcode_tail G t t' : Rel t t' -> lrel (lex_opcode_tail G t) (lex_opcode_tail G t').
  Proof.
    intros HR. unfold lex_opcode_tail.
    destruct (rel_accept t t' [46%Z] false eq_refl HR) as [E HX].
    destruct (accept t [46%Z] false) as [b x]; destruct (accept t' [46%Z] false) as [b' x'].
    cbn [fst snd] in *. subst b'.
    apply lrel_bind; [destruct b; [apply rel_lex_opcode_size|apply lrel_ok]; exact HX|]. intros y y' Hy.
    apply lrel_bind; [apply rel_ignore_run; [reflexivity|exact Hy]|]. intros z z' Hz.
    apply rel_lex_operand, Hz.
  Qed.

  (** ** mnemonics: compared lower-cased *)
  Lemma rel_cand t t' a b : Rel t t' -> map lower (slice (inp t') a b) = map lower (slice (inp t) a b).
  Proof. intros (Hi & L & T & -> & _). cbn [mkc inp]. rewrite Hi. symmetry. apply slice_ci. Qed.

  Lemma rel_accept_opcode lx t t' : Rel t t' ->
    fst (accept_opcode lx t') = fst (accept_opcode lx t) /\ Rel (snd (accept_opcode lx t)) (snd (accept_opcode lx t')).
  Proof.
    intros HR. unfold accept_opcode.
    assert (E1 : start t' = start t /\ pos t' = pos t) by (destruct HR as (_ & L & T & -> & _); auto).
    destruct E1 as [Es Ep]. rewrite Es, Ep, (rel_cand t t' _ _ HR).
    rewrite (ccl [32; 10; 9; 46; 0]%Z (peek_k t 3) (peek_k t' 3) eq_refl) by (symmetry; apply rel_peek_k; exact HR).
    destruct (_ && _); cbn [fst snd]; (split; [reflexivity|]); [apply rel_set_pos|]; exact HR.
  Qed.

  Lemma rel_lex_opcode G lx t t' : Rel t t' -> lrel (lex_opcode G lx t) (lex_opcode G lx t').
  Proof.
    intros HR. unfold lex_opcode. cbv zeta.
    assert (E1 : start t' = start t /\ pos t' = pos t) by (destruct HR as (_ & L & T & -> & _); auto).
    destruct E1 as [Es Ep]. rewrite Es, Ep, (rel_cand t t' _ _ HR), (rel_peek_eqb t t' 46%Z eq_refl HR).
    destruct (_ && _); [|apply rel_lex_opcode_tail, rel_emit, HR].
    apply lrel_bind; [apply rel_accept_run; [reflexivity|exact HR]|]. intros y1 y1' H1.
    destruct (rel_accept y1 y1' [59%Z] false eq_refl H1) as [E2 H2].
    destruct (accept y1 [59%Z] false) as [b y2]; destruct (accept y1' [59%Z] false) as [b' y2'].
    cbn [fst snd] in *. subst b'.
    apply lrel_bind; [destruct b; [apply rel_accept_run; [reflexivity|]|apply lrel_ok]; exact H2|]. intros y3 y3' H3.
    rewrite (rel_peek_eqb y3 y3' 10%Z eq_refl H3), (rel_peek_eqb y3 y3' 0%Z eq_refl H3).
    destruct (_ || _); [okE (rel_set_pos y3 y3' (pos t) H3)|].
    apply rel_lex_opcode_tail, rel_emit, rel_set_pos, H3.
  Qed.

  (* ---------------------------------------------------------------------------------------- *)
  (** ** keywords: lower-case only *)
  Variable lx : lexicon.
  Hypothesis Hkw : kw_ok lx = true.

  Lemma slice_agree a b : (forall p, a <= p < b -> nth p s' 0%Z = nth p s 0%Z) -> slice s' a b = slice s a b.
  Proof.
    intros H. apply (List.nth_ext _ _ 0%Z 0%Z).
    - unfold slice. rewrite !firstn_length, !skipn_length, len_eq. reflexivity.
    - intros j Hj. unfold slice in Hj. rewrite firstn_length, skipn_length in Hj.
      rewrite !nth_slice by lia. apply H. lia.
  Qed.

  (** a run over a stretch on which the texts agree (no matter whether the set is case-closed) *)
  Lemma rel_accept_run_agree c : forall G t t' a, Rel t t' -> accept_run G t c false = LOk a ->
    (forall p, pos t <= p <= pos a -> nth p s' 0%Z = nth p s 0%Z) ->
    exists a', accept_run G t' c false = LOk a' /\ Rel a a'.
  Proof.
    induction G as [|G IH]; intros t t' a HR; cbn [accept_run]; [discriminate|].
    intros H Hag.
    assert (Hle : pos t <= pos a).
    { destruct (accept t c false) as [b x] eqn:A. destruct b.
      - pose proof (accept_run_fields _ _ _ _ _ H) as (_ & _ & _ & _ & P & _).
        pose proof (accept_fields t c false) as (_ & _ & _ & _ & Q & _). rewrite A in Q. cbn in Q. lia.
      - injection H as <-. apply accept_false in A. subst x. lia. }
    assert (Epk : peek t' = peek t).
    { pose proof HR as (Hi & L & T & -> & _). rewrite !peek_nth. cbn [mkc inp pos]. rewrite Hi. apply Hag. lia. }
    assert (Eacc : fst (accept t' c false) = fst (accept t c false) /\ Rel (snd (accept t c false)) (snd (accept t' c false))).
    { unfold accept. rewrite Epk. destruct (xorb _ _); cbn [fst snd]; (split; [reflexivity|]); [apply rel_next|]; exact HR. }
    destruct Eacc as [Eb HX].
    pose proof (accept_fields t c false) as (_ & _ & _ & _ & Q1 & _).
    destruct (accept t c false) as [b x]; destruct (accept t' c false) as [b' x']. cbn [fst snd] in *. subst b'.
    destruct b.
    - apply (IH x x' a HX H). intros p Hp. apply Hag. lia.
    - injection H as <-. eauto.
  Qed.

  Lemma kw_lower_id c : mem_z c kw_chars = true -> lower c = c.
  Proof.
    intros H. apply mem_z_In in H. unfold kw_chars in H. cbn in H.
    repeat (destruct H as [<- | H]; [reflexivity|]). contradiction.
  Qed.

  (** entered right after the "." *)
  Lemma rel_lex_keyword G t t' : Rel t t' -> 1 <= pos t -> nth (pos t - 1) s 0%Z = 46%Z ->
    lrel (lex_keyword G lx t) (lex_keyword G lx t').
  Proof.
    intros HR Hp1 Hdot. unfold lex_keyword. cbv zeta.
    destruct (accept_run G (ignore t) kw_chars false) as [a|m l c a| |] eqn:R; cbn [lbind]; try exact I.
    destruct (mem_str (current_token_text a) (lx_keywords lx)) eqn:M; [|destruct (accept_run G (ignore t') kw_chars false); exact I].
    pose proof (accept_run_fields _ _ _ _ _ R) as (Hia & Hsa & _ & _ & Hle & Hstop).
    rewrite xorb_false_r in Hstop. cbn [ignore inp start pos] in Hia, Hsa, Hle.
    pose proof (accept_run_between _ _ _ _ R) as Hbt. cbn [ignore inp pos] in Hbt.
    pose proof HR as (Hi & _). rewrite Hi in Hia.
    unfold kw_ok in Hkw. repeat (apply andb_true_iff in Hkw as [Hkw ?]).
    repeat match goal with H : negb _ = true |- _ => apply negb_true_iff in H end.
    (* the texts agree on the keyword and on the character that ends it *)
    assert (Hag : forall p, pos t <= p <= pos a -> nth p s' 0%Z = nth p s 0%Z).
    { intros p Hp. destruct Hsafe as [_ Hd].
      destruct (Hd (pos t - 1) p ltac:(lia) Hdot) as [E|(E1 & E2 & E3)]; [|exact E|].
      - intros i Hi'. rewrite <- Hi. apply Hbt. lia.
      - exfalso. (* the size-suffix shape cannot be a keyword *)
        assert (Ep : p = pos t) by lia. clear E1. subst p.
        unfold current_token_text in M. rewrite Hia, Hsa in M.
        destruct (Nat.eq_dec (pos a) (pos t)) as [Eq|Nq].
        + rewrite Eq in M. unfold slice in M. rewrite Nat.sub_diag in M. cbn in M. congruence.
        + assert (Hin : mem_z (nth (pos t) s 0%Z) kw_chars = true) by (rewrite <- Hi; apply Hbt; lia).
          assert (Hq : pos a = S (pos t)).
          { destruct (Nat.eq_dec (pos a) (S (pos t))) as [|Nq2]; [assumption|]. exfalso.
            assert (Hin2 : mem_z (nth (S (pos t)) s 0%Z) kw_chars = true) by (rewrite <- Hi; apply Hbt; lia).
            congruence. }
          assert (Hlt : pos t < length s).
          { destruct (Nat.lt_ge_cases (pos t) (length s)) as [|Hge]; [assumption|].
            rewrite nth_overflow in Hin by assumption. discriminate. }
          assert (Esl : slice s (pos t) (pos a) = [nth (pos t) s 0%Z]).
          { rewrite Hq. apply (List.nth_ext _ _ 0%Z 0%Z).
            - rewrite slice_length by lia. cbn [length]. lia.
            - intros j Hj. rewrite slice_length in Hj by lia. assert (j = 0) by lia. subst j.
              rewrite nth_slice by lia. rewrite Nat.add_0_r. reflexivity. }
          rewrite Esl in M. rewrite (kw_lower_id _ Hin) in E2.
          apply mem_z_In in E2. cbn in E2. destruct E2 as [E2|[E2|[E2|[]]]]; rewrite <- E2 in M; congruence. }
    destruct (rel_accept_run_agree kw_chars G (ignore t) (ignore t') a (rel_ignore t t' HR) R) as (a' & R' & Ha).
    { cbn [ignore pos]. exact Hag. }
    rewrite R'. cbn [lbind].
    assert (Ect : current_token_text a' = current_token_text a).
    { pose proof Ha as (_ & L & T & -> & _). unfold current_token_text. cbn [mkc inp start pos]. rewrite Hia, Hsa.
      apply slice_agree. intros p Hp. apply Hag. lia. }
    rewrite Ect, M. okE Ha.
  Qed.

  (* ---------------------------------------------------------------------------------------- *)
  (** ** lex_initial and the driver *)

  Lemma rel_two t t' c ty1 ty2 : cclb c = true -> Rel t t' ->
    lrel (let '(b, y) := accept t c false in if b then LOk (emit y ty1) else LOk (emit y ty2))
         (let '(b, y) := accept t' c false in if b then LOk (emit y ty1) else LOk (emit y ty2)).
  Proof.
    intros Hc HR. destruct (rel_accept t t' c false Hc HR) as [E HX].
    destruct (accept t c false) as [b x]; destruct (accept t' c false) as [b' x']. cbn [fst snd] in *. subst b'.
    destruct b; okE HX.
  Qed.

  Lemma rel_lex_initial_rest G t t' : Rel t t' -> lrel (lex_initial_rest lx G t) (lex_initial_rest lx G t').
  Proof.
    intros HR. unfold lex_initial_rest.
    chainC HR A A' x x' HX.
    { apply lrel_bind; [apply rel_line_comment_loop, HX|]. intros a a' Ha. okE Ha. }
    chainC HR A A' x x' HX; [apply rel_lex_number, HX|].
    chainC HR A A' x x' HX; [okE HX|].
    chainC HR A A' x x' HX; [okE HX|].
    chainC HR A A' x x' HX; [okE HX|].
    chainC HR A A' x x' HX; [okE HX|].
    chainC HR A A' x x' HX; [okE HX|].
    (* the comparison operators *)
    destruct (rel_accept_prefix t t' [62%Z] eq_refl HR) as [E0 H0].
    destruct (rel_or_prefix (accept_prefix t [62%Z]) (accept_prefix t' [62%Z]) [60%Z] eq_refl E0 H0) as [E1 H1].
    destruct (rel_or_prefix _ _ [62%Z;61%Z] eq_refl E1 H1) as [E2 H2].
    destruct (rel_or_prefix _ _ [60%Z;61%Z] eq_refl E2 H2) as [E3 H3].
    assert (Hr : forall u, fst (accept_or (accept_or (accept_or (accept_prefix u [62%Z]) (fun x => accept_prefix x [60%Z]))
                                   (fun x => accept_prefix x [62%Z;61%Z])) (fun x => accept_prefix x [60%Z;61%Z])) = false ->
                 snd (accept_or (accept_or (accept_or (accept_prefix u [62%Z]) (fun x => accept_prefix x [60%Z]))
                                   (fun x => accept_prefix x [62%Z;61%Z])) (fun x => accept_prefix x [60%Z;61%Z])) = u).
    { intros u. unfold accept_or.
      destruct (accept_prefix u [62%Z]) as [b1 t1] eqn:B1. cbn [fst snd].
      destruct b1; cbn [fst snd]; [discriminate|]. apply accept_prefix_false in B1; subst t1.
      destruct (accept_prefix u [60%Z]) as [b1 t1] eqn:B1. cbn [fst snd].
      destruct b1; cbn [fst snd]; [discriminate|]. apply accept_prefix_false in B1; subst t1.
      destruct (accept_prefix u [62%Z;61%Z]) as [b1 t1] eqn:B1. cbn [fst snd].
      destruct b1; cbn [fst snd]; [discriminate|]. apply accept_prefix_false in B1; subst t1.
      destruct (accept_prefix u [60%Z;61%Z]) as [b1 t1] eqn:B1. cbn [fst snd].
      destruct b1; cbn [fst snd]; [discriminate|]. apply accept_prefix_false in B1; subst t1. reflexivity. }
    pose proof (Hr t) as Hrt. pose proof (Hr t') as Hrt'. clear Hr E0 H0 E1 H1 E2 H2.
    destruct (accept_or (accept_or (accept_or (accept_prefix t [62%Z]) (fun x => accept_prefix x [60%Z]))
                                   (fun x => accept_prefix x [62%Z;61%Z])) (fun x => accept_prefix x [60%Z;61%Z])) as [b8 x8].
    destruct (accept_or (accept_or (accept_or (accept_prefix t' [62%Z]) (fun x => accept_prefix x [60%Z]))
                                   (fun x => accept_prefix x [62%Z;61%Z])) (fun x => accept_prefix x [60%Z;61%Z])) as [b8' x8'].
    cbn [fst snd] in *. subst b8'. destruct b8; [okE H3|].
    specialize (Hrt eq_refl). specialize (Hrt' eq_refl). subst x8 x8'. clear H3.
    chainC HR A A' x x' HX.
    { (* a letter *)
      unfold backup. rewrite (Rel_pos x x' HX). destruct (pos x) as [|q]; [exact I|]. cbn [lbind].
      destruct (rel_accept_opcode lx (set_pos x q) (set_pos x' q) (rel_set_pos x x' q HX)) as [E Hv].
      destruct (accept_opcode lx (set_pos x q)) as [b v]; destruct (accept_opcode lx (set_pos x' q)) as [b' v'].
      cbn [fst snd] in *. subst b'. destruct b; [apply rel_lex_opcode|apply rel_lex_identifier]; exact Hv. }
    chainC HR A A' x x' HX.
    { pose proof (accept_true _ _ _ _ A eq_refl eq_refl) as (_ & Hp1 & Hlt & Hm & _).
      destruct HR as [Hi _].
      apply rel_lex_keyword; [exact HX|lia|].
      rewrite Hp1. cbn. rewrite Nat.sub_0_r. apply mem_z_In in Hm. cbn in Hm. rewrite peek_nth, Hi in Hm. intuition. }
    chainC HR A A' x x' HX; [okE HX|].
    chainC HR A A' x x' HX; [okE HX|].
    chainC HR A A' x x' HX; [okE HX|].
    chainC HR A A' x x' HX; [apply rel_two; [reflexivity|exact HX]|].
    chainC HR A A' x x' HX; [apply rel_lex_quoted_string, HX|].
    chainC HR A A' x x' HX; [okE HX|].
    chainC HR A A' x x' HX; [okE HX|].
    chainC HR A A' x x' HX; [okE HX|].
    chainC HR A A' x x' HX; [okE HX|].
    chainC HR A A' x x' HX; [apply rel_two; [reflexivity|exact HX]|].
    chainC HR A A' x x' HX; [apply rel_two; [reflexivity|exact HX]|].
    chainC HR A A' x x' HX; [okE HX|].
    chainC HR A A' x x' HX.
    { cbv zeta. rewrite (rel_get_position x x' HX).
      apply lrel_bind; [apply rel_block_comment_loop, HX|]. intros a a' Ha. okE Ha. }
    destruct (rel_next _ _ HR) as [Ho H2]. destruct (next t) as [c u]; destruct (next t') as [c' u']. cbn [fst snd] in *.
    destruct c as [y|], c' as [y'|]; cbn in Ho; try contradiction; [exact I|apply lrel_ok, H2].
  Qed.

  Lemma rel_lex_initial G t t' : Rel t t' -> lrel (lex_initial lx G t) (lex_initial lx G t').
  Proof.
    intros HR. rewrite !lex_initial_split.
    apply lrel_bind; [apply rel_ignore_run; [reflexivity|exact HR]|]. intros a a' Ha.
    apply rel_lex_initial_rest, Ha.
  Qed.

  Lemma rel_scan_loop G : forall j t t' toks lines, Rel t t' ->
    scan_loop j G (lex_initial lx) t = ScanOk toks lines ->
    exists toks' lines', scan_loop j G (lex_initial lx) t' = ScanOk toks' lines' /\
                         Forall2 tlow toks toks' /\ Forall2 lci lines lines'.
  Proof.
    induction j as [|j IH]; intros t t' toks lines HR H; [discriminate|].
    cbn [scan_loop] in H |- *.
    assert (El : (pos t' <? length (inp t')) = (pos t <? length (inp t))).
    { destruct HR as (Hi & L & T & -> & _). cbn [mkc pos inp]. rewrite Hi, len_eq. reflexivity. }
    rewrite El. destruct (pos t <? length (inp t)).
    - pose proof (rel_lex_initial G t t' HR) as P.
      destruct (lex_initial lx G t) as [u|m l c u| |];
        try (exfalso; eapply scan_handler_not_ok; eassumption); try discriminate.
      destruct P as (u' & -> & Hu). rewrite (Rel_pos u u' Hu), (Rel_pos t t' HR).
      destruct (pos u =? pos t); [exfalso; eapply scan_handler_not_ok; eassumption|].
      eapply IH; eassumption.
    - injection H as <- <-.
      pose proof (rel_handle_line _ _ (rel_emit t t' T_EOF HR)) as (_ & L & T & -> & HL & HT).
      cbn [mkc toks_rev lines_rev]. do 2 eexists. split; [reflexivity|].
      split; apply Forall2_rev; assumption.
  Qed.
End CaseSim.
