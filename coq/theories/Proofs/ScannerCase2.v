(** Scanner proofs, part 6b (C16, letter case): theorems.
    Two texts equal up to ASCII letter case scan in lock step (same token types and positions,
    values equal up to case), provided the differences stay clear of the two case-sensitive
    decisions of the scanner (keywords after ".", the base prefix after a leading 0). *)
From A816 Require Import Model.Scanner Proofs.ScannerSpec Proofs.ScannerFuel Proofs.ScannerPos
  Proofs.ScannerMono Proofs.ScannerShift Proofs.ScannerPrefix Proofs.ScannerLayout
  Proofs.ScannerComments Proofs.ScannerColumns Proofs.ScannerTrailing1 Proofs.ScannerCase1.
From A816 Require Import Model.Expr.
From Coq Require Import Arith Lia.
Open Scope nat_scope.

(** the texts are equal up to ASCII letter case *)
Definition ci_text (s s' : str) : Prop := map Scanner.lower s = map Scanner.lower s'.

(** Lock step: whatever letters were re-cased (mnemonics, size suffixes, index registers, hex
    digits, but also identifiers, strings, comments), the second scan succeeds with tokens of the
    same types at the same positions whose values are equal up to case; [file.lines] likewise. *)
Theorem scan_case_lockstep : forall lx file s s' toks lines,
  kw_ok lx = true -> ci_text s s' -> case_safe s s' ->
  scan lx file s = ScanOk toks lines ->
  exists toks' lines', scan lx file s' = ScanOk toks' lines' /\
                       Forall2 tlow toks toks' /\ Forall2 lci lines lines'.
Proof.
  intros lx file s s' toks lines Hkw Hci Hsafe H.
  unfold scan, scan_with_fuel, scan_gen, scan_fuel in *.
  rewrite (len_eq s s' Hci).
  apply (rel_scan_loop s s' Hci Hsafe lx Hkw (length s + 2) (length s + 2) (init_sc file s) (init_sc file s') toks lines);
    [|exact H].
  split; [reflexivity|]. exists [], []. repeat split; constructor.
Qed.

(** The token types whose VALUE the later stages read only through [lower] (mnemonics: code
    generation lower-cases them; size suffix and index register: the parser lower-cases them) or
    through a case-blind evaluation (numbers: hex digits). *)
Definition zone_type (ty : ttype) : bool :=
  match ty with
  | T_OPCODE | T_OPCODE_NAKED | T_OPCODE_SIZE | T_ADDRESSING_MODE_INDEX | T_NUMBER | T_COMMENT => true
  | _ => false
  end.

(** same type, same position; same value — up to case for the zone types *)
Definition tci' (t t' : token) : Prop :=
  t_type t = t_type t' /\ t_pos t = t_pos t' /\
  (if zone_type (t_type t) then lci (t_value t) (t_value t') else t_value t = t_value t').

(** "only mnemonics, size suffixes, index registers, numbers (hex digits) and comments were
    re-cased": every other token kept its value *)
Definition only_zones_recased (toks toks' : list token) : Prop :=
  Forall2 (fun t t' => zone_type (t_type t) = false -> t_value t = t_value t') toks toks'.

Lemma tlow_tci' toks toks' : Forall2 tlow toks toks' -> only_zones_recased toks toks' -> Forall2 tci' toks toks'.
Proof.
  intros H. induction H as [|t t' l l' (H1 & H2 & H3) _ IH]; intros Hz; [constructor|].
  inversion Hz as [|? ? ? ? Hv Hr]; subst. constructor; [|apply IH; assumption].
  unfold tci'. split; [exact H1|]. split; [exact H2|].
  destruct (zone_type (t_type t)); [exact H3|apply Hv; reflexivity].
Qed.

Theorem scan_case_zones : forall lx file s s' toks lines,
  kw_ok lx = true -> ci_text s s' -> case_safe s s' ->
  scan lx file s = ScanOk toks lines ->
  exists toks' lines', scan lx file s' = ScanOk toks' lines' /\ Forall2 lci lines lines' /\
    Forall2 tlow toks toks' /\ (only_zones_recased toks toks' -> Forall2 tci' toks toks').
Proof.
  intros lx file s s' toks lines Hkw Hci Hsafe H.
  destruct (scan_case_lockstep lx file s s' toks lines Hkw Hci Hsafe H) as (toks' & lines' & E & HT & HL).
  exists toks', lines'. repeat split; auto. apply tlow_tci'. assumption.
Qed.

(* ------------------------------------------------------------------------------------------ *)
(** * Numbers: evaluation is blind to the case of hex digits *)

Lemma digit_val_ci c c' : Scanner.lower c = Scanner.lower c' -> digit_val c' = digit_val c.
Proof.
  intros H. destruct (lower_eq_cases c c' H) as [-> | ->]; [reflexivity|].
  unfold digit_val, swapcase.
  destruct ((65 <=? c) && (c <=? 90))%Z eqn:A; destruct ((97 <=? c) && (c <=? 122))%Z eqn:B;
    destruct ((48 <=? c) && (c <=? 57))%Z eqn:D; destruct ((97 <=? c) && (c <=? 102))%Z eqn:E;
    destruct ((65 <=? c) && (c <=? 70))%Z eqn:G;
    rewrite ?andb_true_iff, ?andb_false_iff, ?Z.leb_le, ?Z.leb_gt in *; try lia;
    repeat match goal with
    | |- context [((?a <=? ?b) && (?c <=? ?d))%Z] =>
        let X := fresh "X" in destruct ((a <=? b) && (c <=? d))%Z eqn:X;
        rewrite ?andb_true_iff, ?andb_false_iff, ?Z.leb_le, ?Z.leb_gt in X
    end; try reflexivity; try (f_equal; lia); try lia.
Qed.

Lemma digits_val_ci base : forall ds ds' acc, lci ds ds' -> digits_val base ds' acc = digits_val base ds acc.
Proof.
  unfold lci. induction ds as [|c r IH]; intros ds' acc H; destruct ds' as [|c' r']; cbn in H; try discriminate; [reflexivity|].
  injection H as H1 H2. cbn [digits_val]. rewrite (digit_val_ci c c' H1).
  destruct (digit_val c); [|reflexivity]. destruct (_ <? _)%Z; [apply IH; exact H2|reflexivity].
Qed.

Lemma eval_number_unfold v :
  eval_number v =
  match v with
  | [] => Err EValue
  | a :: t =>
      if (a =? 48)%Z then
        match t with
        | b :: ds =>
            if (b =? 120)%Z then match ds with [] => Err EValue | _ => digits_val 16 ds 0 end
            else if (b =? 98)%Z then match ds with [] => Err EValue | _ => digits_val 2 ds 0 end
            else digits_val 10 v 0
        | [] => digits_val 10 v 0
        end
      else digits_val 10 v 0
  end.
Proof.
  destruct v as [|a t]; [reflexivity|].
  destruct (Z.eqb_spec a 48) as [->|Na].
  - destruct t as [|b ds]; [reflexivity|].
    destruct (Z.eqb_spec b 120) as [->|Nx]; [reflexivity|].
    destruct (Z.eqb_spec b 98) as [->|Nb]; [reflexivity|].
    unfold eval_number. destruct b as [|p|p]; try reflexivity.
    repeat (destruct p as [p|p|]; try reflexivity); congruence.
  - unfold eval_number. destruct a as [|p|p]; try reflexivity.
    repeat (destruct p as [p|p|]; try reflexivity); congruence.
Qed.

(** two NUMBER values equal up to case, with the same base prefix, denote the same number *)
Theorem eval_number_ci : forall v v', lci v v' -> nth 1 v' 0%Z = nth 1 v 0%Z ->
  eval_number v' = eval_number v.
Proof.
  intros v v' H H1. rewrite !eval_number_unfold.
  assert (Hd : digits_val 10 v' 0 = digits_val 10 v 0) by (apply digits_val_ci; exact H).
  unfold lci in H.
  destruct v as [|a t]; destruct v' as [|a' t']; cbn in H; try discriminate; [reflexivity|].
  injection H as Ha Ht.
  assert (Ea : (a' =? 48)%Z = (a =? 48)%Z).
  { destruct (Z.eqb_spec a 48) as [->|Na].
    - apply (lower_nonletter 48%Z _ eq_refl) in Ha. subst a'. reflexivity.
    - destruct (Z.eqb_spec a' 48) as [->|]; [|reflexivity].
      symmetry in Ha. apply (lower_nonletter 48%Z _ eq_refl) in Ha. congruence. }
  rewrite Ea. destruct (a =? 48)%Z; [|exact Hd].
  destruct t as [|b ds]; destruct t' as [|b' ds']; cbn in Ht; try discriminate; [exact Hd|].
  injection Ht as Hb Hds. cbn in H1. subst b'.
  assert (Er : match ds' with [] => true | _ => false end = match ds with [] => true | _ => false end)
    by (destruct ds, ds'; cbn in Hds; try discriminate; reflexivity).
  destruct (b =? 120)%Z.
  { destruct ds, ds'; cbn in Er; try discriminate; [reflexivity|]. apply digits_val_ci. exact Hds. }
  destruct (b =? 98)%Z.
  { destruct ds, ds'; cbn in Er; try discriminate; [reflexivity|]. apply digits_val_ci. exact Hds. }
  exact Hd.
Qed.

(* ------------------------------------------------------------------------------------------ *)
(** * Examples (by computation) *)

Definition types_values (lx : lexicon) (l : str) : option (list (ttype * str)) :=
  match scan lx [102%Z] l with
  | ScanOk toks _ => Some (map (fun t => (t_type t, t_value t)) toks)
  | _ => None
  end.

(** "lda.b #0xab,x" and "LDA.B #0xAB,X": same types, values equal up to case *)
Example recased_instruction :
  types_values demo_lexicon [108;100;97;46;98;32;35;48;120;97;98;44;120;10]%Z =
    Some [(T_OPCODE, [108;100;97]%Z); (T_OPCODE_SIZE, [98%Z]); (T_SHARP, [35%Z]); (T_NUMBER, [48;120;97;98]%Z);
          (T_ADDRESSING_MODE_INDEX, [120%Z]); (T_EOF, [])] /\
  types_values demo_lexicon [76;68;65;46;66;32;35;48;120;65;66;44;88;10]%Z =
    Some [(T_OPCODE, [76;68;65]%Z); (T_OPCODE_SIZE, [66%Z]); (T_SHARP, [35%Z]); (T_NUMBER, [48;120;65;66]%Z);
          (T_ADDRESSING_MODE_INDEX, [88%Z]); (T_EOF, [])].
Proof. split; vm_compute; reflexivity. Qed.

(** necessity of [case_safe] (1): the base prefix is case-sensitive — "0x1f" is one number,
    "0X1F" is the number 0 followed by the identifier X1F *)
Example base_prefix_is_case_sensitive :
  types_values demo_lexicon [48;120;49;102;10]%Z = Some [(T_NUMBER, [48;120;49;102]%Z); (T_EOF, [])] /\
  types_values demo_lexicon [48;88;49;70;10]%Z =
    Some [(T_NUMBER, [48%Z]); (T_IDENTIFIER, [88;49;70]%Z); (T_EOF, [])].
Proof. split; vm_compute; reflexivity. Qed.

(** necessity of [case_safe] (2): keywords are lower-case only — ".db" scans, ".DB" does not *)
Example keyword_is_case_sensitive :
  types_values demo_lexicon [46;100;98;10]%Z = Some [(T_KEYWORD, [100;98]%Z); (T_EOF, [])] /\
  types_values demo_lexicon [46;68;66;10]%Z = None.
Proof. split; vm_compute; reflexivity. Qed.

Print Assumptions scan_case_lockstep.
Print Assumptions scan_case_zones.
Print Assumptions eval_number_ci.
