(** C16, letter case, parser side of the scanner result: the opcode statement read from two token
    lists related by [tci'] (ScannerCase2.v: mnemonic, size suffix, index register, number and
    comment values equal up to case, everything else equal) gives opcode nodes related by [aci]:
    same addressing mode, size and index; mnemonics equal after [lower] (code generation
    lower-cases it: [opcode_case_folded]); operand expressions of the same shape whose NUMBER
    tokens are equal up to case ([eval_number_ci]: same value).
    Extends Proofs/ParserCaseProofs.v (which has equal ASTs, for size suffix and index register
    only); like it, it stops at the opcode statement — the lifting through the statement loops to
    whole programs is not proved. *)
From Coq Require Import Arith Lia List Bool.
From A816 Require Import Model.Scanner Proofs.ScannerCase1 Proofs.ScannerCase2.
From A816 Require Import Model.Parser Proofs.ParserProofs.
Open Scope nat_scope.

Lemma plower_eq v : lower v = map Scanner.lower v.
Proof. reflexivity. Qed.

Lemma lci_plower a b : lci a b -> lower a = lower b.
Proof. intros H. exact H. Qed.

Definition otci' (o o' : option token) : Prop :=
  match o, o' with Some x, Some x' => tci' x x' | None, None => True | _, _ => False end.

(** expression nodes *)
Definition enci (e e' : enode) : Prop := en_kind e = en_kind e' /\ tci' (en_tok e) (en_tok e').
Definition exci (e e' : list enode) : Prop := Forall2 enci e e'.
Definition oexci (o o' : option expr) : Prop :=
  match o, o' with Some e, Some e' => exci e e' | None, None => True | _, _ => False end.

(** opcode nodes equal up to the case of the mnemonic and of the numbers in the operand *)
Inductive aci : ast -> ast -> Prop :=
| aci_opcode m o o' vs e e' idx fi fi' :
    lower o = lower o' -> oexci e e' -> tci' fi fi' ->
    aci (AOpcode m o vs e idx fi) (AOpcode m o' vs e' idx fi').

(** results: related successes, same error class with related offending tokens *)
Definition relp {A} (Q : A -> A -> Prop) (r r' : pres A) : Prop :=
  match r, r' with
  | POk a, POk a' => Q a a'
  | PErr k t, PErr k' t' => k = k' /\ otci' t t'
  | PUnrep t, PUnrep t' => otci' t t'
  | PFuel, PFuel => True
  | _, _ => False
  end.

Lemma tci'_refl t : tci' t t.
Proof. unfold tci'. destruct (zone_type (t_type t)); repeat split; reflexivity. Qed.

Lemma relp_bind {A B} (Q : A -> A -> Prop) (Q' : B -> B -> Prop) (r r' : pres A) (k k' : A -> pres B) :
  relp Q r r' -> (forall a a', Q a a' -> relp Q' (k a) (k' a')) -> relp Q' (pbind r k) (pbind r' k').
Proof. intros H Hk. destruct r, r'; cbn in *; try contradiction; auto. Qed.

Lemma tci'_is_ty t t' ty : tci' t t' -> is_ty t' ty = is_ty t ty.
Proof. intros (H1 & _). unfold is_ty. rewrite H1. reflexivity. Qed.

Lemma tci'_val t t' : tci' t t' -> zone_type (t_type t) = false -> t_value t' = t_value t.
Proof. intros (_ & _ & H3) Hz. rewrite Hz in H3. auto. Qed.

Lemma tci'_lower t t' : tci' t t' -> lower (t_value t') = lower (t_value t).
Proof.
  intros (_ & _ & H3). destruct (zone_type (t_type t)); [symmetry; apply lci_plower; exact H3|congruence].
Qed.

Lemma relp_expect {A} (Q : A -> A -> Prop) t t' ty (k k' : pres A) :
  tci' t t' -> (is_ty t ty = true -> relp Q k k') -> relp Q (expect t ty k) (expect t' ty k').
Proof.
  intros H Hk. unfold expect. rewrite (tci'_is_ty _ _ ty H).
  destruct (is_ty t ty); [auto|]. cbn. auto.
Qed.

Lemma is_ty_true' t ty : is_ty t ty = true -> t_type t = ty.
Proof. unfold is_ty. destruct (t_type t), ty; cbv; congruence. Qed.

Section Case.
  Variables ts ts' : list token.
  Hypothesis Hci : forall q, tci' (cur ts q) (cur ts' q).

  Lemma is_ty_cx q ty : is_ty (cur ts' q) ty = is_ty (cur ts q) ty.
  Proof. apply tci'_is_ty. apply Hci. Qed.

  Lemma is_ty_peek_cx q ty : is_ty (peek ts' q) ty = is_ty (peek ts q) ty.
  Proof. apply (is_ty_cx (S q)). Qed.

  Definition Qe (x x' : list enode * nat) : Prop := exci (fst x) (fst x') /\ snd x = snd x'.

  Lemma enci_cur k q : enci (en k (cur ts q)) (en k (cur ts' q)).
  Proof. split; [reflexivity|apply Hci]. Qed.

  Lemma perr_cx {A} (Q : A -> A -> Prop) q : relp Q (PErr EParse (Some (cur ts q))) (PErr EParse (Some (cur ts' q))).
  Proof. cbn. split; [reflexivity|apply Hci]. Qed.

  Lemma pexpr_cx f : forall pos, relp Qe (pexpr ts f pos) (pexpr ts' f pos).
  Proof.
    induction f as [|f IH]; intro pos; [exact I|].
    rewrite !pexpr_S. cbv zeta. rewrite !is_ty_cx.
    eapply relp_bind with (Q := Qe).
    - destruct (is_ty (cur ts pos) T_LPAREN) eqn:H1.
      + eapply relp_bind; [apply IH|]. intros [e p2] [e' p2'] [He Hp]. cbn [fst snd] in *. subst p2'.
        apply relp_expect; [apply Hci|]. intro H2. cbn. split; [|reflexivity]. cbn [fst].
        constructor; [apply enci_cur|]. apply Forall2_app; [exact He|constructor; [apply enci_cur|constructor]].
      + destruct (is_ty (cur ts pos) T_NUMBER || is_ty (cur ts pos) T_BOOLEAN || is_ty (cur ts pos) T_IDENTIFIER).
        { cbn. split; [|reflexivity]. constructor; [apply enci_cur|constructor]. }
        destruct (is_ty (cur ts pos) T_OPERATOR) eqn:H5; cbn [andb]; [|apply perr_cx].
        rewrite (tci'_val _ _ (Hci pos)) by (apply is_ty_true' in H5; rewrite H5; reflexivity).
        destruct (str_eqb (t_value (cur ts pos)) k_minus || str_eqb (t_value (cur ts pos)) k_tilde); [|apply perr_cx].
        eapply relp_bind; [apply IH|]. intros [e p2] [e' p2'] [He Hp]. cbn [fst snd] in *. subst p2'.
        cbn. split; [|reflexivity]. constructor; [apply enci_cur|exact He].
    - intros [toks p3] [toks' p3'] [Ht Hp]. cbn [fst snd] in *. subst p3'.
      destruct Ht as [|x x' l l' Hx Hl]; [cbn; split; [constructor|reflexivity]|].
      rewrite is_ty_cx. destruct (is_ty (cur ts p3) T_OPERATOR); [|cbn; split; [constructor; assumption|reflexivity]].
      eapply relp_bind; [apply IH|]. intros [e p4] [e' p4'] [He Hp]. cbn [fst snd] in *. subst p4'.
      cbn. split; [|reflexivity]. cbn [fst].
      constructor; [exact Hx|]. apply Forall2_app; [apply Forall2_app; [exact Hl|constructor; [apply enci_cur|constructor]]|exact He].
  Qed.

  Lemma pexpression_cx f pos : relp Qe (pexpression ts f pos) (pexpression ts' f pos).
  Proof.
    unfold pexpression. eapply relp_bind; [apply pexpr_cx|]. intros [e p] [e' p'] [He Hp]. cbn [fst snd] in *.
    destruct He; cbn; [auto|]. split; [constructor; assumption|exact Hp].
  Qed.

  Definition Qo (x x' : (amode * option str * option expr) * nat) : Prop :=
    fst (fst (fst x)) = fst (fst (fst x')) /\ snd (fst (fst x)) = snd (fst (fst x')) /\
    oexci (snd (fst x)) (snd (fst x')) /\ snd x = snd x'.

  Lemma poperand_cx f mode0 opc opc' pos : is_ty opc' T_OPCODE = is_ty opc T_OPCODE ->
    relp Qo (poperand ts f mode0 opc pos) (poperand ts' f mode0 opc' pos).
  Proof.
    intros Hopc. unfold poperand. cbv zeta. rewrite !is_ty_cx, Hopc.
    destruct (is_ty (cur ts pos) T_SHARP).
    { destruct (is_ty (cur ts (S pos)) T_EOF); [apply perr_cx|].
      eapply relp_bind; [apply pexpression_cx|]. intros [e p] [e' p'] [He Hp]. cbn. repeat split; assumption. }
    destruct (is_ty (cur ts pos) T_LPAREN).
    { eapply relp_bind; [apply pexpression_cx|]. intros [e p2] [e' p2'] [He Hp]. cbn [fst snd] in *. subst p2'.
      rewrite is_ty_cx. rewrite (tci'_lower _ _ (Hci p2)).
      destruct (is_ty (cur ts p2) T_ADDRESSING_MODE_INDEX).
      - apply relp_expect; [apply Hci|]. intro H4. rewrite is_ty_peek_cx.
        destruct (is_ty (peek ts (S p2)) T_OPERATOR).
        + eapply relp_bind; [apply pexpression_cx|]. intros [e2 p] [e2' p'] [He2 Hp]. cbn. repeat split; assumption.
        + cbn. repeat split; assumption.
      - apply relp_expect; [apply Hci|]. intro H4. rewrite is_ty_peek_cx.
        destruct (is_ty (peek ts p2) T_OPERATOR).
        + eapply relp_bind; [apply pexpression_cx|]. intros [e2 p] [e2' p'] [He2 Hp]. cbn. repeat split; assumption.
        + cbn. repeat split; assumption. }
    destruct (is_ty (cur ts pos) T_LBRAKET).
    { eapply relp_bind; [apply pexpression_cx|]. intros [e p2] [e' p2'] [He Hp]. cbn [fst snd] in *. subst p2'.
      apply relp_expect; [apply Hci|]. intro H4. cbn. repeat split; assumption. }
    destruct (is_ty opc T_OPCODE).
    - eapply relp_bind; [apply pexpression_cx|]. intros [e p] [e' p'] [He Hp]. cbn. repeat split; assumption.
    - cbn. repeat split; reflexivity.
  Qed.

  Definition Qa (x x' : ast * nat) : Prop := aci (fst x) (fst x') /\ snd x = snd x'.

  (** parse_opcode at an OPCODE / OPCODE_NAKED token *)
  Theorem parse_opcode_case_blind f pos : relp Qa (popcode ts f pos) (popcode ts' f pos).
  Proof.
    unfold popcode. cbv zeta.
    rewrite !is_ty_cx. rewrite (tci'_lower _ _ (Hci (S pos))).
    set (sz := if is_ty (cur ts (S pos)) T_OPCODE_SIZE then (Some (lower (t_value (cur ts (S pos)))), S (S pos)) else (None, S pos)).
    destruct sz as [size p2].
    eapply relp_bind; [apply poperand_cx; apply is_ty_cx|].
    intros [[[mode inner] operand] p3] [[[mode' inner'] operand'] p3'] (H1 & H2 & H3 & H4). cbn [fst snd] in *. subst mode' inner' p3'.
    rewrite is_ty_cx, (tci'_lower _ _ (Hci p3)).
    assert (Hop : lower (t_value (cur ts pos)) = lower (t_value (cur ts' pos))) by (symmetry; apply tci'_lower, Hci).
    destruct (is_ty (cur ts p3) T_ADDRESSING_MODE_INDEX).
    - destruct (match inner with Some i => negb (str_eqb i k_s && str_eqb (lower (t_value (cur ts p3))) k_y) | None => false end);
        [apply perr_cx|].
      destruct (index_map mode); [|cbn; auto].
      cbn. split; [|reflexivity]. constructor; [exact Hop|exact H3|apply Hci].
    - cbn. split; [|reflexivity]. constructor; [exact Hop|exact H3|apply Hci].
  Qed.
End Case.

Lemma forall2_tci'_cur ts ts' : Forall2 tci' ts ts' -> forall q, tci' (cur ts q) (cur ts' q).
Proof.
  intro H. induction H as [|t t' l l' Ht _ IH]; intro q.
  - unfold cur. destruct q; cbn; apply tci'_refl.
  - destruct q as [|q]; [exact Ht | apply IH].
Qed.

(** From the scanner's result to the opcode statement: [_partial] = the opcode statement only
    (where mnemonics, size suffixes, index registers and operand numbers live); the lifting to
    whole programs through the statement loops is not proved (same limit as ParserCaseProofs.v). *)
Theorem parse_opcode_case_blind_partial ts ts' f pos :
  Forall2 tci' ts ts' -> relp Qa (popcode ts f pos) (popcode ts' f pos).
Proof. intro H. apply parse_opcode_case_blind. apply forall2_tci'_cur. exact H. Qed.

Print Assumptions parse_opcode_case_blind_partial.
