(** Scanner proofs, part 4b (C16 2b, indentation): column-shift simulation.  A scanner state over a
    text [x] and the same state transplanted after a prefix [w] WITHOUT line change (all offsets
    + |w|; the first line keeps line_offset 0, so its columns grow by |w|; later lines are shifted as
    a whole, so their columns are unchanged) evolve in lock step.  Needs the (trivially preserved)
    invariant [J]: line_offset = 0 exactly on the first line. *)
From A816 Require Import Model.Scanner Proofs.ScannerSpec Proofs.ScannerFuel Proofs.ScannerPos
  Proofs.ScannerMono Proofs.ScannerShift Proofs.ScannerPrefix Proofs.ScannerLayout.
From Coq Require Import Arith Lia.
Open Scope nat_scope.

(** a token whose column grows by [d] if it is on line 0 *)
Definition colshift_tok (d : nat) (t : token) : token :=
  {| t_type := t_type t; t_value := t_value t;
     t_pos := option_map (fun p => {| tp_line := tp_line p;
                                      tp_col := if (tp_line p =? 0)%Z then (tp_col p + Z.of_nat d)%Z else tp_col p;
                                      tp_file := tp_file p |}) (t_pos t) |}.

(** [w] in front of the first line *)
Definition first_fwd (w : str) (l : list str) : list str :=
  match l with [] => [] | x :: r => (w ++ x) :: r end.

Definition cshift_result (w : str) (r : scan_result) : scan_result :=
  match r with
  | ScanOk toks lines => ScanOk (map (colshift_tok (length w)) toks) (first_fwd w lines)
  | ScanErr e =>
      ScanErr (mk_scan_error (se_msg e) (se_line e)
                 (if (se_line e =? 0)%Z then (se_col e + Z.of_nat (length w))%Z else se_col e)
                 (if (se_line e =? 0)%Z then option_map (app w) (se_quoted e) else se_quoted e)
                 (first_fwd w (se_lines e)) (map (colshift_tok (length w)) (se_toks e)))
  | ScanStuck => ScanStuck
  | ScanOutOfFuel => ScanOutOfFuel
  end.

Section Columns.
  Variable w : str.
  Local Notation d := (length w).

  Definition is_first (t : sc) : bool := match lines_rev t with [] => true | _ => false end.
  (** line_offset is 0 exactly before the first newline *)
  Definition J (t : sc) : Prop := (loff t =? 0) = is_first t /\ (loff t =? 0) = (cline t =? 0).

  Fixpoint first_line (l : list str) : list str :=
    match l with
    | [] => []
    | [x] => [w ++ x]
    | x :: r => x :: first_line r
    end.

  Definition csh (t : sc) : sc :=
    mk_sc (w ++ inp t) (d + pos t) (d + start t) (if loff t =? 0 then 0 else d + loff t) (cline t)
          (first_line (lines_rev t)) (map (colshift_tok d) (toks_rev t)) (fname t).

  Lemma csh_pos t : pos (csh t) = d + pos t. Proof. reflexivity. Qed.
  Lemma csh_set_pos t p : set_pos (csh t) (d + p) = csh (set_pos t p). Proof. reflexivity. Qed.
  Lemma csh_ignore t : ignore (csh t) = csh (ignore t). Proof. reflexivity. Qed.

  Lemma J_set_pos t p : J t -> J (set_pos t p). Proof. intros H; exact H. Qed.
  Lemma J_ignore t : J t -> J (ignore t). Proof. intros H; exact H. Qed.
  Lemma J_emit t ty : J t -> J (emit t ty). Proof. intros H; exact H. Qed.

  Lemma J_handle_line t : J t -> J (handle_line t).
  Proof. intros H. unfold handle_line. destruct (loff t <=? pos t); [|exact H]. split; reflexivity. Qed.

  Lemma slice_app_0 (l : str) b : slice (w ++ l) 0 (d + b) = w ++ slice l 0 b.
  Proof.
    unfold slice. rewrite !Nat.sub_0_r. cbn [skipn]. rewrite firstn_app, firstn_all2 by lia.
    f_equal. f_equal. lia.
  Qed.

  Lemma csh_handle_line t : J t -> handle_line (csh t) = csh (handle_line t).
  Proof.
    intros [J1 _]. unfold handle_line. cbn [csh loff pos inp start cline lines_rev toks_rev fname].
    destruct (Nat.eqb_spec (loff t) 0) as [E0|E0].
    - cbn [Nat.leb]. rewrite E0. cbn [Nat.leb].
      unfold csh. cbn [inp pos start loff cline lines_rev toks_rev fname Nat.eqb].
      unfold is_first in J1. destruct (lines_rev t); [|discriminate].
      rewrite slice_app_0. cbn [first_line]. f_equal. lia.
    - destruct (Nat.leb_spec (loff t) (pos t)) as [E1|E1];
        destruct (Nat.leb_spec (d + loff t) (d + pos t)) as [E2|E2]; try lia; [|reflexivity].
      unfold csh. cbn [inp pos start loff cline lines_rev toks_rev fname Nat.eqb].
      unfold is_first in J1. destruct (lines_rev t) as [|y r]; [discriminate|].
      rewrite slice_app_shift. cbn [first_line]. f_equal. lia.
  Qed.

  Lemma J_next t : J t -> J (snd (next t)).
  Proof.
    intros H. unfold next. destruct (nth_error (inp t) (pos t)) as [c|]; cbn [snd]; [|exact H].
    destruct (Z.eqb c 10); [apply J_set_pos, J_handle_line|apply J_set_pos]; exact H.
  Qed.

  Lemma csh_next t : J t -> next (csh t) = (fst (next t), csh (snd (next t))).
  Proof.
    intros HJ. unfold next.
    change (inp (csh t)) with (w ++ inp t). change (pos (csh t)) with (d + pos t).
    rewrite nth_error_app_shift.
    destruct (nth_error (inp t) (pos t)) as [c|]; [|reflexivity]. cbn [fst snd]. f_equal.
    replace (S (d + pos t)) with (d + S (pos t)) by lia.
    destruct (Z.eqb c 10); [rewrite csh_handle_line by assumption|]; apply csh_set_pos.
  Qed.

  Lemma csh_peek_k t j : peek_k (csh t) j = peek_k t j.
  Proof. unfold peek_k. cbn [csh inp pos]. rewrite <- Nat.add_assoc. apply app_nth2_plus. Qed.
  Lemma csh_peek t : peek (csh t) = peek t.
  Proof. apply csh_peek_k. Qed.

  Lemma J_accept t c neg : J t -> J (snd (accept t c neg)).
  Proof. intros H. unfold accept. destruct (xorb _ _); cbn [snd]; [apply J_next|]; exact H. Qed.

  Lemma csh_accept t c neg : J t -> accept (csh t) c neg = (fst (accept t c neg), csh (snd (accept t c neg))).
  Proof.
    intros HJ. unfold accept. rewrite csh_peek.
    destruct (xorb _ _); cbn [fst snd]; [rewrite csh_next by assumption|]; reflexivity.
  Qed.

  Lemma J_accept_prefix t p : J t -> J (snd (accept_prefix t p)).
  Proof. intros H. unfold accept_prefix. destruct (str_eqb _ _); exact H. Qed.

  Lemma csh_accept_prefix t p : accept_prefix (csh t) p = (fst (accept_prefix t p), csh (snd (accept_prefix t p))).
  Proof.
    unfold accept_prefix. cbn [csh inp pos]. rewrite <- Nat.add_assoc, slice_app_shift.
    destruct (str_eqb _ _); reflexivity.
  Qed.

  Lemma csh_get_position t : J t ->
    get_position (csh t) = (fst (get_position t),
                            if (fst (get_position t) =? 0)%Z then (snd (get_position t) + Z.of_nat d)%Z
                            else snd (get_position t)).
  Proof.
    intros [_ J2]. unfold get_position. cbn [csh cline start loff fst snd].
    replace (Z.of_nat (cline t) =? 0)%Z with (cline t =? 0)
      by (destruct (Nat.eqb_spec (cline t) 0); destruct (Z.eqb_spec (Z.of_nat (cline t)) 0); auto; lia).
    rewrite <- J2. destruct (Nat.eqb_spec (loff t) 0); f_equal; lia.
  Qed.

  Lemma csh_current_token_text t : current_token_text (csh t) = current_token_text t.
  Proof. unfold current_token_text. cbn [csh inp start pos]. apply slice_app_shift. Qed.
  Lemma csh_cand t : slice (inp (csh t)) (start (csh t)) (pos (csh t)) = slice (inp t) (start t) (pos t).
  Proof. apply csh_current_token_text. Qed.
  Lemma csh_cand3 t : slice (inp (csh t)) (start (csh t)) (pos (csh t) + 3) = slice (inp t) (start t) (pos t + 3).
  Proof. cbn [csh inp start pos]. rewrite <- Nat.add_assoc. apply slice_app_shift. Qed.
  Lemma csh_rest t : skipn (start (csh t)) (inp (csh t)) = skipn (start t) (inp t).
  Proof. cbn [csh inp start]. apply skipn_app_shift. Qed.
  Lemma csh_not_at_end t : (pos (csh t) <? length (inp (csh t))) = (pos t <? length (inp t)).
  Proof.
    cbn [csh inp pos]. rewrite app_length.
    destruct (Nat.ltb_spec (pos t) (length (inp t))) as [E1|E1];
      destruct (Nat.ltb_spec (length w + pos t) (length w + length (inp t))) as [E2|E2]; auto; lia.
  Qed.

  Lemma csh_get_token t ty : J t -> get_token (csh t) ty = colshift_tok d (get_token t ty).
  Proof.
    intros HJ. unfold get_token, colshift_tok. cbn [t_type t_value t_pos option_map tp_line tp_col tp_file].
    rewrite csh_current_token_text, csh_get_position by assumption. reflexivity.
  Qed.

  Lemma csh_emit t ty : J t -> emit (csh t) ty = csh (emit t ty).
  Proof. intros HJ. unfold emit. rewrite csh_get_token by assumption. reflexivity. Qed.

  Lemma J_accept_opcode lx t : J t -> J (snd (accept_opcode lx t)).
  Proof. intros H. unfold accept_opcode. destruct (_ && _); exact H. Qed.

  Lemma csh_accept_opcode lx t :
    accept_opcode lx (csh t) = (fst (accept_opcode lx t), csh (snd (accept_opcode lx t))).
  Proof.
    unfold accept_opcode. rewrite csh_cand3, csh_peek_k.
    destruct (_ && _); cbn [fst snd]; [|reflexivity]. f_equal.
    rewrite csh_pos, <- Nat.add_assoc. apply csh_set_pos.
  Qed.

  Lemma J_or_prefix (r : bool * sc) p : J (snd r) -> J (snd (accept_or r (fun s => accept_prefix s p))).
  Proof. intros H. unfold accept_or. destruct r as [b y]. cbn [fst snd] in *. destruct b; [exact H|apply J_accept_prefix, H]. Qed.

  Lemma csh_or_prefix r p :
    accept_or (fst r, csh (snd r)) (fun s => accept_prefix s p) =
    (fst (accept_or r (fun s => accept_prefix s p)), csh (snd (accept_or r (fun s => accept_prefix s p)))).
  Proof.
    unfold accept_or. destruct r as [b y]. cbn [fst snd]. destruct b; [reflexivity|apply csh_accept_prefix].
  Qed.

  Create HintDb jdb.
  Hint Resolve J_next J_accept J_accept_prefix J_ignore J_emit J_set_pos J_or_prefix J_accept_opcode : jdb.
  Ltac jsolve := solve [eauto 7 with jdb].

  (** results in lock step *)
  Definition csim (r r' : lres sc) : Prop :=
    match r with
    | LOk a => r' = LOk (csh a) /\ J a
    | LRaise m l c a =>
        r' = LRaise m l (if (l =? 0)%Z then (c + Z.of_nat d)%Z else c) (csh a) /\ J a /\ (0 <= l)%Z
    | LStuck => True
    | LOutOfFuel => r' = LOutOfFuel
    end.

  Lemma csim_bind r r' (h h' : sc -> lres sc) :
    csim r r' -> (forall a, J a -> csim (h a) (h' (csh a))) -> csim (lbind r h) (lbind r' h').
  Proof.
    destruct r as [a|m l c a| |]; cbn [csim lbind]; intros H1 H2; auto.
    - destruct H1 as [-> Ha]. apply H2, Ha.
    - destruct H1 as (-> & ? & ?). cbn. auto.
    - subst r'. reflexivity.
  Qed.

  Lemma csim_ok a : J a -> csim (LOk a) (LOk (csh a)).
  Proof. intros; split; auto. Qed.

  Lemma csim_raise m x a : J x -> J a -> csim (raise m (get_position x) a) (raise m (get_position (csh x)) (csh a)).
  Proof.
    intros Hx Ha. rewrite csh_get_position by assumption. unfold raise. cbn [fst snd csim].
    split; [reflexivity|]. split; [assumption|]. unfold get_position. cbn [fst]. lia.
  Qed.

  Lemma csh_backup t : J t -> csim (backup t) (backup (csh t)).
  Proof.
    intros HJ. unfold backup. rewrite csh_pos. destruct (pos t) as [|q]; [exact I|].
    rewrite Nat.add_succ_r. cbn [csim]. split; [reflexivity|exact HJ].
  Qed.

  Lemma csh_accept_run c neg : forall F t, J t -> csim (accept_run F t c neg) (accept_run F (csh t) c neg).
  Proof.
    induction F as [|F IH]; intros t HJ; cbn [accept_run]; [reflexivity|].
    rewrite csh_accept by assumption. pose proof (J_accept t c neg HJ) as H1.
    destruct (accept t c neg) as [b x]. cbn [fst snd] in *.
    destruct b; [apply IH; assumption|split; [reflexivity|assumption]].
  Qed.

  Lemma csh_ignore_run c F t : J t -> csim (ignore_run F t c) (ignore_run F (csh t) c).
  Proof.
    intros HJ. unfold ignore_run. apply csim_bind; [apply csh_accept_run; assumption|].
    intros a Ha. split; [reflexivity|exact Ha].
  Qed.

  Create HintDb cshdb.
  Hint Resolve csim_ok csim_raise csh_backup csh_accept_run csh_ignore_run : cshdb.

  Ltac c_simpl :=
    repeat (rewrite ?csh_or_prefix, ?csh_peek, ?csh_peek_k, ?csh_accept_prefix, ?csh_ignore,
                    ?csh_current_token_text, ?csh_cand, ?csh_cand3, ?csh_rest, ?csh_not_at_end, ?csh_accept_opcode;
            rewrite ?csh_next by jsolve; rewrite ?csh_accept by jsolve; rewrite ?csh_emit by jsolve;
            cbn [fst snd]).
  Ltac c_step :=
    c_simpl;
    match goal with
    | |- csim (lbind _ _) (lbind _ _) => apply csim_bind; [|intros ? ?]
    | |- csim (LOk _) _ => cbn [csim]; split; [reflexivity|jsolve]
    | |- csim (raise _ _ _) _ => apply csim_raise; jsolve
    | |- csim (match ?x with _ => _ end) _ =>
        try (assert (J (snd x)) by jsolve); destruct x; cbn [fst snd] in *
    | |- csim _ _ => solve [eauto 8 with cshdb jdb]
    | |- context [if ?c then _ else _] => destruct c
    end.
  Ltac c_auto := repeat c_step.

  Lemma csh_line_comment_loop : forall F t, J t -> csim (line_comment_loop F t) (line_comment_loop F (csh t)).
  Proof.
    induction F as [|F IH]; intros t HJ; cbn [line_comment_loop]; [reflexivity|].
    rewrite csh_next by assumption. pose proof (J_next t HJ) as H1.
    destruct (next t) as [[x|] a]; cbn [fst snd] in *; [|split; [reflexivity|assumption]].
    destruct (Z.eqb x 10); [split; [reflexivity|assumption]|apply IH; assumption].
  Qed.

  Lemma csh_block_comment_loop x : J x -> forall F t, J t ->
    csim (block_comment_loop F (get_position x) t) (block_comment_loop F (get_position (csh x)) (csh t)).
  Proof.
    intros Hx. induction F as [|F IH]; intros t HJ; cbn [block_comment_loop]; [reflexivity|].
    rewrite csh_accept_prefix. pose proof (J_accept_prefix t [42%Z; 47%Z] HJ) as H1.
    destruct (accept_prefix t [42%Z; 47%Z]) as [b a]. cbn [fst snd] in *.
    destruct b; [split; [reflexivity|assumption]|].
    rewrite csh_next by assumption. pose proof (J_next a H1) as H2.
    destruct (next a) as [[y|] a2]; cbn [fst snd] in *; [apply IH; assumption|apply csim_raise; assumption].
  Qed.

  Lemma csh_quoted_loop x : J x -> forall F c t, J t ->
    csim (quoted_loop F (get_position x) c t) (quoted_loop F (get_position (csh x)) c (csh t)).
  Proof.
    intros Hx. induction F as [|F IH]; intros c t HJ; cbn [quoted_loop]; [reflexivity|].
    destruct (oz_is c 39); [rewrite csh_emit by assumption; split; [reflexivity|assumption]|].
    destruct (_ || _); [apply csim_raise; assumption|].
    rewrite csh_peek.
    destruct (oz_is c 92 && (peek t =? 39)%Z).
    - rewrite csh_next by assumption. cbn [fst snd]. pose proof (J_next t HJ) as H1.
      rewrite csh_next by assumption. pose proof (J_next _ H1) as H2.
      destruct (next (snd (next t))) as [c' a]. cbn [fst snd] in *. apply IH; assumption.
    - rewrite csh_next by assumption. pose proof (J_next t HJ) as H1.
      destruct (next t) as [c' a]. cbn [fst snd] in *. apply IH; assumption.
  Qed.

  Lemma csh_lex_quoted_string F t : J t -> csim (lex_quoted_string F t) (lex_quoted_string F (csh t)).
  Proof.
    intros HJ. unfold lex_quoted_string. rewrite csh_next by assumption. pose proof (J_next t HJ) as H1.
    destruct (next t) as [c a]. cbn [fst snd] in *. apply csh_quoted_loop; assumption.
  Qed.
  Hint Resolve csh_line_comment_loop csh_block_comment_loop csh_lex_quoted_string : cshdb.

  Lemma csh_lex_identifier F t : J t -> csim (lex_identifier F t) (lex_identifier F (csh t)).
  Proof. intros HJ. unfold lex_identifier. c_auto. Qed.
  Hint Resolve csh_lex_identifier : cshdb.

  Lemma csh_lex_number F t : J t -> csim (lex_number F t) (lex_number F (csh t)).
  Proof. intros HJ. unfold lex_number. c_auto. Qed.
  Hint Resolve csh_lex_number : cshdb.

  Lemma csh_lex_expression_loop F : forall fuel t, J t ->
    csim (lex_expression_loop fuel F t) (lex_expression_loop fuel F (csh t)).
  Proof.
    induction fuel as [|fuel IH]; intros t HJ; cbn [lex_expression_loop]; [reflexivity|].
    c_auto; (rewrite <- ?csh_emit by jsolve); apply IH; jsolve.
  Qed.
  Lemma csh_lex_expression F t : J t -> csim (lex_expression F t) (lex_expression F (csh t)).
  Proof. apply csh_lex_expression_loop. Qed.
  Hint Resolve csh_lex_expression : cshdb.

  Lemma csh_lex_opcode_index F t : J t -> csim (lex_opcode_index F t) (lex_opcode_index F (csh t)).
  Proof. intros HJ. unfold lex_opcode_index. c_auto. Qed.
  Hint Resolve csh_lex_opcode_index : cshdb.

  Lemma csh_lex_operand F t : J t -> csim (lex_operand F t) (lex_operand F (csh t)).
  Proof. intros HJ. unfold lex_operand. c_auto. Qed.
  Hint Resolve csh_lex_operand : cshdb.

  Lemma csh_lex_opcode_size F t : J t -> csim (lex_opcode_size F t) (lex_opcode_size F (csh t)).
  Proof. intros HJ. unfold lex_opcode_size. c_auto. Qed.
  Hint Resolve csh_lex_opcode_size : cshdb.

  Lemma csh_lex_opcode_tail F t : J t -> csim (lex_opcode_tail F t) (lex_opcode_tail F (csh t)).
  Proof. intros HJ. unfold lex_opcode_tail. c_auto. Qed.
  Hint Resolve csh_lex_opcode_tail : cshdb.

  Lemma csh_lex_opcode F lx t : J t -> csim (lex_opcode F lx t) (lex_opcode F lx (csh t)).
  Proof.
    intros HJ. unfold lex_opcode. rewrite csh_pos.
    c_auto; rewrite ?csh_set_pos; (rewrite <- ?csh_emit by jsolve); c_auto.
  Qed.
  Hint Resolve csh_lex_opcode : cshdb.

  Lemma csh_lex_keyword F lx t : J t -> csim (lex_keyword F lx t) (lex_keyword F lx (csh t)).
  Proof. intros HJ. unfold lex_keyword. c_auto. Qed.
  Hint Resolve csh_lex_keyword : cshdb.

  Lemma csh_lex_initial lx F t : J t -> csim (lex_initial lx F t) (lex_initial lx F (csh t)).
  Proof. intros HJ. unfold lex_initial. c_auto. Qed.

  (** ** the driver *)
  Lemma first_fwd_snoc (l : list str) x : l <> [] -> first_fwd w (l ++ [x]) = first_fwd w l ++ [x].
  Proof. destruct l; [congruence|reflexivity]. Qed.

  Lemma rev_first_line (l : list str) : rev (first_line l) = first_fwd w (rev l).
  Proof.
    induction l as [|x r IH]; [reflexivity|]. destruct r as [|y r']; [reflexivity|].
    change (first_line (x :: y :: r')) with (x :: first_line (y :: r')).
    change (rev (x :: first_line (y :: r'))) with (rev (first_line (y :: r')) ++ [x]).
    change (rev (x :: y :: r')) with (rev (y :: r') ++ [x]).
    rewrite IH. rewrite first_fwd_snoc; [reflexivity|].
    cbn [rev]. destruct (rev r'); discriminate.
  Qed.

  Lemma py_index_first_fwd (l : list str) z : (0 <= z)%Z ->
    py_index (first_fwd w l) z = if (z =? 0)%Z then option_map (app w) (py_index l z) else py_index l z.
  Proof.
    intros Hz. unfold py_index. destruct (Z.leb_spec 0 z); [|lia].
    destruct (Z.eqb_spec z 0) as [->|Hne].
    - destruct l; reflexivity.
    - destruct (Z.to_nat z) as [|k] eqn:E; [lia|]. destruct l; reflexivity.
  Qed.

  Definition cssim (r r' : scan_result) : Prop :=
    match r with
    | ScanStuck => True
    | _ => r' = cshift_result w r
    end.

  Lemma csh_scan_handler F m l c t : J t -> (0 <= l)%Z ->
    cssim (scan_handler F m l c t)
          (scan_handler F m l (if (l =? 0)%Z then (c + Z.of_nat d)%Z else c) (csh t)).
  Proof.
    intros HJ Hl. unfold scan_handler.
    pose proof (csh_accept_run eol_or_eof true F t HJ) as H.
    destruct (accept_run F t eol_or_eof true) as [a|m' l' c' a| |]; cbn [csim] in H.
    - destruct H as [-> Ha]. rewrite csh_handle_line by assumption.
      cbn [cssim cshift_result se_msg se_line se_col se_quoted se_lines se_toks].
      cbn [csh lines_rev toks_rev]. rewrite rev_first_line, <- map_rev, py_index_first_fwd by assumption.
      reflexivity.
    - exact I.
    - exact I.
    - rewrite H. reflexivity.
  Qed.

  Lemma csh_scan_loop (state : nat -> sc -> lres sc) F :
    (forall t, J t -> csim (state F t) (state F (csh t))) ->
    forall j t, J t -> cssim (scan_loop j F state t) (scan_loop j F state (csh t)).
  Proof.
    intros Hst. induction j as [|j IH]; intros t HJ; cbn [scan_loop]; [reflexivity|].
    rewrite csh_not_at_end. destruct (pos t <? length (inp t)).
    - specialize (Hst t HJ). destruct (state F t) as [a|m l c a| |]; cbn [csim] in Hst.
      + destruct Hst as [-> Ha]. rewrite !csh_pos.
        assert (Eq : (length w + pos a =? length w + pos t) = (pos a =? pos t)).
        { destruct (Nat.eqb_spec (pos a) (pos t)) as [E1|E1];
            destruct (Nat.eqb_spec (length w + pos a) (length w + pos t)) as [E2|E2]; auto; lia. }
        rewrite Eq. destruct (pos a =? pos t); [|apply IH; assumption].
        rewrite csh_ignore, csh_get_position, csh_pos by assumption. cbn [fst snd].
        replace (skipn (length w + pos (ignore a)) (inp (csh (ignore a)))) with (skipn (pos (ignore a)) (inp (ignore a)))
          by (cbn [csh inp]; symmetry; apply skipn_app_shift).
        apply csh_scan_handler; [assumption|]. unfold get_position. cbn [fst]. lia.
      + destruct Hst as (-> & Ha & Hl). apply csh_scan_handler; assumption.
      + exact I.
      + rewrite Hst. reflexivity.
    - rewrite csh_emit, csh_handle_line by (try apply J_emit; assumption).
      cbn [cssim cshift_result]. cbn [csh lines_rev toks_rev].
      rewrite rev_first_line, <- map_rev. reflexivity.
  Qed.

  (** ** the first call of lex_initial skips the indentation *)
  Definition blank_nonl (v : str) : Prop := Forall (fun c => c = 32%Z \/ c = 9%Z) v.

  Lemma accept_run_skip c : forall k f s,
    pos s + k <= length (inp s) ->
    (forall i, i < k -> mem_z (nth (pos s + i) (inp s) 0%Z) c = true /\ nth (pos s + i) (inp s) 0%Z <> 10%Z) ->
    accept_run (k + f) s c false = accept_run f (set_pos s (pos s + k)) c false.
  Proof.
    induction k as [|k IH]; intros f s Hlen Hall.
    - cbn [Nat.add]. rewrite Nat.add_0_r. destruct s; reflexivity.
    - cbn [Nat.add accept_run]. destruct (Hall 0 ltac:(lia)) as [H0 H0']. rewrite Nat.add_0_r in H0, H0'.
      unfold accept. rewrite xorb_false_r, peek_nth, H0. cbn [snd].
      unfold next. destruct (nth_error (inp s) (pos s)) as [ch|] eqn:E; [|apply nth_error_None in E; lia].
      apply nth_error_nth0 in E. rewrite E in H0'. apply Z.eqb_neq in H0'. rewrite H0'. cbn [snd].
      rewrite (IH f (set_pos s (S (pos s)))); cbn [set_pos pos inp]; [|lia|].
      + f_equal. unfold set_pos. cbn. f_equal. lia.
      + intros i Hi. replace (S (pos s) + i) with (pos s + S i) by lia. apply Hall. lia.
  Qed.

  Lemma J_init file s : J (init_sc file s).
  Proof. split; reflexivity. Qed.

  Lemma lex_initial_indent lx F file s : blank_nonl w -> length (w ++ s) + 2 <= F ->
    lex_initial lx F (init_sc file (w ++ s)) = lex_initial lx F (csh (init_sc file s)).
  Proof.
    intros Hw HF. rewrite !lex_initial_split. f_equal.
    set (u := set_pos (init_sc file (w ++ s)) (0 + d)).
    assert (E1 : ignore_run F (csh (init_sc file s)) blanks = ignore_run F u blanks).
    { replace (csh (init_sc file s)) with (set_start u d); [apply ignore_run_set_start|].
      subst u. unfold csh, set_start, set_pos, init_sc. cbn. rewrite !Nat.add_0_r. reflexivity. }
    rewrite E1. unfold ignore_run.
    assert (E2 : accept_run F (init_sc file (w ++ s)) blanks false = accept_run (F - d) u blanks false).
    { replace F with (d + (F - d)) at 1 by (rewrite app_length in HF; lia).
      apply accept_run_skip; cbn [init_sc pos inp]; [rewrite app_length; lia|].
      intros i Hi. cbn [Nat.add]. rewrite app_nth1 by assumption.
      unfold blank_nonl in Hw. rewrite Forall_forall in Hw.
      destruct (Hw (nth i w 0%Z) (nth_In _ _ Hi)) as [-> | ->]; split; (reflexivity || discriminate). }
    rewrite E2.
    destruct (accept_run_mono blanks false (F - d) F u) as [Eo|Em]; [lia| |rewrite Em; reflexivity].
    exfalso.
    pose proof (accept_run_post blanks false eq_refl (F - d) u (w ++ s) 0) as P.
    rewrite Eo in P. apply P; [|split; [reflexivity|lia]].
    subst u. cbn [set_pos pos]. rewrite app_length in *. lia.
  Qed.
End Columns.

(* ------------------------------------------------------------------------------------------ *)
(** * Indentation *)

(** a scan result without positions and lines; an error keeps its message and line, not its column *)
Inductive view_nc :=
| NOk (s : list (ttype * str))
| NErr (m : scan_msg) (line : Z) (s : list (ttype * str))
| NStuck
| NOutOfFuel.
Definition view_nocol (r : scan_result) : view_nc :=
  match r with
  | ScanOk toks _ => NOk (sig toks)
  | ScanErr e => NErr (se_msg e) (se_line e) (sig (se_toks e))
  | ScanStuck => NStuck
  | ScanOutOfFuel => NOutOfFuel
  end.

Lemma sig_colshift d toks : sig (map (colshift_tok d) toks) = sig toks.
Proof.
  unfold sig. induction toks as [|t r IH]; [reflexivity|]. cbn [map filter].
  change (is_comment (colshift_tok d t)) with (is_comment t).
  destruct (negb (is_comment t)); cbn [map]; rewrite IH; reflexivity.
Qed.

Lemma view_nocol_cshift w r : view_nocol (cshift_result w r) = view_nocol r.
Proof. destruct r; cbn [cshift_result view_nocol se_msg se_line se_toks]; rewrite ?sig_colshift; reflexivity. Qed.

Lemma colshift_tok_0 t : colshift_tok 0 t = t.
Proof.
  destruct t as [ty v [[l c f]|]]; unfold colshift_tok; cbn; [|reflexivity].
  destruct (l =? 0)%Z; rewrite ?Z.add_0_r; reflexivity.
Qed.

Lemma cshift_result_nil r : cshift_result [] r = r.
Proof.
  assert (M : forall l, map (colshift_tok 0) l = l).
  { induction l as [|t r' IH]; [reflexivity|]. cbn [map]. rewrite colshift_tok_0, IH. reflexivity. }
  assert (Fw : forall l : list str, first_fwd [] l = l) by (destruct l; reflexivity).
  destruct r as [toks lines|[m l c q ls ts]| |]; cbn [cshift_result length se_msg se_line se_col se_quoted se_lines se_toks];
    rewrite ?M, ?Fw; try reflexivity.
  destruct (l =? 0)%Z; rewrite ?Z.add_0_r; [destruct q|]; reflexivity.
Qed.

(** 2b, indentation at the top of a text: prefixing spaces/tabs changes nothing but the columns of
    the first line (tokens, error and quoted line), exactly by |w|.  No condition on the lexicon. *)
Theorem indentation_at_top : forall lx file w s, blank_nonl w ->
  scan lx file (w ++ s) = cshift_result w (scan lx file s).
Proof.
  intros lx file w s Hw.
  destruct w as [|w0 w'] eqn:Ew; [rewrite cshift_result_nil; reflexivity|]. rewrite <- Ew in *.
  assert (Hd : 1 <= length w) by (rewrite Ew; cbn; lia).
  assert (Hne : length (w ++ s) <> 0) by (rewrite app_length; lia).
  unfold scan at 1. unfold scan_with_fuel, scan_gen, scan_fuel.
  set (N := length (w ++ s) + 2).
  remember (length (w ++ s) - 1) as len eqn:Elen.
  assert (EL : length (w ++ s) = S len) by lia.
  assert (SIM : forall j t, J t -> cssim w (scan_loop j N (lex_initial lx) t) (scan_loop j N (lex_initial lx) (csh w t)))
    by (apply csh_scan_loop; intros; apply csh_lex_initial; assumption).
  assert (R2 : scan_loop (S (S (S len))) N (lex_initial lx) (init_sc file s) = scan lx file s).
  { apply (s2_run lx file w s). unfold scan_fuel. rewrite app_length in EL. lia. }
  assert (EQ : scan_loop N N (lex_initial lx) (init_sc file (w ++ s)) =
               scan_loop (S (S (S len))) N (lex_initial lx) (init_sc file (w ++ s))) by (f_equal; subst N; lia).
  rewrite EQ. clear EQ.
  remember (S (S len)) as j2 eqn:Ej2.
  cbn [scan_loop] in R2 |- *.
  assert (E0 : (pos (init_sc file (w ++ s)) <? length (inp (init_sc file (w ++ s)))) = true)
    by (apply Nat.ltb_lt; cbn [init_sc pos inp]; lia).
  rewrite E0. rewrite (lex_initial_indent w lx N file s Hw) by (subst N; lia).
  pose proof (csh_lex_initial w lx N (init_sc file s) (J_init file s)) as Ls.
  destruct (pos (init_sc file s) <? length (inp (init_sc file s))) eqn:E3.
  - (* s is not empty *)
    apply Nat.ltb_lt in E3. cbn [init_sc pos inp] in E3.
    destruct (lex_initial lx N (init_sc file s)) as [v|m l c v| |] eqn:Rv; cbn [csim] in Ls.
    + destruct Ls as [-> Jv].
      assert (Hv : 0 < pos v).
      { eapply (lex_initial_progress lx N (init_sc file s) v); [cbn; subst N; rewrite app_length; lia|cbn; lia|exact Rv]. }
      assert (E4 : (pos v =? pos (init_sc file s)) = false) by (apply Nat.eqb_neq; cbn; lia).
      rewrite E4 in R2.
      assert (E5 : (pos (csh w v) =? pos (init_sc file (w ++ s))) = false) by (apply Nat.eqb_neq; cbn; lia).
      rewrite E5.
      pose proof (SIM j2 v Jv) as S. rewrite R2 in S. unfold cssim in S.
      destruct (scan lx file s) eqn:Er; try exact S. exfalso. exact (scan_s2_not_stuck lx file s Er).
    + destruct Ls as (-> & Jv & Hl0).
      pose proof (csh_scan_handler w N m l c v Jv Hl0) as S. rewrite R2 in S. unfold cssim in S.
      destruct (scan lx file s) eqn:Er; try exact S. exfalso. exact (scan_s2_not_stuck lx file s Er).
    + exfalso. apply (scan_s2_not_stuck lx file s). symmetry. exact R2.
    + exfalso. apply (scan_fuel_sufficient lx file s). symmetry. exact R2.
  - (* s is empty: the call only skips w *)
    apply Nat.ltb_ge in E3. cbn [init_sc pos inp] in E3. destruct s; [|cbn in E3; lia].
    rewrite lex_initial_init_empty in Ls by (subst N; lia). cbn [csim] in Ls. destruct Ls as [-> _].
    assert (E5 : (pos (csh w (init_sc file [])) =? pos (init_sc file (w ++ []))) = false).
    { apply Nat.eqb_neq. cbn. rewrite app_nil_r in EL. lia. }
    rewrite E5.
    pose proof (SIM j2 (init_sc file []) (J_init file [])) as S.
    rewrite Ej2 in S. cbn [scan_loop] in S. cbn [init_sc pos inp length Nat.ltb Nat.leb] in S.
    rewrite Ej2. cbn [scan_loop]. rewrite <- R2. exact S.
Qed.

Corollary indentation_at_top_view : forall lx file w s, blank_nonl w ->
  view_nocol (scan lx file (w ++ s)) = view_nocol (scan lx file s).
Proof. intros. rewrite indentation_at_top by assumption. apply view_nocol_cshift. Qed.

Print Assumptions indentation_at_top.

(** lifted to any line start with [scan_line_compositional] *)
Definition nc_shift (k : nat) (p : list (ttype * str)) (v : view_nc) : view_nc :=
  match v with
  | NOk s => NOk (p ++ s)
  | NErr m l s => NErr m (l + Z.of_nat k)%Z (p ++ s)
  | v => v
  end.

Lemma view_nocol_shift k T L r : view_nocol (shift_result k T L r) = nc_shift k (sig T) (view_nocol r).
Proof.
  destruct r; cbn [shift_result view_nocol nc_shift se_msg se_line se_toks];
    rewrite ?sig_app, ?sig_shift; reflexivity.
Qed.

Theorem indentation_insertion : forall lx file a w s ta ea la,
  lexicon_ok lx = true ->
  ends_nl a -> scan lx file a = ScanOk (ta ++ [ea]) la -> blank_nonl w ->
  view_nocol (scan lx file (a ++ w ++ s)) = view_nocol (scan lx file (a ++ s)) /\
  scan lx file (a ++ w ++ s) =
    shift_result (count_nl a) ta (removelast la) (cshift_result w (scan lx file s)).
Proof.
  intros lx file a w s ta ea la Hlx Ha Sa Hw.
  pose proof (scan_line_compositional lx file a (w ++ s) ta ea la Hlx Ha Sa) as E1.
  pose proof (scan_line_compositional lx file a s ta ea la Hlx Ha Sa) as E2.
  rewrite (indentation_at_top lx file w s Hw) in E1. split; [|exact E1].
  rewrite E1, E2, !view_nocol_shift, view_nocol_cshift. reflexivity.
Qed.

(* ------------------------------------------------------------------------------------------ *)
(** * Replacing one complete line by another with the same significant tokens *)

(** Reduction for the remaining intra-line layout changes (trailing blanks, end-of-line comment):
    two blocks of complete lines that scan by themselves to the same significant tokens are
    interchangeable between [a] and [b].  What remains to be shown for a given change is the
    single-line fact [sig t1 = sig t2] (decidable per line; closed forms for "x ++ w ++ newline" and
    "x ++ space ; c newline" against "x ++ newline" are NOT proved). *)
Theorem line_replacement : forall lx file a l1 l2 b ta ea la t1 e1 ls1 t2 e2 ls2,
  lexicon_ok lx = true ->
  ends_nl a -> scan lx file a = ScanOk (ta ++ [ea]) la ->
  ends_nl l1 -> scan lx file l1 = ScanOk (t1 ++ [e1]) ls1 ->
  ends_nl l2 -> scan lx file l2 = ScanOk (t2 ++ [e2]) ls2 ->
  sig t1 = sig t2 ->
  view_of (scan lx file (a ++ l1 ++ b)) = view_of (scan lx file (a ++ l2 ++ b)).
Proof.
  intros lx file a l1 l2 b ta ea la t1 e1 ls1 t2 e2 ls2 Hlx Ha Sa H1 S1 H2 S2 Hs.
  rewrite (scan_line_compositional lx file a (l1 ++ b) ta ea la Hlx Ha Sa).
  rewrite (scan_line_compositional lx file a (l2 ++ b) ta ea la Hlx Ha Sa).
  rewrite (scan_line_compositional lx file l1 b t1 e1 ls1 Hlx H1 S1).
  rewrite (scan_line_compositional lx file l2 b t2 e2 ls2 Hlx H2 S2).
  rewrite !view_shift, Hs. reflexivity.
Qed.

(** instances by computation: "lda #1,x" + newline against the same line with trailing blanks and
    with an end-of-line comment; "nop" likewise (the naked-opcode look-ahead) *)
Definition line_sig (lx : lexicon) (l : str) : option (list (ttype * str)) :=
  match scan lx [102%Z] l with
  | ScanOk toks _ => Some (sig (removelast toks))
  | _ => None
  end.

Example trailing_blanks_instance :
  line_sig demo_lexicon [108;100;97;32;35;49;44;120;32;9;32;10]%Z = line_sig demo_lexicon [108;100;97;32;35;49;44;120;10]%Z /\
  line_sig demo_lexicon [108;100;97;32;35;49;44;120;10]%Z <> None.
Proof. split; [vm_compute; reflexivity|vm_compute; discriminate]. Qed.

Example eol_comment_instance :
  line_sig demo_lexicon [110;111;112;32;59;32;99;10]%Z = line_sig demo_lexicon [110;111;112;10]%Z /\
  line_sig demo_lexicon [108;100;97;32;35;49;32;59;99;10]%Z = line_sig demo_lexicon [108;100;97;32;35;49;10]%Z /\
  line_sig demo_lexicon [110;111;112;10]%Z <> None.
Proof. split; [vm_compute; reflexivity|split; [vm_compute; reflexivity|vm_compute; discriminate]]. Qed.

Print Assumptions indentation_insertion.
Print Assumptions line_replacement.
