(** Scanner proofs, part 4a (C16 2a, comment lines in closed form): a full-line "; ..." comment and
    a "/* ... */" comment block scan to a single COMMENT token, hence (invisible_block_between)
    they can be inserted between two complete lines without changing the significant tokens. *)
From A816 Require Import Model.Scanner Proofs.ScannerSpec Proofs.ScannerFuel Proofs.ScannerPos
  Proofs.ScannerMono Proofs.ScannerShift Proofs.ScannerPrefix Proofs.ScannerLayout.
From Coq Require Import Arith Lia.
Open Scope nat_scope.

(* ------------------------------------------------------------------------------------------ *)
(** * One driver iteration *)

Lemma scan_loop_step j F (st : nat -> sc -> lres sc) s u :
  (pos s <? length (inp s)) = true -> st F s = LOk u -> (pos u =? pos s) = false ->
  scan_loop (S j) F st s = scan_loop j F st u.
Proof. intros H1 H2 H3. cbn [scan_loop]. rewrite H1, H2, H3. reflexivity. Qed.

Lemma scan_loop_finish j F (st : nat -> sc -> lres sc) s :
  (pos s <? length (inp s)) = false ->
  scan_loop (S j) F st s = ScanOk (rev (toks_rev (handle_line (emit s T_EOF))))
                                  (rev (lines_rev (handle_line (emit s T_EOF)))).
Proof. intros H1. cbn [scan_loop]. rewrite H1. reflexivity. Qed.

(* ------------------------------------------------------------------------------------------ *)
(** * Runs over a known stretch of text *)

Lemma accept_no s v c : peek s = v -> mem_z v c = false -> accept s c false = (false, s).
Proof. intros <- H. unfold accept. rewrite H. reflexivity. Qed.

Lemma accept_yes s v c : peek s = v -> mem_z v c = true -> accept s c false = (true, snd (next s)).
Proof. intros <- H. unfold accept. rewrite H. reflexivity. Qed.

Lemma accept_prefix_no s x r v : peek s = v -> v <> x -> accept_prefix s (x :: r) = (false, s).
Proof.
  intros Hv Hne. unfold accept_prefix.
  destruct (str_eqb _ _) eqn:E; [|reflexivity]. exfalso. apply str_eqb_true in E. apply Hne.
  rewrite <- Hv, peek_nth. replace (pos s) with (pos s + 0) at 1 by lia.
  rewrite <- (nth_slice (inp s) (pos s) (pos s + length (x :: r))) by (cbn; lia).
  rewrite E. reflexivity.
Qed.

Lemma slice2 (l : str) p : S p < length l -> slice l p (p + 2) = [nth p l 0%Z; nth (S p) l 0%Z].
Proof.
  intros H. unfold slice. replace (p + 2 - p) with 2 by lia.
  pose proof (nth_skipn0 l p 0) as E0. pose proof (nth_skipn0 l p 1) as E1.
  assert (L : 2 <= length (skipn p l)) by (rewrite skipn_length; lia).
  destruct (skipn p l) as [|a [|b r]]; cbn in L; try lia.
  cbn in E0, E1. rewrite Nat.add_0_r in E0. replace (p + 1) with (S p) in E1 by lia.
  cbn. congruence.
Qed.

Lemma accept_prefix_yes2 s x y : S (pos s) < length (inp s) ->
  nth (pos s) (inp s) 0%Z = x -> nth (S (pos s)) (inp s) 0%Z = y ->
  accept_prefix s [x; y] = (true, set_pos s (pos s + 2)).
Proof.
  intros H Hx Hy. unfold accept_prefix. cbn [length]. rewrite slice2 by assumption. rewrite Hx, Hy.
  cbn [str_eqb list_eqb]. rewrite !Z.eqb_refl. reflexivity.
Qed.

Lemma accept_prefix_not2 s x y :
  ~ (nth (pos s) (inp s) 0%Z = x /\ nth (S (pos s)) (inp s) 0%Z = y) ->
  accept_prefix s [x; y] = (false, s).
Proof.
  intros H. unfold accept_prefix. destruct (str_eqb _ _) eqn:E; [|reflexivity]. exfalso. apply H.
  apply str_eqb_true in E. cbn [length] in E.
  pose proof (nth_slice (inp s) (pos s) (pos s + 2) 0 ltac:(lia)) as E0.
  pose proof (nth_slice (inp s) (pos s) (pos s + 2) 1 ltac:(lia)) as E1.
  rewrite E in E0, E1. cbn in E0, E1. rewrite Nat.add_0_r in E0. replace (pos s + 1) with (S (pos s)) in E1 by lia.
  auto.
Qed.

(** a plain run of accepts over [pos, q) stopping at q *)
Lemma accept_run_span c : forall F s q,
  pos s <= q -> q < length (inp s) ->
  (forall i, pos s <= i < q -> mem_z (nth i (inp s) 0%Z) c = true) ->
  mem_z (nth q (inp s) 0%Z) c = false -> q - pos s < F ->
  exists a, accept_run F s c false = LOk a /\ pos a = q.
Proof.
  induction F as [|F IH]; intros s q Hle Hq Hin Hout HF; [lia|]. cbn [accept_run].
  destruct (Nat.eq_dec (pos s) q) as [E|Hne].
  - rewrite (accept_no s (nth q (inp s) 0%Z)) by (rewrite ?peek_nth, ?E; auto). eauto.
  - rewrite (accept_yes s (nth (pos s) (inp s) 0%Z)) by (rewrite ?peek_nth; auto; apply Hin; lia).
    destruct (next s) as [[x|] y] eqn:N; cbn [snd].
    + apply next_some in N as (_ & _ & Hi & Hpy & _).
      destruct (IH y q) as (a & Ea & Pa); rewrite ?Hi, ?Hpy; try lia; auto.
      { intros i Hi'. apply Hin. lia. }
      exists a. auto.
    + apply next_none in N. lia.
Qed.

Definition same_but_pos (a s : sc) : Prop :=
  inp a = inp s /\ toks_rev a = toks_rev s /\ start a = start s /\ fname a = fname s.

Lemma next_same s : same_but_pos (snd (next s)) s.
Proof. pose proof (next_fields s) as (A & B & C & D & _). repeat split; assumption. Qed.

Lemma same_trans a b c : same_but_pos a b -> same_but_pos b c -> same_but_pos a c.
Proof. unfold same_but_pos. intuition congruence. Qed.

(** the ";" comment loop over a stretch without newline, ended by a newline at q *)
Lemma line_comment_loop_span : forall F s q,
  pos s <= q -> q < length (inp s) ->
  (forall i, pos s <= i < q -> nth i (inp s) 0%Z <> 10%Z) -> nth q (inp s) 0%Z = 10%Z -> q - pos s < F ->
  exists a, line_comment_loop F s = LOk a /\ pos a = S q /\ same_but_pos a s.
Proof.
  induction F as [|F IH]; intros s q Hle Hq Hin Hout HF; [lia|]. cbn [line_comment_loop].
  pose proof (next_same s) as Hs.
  destruct (next s) as [[x|] y] eqn:N; cbn [snd] in Hs.
  2:{ apply next_none in N. lia. }
  pose proof (next_char _ _ _ N) as Hc. apply next_some in N as (_ & _ & Hi & Hpy & _).
  destruct (Nat.eq_dec (pos s) q) as [E|Hne].
  - rewrite E in Hc. rewrite <- Hc, Hout. cbn. exists y. rewrite Hpy, E. auto.
  - destruct (Z.eqb_spec x 10) as [->|_]; [exfalso; apply (Hin (pos s)); [lia|assumption]|].
    destruct (IH y q) as (a & Ea & Pa & Sa); rewrite ?Hi, ?Hpy; try lia; auto.
    { intros i Hi'. apply Hin. lia. }
    exists a. split; [assumption|]. split; [assumption|]. eapply same_trans; eauto.
Qed.

(** the "/* */" loop over a stretch without "*/", closed at q *)
Lemma block_comment_loop_span p : forall F s q,
  pos s <= q -> S q < length (inp s) ->
  (forall i, pos s <= i < q -> ~ (nth i (inp s) 0%Z = 42%Z /\ nth (S i) (inp s) 0%Z = 47%Z)) ->
  nth q (inp s) 0%Z = 42%Z -> nth (S q) (inp s) 0%Z = 47%Z -> q - pos s < F ->
  exists a, block_comment_loop F p s = LOk a /\ pos a = q + 2 /\ same_but_pos a s.
Proof.
  induction F as [|F IH]; intros s q Hle Hq Hin H1 H2 HF; [lia|]. cbn [block_comment_loop].
  destruct (Nat.eq_dec (pos s) q) as [E|Hne].
  - rewrite (accept_prefix_yes2 s 42%Z 47%Z) by (rewrite ?E; auto).
    exists (set_pos s (pos s + 2)). rewrite E. repeat split; reflexivity.
  - rewrite (accept_prefix_not2 s 42%Z 47%Z) by (apply Hin; lia).
    pose proof (next_same s) as Hs.
    destruct (next s) as [[x|] y] eqn:N; cbn [snd] in Hs.
    2:{ apply next_none in N. lia. }
    apply next_some in N as (_ & _ & Hi & Hpy & _).
    destruct (IH y q) as (a & Ea & Pa & Sa); rewrite ?Hi, ?Hpy; try lia; auto.
    { intros i Hi'. apply Hin. lia. }
    exists a. split; [assumption|]. split; [assumption|]. eapply same_trans; eauto.
Qed.

(* ------------------------------------------------------------------------------------------ *)
(** * A full-line ";" comment *)

Lemma all_blank_nth' w i : all_blank w -> i < length w -> mem_z (nth i w 0%Z) blanks = true.
Proof. apply all_blank_nth. Qed.

Lemma sig_single_comment tc : t_type tc = T_COMMENT -> sig [tc] = [].
Proof. intros H. unfold sig, is_comment. cbn [filter]. rewrite H. reflexivity. Qed.

(** [w ++ ";" ++ c ++ "\n"] with [w] blank and no newline in [c] (NUL allowed: the loop only tests
    for "\n" and the end of input) is one COMMENT token *)
Lemma scan_line_comment_block lx file w c : all_blank w -> ~ In 10%Z c ->
  exists tc e l, scan lx file (w ++ 59%Z :: c ++ [10%Z]) = ScanOk ([tc] ++ [e]) l /\ t_type tc = T_COMMENT.
Proof.
  intros Hw Hc. set (L := w ++ 59%Z :: c ++ [10%Z]).
  assert (HL : length L = length w + length c + 2) by (subst L; rewrite app_length; cbn; rewrite app_length; cbn; lia).
  assert (N1 : forall i, i < length w -> nth i L 0%Z = nth i w 0%Z) by (intros; subst L; apply app_nth1; assumption).
  assert (N2 : nth (length w) L 0%Z = 59%Z) by (subst L; rewrite nth_middle; reflexivity).
  assert (N3 : forall j, j < length c -> nth (length w + 1 + j) L 0%Z = nth j c 0%Z).
  { intros j Hj. subst L. rewrite <- Nat.add_assoc, app_nth2_plus. cbn [Nat.add nth]. apply app_nth1. assumption. }
  assert (N4 : nth (length w + 1 + length c) L 0%Z = 10%Z).
  { subst L. rewrite <- Nat.add_assoc, app_nth2_plus. cbn [Nat.add nth]. apply nth_middle. }
  unfold scan, scan_with_fuel, scan_gen, scan_fuel. remember (length L + 2) as F eqn:HF0.
  assert (HF : F = S (S (length L))) by lia.
  (* the first (and only) call of lex_initial *)
  assert (C1 : exists u, lex_initial lx F (init_sc file L) = LOk u /\ pos u = length L /\ inp u = L /\
                         exists tc, toks_rev u = [tc] /\ t_type tc = T_COMMENT).
  { rewrite lex_initial_split. unfold ignore_run.
    destruct (accept_run_span blanks F (init_sc file L) (length w)) as (a0 & E0 & P0); cbn [init_sc pos inp];
      try lia.
    { intros i Hi. rewrite N1 by lia. apply all_blank_nth; [assumption|lia]. }
    { rewrite N2. reflexivity. }
    rewrite E0. cbn [lbind].
    pose proof (accept_run_fields _ _ _ _ _ E0) as (Hi0 & _ & Ht0 & _). cbn [init_sc inp toks_rev] in Hi0, Ht0.
    unfold lex_initial_rest.
    rewrite (accept_yes (ignore a0) 59%Z) by (rewrite ?peek_nth; cbn [ignore inp pos]; rewrite ?Hi0, ?P0; auto).
    cbn [lbind].
    pose proof (next_same (ignore a0)) as Sx. pose proof (next_fields (ignore a0)) as (_ & _ & _ & _ & Px).
    destruct (next (ignore a0)) as [[x0|] x] eqn:Nx; cbn [snd] in *.
    2:{ apply next_none in Nx as [_ Nx]. cbn [ignore inp pos] in Nx. rewrite Hi0, P0 in Nx. lia. }
    apply next_some in Nx as (_ & _ & Hix & Hpx & _). cbn [ignore inp pos] in Hix, Hpx. rewrite Hi0 in Hix. rewrite P0 in Hpx.
    destruct (line_comment_loop_span F x (length w + 1 + length c)) as (y & Ey & Py & Sy); rewrite ?Hix, ?Hpx; try lia.
    { intros i Hi Hn. replace i with (length w + 1 + (i - length w - 1)) in Hn by lia.
      rewrite N3 in Hn by lia. apply Hc. rewrite <- Hn. apply nth_In. lia. }
    rewrite Ey. cbn [lbind]. eexists. split; [reflexivity|]. cbn [emit pos inp toks_rev].
    destruct Sy as (Sy1 & Sy2 & _). destruct Sx as (_ & Sx2 & _). cbn [ignore toks_rev] in Sx2.
    split; [lia|]. split; [congruence|]. exists (get_token y T_COMMENT). split; [f_equal; congruence|reflexivity]. }
  destruct C1 as (u & E1 & Pu & Iu & tc & Tu & Tc).
  exists tc. do 2 eexists. split; [|exact Tc].
  rewrite HF at 1.
  rewrite (scan_loop_step _ F (lex_initial lx) (init_sc file L) u); [|apply Nat.ltb_lt; cbn; lia|exact E1|apply Nat.eqb_neq; cbn; lia].
  rewrite scan_loop_finish by (apply Nat.ltb_ge; rewrite Iu; lia).
  rewrite handle_line_toks. cbn [emit toks_rev]. rewrite Tu. cbn [rev app]. reflexivity.
Qed.

(** 2a for a full-line ";" comment (with optional indentation; [w] may also hold blank lines) *)
Theorem line_comment_block_invisible : forall lx file a w c b ta ea la,
  lexicon_ok lx = true ->
  ends_nl a -> scan lx file a = ScanOk (ta ++ [ea]) la ->
  all_blank w -> ~ In 10%Z c ->
  view_of (scan lx file (a ++ (w ++ 59%Z :: c ++ [10%Z]) ++ b)) = view_of (scan lx file (a ++ b)).
Proof.
  intros lx file a w c b ta ea la Hlx Ha Sa Hw Hc.
  destruct (scan_line_comment_block lx file w c Hw Hc) as (tc & e & l & Sw & Tc).
  eapply invisible_block_between; eauto.
  - exists (w ++ 59%Z :: c). rewrite <- app_assoc. reflexivity.
  - apply sig_single_comment. assumption.
Qed.

Theorem line_comment_block_invisible_at_top : forall lx file w c b,
  lexicon_ok lx = true -> all_blank w -> ~ In 10%Z c ->
  view_of (scan lx file ((w ++ 59%Z :: c ++ [10%Z]) ++ b)) = view_of (scan lx file b).
Proof.
  intros lx file w c b Hlx Hw Hc.
  destruct (scan_line_comment_block lx file w c Hw Hc) as (tc & e & l & Sw & Tc).
  eapply invisible_block_top; eauto.
  - exists (w ++ 59%Z :: c). rewrite <- app_assoc. reflexivity.
  - apply sig_single_comment. assumption.
Qed.


(* ------------------------------------------------------------------------------------------ *)
(** * A "/* ... */" comment block *)

(** the body contains no "*/" *)
Definition no_close (c : str) : Prop := forall j, ~ (nth j c 0%Z = 42%Z /\ nth (S j) c 0%Z = 47%Z).

(** [w ++ "/*" ++ c ++ "*/" ++ w2] with [w], [w2] blank, [w2] ending in a newline and no "*/"
    in [c] (newlines, NUL, ";" and quotes allowed) is one COMMENT token *)
Lemma scan_block_comment_block lx file w c w2 : all_blank w -> all_blank w2 -> ends_nl w2 -> no_close c ->
  exists tc e l, scan lx file (w ++ 47%Z :: 42%Z :: c ++ 42%Z :: 47%Z :: w2) = ScanOk ([tc] ++ [e]) l /\
                 t_type tc = T_COMMENT.
Proof.
  intros Hw Hw2 [w2' Ew2] Hc. set (L := w ++ 47%Z :: 42%Z :: c ++ 42%Z :: 47%Z :: w2).
  assert (Hl2 : 1 <= length w2) by (rewrite Ew2, app_length; cbn; lia).
  assert (HL : length L = length w + length c + 4 + length w2).
  { subst L. rewrite app_length. cbn [length]. rewrite app_length. cbn [length]. lia. }
  assert (N1 : forall i, i < length w -> nth i L 0%Z = nth i w 0%Z) by (intros; subst L; apply app_nth1; assumption).
  assert (NK : forall m, nth (length w + m) L 0%Z = nth m (47%Z :: 42%Z :: c ++ 42%Z :: 47%Z :: w2) 0%Z)
    by (intros; subst L; apply app_nth2_plus).
  assert (N2 : nth (length w) L 0%Z = 47%Z) by (rewrite <- (Nat.add_0_r (length w)), NK; reflexivity).
  assert (N3 : nth (S (length w)) L 0%Z = 42%Z) by (replace (S (length w)) with (length w + 1) by lia; rewrite NK; reflexivity).
  assert (N4 : forall j, j < length c -> nth (length w + 2 + j) L 0%Z = nth j c 0%Z).
  { intros j Hj. rewrite <- Nat.add_assoc, NK. cbn [Nat.add nth]. apply app_nth1. assumption. }
  assert (NC : forall m, nth (length w + 2 + length c + m) L 0%Z = nth m (42%Z :: 47%Z :: w2) 0%Z).
  { intros m. replace (length w + 2 + length c + m) with (length w + (2 + (length c + m))) by lia.
    rewrite NK. cbn [Nat.add nth]. apply app_nth2_plus. }
  assert (N5 : nth (length w + 2 + length c) L 0%Z = 42%Z) by (rewrite <- (Nat.add_0_r (_ + length c)), NC; reflexivity).
  assert (N6 : nth (S (length w + 2 + length c)) L 0%Z = 47%Z)
    by (replace (S (length w + 2 + length c)) with (length w + 2 + length c + 1) by lia; rewrite NC; reflexivity).
  assert (N7 : forall j, nth (length w + 2 + length c + 2 + j) L 0%Z = nth j w2 0%Z).
  { intros j. replace (length w + 2 + length c + 2 + j) with (length w + 2 + length c + (2 + j)) by lia.
    rewrite NC. reflexivity. }
  unfold scan, scan_with_fuel, scan_gen, scan_fuel. remember (length L + 2) as F eqn:HF0.
  assert (HF : F = S (S (S (length L - 1)))) by lia.
  (* first call: the comment *)
  assert (C1 : exists u, lex_initial lx F (init_sc file L) = LOk u /\ pos u = length w + 2 + length c + 2 /\ inp u = L /\
                         exists tc, toks_rev u = [tc] /\ t_type tc = T_COMMENT).
  { rewrite lex_initial_split. unfold ignore_run.
    destruct (accept_run_span blanks F (init_sc file L) (length w)) as (a0 & E0 & P0); cbn [init_sc pos inp];
      try lia.
    { intros i Hi. rewrite N1 by lia. apply all_blank_nth; [assumption|lia]. }
    { rewrite N2. reflexivity. }
    rewrite E0. cbn [lbind].
    pose proof (accept_run_fields _ _ _ _ _ E0) as (Hi0 & _ & Ht0 & _). cbn [init_sc inp toks_rev] in Hi0, Ht0.
    assert (Hpk : peek (ignore a0) = 47%Z) by (rewrite peek_nth; cbn [ignore inp pos]; rewrite Hi0, P0; exact N2).
    unfold lex_initial_rest, accept_or.
    repeat (first [ rewrite (accept_no (ignore a0) 47%Z _ Hpk) by reflexivity
                  | rewrite (accept_prefix_no (ignore a0) _ _ 47%Z Hpk) by discriminate ]; cbn [fst snd]).
    rewrite (accept_prefix_yes2 (ignore a0) 47%Z 42%Z)
      by (cbn [ignore inp pos]; rewrite ?Hi0, ?P0; auto; lia).
    cbv zeta. cbn [ignore pos].
    set (x := set_pos (ignore a0) (pos a0 + 2)).
    assert (BL : exists y, block_comment_loop F (get_position x) x = LOk y /\
                           pos y = length w + 2 + length c + 2 /\ same_but_pos y x).
    { apply block_comment_loop_span; subst x; cbn [set_pos ignore inp pos]; rewrite ?Hi0, ?P0; try lia; auto.
      intros i Hi [H1 H2]. replace i with (length w + 2 + (i - length w - 2)) in H1, H2 by lia.
      set (j := i - length w - 2) in *. assert (Hj : j < length c) by lia.
      rewrite N4 in H1 by assumption.
      destruct (Nat.eq_dec (S j) (length c)) as [Ej|Nj].
      - replace (S (length w + 2 + j)) with (length w + 2 + length c) in H2 by lia. rewrite N5 in H2. discriminate.
      - replace (S (length w + 2 + j)) with (length w + 2 + S j) in H2 by lia. rewrite N4 in H2 by lia.
        apply (Hc j). auto. }
    destruct BL as (y & Ey & Py & Sy).
    rewrite Ey. cbn [lbind]. eexists. split; [reflexivity|]. cbn [emit pos inp toks_rev].
    destruct Sy as (Sy1 & Sy2 & _). subst x. cbn [set_pos ignore inp toks_rev] in Sy1, Sy2.
    split; [lia|]. split; [congruence|]. exists (get_token y T_COMMENT). split; [f_equal; congruence|reflexivity]. }
  destruct C1 as (u & E1 & Pu & Iu & tc & Tu & Tc).
  (* second call: the trailing blanks *)
  assert (C2 : exists v, lex_initial lx F u = LOk v /\ pos v = length L /\ inp v = L /\ toks_rev v = [tc]).
  { rewrite lex_initial_split. unfold ignore_run.
    destruct (accept_run_to_eof blanks eq_refl F u) as (a1 & Ea & Pa); rewrite ?Iu, ?Pu; try lia.
    { intros i Hi. replace i with (length w + 2 + length c + 2 + (i - (length w + 2 + length c + 2))) by lia.
      rewrite N7. apply all_blank_nth; [assumption|lia]. }
    rewrite Ea. cbn [lbind].
    pose proof (accept_run_fields _ _ _ _ _ Ea) as (Hi1 & _ & Ht1 & _).
    rewrite lex_initial_rest_eof by (cbn [ignore inp pos]; rewrite Hi1, Pa, Iu; lia).
    eexists. split; [reflexivity|]. cbn [ignore pos inp toks_rev]. rewrite Pa, Hi1, Ht1, Iu. auto. }
  destruct C2 as (v & E2 & Pv & Iv & Tv).
  exists tc. do 2 eexists. split; [|exact Tc].
  rewrite HF at 1.
  rewrite (scan_loop_step _ F (lex_initial lx) (init_sc file L) u); [|apply Nat.ltb_lt; cbn; lia|exact E1|apply Nat.eqb_neq; cbn; lia].
  rewrite (scan_loop_step _ F (lex_initial lx) u v); [|apply Nat.ltb_lt; rewrite Iu; lia|exact E2|apply Nat.eqb_neq; lia].
  rewrite scan_loop_finish by (apply Nat.ltb_ge; rewrite Iv; lia).
  rewrite handle_line_toks. cbn [emit toks_rev]. rewrite Tv. cbn [rev app]. reflexivity.
Qed.

Lemma ends_nl_block w c w2 : ends_nl w2 -> ends_nl (w ++ 47%Z :: 42%Z :: c ++ 42%Z :: 47%Z :: w2).
Proof.
  intros [r ->]. exists (w ++ 47%Z :: 42%Z :: c ++ 42%Z :: 47%Z :: r).
  rewrite <- !app_assoc. cbn [app]. rewrite <- !app_assoc. reflexivity.
Qed.

(** 2a for a comment block (one or several lines, optional indentation and trailing blanks) *)
Theorem block_comment_invisible : forall lx file a w c w2 b ta ea la,
  lexicon_ok lx = true ->
  ends_nl a -> scan lx file a = ScanOk (ta ++ [ea]) la ->
  all_blank w -> all_blank w2 -> ends_nl w2 -> no_close c ->
  view_of (scan lx file (a ++ (w ++ 47%Z :: 42%Z :: c ++ 42%Z :: 47%Z :: w2) ++ b)) = view_of (scan lx file (a ++ b)).
Proof.
  intros lx file a w c w2 b ta ea la Hlx Ha Sa Hw Hw2 Hn Hc.
  destruct (scan_block_comment_block lx file w c w2 Hw Hw2 Hn Hc) as (tc & e & l & Sw & Tc).
  eapply invisible_block_between; eauto.
  - apply ends_nl_block. assumption.
  - apply sig_single_comment. assumption.
Qed.

Theorem block_comment_invisible_at_top : forall lx file w c w2 b,
  lexicon_ok lx = true -> all_blank w -> all_blank w2 -> ends_nl w2 -> no_close c ->
  view_of (scan lx file ((w ++ 47%Z :: 42%Z :: c ++ 42%Z :: 47%Z :: w2) ++ b)) = view_of (scan lx file b).
Proof.
  intros lx file w c w2 b Hlx Hw Hw2 Hn Hc.
  destruct (scan_block_comment_block lx file w c w2 Hw Hw2 Hn Hc) as (tc & e & l & Sw & Tc).
  eapply invisible_block_top; eauto.
  - apply ends_nl_block. assumption.
  - apply sig_single_comment. assumption.
Qed.

Print Assumptions line_comment_block_invisible.
Print Assumptions line_comment_block_invisible_at_top.
Print Assumptions block_comment_invisible.
Print Assumptions block_comment_invisible_at_top.
