(** Scanner proofs, part 1 (C15): fuel sufficiency of every scanner loop and of both drivers, and [backup] never under-runs.  No side condition on the lexicon.  (Part 2: ScannerPos.v; both are re-exported by ScannerProofs.v.) *)




From A816 Require Import Model.Scanner Proofs.ScannerSpec.
From Coq Require Import Arith Lia.
Open Scope nat_scope.

(* ------------------------------------------------------------------------------------------ *)
(** * Primitive facts *)

Lemma handle_line_inp s : inp (handle_line s) = inp s.
Proof. unfold handle_line. destruct (loff s <=? pos s); reflexivity. Qed.
Lemma handle_line_pos s : pos (handle_line s) = pos s.
Proof. unfold handle_line. destruct (loff s <=? pos s); reflexivity. Qed.
Lemma handle_line_start s : start (handle_line s) = start s.
Proof. unfold handle_line. destruct (loff s <=? pos s); reflexivity. Qed.
Lemma handle_line_toks s : toks_rev (handle_line s) = toks_rev s.
Proof. unfold handle_line. destruct (loff s <=? pos s); reflexivity. Qed.
Lemma handle_line_fname s : fname (handle_line s) = fname s.
Proof. unfold handle_line. destruct (loff s <=? pos s); reflexivity. Qed.

Lemma next_some s c s' : next s = (Some c, s') ->
  nth_error (inp s) (pos s) = Some c /\ pos s < length (inp s) /\
  inp s' = inp s /\ pos s' = S (pos s) /\ start s' = start s /\ toks_rev s' = toks_rev s /\ fname s' = fname s.
Proof.
  unfold next. destruct (nth_error (inp s) (pos s)) as [x|] eqn:E; [|discriminate].
  intros H. injection H as <- <-.
  assert (pos s < length (inp s)) by (apply nth_error_Some; congruence).
  destruct (Z.eqb x 10); cbn;
    rewrite ?handle_line_inp, ?handle_line_start, ?handle_line_toks, ?handle_line_fname; auto 10.
Qed.

Lemma next_none s s' : next s = (None, s') -> s' = s /\ length (inp s) <= pos s.
Proof.
  unfold next. destruct (nth_error (inp s) (pos s)) as [x|] eqn:E; [discriminate|].
  intros H. injection H as <-. split; [reflexivity|]. apply nth_error_None; assumption.
Qed.

Lemma peek_eof s : length (inp s) <= pos s -> peek s = 0%Z.
Proof. intros. unfold peek, peek_k. apply nth_overflow. lia. Qed.

Lemma peek_nonzero_lt s : peek s <> 0%Z -> pos s < length (inp s).
Proof.
  intros H. destruct (Nat.lt_ge_cases (pos s) (length (inp s))); [assumption|].
  exfalso. apply H, peek_eof. assumption.
Qed.

Lemma peek_nth_error s : pos s < length (inp s) -> nth_error (inp s) (pos s) = Some (peek s).
Proof.
  intros. unfold peek, peek_k. rewrite Nat.add_0_r. apply nth_error_nth'. assumption.
Qed.

(** the state reached from [s] keeps the input and does not move backwards past [p] *)
Definition at_ (s0 : str) (p : nat) (s : sc) : Prop := inp s = s0 /\ p <= pos s.

Lemma at_weaken s0 p p' s : at_ s0 p s -> p' <= p -> at_ s0 p' s.
Proof. unfold at_. intuition lia. Qed.

Lemma next_at s0 p s : at_ s0 p s -> at_ s0 p (snd (next s)).
Proof.
  intros [Hi Hp]. destruct (next s) as [[c|] s'] eqn:E; cbn.
  - apply next_some in E. unfold at_. intuition (try congruence; lia).
  - apply next_none in E as [-> _]. split; assumption.
Qed.

Lemma accept_at s0 p s c n b s' : accept s c n = (b, s') -> at_ s0 p s -> at_ s0 p s'.
Proof.
  unfold accept. destruct (xorb _ _); intros H; injection H as <- <-; [apply next_at|auto].
Qed.

(** a successful plain accept of a set without "\0" consumed exactly one character *)
Lemma accept_true s c b s' : accept s c false = (b, s') -> mem_z 0 c = false ->
  b = true -> inp s' = inp s /\ pos s' = S (pos s) /\ pos s < length (inp s) /\ mem_z (peek s) c = true /\
              start s' = start s /\ toks_rev s' = toks_rev s /\ fname s' = fname s.
Proof.
  unfold accept. rewrite xorb_false_r. destruct (mem_z (peek s) c) eqn:M; intros H H0 Hb; subst b; [|discriminate].
  injection H as H. subst s'.
  assert (pos s < length (inp s)).
  { apply peek_nonzero_lt. intros E. rewrite E in M. congruence. }
  destruct (next s) as [[x|] s1] eqn:E; cbn.
  - apply next_some in E. intuition.
  - apply next_none in E. lia.
Qed.

Lemma accept_false s c n s' : accept s c n = (false, s') -> s' = s.
Proof. unfold accept. destruct (xorb _ _); intros H; injection H; congruence. Qed.

Lemma accept_prefix_at s0 p s pre b s' : accept_prefix s pre = (b, s') -> at_ s0 p s -> at_ s0 p s'.
Proof.
  unfold accept_prefix. destruct (str_eqb _ _); intros H [Hi Hp]; injection H as <- <-; split; cbn; auto; lia.
Qed.
Lemma accept_prefix_true s pre s' : accept_prefix s pre = (true, s') ->
  inp s' = inp s /\ pos s' = pos s + length pre.
Proof. unfold accept_prefix. destruct (str_eqb _ _); intros H; [|discriminate]. injection H as <-. auto. Qed.
Lemma accept_prefix_false s pre s' : accept_prefix s pre = (false, s') -> s' = s.
Proof. unfold accept_prefix. destruct (str_eqb _ _); intros H; injection H; congruence. Qed.

Lemma emit_at s0 p s ty : at_ s0 p s -> at_ s0 p (emit s ty).
Proof. intros H; exact H. Qed.
Lemma ignore_at s0 p s : at_ s0 p s -> at_ s0 p (ignore s).
Proof. intros H; exact H. Qed.

(* ------------------------------------------------------------------------------------------ *)
(** * Post-conditions: no OutOfFuel, no Stuck, input kept, no move backwards *)

Definition post (s0 : str) (p : nat) (r : lres sc) : Prop :=
  match r with
  | LOk s' => at_ s0 p s'
  | LRaise _ _ _ s' => inp s' = s0
  | LStuck => False
  | LOutOfFuel => False
  end.

Lemma post_bind s0 p r k :
  post s0 p r -> (forall s1, at_ s0 p s1 -> post s0 p (k s1)) -> post s0 p (lbind r k).
Proof. destruct r; cbn; auto. Qed.

Lemma post_bind2 s0 p p1 r k :
  post s0 p1 r -> (forall s1, at_ s0 p1 s1 -> post s0 p (k s1)) -> post s0 p (lbind r k).
Proof. destruct r; cbn; auto. Qed.

Lemma post_weaken s0 p p' r : post s0 p r -> p' <= p -> post s0 p' r.
Proof. destruct r; cbn; auto. intros. eapply at_weaken; eauto. Qed.

Lemma post_ok s0 p s : at_ s0 p s -> post s0 p (LOk s).
Proof. auto. Qed.

Lemma post_raise s0 p m q s : inp s = s0 -> post s0 p (raise m q s).
Proof. auto. Qed.

(** accept_run: fuel > remaining input suffices PROVIDED "\0" is in the candidate set exactly when
    the run is negated (otherwise accept() succeeds at the end of input without advancing). *)
Lemma accept_run_post c n : mem_z 0 c = n ->
  forall F s s0 p, length s0 - pos s < F -> at_ s0 p s -> post s0 p (accept_run F s c n).
Proof.
  intros Hc. induction F as [|F IH]; intros s s0 p HF Hat; [lia|].
  cbn [accept_run]. destruct (accept s c n) as [b s'] eqn:E.
  pose proof (accept_at _ _ _ _ _ _ _ E Hat) as Hat'.
  destruct b; [|exact Hat'].
  apply IH; [|exact Hat'].
  (* accepted: cannot be at the end of input *)
  unfold accept in E. destruct (xorb (mem_z (peek s) c) n) eqn:X; [|discriminate].
  assert (Hlt : pos s < length (inp s)).
  { apply peek_nonzero_lt. intros Z0. rewrite Z0, Hc in X. destruct n; discriminate. }
  injection E as <-. destruct (next s) as [[x|] s1] eqn:N; cbn.
  - apply next_some in N. destruct Hat as [<- _]. intuition lia.
  - apply next_none in N. lia.
Qed.

Lemma ignore_run_post c : mem_z 0 c = false ->
  forall F s s0 p, length s0 < F -> at_ s0 p s -> post s0 p (ignore_run F s c).
Proof.
  intros Hc F s s0 p HF Hat. unfold ignore_run. apply post_bind.
  - apply accept_run_post; auto. lia.
  - intros s1 H1. exact H1.
Qed.

Lemma line_comment_loop_post : forall F s s0 p,
  length s0 - pos s < F -> at_ s0 p s -> post s0 p (line_comment_loop F s).
Proof.
  induction F as [|F IH]; intros s s0 p HF Hat; [lia|].
  cbn [line_comment_loop]. destruct (next s) as [[x|] s1] eqn:N.
  - pose proof (next_at _ _ _ Hat) as Hat'. rewrite N in Hat'. cbn in Hat'.
    apply next_some in N. destruct (Z.eqb x 10); [exact Hat'|].
    apply IH; [|exact Hat']. destruct Hat as [<- _]. intuition lia.
  - apply next_none in N as [-> _]. exact Hat.
Qed.

Lemma block_comment_loop_post : forall F q s s0 p,
  length s0 - pos s < F -> at_ s0 p s -> post s0 p (block_comment_loop F q s).
Proof.
  induction F as [|F IH]; intros q s s0 p HF Hat; [lia|].
  cbn [block_comment_loop]. destruct (accept_prefix s [42%Z;47%Z]) as [b s1] eqn:A.
  pose proof (accept_prefix_at _ _ _ _ _ _ A Hat) as Hat1.
  destruct b; [exact Hat1|].
  apply accept_prefix_false in A. subst s1.
  destruct (next s) as [[x|] s2] eqn:N.
  - pose proof (next_at _ _ _ Hat) as Hat'. rewrite N in Hat'. cbn in Hat'.
    apply next_some in N. apply IH; [|exact Hat']. destruct Hat as [<- _]. intuition lia.
  - apply next_none in N as [-> _]. apply post_raise. apply Hat.
Qed.

Lemma quoted_loop_post : forall F q c s s0 p,
  match c with Some _ => length s0 - pos s + 1 | None => 0 end < F ->
  at_ s0 p s -> post s0 p (quoted_loop F q c s).
Proof.
  induction F as [|F IH]; intros q c s s0 p HF Hat; [lia|].
  cbn [quoted_loop].
  destruct (oz_is c 39); [exact Hat|].
  destruct (oz_is c 10 || match c with None => true | Some _ => false end) eqn:T; [apply post_raise, Hat|].
  destruct c as [x|]; [|rewrite orb_true_r in T; discriminate].
  set (s1 := if oz_is (Some x) 92 && (peek s =? 39)%Z then snd (next s) else s).
  assert (Hat1 : at_ s0 (pos s) s1).
  { subst s1. destruct (_ && _); [apply next_at|]; split; try apply Hat; lia. }
  destruct (next s1) as [[y|] s2] eqn:N.
  - pose proof (next_at _ _ _ Hat1) as Hat2. rewrite N in Hat2. cbn in Hat2.
    apply next_some in N. apply IH.
    + destruct Hat1 as [<- ?]. intuition lia.
    + eapply at_weaken; [exact Hat2|apply Hat].
  - apply next_none in N as [-> _]. apply IH; [lia|]. eapply at_weaken; [exact Hat1|apply Hat].
Qed.

Lemma lex_quoted_string_post F s s0 p :
  length s0 < F -> at_ s0 p s -> post s0 p (lex_quoted_string F s).
Proof.
  intros HF Hat. unfold lex_quoted_string.
  destruct (next s) as [[x|] s1] eqn:N.
  - pose proof (next_at _ _ _ Hat) as Hat'. rewrite N in Hat'. cbn in Hat'.
    apply next_some in N. apply quoted_loop_post; [|exact Hat']. destruct Hat as [<- _]. intuition lia.
  - apply next_none in N as [-> _]. apply quoted_loop_post; [lia|exact Hat].
Qed.

Ltac run_post :=
  apply accept_run_post; [reflexivity| lia | assumption].

Lemma lex_identifier_post F s s0 p :
  length s0 < F -> at_ s0 p s -> post s0 p (lex_identifier F s).
Proof.
  intros HF Hat. unfold lex_identifier. apply post_bind; [apply accept_run_post; [reflexivity|lia|assumption]|].
  intros s1 H1. destruct (_ && _).
  - apply post_ok, ignore_at, next_at, emit_at, H1.
  - apply post_bind.
    + destruct (peek s1 =? 46)%Z; [|exact H1].
      apply accept_run_post; [reflexivity|lia|apply next_at, H1].
    + intros s2 H2. exact H2.
Qed.

(** lex_number is entered right after a successful accept: the previous character exists *)
Lemma lex_number_post F s s0 q :
  length s0 < F -> inp s = s0 -> pos s = S q -> q < length s0 -> post s0 (S q) (lex_number F s).
Proof.
  intros HF Hi Hp Hq. unfold lex_number, backup. rewrite Hp. cbn [lbind].
  destruct (next (set_pos s q)) as [[x|] s1] eqn:N.
  2:{ apply next_none in N as [_ N]. cbn in N. rewrite Hi in N. lia. }
  apply next_some in N. cbn in N. destruct N as (_ & _ & Hi1 & Hp1 & _).
  assert (Hat1 : at_ s0 (S q) s1) by (split; [congruence|lia]).
  destruct ((peek s1 =? 10)%Z || (peek s1 =? 0)%Z) eqn:T; [exact Hat1|].
  apply orb_false_iff in T as [_ T0]. apply Z.eqb_neq in T0. apply peek_nonzero_lt in T0.
  apply post_bind; [|intros s2 H2; exact H2].
  destruct (oz_is (Some x) 48).
  - destruct (next s1) as [[y|] s2] eqn:N2.
    2:{ apply next_none in N2 as [_ N2]. lia. }
    pose proof (next_at _ _ _ Hat1) as Hat2. rewrite N2 in Hat2. cbn in Hat2.
    apply next_some in N2. destruct N2 as (_ & _ & Hi2 & Hp2 & _).
    destruct (oz_is (Some y) 98); [apply accept_run_post; [reflexivity|lia|assumption]|].
    destruct (oz_is (Some y) 111); [apply accept_run_post; [reflexivity|lia|assumption]|].
    destruct (oz_is (Some y) 120); [apply accept_run_post; [reflexivity|lia|assumption]|].
    unfold backup. rewrite Hp2. cbn. split; cbn; [apply Hat2|lia].
  - apply accept_run_post; [reflexivity|lia|assumption].
Qed.

Lemma accept_or_at s0 p r f :
  at_ s0 p (snd r) -> (forall s, at_ s0 p s -> at_ s0 p (snd (f s))) -> at_ s0 p (snd (accept_or r f)).
Proof. unfold accept_or. destruct (fst r); auto. Qed.

Lemma accept_prefix_at' s0 p pre s : at_ s0 p s -> at_ s0 p (snd (accept_prefix s pre)).
Proof. intros. destruct (accept_prefix s pre) eqn:E. eapply accept_prefix_at; eauto. Qed.
Lemma accept_at' s0 p c n s : at_ s0 p s -> at_ s0 p (snd (accept s c n)).
Proof. intros. destruct (accept s c n) eqn:E. eapply accept_at; eauto. Qed.

(** strict progress of the successful alternatives *)
Lemma accept_prefix_fst_true s pre : pre <> [] -> fst (accept_prefix s pre) = true ->
  pos s < pos (snd (accept_prefix s pre)).
Proof.
  intros Hne. unfold accept_prefix. destruct (str_eqb _ _); cbn; [|discriminate].
  destruct pre; [congruence|]. cbn. lia.
Qed.
Lemma accept_fst_true s c : mem_z 0 c = false -> fst (accept s c false) = true ->
  pos s < pos (snd (accept s c false)) .
Proof.
  intros Hc Hb. destruct (accept s c false) as [b s'] eqn:E. cbn in *. subst b.
  eapply accept_true in E; eauto. intuition lia.
Qed.

Lemma lex_opcode_index_post F s s0 p :
  length s0 < F -> at_ s0 p s -> post s0 p (lex_opcode_index F s).
Proof.
  intros HF Hat. unfold lex_opcode_index. apply post_bind; [apply ignore_run_post; auto|].
  intros s2 H2. destruct (accept s2 index_chars false) as [b s3] eqn:A.
  pose proof (accept_at _ _ _ _ _ _ _ A H2) as H3.
  destruct b; [exact H3|apply post_raise, H3].
Qed.

Lemma lex_expression_loop_post F s0 : length s0 < F ->
  forall fuel s p, length s0 - pos s < fuel -> at_ s0 p s -> post s0 p (lex_expression_loop fuel F s).
Proof.
  intros HF. induction fuel as [|fuel IH]; intros s p Hfuel Hat; [lia|].
  cbn [lex_expression_loop]. destruct (pos s <? length (inp s)) eqn:L; [|exact Hat].
  apply Nat.ltb_lt in L.
  apply post_weaken with (p := pos s); [|apply Hat].
  assert (Hat' : at_ s0 (pos s) s) by (split; [apply Hat|lia]).
  assert (Hi : inp s = s0) by apply Hat. clear Hat. rewrite Hi in L.
  apply post_bind; [apply ignore_run_post; auto|]. intros sa Ha.
  (* every recursive call is made on a state strictly further than [sa] *)
  assert (REC : forall s', inp s' = s0 -> pos sa < pos s' -> post s0 (pos s) (lex_expression_loop fuel F s')).
  { intros s' Hi' Hp'. apply post_weaken with (p := pos s'); [|destruct Ha; lia].
    apply IH; [destruct Ha; lia|]. split; [assumption|lia]. }
  destruct (accept sa digits false) as [b s1] eqn:A1. destruct b.
  { pose proof (accept_true _ _ _ _ A1 eq_refl eq_refl) as (Hi1 & Hp1 & Hlt & _).
    destruct Ha as [Hia Hpa].
    apply post_bind2 with (p1 := S (pos sa)).
    - apply lex_number_post with (q := pos sa); auto; congruence.
    - intros s2 H2. apply REC; [apply H2|]. destruct H2. lia. }
  apply accept_false in A1. subst s1.
  destruct (accept sa ident_start false) as [b s2] eqn:A2. destruct b.
  { pose proof (accept_true _ _ _ _ A2 eq_refl eq_refl) as (Hi1 & Hp1 & Hlt & _).
    destruct Ha as [Hia Hpa].
    apply post_bind2 with (p1 := pos s2).
    - apply lex_identifier_post; auto. split; [congruence|lia].
    - intros s3 H3. apply REC; [apply H3|]. destruct H3. lia. }
  apply accept_false in A2. subst s2.
  match goal with |- context [accept_or (accept_or ?a ?f) ?g] => set (r := accept_or (accept_or a f) g) end.
  assert (Hr : inp (snd r) = s0 /\ (fst r = true -> pos sa < pos (snd r)) /\ (fst r = false -> snd r = sa)).
  { subst r. unfold accept_or.
    destruct (accept sa expr_ops false) as [b1 t1] eqn:B1. cbn [fst snd].
    destruct b1; cbn [fst snd].
    - pose proof (accept_true _ _ _ _ B1 eq_refl eq_refl) as (Hi1 & Hp1 & Hlt & _).
      split; [destruct Ha; congruence|]. split; [lia|discriminate].
    - apply accept_false in B1. subst t1.
      destruct (accept_prefix sa [60%Z;60%Z]) as [b2 t2] eqn:B2. cbn [fst snd].
      destruct b2; cbn [fst snd].
      + apply accept_prefix_true in B2 as [Hi2 Hp2]. cbn in Hp2.
        split; [destruct Ha; congruence|]. split; [lia|discriminate].
      + apply accept_prefix_false in B2. subst t2.
        destruct (accept_prefix sa [62%Z;62%Z]) as [b3 t3] eqn:B3. cbn [fst snd].
        destruct b3.
        * apply accept_prefix_true in B3 as [Hi3 Hp3]. cbn in Hp3.
          split; [destruct Ha; congruence|]. split; [lia|discriminate].
        * apply accept_prefix_false in B3. subst t3. split; [apply Ha|]. split; [discriminate|reflexivity]. }
  destruct r as [b3 s3]. cbn [fst snd] in Hr. destruct Hr as (Hr1 & Hr2 & Hr3).
  destruct b3.
  { apply REC; cbn; auto. }
  specialize (Hr3 eq_refl). subst s3.
  destruct (accept sa [40%Z] false) as [b s4] eqn:A4. destruct b.
  { pose proof (accept_true _ _ _ _ A4 eq_refl eq_refl) as (Hi1 & Hp1 & Hlt & _).
    apply REC; cbn; [destruct Ha; congruence|lia]. }
  apply accept_false in A4. subst s4.
  destruct (accept sa [41%Z] false) as [b s5] eqn:A5. destruct b.
  { pose proof (accept_true _ _ _ _ A5 eq_refl eq_refl) as (Hi1 & Hp1 & Hlt & _).
    apply REC; cbn; [destruct Ha; congruence|lia]. }
  apply accept_false in A5. subst s5. exact Ha.
Qed.

Lemma lex_expression_post F s s0 p :
  length s0 < F -> at_ s0 p s -> post s0 p (lex_expression F s).
Proof. intros. unfold lex_expression. apply lex_expression_loop_post; auto. lia. Qed.

Lemma lex_operand_post F s s0 p :
  length s0 < F -> at_ s0 p s -> post s0 p (lex_operand F s).
Proof.
  intros HF Hat. unfold lex_operand.
  match goal with |- context [ignore_run F ?x [32%Z]] => assert (H1 : at_ s0 p x) end.
  { destruct (peek s =? 35)%Z; [apply emit_at, next_at, Hat|].
    destruct (peek s =? 40)%Z; [apply emit_at, next_at, Hat|].
    destruct (peek s =? 91)%Z; [apply emit_at, next_at, Hat|exact Hat]. }
  apply post_bind; [apply ignore_run_post; auto|]. intros s2 H2.
  apply post_bind; [apply lex_expression_post; auto|]. intros s3 H3.
  apply post_bind; [apply ignore_run_post; auto|]. intros s4 H4.
  destruct (accept s4 [44%Z] false) as [b s5] eqn:A5.
  pose proof (accept_at _ _ _ _ _ _ _ A5 H4) as H5.
  apply post_bind.
  { destruct b; [apply lex_opcode_index_post; auto|exact H5]. }
  intros s6 H6.
  match goal with |- context [ignore_run F ?x [32%Z]] => assert (H7 : at_ s0 p x) end.
  { destruct (peek s6 =? 41)%Z; [apply emit_at, next_at, H6|].
    destruct (peek s6 =? 93)%Z; [apply emit_at, next_at, H6|exact H6]. }
  apply post_bind; [apply ignore_run_post; auto|]. intros s8 H8.
  destruct (accept s8 [44%Z] false) as [b' s9] eqn:A9.
  pose proof (accept_at _ _ _ _ _ _ _ A9 H8) as H9.
  destruct b'; [apply lex_opcode_index_post; auto|exact H9].
Qed.

Lemma lex_opcode_size_post F s s0 p :
  length s0 < F -> at_ s0 p s -> post s0 p (lex_opcode_size F s).
Proof.
  intros HF Hat. unfold lex_opcode_size.
  destruct (accept (ignore s) size_chars false) as [b s2] eqn:A.
  pose proof (accept_at _ _ _ _ _ _ _ A (ignore_at _ _ _ Hat)) as H2.
  destruct b.
  - apply post_bind; [apply ignore_run_post; auto|]. intros s4 H4. apply lex_operand_post; auto.
  - apply post_raise. apply next_at in H2. apply H2.
Qed.

Lemma lex_opcode_tail_post F s s0 p :
  length s0 < F -> at_ s0 p s -> post s0 p (lex_opcode_tail F s).
Proof.
  intros HF Hat. unfold lex_opcode_tail.
  destruct (accept s [46%Z] false) as [b s1] eqn:A.
  pose proof (accept_at _ _ _ _ _ _ _ A Hat) as H1.
  apply post_bind.
  { destruct b; [apply lex_opcode_size_post; auto|exact H1]. }
  intros s2 H2. apply post_bind; [apply ignore_run_post; auto|]. intros s3 H3.
  apply lex_operand_post; auto.
Qed.

Lemma lex_opcode_post F lx s s0 :
  length s0 < F -> inp s = s0 -> post s0 (pos s) (lex_opcode F lx s).
Proof.
  intros HF Hi. assert (Hat : at_ s0 (pos s) s) by (split; [assumption|lia]).
  unfold lex_opcode. destruct (_ && _).
  - apply post_bind; [apply accept_run_post; [reflexivity|lia|assumption]|]. intros s1 H1.
    destruct (accept s1 [59%Z] false) as [b s2] eqn:A.
    pose proof (accept_at _ _ _ _ _ _ _ A H1) as H2.
    apply post_bind.
    { destruct b; [apply accept_run_post; [reflexivity|lia|assumption]|exact H2]. }
    intros s3 H3.
    assert (H4 : forall ty, at_ s0 (pos s) (emit (set_pos s3 (pos s)) ty)).
    { intros ty. split; cbn; [apply H3|lia]. }
    destruct (_ || _); [apply H4|]. apply lex_opcode_tail_post; auto.
  - apply lex_opcode_tail_post; auto.
Qed.

Lemma lex_keyword_post F lx s s0 p :
  length s0 < F -> at_ s0 p s -> post s0 p (lex_keyword F lx s).
Proof.
  intros HF Hat. unfold lex_keyword.
  apply post_bind; [apply accept_run_post; [reflexivity|cbn; lia|apply ignore_at, Hat]|]. intros s2 H2.
  destruct (mem_str _ _); [exact H2|apply post_raise, H2].
Qed.

(** one step of the elif-chain of lex_initial: on success [A] is the accept equation, [t] the new
    state and [H] its at_ fact; on failure the state is unchanged *)
Ltac chain_accept Hat A t H :=
  match goal with
  | |- post ?s0 ?p (let '(b, s1) := accept ?s ?c false in _) =>
      let b := fresh "b" in
      destruct (accept s c false) as [b t] eqn:A;
      destruct b;
      [ pose proof (accept_at _ _ _ _ _ _ _ A Hat) as H
      | apply accept_false in A; subst t ]
  | |- post ?s0 ?p (let '(b, s1) := accept_prefix ?s ?c in _) =>
      let b := fresh "b" in
      destruct (accept_prefix s c) as [b t] eqn:A;
      destruct b;
      [ pose proof (accept_prefix_at _ _ _ _ _ _ A Hat) as H
      | apply accept_prefix_false in A; subst t ]
  end.

Lemma lex_initial_post lx F s s0 p :
  length s0 < F -> at_ s0 p s -> post s0 p (lex_initial lx F s).
Proof.
  intros HF Hat0. unfold lex_initial.
  apply post_bind; [apply ignore_run_post; auto|]. clear s Hat0. intros s Hat.
  chain_accept Hat A t H.
  { apply post_bind; [apply line_comment_loop_post; [lia|assumption]|]. intros t2 H2. exact H2. }
  chain_accept Hat A t H.
  { pose proof (accept_true _ _ _ _ A eq_refl eq_refl) as (Hi1 & Hp1 & Hlt & _).
    apply post_weaken with (p := S (pos s)); [|destruct Hat; lia].
    apply lex_number_post with (q := pos s); auto; destruct Hat; congruence. }
  chain_accept Hat A t H; [assumption|].
  chain_accept Hat A t H; [assumption|].
  chain_accept Hat A t H; [assumption|].
  chain_accept Hat A t H; [assumption|].
  chain_accept Hat A t H; [assumption|].
  match goal with |- context [accept_or (accept_or (accept_or ?a ?f) ?g) ?h] =>
    set (r := accept_or (accept_or (accept_or a f) g) h) end.
  assert (Hr : at_ s0 p (snd r) /\ (fst r = false -> snd r = s)).
  { subst r. unfold accept_or.
    destruct (accept_prefix s [62%Z]) as [b1 t1] eqn:B1. cbn [fst snd].
    destruct b1; cbn [fst snd]; [split; [eapply accept_prefix_at; eauto|discriminate]|].
    apply accept_prefix_false in B1; subst t1.
    destruct (accept_prefix s [60%Z]) as [b1 t1] eqn:B1. cbn [fst snd].
    destruct b1; cbn [fst snd]; [split; [eapply accept_prefix_at; eauto|discriminate]|].
    apply accept_prefix_false in B1; subst t1.
    destruct (accept_prefix s [62%Z;61%Z]) as [b1 t1] eqn:B1. cbn [fst snd].
    destruct b1; cbn [fst snd]; [split; [eapply accept_prefix_at; eauto|discriminate]|].
    apply accept_prefix_false in B1; subst t1.
    destruct (accept_prefix s [60%Z;61%Z]) as [b1 t1] eqn:B1. cbn [fst snd].
    destruct b1; cbn [fst snd]; [split; [eapply accept_prefix_at; eauto|discriminate]|].
    apply accept_prefix_false in B1; subst t1. split; [assumption|reflexivity]. }
  destruct r as [b8 s8]. cbn [fst snd] in Hr. destruct Hr as [Hr1 Hr2].
  destruct b8; [exact Hr1|]. specialize (Hr2 eq_refl). subst s8.
  chain_accept Hat A t H.
  { (* letter: backup, accept_opcode, lex_opcode / lex_identifier *)
    pose proof (accept_true _ _ _ _ A eq_refl eq_refl) as (Hi1 & Hp1 & Hlt & _).
    unfold backup. rewrite Hp1. cbn [lbind].
    assert (Hb : at_ s0 p (set_pos t (pos s))) by (split; cbn; [destruct Hat; congruence|apply Hat]).
    unfold accept_opcode. destruct (_ && _).
    - apply post_weaken with (p := pos (set_pos (set_pos t (pos s)) (pos (set_pos t (pos s)) + 3))).
      + apply lex_opcode_post; auto. cbn. destruct Hat; congruence.
      + cbn. destruct Hat; lia.
    - apply lex_identifier_post; auto. }
  chain_accept Hat A t H; [apply lex_keyword_post; auto|].
  chain_accept Hat A t H; [assumption|].
  chain_accept Hat A t H; [assumption|].
  chain_accept Hat A t H; [assumption|].
  chain_accept Hat A t H.
  { destruct (accept t [61%Z] false) as [b' t2] eqn:A'.
    pose proof (accept_at _ _ _ _ _ _ _ A' H) as H2. destruct b'; exact H2. }
  chain_accept Hat A t H; [apply lex_quoted_string_post; auto|].
  chain_accept Hat A t H; [assumption|].
  chain_accept Hat A t H; [assumption|].
  chain_accept Hat A t H; [assumption|].
  chain_accept Hat A t H; [assumption|].
  chain_accept Hat A t H.
  { destruct (accept t [123%Z] false) as [b' t2] eqn:A'.
    pose proof (accept_at _ _ _ _ _ _ _ A' H) as H2. destruct b'; exact H2. }
  chain_accept Hat A t H.
  { destruct (accept t [125%Z] false) as [b' t2] eqn:A'.
    pose proof (accept_at _ _ _ _ _ _ _ A' H) as H2. destruct b'; exact H2. }
  chain_accept Hat A t H; [assumption|].
  chain_accept Hat A t H.
  { apply post_bind; [apply block_comment_loop_post; [lia|assumption]|]. intros t2 H2. exact H2. }
  destruct (next s) as [[x|] t2] eqn:N.
  - apply post_raise. apply next_some in N. destruct Hat. intuition congruence.
  - apply next_none in N as [-> _]. exact Hat.
Qed.

(* ------------------------------------------------------------------------------------------ *)
(** * The drivers *)

Lemma accept_run_no_raise c n : forall F s m l k s', accept_run F s c n <> LRaise m l k s'.
Proof.
  induction F as [|F IH]; intros s m l k s'; cbn [accept_run]; [discriminate|].
  destruct (accept s c n) as [b t]. destruct b; [apply IH|discriminate].
Qed.

Lemma scan_handler_err F m l c s : length (inp s) < F ->
  exists e, scan_handler F m l c s = ScanErr e.
Proof.
  intros HF. unfold scan_handler.
  pose proof (accept_run_post eol_or_eof true eq_refl F s (inp s) 0) as P.
  pose proof (accept_run_no_raise eol_or_eof true F s) as Q.
  destruct (accept_run F s eol_or_eof true); cbn in P.
  - eexists; reflexivity.
  - exfalso. eapply Q. reflexivity.
  - exfalso; apply P; [lia|split; [reflexivity|lia]].
  - exfalso; apply P; [lia|split; [reflexivity|lia]].
Qed.

Definition finished (r : scan_result) : Prop := r <> ScanOutOfFuel /\ r <> ScanStuck.

Lemma scan_loop_finished F state s0 :
  length s0 < F ->
  (forall s p, at_ s0 p s -> post s0 p (state F s)) ->
  forall n s, inp s = s0 -> length s0 - pos s < n -> finished (scan_loop n F state s).
Proof.
  intros HF Hstate. induction n as [|n IH]; intros s Hi Hn; [lia|].
  cbn [scan_loop]. destruct (pos s <? length (inp s)) eqn:L.
  2:{ split; discriminate. }
  apply Nat.ltb_lt in L. rewrite Hi in L.
  assert (Hat : at_ s0 (pos s) s) by (split; [assumption|lia]).
  specialize (Hstate s (pos s) Hat).
  destruct (state F s) as [s'|m l c s'| |]; cbn in Hstate; try contradiction.
  - destruct Hstate as [Hi' Hp'].
    destruct (pos s' =? pos s) eqn:E.
    + destruct (scan_handler_err F (M_InvalidInput (skipn (pos (ignore s')) (inp (ignore s'))))
                (fst (get_position (ignore s'))) (snd (get_position (ignore s'))) (ignore s')) as [e He].
      { cbn. rewrite Hi'. assumption. }
      rewrite He. split; discriminate.
    + apply Nat.eqb_neq in E. apply IH; [assumption|lia].
  - destruct (scan_handler_err F m l c s') as [e He]; [rewrite Hstate; assumption|].
    rewrite He. split; discriminate.
Qed.

Lemma scan_gen_finished state file s :
  (forall F s0 t p, length s0 < F -> at_ s0 p t -> post s0 p (state F t)) ->
  finished (scan_gen (scan_fuel s) state file s).
Proof.
  intros Hstate. unfold scan_gen, scan_fuel.
  apply scan_loop_finished with (s0 := s); cbn; auto; try lia.
  intros t p Ht. apply Hstate; [lia|assumption].
Qed.

(** C15 (scanner): the driver of Scanner(lex_initial).scan never runs out of fuel |s| + 2,
    whatever the tables are. *)
Theorem scan_fuel_sufficient : forall tabs file s,
  scan_with_fuel (length s + 2) tabs file s <> ScanOutOfFuel.
Proof.
  intros lx file s. apply (scan_gen_finished (lex_initial lx) file s).
  intros. apply lex_initial_post; assumption.
Qed.

(** the same for Scanner(lex_expression).scan (expr_to_ast, used by -D NAME=VALUE) *)
Theorem scan_expression_fuel_sufficient : forall file s,
  scan_expression_with_fuel (length s + 2) file s <> ScanOutOfFuel.
Proof.
  intros file s. apply (scan_gen_finished lex_expression file s).
  intros. apply lex_expression_post; assumption.
Qed.

(** [backup()] is never executed at position 0 (the model never leaves its domain) *)
Theorem scan_never_stuck : forall tabs file s,
  scan tabs file s <> ScanStuck /\ scan_expression file s <> ScanStuck.
Proof.
  intros lx file s. split.
  - apply (scan_gen_finished (lex_initial lx) file s). intros. apply lex_initial_post; assumption.
  - apply (scan_gen_finished lex_expression file s). intros. apply lex_expression_post; assumption.
Qed.

(** on the shared result type *)
Corollary scan_res_fuel_sufficient : forall tabs file s, scan_res tabs file s <> OutOfFuel.
Proof.
  intros lx file s. unfold scan_res. pose proof (scan_fuel_sufficient lx file s) as H.
  unfold scan, scan_fuel. destruct (scan_with_fuel (length s + 2) lx file s) as [t l|e| |]; cbn; try discriminate.
  - destruct (se_quoted e); discriminate.
  - congruence.
Qed.

(** Why the side condition of [accept_run_post] matters: a negated run whose candidate set lacks
    "\0" spins at the end of input (accept() succeeds without advancing) — fuel never suffices. *)
Example accept_run_negated_without_nul_spins :
  forall F, accept_run F (init_sc [] [97%Z]) [10%Z] true = LOutOfFuel.
Proof.
  assert (G : forall F s, inp s = [97%Z] -> 1 <= pos s -> accept_run F s [10%Z] true = LOutOfFuel).
  { induction F as [|F IH]; intros s Hi Hp; [reflexivity|].
    cbn [accept_run]. unfold accept.
    assert (Hpk : peek s = 0%Z) by (apply peek_eof; rewrite Hi; cbn; lia).
    rewrite Hpk. cbn [mem_z existsb xorb Z.eqb orb].
    unfold next. assert (N : nth_error (inp s) (pos s) = None) by (apply nth_error_None; rewrite Hi; cbn; lia).
    rewrite N. cbn [snd]. apply IH; assumption. }
  intros [|F]; [reflexivity|].
  cbn [accept_run]. unfold accept, peek, peek_k, next. cbn.
  apply G; cbn; auto.
Qed.

Print Assumptions scan_fuel_sufficient.
Print Assumptions scan_expression_fuel_sufficient.
Print Assumptions scan_never_stuck.
