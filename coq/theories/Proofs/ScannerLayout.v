(** Scanner proofs, part 3 (C16, scanner side): line compositionality of [scan] and the layout
    corollaries on the significant token stream.
    Ingredients: fuel irrelevance (ScannerMono.v), shift simulation (ScannerShift.v), prefix
    simulation (ScannerPrefix.v), and strict progress of lex_initial (here). *)
From A816 Require Import Model.Scanner Proofs.ScannerSpec Proofs.ScannerFuel Proofs.ScannerPos
  Proofs.ScannerMono Proofs.ScannerShift Proofs.ScannerPrefix.
From Coq Require Import Arith Lia.
Open Scope nat_scope.

(* ------------------------------------------------------------------------------------------ *)
(** * lex_initial consumes at least one character (or raises) unless it is at the end of input *)

Lemma ident_start_chars c : mem_z c ident_start = true -> mem_z c ident_chars = true.
Proof.
  intros H. change ident_chars with (ident_start ++ digits). unfold mem_z in *.
  rewrite existsb_app, H. reflexivity.
Qed.

Lemma lex_identifier_strict F u s0 : mem_z (peek u) ident_chars = true -> length s0 < F -> inp u = s0 ->
  post s0 (S (pos u)) (lex_identifier F u).
Proof.
  intros Hm HF Hi. unfold lex_identifier. destruct F as [|F]; [lia|]. cbn [accept_run].
  unfold accept at 1. rewrite xorb_false_r, Hm.
  assert (Hlt : pos u < length (inp u)).
  { apply peek_nonzero_lt. intros E. rewrite E in Hm. discriminate. }
  assert (Hx : at_ s0 (S (pos u)) (snd (next u))).
  { destruct (next u) as [[c|] x] eqn:N; cbn [snd].
    - apply next_some in N. split; [intuition congruence|intuition lia].
    - apply next_none in N as [_ N]. lia. }
  apply post_bind; [apply accept_run_post; [reflexivity|lia|assumption]|].
  intros a Ha. destruct (_ && _).
  - apply post_ok, ignore_at, next_at, emit_at, Ha.
  - apply post_bind.
    + destruct (peek a =? 46)%Z; [|exact Ha].
      apply accept_run_post; [reflexivity|lia|apply next_at, Ha].
    + intros b Hb. exact Hb.
Qed.

Ltac chain_s Hi Hp A t H :=
  match goal with
  | |- post ?s0 ?p (let '(b, s1) := accept ?s ?c false in _) =>
      destruct (accept s c false) as [[|] t] eqn:A;
      [ assert (H : at_ s0 p t)
          by (pose proof (accept_true _ _ _ _ A eq_refl eq_refl) as (? & ? & _); split; [congruence|lia])
      | apply accept_false in A; subst t ]
  | |- post ?s0 ?p (let '(b, s1) := accept_prefix ?s ?c in _) =>
      destruct (accept_prefix s c) as [[|] t] eqn:A;
      [ assert (H : at_ s0 p t)
          by (pose proof (accept_prefix_true _ _ _ A) as [? Hq]; cbn [length] in Hq; split; [congruence|lia])
      | apply accept_prefix_false in A; subst t ]
  end.

Lemma lex_initial_rest_post lx F s s0 p :
  length s0 < F -> inp s = s0 -> p <= S (pos s) -> (length s0 <= pos s -> p <= pos s) ->
  post s0 p (lex_initial_rest lx F s).
Proof.
  intros HF Hi Hp Hend. unfold lex_initial_rest.
  chain_s Hi Hp A t H.
  { apply post_bind; [apply line_comment_loop_post; [lia|assumption]|]. intros t2 H2. exact H2. }
  chain_s Hi Hp A t H.
  { pose proof (accept_true _ _ _ _ A eq_refl eq_refl) as (Hi1 & Hp1 & Hlt & _).
    apply post_weaken with (p := S (pos s)); [|lia].
    apply lex_number_post with (q := pos s); auto; congruence. }
  chain_s Hi Hp A t H; [assumption|].
  chain_s Hi Hp A t H; [assumption|].
  chain_s Hi Hp A t H; [assumption|].
  chain_s Hi Hp A t H; [assumption|].
  chain_s Hi Hp A t H; [assumption|].
  match goal with |- context [accept_or (accept_or (accept_or ?a ?f) ?g) ?h] =>
    set (r := accept_or (accept_or (accept_or a f) g) h) end.
  assert (Hr : (fst r = true -> at_ s0 p (snd r)) /\ (fst r = false -> snd r = s)).
  { subst r. unfold accept_or.
    destruct (accept_prefix s [62%Z]) as [b1 t1] eqn:B1. cbn [fst snd].
    destruct b1; cbn [fst snd].
    { split; [|discriminate]. intros _. apply accept_prefix_true in B1 as [? Hq]. cbn [length] in Hq. split; [congruence|lia]. }
    apply accept_prefix_false in B1; subst t1.
    destruct (accept_prefix s [60%Z]) as [b1 t1] eqn:B1. cbn [fst snd].
    destruct b1; cbn [fst snd].
    { split; [|discriminate]. intros _. apply accept_prefix_true in B1 as [? Hq]. cbn [length] in Hq. split; [congruence|lia]. }
    apply accept_prefix_false in B1; subst t1.
    destruct (accept_prefix s [62%Z;61%Z]) as [b1 t1] eqn:B1. cbn [fst snd].
    destruct b1; cbn [fst snd].
    { split; [|discriminate]. intros _. apply accept_prefix_true in B1 as [? Hq]. cbn [length] in Hq. split; [congruence|lia]. }
    apply accept_prefix_false in B1; subst t1.
    destruct (accept_prefix s [60%Z;61%Z]) as [b1 t1] eqn:B1. cbn [fst snd].
    destruct b1; cbn [fst snd].
    { split; [|discriminate]. intros _. apply accept_prefix_true in B1 as [? Hq]. cbn [length] in Hq. split; [congruence|lia]. }
    apply accept_prefix_false in B1; subst t1. split; [discriminate|reflexivity]. }
  destruct r as [b8 s8]. cbn [fst snd] in Hr. destruct Hr as [Hr1 Hr2].
  destruct b8; [exact (Hr1 eq_refl)|]. specialize (Hr2 eq_refl). subst s8.
  chain_s Hi Hp A t H.
  { (* letter *)
    pose proof (accept_true _ _ _ _ A eq_refl eq_refl) as (Hi1 & Hp1 & Hlt & Hm & _).
    unfold backup. rewrite Hp1. cbn [lbind].
    unfold accept_opcode. destruct (_ && _).
    - apply post_weaken with (p := pos (set_pos (set_pos t (pos s)) (pos (set_pos t (pos s)) + 3))).
      + apply lex_opcode_post; auto. cbn. congruence.
      + cbn. lia.
    - apply post_weaken with (p := S (pos (set_pos t (pos s)))); [|cbn; lia].
      apply lex_identifier_strict; [|assumption|cbn; congruence].
      apply ident_start_chars. rewrite peek_nth in *. cbn [set_pos inp pos]. rewrite Hi1. exact Hm. }
  chain_s Hi Hp A t H; [apply lex_keyword_post; auto|].
  chain_s Hi Hp A t H; [assumption|].
  chain_s Hi Hp A t H; [assumption|].
  chain_s Hi Hp A t H; [assumption|].
  chain_s Hi Hp A t H.
  { destruct (accept t [61%Z] false) as [b' t2] eqn:A'.
    pose proof (accept_at _ _ _ _ _ _ _ A' H) as H2. destruct b'; exact H2. }
  chain_s Hi Hp A t H; [apply lex_quoted_string_post; auto|].
  chain_s Hi Hp A t H; [assumption|].
  chain_s Hi Hp A t H; [assumption|].
  chain_s Hi Hp A t H; [assumption|].
  chain_s Hi Hp A t H; [assumption|].
  chain_s Hi Hp A t H.
  { destruct (accept t [123%Z] false) as [b' t2] eqn:A'.
    pose proof (accept_at _ _ _ _ _ _ _ A' H) as H2. destruct b'; exact H2. }
  chain_s Hi Hp A t H.
  { destruct (accept t [125%Z] false) as [b' t2] eqn:A'.
    pose proof (accept_at _ _ _ _ _ _ _ A' H) as H2. destruct b'; exact H2. }
  chain_s Hi Hp A t H; [assumption|].
  chain_s Hi Hp A t H.
  { apply post_bind; [apply block_comment_loop_post; [lia|assumption]|]. intros t2 H2. exact H2. }
  destruct (next s) as [[x|] t2] eqn:N.
  - apply post_raise. apply next_some in N. intuition congruence.
  - apply next_none in N as [-> N]. split; [assumption|]. apply Hend. congruence.
Qed.

Lemma lex_initial_progress lx F s t :
  length (inp s) < F -> pos s < length (inp s) -> lex_initial lx F s = LOk t -> pos s < pos t.
Proof.
  intros HF Hlt H. rewrite lex_initial_split in H. unfold ignore_run in H.
  destruct (accept_run F s blanks false) as [a0| | |] eqn:R; cbn [lbind] in H; try discriminate.
  pose proof (accept_run_fields _ _ _ _ _ R) as (Hi0 & _ & _ & _ & Hle0 & _).
  destruct (Nat.lt_ge_cases (pos a0) (length (inp s))) as [Hin|Hout].
  - pose proof (lex_initial_rest_post lx F (ignore a0) (inp s) (S (pos a0)) HF Hi0 (le_n _)) as P.
    rewrite H in P. cbn [ignore pos] in P. destruct P as [_ P]; [lia|]. lia.
  - pose proof (lex_initial_rest_post lx F (ignore a0) (inp s) (pos a0) HF Hi0) as P.
    rewrite H in P. cbn [ignore pos] in P. destruct P as [_ P]; [lia|lia|]. lia.
Qed.
