(** Scanner proofs, part 3 (C16, scanner side): line compositionality of [scan] and the layout
    corollaries on the significant token stream.
    Ingredients: fuel irrelevance (ScannerMono.v), shift simulation (ScannerShift.v), prefix
    simulation (ScannerPrefix.v), and strict progress of lex_initial (here). *)
From A816 Require Import Model.Scanner Proofs.ScannerSpec Proofs.ScannerFuel Proofs.ScannerPos
  Proofs.ScannerMono Proofs.ScannerShift Proofs.ScannerPrefix.
From Coq Require Import Arith Lia.
Open Scope nat_scope.

(* ------------------------------------------------------------------------------------------ *)
(** * lex_initial consumes at least one character (or raises) unless it is at the end of input *)

Lemma ident_start_chars c : mem_z c ident_start = true -> mem_z c ident_chars = true.
Proof.
  intros H. change ident_chars with (ident_start ++ digits). unfold mem_z in *.
  rewrite existsb_app, H. reflexivity.
Qed.

Lemma lex_identifier_strict F u s0 : mem_z (peek u) ident_chars = true -> length s0 < F -> inp u = s0 ->
  post s0 (S (pos u)) (lex_identifier F u).
Proof.
  intros Hm HF Hi. unfold lex_identifier.
  pose proof (accept_run_post ident_chars false eq_refl F u s0 (pos u) ltac:(lia) (conj Hi (le_n _))) as P.
  destruct (accept_run F u ident_chars false) as [a|m l c a| |] eqn:R; cbn [post lbind] in *; try exact P.
  pose proof (accept_run_fields _ _ _ _ _ R) as (Hia & _ & _ & _ & Hle & Hstop).
  rewrite xorb_false_r in Hstop.
  assert (Hlt : pos u < pos a).
  { destruct (Nat.eq_dec (pos a) (pos u)) as [E|]; [|lia]. exfalso.
    rewrite !peek_nth in *. rewrite Hia, E in Hstop. congruence. }
  assert (Ha : at_ s0 (S (pos u)) a) by (split; [congruence|lia]).
  destruct (_ && _).
  - apply post_ok, ignore_at, next_at, emit_at, Ha.
  - apply post_bind.
    + destruct (peek a =? 46)%Z; [|exact Ha].
      apply accept_run_post; [reflexivity|lia|apply next_at, Ha].
    + intros b Hb. exact Hb.
Qed.

Ltac chain_s Hi Hp A t H :=
  match goal with
  | |- post ?s0 ?p (let '(b, s1) := accept ?s ?c false in _) =>
      destruct (accept s c false) as [[|] t] eqn:A;
      [ assert (H : at_ s0 p t)
          by (pose proof (accept_true _ _ _ _ A eq_refl eq_refl) as (? & ? & _); split; [congruence|lia])
      | apply accept_false in A; subst t ]
  | |- post ?s0 ?p (let '(b, s1) := accept_prefix ?s ?c in _) =>
      destruct (accept_prefix s c) as [[|] t] eqn:A;
      [ assert (H : at_ s0 p t)
          by (pose proof (accept_prefix_true _ _ _ A) as [? Hq]; cbn [length] in Hq; split; [congruence|lia])
      | apply accept_prefix_false in A; subst t ]
  end.

Lemma lex_initial_rest_post lx F s s0 p :
  length s0 < F -> inp s = s0 -> p <= S (pos s) -> (length s0 <= pos s -> p <= pos s) ->
  post s0 p (lex_initial_rest lx F s).
Proof.
  intros HF Hi Hp Hend. unfold lex_initial_rest.
  chain_s Hi Hp A t H.
  { apply post_bind; [apply line_comment_loop_post; [lia|assumption]|]. intros t2 H2. exact H2. }
  chain_s Hi Hp A t H.
  { pose proof (accept_true _ _ _ _ A eq_refl eq_refl) as (Hi1 & Hp1 & Hlt & _).
    apply post_weaken with (p := S (pos s)); [|lia].
    apply lex_number_post with (q := pos s); auto; congruence. }
  chain_s Hi Hp A t H; [assumption|].
  chain_s Hi Hp A t H; [assumption|].
  chain_s Hi Hp A t H; [assumption|].
  chain_s Hi Hp A t H; [assumption|].
  chain_s Hi Hp A t H; [assumption|].
  match goal with |- context [accept_or (accept_or (accept_or ?a ?f) ?g) ?h] =>
    set (r := accept_or (accept_or (accept_or a f) g) h) end.
  assert (Hr : (fst r = true -> at_ s0 p (snd r)) /\ (fst r = false -> snd r = s)).
  { subst r. unfold accept_or.
    destruct (accept_prefix s [62%Z]) as [b1 t1] eqn:B1. cbn [fst snd].
    destruct b1; cbn [fst snd].
    { split; [|discriminate]. intros _. apply accept_prefix_true in B1 as [? Hq]. cbn [length] in Hq. split; [congruence|lia]. }
    apply accept_prefix_false in B1; subst t1.
    destruct (accept_prefix s [60%Z]) as [b1 t1] eqn:B1. cbn [fst snd].
    destruct b1; cbn [fst snd].
    { split; [|discriminate]. intros _. apply accept_prefix_true in B1 as [? Hq]. cbn [length] in Hq. split; [congruence|lia]. }
    apply accept_prefix_false in B1; subst t1.
    destruct (accept_prefix s [62%Z;61%Z]) as [b1 t1] eqn:B1. cbn [fst snd].
    destruct b1; cbn [fst snd].
    { split; [|discriminate]. intros _. apply accept_prefix_true in B1 as [? Hq]. cbn [length] in Hq. split; [congruence|lia]. }
    apply accept_prefix_false in B1; subst t1.
    destruct (accept_prefix s [60%Z;61%Z]) as [b1 t1] eqn:B1. cbn [fst snd].
    destruct b1; cbn [fst snd].
    { split; [|discriminate]. intros _. apply accept_prefix_true in B1 as [? Hq]. cbn [length] in Hq. split; [congruence|lia]. }
    apply accept_prefix_false in B1; subst t1. split; [discriminate|reflexivity]. }
  destruct r as [b8 s8]. cbn [fst snd] in Hr. destruct Hr as [Hr1 Hr2].
  destruct b8; [exact (Hr1 eq_refl)|]. specialize (Hr2 eq_refl). subst s8.
  chain_s Hi Hp A t H.
  { (* letter *)
    pose proof (accept_true _ _ _ _ A eq_refl eq_refl) as (Hi1 & Hp1 & Hlt & Hm & _).
    unfold backup. rewrite Hp1. cbn [lbind].
    unfold accept_opcode. destruct (_ && _).
    - apply post_weaken with (p := pos (set_pos (set_pos t (pos s)) (pos (set_pos t (pos s)) + 3))).
      + apply lex_opcode_post; auto. cbn. congruence.
      + cbn. lia.
    - apply post_weaken with (p := S (pos (set_pos t (pos s)))); [|cbn; lia].
      apply lex_identifier_strict; [|assumption|cbn; congruence].
      apply ident_start_chars. rewrite peek_nth in *. cbn [set_pos inp pos]. rewrite Hi1. exact Hm. }
  chain_s Hi Hp A t H; [apply lex_keyword_post; auto|].
  chain_s Hi Hp A t H; [assumption|].
  chain_s Hi Hp A t H; [assumption|].
  chain_s Hi Hp A t H; [assumption|].
  chain_s Hi Hp A t H.
  { destruct (accept t [61%Z] false) as [b' t2] eqn:A'.
    pose proof (accept_at _ _ _ _ _ _ _ A' H) as H2. destruct b'; exact H2. }
  chain_s Hi Hp A t H; [apply lex_quoted_string_post; auto|].
  chain_s Hi Hp A t H; [assumption|].
  chain_s Hi Hp A t H; [assumption|].
  chain_s Hi Hp A t H; [assumption|].
  chain_s Hi Hp A t H; [assumption|].
  chain_s Hi Hp A t H.
  { destruct (accept t [123%Z] false) as [b' t2] eqn:A'.
    pose proof (accept_at _ _ _ _ _ _ _ A' H) as H2. destruct b'; exact H2. }
  chain_s Hi Hp A t H.
  { destruct (accept t [125%Z] false) as [b' t2] eqn:A'.
    pose proof (accept_at _ _ _ _ _ _ _ A' H) as H2. destruct b'; exact H2. }
  chain_s Hi Hp A t H; [assumption|].
  chain_s Hi Hp A t H.
  { apply post_bind; [apply block_comment_loop_post; [lia|assumption]|]. intros t2 H2. exact H2. }
  destruct (next s) as [[x|] t2] eqn:N.
  - apply post_raise. apply next_some in N. intuition congruence.
  - apply next_none in N as [-> N]. split; [assumption|]. apply Hend. congruence.
Qed.

Lemma lex_initial_progress lx F s t :
  length (inp s) < F -> pos s < length (inp s) -> lex_initial lx F s = LOk t -> pos s < pos t.
Proof.
  intros HF Hlt H. rewrite lex_initial_split in H. unfold ignore_run in H.
  destruct (accept_run F s blanks false) as [a0| | |] eqn:R; cbn [lbind] in H; try discriminate.
  pose proof (accept_run_fields _ _ _ _ _ R) as (Hi0 & _ & _ & _ & Hle0 & _).
  destruct (Nat.lt_ge_cases (pos a0) (length (inp s))) as [Hin|Hout].
  - pose proof (lex_initial_rest_post lx F (ignore a0) (inp s) (S (pos a0)) HF Hi0 (le_n _)) as P.
    rewrite H in P. cbn [ignore pos] in P. destruct P as [_ P]; [lia|]. lia.
  - pose proof (lex_initial_rest_post lx F (ignore a0) (inp s) (pos a0) HF Hi0) as P.
    rewrite H in P. cbn [ignore pos] in P. destruct P as [_ P]; [lia|lia|]. lia.
Qed.

(* ------------------------------------------------------------------------------------------ *)
(** * Line compositionality of [scan] *)

Lemma scan_handler_not_ok F m l c s T L : scan_handler F m l c s <> ScanOk T L.
Proof. unfold scan_handler. destruct (accept_run F s eol_or_eof true); discriminate. Qed.

Lemma line_start_all a : line_start (a ++ [10%Z]) = length (a ++ [10%Z]).
Proof. rewrite line_start_snoc, app_length. cbn. lia. Qed.

Section Compositional.
  Variable lx : lexicon.
  Hypothesis Hlx : lexicon_ok lx = true.
  Variable file s1 s2 : str.
  Hypothesis Hend : exists a, s1 = a ++ [10%Z].
  Local Notation n := (length s1).
  Local Notation N := (length (s1 ++ s2) + 2).
  Local Notation k := (count_nl s1).

  Lemma N_eq : N = n + length s2 + 2.
  Proof. rewrite app_length. reflexivity. Qed.

  (** the run on s2 at the common fuel *)
  Lemma s2_run j : scan_fuel s2 <= j -> scan_loop j N (lex_initial lx) (init_sc file s2) = scan lx file s2.
  Proof.
    intros Hj. unfold scan, scan_with_fuel, scan_gen.
    assert (HF : scan_fuel s2 <= N) by (unfold scan_fuel; rewrite N_eq; lia).
    destruct (scan_loop_mono (lex_initial lx) (scan_fuel s2) N HF
                (fun s => lex_initial_mono lx _ _ s HF) (scan_fuel s2) j (init_sc file s2) Hj) as [E|E]; [|exact E].
    exfalso. exact (scan_fuel_sufficient lx file s2 E).
  Qed.

  Lemma scan_s2_not_stuck : scan lx file s2 <> ScanStuck.
  Proof. apply scan_never_stuck. Qed.
  Lemma scan_s2_not_oof : scan lx file s2 <> ScanOutOfFuel.
  Proof. apply scan_fuel_sufficient. Qed.

  (** the state in which the scan of s1 alone ends is the transplanted initial state of s2 *)
  Lemma boundary u j T L :
    Good s1 file u -> pos u = n -> start u = n -> scan_loop j N (lex_initial lx) u = ScanOk T L ->
    length (lines_rev u) = k /\
    ext s2 u = sh s1 k (lines_rev u) (toks_rev u) (init_sc file s2) /\
    exists e, T = rev (toks_rev u) ++ [e] /\ L = rev (lines_rev u) ++ [[]].
  Proof.
    intros [(Hi & Hf & HI & _) _] Hp Hs H.
    destruct HI as (_ & Hc & Hl & Hn & _). rewrite Hi, Hp, firstn_all in Hc, Hl.
    assert (Hl' : loff u = n) by (destruct Hend as [a ->]; rewrite Hl; apply line_start_all).
    split; [congruence|]. split.
    - unfold ext, sh, init_sc. cbn [inp pos start loff cline lines_rev toks_rev fname map app].
      rewrite Hi, Hp, Hs, Hl', Hc, Hf, !Nat.add_0_r. reflexivity.
    - destruct j as [|j]; [discriminate|]. cbn [scan_loop] in H.
      assert (E : (pos u <? length (inp u)) = false) by (apply Nat.ltb_ge; rewrite Hi; lia).
      rewrite E in H. unfold handle_line in H. cbn [emit loff pos] in H.
      assert (E2 : (loff u <=? pos u) = true) by (apply Nat.leb_le; lia). rewrite E2 in H.
      cbn [toks_rev lines_rev inp rev] in H. injection H as <- <-.
      eexists. split; [reflexivity|]. f_equal. unfold slice. rewrite Hl', Hp, Nat.sub_diag. reflexivity.
  Qed.

  Lemma lex_initial_init_empty F : 1 <= F -> lex_initial lx F (init_sc file []) = LOk (init_sc file []).
  Proof.
    intros HF. rewrite lex_initial_split. unfold ignore_run. destruct F as [|F]; [lia|]. cbn [accept_run].
    rewrite accept_eof by (cbn; auto). cbn [lbind].
    change (ignore (init_sc file [])) with (init_sc file []).
    apply lex_initial_rest_eof. cbn. lia.
  Qed.

  (** from the boundary on, the scan of s1 ++ s2 is the shifted scan of s2 *)
  Lemma after_boundary u j :
    length (lines_rev u) = k -> ext s2 u = sh s1 k (lines_rev u) (toks_rev u) (init_sc file s2) ->
    scan_fuel s2 <= j ->
    scan_loop j N (lex_initial lx) (ext s2 u) =
    shift_result k (rev (toks_rev u)) (rev (lines_rev u)) (scan lx file s2).
  Proof.
    intros HL Hsh Hj. rewrite Hsh.
    pose proof (sh_scan_loop s1 k (lines_rev u) (toks_rev u) HL (lex_initial lx) N
                  (fun t => sh_lex_initial s1 k _ _ lx N t) j (init_sc file s2)) as S.
    rewrite (s2_run j Hj) in S. unfold ssim in S.
    destruct (scan lx file s2) eqn:E; try exact S. exfalso. exact (scan_s2_not_stuck E).
  Qed.

  Lemma prefix_phase : forall j t T L,
    Good s1 file t -> In_ s1 t -> N <= j + pos t ->
    scan_loop j N (lex_initial lx) t = ScanOk T L ->
    exists e Trev Lrev, T = rev Trev ++ [e] /\ L = rev Lrev ++ [[]] /\
      scan_loop j N (lex_initial lx) (ext s2 t) = shift_result k (rev Trev) (rev Lrev) (scan lx file s2).
  Proof.
    induction j as [|j IH]; intros t T L HG HI HN H; [discriminate|].
    cbn [scan_loop] in H |- *.
    destruct HI as [Hi Hp]. pose proof N_eq as HNeq.
    assert (E1 : (pos t <? length (inp t)) = true) by (apply Nat.ltb_lt; rewrite Hi; assumption).
    assert (E2 : (pos (ext s2 t) <? length (inp (ext s2 t))) = true)
      by (apply Nat.ltb_lt; cbn [ext pos inp]; rewrite Hi, app_length; lia).
    rewrite E1 in H. rewrite E2.
    pose proof (lex_initial_ok s1 file lx N t Hlx (Good_Mid _ _ _ HG)) as Pok.
    destruct (lex_initial lx N t) as [u|m l c u| |] eqn:R;
      try (exfalso; eapply scan_handler_not_ok; eassumption); try discriminate.
    cbn [post2] in Pok.
    assert (Hprog : pos t < pos u).
    { eapply lex_initial_progress; [|rewrite Hi; exact Hp|exact R]. rewrite Hi. lia. }
    destruct (pos u =? pos t) eqn:Ep; [apply Nat.eqb_eq in Ep; lia|].
    destruct (In_lex_initial s1 s2 Hend lx N t u Hlx (le_n _) (conj Hi Hp)) as (Hiu & Hcase);
      [apply HG|exact R|].
    destruct Hcase as [[Hpu E]|(Hpu & Hsu & E)].
    - (* still inside s1 *)
      rewrite E. change (pos (ext s2 u) =? pos (ext s2 t)) with (pos u =? pos t). rewrite Ep.
      apply IH; [assumption|split; assumption|lia|assumption].
    - (* the scan of s1 is complete *)
      destruct (boundary u j T L Pok Hpu Hsu H) as (HL & Hsh & e & -> & ->).
      exists e, (toks_rev u), (lines_rev u). split; [reflexivity|]. split; [reflexivity|].
      assert (Hj : scan_fuel s2 <= j) by (unfold scan_fuel; lia).
      destruct E as [E|E].
      + (* a line comment ended s1 *)
        rewrite E. change (pos (ext s2 u) =? pos (ext s2 t)) with (pos u =? pos t). rewrite Ep.
        apply after_boundary; assumption.
      + (* trailing blanks: the same call goes on into s2 *)
        rewrite E, Hsh.
        pose proof (sh_lex_initial s1 k (lines_rev u) (toks_rev u) lx N (init_sc file s2)) as Ls.
        destruct s2 as [|c0 r2] eqn:Es2.
        * (* nothing follows *)
          rewrite lex_initial_init_empty in Ls by lia. cbn [lsim] in Ls. rewrite Ls, <- Hsh.
          change (pos (ext [] u) =? pos (ext [] t)) with (pos u =? pos t). rewrite Ep.
          rewrite <- Es2 in *. apply after_boundary; assumption.
        * rewrite <- Es2 in *.
          assert (R2 : scan_loop (S j) N (lex_initial lx) (init_sc file s2) = scan lx file s2)
            by (apply s2_run; lia).
          cbn [scan_loop] in R2.
          assert (E3 : (pos (init_sc file s2) <? length (inp (init_sc file s2))) = true)
            by (apply Nat.ltb_lt; rewrite Es2; cbn; lia).
          rewrite E3 in R2.
          destruct (lex_initial lx N (init_sc file s2)) as [v|m l c v| |] eqn:Rv; cbn [lsim] in Ls.
          -- rewrite Ls.
             assert (Hv : 0 < pos v).
             { eapply (lex_initial_progress lx N (init_sc file s2) v); [cbn; lia|rewrite Es2; cbn; lia|exact Rv]. }
             assert (E4 : (pos v =? pos (init_sc file s2)) = false) by (apply Nat.eqb_neq; cbn; lia).
             rewrite E4 in R2.
             assert (E5 : (pos (sh s1 k (lines_rev u) (toks_rev u) v) =? pos (ext s2 t)) = false)
               by (apply Nat.eqb_neq; cbn [sh ext pos]; lia).
             rewrite E5.
             pose proof (sh_scan_loop s1 k (lines_rev u) (toks_rev u) HL (lex_initial lx) N
                           (fun x => sh_lex_initial s1 k _ _ lx N x) j v) as S.
             rewrite R2 in S. unfold ssim in S.
             destruct (scan lx file s2) eqn:Er; try exact S. exfalso. exact (scan_s2_not_stuck Er).
          -- destruct Ls as [-> Hl0].
             pose proof (sh_scan_handler s1 k (lines_rev u) (toks_rev u) HL N m l c v Hl0) as S.
             rewrite R2 in S. unfold ssim in S.
             destruct (scan lx file s2) eqn:Er; try exact S. exfalso. exact (scan_s2_not_stuck Er).
          -- exfalso. apply scan_s2_not_stuck. symmetry. exact R2.
          -- exfalso. apply scan_s2_not_oof. symmetry. exact R2.
  Qed.
End Compositional.

(** s1 is a sequence of complete lines that scans by itself: then scanning s1 ++ s2 is scanning s2,
    [count_nl s1] lines further down, after the tokens and lines of s1 — whether s2 scans or not. *)
Theorem scan_line_compositional : forall lx file s1 s2 toks1 eof1 lines1,
  lexicon_ok lx = true ->
  (exists a, s1 = a ++ [10%Z]) ->
  scan lx file s1 = ScanOk (toks1 ++ [eof1]) lines1 ->
  scan lx file (s1 ++ s2) = shift_result (count_nl s1) toks1 (removelast lines1) (scan lx file s2).
Proof.
  intros lx file s1 s2 toks1 eof1 lines1 Hlx Hend H.
  assert (H1 : scan_loop (length (s1 ++ s2) + 2) (length (s1 ++ s2) + 2) (lex_initial lx) (init_sc file s1)
               = ScanOk (toks1 ++ [eof1]) lines1).
  { rewrite <- H. apply (scan_fuel_irrelevant lx file s1). unfold scan_fuel. rewrite app_length. lia. }
  assert (HIn : In_ s1 (init_sc file s1)).
  { split; [reflexivity|]. cbn. destruct Hend as [a ->]. rewrite app_length. cbn. lia. }
  assert (HN : length (s1 ++ s2) + 2 <= length (s1 ++ s2) + 2 + pos (init_sc file s1)) by (cbn; lia).
  destruct (prefix_phase lx Hlx file s1 s2 Hend _ (init_sc file s1) _ _ (Good_init s1 file) HIn HN H1)
    as (e & Trev & Lrev & ET & EL & E).
  apply app_inj_tail in ET as [-> _]. subst lines1. rewrite removelast_last. exact E.
Qed.

Print Assumptions scan_line_compositional.

(* ------------------------------------------------------------------------------------------ *)
(** * Layout corollaries on the significant token stream *)

Definition is_comment (t : token) : bool := ttype_eqb (t_type t) T_COMMENT.

(** what the parser consumes of a token stream once COMMENT tokens and positions are dropped *)
Definition sig (toks : list token) : list (ttype * str) :=
  map (fun t => (t_type t, t_value t)) (filter (fun t => negb (is_comment t)) toks).

(** a scan result without positions, lines and comments (an error keeps its message and column) *)
Inductive view :=
| VOk (s : list (ttype * str))
| VErr (m : scan_msg) (col : Z) (s : list (ttype * str))
| VStuck
| VOutOfFuel.
Definition view_of (r : scan_result) : view :=
  match r with
  | ScanOk toks _ => VOk (sig toks)
  | ScanErr e => VErr (se_msg e) (se_col e) (sig (se_toks e))
  | ScanStuck => VStuck
  | ScanOutOfFuel => VOutOfFuel
  end.
Definition view_prepend (p : list (ttype * str)) (v : view) : view :=
  match v with
  | VOk s => VOk (p ++ s)
  | VErr m c s => VErr m c (p ++ s)
  | v => v
  end.

Lemma sig_app a b : sig (a ++ b) = sig a ++ sig b.
Proof. unfold sig. rewrite filter_app, map_app. reflexivity. Qed.

Lemma sig_shift k toks : sig (map (shift_tok k) toks) = sig toks.
Proof.
  unfold sig. induction toks as [|t r IH]; [reflexivity|]. cbn [map filter].
  change (is_comment (shift_tok k t)) with (is_comment t).
  destruct (negb (is_comment t)); cbn [map]; rewrite IH; reflexivity.
Qed.

Lemma view_shift k T L r : view_of (shift_result k T L r) = view_prepend (sig T) (view_of r).
Proof.
  destruct r; cbn [shift_result view_of view_prepend se_msg se_col se_toks];
    rewrite ?sig_app, ?sig_shift; reflexivity.
Qed.

Definition ends_nl (s : str) : Prop := exists a, s = a ++ [10%Z].

(** 2a, general form: a block of complete lines [blk] that scans by itself to nothing but
    comments can be inserted between the complete lines [a] (which scan by themselves) and the
    rest [b] of a text without changing the significant token stream — nor the error, if [b] has
    one; everything after it is reported [count_nl blk] lines further down. *)
Theorem invisible_block_between : forall lx file a blk b ta ea la tb eb lb,
  lexicon_ok lx = true ->
  ends_nl a -> scan lx file a = ScanOk (ta ++ [ea]) la ->
  ends_nl blk -> scan lx file blk = ScanOk (tb ++ [eb]) lb -> sig tb = [] ->
  view_of (scan lx file (a ++ blk ++ b)) = view_of (scan lx file (a ++ b)) /\
  scan lx file (a ++ blk ++ b) =
    shift_result (count_nl a) ta (removelast la)
      (shift_result (count_nl blk) tb (removelast lb) (scan lx file b)) /\
  scan lx file (a ++ b) = shift_result (count_nl a) ta (removelast la) (scan lx file b).
Proof.
  intros lx file a blk b ta ea la tb eb lb Hlx Ha Sa Hb Sb Hsig.
  pose proof (scan_line_compositional lx file a (blk ++ b) ta ea la Hlx Ha Sa) as E1.
  pose proof (scan_line_compositional lx file blk b tb eb lb Hlx Hb Sb) as E2.
  pose proof (scan_line_compositional lx file a b ta ea la Hlx Ha Sa) as E3.
  rewrite E2 in E1. split; [|split; assumption].
  rewrite E1, E3, !view_shift, Hsig. destruct (view_of (scan lx file b)); reflexivity.
Qed.

(** the same at the top of a text *)
Theorem invisible_block_top : forall lx file blk b tb eb lb,
  lexicon_ok lx = true ->
  ends_nl blk -> scan lx file blk = ScanOk (tb ++ [eb]) lb -> sig tb = [] ->
  view_of (scan lx file (blk ++ b)) = view_of (scan lx file b) /\
  scan lx file (blk ++ b) = shift_result (count_nl blk) tb (removelast lb) (scan lx file b).
Proof.
  intros lx file blk b tb eb lb Hlx Hb Sb Hsig.
  pose proof (scan_line_compositional lx file blk b tb eb lb Hlx Hb Sb) as E2.
  split; [|assumption]. rewrite E2, view_shift, Hsig. destruct (view_of (scan lx file b)); reflexivity.
Qed.

(** ** instances: blank lines *)

Lemma accept_run_to_eof c : mem_z 0 c = false -> forall F s,
  (forall i, pos s <= i < length (inp s) -> mem_z (nth i (inp s) 0%Z) c = true) ->
  length (inp s) - pos s < F -> pos s <= length (inp s) ->
  exists a, accept_run F s c false = LOk a /\ pos a = length (inp s).
Proof.
  intros Hc. induction F as [|F IH]; intros s Hall HF Hp; [lia|]. cbn [accept_run].
  destruct (Nat.eq_dec (pos s) (length (inp s))) as [E|Hne].
  - rewrite accept_eof by (assumption || lia). eauto.
  - assert (Hlt : pos s < length (inp s)) by lia.
    unfold accept. rewrite xorb_false_r, peek_nth, (Hall (pos s)) by lia.
    destruct (next s) as [[x|] y] eqn:N; cbn [snd].
    + apply next_some in N as (_ & _ & Hi & Hpy & _).
      destruct (IH y) as (a & Ea & Pa); [rewrite Hi, Hpy; intros; apply Hall; lia|rewrite Hi; lia|rewrite Hi; lia|].
      exists a. rewrite Ea, Pa, Hi. auto.
    + apply next_none in N. lia.
Qed.

Definition all_blank (w : str) : Prop := Forall (fun c => c = 32%Z \/ c = 9%Z \/ c = 10%Z) w.

Lemma all_blank_nth w i : all_blank w -> i < length w -> mem_z (nth i w 0%Z) blanks = true.
Proof.
  intros H Hi. unfold all_blank in H. rewrite Forall_forall in H.
  destruct (H (nth i w 0%Z) (nth_In _ _ Hi)) as [-> | [-> | ->]]; reflexivity.
Qed.

(** a text of spaces, tabs and newlines scans to the EOF token alone *)
Lemma scan_blank_block lx file w : all_blank w -> exists e l, scan lx file w = ScanOk ([] ++ [e]) l.
Proof.
  intros Hw. unfold scan, scan_with_fuel, scan_gen, scan_fuel.
  replace (length w + 2) with (S (S (length w))) by lia. cbn [scan_loop].
  destruct (pos (init_sc file w) <? length (inp (init_sc file w))) eqn:L0;
    [|rewrite handle_line_toks; cbn [emit toks_rev init_sc rev app]; eauto].
  apply Nat.ltb_lt in L0. cbn [init_sc pos inp] in L0.
  rewrite lex_initial_split. unfold ignore_run.
  destruct (accept_run_to_eof blanks eq_refl (S (S (length w))) (init_sc file w)) as (a & Ea & Pa);
    [intros i Hi; apply all_blank_nth; [assumption|apply Hi]|cbn; lia|cbn; lia|].
  rewrite Ea. cbn [lbind].
  pose proof (accept_run_fields _ _ _ _ _ Ea) as (Hi & _ & Ht & _).
  rewrite lex_initial_rest_eof by (cbn [ignore inp pos]; rewrite Hi, Pa; lia).
  cbn [ignore pos init_sc]. cbn [init_sc inp] in Pa. rewrite Pa.
  destruct (Nat.eqb_spec (length w) 0) as [E0|_]; [lia|].
  assert (E1 : (length w <? length (inp (ignore a))) = false) by (apply Nat.ltb_ge; cbn [ignore inp]; rewrite Hi; cbn; lia).
  rewrite E1. rewrite handle_line_toks. cbn [emit ignore toks_rev]. rewrite Ht. cbn [init_sc toks_rev rev app]. eauto.
Qed.

(** 2a for blank lines: any block of spaces, tabs and newlines ending in a newline *)
Theorem blank_lines_insertion : forall lx file a w b ta ea la,
  lexicon_ok lx = true ->
  ends_nl a -> scan lx file a = ScanOk (ta ++ [ea]) la ->
  all_blank w -> ends_nl w ->
  view_of (scan lx file (a ++ w ++ b)) = view_of (scan lx file (a ++ b)).
Proof.
  intros lx file a w b ta ea la Hlx Ha Sa Hw Hn.
  destruct (scan_blank_block lx file w Hw) as (e & l & Sw).
  eapply invisible_block_between; eauto.
Qed.

Theorem blank_lines_at_top : forall lx file w b,
  lexicon_ok lx = true -> all_blank w -> ends_nl w ->
  view_of (scan lx file (w ++ b)) = view_of (scan lx file b).
Proof.
  intros lx file w b Hlx Hw Hn.
  destruct (scan_blank_block lx file w Hw) as (e & l & Sw).
  eapply invisible_block_top; eauto.
Qed.

Print Assumptions invisible_block_between.
Print Assumptions invisible_block_top.
Print Assumptions blank_lines_insertion.
Print Assumptions blank_lines_at_top.

(** ** instances by computation (non-vacuity of [invisible_block_between] for comment lines).
    The hypotheses on the inserted block ([scan blk = ScanOk (tb ++ [eb]) lb], [sig tb = []]) are
    decidable; here they are discharged for a full-line "; note" line, an indented one, and a
    two-line "/* a \n b */" block.  A closed form for arbitrary comment bodies is NOT proved
    (see the _partial note in the report). *)
Definition demo_lexicon : lexicon := mk_lexicon [[108;100;97];[110;111;112]]%Z [[110;111;112]]%Z [[100;98]]%Z.

Example comment_line_is_invisible :
  exists tb eb lb, scan demo_lexicon [102%Z] [59;32;110;111;116;101;10]%Z = ScanOk (tb ++ [eb]) lb /\ sig tb = [].
Proof. eexists [_], _, _. split; vm_compute; reflexivity. Qed.

Example indented_comment_line_is_invisible :
  exists tb eb lb, scan demo_lexicon [102%Z] [32;9;59;39;120;10]%Z = ScanOk (tb ++ [eb]) lb /\ sig tb = [].
Proof. eexists [_], _, _. split; vm_compute; reflexivity. Qed.

Example block_comment_lines_are_invisible :
  exists tb eb lb, scan demo_lexicon [102%Z] [47;42;32;97;32;10;32;98;32;42;47;10]%Z = ScanOk (tb ++ [eb]) lb /\ sig tb = [].
Proof. eexists [_], _, _. split; vm_compute; reflexivity. Qed.

(* ------------------------------------------------------------------------------------------ *)
(** * Letter case of mnemonics *)

(** accept_opcode decides on the lower-cased three characters and the character after them only:
    two states whose candidate texts agree up to ASCII letter case take the same decision and
    advance alike; the OPCODE token then cut from [start, pos + 3) differs at most in case. *)
Lemma accept_opcode_case_insensitive lx s s' :
  map lower (slice (inp s) (start s) (pos s + 3)) = map lower (slice (inp s') (start s') (pos s' + 3)) ->
  peek_k s 3 = peek_k s' 3 ->
  fst (accept_opcode lx s) = fst (accept_opcode lx s') /\
  (fst (accept_opcode lx s) = true ->
   pos (snd (accept_opcode lx s)) = pos s + 3 /\ pos (snd (accept_opcode lx s')) = pos s' + 3).
Proof.
  intros Hc Hk. unfold accept_opcode. rewrite Hc, Hk.
  destruct (_ && _); cbn [fst snd set_pos pos]; split; auto; discriminate.
Qed.

Lemma lower_idempotent c : lower (lower c) = lower c.
Proof.
  unfold lower. destruct ((65 <=? c)%Z && (c <=? 90)%Z) eqn:E; [|rewrite E; reflexivity].
  apply andb_true_iff in E as [E1 E2]. apply Z.leb_le in E1, E2.
  destruct ((65 <=? c + 32)%Z && (c + 32 <=? 90)%Z) eqn:E'; [|reflexivity].
  apply andb_true_iff in E' as [_ E4]. apply Z.leb_le in E4. lia.
Qed.

Print Assumptions accept_opcode_case_insensitive.
