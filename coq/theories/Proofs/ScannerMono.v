(** Scanner proofs, part 3a (C16): fuel irrelevance.  A run that does not end in OutOfFuel gives the
    same result with any larger fuel (so runs over texts of different lengths can be compared at a
    common fuel). *)
From A816 Require Import Model.Scanner Proofs.ScannerSpec Proofs.ScannerFuel.
From Coq Require Import Arith Lia.
Open Scope nat_scope.

Definition le_res {A} (r r' : lres A) : Prop := r = LOutOfFuel \/ r' = r.

Lemma le_res_refl {A} (r : lres A) : le_res r r.
Proof. right; reflexivity. Qed.

Lemma le_res_bind {A B} (r r' : lres A) (k k' : A -> lres B) :
  le_res r r' -> (forall a, le_res (k a) (k' a)) -> le_res (lbind r k) (lbind r' k').
Proof.
  intros [-> | ->] H; [left; reflexivity|].
  destruct r; cbn; try (right; reflexivity). apply H.
Qed.

Lemma accept_run_mono c n : forall F F' s, F <= F' -> le_res (accept_run F s c n) (accept_run F' s c n).
Proof.
  induction F as [|F IH]; intros F' s HF; [left; reflexivity|].
  destruct F' as [|F']; [lia|]. cbn [accept_run].
  destruct (accept s c n) as [b x]. destruct b; [apply IH; lia|apply le_res_refl].
Qed.

Lemma ignore_run_mono c F F' s : F <= F' -> le_res (ignore_run F s c) (ignore_run F' s c).
Proof. intros. unfold ignore_run. apply le_res_bind; [apply accept_run_mono; assumption|intros; apply le_res_refl]. Qed.

Lemma line_comment_loop_mono : forall F F' s, F <= F' -> le_res (line_comment_loop F s) (line_comment_loop F' s).
Proof.
  induction F as [|F IH]; intros F' s HF; [left; reflexivity|].
  destruct F' as [|F']; [lia|]. cbn [line_comment_loop].
  destruct (next s) as [[x|] s1]; [|apply le_res_refl].
  destruct (Z.eqb x 10); [apply le_res_refl|apply IH; lia].
Qed.

Lemma block_comment_loop_mono p : forall F F' s, F <= F' ->
  le_res (block_comment_loop F p s) (block_comment_loop F' p s).
Proof.
  induction F as [|F IH]; intros F' s HF; [left; reflexivity|].
  destruct F' as [|F']; [lia|]. cbn [block_comment_loop].
  destruct (accept_prefix s [42%Z; 47%Z]) as [b s1]. destruct b; [apply le_res_refl|].
  destruct (next s1) as [[x|] s2]; [apply IH; lia|apply le_res_refl].
Qed.

Lemma quoted_loop_mono p : forall F F' c s, F <= F' -> le_res (quoted_loop F p c s) (quoted_loop F' p c s).
Proof.
  induction F as [|F IH]; intros F' c s HF; [left; reflexivity|].
  destruct F' as [|F']; [lia|]. cbn [quoted_loop].
  destruct (oz_is c 39); [apply le_res_refl|].
  destruct (_ || _); [apply le_res_refl|].
  destruct (next _) as [c' s2]. apply IH; lia.
Qed.

Create HintDb mono.
#[export] Hint Resolve le_res_refl accept_run_mono ignore_run_mono line_comment_loop_mono
  block_comment_loop_mono quoted_loop_mono : mono.

(** generic step: same shape on both sides, only the fuel differs *)
Ltac mono_step :=
  match goal with
  | |- le_res ?x ?x => apply le_res_refl
  | |- le_res (lbind _ _) (lbind _ _) => apply le_res_bind; [|intros ?]
  | |- le_res (match ?x with _ => _ end) _ => destruct x
  | |- le_res _ _ => solve [eauto with mono]
  end.
Ltac mono := repeat mono_step.

Lemma lex_quoted_string_mono F F' s : F <= F' -> le_res (lex_quoted_string F s) (lex_quoted_string F' s).
Proof. intros. unfold lex_quoted_string. mono. Qed.
#[export] Hint Resolve lex_quoted_string_mono : mono.

Lemma lex_identifier_mono F F' s : F <= F' -> le_res (lex_identifier F s) (lex_identifier F' s).
Proof. intros. unfold lex_identifier. mono. Qed.
#[export] Hint Resolve lex_identifier_mono : mono.

Lemma lex_number_mono F F' s : F <= F' -> le_res (lex_number F s) (lex_number F' s).
Proof. intros. unfold lex_number. mono. Qed.
#[export] Hint Resolve lex_number_mono : mono.

Lemma lex_expression_loop_mono F F' : F <= F' -> forall fuel fuel' s, fuel <= fuel' ->
  le_res (lex_expression_loop fuel F s) (lex_expression_loop fuel' F' s).
Proof.
  intros HF. induction fuel as [|fuel IH]; intros fuel' s Hf; [left; reflexivity|].
  destruct fuel' as [|fuel']; [lia|]. cbn [lex_expression_loop].
  assert (IH' : forall s, le_res (lex_expression_loop fuel F s) (lex_expression_loop fuel' F' s)) by (intros; apply IH; lia).
  mono.
Qed.
Lemma lex_expression_mono F F' s : F <= F' -> le_res (lex_expression F s) (lex_expression F' s).
Proof. intros. unfold lex_expression. apply lex_expression_loop_mono; assumption. Qed.
#[export] Hint Resolve lex_expression_mono : mono.

Lemma lex_opcode_index_mono F F' s : F <= F' -> le_res (lex_opcode_index F s) (lex_opcode_index F' s).
Proof. intros. unfold lex_opcode_index. mono. Qed.
#[export] Hint Resolve lex_opcode_index_mono : mono.

Lemma lex_operand_mono F F' s : F <= F' -> le_res (lex_operand F s) (lex_operand F' s).
Proof. intros. unfold lex_operand. mono. Qed.
#[export] Hint Resolve lex_operand_mono : mono.

Lemma lex_opcode_size_mono F F' s : F <= F' -> le_res (lex_opcode_size F s) (lex_opcode_size F' s).
Proof. intros. unfold lex_opcode_size. mono. Qed.
#[export] Hint Resolve lex_opcode_size_mono : mono.

Lemma lex_opcode_tail_mono F F' s : F <= F' -> le_res (lex_opcode_tail F s) (lex_opcode_tail F' s).
Proof. intros. unfold lex_opcode_tail. mono. Qed.
#[export] Hint Resolve lex_opcode_tail_mono : mono.

Lemma lex_opcode_mono lx F F' s : F <= F' -> le_res (lex_opcode F lx s) (lex_opcode F' lx s).
Proof. intros. unfold lex_opcode. mono. Qed.
#[export] Hint Resolve lex_opcode_mono : mono.

Lemma lex_keyword_mono lx F F' s : F <= F' -> le_res (lex_keyword F lx s) (lex_keyword F' lx s).
Proof. intros. unfold lex_keyword. mono. Qed.
#[export] Hint Resolve lex_keyword_mono : mono.

Lemma lex_initial_mono lx F F' s : F <= F' -> le_res (lex_initial lx F s) (lex_initial lx F' s).
Proof. intros. unfold lex_initial. mono. Qed.

(** the driver *)
Definition sle (r r' : scan_result) : Prop := r = ScanOutOfFuel \/ r' = r.

Lemma scan_handler_mono F F' m l c s : F <= F' -> sle (scan_handler F m l c s) (scan_handler F' m l c s).
Proof.
  intros HF. unfold scan_handler.
  destruct (accept_run_mono eol_or_eof true F F' s HF) as [-> | ->]; [left; reflexivity|right; reflexivity].
Qed.

Lemma scan_loop_mono (state : nat -> sc -> lres sc) F F' :
  F <= F' -> (forall s, le_res (state F s) (state F' s)) ->
  forall n n' s, n <= n' -> sle (scan_loop n F state s) (scan_loop n' F' state s).
Proof.
  intros HF Hst. induction n as [|n IH]; intros n' s Hn; [left; reflexivity|].
  destruct n' as [|n']; [lia|]. cbn [scan_loop].
  destruct (pos s <? length (inp s)); [|right; reflexivity].
  destruct (Hst s) as [-> | ->]; [left; reflexivity|].
  destruct (state F s) as [s'|m l c s'| |]; try (right; reflexivity).
  - destruct (pos s' =? pos s); [apply scan_handler_mono; assumption|apply IH; lia].
  - apply scan_handler_mono; assumption.
Qed.

Lemma scan_with_fuel_mono lx file s F F' : F <= F' ->
  scan_with_fuel F lx file s <> ScanOutOfFuel -> scan_with_fuel F' lx file s = scan_with_fuel F lx file s.
Proof.
  intros HF Hne. unfold scan_with_fuel, scan_gen in *.
  destruct (scan_loop_mono (lex_initial lx) F F' HF (fun s => lex_initial_mono lx F F' s HF) F F' (init_sc file s) HF) as [E|E];
    [contradiction|exact E].
Qed.

(** any fuel above [scan_fuel s] gives the result of [scan] *)
Lemma scan_fuel_irrelevant lx file s F : scan_fuel s <= F -> scan_with_fuel F lx file s = scan lx file s.
Proof.
  intros HF. unfold scan. apply scan_with_fuel_mono; [assumption|]. apply scan_fuel_sufficient.
Qed.
