(** Scanner proofs, part 2 (C17): the line-tracking invariant over all scanner primitives, token
    positions, error positions and the quoted line.  Needs one side condition on the lexicon
    ([lexicon_ok]: mnemonics have at least three characters and contain no newline — otherwise
    accept_opcode's [pos += 3] could jump over the end of input or over a newline). *)
From A816 Require Import Model.Scanner Proofs.ScannerSpec Proofs.ScannerFuel.
From Coq Require Import Arith Lia.
Open Scope nat_scope.

(* ------------------------------------------------------------------------------------------ *)
(** * Facts about the closed forms (pure list lemmas) *)

Lemma count_nl_app a b : count_nl (a ++ b) = count_nl a + count_nl b.
Proof. induction a as [|c a IH]; cbn; [reflexivity|]. rewrite IH. lia. Qed.

Lemma line_start_aux_app a b i acc :
  line_start_aux (a ++ b) i acc = line_start_aux b (i + length a) (line_start_aux a i acc).
Proof.
  revert i acc; induction a as [|c a IH]; intros i acc; cbn [app line_start_aux length].
  - f_equal. lia.
  - rewrite IH. f_equal. lia.
Qed.

Lemma line_start_snoc l c :
  line_start (l ++ [c]) = if Z.eqb c 10 then S (length l) else line_start l.
Proof. unfold line_start. rewrite line_start_aux_app. cbn. reflexivity. Qed.

Lemma count_nl_snoc l c : count_nl (l ++ [c]) = count_nl l + (if Z.eqb c 10 then 1 else 0).
Proof. rewrite count_nl_app. cbn. lia. Qed.

Lemma firstn_S_nth (l : str) n c : nth_error l n = Some c -> firstn (S n) l = firstn n l ++ [c].
Proof.
  revert n; induction l as [|x l IH]; intros [|n] H; cbn in *; try discriminate.
  - congruence.
  - f_equal. apply IH. exact H.
Qed.

Lemma nth_error_nth0 (l : str) n c : nth_error l n = Some c -> nth n l 0%Z = c.
Proof. revert n; induction l; intros [|n] H; cbn in *; try discriminate; [congruence|auto]. Qed.

Lemma line_start_le l : line_start l <= length l.
Proof.
  induction l as [|c l IH] using rev_ind; [cbn; lia|].
  rewrite line_start_snoc, app_length. cbn. destruct (Z.eqb c 10); lia.
Qed.

(** no newline at or after [line_start l] *)
Lemma line_start_no_nl l : forall i, line_start l <= i < length l -> nth i l 0%Z <> 10%Z.
Proof.
  induction l as [|c l IH] using rev_ind; [cbn; lia|].
  intros i. rewrite line_start_snoc, app_length. cbn [length].
  destruct (Z.eqb_spec c 10) as [->|Hc]; [lia|].
  intros Hi. destruct (Nat.eq_dec i (length l)) as [->|Hne].
  - rewrite nth_middle. exact Hc.
  - rewrite app_nth1 by lia. apply IH. lia.
Qed.

Definition no_nl (l : str) (a b : nat) : Prop := forall i, a <= i < b -> nth i l 0%Z <> 10%Z.

(** moving inside a line changes neither the line count nor the line start *)
Lemma same_line_forms l a b : a <= b -> b <= length l -> no_nl l a b ->
  count_nl (firstn b l) = count_nl (firstn a l) /\ line_start (firstn b l) = line_start (firstn a l).
Proof.
  intros Hab Hb Hn. remember (b - a) as d eqn:Hd.
  assert (Hb' : b = a + d) by lia. clear Hd Hab. subst b.
  revert Hb Hn. induction d as [|d IH]; intros Hb Hn; [rewrite Nat.add_0_r; split; reflexivity|].
  destruct (nth_error l (a + d)) as [c|] eqn:E; [|apply nth_error_None in E; lia].
  replace (a + S d) with (S (a + d)) by lia. rewrite (firstn_S_nth _ _ _ E).
  assert (c <> 10%Z).
  { rewrite <- (nth_error_nth0 _ _ _ E). apply Hn. lia. }
  destruct IH as [IH1 IH2]; [lia|intros i Hi; apply Hn; lia|].
  rewrite count_nl_snoc, line_start_snoc.
  destruct (Z.eqb_spec c 10); [contradiction|]. split; [lia|assumption].
Qed.

Lemma count_nl_firstn_mono l a b : a <= b -> count_nl (firstn a l) <= count_nl (firstn b l).
Proof.
  intros Hab. replace b with (a + (b - a)) by lia. generalize (b - a) as d. clear Hab b.
  revert a. induction l as [|c l IH]; intros a d; [rewrite !firstn_nil; lia|].
  destruct a; cbn [firstn Nat.add count_nl].
  - lia.
  - specialize (IH a d). lia.
Qed.

Lemma split_nl_nonempty l : split_nl l <> [].
Proof. destruct l as [|c l]; cbn; [discriminate|]. destruct (Z.eqb c 10); [discriminate|]. destruct (split_nl l); discriminate. Qed.

Lemma split_nl_no_nl a : ~ In 10%Z a -> split_nl a = [a].
Proof.
  induction a as [|c a IH]; intros H; cbn; [reflexivity|].
  destruct (Z.eqb_spec c 10) as [->|Hc]; [exfalso; apply H; left; reflexivity|].
  rewrite IH; [reflexivity|]. intros Hin. apply H. right. assumption.
Qed.

Lemma split_nl_app_nl a b : ~ In 10%Z a -> split_nl (a ++ 10%Z :: b) = a :: split_nl b.
Proof.
  induction a as [|c a IH]; intros H; cbn [app split_nl]; [reflexivity|].
  destruct (Z.eqb_spec c 10) as [->|Hc]; [exfalso; apply H; left; reflexivity|].
  rewrite IH; [reflexivity|]. intros Hin. apply H. right. assumption.
Qed.

Lemma split_nl_app_hd a b : ~ In 10%Z a -> exists tl, split_nl (a ++ b) = (a ++ hd [] (split_nl b)) :: tl.
Proof.
  induction a as [|c a IH]; intros H; cbn [app].
  - destruct (split_nl b) eqn:E; [exfalso; eapply split_nl_nonempty; eauto|]. eexists; reflexivity.
  - cbn [split_nl]. destruct (Z.eqb_spec c 10) as [->|Hc]; [exfalso; apply H; left; reflexivity|].
    destruct IH as [tl IH]; [intros Hin; apply H; right; assumption|]. rewrite IH. eexists; reflexivity.
Qed.

Lemma slice_length l a b : b <= length l -> length (slice l a b) = b - a.
Proof. intros. unfold slice. rewrite firstn_length, skipn_length. lia. Qed.

Lemma nth_firstn_lt (l : str) : forall n i, i < n -> nth i (firstn n l) 0%Z = nth i l 0%Z.
Proof.
  induction l as [|x l IH]; intros n i H; [rewrite firstn_nil; reflexivity|].
  destruct n; [lia|]. destruct i; cbn; [reflexivity|]. apply IH. lia.
Qed.

Lemma nth_skipn0 (l : str) : forall a j, nth j (skipn a l) 0%Z = nth (a + j) l 0%Z.
Proof.
  induction l as [|x l IH]; intros a j.
  - rewrite skipn_nil. destruct j, (a + _); reflexivity.
  - destruct a; cbn; [reflexivity|]. apply IH.
Qed.

Lemma nth_slice l a b j : j < b - a -> nth j (slice l a b) 0%Z = nth (a + j) l 0%Z.
Proof. intros Hj. unfold slice. rewrite nth_firstn_lt by assumption. apply nth_skipn0. Qed.

Lemma slice_no_nl l a b : b <= length l -> no_nl l a b -> ~ In 10%Z (slice l a b).
Proof.
  intros Hb Hn Hin. apply (In_nth _ _ 0%Z) in Hin as (j & Hj & E).
  rewrite slice_length in Hj by assumption. rewrite nth_slice in E by assumption.
  apply (Hn (a + j)); [lia|assumption].
Qed.

Lemma skipn_slice_cons (l : str) : forall a b c, a <= b -> nth_error l b = Some c ->
  skipn a l = slice l a b ++ c :: skipn (S b) l.
Proof.
  induction l as [|x l IH]; intros a b c Hab E; [destruct b; discriminate|].
  destruct a as [|a].
  - unfold slice. rewrite Nat.sub_0_r. cbn [skipn].
    destruct b as [|b]; cbn in E |- *; [congruence|].
    f_equal. specialize (IH 0 b c (Nat.le_0_l _) E). unfold slice in IH. rewrite Nat.sub_0_r in IH. exact IH.
  - destruct b as [|b]; [lia|]. cbn in E. specialize (IH a b c (le_S_n _ _ Hab) E). exact IH.
Qed.

Lemma skipn_slice_all l a : skipn a l = slice l a (length l).
Proof. unfold slice. rewrite firstn_all2; [reflexivity|]. rewrite skipn_length. lia. Qed.


Lemma str_eqb_true (a b : str) : str_eqb a b = true -> a = b.
Proof.
  revert b; induction a as [|x a IH]; intros [|y b] H; cbn in H; try discriminate; [reflexivity|].
  apply andb_true_iff in H as [H1 H2]. apply Z.eqb_eq in H1. subst y. f_equal. apply IH. exact H2.
Qed.

Lemma mem_z_In c l : mem_z c l = true <-> In c l.
Proof.
  unfold mem_z. rewrite existsb_exists. split.
  - intros (x & Hin & E). apply Z.eqb_eq in E. subst x. exact Hin.
  - intros Hin. exists c. split; [assumption|apply Z.eqb_refl].
Qed.

Lemma no_nl_trans l a b c : no_nl l a b -> no_nl l b c -> no_nl l a c.
Proof. intros H1 H2 i Hi. destruct (Nat.lt_ge_cases i b); [apply H1|apply H2]; lia. Qed.
Lemma no_nl_sub l a b a' b' : no_nl l a b -> a <= a' -> b' <= b -> no_nl l a' b'.
Proof. intros H ? ? i Hi. apply H. lia. Qed.
Lemma no_nl_empty l a b : b <= a -> no_nl l a b.
Proof. intros ? i Hi. lia. Qed.
Lemma no_nl_one l a : nth a l 0%Z <> 10%Z -> no_nl l a (S a).
Proof. intros H i Hi. replace i with a by lia. exact H. Qed.

(* ------------------------------------------------------------------------------------------ *)
(** * The line-tracking invariant (C17_inv) *)

(** [current_line] = number of newlines consumed, [line_offset] = 1 + index of the last newline
    consumed (0 if none), [file.lines] = the completed lines (one per newline consumed): the text
    splits into them followed by the lines of the text from [line_offset] on. *)
Definition Inv (s : sc) : Prop :=
  pos s <= length (inp s) /\
  cline s = count_nl (firstn (pos s) (inp s)) /\
  loff s = line_start (firstn (pos s) (inp s)) /\
  length (lines_rev s) = cline s /\
  split_nl (inp s) = rev (lines_rev s) ++ split_nl (skipn (loff s) (inp s)).

Lemma Inv_init file s : Inv (init_sc file s).
Proof. unfold Inv, init_sc; cbn. repeat split; lia. Qed.

Lemma Inv_loff_le s : Inv s -> loff s <= pos s.
Proof.
  intros (Hp & _ & Hl & _). rewrite Hl.
  pose proof (line_start_le (firstn (pos s) (inp s))) as H. rewrite firstn_length in H. lia.
Qed.

Lemma Inv_no_nl s : Inv s -> no_nl (inp s) (loff s) (pos s).
Proof.
  intros (Hp & _ & Hl & _) i Hi. rewrite Hl in Hi.
  rewrite <- (nth_firstn_lt _ (pos s)) by lia.
  apply line_start_no_nl. rewrite firstn_length. lia.
Qed.

(** moving [pos] inside the current line keeps the invariant (accept_prefix, accept_opcode's
    [pos += 3], backup, lex_opcode's [pos = saved_pos]) *)
Lemma Inv_move s p : Inv s -> p <= length (inp s) ->
  no_nl (inp s) (Nat.min p (pos s)) (Nat.max p (pos s)) -> Inv (set_pos s p).
Proof.
  intros (Hp & Hc & Hl & Hn & Hs) Hple Hno. unfold Inv, set_pos; cbn [inp pos start loff cline lines_rev toks_rev fname].
  destruct (Nat.le_ge_cases p (pos s)) as [Hle|Hge].
  - rewrite Nat.min_l, Nat.max_r in Hno by assumption.
    destruct (same_line_forms (inp s) p (pos s) Hle Hp Hno) as [E1 E2].
    repeat split; try assumption; congruence.
  - rewrite Nat.min_r, Nat.max_l in Hno by assumption.
    destruct (same_line_forms (inp s) (pos s) p Hge Hple Hno) as [E1 E2].
    repeat split; try assumption; congruence.
Qed.

Lemma next_Inv s : Inv s -> Inv (snd (next s)).
Proof.
  intros HI. pose proof (Inv_loff_le s HI) as Hle. pose proof (Inv_no_nl s HI) as Hno.
  unfold next. destruct (nth_error (inp s) (pos s)) as [c|] eqn:E; cbn [snd]; [|assumption].
  assert (Hlt : pos s < length (inp s)) by (apply nth_error_Some; congruence).
  destruct (Z.eqb_spec c 10) as [->|Hne].
  - unfold handle_line. destruct (Nat.leb_spec (loff s) (pos s)); [|lia].
    destruct HI as (Hp & Hc & Hl & Hn & Hs). unfold Inv, set_pos; cbn [inp pos start loff cline lines_rev toks_rev fname].
    rewrite (firstn_S_nth _ _ _ E), count_nl_snoc, line_start_snoc, firstn_length.
    cbn [Z.eqb Pos.eqb length rev].
    repeat split; try lia.
    rewrite Hs. rewrite <- app_assoc. f_equal. cbn [app].
    rewrite (skipn_slice_cons _ _ _ _ Hle E).
    apply split_nl_app_nl. apply slice_no_nl; [lia|assumption].
  - apply Inv_move; [assumption|lia|].
    rewrite Nat.min_r, Nat.max_l by lia. apply no_nl_one.
    rewrite (nth_error_nth0 _ _ _ E). assumption.
Qed.

Lemma ignore_Inv s : Inv s -> Inv (ignore s).
Proof. intros H; exact H. Qed.
Lemma emit_Inv s ty : Inv s -> Inv (emit s ty).
Proof. intros H; exact H. Qed.

Lemma accept_Inv s c n : Inv s -> Inv (snd (accept s c n)).
Proof. intros H. unfold accept. destruct (xorb _ _); cbn; [apply next_Inv|]; assumption. Qed.

Lemma accept_run_Inv c n : forall F s s', Inv s -> accept_run F s c n = LOk s' -> Inv s'.
Proof.
  induction F as [|F IH]; intros s s' HI; cbn [accept_run]; [discriminate|].
  pose proof (accept_Inv s c n HI) as H1. destruct (accept s c n) as [b t]. cbn in H1.
  destruct b; [apply IH; assumption|]. intros E; injection E as <-. assumption.
Qed.

(* ------------------------------------------------------------------------------------------ *)
(** * Tokens *)

(** token [t] was cut at offset [off] of the text: its Position is the closed form of [off] and
    its value the text found there *)
Definition tok_at (s0 file : str) (off : nat) (t : token) : Prop :=
  t_pos t = Some {| tp_line := Z.of_nat (line_of s0 off); tp_col := col_of s0 off; tp_file := file |} /\
  t_value t = slice s0 off (off + length (t_value t)) /\
  off + length (t_value t) <= length s0.
Definition tok_ok (s0 file : str) (t : token) : Prop :=
  t_type t = T_COMMENT \/ exists off, tok_at s0 file off t.

(** no newline between [start] and [pos] *)
Definition Clean (s : sc) : Prop := start s <= pos s /\ no_nl (inp s) (start s) (pos s).
Definition Mid (s0 file : str) (s : sc) : Prop :=
  inp s = s0 /\ fname s = file /\ Inv s /\ Forall (tok_ok s0 file) (toks_rev s).
Definition Good (s0 file : str) (s : sc) : Prop := Mid s0 file s /\ Clean s.

Lemma get_position_ok s : Inv s -> Clean s ->
  get_position s = (Z.of_nat (line_of (inp s) (start s)), col_of (inp s) (start s)).
Proof.
  intros (Hp & Hc & Hl & _) [Hs Hn]. unfold get_position, line_of, col_of.
  destruct (same_line_forms (inp s) (start s) (pos s) Hs Hp Hn) as [E1 E2].
  rewrite Hc, Hl, E1, E2. reflexivity.
Qed.

Lemma get_token_ok s0 file s ty : Good s0 file s -> tok_ok s0 file (get_token s ty).
Proof.
  intros [(Hi & Hf & HI & _) HC]. right. exists (start s). unfold tok_at, get_token.
  cbn [t_pos t_value]. rewrite (get_position_ok s HI HC). cbn [fst snd]. rewrite Hi, Hf.
  destruct HI as (Hp & _). destruct HC as [Hs _]. rewrite Hi in Hp.
  unfold current_token_text. rewrite Hi, slice_length by assumption.
  replace (start s + (pos s - start s)) with (pos s) by lia. auto.
Qed.

Lemma emit_Good s0 file s ty : Good s0 file s -> Good s0 file (emit s ty).
Proof.
  intros HG. pose proof (get_token_ok s0 file s ty HG) as Ht.
  destruct HG as [(Hi & Hf & HI & HT) HC].
  refine (conj (conj Hi (conj Hf (conj HI _))) _).
  - constructor; assumption.
  - split; cbn; [lia|apply no_nl_empty; lia].
Qed.

Lemma emit_comment_Good s0 file s : Mid s0 file s -> Good s0 file (emit s T_COMMENT).
Proof.
  intros (Hi & Hf & HI & HT).
  refine (conj (conj Hi (conj Hf (conj HI _))) _).
  - constructor; [left; reflexivity|assumption].
  - split; cbn; [lia|apply no_nl_empty; lia].
Qed.

Lemma ignore_Good s0 file s : Mid s0 file s -> Good s0 file (ignore s).
Proof.
  intros (Hi & Hf & HI & HT). refine (conj (conj Hi (conj Hf (conj HI HT))) _).
  split; cbn; [lia|apply no_nl_empty; lia].
Qed.

Lemma Good_Mid s0 file s : Good s0 file s -> Mid s0 file s.
Proof. intros [H _]; exact H. Qed.

Lemma Mid_step s0 file s s' : Mid s0 file s ->
  inp s' = inp s -> fname s' = fname s -> toks_rev s' = toks_rev s -> Inv s' -> Mid s0 file s'.
Proof.
  intros (Hi & Hf & HI & HT) E1 E2 E3 HI'.
  refine (conj _ (conj _ (conj HI' _))); [congruence|congruence|rewrite E3; assumption].
Qed.

Lemma Good_step s0 file s s' : Good s0 file s ->
  inp s' = inp s -> fname s' = fname s -> toks_rev s' = toks_rev s -> start s' = start s -> Inv s' ->
  pos s <= pos s' -> no_nl (inp s) (pos s) (pos s') -> Good s0 file s'.
Proof.
  intros [HM [Hs Hn]] E1 E2 E3 E4 HI Hp Hno. split; [eapply Mid_step; eauto|].
  split; [lia|]. rewrite E1, E4. eapply no_nl_trans; eauto.
Qed.

Lemma next_fields s :
  inp (snd (next s)) = inp s /\ start (snd (next s)) = start s /\ toks_rev (snd (next s)) = toks_rev s /\
  fname (snd (next s)) = fname s /\ pos s <= pos (snd (next s)) <= S (pos s).
Proof.
  destruct (next s) as [[c|] s'] eqn:E; cbn [snd].
  - apply next_some in E. intuition lia.
  - apply next_none in E as [-> _]. intuition lia.
Qed.

Lemma next_Mid s0 file s : Mid s0 file s -> Mid s0 file (snd (next s)).
Proof.
  intros HM. pose proof (next_fields s) as (E1 & E2 & E3 & E4 & _).
  eapply Mid_step; eauto. apply next_Inv, HM.
Qed.

Lemma next_Good s0 file s : Good s0 file s -> peek s <> 10%Z -> Good s0 file (snd (next s)).
Proof.
  intros HG Hpk. pose proof (next_fields s) as (E1 & E2 & E3 & E4 & E5 & E6).
  eapply Good_step; eauto; [apply next_Inv, HG|].
  intros i Hi. assert (i = pos s) by lia. subst i.
  unfold peek, peek_k in Hpk. rewrite Nat.add_0_r in Hpk. exact Hpk.
Qed.

Lemma accept_fields s c n :
  inp (snd (accept s c n)) = inp s /\ start (snd (accept s c n)) = start s /\
  toks_rev (snd (accept s c n)) = toks_rev s /\ fname (snd (accept s c n)) = fname s /\
  pos s <= pos (snd (accept s c n)) <= S (pos s).
Proof. unfold accept. destruct (xorb _ _); cbn [snd]; [apply next_fields|intuition lia]. Qed.

Lemma accept_Mid s0 file s c n : Mid s0 file s -> Mid s0 file (snd (accept s c n)).
Proof. intros. unfold accept. destruct (xorb _ _); cbn [snd]; [apply next_Mid|]; assumption. Qed.

Lemma accept_Good s0 file s c n : mem_z 10 c = n -> Good s0 file s -> Good s0 file (snd (accept s c n)).
Proof.
  intros Hc HG. unfold accept. destruct (xorb (mem_z (peek s) c) n) eqn:X; cbn [snd]; [|assumption].
  apply next_Good; [assumption|]. intros E. rewrite E, Hc, xorb_nilpotent in X. discriminate.
Qed.

Lemma accept_run_fields c n : forall F s s', accept_run F s c n = LOk s' ->
  inp s' = inp s /\ start s' = start s /\ toks_rev s' = toks_rev s /\ fname s' = fname s /\
  pos s <= pos s' /\ xorb (mem_z (peek s') c) n = false.
Proof.
  induction F as [|F IH]; intros s s'; cbn [accept_run]; [discriminate|].
  pose proof (accept_fields s c n) as (E1 & E2 & E3 & E4 & E5 & _).
  destruct (accept s c n) as [b t] eqn:A. cbn [snd] in *. destruct b.
  - intros H. apply IH in H. destruct H as (H1 & H2 & H3 & H4 & H5 & H6).
    repeat split; try congruence; lia.
  - intros H. injection H as <-. apply accept_false in A as A'. subst t.
    repeat split; auto. unfold accept in A. destruct (xorb _ _); [discriminate|reflexivity].
Qed.

Lemma accept_run_Mid c n s0 file : forall F s s', Mid s0 file s -> accept_run F s c n = LOk s' -> Mid s0 file s'.
Proof.
  induction F as [|F IH]; intros s s' HM; cbn [accept_run]; [discriminate|].
  pose proof (accept_Mid s0 file s c n HM) as H1. destruct (accept s c n) as [b t]. cbn in H1.
  destruct b; [apply IH; assumption|]. intros E; injection E as <-. assumption.
Qed.

Lemma accept_run_Good c n s0 file : mem_z 10 c = n ->
  forall F s s', Good s0 file s -> accept_run F s c n = LOk s' -> Good s0 file s'.
Proof.
  intros Hc. induction F as [|F IH]; intros s s' HM; cbn [accept_run]; [discriminate|].
  pose proof (accept_Good s0 file s c n Hc HM) as H1. destruct (accept s c n) as [b t]. cbn in H1.
  destruct b; [apply IH; assumption|]. intros E; injection E as <-. assumption.
Qed.

(** [set_pos] inside the token being cut (backup, lex_opcode) *)
Lemma set_pos_Good s0 file s p : Good s0 file s -> start s <= p <= pos s -> Good s0 file (set_pos s p).
Proof.
  intros [(Hi & Hf & HI & HT) [Hs Hn]] Hp.
  refine (conj (conj Hi (conj Hf (conj _ HT))) _).
  - apply Inv_move; [assumption|destruct HI; lia|].
    rewrite Nat.min_l, Nat.max_r by lia. eapply no_nl_sub; eauto; lia.
  - split; cbn; [lia|]. eapply no_nl_sub; eauto; lia.
Qed.

Lemma accept_prefix_Good s0 file s pre : ~ In 10%Z pre -> Good s0 file s -> Good s0 file (snd (accept_prefix s pre)).
Proof.
  intros Hpre HG. unfold accept_prefix.
  destruct (str_eqb (slice (inp s) (pos s) (pos s + length pre)) pre) eqn:E; cbn [snd]; [|assumption].
  apply str_eqb_true in E.
  assert (Hp : pos s <= length (inp s)) by (destruct HG as [(_ & _ & HI & _) _]; apply HI).
  assert (Hlen : pos s + length pre <= length (inp s)).
  { pose proof (f_equal (@length Z) E) as L. unfold slice in L.
    rewrite firstn_length, skipn_length in L. lia. }
  assert (Hno : no_nl (inp s) (pos s) (pos s + length pre)).
  { intros i Hi Hnl. apply Hpre. rewrite <- Hnl.
    replace i with (pos s + (i - pos s)) by lia. rewrite <- (nth_slice _ _ (pos s + length pre)) by lia.
    rewrite E. apply nth_In. lia. }
  eapply Good_step; eauto; cbn; try lia.
  apply Inv_move; [apply HG|assumption|]. rewrite Nat.min_r, Nat.max_l by lia. assumption.
Qed.

(* ------------------------------------------------------------------------------------------ *)
(** * Hoare-style post-conditions for the state functions *)

(** the Position carried by a ScannerException is the closed form of some offset [off] of the
    text that has been consumed at the raise *)
(** what each message says about the character(s) at the reported offset *)
Definition site (s0 : str) (m : scan_msg) (off : nat) : Prop :=
  match m with
  | M_InvalidInput rest => rest = skipn off s0 /\ off < length s0
  | M_UnterminatedString => nth off s0 0%Z = 39%Z
  | M_UnterminatedComment => slice s0 off (off + 2) = [47; 42]%Z
  | M_InvalidSize => 1 <= off /\ nth (off - 1) s0 0%Z = 46%Z /\ mem_z (nth off s0 0%Z) size_chars = false
  | M_InvalidIndex => mem_z (nth off s0 0%Z) index_chars = false
  | M_UnknownKeyword kw => kw = slice s0 off (off + length kw) /\ 1 <= off /\ nth (off - 1) s0 0%Z = 46%Z
  end.

Definition ErrAt (s0 : str) (m : scan_msg) (l c : Z) (s' : sc) : Prop :=
  exists off, off <= pos s' /\ l = Z.of_nat (line_of s0 off) /\ c = col_of s0 off /\ site s0 m off.

Definition post2 (s0 file : str) (Q : sc -> Prop) (r : lres sc) : Prop :=
  match r with
  | LOk s' => Q s'
  | LRaise m l c s' => Mid s0 file s' /\ ErrAt s0 m l c s'
  | LStuck => True
  | LOutOfFuel => True
  end.

Lemma post2_bind s0 file (Q Q' : sc -> Prop) r k :
  post2 s0 file Q r -> (forall s1, Q s1 -> post2 s0 file Q' (k s1)) -> post2 s0 file Q' (lbind r k).
Proof. destruct r; cbn; auto. Qed.

Lemma post2_weaken s0 file (Q Q' : sc -> Prop) r :
  post2 s0 file Q r -> (forall s, Q s -> Q' s) -> post2 s0 file Q' r.
Proof. destruct r; cbn; auto. Qed.

Lemma raise_post2 s0 file Q m sc_ s' :
  inp sc_ = s0 -> Inv sc_ -> Clean sc_ -> Mid s0 file s' -> start sc_ <= pos s' -> site s0 m (start sc_) ->
  post2 s0 file Q (raise m (get_position sc_) s').
Proof.
  intros Hi HI HC HM Hle Hsite. unfold raise. rewrite (get_position_ok _ HI HC). cbn [fst snd post2].
  split; [assumption|]. exists (start sc_). rewrite Hi. auto.
Qed.

Lemma accept_run_post2 s0 file c n F s : mem_z 10 c = n -> Good s0 file s ->
  post2 s0 file (fun s' => Good s0 file s' /\ start s' = start s /\ pos s <= pos s' /\
                           xorb (mem_z (peek s') c) n = false)
        (accept_run F s c n).
Proof.
  intros Hc HG. destruct (accept_run F s c n) as [s'|m l k s'| |] eqn:E; cbn; trivial.
  - pose proof (accept_run_fields _ _ _ _ _ E) as (_ & E2 & _ & _ & E5 & E6).
    split; [eapply accept_run_Good; eauto|auto].
  - exfalso. eapply accept_run_no_raise; eauto.
Qed.

Lemma accept_run_post2_mid s0 file c n F s : Mid s0 file s ->
  post2 s0 file (fun s' => Mid s0 file s' /\ start s' = start s /\ pos s <= pos s' /\
                           xorb (mem_z (peek s') c) n = false)
        (accept_run F s c n).
Proof.
  intros HG. destruct (accept_run F s c n) as [s'|m l k s'| |] eqn:E; cbn; trivial.
  - pose proof (accept_run_fields _ _ _ _ _ E) as (_ & E2 & _ & _ & E5 & E6).
    split; [eapply accept_run_Mid; eauto|auto].
  - exfalso. eapply accept_run_no_raise; eauto.
Qed.

Lemma ignore_run_post2 s0 file c F s : Mid s0 file s ->
  post2 s0 file (fun s' => Good s0 file s' /\ start s' = pos s' /\ pos s <= pos s' /\ mem_z (peek s') c = false)
        (ignore_run F s c).
Proof.
  intros HM. unfold ignore_run. eapply post2_bind; [apply accept_run_post2_mid; eassumption|].
  intros s1 (H1 & H2 & H3 & H4). cbn. rewrite xorb_false_r in H4.
  split; [apply ignore_Good; assumption|auto].
Qed.

Ltac good_run := eapply post2_bind; [apply accept_run_post2; [reflexivity|eassumption]|].

Lemma peek_eqb_ne s a : (peek s =? a)%Z = true -> a <> 10%Z -> peek s <> 10%Z.
Proof. intros H. apply Z.eqb_eq in H. congruence. Qed.

Lemma lex_identifier_ok s0 file F s : Good s0 file s -> post2 s0 file (Good s0 file) (lex_identifier F s).
Proof.
  intros HG. unfold lex_identifier. good_run. intros s1 (G1 & _).
  destruct (_ && _) eqn:C.
  - cbn. apply ignore_Good, next_Mid, Good_Mid, emit_Good, G1.
  - eapply post2_bind with (Q := Good s0 file).
    + destruct (peek s1 =? 46)%Z eqn:P; [|exact G1].
      eapply post2_weaken; [apply accept_run_post2; [reflexivity|]|intros ? H; apply H].
      apply next_Good; [assumption|]. eapply peek_eqb_ne; eauto. discriminate.
    + intros s2 G2. cbn. apply emit_Good, G2.
Qed.

Lemma next_char s c s' : next s = (Some c, s') -> nth (pos s) (inp s) 0%Z = c.
Proof. intros H. apply next_some in H as (H & _). apply nth_error_nth0. assumption. Qed.

Lemma peek_nth s : peek s = nth (pos s) (inp s) 0%Z.
Proof. unfold peek, peek_k. rewrite Nat.add_0_r. reflexivity. Qed.

(** lex_number is entered right after a successful accept of a digit at offset [q] *)
Lemma lex_number_ok s0 file F s q : Good s0 file s -> pos s = S q -> start s <= q ->
  post2 s0 file (Good s0 file) (lex_number F s).
Proof.
  intros HG Hp Hs. unfold lex_number, backup. rewrite Hp. cbn [lbind].
  assert (G0 : Good s0 file (set_pos s q)) by (apply set_pos_Good; [assumption|lia]).
  assert (Hq : peek (set_pos s q) <> 10%Z).
  { rewrite peek_nth. cbn. destruct HG as [_ [_ Hn]]. apply Hn. lia. }
  pose proof (next_Good _ _ _ G0 Hq) as G1. pose proof (next_fields (set_pos s q)) as (_ & F2 & _ & _ & F5 & _).
  destruct (next (set_pos s q)) as [ch s1] eqn:N. cbn [snd] in *. cbn in F2, F5.
  destruct ((peek s1 =? 10)%Z || (peek s1 =? 0)%Z) eqn:T; [cbn; apply emit_Good, G1|].
  apply orb_false_iff in T as [T10 T0]. apply Z.eqb_neq in T10, T0.
  eapply post2_bind with (Q := Good s0 file); [|intros s2 G2; cbn; apply emit_Good, G2].
  destruct (oz_is ch 48).
  - pose proof (next_Good _ _ _ G1 T10) as G2.
    pose proof (next_fields s1) as (_ & F2' & _ & _ & _).
    destruct (next s1) as [[y|] s2] eqn:N2; cbn [snd] in *.
    2:{ apply next_none in N2 as [_ N2]. apply peek_nonzero_lt in T0. lia. }
    apply next_some in N2 as (_ & _ & _ & Hp2 & _).
    assert (Hrun : forall c, mem_z 10 c = false -> post2 s0 file (Good s0 file) (accept_run F s2 c false)).
    { intros c Hc. eapply post2_weaken; [apply accept_run_post2; eauto|intros ? H; apply H]. }
    destruct (oz_is (Some y) 98); [apply Hrun; reflexivity|].
    destruct (oz_is (Some y) 111); [apply Hrun; reflexivity|].
    destruct (oz_is (Some y) 120); [apply Hrun; reflexivity|].
    unfold backup. rewrite Hp2. cbn. apply set_pos_Good; [assumption|].
    destruct G1 as [_ [Hs1 _]]. lia.
  - eapply post2_weaken; [apply accept_run_post2; [reflexivity|eassumption]|intros ? H; apply H].
Qed.

(** lex_quoted_string *)
Lemma quoted_loop_ok s0 file off : nth off s0 0%Z = 39%Z -> forall F c s,
  Mid s0 file s -> start s <= pos s -> off <= pos s ->
  (forall i, start s <= i < pos s -> nth i (inp s) 0%Z = 10%Z -> c = Some 10%Z) ->
  post2 s0 file (Good s0 file) (quoted_loop F (Z.of_nat (line_of s0 off), col_of s0 off) c s).
Proof.
  intros Hq. induction F as [|F IH]; intros c s HM Hs Hoff HJ; cbn [quoted_loop]; [exact I|].
  destruct (oz_is c 39) eqn:C39.
  { cbn. apply emit_Good. split; [assumption|]. split; [assumption|].
    intros i Hi E. specialize (HJ i Hi E). subst c. discriminate. }
  destruct (oz_is c 10 || match c with None => true | Some _ => false end) eqn:T.
  { unfold raise. cbn. split; [assumption|]. exists off. auto. }
  apply orb_false_iff in T as [T10 TN]. destruct c as [x|]; [|discriminate]. cbn in T10. apply Z.eqb_neq in T10.
  assert (HC : Clean s).
  { split; [assumption|]. intros i Hi E. specialize (HJ i Hi E). congruence. }
  set (s1 := if oz_is (Some x) 92 && (peek s =? 39)%Z then snd (next s) else s).
  assert (G1 : Good s0 file s1 /\ start s1 = start s /\ pos s <= pos s1).
  { subst s1. destruct (oz_is (Some x) 92 && (peek s =? 39)%Z) eqn:B.
    - apply andb_true_iff in B as [_ B]. pose proof (next_fields s) as (_ & F2 & _ & _ & F5 & _).
      split; [|auto]. apply next_Good; [split; assumption|]. eapply peek_eqb_ne; eauto. discriminate.
    - split; [split; assumption|auto]. }
  destruct G1 as (G1 & Hst1 & Hp1).
  pose proof (next_Mid _ _ _ (Good_Mid _ _ _ G1)) as M2.
  pose proof (next_fields s1) as (Fi & F2 & _ & _ & F5 & F6).
  destruct (next s1) as [c' s2] eqn:N. cbn [snd] in *.
  apply IH; [assumption|lia|lia|].
  intros i Hi E. destruct (Nat.lt_ge_cases i (pos s1)) as [Hlt|Hge].
  - exfalso. destruct G1 as [_ [_ Hn]]. apply (Hn i); [lia|congruence].
  - destruct c' as [y|].
    + apply next_char in N. assert (i = pos s1) by lia. subst i. congruence.
    + apply next_none in N as [-> _]. lia.
Qed.

Lemma lex_quoted_string_ok s0 file F s : Good s0 file s -> nth (start s) (inp s) 0%Z = 39%Z ->
  post2 s0 file (Good s0 file) (lex_quoted_string F s).
Proof.
  intros HG Hq. unfold lex_quoted_string.
  destruct HG as [HM HC]. pose proof HM as (Hi & _ & HI & _).
  rewrite (get_position_ok s HI HC), Hi.
  pose proof (next_Mid _ _ _ HM) as M1. pose proof (next_fields s) as (Fi & F2 & _ & _ & F5 & F6).
  destruct (next s) as [c s1] eqn:N. cbn [snd] in *.
  destruct HC as [Hs Hn].
  apply quoted_loop_ok; [congruence|assumption|lia|lia|].
  intros i Hi' E. destruct (Nat.lt_ge_cases i (pos s)) as [Hlt|Hge].
  - exfalso. apply (Hn i); [lia|congruence].
  - destruct c as [y|].
    + apply next_char in N. assert (i = pos s) by lia. subst i. congruence.
    + apply next_none in N as [-> _]. lia.
Qed.

(** comment loops *)
Lemma line_comment_loop_ok s0 file : forall F s, Mid s0 file s ->
  post2 s0 file (Mid s0 file) (line_comment_loop F s).
Proof.
  induction F as [|F IH]; intros s HM; cbn [line_comment_loop]; [exact I|].
  pose proof (next_Mid _ _ _ HM) as M1. destruct (next s) as [[x|] s1]; cbn [snd] in *; [|exact M1].
  destruct (Z.eqb x 10); [exact M1|apply IH, M1].
Qed.

Lemma accept_prefix_Mid s0 file s pre : ~ In 10%Z pre -> Mid s0 file s ->
  Mid s0 file (snd (accept_prefix s pre)) /\ pos s <= pos (snd (accept_prefix s pre)).
Proof.
  intros Hpre HM.
  (* reuse the Good version on the ignored state, whose accept_prefix moves the same way *)
  pose proof (accept_prefix_Good s0 file (ignore s) pre Hpre (ignore_Good _ _ _ HM)) as [HM' _].
  unfold accept_prefix in *. cbn [inp pos ignore] in HM'.
  destruct (str_eqb _ _); cbn [snd] in *; [|split; [assumption|lia]].
  split; [|cbn; lia]. destruct HM' as (A & B & C & D). destruct HM as (A' & B' & C' & D').
  refine (conj A (conj B (conj _ D'))). exact C.
Qed.

Lemma block_comment_loop_ok s0 file off : slice s0 off (off + 2) = [47; 42]%Z -> forall F s, Mid s0 file s -> off <= pos s ->
  post2 s0 file (Mid s0 file) (block_comment_loop F (Z.of_nat (line_of s0 off), col_of s0 off) s).
Proof.
  intros Hsl. induction F as [|F IH]; intros s HM Hoff; cbn [block_comment_loop]; [exact I|].
  pose proof (accept_prefix_Mid s0 file s [42%Z;47%Z]) as [M1 P1]; [cbn; intuition discriminate|assumption|].
  destruct (accept_prefix s [42%Z;47%Z]) as [b s1] eqn:A. cbn [snd] in *.
  destruct b; [exact M1|].
  pose proof (next_Mid _ _ _ M1) as M2. pose proof (next_fields s1) as (_ & _ & _ & _ & F5 & _).
  destruct (next s1) as [[x|] s2]; cbn [snd] in *.
  - apply IH; [assumption|lia].
  - unfold raise. cbn. split; [assumption|]. exists off. split; [lia|auto].
Qed.

Lemma accept_or_Good s0 file r f :
  Good s0 file (snd r) -> (forall s, Good s0 file s -> Good s0 file (snd (f s))) ->
  Good s0 file (snd (accept_or r f)).
Proof. unfold accept_or. destruct (fst r); auto. Qed.

Ltac not_in_10 := cbn; intuition discriminate.

Lemma lex_expression_loop_ok s0 file F : forall fuel s, Good s0 file s ->
  post2 s0 file (Good s0 file) (lex_expression_loop fuel F s).
Proof.
  induction fuel as [|fuel IH]; intros s HG; cbn [lex_expression_loop]; [exact I|].
  destruct (pos s <? length (inp s)); [|exact HG].
  eapply post2_bind; [apply ignore_run_post2, Good_Mid, HG|]. intros sa (Ga & Hsa & _).
  destruct (accept sa digits false) as [b s1] eqn:A1. destruct b.
  { pose proof (accept_Good s0 file sa digits false eq_refl Ga) as G1. rewrite A1 in G1. cbn in G1.
    pose proof (accept_true _ _ _ _ A1 eq_refl eq_refl) as (_ & Hp1 & _ & _ & Hs1 & _).
    eapply post2_bind; [apply lex_number_ok with (q := pos sa); [assumption|assumption|lia]|].
    intros s2 G2. apply IH, G2. }
  apply accept_false in A1. subst s1.
  destruct (accept sa ident_start false) as [b s2] eqn:A2. destruct b.
  { pose proof (accept_Good s0 file sa ident_start false eq_refl Ga) as G1. rewrite A2 in G1. cbn in G1.
    eapply post2_bind; [apply lex_identifier_ok, G1|]. intros s3 G3. apply IH, G3. }
  apply accept_false in A2. subst s2.
  match goal with |- context [accept_or (accept_or ?a ?f) ?g] =>
    pose proof (accept_or_Good s0 file (accept_or a f) g) as Gr; set (r := accept_or (accept_or a f) g) in * end.
  assert (Gr' : Good s0 file (snd r) /\ (fst r = false -> snd r = sa)).
  { split.
    - apply Gr.
      + apply accept_or_Good; [apply accept_Good; [reflexivity|assumption]|].
        intros t Gt. apply accept_prefix_Good; [not_in_10|assumption].
      + intros t Gt. apply accept_prefix_Good; [not_in_10|assumption].
    - subst r. unfold accept_or.
      destruct (accept sa expr_ops false) as [b1 t1] eqn:B1. cbn [fst snd].
      destruct b1; cbn [fst snd]; [discriminate|].
      apply accept_false in B1. subst t1.
      destruct (accept_prefix sa [60%Z;60%Z]) as [b2 t2] eqn:B2. cbn [fst snd].
      destruct b2; cbn [fst snd]; [discriminate|].
      apply accept_prefix_false in B2. subst t2.
      destruct (accept_prefix sa [62%Z;62%Z]) as [b3 t3] eqn:B3. cbn [fst snd].
      destruct b3; [discriminate|]. apply accept_prefix_false in B3. subst t3. reflexivity. }
  clear Gr. destruct r as [b3 s3]. cbn [fst snd] in Gr'. destruct Gr' as [G3 E3].
  destruct b3; [apply IH, emit_Good, G3|]. specialize (E3 eq_refl). subst s3.
  destruct (accept sa [40%Z] false) as [b s4] eqn:A4.
  pose proof (accept_Good s0 file sa [40%Z] false eq_refl Ga) as G4. rewrite A4 in G4. cbn in G4.
  destruct b; [apply IH, emit_Good, G4|].
  apply accept_false in A4. subst s4.
  destruct (accept sa [41%Z] false) as [b s5] eqn:A5.
  pose proof (accept_Good s0 file sa [41%Z] false eq_refl Ga) as G5. rewrite A5 in G5. cbn in G5.
  destruct b; [apply IH, emit_Good, G5|exact G5].
Qed.

Lemma lex_opcode_index_ok s0 file F s : Mid s0 file s -> post2 s0 file (Good s0 file) (lex_opcode_index F s).
Proof.
  intros HM. unfold lex_opcode_index.
  eapply post2_bind; [apply ignore_run_post2, Good_Mid, ignore_Good, HM|]. intros s2 (G2 & St2 & _).
  pose proof (accept_Good s0 file s2 index_chars false eq_refl G2) as G3.
  destruct (accept s2 index_chars false) as [b s3] eqn:A. cbn in G3.
  destruct b; [cbn; apply emit_Good, G3|].
  pose proof (accept_false _ _ _ _ A) as ->.
  unfold accept in A. rewrite xorb_false_r in A. destruct (mem_z (peek s2) index_chars) eqn:Mi; [discriminate|].
  destruct G3 as [M3 C3]. apply raise_post2; try assumption; try apply M3; [apply C3|].
  cbn. rewrite St2. rewrite peek_nth in Mi. destruct M3 as (<- & _). exact Mi.
Qed.

Lemma bracket_Good s0 file s ty : Good s0 file s -> peek s <> 10%Z -> Good s0 file (emit (snd (next s)) ty).
Proof. intros. apply emit_Good, next_Good; assumption. Qed.

Lemma lex_operand_ok s0 file F s : Good s0 file s -> post2 s0 file (Good s0 file) (lex_operand F s).
Proof.
  intros HG. unfold lex_operand.
  match goal with |- context [ignore_run F ?x [32%Z]] => assert (G1 : Good s0 file x) end.
  { destruct (peek s =? 35)%Z eqn:P1; [apply bracket_Good; [assumption|eapply peek_eqb_ne; eauto; discriminate]|].
    destruct (peek s =? 40)%Z eqn:P2; [apply bracket_Good; [assumption|eapply peek_eqb_ne; eauto; discriminate]|].
    destruct (peek s =? 91)%Z eqn:P3; [apply bracket_Good; [assumption|eapply peek_eqb_ne; eauto; discriminate]|exact HG]. }
  eapply post2_bind; [apply ignore_run_post2, Good_Mid, G1|]. intros s2 (G2 & _).
  eapply post2_bind; [apply lex_expression_loop_ok, G2|]. intros s3 G3.
  eapply post2_bind; [apply ignore_run_post2, Good_Mid, G3|]. intros s4 (G4 & _).
  pose proof (accept_Good s0 file s4 [44%Z] false eq_refl G4) as G5.
  destruct (accept s4 [44%Z] false) as [b s5]. cbn in G5.
  eapply post2_bind with (Q := Good s0 file).
  { destruct b; [apply lex_opcode_index_ok, Good_Mid, G5|exact G5]. }
  intros s6 G6.
  match goal with |- context [ignore_run F ?x [32%Z]] => assert (G7 : Good s0 file x) end.
  { destruct (peek s6 =? 41)%Z eqn:P1; [apply bracket_Good; [assumption|eapply peek_eqb_ne; eauto; discriminate]|].
    destruct (peek s6 =? 93)%Z eqn:P2; [apply bracket_Good; [assumption|eapply peek_eqb_ne; eauto; discriminate]|exact G6]. }
  eapply post2_bind; [apply ignore_run_post2, Good_Mid, G7|]. intros s8 (G8 & _).
  pose proof (accept_Good s0 file s8 [44%Z] false eq_refl G8) as G9.
  destruct (accept s8 [44%Z] false) as [b' s9]. cbn in G9.
  destruct b'; [apply lex_opcode_index_ok, Good_Mid, G9|exact G9].
Qed.

Lemma lex_opcode_size_ok s0 file F s : Mid s0 file s -> 1 <= pos s -> nth (pos s - 1) (inp s) 0%Z = 46%Z ->
  post2 s0 file (Good s0 file) (lex_opcode_size F s).
Proof.
  intros HM Hp1 Hdot. unfold lex_opcode_size.
  pose proof (accept_Good s0 file (ignore s) size_chars false eq_refl (ignore_Good _ _ _ HM)) as G2.
  destruct (accept (ignore s) size_chars false) as [b s2] eqn:A. cbn in G2.
  destruct b.
  - eapply post2_bind; [apply ignore_run_post2, Good_Mid, emit_Good, G2|]. intros s4 (G4 & _).
    apply lex_operand_ok, G4.
  - pose proof (accept_false _ _ _ _ A) as ->.
    unfold accept in A. rewrite xorb_false_r in A. destruct (mem_z (peek (ignore s)) size_chars) eqn:Mi; [discriminate|].
    destruct G2 as [M2 C2]. pose proof (next_fields (ignore s)) as (_ & _ & _ & _ & F5 & _).
    apply raise_post2; try assumption; try apply M2; [apply next_Mid, M2|].
    cbn. rewrite peek_nth in Mi. cbn in Mi. destruct HM as (<- & _). auto.
Qed.

Lemma lex_opcode_tail_ok s0 file F s : Good s0 file s -> post2 s0 file (Good s0 file) (lex_opcode_tail F s).
Proof.
  intros HG. unfold lex_opcode_tail.
  pose proof (accept_Good s0 file s [46%Z] false eq_refl HG) as G1.
  destruct (accept s [46%Z] false) as [b s1] eqn:A. cbn in G1.
  eapply post2_bind with (Q := Good s0 file).
  { destruct b; [|exact G1].
    pose proof (accept_true _ _ _ _ A eq_refl eq_refl) as (Hi1 & Hp1 & _ & Hm & _).
    apply lex_opcode_size_ok; [apply Good_Mid, G1|lia|].
    rewrite Hp1, Hi1. cbn. rewrite Nat.sub_0_r. apply mem_z_In in Hm. cbn in Hm. rewrite peek_nth in Hm. intuition. }
  intros s2 G2. eapply post2_bind; [apply ignore_run_post2, Good_Mid, G2|]. intros s3 (G3 & _).
  apply lex_operand_ok, G3.
Qed.

Lemma lex_opcode_ok s0 file F lx s : Good s0 file s -> post2 s0 file (Good s0 file) (lex_opcode F lx s).
Proof.
  intros HG. unfold lex_opcode. destruct (_ && _).
  - good_run. intros s1 (G1 & St1 & P1 & _).
    pose proof (accept_Good s0 file s1 [59%Z] false eq_refl G1) as G2.
    pose proof (accept_fields s1 [59%Z] false) as (_ & St2 & _ & _ & P2 & _).
    destruct (accept s1 [59%Z] false) as [b s2]. cbn [snd] in *.
    eapply post2_bind with (Q := fun s3 => Good s0 file s3 /\ start s3 = start s /\ pos s <= pos s3).
    { destruct b.
      - eapply post2_weaken; [apply accept_run_post2; [reflexivity|eassumption]|].
        intros s3 (G3 & St3 & P3 & _). split; [assumption|]. split; [congruence|lia].
      - cbn. split; [assumption|]. split; [congruence|lia]. }
    intros s3 (G3 & St3 & P3).
    assert (G4 : Good s0 file (set_pos s3 (pos s))).
    { apply set_pos_Good; [assumption|]. destruct HG as [_ [Hs _]]. lia. }
    destruct (_ || _); [cbn; apply emit_Good, G4|apply lex_opcode_tail_ok, emit_Good, G4].
  - apply lex_opcode_tail_ok, emit_Good, HG.
Qed.

Lemma lex_keyword_ok s0 file F lx s : Mid s0 file s -> 1 <= pos s -> nth (pos s - 1) (inp s) 0%Z = 46%Z ->
  post2 s0 file (Good s0 file) (lex_keyword F lx s).
Proof.
  intros HM Hp1 Hdot. unfold lex_keyword.
  eapply post2_bind; [apply accept_run_post2; [reflexivity|apply ignore_Good, HM]|]. intros s2 (G2 & St2 & _).
  destruct (mem_str _ _); [cbn; apply emit_Good, G2|].
  destruct G2 as [M2 C2]. apply raise_post2; try assumption; try apply M2; [apply C2|].
  cbn [site]. cbn [ignore start] in St2. rewrite St2.
  pose proof M2 as (Hi2 & _ & HI2 & _). destruct HM as (Hi & _).
  split; [|split; [assumption|congruence]].
  unfold current_token_text. rewrite St2, Hi2. rewrite slice_length by (rewrite <- Hi2; apply HI2).
  destruct C2 as [Hs2 _]. rewrite St2 in Hs2. replace (pos s + (pos s2 - pos s)) with (pos s2) by lia. reflexivity.
Qed.

(** side condition on the opcode table: every mnemonic has at least three characters, none of
    them a newline *)
Definition lexicon_ok (lx : lexicon) : bool :=
  forallb (fun m => (3 <=? length m) && negb (mem_z 10 m)) (lx_mnemonics lx).

Lemma lower_nl c : lower c = 10%Z -> c = 10%Z.
Proof. unfold lower. destruct ((65 <=? c)%Z && (c <=? 90)%Z) eqn:E; [|auto]. apply andb_true_iff in E as [E1 E2]. lia. Qed.

Lemma accept_opcode_Good s0 file lx s : lexicon_ok lx = true -> Good s0 file s -> start s = pos s ->
  Good s0 file (snd (accept_opcode lx s)).
Proof.
  intros Hlx HG Hst. unfold accept_opcode.
  destruct (mem_str _ _ && _) eqn:C; cbn [snd]; [|assumption].
  apply andb_true_iff in C as [C _]. unfold mem_str in C. apply existsb_exists in C as (m & Hin & E).
  apply str_eqb_true in E. unfold lexicon_ok in Hlx. rewrite forallb_forall in Hlx.
  specialize (Hlx m Hin). apply andb_true_iff in Hlx as [L3 Lnl]. apply Nat.leb_le in L3.
  apply negb_true_iff in Lnl.
  assert (Hp : pos s <= length (inp s)) by (destruct HG as [(_ & _ & HI & _) _]; apply HI).
  rewrite Hst in E.
  assert (Hlen : pos s + 3 <= length (inp s)).
  { pose proof (f_equal (@length Z) E) as L. rewrite map_length in L. unfold slice in L.
    rewrite firstn_length, skipn_length in L. lia. }
  assert (Hno : no_nl (inp s) (pos s) (pos s + 3)).
  { intros i Hi Hnl.
    assert (In 10%Z m); [|apply mem_z_In in H; congruence].
    rewrite <- E. apply in_map_iff. exists 10%Z. split; [reflexivity|].
    rewrite <- Hnl. replace i with (pos s + (i - pos s)) by lia.
    rewrite <- (nth_slice _ _ (pos s + 3)) by lia. apply nth_In. rewrite slice_length by lia. lia. }
  eapply Good_step; eauto; cbn; try lia.
  apply Inv_move; [apply HG|assumption|]. rewrite Nat.min_r, Nat.max_l by lia. assumption.
Qed.

Ltac chain2 HG A t G :=
  match goal with
  | |- post2 _ _ _ (let '(b, s1) := accept ?s ?c false in _) =>
      let b := fresh "b" in
      pose proof (accept_Good _ _ s c false eq_refl HG) as G;
      destruct (accept s c false) as [b t] eqn:A; cbn [snd] in G;
      destruct b; [ | apply accept_false in A; subst t; clear G ]
  | |- post2 _ _ _ (let '(b, s1) := accept_prefix ?s ?c in _) =>
      let b := fresh "b" in
      pose proof (accept_prefix_Good _ _ s c ltac:(not_in_10) HG) as G;
      destruct (accept_prefix s c) as [b t] eqn:A; cbn [snd] in G;
      destruct b; [ | apply accept_prefix_false in A; subst t; clear G ]
  end.

Lemma lex_initial_ok s0 file lx F s : lexicon_ok lx = true -> Mid s0 file s ->
  post2 s0 file (Good s0 file) (lex_initial lx F s).
Proof.
  intros Hlx HM0. unfold lex_initial.
  eapply post2_bind; [apply ignore_run_post2, HM0|]. intros sb (HG & Hst & _ & Hstop). clear s HM0. rename sb into s.
  assert (Hpk : peek s <> 10%Z).
  { intros E. rewrite E in Hstop. discriminate. }
  chain2 HG A t G.
  { eapply post2_bind; [apply line_comment_loop_ok, Good_Mid, G|]. intros t2 M2. cbn. apply emit_comment_Good, M2. }
  chain2 HG A t G.
  { pose proof (accept_true _ _ _ _ A eq_refl eq_refl) as (_ & Hp1 & _ & _ & Hs1 & _).
    apply lex_number_ok with (q := pos s); [assumption|assumption|lia]. }
  chain2 HG A t G; [cbn; apply emit_Good, G|].
  chain2 HG A t G; [cbn; apply emit_Good, G|].
  chain2 HG A t G; [cbn; apply emit_Good, G|].
  chain2 HG A t G; [cbn; apply emit_Good, G|].
  chain2 HG A t G; [cbn; apply emit_Good, G|].
  match goal with |- context [accept_or (accept_or (accept_or ?a ?f) ?g) ?h] =>
    set (r := accept_or (accept_or (accept_or a f) g) h) end.
  assert (Hr : Good s0 file (snd r) /\ (fst r = false -> snd r = s)).
  { split.
    - subst r. repeat apply accept_or_Good; try (intros; apply accept_prefix_Good; [not_in_10|assumption]).
    - subst r. unfold accept_or.
      destruct (accept_prefix s [62%Z]) as [b1 t1] eqn:B1. cbn [fst snd].
      destruct b1; cbn [fst snd]; [discriminate|].
      apply accept_prefix_false in B1; subst t1.
      destruct (accept_prefix s [60%Z]) as [b1 t1] eqn:B1. cbn [fst snd].
      destruct b1; cbn [fst snd]; [discriminate|].
      apply accept_prefix_false in B1; subst t1.
      destruct (accept_prefix s [62%Z;61%Z]) as [b1 t1] eqn:B1. cbn [fst snd].
      destruct b1; cbn [fst snd]; [discriminate|].
      apply accept_prefix_false in B1; subst t1.
      destruct (accept_prefix s [60%Z;61%Z]) as [b1 t1] eqn:B1. cbn [fst snd].
      destruct b1; cbn [fst snd]; [discriminate|].
      apply accept_prefix_false in B1; subst t1. reflexivity. }
  destruct r as [b8 s8]. cbn [fst snd] in Hr. destruct Hr as [Hr1 Hr2].
  destruct b8; [cbn; apply emit_Good, Hr1|]. specialize (Hr2 eq_refl). subst s8.
  chain2 HG A t G.
  { (* a letter: backup, accept_opcode, then lex_opcode or lex_identifier *)
    pose proof (accept_true _ _ _ _ A eq_refl eq_refl) as (_ & Hp1 & _ & _ & Hs1 & _).
    unfold backup. rewrite Hp1. cbn [lbind].
    assert (Gu : Good s0 file (set_pos t (pos s))) by (apply set_pos_Good; [assumption|lia]).
    pose proof (accept_opcode_Good s0 file lx (set_pos t (pos s)) Hlx Gu) as Gv.
    destruct (accept_opcode lx (set_pos t (pos s))) as [b v]. cbn [snd] in Gv.
    specialize (Gv ltac:(cbn; lia)).
    destruct b; [apply lex_opcode_ok, Gv|apply lex_identifier_ok, Gv]. }
  chain2 HG A t G.
  { pose proof (accept_true _ _ _ _ A eq_refl eq_refl) as (Hi1 & Hp1 & _ & Hm & _).
    apply lex_keyword_ok; [apply Good_Mid, G|lia|].
    rewrite Hp1, Hi1. cbn. rewrite Nat.sub_0_r. apply mem_z_In in Hm. cbn in Hm. rewrite peek_nth in Hm. intuition. }
  chain2 HG A t G; [cbn; apply emit_Good, G|].
  chain2 HG A t G; [cbn; apply emit_Good, G|].
  chain2 HG A t G; [cbn; apply emit_Good, G|].
  chain2 HG A t G.
  { pose proof (accept_Good s0 file t [61%Z] false eq_refl G) as G2.
    destruct (accept t [61%Z] false) as [b' t2]. cbn in G2. destruct b'; cbn; apply emit_Good, G2. }
  chain2 HG A t G.
  { pose proof (accept_true _ _ _ _ A eq_refl eq_refl) as (Hi1 & _ & _ & Hm & Hs1 & _).
    apply lex_quoted_string_ok; [exact G|]. rewrite Hs1, Hi1, Hst.
    apply mem_z_In in Hm. cbn in Hm. rewrite peek_nth in Hm. intuition. }
  chain2 HG A t G; [cbn; apply emit_Good, G|].
  chain2 HG A t G; [cbn; apply emit_Good, G|].
  chain2 HG A t G; [cbn; apply emit_Good, G|].
  chain2 HG A t G; [cbn; apply emit_Good, G|].
  chain2 HG A t G.
  { pose proof (accept_Good s0 file t [123%Z] false eq_refl G) as G2.
    destruct (accept t [123%Z] false) as [b' t2]. cbn in G2. destruct b'; cbn; apply emit_Good, G2. }
  chain2 HG A t G.
  { pose proof (accept_Good s0 file t [125%Z] false eq_refl G) as G2.
    destruct (accept t [125%Z] false) as [b' t2]. cbn in G2. destruct b'; cbn; apply emit_Good, G2. }
  chain2 HG A t G; [cbn; apply emit_Good, G|].
  chain2 HG A t G.
  { destruct G as [M C]. pose proof M as (Hi & _ & HI & _).
    rewrite (get_position_ok t HI C), Hi.
    assert (Hsl : slice s0 (start t) (start t + 2) = [47; 42]%Z).
    { unfold accept_prefix in A. destruct (str_eqb _ _) eqn:Es; [|discriminate].
      apply str_eqb_true in Es. injection A as <-. cbn [start set_pos] in *. cbn [inp set_pos] in Hi.
      rewrite Hst, <- Hi. exact Es. }
    eapply post2_bind; [apply block_comment_loop_ok; [exact Hsl|exact M|apply C]|].
    intros t2 M2. cbn. apply emit_comment_Good, M2. }
  pose proof (next_Good _ _ _ HG Hpk) as G2.
  destruct (next s) as [[x|] s2] eqn:N; cbn [snd] in G2; [|exact G2].
  apply next_some in N as (_ & Hlt & Hi2 & _ & Hs2 & _).
  destruct G2 as [M2 C2]. apply raise_post2; try assumption; try apply M2; [apply C2|].
  cbn [site]. destruct M2 as (Hi2' & _). rewrite Hi2'. split; [reflexivity|].
  rewrite Hs2, Hst, <- Hi2', Hi2. exact Hlt.
Qed.

(* ------------------------------------------------------------------------------------------ *)
(** * The driver *)

Lemma split_nl_length l : length (split_nl l) = S (count_nl l).
Proof.
  induction l as [|c l IH]; cbn [split_nl count_nl]; [reflexivity|].
  destruct (Z.eqb c 10); cbn [length]; [lia|].
  destruct (split_nl l) eqn:E; cbn [length] in *; lia.
Qed.

Lemma skipn_slice_app (l : str) a b : a <= b -> b <= length l -> skipn a l = slice l a b ++ skipn b l.
Proof.
  intros Hab Hb. destruct (nth_error l b) as [c|] eqn:E.
  - pose proof (skipn_slice_cons l b b c (le_n _) E) as H2.
    unfold slice in H2. rewrite Nat.sub_diag in H2. cbn [firstn app] in H2.
    rewrite H2. apply skipn_slice_cons; assumption.
  - apply nth_error_None in E. assert (b = length l) by lia. subst b.
    rewrite (skipn_all l), app_nil_r. apply skipn_slice_all.
Qed.

Lemma py_index_nat {A} (l : list A) k : py_index l (Z.of_nat k) = nth_error l k.
Proof. unfold py_index. destruct (Z.leb_spec 0 (Z.of_nat k)); [|lia]. rewrite Nat2Z.id. reflexivity. Qed.

(** what is proved about a result of [scan] *)
Definition quoted_ok (s0 : str) (off : nat) (quoted : option str) : Prop :=
  exists q rest, quoted = Some q /\ line_text s0 (line_of s0 off) = q ++ rest /\ (~ In 0%Z s0 -> rest = []).

Definition scan_post (s0 file : str) (r : scan_result) : Prop :=
  match r with
  | ScanOk toks lines => Forall (tok_ok s0 file) toks /\ lines = split_nl s0
  | ScanErr e =>
      Forall (tok_ok s0 file) (se_toks e) /\
      exists off, off <= length s0 /\ se_line e = Z.of_nat (line_of s0 off) /\ se_col e = col_of s0 off /\
                  site s0 (se_msg e) off /\ quoted_ok s0 off (se_quoted e)
  | ScanStuck => True
  | ScanOutOfFuel => True
  end.

Lemma scan_handler_ok s0 file F m l c s' : Mid s0 file s' -> ErrAt s0 m l c s' ->
  scan_post s0 file (scan_handler F m l c s').
Proof.
  intros HM (off & Hoff & Hl & Hc & Hsite). unfold scan_handler.
  destruct (accept_run F s' eol_or_eof true) as [s2| | |] eqn:E; cbn [scan_post]; trivial.
  pose proof (accept_run_Mid _ _ _ _ _ _ _ HM E) as (Hi & Hf & HI & HT).
  pose proof (accept_run_fields _ _ _ _ _ E) as (_ & _ & _ & _ & Hp & Hstop).
  pose proof (Inv_loff_le _ HI) as Hle. pose proof (Inv_no_nl _ HI) as Hno.
  unfold handle_line. destruct (Nat.leb_spec (loff s2) (pos s2)); [|lia].
  cbn [se_toks se_line se_col se_quoted se_msg toks_rev lines_rev].
  split; [apply Forall_rev; assumption|].
  destruct HI as (Hpl & Hcl & Hlo & Hnl & Hsp). rewrite Hi in *.
  exists off. split; [lia|]. split; [assumption|]. split; [assumption|]. split; [assumption|].
  subst l. rewrite py_index_nat. cbn [rev].
  set (k := line_of s0 off).
  assert (Hk : k <= cline s2).
  { subst k. unfold line_of. rewrite Hcl. apply count_nl_firstn_mono. lia. }
  assert (Hrl : length (rev (lines_rev s2)) = cline s2) by (rewrite rev_length; assumption).
  unfold quoted_ok. destruct (Nat.eq_dec k (cline s2)) as [Ek|Nk].
  - (* the line being scanned when the exception was raised *)
    rewrite nth_error_app2 by lia. rewrite Ek, Hrl, Nat.sub_diag. cbn [nth_error].
    exists (slice s0 (loff s2) (pos s2)), (hd [] (split_nl (skipn (pos s2) s0))).
    split; [reflexivity|]. split.
    + unfold line_text. fold k. rewrite Ek, Hsp, app_nth2 by lia. rewrite Hrl, Nat.sub_diag.
      rewrite (skipn_slice_app s0 (loff s2) (pos s2)) by lia.
      destruct (split_nl_app_hd (slice s0 (loff s2) (pos s2)) (skipn (pos s2) s0)) as [tl Etl].
      { apply slice_no_nl; assumption. }
      rewrite Etl. reflexivity.
    + intros Hnul. rewrite xorb_true_r in Hstop. apply negb_false_iff in Hstop.
      destruct (nth_error s0 (pos s2)) as [ch|] eqn:En.
      * assert (Hpk : peek s2 = ch) by (rewrite peek_nth, Hi; apply nth_error_nth0; assumption).
        rewrite Hpk in Hstop. apply mem_z_In in Hstop. cbn in Hstop.
        destruct Hstop as [<-|[<-|[]]].
        -- rewrite (skipn_slice_cons s0 (pos s2) (pos s2) _ (le_n _) En). unfold slice. rewrite Nat.sub_diag. reflexivity.
        -- exfalso. apply Hnul. eapply nth_error_In; eauto.
      * apply nth_error_None in En. rewrite skipn_all2 by lia. reflexivity.
  - (* a completed line *)
    assert (Hlt : k < cline s2) by lia.
    rewrite nth_error_app1 by lia.
    exists (line_text s0 k), []. rewrite app_nil_r. split; [|split; [reflexivity|reflexivity]].
    unfold line_text. rewrite Hsp. rewrite app_nth1 by lia.
    apply nth_error_nth'. lia.
Qed.

Lemma scan_loop_ok s0 file F state :
  (forall s, Good s0 file s -> post2 s0 file (Good s0 file) (state F s)) ->
  forall n s, Good s0 file s -> scan_post s0 file (scan_loop n F state s).
Proof.
  intros Hstate. induction n as [|n IH]; intros s HG; cbn [scan_loop]; [exact I|].
  destruct (pos s <? length (inp s)) eqn:L.
  - specialize (Hstate s HG). destruct (state F s) as [s'|m l c s'| |]; cbn [post2] in Hstate; try exact I.
    + destruct (pos s' =? pos s) eqn:Ep.
      * pose proof (ignore_Good _ _ _ (Good_Mid _ _ _ Hstate)) as [M1 C1].
        pose proof M1 as (Hi & _ & HI & _).
        apply scan_handler_ok; [exact M1|].
        rewrite (get_position_ok _ HI C1), Hi. cbn [fst snd].
        exists (start (ignore s')). cbn [ignore start pos inp site] in *.
        apply Nat.eqb_eq in Ep. apply Nat.ltb_lt in L. destruct HG as [(Hi0 & _) _].
        split; [lia|]. split; [reflexivity|]. split; [reflexivity|]. split; [congruence|]. rewrite Ep, <- Hi0. exact L.
      * apply IH, Hstate.
    + destruct Hstate. apply scan_handler_ok; assumption.
  - apply Nat.ltb_ge in L.
    pose proof (emit_Good _ _ _ T_EOF HG) as [(Hi & Hf & HI & HT) _].
    pose proof (Inv_loff_le _ HI) as Hle. pose proof (Inv_no_nl _ HI) as Hno.
    unfold handle_line. destruct (Nat.leb_spec (loff (emit s T_EOF)) (pos (emit s T_EOF))); [|lia].
    cbn [scan_post toks_rev lines_rev]. split; [apply Forall_rev; assumption|].
    destruct HI as (Hpl & _ & _ & _ & Hsp). cbn [emit inp pos loff lines_rev] in *.
    assert (pos s = length (inp s)) by lia.
    rewrite <- Hi, Hsp. cbn [rev]. f_equal.
    rewrite skipn_slice_all. rewrite <- H0. symmetry. apply split_nl_no_nl. apply slice_no_nl; [lia|assumption].
Qed.

Lemma Good_init s0 file : Good s0 file (init_sc file s0).
Proof.
  split; [refine (conj eq_refl (conj eq_refl (conj (Inv_init file s0) _))); constructor|].
  split; cbn; [lia|apply no_nl_empty; lia].
Qed.

Lemma scan_ok lx file s : lexicon_ok lx = true -> forall fuel, scan_post s file (scan_with_fuel fuel lx file s).
Proof.
  intros Hlx fuel. unfold scan_with_fuel, scan_gen. apply scan_loop_ok; [|apply Good_init].
  intros t Gt. apply lex_initial_ok; [assumption|apply Gt].
Qed.

Lemma scan_expression_ok file s : forall fuel, scan_post s file (scan_expression_with_fuel fuel file s).
Proof.
  intros fuel. unfold scan_expression_with_fuel, scan_gen. apply scan_loop_ok; [|apply Good_init].
  intros t Gt. apply lex_expression_loop_ok, Gt.
Qed.

(* ------------------------------------------------------------------------------------------ *)
(** * Theorems *)

Lemma count_nl_firstn_le l a : count_nl (firstn a l) <= count_nl l.
Proof. rewrite <- (firstn_skipn a l) at 2. rewrite count_nl_app. lia. Qed.

(** C17_inv: the line-tracking invariant holds initially and is preserved by every scanner
    primitive ([accept_prefix], [backup], accept_opcode's [pos += 3] and lex_opcode's
    [pos = saved_pos] are the [set_pos] case: they move inside the current line). *)
Theorem scan_inv :
  (forall file s, Inv (init_sc file s)) /\
  (forall s, Inv s -> Inv (snd (next s))) /\
  (forall s c n, Inv s -> Inv (snd (accept s c n))) /\
  (forall c n F s s', Inv s -> accept_run F s c n = LOk s' -> Inv s') /\
  (forall s, Inv s -> Inv (ignore s)) /\
  (forall s ty, Inv s -> Inv (emit s ty)) /\
  (forall s p, Inv s -> p <= length (inp s) ->
               no_nl (inp s) (Nat.min p (pos s)) (Nat.max p (pos s)) -> Inv (set_pos s p)) /\
  (forall s, Inv s -> loff s <= pos s /\ no_nl (inp s) (loff s) (pos s)).
Proof.
  refine (conj Inv_init (conj next_Inv (conj _ (conj _ (conj _ (conj _ (conj Inv_move _))))))).
  - intros; apply accept_Inv; assumption.
  - intros; eapply accept_run_Inv; eauto.
  - intros; assumption.
  - intros; assumption.
  - intros s H. split; [apply Inv_loff_le|apply Inv_no_nl]; assumption.
Qed.

(** C17_token_pos: every non-comment token of a successful scan carries the closed-form line and
    column of the offset it was cut at, its value is the text found there, and [file.lines] is the
    text split at newlines — so [lines[line]] is that line's text. *)
Theorem token_pos_correct : forall tabs file s toks lines,
  lexicon_ok tabs = true -> scan tabs file s = ScanOk toks lines ->
  Forall (fun t => t_type t = T_COMMENT \/
                   exists off, tok_at s file off t /\
                               nth_error lines (line_of s off) = Some (line_text s (line_of s off))) toks.
Proof.
  intros lx file s toks lines Hlx E.
  pose proof (scan_ok lx file s Hlx (scan_fuel s)) as P. unfold scan in E. rewrite E in P.
  destruct P as [HT ->]. eapply Forall_impl; [|exact HT].
  intros t [Hc|(off & Hat)]; [left; assumption|right]. exists off. split; [assumption|].
  unfold line_text. apply nth_error_nth'. rewrite split_nl_length.
  unfold line_of. pose proof (count_nl_firstn_le s off). lia.
Qed.

Theorem scan_lines_correct : forall tabs file s toks lines,
  lexicon_ok tabs = true -> scan tabs file s = ScanOk toks lines -> lines = split_nl s.
Proof.
  intros lx file s toks lines Hlx E.
  pose proof (scan_ok lx file s Hlx (scan_fuel s)) as P. unfold scan in E. rewrite E in P. apply P.
Qed.

(** C17_lex_error: the Position of a ScannerException is the closed-form (line, column) of an
    offset [off] of the text, [off] is the start of the offending token as the code defines it
    ([site]: the rest of the input from [off] is the "Invalid Input" payload; [off] holds the
    opening quote of an unterminated string, the "/*" of an unterminated comment, the character
    after the "." that is not a size letter, the non-index character after ",", the first
    character of the unknown keyword after its "."), the tokens emitted before it are correctly placed,
    and the quoted line [position.get_line()] exists (no IndexError) and is the text of line
    [line] — exactly when the text contains no NUL, a prefix of it otherwise (the handler's
    [accept_run("\n\0", negate=True)] stops at a NUL). *)
Theorem lex_error_pos_correct : forall tabs file s e,
  lexicon_ok tabs = true -> scan tabs file s = ScanErr e ->
  Forall (tok_ok s file) (se_toks e) /\
  exists off, off <= length s /\ se_line e = Z.of_nat (line_of s off) /\ se_col e = col_of s off /\
              site s (se_msg e) off /\ quoted_ok s off (se_quoted e).
Proof.
  intros lx file s e Hlx E.
  pose proof (scan_ok lx file s Hlx (scan_fuel s)) as P. unfold scan in E. rewrite E in P. exact P.
Qed.

(** the same three facts for Scanner(lex_expression).scan (no table involved) *)
Theorem scan_expression_pos_correct : forall file s,
  scan_post s file (scan_expression file s).
Proof. intros. apply scan_expression_ok. Qed.

(** Non-vacuity: the closed forms on a two-line text *)
Example closed_forms_example :
  line_of [97;10;98;99]%Z 3 = 1 /\ col_of [97;10;98;99]%Z 3 = 1%Z /\ split_nl [97;10;98;99]%Z = [[97];[98;99]]%Z.
Proof. repeat split. Qed.

Print Assumptions scan_inv.
Print Assumptions token_pos_correct.
Print Assumptions scan_lines_correct.
Print Assumptions lex_error_pos_correct.
Print Assumptions scan_expression_pos_correct.
