(** Scanner proofs, part 3c (C16): prefix simulation.  [s1] ends with a newline.  While the scan of
    [s1] alone stays strictly inside [s1], the scan of [s1 ++ s2] does exactly the same: no state
    function looks past a newline (the last character of [s1]) except the blank run at the start
    of lex_initial and the two comment loops.  Needs [lexicon_ok] (a mnemonic containing a newline
    would let accept_opcode look across the line end). *)
From A816 Require Import Model.Scanner Proofs.ScannerSpec Proofs.ScannerFuel Proofs.ScannerPos Proofs.ScannerMono.
From Coq Require Import Arith Lia.
Open Scope nat_scope.

(** lex_initial = the leading blank run, then the rest *)
Definition lex_initial_rest (lx : lexicon) (F : nat) (s : sc) : lres sc :=
  let '(b, s1) := accept s [59%Z] false in
  if b then (dol s2 <- line_comment_loop F s1; LOk (emit s2 T_COMMENT)) else
  let '(b, s1) := accept s1 digits false in
  if b then lex_number F s1 else
  let '(b, s1) := accept s1 [43;45;38]%Z false in
  if b then LOk (emit s1 T_OPERATOR) else
  let '(b, s1) := accept_prefix s1 [61;61]%Z in
  if b then LOk (emit s1 T_OPERATOR) else
  let '(b, s1) := accept_prefix s1 [33;61]%Z in
  if b then LOk (emit s1 T_OPERATOR) else
  let '(b, s1) := accept_prefix s1 [62;62]%Z in
  if b then LOk (emit s1 T_OPERATOR) else
  let '(b, s1) := accept_prefix s1 [60;60]%Z in
  if b then LOk (emit s1 T_OPERATOR) else
  let '(b, s1) := accept_or (accept_or (accept_or (accept_prefix s1 [62%Z])
                                                  (fun s => accept_prefix s [60%Z]))
                                       (fun s => accept_prefix s [62;61]%Z))
                            (fun s => accept_prefix s [60;61]%Z) in
  if b then LOk (emit s1 T_OPERATOR) else
  let '(b, s1) := accept s1 ident_start false in
  if b then
    (dol s2 <- backup s1;
     let '(b, s3) := accept_opcode lx s2 in
     if b then lex_opcode F lx s3 else lex_identifier F s3) else
  let '(b, s1) := accept s1 [46%Z] false in
  if b then lex_keyword F lx s1 else
  let '(b, s1) := accept s1 [44%Z] false in
  if b then LOk (emit s1 T_COMMA) else
  let '(b, s1) := accept_prefix s1 [58;61]%Z in
  if b then LOk (emit s1 T_ASSIGN) else
  let '(b, s1) := accept_prefix s1 [64;61]%Z in
  if b then LOk (emit s1 T_AT_EQ) else
  let '(b, s1) := accept s1 [42%Z] false in
  if b then
    (let '(b, s2) := accept s1 [61%Z] false in
     if b then LOk (emit s2 T_STAR_EQ) else LOk (emit s2 T_OPERATOR)) else
  let '(b, s1) := accept s1 [39%Z] false in
  if b then lex_quoted_string F s1 else
  let '(b, s1) := accept s1 [40%Z] false in
  if b then LOk (emit s1 T_LPAREN) else
  let '(b, s1) := accept s1 [41%Z] false in
  if b then LOk (emit s1 T_RPAREN) else
  let '(b, s1) := accept s1 [91%Z] false in
  if b then LOk (emit s1 T_LBRAKET) else
  let '(b, s1) := accept s1 [93%Z] false in
  if b then LOk (emit s1 T_RBRAKET) else
  let '(b, s1) := accept s1 [123%Z] false in
  if b then
    (let '(b, s2) := accept s1 [123%Z] false in
     if b then LOk (emit s2 T_DOUBLE_LBRACE) else LOk (emit s2 T_LBRACE)) else
  let '(b, s1) := accept s1 [125%Z] false in
  if b then
    (let '(b, s2) := accept s1 [125%Z] false in
     if b then LOk (emit s2 T_DOUBLE_RBRACE) else LOk (emit s2 T_RBRACE)) else
  let '(b, s1) := accept s1 [61%Z] false in
  if b then LOk (emit s1 T_EQUAL) else
  let '(b, s1) := accept_prefix s1 [47;42]%Z in
  if b then
    (let p := get_position s1 in
     dol s2 <- block_comment_loop F p s1;
     LOk (emit s2 T_COMMENT)) else
  let '(c, s2) := next s1 in
  match c with
  | Some _ => raise (M_InvalidInput (skipn (start s2) (inp s2))) (get_position s2) s2
  | None => LOk s2
  end.

Lemma lex_initial_split lx F s :
  lex_initial lx F s = lbind (ignore_run F s blanks) (lex_initial_rest lx F).
Proof. reflexivity. Qed.

(** [start] is irrelevant to a run of accepts *)
Definition set_start (s : sc) (v : nat) : sc :=
  mk_sc (inp s) (pos s) v (loff s) (cline s) (lines_rev s) (toks_rev s) (fname s).

Lemma next_set_start s v : next (set_start s v) = (fst (next s), set_start (snd (next s)) v).
Proof.
  unfold next. cbn [set_start inp pos]. destruct (nth_error (inp s) (pos s)) as [c|]; [|reflexivity].
  cbn [fst snd]. f_equal. destruct (Z.eqb c 10); [|reflexivity].
  unfold handle_line. cbn [set_start loff pos]. destruct (loff s <=? pos s); reflexivity.
Qed.

Lemma accept_set_start s v c neg :
  accept (set_start s v) c neg = (fst (accept s c neg), set_start (snd (accept s c neg)) v).
Proof.
  unfold accept. change (peek (set_start s v)) with (peek s).
  destruct (xorb _ _); cbn [fst snd]; [rewrite next_set_start|]; reflexivity.
Qed.

Lemma ignore_run_set_start c : forall F s v, ignore_run F (set_start s v) c = ignore_run F s c.
Proof.
  unfold ignore_run.
  assert (G : forall F s v, lbind (accept_run F (set_start s v) c false) (fun s1 => LOk (ignore s1)) =
                            lbind (accept_run F s c false) (fun s1 => LOk (ignore s1))).
  { induction F as [|F IH]; intros s v; cbn [accept_run]; [reflexivity|].
    rewrite accept_set_start. destruct (accept s c false) as [b x]. cbn [fst snd].
    destruct b; [apply IH|reflexivity]. }
  exact G.
Qed.

(** at the end of input every test of lex_initial fails and it returns the state unchanged *)
Lemma accept_eof s c : length (inp s) <= pos s -> mem_z 0 c = false -> accept s c false = (false, s).
Proof. intros H Hc. unfold accept. rewrite (peek_eof s H), Hc. reflexivity. Qed.

Lemma accept_prefix_eof s p : length (inp s) <= pos s -> p <> [] -> accept_prefix s p = (false, s).
Proof.
  intros H Hp. unfold accept_prefix, slice. rewrite skipn_all2 by assumption. rewrite firstn_nil.
  destruct p; [congruence|reflexivity].
Qed.

Lemma next_eof s : length (inp s) <= pos s -> next s = (None, s).
Proof. intros H. unfold next. assert (E : nth_error (inp s) (pos s) = None) by (apply nth_error_None; assumption). rewrite E. reflexivity. Qed.

Lemma lex_initial_rest_eof lx F s : length (inp s) <= pos s -> lex_initial_rest lx F s = LOk s.
Proof.
  intros H. unfold lex_initial_rest, accept_or.
  repeat (first [ rewrite (accept_eof s _ H) by reflexivity
                | rewrite (accept_prefix_eof s _ H) by discriminate ]; cbn [fst snd]).
  rewrite (next_eof s H). reflexivity.
Qed.

Lemma str_eqb_false_by_nl (l p : str) j : j < length p -> nth j l 0%Z = 10%Z -> ~ In 10%Z p -> str_eqb l p = false.
Proof.
  intros Hj Hn Hp. destruct (str_eqb l p) eqn:E; [|reflexivity]. exfalso.
  apply str_eqb_true in E. subst l. apply Hp. rewrite <- Hn. apply nth_In. assumption.
Qed.

Section Prefix.
  Variable s1 s2 : str.
  Hypothesis Hend : exists a, s1 = a ++ [10%Z].
  Local Notation n := (length s1).

  Lemma n_pos : 1 <= n.
  Proof. destruct Hend as [a ->]. rewrite app_length. cbn. lia. Qed.

  Lemma last_nl : nth (n - 1) s1 0%Z = 10%Z.
  Proof.
    destruct Hend as [a ->]. rewrite app_length. cbn [length].
    replace (length a + 1 - 1) with (length a) by lia. apply nth_middle.
  Qed.

  Definition ext (t : sc) : sc :=
    mk_sc (inp t ++ s2) (pos t) (start t) (loff t) (cline t) (lines_rev t) (toks_rev t) (fname t).

  (** strictly inside [s1] *)
  Definition In_ (t : sc) : Prop := inp t = s1 /\ pos t < n.

  Lemma nth_ext i : i < n -> nth i (s1 ++ s2) 0%Z = nth i s1 0%Z.
  Proof. intros. apply app_nth1. assumption. Qed.
  Lemma nth_error_ext i : i < n -> nth_error (s1 ++ s2) i = nth_error s1 i.
  Proof. intros. apply nth_error_app1. assumption. Qed.

  Lemma skipn_app_le (l l' : str) a : a <= length l -> skipn a (l ++ l') = skipn a l ++ l'.
  Proof.
    revert a. induction l as [|x l IH]; intros a Ha; cbn in Ha.
    - assert (a = 0) by lia. subst a. reflexivity.
    - destruct a; cbn; [reflexivity|]. apply IH. lia.
  Qed.

  Lemma slice_ext a b : b <= n -> slice (s1 ++ s2) a b = slice s1 a b.
  Proof.
    intros Hb. unfold slice. destruct (Nat.le_gt_cases a n) as [Ha|Ha].
    - rewrite skipn_app_le by assumption. rewrite firstn_app.
      replace (b - a - length (skipn a s1)) with 0 by (rewrite skipn_length; lia).
      cbn. apply app_nil_r.
    - replace (b - a) with 0 by lia. reflexivity.
  Qed.

  Lemma In_peek t : In_ t -> peek (ext t) = peek t.
  Proof. intros [Hi Hp]. rewrite !peek_nth. cbn [ext inp pos]. rewrite Hi. apply nth_ext. assumption. Qed.

  Lemma ext_handle_line t : inp t = s1 -> pos t <= n -> handle_line (ext t) = ext (handle_line t).
  Proof.
    intros Hi Hp. unfold handle_line. cbn [ext loff pos inp]. destruct (loff t <=? pos t); [|reflexivity].
    unfold ext. cbn [inp pos start loff cline lines_rev toks_rev fname]. rewrite Hi, slice_ext by assumption. reflexivity.
  Qed.

  Lemma In_next t : In_ t -> next (ext t) = (fst (next t), ext (snd (next t))).
  Proof.
    intros [Hi Hp]. unfold next.
    change (inp (ext t)) with (inp t ++ s2). change (pos (ext t)) with (pos t).
    assert (E0 : nth_error (inp t ++ s2) (pos t) = nth_error (inp t) (pos t))
      by (apply nth_error_app1; rewrite Hi; assumption).
    rewrite E0. destruct (nth_error (inp t) (pos t)) as [c|] eqn:E; [|reflexivity]. cbn [fst snd]. f_equal.
    destruct (Z.eqb c 10); [rewrite ext_handle_line by (auto; lia)|]; reflexivity.
  Qed.

  (** after consuming a character that is not a newline we are still inside *)
  Lemma In_next_in t : In_ t -> peek t <> 10%Z -> In_ (snd (next t)).
  Proof.
    intros [Hi Hp] Hpk. pose proof (next_fields t) as (E1 & _ & _ & _ & _ & E6).
    split; [congruence|].
    assert (pos t <> n - 1). { intros E. apply Hpk. rewrite peek_nth, Hi, E. apply last_nl. }
    lia.
  Qed.

  Lemma In_accept t c neg : In_ t -> accept (ext t) c neg = (fst (accept t c neg), ext (snd (accept t c neg))).
  Proof.
    intros HI. unfold accept. rewrite In_peek by assumption.
    destruct (xorb _ _); cbn [fst snd]; [rewrite In_next by assumption|]; reflexivity.
  Qed.

  Lemma In_accept_in t c neg : mem_z 10 c = neg -> In_ t -> In_ (snd (accept t c neg)).
  Proof.
    intros Hc HI. unfold accept. destruct (xorb (mem_z (peek t) c) neg) eqn:X; cbn [snd]; [|assumption].
    apply In_next_in; [assumption|]. intros E. rewrite E, Hc, xorb_nilpotent in X. discriminate.
  Qed.

  Lemma ext_emit t ty : inp t = s1 -> pos t <= n -> emit (ext t) ty = ext (emit t ty).
  Proof.
    intros Hi Hp. unfold emit, ext, get_token, current_token_text, get_position.
    cbn [inp pos start loff cline lines_rev toks_rev fname]. rewrite Hi, slice_ext by assumption. reflexivity.
  Qed.
  Lemma In_emit t ty : In_ t -> emit (ext t) ty = ext (emit t ty).
  Proof. intros [Hi Hp]. apply ext_emit; [assumption|lia]. Qed.
  Lemma In_emit_in t ty : In_ t -> In_ (emit t ty).
  Proof. intros H; exact H. Qed.
  Lemma In_ignore_in t : In_ t -> In_ (ignore t).
  Proof. intros H; exact H. Qed.

  Lemma In_current_token_text t : inp t = s1 -> pos t <= n -> current_token_text (ext t) = current_token_text t.
  Proof. intros Hi Hp. unfold current_token_text. cbn [ext inp start pos]. rewrite Hi. apply slice_ext. assumption. Qed.

  (** accept_prefix of a prefix without newline: it cannot match across the last newline of s1 *)
  Lemma In_accept_prefix t p : ~ In 10%Z p -> In_ t ->
    accept_prefix (ext t) p = (fst (accept_prefix t p), ext (snd (accept_prefix t p))) /\
    In_ (snd (accept_prefix t p)).
  Proof.
    intros Hp [Hi Hlt]. unfold accept_prefix. cbn [ext inp pos]. rewrite Hi.
    destruct (Nat.le_gt_cases (pos t + length p) n) as [Hle|Hgt].
    - rewrite slice_ext by assumption.
      destruct (str_eqb (slice s1 (pos t) (pos t + length p)) p) eqn:E; cbn [fst snd].
      + split; [reflexivity|]. split; [exact Hi|]. cbn [pos set_pos].
        apply str_eqb_true in E.
        destruct (Nat.eq_dec (pos t + length p) n) as [En|]; [|lia]. exfalso.
        destruct (length p) as [|lp] eqn:El; [lia|].
        apply Hp. rewrite <- E. rewrite <- last_nl.
        replace (n - 1) with (pos t + lp) by lia. rewrite <- (nth_slice s1 (pos t) (pos t + S lp)) by lia.
        apply nth_In. rewrite slice_length by lia. lia.
      + split; [reflexivity|split; assumption].
    - assert (J : n - 1 - pos t < length p) by lia.
      assert (E1 : str_eqb (slice (s1 ++ s2) (pos t) (pos t + length p)) p = false).
      { apply (str_eqb_false_by_nl _ _ (n - 1 - pos t)); [assumption| |assumption].
        rewrite nth_slice by lia. replace (pos t + (n - 1 - pos t)) with (n - 1) by lia.
        rewrite nth_ext by (pose proof n_pos; lia). apply last_nl. }
      assert (E2 : str_eqb (slice s1 (pos t) (pos t + length p)) p = false).
      { apply (str_eqb_false_by_nl _ _ (n - 1 - pos t)); [assumption| |assumption].
        rewrite nth_slice by lia. replace (pos t + (n - 1 - pos t)) with (n - 1) by lia. apply last_nl. }
      rewrite E1, E2. cbn [fst snd]. split; [reflexivity|split; assumption].
  Qed.

  (** the OK outcomes of a state function on [s1] are reproduced on [s1 ++ s2], landing in [Q] *)
  Definition lpre (Q : sc -> Prop) (r r' : lres sc) : Prop :=
    match r with
    | LOk a => r' = LOk (ext a) /\ Q a
    | _ => True
    end.

  Lemma lpre_bind (Q Q' : sc -> Prop) r r' (h h' : sc -> lres sc) :
    lpre Q r r' -> (forall a, Q a -> lpre Q' (h a) (h' (ext a))) -> lpre Q' (lbind r h) (lbind r' h').
  Proof.
    destruct r as [a|m l c a| |]; cbn [lpre lbind]; auto.
    intros [-> Ha] H. apply H. assumption.
  Qed.

  Lemma lpre_weaken (Q Q' : sc -> Prop) r r' : lpre Q r r' -> (forall a, Q a -> Q' a) -> lpre Q' r r'.
  Proof. destruct r; cbn; auto. intros [? ?] HH; auto. Qed.

  Lemma lpre_ok (Q : sc -> Prop) a : Q a -> lpre Q (LOk a) (LOk (ext a)).
  Proof. intros; split; auto. Qed.

  (** runs that cannot consume a newline stay inside *)
  Lemma In_accept_run c neg : mem_z 10 c = neg -> forall F t, In_ t ->
    lpre In_ (accept_run F t c neg) (accept_run F (ext t) c neg).
  Proof.
    intros Hc. induction F as [|F IH]; intros t HI; cbn [accept_run]; [exact I|].
    rewrite In_accept by assumption. pose proof (In_accept_in t c neg Hc HI) as H1.
    destruct (accept t c neg) as [b x]. cbn [fst snd] in *.
    destruct b; [apply IH; assumption|split; [reflexivity|assumption]].
  Qed.

  Lemma In_ignore_run c F t : mem_z 10 c = false -> In_ t -> lpre In_ (ignore_run F t c) (ignore_run F (ext t) c).
  Proof.
    intros Hc HI. unfold ignore_run. eapply lpre_bind; [apply In_accept_run; eassumption|].
    intros a Ha. split; [reflexivity|exact Ha].
  Qed.

  Ltac in_run := apply In_accept_run; [reflexivity|assumption].

  Lemma In_not_last t : In_ t -> peek t <> 10%Z -> S (pos t) < n.
  Proof.
    intros [Hi Hp] Hpk.
    assert (pos t <> n - 1). { intros E. apply Hpk. rewrite peek_nth, Hi, E. apply last_nl. }
    lia.
  Qed.

  Lemma In_peek_k1 t : In_ t -> peek t <> 10%Z -> peek_k (ext t) 1 = peek_k t 1.
  Proof.
    intros HI Hpk. pose proof (In_not_last t HI Hpk). destruct HI as [Hi Hp].
    unfold peek_k. cbn [ext inp pos]. rewrite Hi. apply nth_ext. lia.
  Qed.

  Lemma In_lex_identifier F t : In_ t -> lpre In_ (lex_identifier F t) (lex_identifier F (ext t)).
  Proof.
    intros HI. unfold lex_identifier. eapply lpre_bind; [apply In_accept_run; [reflexivity|assumption]|].
    intros a Ha. rewrite (In_peek a Ha).
    assert (ELSE : lpre In_
      (dol s2 <- (if (peek a =? 46)%Z then accept_run F (snd (next a)) ident_chars false else LOk a); LOk (emit s2 T_IDENTIFIER))
      (dol s2 <- (if (peek a =? 46)%Z then accept_run F (snd (next (ext a))) ident_chars false else LOk (ext a)); LOk (emit s2 T_IDENTIFIER))).
    { eapply lpre_bind with (Q := In_).
      - destruct (peek a =? 46)%Z eqn:P46; [|apply lpre_ok; assumption].
        rewrite In_next by assumption. cbn [snd]. apply In_accept_run; [reflexivity|].
        apply In_next_in; [assumption|]. eapply peek_eqb_ne; eauto; discriminate.
      - intros b Hb. rewrite In_emit by assumption. apply lpre_ok. assumption. }
    destruct (peek a =? 58)%Z eqn:P58; [|exact ELSE].
    assert (Hne : peek a <> 10%Z) by (eapply peek_eqb_ne; eauto; discriminate).
    rewrite (In_peek_k1 a Ha Hne). cbn [andb].
    destruct (negb (peek_k a 1 =? 61)%Z); [|exact ELSE].
    rewrite In_emit by assumption. rewrite In_next by (apply In_emit_in; assumption). cbn [fst snd].
    apply lpre_ok. apply In_ignore_in, In_next_in; [apply In_emit_in; assumption|exact Hne].
  Qed.

  Lemma In_lex_number F t q : In_ t -> pos t = S q -> lpre In_ (lex_number F t) (lex_number F (ext t)).
  Proof.
    intros HI Hq. unfold lex_number, backup. change (pos (ext t)) with (pos t). rewrite Hq. cbn [lbind].
    change (set_pos (ext t) q) with (ext (set_pos t q)).
    assert (Hu : In_ (set_pos t q)) by (destruct HI; split; cbn; [assumption|lia]).
    rewrite In_next by assumption.
    assert (Hx : In_ (snd (next (set_pos t q)))).
    { pose proof (next_fields (set_pos t q)) as (E1 & _ & _ & _ & _ & E6). cbn in E1, E6.
      destruct HI. split; [congruence|lia]. }
    destruct (next (set_pos t q)) as [ch x]. cbn [fst snd] in *.
    rewrite In_peek by assumption.
    destruct ((peek x =? 10)%Z || (peek x =? 0)%Z) eqn:T.
    { rewrite In_emit by assumption. apply lpre_ok. assumption. }
    apply orb_false_iff in T as [T10 _]. apply Z.eqb_neq in T10.
    eapply lpre_bind with (Q := In_); [|intros b Hb; rewrite In_emit by assumption; apply lpre_ok; assumption].
    destruct (oz_is ch 48); [|in_run].
    rewrite In_next by assumption. pose proof (In_next_in x Hx T10) as Hy.
    destruct (next x) as [bp y]. cbn [fst snd] in *.
    destruct (oz_is bp 98); [in_run|]. destruct (oz_is bp 111); [in_run|]. destruct (oz_is bp 120); [in_run|].
    unfold backup. change (pos (ext y)) with (pos y). destruct (pos y) as [|py] eqn:Ey; [exact I|].
    change (set_pos (ext y) py) with (ext (set_pos y py)). apply lpre_ok.
    destruct Hy. split; cbn; [assumption|lia].
  Qed.

  (** quoted string: the loop state may sit on the boundary only right after reading the newline *)
  Definition Jq (c : option Z) (t : sc) : Prop :=
    inp t = s1 /\ pos t <= n /\ (forall x, c = Some x -> x <> 10%Z -> pos t < n).

  Lemma Jq_next u c' v : In_ u -> next u = (c', v) -> Jq c' v.
  Proof.
    intros HI N. pose proof (next_fields u) as (E1 & _ & _ & _ & _ & E6). rewrite N in *. cbn [snd] in *.
    destruct HI as [Hi Hp]. split; [congruence|]. split; [lia|].
    intros x -> Hx. pose proof (next_char _ _ _ N) as Hc.
    assert (Hpk : peek u <> 10%Z) by (rewrite peek_nth; congruence).
    pose proof (In_next_in u (conj Hi Hp) Hpk) as [_ H]. rewrite N in H. exact H.
  Qed.

  Lemma In_quoted_loop p : forall F c t, Jq c t -> lpre In_ (quoted_loop F p c t) (quoted_loop F p c (ext t)).
  Proof.
    induction F as [|F IH]; intros c t (Hi & Hp & Hc); cbn [quoted_loop]; [exact I|].
    destruct (oz_is c 39) eqn:C39.
    { destruct c as [x|]; [|discriminate]. cbn in C39. apply Z.eqb_eq in C39. subst x.
      assert (HI : In_ t) by (split; [assumption|apply (Hc 39%Z); [reflexivity|discriminate]]).
      rewrite In_emit by assumption. apply lpre_ok. assumption. }
    destruct (oz_is c 10 || match c with None => true | Some _ => false end) eqn:T; [exact I|].
    apply orb_false_iff in T as [T10 TN]. destruct c as [x|]; [|discriminate]. cbn in T10. apply Z.eqb_neq in T10.
    assert (HI : In_ t) by (split; [assumption|apply (Hc x); [reflexivity|assumption]]).
    rewrite In_peek by assumption.
    destruct (oz_is (Some x) 92 && (peek t =? 39)%Z) eqn:B.
    - apply andb_true_iff in B as [_ B].
      assert (Hu : In_ (snd (next t))) by (apply In_next_in; [assumption|eapply peek_eqb_ne; eauto; discriminate]).
      rewrite In_next by assumption. cbn [snd]. rewrite In_next by assumption.
      destruct (next (snd (next t))) as [c' v] eqn:N. cbn [fst snd]. apply IH. eapply Jq_next; eauto.
    - rewrite In_next by assumption.
      destruct (next t) as [c' v] eqn:N. cbn [fst snd]. apply IH. eapply Jq_next; eauto.
  Qed.

  Lemma In_lex_quoted_string F t : In_ t -> lpre In_ (lex_quoted_string F t) (lex_quoted_string F (ext t)).
  Proof.
    intros HI. unfold lex_quoted_string. change (get_position (ext t)) with (get_position t).
    rewrite In_next by assumption. destruct (next t) as [c v] eqn:N. cbn [fst snd].
    apply In_quoted_loop. eapply Jq_next; eauto.
  Qed.

  Definition At (t : sc) : Prop := inp t = s1 /\ pos t <= n.

  Lemma In_line_comment_loop : forall F t, In_ t -> lpre At (line_comment_loop F t) (line_comment_loop F (ext t)).
  Proof.
    induction F as [|F IH]; intros t HI; cbn [line_comment_loop]; [exact I|].
    rewrite In_next by assumption.
    pose proof (next_fields t) as (E1 & _ & _ & _ & _ & E6).
    destruct (next t) as [[x|] a] eqn:N; cbn [fst snd] in *.
    - destruct (Z.eqb_spec x 10) as [->|Hx].
      + apply lpre_ok. destruct HI. split; [congruence|lia].
      + apply IH. pose proof (next_char _ _ _ N) as Hc.
        assert (Hpk : peek t <> 10%Z) by (rewrite peek_nth; congruence).
        pose proof (In_next_in t HI Hpk) as H. rewrite N in H. exact H.
    - apply lpre_ok. destruct HI. split; [congruence|lia].
  Qed.

  Lemma In_block_comment_loop p : forall F t, At t ->
    lpre In_ (block_comment_loop F p t) (block_comment_loop F p (ext t)).
  Proof.
    induction F as [|F IH]; intros t [Hi Hp]; cbn [block_comment_loop]; [exact I|].
    destruct (Nat.eq_dec (pos t) n) as [En|Hne].
    - (* at the end of s1: the run on s1 fails *)
      assert (A : accept_prefix t [42%Z; 47%Z] = (false, t)).
      { unfold accept_prefix, slice. rewrite Hi, skipn_all2 by lia. destruct (_ - _); reflexivity. }
      rewrite A.
      assert (N : next t = (None, t)).
      { unfold next. rewrite Hi. assert (E : nth_error s1 (pos t) = None) by (apply nth_error_None; lia).
        rewrite E. reflexivity. }
      rewrite N. exact I.
    - assert (HI : In_ t) by (split; [assumption|lia]).
      destruct (In_accept_prefix t [42%Z; 47%Z]) as [E HI']; [cbn; intuition discriminate|assumption|].
      rewrite E. destruct (accept_prefix t [42%Z; 47%Z]) as [b x] eqn:A. cbn [fst snd] in *.
      destruct b; [apply lpre_ok; assumption|].
      apply accept_prefix_false in A. subst x.
      rewrite In_next by assumption.
      pose proof (next_fields t) as (E1 & _ & _ & _ & _ & E6).
      destruct (next t) as [[y|] z]; cbn [fst snd] in *; [|exact I].
      apply IH. split; [congruence|lia].
  Qed.

  Lemma In_or_prefix (r : bool * sc) p : ~ In 10%Z p -> In_ (snd r) ->
    accept_or (fst r, ext (snd r)) (fun s => accept_prefix s p) =
      (fst (accept_or r (fun s => accept_prefix s p)), ext (snd (accept_or r (fun s => accept_prefix s p)))) /\
    In_ (snd (accept_or r (fun s => accept_prefix s p))).
  Proof.
    intros Hp HI. unfold accept_or. destruct r as [b y]. cbn [fst snd] in *.
    destruct b; [split; [reflexivity|assumption]|apply In_accept_prefix; assumption].
  Qed.

  Lemma In_lex_expression_loop F : forall fuel t, In_ t ->
    lpre In_ (lex_expression_loop fuel F t) (lex_expression_loop fuel F (ext t)).
  Proof.
    induction fuel as [|fuel IH]; intros t HI; cbn [lex_expression_loop]; [exact I|].
    change (pos (ext t)) with (pos t). change (inp (ext t)) with (inp t ++ s2).
    assert (E1 : (pos t <? length (inp t)) = true) by (apply Nat.ltb_lt; destruct HI as [-> ?]; assumption).
    assert (E2 : (pos t <? length (inp t ++ s2)) = true)
      by (apply Nat.ltb_lt; rewrite app_length; destruct HI as [-> ?]; lia).
    rewrite E1, E2.
    eapply lpre_bind; [apply In_ignore_run; [reflexivity|assumption]|]. intros a Ha.
    rewrite In_accept by assumption. pose proof (In_accept_in a digits false eq_refl Ha) as H1.
    destruct (accept a digits false) as [b x] eqn:A1. cbn [fst snd] in *. destruct b.
    { pose proof (accept_true _ _ _ _ A1 eq_refl eq_refl) as (_ & Hp1 & _).
      eapply lpre_bind; [eapply In_lex_number; eauto|]. intros y Hy. apply IH, Hy. }
    apply accept_false in A1. subst x. clear H1.
    rewrite In_accept by assumption. pose proof (In_accept_in a ident_start false eq_refl Ha) as H1.
    destruct (accept a ident_start false) as [b x] eqn:A2. cbn [fst snd] in *. destruct b.
    { eapply lpre_bind; [apply In_lex_identifier; assumption|]. intros y Hy. apply IH, Hy. }
    apply accept_false in A2. subst x. clear H1.
    rewrite In_accept by assumption. pose proof (In_accept_in a expr_ops false eq_refl Ha) as H1.
    destruct (In_or_prefix (accept a expr_ops false) [60%Z;60%Z]) as [E3 H3]; [cbn; intuition discriminate|assumption|].
    rewrite E3.
    destruct (In_or_prefix (accept_or (accept a expr_ops false) (fun s => accept_prefix s [60%Z;60%Z])) [62%Z;62%Z])
      as [E4 H4]; [cbn; intuition discriminate|assumption|].
    rewrite E4.
    set (r := accept_or (accept_or (accept a expr_ops false) (fun s => accept_prefix s [60%Z;60%Z]))
                        (fun s => accept_prefix s [62%Z;62%Z])) in *.
    assert (Hr : fst r = false -> snd r = a).
    { subst r. unfold accept_or.
      destruct (accept a expr_ops false) as [b1 t1] eqn:B1. cbn [fst snd].
      destruct b1; cbn [fst snd]; [discriminate|].
      apply accept_false in B1. subst t1.
      destruct (accept_prefix a [60%Z;60%Z]) as [b2 t2] eqn:B2. cbn [fst snd].
      destruct b2; cbn [fst snd]; [discriminate|].
      apply accept_prefix_false in B2. subst t2.
      destruct (accept_prefix a [62%Z;62%Z]) as [b3 t3] eqn:B3. cbn [fst snd].
      destruct b3; [discriminate|]. apply accept_prefix_false in B3. subst t3. reflexivity. }
    destruct r as [b3 x3]. cbn [fst snd] in *. destruct b3.
    { rewrite In_emit by assumption. apply IH, In_emit_in. assumption. }
    specialize (Hr eq_refl). subst x3.
    rewrite In_accept by assumption. pose proof (In_accept_in a [40%Z] false eq_refl Ha) as H5.
    destruct (accept a [40%Z] false) as [b x] eqn:A4. cbn [fst snd] in *. destruct b.
    { rewrite In_emit by assumption. apply IH, In_emit_in. assumption. }
    apply accept_false in A4. subst x.
    rewrite In_accept by assumption. pose proof (In_accept_in a [41%Z] false eq_refl Ha) as H6.
    destruct (accept a [41%Z] false) as [b x] eqn:A5. cbn [fst snd] in *. destruct b.
    { rewrite In_emit by assumption. apply IH, In_emit_in. assumption. }
    apply lpre_ok. assumption.
  Qed.

  Lemma In_lex_opcode_index F t : In_ t -> lpre In_ (lex_opcode_index F t) (lex_opcode_index F (ext t)).
  Proof.
    intros HI. unfold lex_opcode_index.
    eapply lpre_bind; [apply (In_ignore_run [32%Z] F (ignore t)); [reflexivity|assumption]|]. intros a Ha.
    rewrite In_accept by assumption. pose proof (In_accept_in a index_chars false eq_refl Ha) as H1.
    destruct (accept a index_chars false) as [b x]. cbn [fst snd] in *.
    destruct b; [rewrite In_emit by assumption; apply lpre_ok; assumption|exact I].
  Qed.

  Lemma In_bracket t ty : In_ t -> peek t <> 10%Z ->
    emit (snd (next (ext t))) ty = ext (emit (snd (next t)) ty) /\ In_ (emit (snd (next t)) ty).
  Proof.
    intros HI Hpk. rewrite In_next by assumption. cbn [snd].
    pose proof (In_next_in t HI Hpk) as H. rewrite In_emit by assumption. split; [reflexivity|exact H].
  Qed.

  Lemma In_lex_operand F t : In_ t -> lpre In_ (lex_operand F t) (lex_operand F (ext t)).
  Proof.
    intros HI. unfold lex_operand. cbv zeta. rewrite (In_peek t HI).
    assert (G1 : exists x, In_ x /\
       (if (peek t =? 35)%Z then emit (snd (next t)) T_SHARP
        else if (peek t =? 40)%Z then emit (snd (next t)) T_LPAREN
        else if (peek t =? 91)%Z then emit (snd (next t)) T_LBRAKET else t) = x /\
       (if (peek t =? 35)%Z then emit (snd (next (ext t))) T_SHARP
        else if (peek t =? 40)%Z then emit (snd (next (ext t))) T_LPAREN
        else if (peek t =? 91)%Z then emit (snd (next (ext t))) T_LBRAKET else ext t) = ext x).
    { destruct (peek t =? 35)%Z eqn:P1.
      { destruct (In_bracket t T_SHARP HI) as [E H]; [eapply peek_eqb_ne; eauto; discriminate|]. eauto. }
      destruct (peek t =? 40)%Z eqn:P2.
      { destruct (In_bracket t T_LPAREN HI) as [E H]; [eapply peek_eqb_ne; eauto; discriminate|]. eauto. }
      destruct (peek t =? 91)%Z eqn:P3.
      { destruct (In_bracket t T_LBRAKET HI) as [E H]; [eapply peek_eqb_ne; eauto; discriminate|]. eauto. }
      eauto. }
    destruct G1 as (x1 & H1 & -> & ->).
    eapply lpre_bind; [apply In_ignore_run; [reflexivity|assumption]|]. intros x2 H2.
    eapply lpre_bind; [apply In_lex_expression_loop; assumption|]. intros x3 H3.
    eapply lpre_bind; [apply In_ignore_run; [reflexivity|assumption]|]. intros x4 H4.
    rewrite In_accept by assumption. pose proof (In_accept_in x4 [44%Z] false eq_refl H4) as H5.
    destruct (accept x4 [44%Z] false) as [b x5]. cbn [fst snd] in *.
    eapply lpre_bind with (Q := In_).
    { destruct b; [apply In_lex_opcode_index; assumption|apply lpre_ok; assumption]. }
    intros x6 H6. rewrite (In_peek x6 H6).
    assert (G7 : exists x, In_ x /\
       (if (peek x6 =? 41)%Z then emit (snd (next x6)) T_RPAREN
        else if (peek x6 =? 93)%Z then emit (snd (next x6)) T_RBRAKET else x6) = x /\
       (if (peek x6 =? 41)%Z then emit (snd (next (ext x6))) T_RPAREN
        else if (peek x6 =? 93)%Z then emit (snd (next (ext x6))) T_RBRAKET else ext x6) = ext x).
    { destruct (peek x6 =? 41)%Z eqn:P1.
      { destruct (In_bracket x6 T_RPAREN H6) as [E H]; [eapply peek_eqb_ne; eauto; discriminate|]. eauto. }
      destruct (peek x6 =? 93)%Z eqn:P2.
      { destruct (In_bracket x6 T_RBRAKET H6) as [E H]; [eapply peek_eqb_ne; eauto; discriminate|]. eauto. }
      eauto. }
    destruct G7 as (x7 & H7 & -> & ->).
    eapply lpre_bind; [apply In_ignore_run; [reflexivity|assumption]|]. intros x8 H8.
    rewrite In_accept by assumption. pose proof (In_accept_in x8 [44%Z] false eq_refl H8) as H9.
    destruct (accept x8 [44%Z] false) as [b' x9]. cbn [fst snd] in *.
    destruct b'; [apply In_lex_opcode_index; assumption|apply lpre_ok; assumption].
  Qed.

  Lemma In_lex_opcode_size F t : In_ t -> lpre In_ (lex_opcode_size F t) (lex_opcode_size F (ext t)).
  Proof.
    intros HI. unfold lex_opcode_size. cbv zeta.
    change (ignore (ext t)) with (ext (ignore t)).
    rewrite In_accept by assumption. pose proof (In_accept_in (ignore t) size_chars false eq_refl HI) as H1.
    destruct (accept (ignore t) size_chars false) as [b x]. cbn [fst snd] in *.
    destruct b; [|exact I].
    rewrite In_emit by assumption.
    eapply lpre_bind; [apply In_ignore_run; [reflexivity|apply In_emit_in; assumption]|]. intros y Hy.
    apply In_lex_operand. assumption.
  Qed.

  Lemma In_lex_opcode_tail F t : In_ t -> lpre In_ (lex_opcode_tail F t) (lex_opcode_tail F (ext t)).
  Proof.
    intros HI. unfold lex_opcode_tail.
    rewrite In_accept by assumption. pose proof (In_accept_in t [46%Z] false eq_refl HI) as H1.
    destruct (accept t [46%Z] false) as [b x]. cbn [fst snd] in *.
    eapply lpre_bind with (Q := In_).
    { destruct b; [apply In_lex_opcode_size; assumption|apply lpre_ok; assumption]. }
    intros y Hy. eapply lpre_bind; [apply In_ignore_run; [reflexivity|assumption]|]. intros z Hz.
    apply In_lex_operand. assumption.
  Qed.

  Lemma In_cand t : In_ t -> slice (inp (ext t)) (start (ext t)) (pos (ext t)) = slice (inp t) (start t) (pos t).
  Proof. intros [Hi Hp]. cbn [ext inp start pos]. rewrite Hi. apply slice_ext. lia. Qed.

  Lemma In_lex_opcode F lx t : In_ t -> lpre In_ (lex_opcode F lx t) (lex_opcode F lx (ext t)).
  Proof.
    intros HI. unfold lex_opcode. cbv zeta. rewrite (In_cand t HI), (In_peek t HI).
    destruct (_ && _).
    - eapply lpre_bind; [apply In_accept_run; [reflexivity|assumption]|]. intros x1 H1.
      rewrite In_accept by assumption. pose proof (In_accept_in x1 [59%Z] false eq_refl H1) as H2.
      destruct (accept x1 [59%Z] false) as [b x2]. cbn [fst snd] in *.
      eapply lpre_bind with (Q := In_).
      { destruct b; [apply In_accept_run; [reflexivity|assumption]|apply lpre_ok; assumption]. }
      intros x3 H3. rewrite (In_peek x3 H3).
      change (set_pos (ext x3) (pos (ext t))) with (ext (set_pos x3 (pos t))).
      assert (H4 : In_ (set_pos x3 (pos t))) by (destruct HI, H3; split; cbn; assumption).
      destruct (_ || _).
      + rewrite In_emit by assumption. apply lpre_ok. assumption.
      + rewrite In_emit by assumption. apply In_lex_opcode_tail. assumption.
    - rewrite In_emit by assumption. apply In_lex_opcode_tail. assumption.
  Qed.

  Lemma In_lex_keyword F lx t : In_ t -> lpre In_ (lex_keyword F lx t) (lex_keyword F lx (ext t)).
  Proof.
    intros HI. unfold lex_keyword. cbv zeta. change (ignore (ext t)) with (ext (ignore t)).
    eapply lpre_bind; [apply In_accept_run; [reflexivity|exact HI]|]. intros x Hx.
    rewrite In_current_token_text by (destruct Hx; auto; lia).
    destruct (mem_str _ _); [|exact I].
    rewrite In_emit by assumption. apply lpre_ok. assumption.
  Qed.

  Lemma lower_10 : lower 10 = 10%Z. Proof. reflexivity. Qed.

  Lemma In_accept_opcode lx t : lexicon_ok lx = true -> In_ t -> start t = pos t ->
    accept_opcode lx (ext t) = (fst (accept_opcode lx t), ext (snd (accept_opcode lx t))) /\
    In_ (snd (accept_opcode lx t)).
  Proof.
    intros Hlx [Hi Hp] Hst. unfold accept_opcode. cbn [ext inp start pos]. rewrite Hi, Hst.
    assert (NL : forall cand, In 10%Z cand -> mem_str cand (lx_mnemonics lx) = false).
    { intros cand Hin. destruct (mem_str cand (lx_mnemonics lx)) eqn:M; [|reflexivity]. exfalso.
      unfold mem_str in M. apply existsb_exists in M as (m & Hm & E). apply str_eqb_true in E. subst m.
      unfold lexicon_ok in Hlx. rewrite forallb_forall in Hlx. specialize (Hlx cand Hm).
      apply andb_true_iff in Hlx as [_ H]. apply negb_true_iff in H.
      apply mem_z_In in Hin. congruence. }
    destruct (Nat.lt_ge_cases (pos t + 3) n) as [Hlt|Hge].
    - rewrite slice_ext by lia.
      assert (PK : peek_k (ext t) 3 = peek_k t 3)
        by (unfold peek_k; cbn [ext inp pos]; rewrite Hi; apply nth_ext; lia).
      rewrite PK.
      destruct (mem_str (map lower (slice s1 (pos t) (pos t + 3))) (lx_mnemonics lx) &&
                mem_z (peek_k t 3) [32; 10; 9; 46; 0]%Z); cbn [fst snd];
        (split; [reflexivity|]); split; cbn; auto; lia.
    - assert (J : n - 1 - pos t < 3) by lia.
      rewrite (NL (map lower (slice (s1 ++ s2) (pos t) (pos t + 3)))).
      2:{ rewrite <- lower_10. apply in_map. rewrite <- last_nl, <- (nth_ext (n - 1)) by (pose proof n_pos; lia).
          replace (n - 1) with (pos t + (n - 1 - pos t)) at 1 by lia.
          rewrite <- (nth_slice (s1 ++ s2) (pos t) (pos t + 3)) by lia.
          apply nth_In. unfold slice. rewrite firstn_length, skipn_length, app_length. lia. }
      rewrite (NL (map lower (slice s1 (pos t) (pos t + 3)))).
      2:{ rewrite <- lower_10. apply in_map. rewrite <- last_nl.
          replace (n - 1) with (pos t + (n - 1 - pos t)) at 1 by lia.
          rewrite <- (nth_slice s1 (pos t) (pos t + 3)) by lia.
          apply nth_In. unfold slice. rewrite firstn_length, skipn_length. lia. }
      cbn [andb fst snd]. split; [reflexivity|split; assumption].
  Qed.

  (** ** lex_initial *)
  Definition Qf (u : sc) : Prop := inp u = s1 /\ (pos u < n \/ (pos u = n /\ start u = n)).
  Lemma Qf_in u : In_ u -> Qf u.
  Proof. intros [? ?]. split; auto. Qed.

  Ltac chain3 HI A x HX :=
    match goal with
    | |- lpre _ (let '(b, s1) := accept ?s ?c false in _) _ =>
        rewrite (In_accept s c false HI);
        pose proof (In_accept_in s c false eq_refl HI) as HX;
        destruct (accept s c false) as [[|] x] eqn:A; cbn [fst snd] in HX |- *;
        [ | apply accept_false in A; subst x; clear HX ]
    | |- lpre _ (let '(b, s1) := accept_prefix ?s ?c in _) _ =>
        let E := fresh "E" in
        destruct (In_accept_prefix s c ltac:(cbn; intuition discriminate) HI) as [E HX];
        rewrite E; clear E;
        destruct (accept_prefix s c) as [[|] x] eqn:A; cbn [fst snd] in HX |- *;
        [ | apply accept_prefix_false in A; subst x; clear HX ]
    end.
  Ltac ok_emit HX := rewrite In_emit by exact HX; apply lpre_ok, Qf_in; exact HX.

  Lemma In_lex_initial_rest lx F t : lexicon_ok lx = true -> In_ t -> start t = pos t ->
    lpre Qf (lex_initial_rest lx F t) (lex_initial_rest lx F (ext t)).
  Proof.
    intros Hlx HI Hst. unfold lex_initial_rest.
    chain3 HI A x HX.
    { eapply lpre_bind; [apply In_line_comment_loop; exact HX|]. intros a [Ha Hp].
      rewrite ext_emit by assumption. apply lpre_ok. split; [exact Ha|]. cbn [emit pos start]. lia. }
    chain3 HI A x HX.
    { pose proof (accept_true _ _ _ _ A eq_refl eq_refl) as (_ & Hp1 & _).
      eapply lpre_weaken; [eapply In_lex_number; eauto|apply Qf_in]. }
    chain3 HI A x HX; [ok_emit HX|].
    chain3 HI A x HX; [ok_emit HX|].
    chain3 HI A x HX; [ok_emit HX|].
    chain3 HI A x HX; [ok_emit HX|].
    chain3 HI A x HX; [ok_emit HX|].
    (* the comparison operators *)
    destruct (In_accept_prefix t [62%Z] ltac:(cbn; intuition discriminate) HI) as [E0 H0]. rewrite E0. clear E0.
    destruct (In_or_prefix (accept_prefix t [62%Z]) [60%Z]) as [E1 H1]; [cbn; intuition discriminate|assumption|].
    rewrite E1. clear E1.
    destruct (In_or_prefix (accept_or (accept_prefix t [62%Z]) (fun s => accept_prefix s [60%Z])) [62%Z;61%Z])
      as [E2 H2]; [cbn; intuition discriminate|assumption|].
    rewrite E2. clear E2.
    destruct (In_or_prefix (accept_or (accept_or (accept_prefix t [62%Z]) (fun s => accept_prefix s [60%Z]))
                                      (fun s => accept_prefix s [62%Z;61%Z])) [60%Z;61%Z])
      as [E3 H3]; [cbn; intuition discriminate|assumption|].
    rewrite E3. clear E3.
    set (r := accept_or (accept_or (accept_or (accept_prefix t [62%Z]) (fun s => accept_prefix s [60%Z]))
                                   (fun s => accept_prefix s [62%Z;61%Z])) (fun s => accept_prefix s [60%Z;61%Z])) in *.
    assert (Hr : fst r = false -> snd r = t).
    { subst r. unfold accept_or.
      destruct (accept_prefix t [62%Z]) as [b1 t1] eqn:B1. cbn [fst snd].
      destruct b1; cbn [fst snd]; [discriminate|]. apply accept_prefix_false in B1; subst t1.
      destruct (accept_prefix t [60%Z]) as [b1 t1] eqn:B1. cbn [fst snd].
      destruct b1; cbn [fst snd]; [discriminate|]. apply accept_prefix_false in B1; subst t1.
      destruct (accept_prefix t [62%Z;61%Z]) as [b1 t1] eqn:B1. cbn [fst snd].
      destruct b1; cbn [fst snd]; [discriminate|]. apply accept_prefix_false in B1; subst t1.
      destruct (accept_prefix t [60%Z;61%Z]) as [b1 t1] eqn:B1. cbn [fst snd].
      destruct b1; cbn [fst snd]; [discriminate|]. apply accept_prefix_false in B1; subst t1. reflexivity. }
    clear H0 H1 H2. destruct r as [b8 x8]. cbn [fst snd] in *. destruct b8; [ok_emit H3|].
    specialize (Hr eq_refl). subst x8. clear H3.
    chain3 HI A x HX.
    { (* a letter *)
      pose proof (accept_true _ _ _ _ A eq_refl eq_refl) as (Hi1 & Hp1 & _ & _ & Hs1 & _).
      unfold backup. change (pos (ext x)) with (pos x). rewrite Hp1. cbn [lbind].
      change (set_pos (ext x) (pos t)) with (ext (set_pos x (pos t))).
      assert (Hu : In_ (set_pos x (pos t))) by (destruct HI; split; cbn; [congruence|assumption]).
      destruct (In_accept_opcode lx (set_pos x (pos t)) Hlx Hu) as [E Hv]; [cbn; congruence|].
      rewrite E. destruct (accept_opcode lx (set_pos x (pos t))) as [b v]. cbn [fst snd] in *.
      destruct b; (eapply lpre_weaken; [|apply Qf_in]); [apply In_lex_opcode|apply In_lex_identifier]; assumption. }
    chain3 HI A x HX; [eapply lpre_weaken; [apply In_lex_keyword; assumption|apply Qf_in]|].
    chain3 HI A x HX; [ok_emit HX|].
    chain3 HI A x HX; [ok_emit HX|].
    chain3 HI A x HX; [ok_emit HX|].
    chain3 HI A x HX.
    { rewrite (In_accept x [61%Z] false HX). pose proof (In_accept_in x [61%Z] false eq_refl HX) as HY.
      destruct (accept x [61%Z] false) as [[|] y]; cbn [fst snd] in *; ok_emit HY. }
    chain3 HI A x HX; [eapply lpre_weaken; [apply In_lex_quoted_string; assumption|apply Qf_in]|].
    chain3 HI A x HX; [ok_emit HX|].
    chain3 HI A x HX; [ok_emit HX|].
    chain3 HI A x HX; [ok_emit HX|].
    chain3 HI A x HX; [ok_emit HX|].
    chain3 HI A x HX.
    { rewrite (In_accept x [123%Z] false HX). pose proof (In_accept_in x [123%Z] false eq_refl HX) as HY.
      destruct (accept x [123%Z] false) as [[|] y]; cbn [fst snd] in *; ok_emit HY. }
    chain3 HI A x HX.
    { rewrite (In_accept x [125%Z] false HX). pose proof (In_accept_in x [125%Z] false eq_refl HX) as HY.
      destruct (accept x [125%Z] false) as [[|] y]; cbn [fst snd] in *; ok_emit HY. }
    chain3 HI A x HX; [ok_emit HX|].
    chain3 HI A x HX.
    { cbv zeta. change (get_position (ext x)) with (get_position x).
      eapply lpre_bind; [apply In_block_comment_loop; destruct HX; split; [assumption|lia]|].
      intros a Ha. ok_emit Ha. }
    rewrite In_next by assumption.
    destruct (next t) as [[c|] v] eqn:N; cbn [fst snd]; [exact I|].
    apply next_none in N as [-> N]. destruct HI as [Hi Hp]. rewrite Hi in N. lia.
  Qed.

  (** a run of accepts that stops strictly inside s1 stops there on s1 ++ s2 too *)
  Lemma accept_run_ext_in c neg : forall F t a, In_ t -> accept_run F t c neg = LOk a -> pos a < n ->
    accept_run F (ext t) c neg = LOk (ext a).
  Proof.
    induction F as [|F IH]; intros t a HI; cbn [accept_run]; [discriminate|].
    rewrite In_accept by assumption.
    pose proof (accept_fields t c neg) as (E1 & _ & _ & _ & _ & _).
    destruct (accept t c neg) as [b x] eqn:A. cbn [fst snd] in *. destruct b.
    - intros H Hp. apply IH; [|assumption|assumption].
      pose proof (accept_run_fields _ _ _ _ _ H) as (_ & _ & _ & _ & Hle & _).
      destruct HI. split; [congruence|lia].
    - intros H _. injection H as <-. reflexivity.
  Qed.

  (** a plain run that reaches the end of s1 on s1 alone: on s1 ++ s2 it goes on from there *)
  Lemma accept_run_to_end c : mem_z 0 c = false -> forall F t a, inp t = s1 -> pos t <= n ->
    accept_run F t c false = LOk a -> pos a = n ->
    exists f, f + (n - pos t) = F /\ accept_run F (ext t) c false = accept_run f (ext a) c false.
  Proof.
    intros Hc. induction F as [|F IH]; intros t a Hi Hp; cbn [accept_run]; [discriminate|].
    destruct (Nat.eq_dec (pos t) n) as [En|Hne].
    - rewrite (accept_eof t c) by (first [assumption | rewrite Hi; lia]).
      intros H _. injection H as <-. exists (S F). split; [lia|reflexivity].
    - assert (HI : In_ t) by (split; [assumption|lia]).
      rewrite In_accept by assumption.
      destruct (accept t c false) as [b x] eqn:A. cbn [fst snd]. destruct b.
      + pose proof (accept_true _ _ _ _ A Hc eq_refl) as (Hi1 & Hp1 & _).
        intros H Hn. destruct (IH x a) as (f & Hf & E); [congruence|lia|assumption|assumption|].
        exists f. split; [lia|exact E].
      + intros H Hn. injection H as <-. apply accept_false in A. subst x. lia.
  Qed.

  Lemma In_lex_initial lx F t u : lexicon_ok lx = true -> length (s1 ++ s2) + 2 <= F ->
    In_ t -> Inv t -> lex_initial lx F t = LOk u ->
    inp u = s1 /\
    ((pos u < n /\ lex_initial lx F (ext t) = LOk (ext u)) \/
     (pos u = n /\ start u = n /\
      (lex_initial lx F (ext t) = LOk (ext u) \/ lex_initial lx F (ext t) = lex_initial lx F (ext u)))).
  Proof.
    intros Hlx HF HI HInv H. rewrite lex_initial_split in H. rewrite (lex_initial_split lx F (ext t)).
    unfold ignore_run in *.
    destruct (accept_run F t blanks false) as [a0| | |] eqn:R; cbn [lbind] in H; try discriminate.
    pose proof (accept_run_fields _ _ _ _ _ R) as (Hi0 & _ & _ & _ & Hle0 & _).
    pose proof (accept_run_Inv _ _ _ _ _ HInv R) as (Hlen0 & _).
    destruct HI as [Hi Hp]. rewrite Hi0, Hi in Hlen0.
    destruct (Nat.eq_dec (pos a0) n) as [En|Hne].
    - (* the blank run reached the end of s1 *)
      rewrite lex_initial_rest_eof in H by (cbn [ignore inp pos]; rewrite Hi0, Hi; lia).
      injection H as <-. split; [cbn; congruence|]. right. cbn [ignore pos start]. split; [assumption|]. split; [assumption|].
      right. rewrite (lex_initial_split lx F (ext (ignore a0))).
      destruct (accept_run_to_end blanks eq_refl F t a0) as (f & Hf & E); [assumption|lia|assumption|assumption|].
      rewrite E.
      change (ext (ignore a0)) with (set_start (ext a0) (pos a0)).
      rewrite ignore_run_set_start. unfold ignore_run.
      destruct (accept_run_mono blanks false f F (ext a0)) as [Eo|Em]; [lia| |rewrite Em; reflexivity].
      exfalso.
      pose proof (accept_run_post blanks false eq_refl f (ext a0) (s1 ++ s2) 0) as P.
      rewrite Eo in P. apply P; [|split; [cbn; congruence|lia]].
      cbn [ext pos]. rewrite app_length in *. lia.
    - assert (HI0 : In_ a0) by (split; [congruence|lia]).
      rewrite (accept_run_ext_in blanks false F t a0 (conj Hi Hp) R) by lia. cbn [lbind].
      change (ignore (ext a0)) with (ext (ignore a0)).
      pose proof (In_lex_initial_rest lx F (ignore a0) Hlx HI0 eq_refl) as P.
      rewrite H in P. destruct P as [E [Hiu Hq]]. split; [assumption|].
      destruct Hq as [Hq|[Hq1 Hq2]]; [left; auto|right; auto].
  Qed.
End Prefix.
