(** Scanner theorems (model: Model/Scanner.v; specification: Proofs/ScannerSpec.v).

    C15 (ScannerFuel.v, no condition on the tables):
      [scan_fuel_sufficient], [scan_expression_fuel_sufficient], [scan_res_fuel_sufficient],
      [scan_never_stuck], [accept_run_negated_without_nul_spins] (why the "\0" in
      [accept_run("\n\0", negate=True)] matters).
    C17 (ScannerPos.v, under [lexicon_ok tabs = true], discharged on the live table each run):
      [scan_inv], [token_pos_correct], [scan_lines_correct], [lex_error_pos_correct],
      [scan_expression_pos_correct]. *)
From A816 Require Export Model.Scanner Proofs.ScannerSpec Proofs.ScannerFuel Proofs.ScannerPos.
