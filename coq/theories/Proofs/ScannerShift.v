(** Scanner proofs, part 3b (C16): shift simulation.  A scanner state over a text [x] and the
    same state transplanted after a prefix [s1] (all offsets + |s1|, current line + k, earlier
    lines and tokens underneath) evolve in lock step: every state function commutes with the
    transplantation [sh].  No condition on the lexicon or on [s1]. *)
From A816 Require Import Model.Scanner Proofs.ScannerSpec Proofs.ScannerFuel.
From Coq Require Import Arith Lia.
Open Scope nat_scope.

(** a token reported [k] lines further down (column, value, type, file unchanged) *)
Definition shift_tok (k : nat) (t : token) : token :=
  {| t_type := t_type t; t_value := t_value t;
     t_pos := option_map (fun p => {| tp_line := (tp_line p + Z.of_nat k)%Z; tp_col := tp_col p;
                                      tp_file := tp_file p |}) (t_pos t) |}.

(** a scan result seen after [k] more lines [L] carrying the tokens [T] *)
Definition shift_result (k : nat) (T : list token) (L : list str) (r : scan_result) : scan_result :=
  match r with
  | ScanOk toks lines => ScanOk (T ++ map (shift_tok k) toks) (L ++ lines)
  | ScanErr e => ScanErr (mk_scan_error (se_msg e) (se_line e + Z.of_nat k)%Z (se_col e) (se_quoted e)
                                         (L ++ se_lines e) (T ++ map (shift_tok k) (se_toks e)))
  | ScanStuck => ScanStuck
  | ScanOutOfFuel => ScanOutOfFuel
  end.

Section Shift.
  Variable s1 : str.
  Variable k : nat.
  Variable Lrev : list str.
  Variable Trev : list token.
  Local Notation n := (length s1).

  Definition sh (t : sc) : sc :=
    mk_sc (s1 ++ inp t) (n + pos t) (n + start t) (n + loff t) (k + cline t)
          (lines_rev t ++ Lrev) (map (shift_tok k) (toks_rev t) ++ Trev) (fname t).

  Lemma nth_error_app_shift (l : str) i : nth_error (s1 ++ l) (n + i) = nth_error l i.
  Proof. rewrite nth_error_app2 by lia. f_equal. lia. Qed.

  Lemma skipn_app_shift (l : str) a : skipn (n + a) (s1 ++ l) = skipn a l.
  Proof. induction s1 as [|x r IH]; cbn; [reflexivity|exact IH]. Qed.

  Lemma slice_app_shift (l : str) a b : slice (s1 ++ l) (n + a) (n + b) = slice l a b.
  Proof. unfold slice. rewrite skipn_app_shift. f_equal. lia. Qed.

  Lemma sh_pos t : pos (sh t) = n + pos t. Proof. reflexivity. Qed.
  Lemma sh_set_pos t p : set_pos (sh t) (n + p) = sh (set_pos t p). Proof. reflexivity. Qed.
  Lemma sh_ignore t : ignore (sh t) = sh (ignore t). Proof. reflexivity. Qed.

  Lemma sh_handle_line t : handle_line (sh t) = sh (handle_line t).
  Proof.
    unfold handle_line. cbn [sh loff pos inp start cline lines_rev toks_rev fname].
    destruct (Nat.leb_spec (loff t) (pos t)) as [E1|E1]; destruct (Nat.leb_spec (length s1 + loff t) (length s1 + pos t)) as [E2|E2]; try lia; [|reflexivity].
    unfold sh. cbn [inp pos start loff cline lines_rev toks_rev fname].
    rewrite slice_app_shift. f_equal; lia.
  Qed.

  Lemma sh_next t : next (sh t) = (fst (next t), sh (snd (next t))).
  Proof.
    unfold next. cbn [sh inp pos]. rewrite nth_error_app_shift.
    destruct (nth_error (inp t) (pos t)) as [c|]; [|reflexivity]. cbn [fst snd]. f_equal.
    change (mk_sc (s1 ++ inp t) (n + pos t) (n + start t) (n + loff t) (k + cline t)
                  (lines_rev t ++ Lrev) (map (shift_tok k) (toks_rev t) ++ Trev) (fname t)) with (sh t).
    replace (S (n + pos t)) with (n + S (pos t)) by lia.
    destruct (Z.eqb c 10); [rewrite sh_handle_line|]; apply sh_set_pos.
  Qed.

  Lemma sh_peek_k t j : peek_k (sh t) j = peek_k t j.
  Proof. unfold peek_k. cbn [sh inp pos]. rewrite <- Nat.add_assoc. apply app_nth2_plus. Qed.
  Lemma sh_peek t : peek (sh t) = peek t.
  Proof. apply sh_peek_k. Qed.

  Lemma sh_accept t c neg : accept (sh t) c neg = (fst (accept t c neg), sh (snd (accept t c neg))).
  Proof. unfold accept. rewrite sh_peek. destruct (xorb _ _); cbn [fst snd]; [rewrite sh_next|]; reflexivity. Qed.

  Lemma sh_accept_prefix t p : accept_prefix (sh t) p = (fst (accept_prefix t p), sh (snd (accept_prefix t p))).
  Proof.
    unfold accept_prefix. cbn [sh inp pos]. rewrite <- Nat.add_assoc, slice_app_shift.
    destruct (str_eqb _ _); reflexivity.
  Qed.

  Lemma sh_get_position t : get_position (sh t) = ((fst (get_position t) + Z.of_nat k)%Z, snd (get_position t)).
  Proof. unfold get_position. cbn [sh cline start loff fst snd]. f_equal; lia. Qed.

  Lemma sh_current_token_text t : current_token_text (sh t) = current_token_text t.
  Proof. unfold current_token_text. cbn [sh inp start pos]. apply slice_app_shift. Qed.
  Lemma sh_cand t : slice (inp (sh t)) (start (sh t)) (pos (sh t)) = slice (inp t) (start t) (pos t).
  Proof. apply sh_current_token_text. Qed.
  Lemma sh_cand3 t : slice (inp (sh t)) (start (sh t)) (pos (sh t) + 3) = slice (inp t) (start t) (pos t + 3).
  Proof. cbn [sh inp start pos]. rewrite <- Nat.add_assoc. apply slice_app_shift. Qed.
  Lemma sh_rest t : skipn (start (sh t)) (inp (sh t)) = skipn (start t) (inp t).
  Proof. cbn [sh inp start]. apply skipn_app_shift. Qed.
  Lemma sh_not_at_end t : (pos (sh t) <? length (inp (sh t))) = (pos t <? length (inp t)).
  Proof.
    cbn [sh inp pos]. rewrite app_length.
    destruct (Nat.ltb_spec (pos t) (length (inp t))) as [E1|E1]; destruct (Nat.ltb_spec (length s1 + pos t) (length s1 + length (inp t))) as [E2|E2]; auto; lia.
  Qed.

  Lemma sh_get_token t ty : get_token (sh t) ty = shift_tok k (get_token t ty).
  Proof.
    unfold get_token, shift_tok. cbn [t_type t_value t_pos option_map tp_line tp_col tp_file].
    rewrite sh_current_token_text, sh_get_position. reflexivity.
  Qed.

  Lemma sh_emit t ty : emit (sh t) ty = sh (emit t ty).
  Proof. unfold emit. rewrite sh_get_token. reflexivity. Qed.

  Lemma sh_accept_opcode lx t : accept_opcode lx (sh t) = (fst (accept_opcode lx t), sh (snd (accept_opcode lx t))).
  Proof.
    unfold accept_opcode. rewrite sh_cand3, sh_peek_k.
    destruct (_ && _); cbn [fst snd]; [|reflexivity]. f_equal.
    rewrite sh_pos, <- Nat.add_assoc. apply sh_set_pos.
  Qed.

  Lemma sh_accept_or r (f f' : sc -> bool * sc) :
    (forall x, f' (sh x) = (fst (f x), sh (snd (f x)))) ->
    accept_or (fst r, sh (snd r)) f' = (fst (accept_or r f), sh (snd (accept_or r f))).
  Proof. intros H. unfold accept_or. destruct r as [b y]. cbn [fst snd]. destruct b; [reflexivity|apply H]. Qed.

  Lemma sh_or_prefix r p :
    accept_or (fst r, sh (snd r)) (fun s => accept_prefix s p) =
    (fst (accept_or r (fun s => accept_prefix s p)), sh (snd (accept_or r (fun s => accept_prefix s p)))).
  Proof. apply sh_accept_or. intros; apply sh_accept_prefix. Qed.

  (** results in lock step; a state function that is stuck (backup at offset 0 of the short text)
      has no counterpart — never the case in a scan (scan_never_stuck) *)
  Definition lsim (r r' : lres sc) : Prop :=
    match r with
    | LOk a => r' = LOk (sh a)
    | LRaise m l c a => r' = LRaise m (l + Z.of_nat k)%Z c (sh a) /\ (0 <= l)%Z
    | LStuck => True
    | LOutOfFuel => r' = LOutOfFuel
    end.

  Lemma lsim_bind r r' (h h' : sc -> lres sc) :
    lsim r r' -> (forall a, lsim (h a) (h' (sh a))) -> lsim (lbind r h) (lbind r' h').
  Proof.
    destruct r as [a|m l c a| |]; cbn [lsim lbind]; intros H1 H2; auto.
    - subst r'. apply H2.
    - destruct H1 as [-> ?]. cbn. auto.
    - subst r'. reflexivity.
  Qed.

  Lemma lsim_ok a : lsim (LOk a) (LOk (sh a)).
  Proof. reflexivity. Qed.

  Lemma lsim_raise m x a : lsim (raise m (get_position x) a) (raise m (get_position (sh x)) (sh a)).
  Proof.
    rewrite sh_get_position. unfold raise. cbn [fst snd lsim]. split; [reflexivity|].
    unfold get_position. cbn [fst]. lia.
  Qed.

  Lemma sh_backup t : lsim (backup t) (backup (sh t)).
  Proof.
    unfold backup. rewrite sh_pos. destruct (pos t) as [|q]; [exact I|].
    rewrite Nat.add_succ_r. cbn [lsim]. f_equal.
  Qed.

  Lemma sh_accept_run c neg : forall F t, lsim (accept_run F t c neg) (accept_run F (sh t) c neg).
  Proof.
    induction F as [|F IH]; intros t; cbn [accept_run]; [reflexivity|].
    rewrite sh_accept. destruct (accept t c neg) as [b x]. cbn [fst snd].
    destruct b; [apply IH|reflexivity].
  Qed.

  Lemma sh_ignore_run c F t : lsim (ignore_run F t c) (ignore_run F (sh t) c).
  Proof. unfold ignore_run. apply lsim_bind; [apply sh_accept_run|]. intros a. reflexivity. Qed.

  Create HintDb shdb.
  Hint Resolve lsim_ok lsim_raise sh_backup sh_accept_run sh_ignore_run : shdb.

  Ltac sh_simpl :=
    repeat (rewrite ?sh_or_prefix, ?sh_peek, ?sh_peek_k, ?sh_next, ?sh_accept, ?sh_accept_prefix, ?sh_emit, ?sh_ignore,
                    ?sh_current_token_text, ?sh_cand, ?sh_cand3, ?sh_rest, ?sh_not_at_end, ?sh_accept_opcode;
            cbn [fst snd]).
  Ltac sh_step :=
    sh_simpl;
    match goal with
    | |- lsim (lbind _ _) (lbind _ _) => apply lsim_bind; [|intros ?]
    | |- lsim (LOk _) _ => cbn [lsim]; reflexivity
    | |- lsim (raise _ _ _) _ => apply lsim_raise
    | |- lsim (match ?x with _ => _ end) _ => destruct x
    | |- lsim _ _ => solve [eauto with shdb]
    | |- context [if ?c then _ else _] => destruct c
    end.
  Ltac sh_auto := repeat sh_step.

  Lemma sh_line_comment_loop : forall F t, lsim (line_comment_loop F t) (line_comment_loop F (sh t)).
  Proof.
    induction F as [|F IH]; intros t; cbn [line_comment_loop]; [reflexivity|].
    rewrite sh_next. destruct (next t) as [[x|] a]; cbn [fst snd]; [|reflexivity].
    destruct (Z.eqb x 10); [reflexivity|apply IH].
  Qed.

  Lemma sh_block_comment_loop x : forall F t,
    lsim (block_comment_loop F (get_position x) t) (block_comment_loop F (get_position (sh x)) (sh t)).
  Proof.
    induction F as [|F IH]; intros t; cbn [block_comment_loop]; [reflexivity|].
    rewrite sh_accept_prefix. destruct (accept_prefix t [42%Z; 47%Z]) as [b a]. cbn [fst snd].
    destruct b; [reflexivity|].
    rewrite sh_next. destruct (next a) as [[y|] a2]; cbn [fst snd]; [apply IH|apply lsim_raise].
  Qed.

  Lemma sh_quoted_loop x : forall F c t,
    lsim (quoted_loop F (get_position x) c t) (quoted_loop F (get_position (sh x)) c (sh t)).
  Proof.
    induction F as [|F IH]; intros c t; cbn [quoted_loop]; [reflexivity|].
    destruct (oz_is c 39); [rewrite sh_emit; reflexivity|].
    destruct (_ || _); [apply lsim_raise|].
    rewrite sh_peek.
    destruct (oz_is c 92 && (peek t =? 39)%Z).
    - rewrite sh_next. cbn [fst snd]. rewrite sh_next. destruct (next (snd (next t))) as [c' a]. cbn [fst snd]. apply IH.
    - rewrite sh_next. destruct (next t) as [c' a]. cbn [fst snd]. apply IH.
  Qed.

  Lemma sh_lex_quoted_string F t : lsim (lex_quoted_string F t) (lex_quoted_string F (sh t)).
  Proof.
    unfold lex_quoted_string. rewrite sh_next. destruct (next t) as [c a]. cbn [fst snd]. apply sh_quoted_loop.
  Qed.
  Hint Resolve sh_line_comment_loop sh_block_comment_loop sh_lex_quoted_string : shdb.

  Lemma sh_lex_identifier F t : lsim (lex_identifier F t) (lex_identifier F (sh t)).
  Proof. unfold lex_identifier. sh_auto. Qed.
  Hint Resolve sh_lex_identifier : shdb.

  Lemma sh_lex_number F t : lsim (lex_number F t) (lex_number F (sh t)).
  Proof. unfold lex_number. sh_auto. Qed.
  Hint Resolve sh_lex_number : shdb.

  Lemma sh_lex_expression_loop F : forall fuel t, lsim (lex_expression_loop fuel F t) (lex_expression_loop fuel F (sh t)).
  Proof.
    induction fuel as [|fuel IH]; intros t; cbn [lex_expression_loop]; [reflexivity|].
    sh_auto; rewrite <- ?sh_emit; apply IH.
  Qed.
  Lemma sh_lex_expression F t : lsim (lex_expression F t) (lex_expression F (sh t)).
  Proof. apply sh_lex_expression_loop. Qed.
  Hint Resolve sh_lex_expression : shdb.

  Lemma sh_lex_opcode_index F t : lsim (lex_opcode_index F t) (lex_opcode_index F (sh t)).
  Proof. unfold lex_opcode_index. sh_auto. Qed.
  Hint Resolve sh_lex_opcode_index : shdb.

  Lemma sh_lex_operand F t : lsim (lex_operand F t) (lex_operand F (sh t)).
  Proof. unfold lex_operand. sh_auto. Qed.
  Hint Resolve sh_lex_operand : shdb.

  Lemma sh_lex_opcode_size F t : lsim (lex_opcode_size F t) (lex_opcode_size F (sh t)).
  Proof. unfold lex_opcode_size. sh_auto. Qed.
  Hint Resolve sh_lex_opcode_size : shdb.

  Lemma sh_lex_opcode_tail F t : lsim (lex_opcode_tail F t) (lex_opcode_tail F (sh t)).
  Proof. unfold lex_opcode_tail. sh_auto. Qed.
  Hint Resolve sh_lex_opcode_tail : shdb.

  Lemma sh_lex_opcode F lx t : lsim (lex_opcode F lx t) (lex_opcode F lx (sh t)).
  Proof.
    unfold lex_opcode. rewrite sh_pos. sh_auto; rewrite ?sh_set_pos, <- ?sh_emit; sh_auto.
  Qed.
  Hint Resolve sh_lex_opcode : shdb.

  Lemma sh_lex_keyword F lx t : lsim (lex_keyword F lx t) (lex_keyword F lx (sh t)).
  Proof. unfold lex_keyword. sh_auto. Qed.
  Hint Resolve sh_lex_keyword : shdb.

  Lemma sh_lex_initial lx F t : lsim (lex_initial lx F t) (lex_initial lx F (sh t)).
  Proof. unfold lex_initial. sh_auto. Qed.

  (** the driver *)
  Hypothesis HL : length Lrev = k.

  Definition ssim (r r' : scan_result) : Prop :=
    match r with
    | ScanStuck => True
    | _ => r' = shift_result k (rev Trev) (rev Lrev) r
    end.

  Lemma py_index_shift (l : list str) (z : Z) : (0 <= z)%Z ->
    py_index (rev Lrev ++ l) (z + Z.of_nat k)%Z = py_index l z.
  Proof.
    intros Hz. unfold py_index.
    destruct (Z.leb_spec 0 z); [|lia]. destruct (Z.leb_spec 0 (z + Z.of_nat k)); [|lia].
    rewrite nth_error_app2 by (rewrite rev_length; lia). f_equal. rewrite rev_length. lia.
  Qed.

  Lemma sh_scan_handler F m l c t : (0 <= l)%Z ->
    ssim (scan_handler F m l c t) (scan_handler F m (l + Z.of_nat k)%Z c (sh t)).
  Proof.
    intros Hl. unfold scan_handler.
    pose proof (sh_accept_run eol_or_eof true F t) as H.
    destruct (accept_run F t eol_or_eof true) as [a|m' l' c' a| |]; cbn [lsim] in H.
    - rewrite H, sh_handle_line. cbn [ssim shift_result se_msg se_line se_col se_quoted se_lines se_toks].
      cbn [sh lines_rev toks_rev]. rewrite !rev_app_distr, map_rev, py_index_shift by assumption. reflexivity.
    - exact I.
    - exact I.
    - rewrite H. reflexivity.
  Qed.

  Lemma sh_scan_loop (state : nat -> sc -> lres sc) F :
    (forall t, lsim (state F t) (state F (sh t))) ->
    forall j t, ssim (scan_loop j F state t) (scan_loop j F state (sh t)).
  Proof.
    intros Hst. induction j as [|j IH]; intros t; cbn [scan_loop]; [reflexivity|].
    rewrite sh_not_at_end. destruct (pos t <? length (inp t)).
    - specialize (Hst t). destruct (state F t) as [a|m l c a| |]; cbn [lsim] in Hst.
      + rewrite Hst. rewrite sh_pos, sh_pos.
        assert (Eq : (n + pos a =? n + pos t) = (pos a =? pos t)).
        { destruct (Nat.eqb_spec (pos a) (pos t)) as [E1|E1]; destruct (Nat.eqb_spec (length s1 + pos a) (length s1 + pos t)) as [E2|E2]; auto; lia. }
        rewrite Eq.
        destruct (pos a =? pos t); [|apply IH].
        rewrite sh_ignore, sh_get_position, sh_pos. cbn [fst snd].
        replace (skipn (n + pos (ignore a)) (inp (sh (ignore a)))) with (skipn (pos (ignore a)) (inp (ignore a)))
          by (cbn [sh inp]; symmetry; apply skipn_app_shift).
        apply sh_scan_handler. unfold get_position. cbn [fst]. lia.
      + destruct Hst as [-> Hl]. apply sh_scan_handler. assumption.
      + exact I.
      + rewrite Hst. reflexivity.
    - rewrite sh_emit, sh_handle_line. cbn [ssim shift_result]. cbn [sh lines_rev toks_rev].
      rewrite !rev_app_distr, map_rev. reflexivity.
  Qed.
End Shift.
