(** Position closed forms over the raw text: the independent specification against which both the
    scanner theorems (Proofs/ScannerProofs.v) and the spec oracle (Oracle/Scano.v) are stated.
    Nothing here refers to the scanner model. *)
From A816 Require Export Base.Prelude.
From Coq Require Import Arith.
Open Scope nat_scope.

(** number of newlines in a text *)
Fixpoint count_nl (l : str) : nat :=
  match l with [] => 0 | c :: r => (if Z.eqb c 10 then 1 else 0) + count_nl r end.

(** index just after the last newline of a text (0 if there is none) *)
Fixpoint line_start_aux (l : str) (i acc : nat) : nat :=
  match l with [] => acc | c :: r => line_start_aux r (S i) (if Z.eqb c 10 then S i else acc) end.
Definition line_start (l : str) : nat := line_start_aux l 0 0.

(** Python's [text.split("\n")] *)
Fixpoint split_nl (l : str) : list str :=
  match l with
  | [] => [[]]
  | c :: r =>
      if Z.eqb c 10 then [] :: split_nl r
      else match split_nl r with
           | h :: t => (c :: h) :: t
           | [] => [[c]]
           end
  end.

(** line / column of the character at offset [off] of text [s] *)
Definition line_of (s : str) (off : nat) : nat := count_nl (firstn off s).
Definition col_of (s : str) (off : nat) : Z := (Z.of_nat off - Z.of_nat (line_start (firstn off s)))%Z.

(** text of line [k] (empty when there is no such line) *)
Definition line_text (s : str) (k : nat) : str := nth k (split_nl s) [].

(** offset of the first character of line [k]: [Some] iff the text has at least [k] newlines *)
Fixpoint line_offset_from (l : str) (k i : nat) {struct l} : option nat :=
  match k with
  | 0 => Some i
  | S k' =>
      match l with
      | [] => None
      | c :: r => line_offset_from r (if Z.eqb c 10 then k' else k) (S i)
      end
  end.
Definition line_offset (s : str) (k : nat) : option nat := line_offset_from s k 0.

(** prefix of a text up to (excluding) its first NUL or newline *)
Fixpoint until_nul_or_nl (l : str) : str :=
  match l with
  | [] => []
  | c :: r => if Z.eqb c 10 || Z.eqb c 0 then [] else c :: until_nul_or_nl r
  end.
